(* C07 — executable model of one block of pySDC's controller_nonMPI (pfasst and its stage methods).

   Source mirrored: /repo/pySDC/implementations/controller_classes/controller_nonMPI.py
     restart_block -> init_block          send_full / recv_full -> send_full / recv_full
     pfasst        -> pfasst              spread, predict, it_check, it_fine, it_down, it_coarse, it_up, default
     the loop `while not done: done = self.pfasst(MS_active)` of run -> run_block (fuelled)
   plus CheckConvergence.check_convergence (the `converged` expression) inside it_check.

   The numerical layer is an ORACLE: conv slot iter = "residual <= restol at the IT_CHECK of that iteration",
   fdone / fcont slot iter = another convergence controller sets status.force_done / force_continue there.
   Every convergence pattern is a value of this oracle.

   A block has n active steps; the active slots are 0..n-1 (run() activates a prefix of the slots), so the
   slot of a step is its position in the list and S.prev is the list predecessor (cyclically for the first).
   Mutation = functional update at an index; exceptions = Err constructor; user callbacks and the
   data-moving operations = events appended to a trace.  No proofs in this file. *)
From Coq Require Import List Bool Arith ZArith.
Import ListNotations.

Inductive stage := SPREAD | PREDICT | IT_CHECK | IT_FINE | IT_DOWN | IT_COARSE | IT_UP | DONE.
Inductive ptype := PNone | PFineOnly | PBurnin | PFmg | POther.       (* params.predict_type *)
Inductive error := ControllerError | CommunicationError | UnlockError | AssertionError
                 | NotImplementedError | IndexError.
Inductive hook := PreStep | PrePredict | PostPredict | PreIteration | PreSweep | PostSweep
                | PostIteration | PostStep.

Definition tag := (nat * nat * nat)%type.          (* (level, iter, slot) *)

Definition stage_eqb (a b : stage) : bool :=
  match a, b with
  | SPREAD, SPREAD | PREDICT, PREDICT | IT_CHECK, IT_CHECK | IT_FINE, IT_FINE | IT_DOWN, IT_DOWN
  | IT_COARSE, IT_COARSE | IT_UP, IT_UP | DONE, DONE => true
  | _, _ => false
  end.

Definition tag_eqb (a b : tag) : bool :=
  let '(a1, a2, a3) := a in let '(b1, b2, b3) := b in
  (a1 =? b1) && (a2 =? b2) && (a3 =? b3).

Definition otag_eqb (a b : option tag) : bool :=
  match a, b with
  | Some x, Some y => tag_eqb x y
  | None, None => true
  | _, _ => false
  end.

(* S.status.* and, per level, level.tag / level.status.sweep / level.status.unlocked *)
Record step := mkStep {
  st_stage : stage; st_iter : nat; st_done : bool; st_prev_done : bool;
  st_first : bool; st_last : bool; st_force_done : bool;
  st_tags : list (option tag); st_sweeps : list nat; st_unlocked : list bool }.

Record cfg := mkCfg {
  nlev : nat;               (* len(S.levels) *)
  maxiter : nat;            (* step_params.maxiter *)
  nsweeps : list nat;       (* controller.nsweeps, one per level *)
  predict_type : ptype;
  mssdc_jac : bool;
  all_to_done : bool }.

Record oracle := mkOracle {
  conv : nat -> nat -> bool;      (* slot, iter *)
  fdone : nat -> nat -> bool;
  fcont : nat -> nat -> bool }.

(* events local to one step (the slot is added by the loop combinator) *)
Inductive levent :=
| LHook (h : hook) (level iter : nat) (st : stage) (sweep : nat) (done pdone : bool)
| LPredict (level : nat)
| LSweep (level : nat)                       (* sweep.update_nodes *)
| LResid (level : nat) (st : stage)          (* sweep.compute_residual(stage) *)
| LEndPt (level : nat)                       (* sweep.compute_end_point *)
| LSend (level : nat) (t : tag)
| LRecv (level : nat) (expected : tag) (found : option tag)
| LTransfer (src dst : nat).

Definition event := (nat * levent)%type.     (* (slot, what) *)

Record bstate := mkB { ms : list step; tr : list event }.

Inductive res := Ok (s : bstate) | Err (e : error) (s : bstate).
Inductive sres := SOk (st : step) (evs : list levent) | SErr (e : error) (evs : list levent).

(* ------------------------------------------------------------------ small list helpers *)

Fixpoint upd {A} (i : nat) (x : A) (l : list A) : list A :=
  match l, i with
  | [], _ => []
  | _ :: t, 0 => x :: t
  | h :: t, S j => h :: upd j x t
  end.

Definition set_stage (s : stage) (st : step) : step :=
  mkStep s (st_iter st) (st_done st) (st_prev_done st) (st_first st) (st_last st) (st_force_done st)
         (st_tags st) (st_sweeps st) (st_unlocked st).
Definition set_tags (t : list (option tag)) (st : step) : step :=
  mkStep (st_stage st) (st_iter st) (st_done st) (st_prev_done st) (st_first st) (st_last st) (st_force_done st)
         t (st_sweeps st) (st_unlocked st).
Definition set_sweeps (t : list nat) (st : step) : step :=
  mkStep (st_stage st) (st_iter st) (st_done st) (st_prev_done st) (st_first st) (st_last st) (st_force_done st)
         (st_tags st) t (st_unlocked st).
Definition set_unlocked (t : list bool) (st : step) : step :=
  mkStep (st_stage st) (st_iter st) (st_done st) (st_prev_done st) (st_first st) (st_last st) (st_force_done st)
         (st_tags st) (st_sweeps st) t.
Definition set_check (it : nat) (d pd fd : bool) (st : step) : step :=
  mkStep (st_stage st) it d pd (st_first st) (st_last st) fd (st_tags st) (st_sweeps st) (st_unlocked st).

Definition hook_ev (h : hook) (level : nat) (st : step) : levent :=
  LHook h level (st_iter st) (st_stage st) (nth level (st_sweeps st) 0) (st_done st) (st_prev_done st).

(* ------------------------------------------------------------------ step-local monad *)

(* a body sees the whole (current) list read-only, its index and its own step *)
Definition body := list step -> nat -> step -> sres.

Definition sbind (r : sres) (f : step -> sres) : sres :=
  match r with
  | SOk st evs => match f st with
                  | SOk st' evs' => SOk st' (evs ++ evs')
                  | SErr e evs' => SErr e (evs ++ evs')
                  end
  | SErr e evs => SErr e evs
  end.

Definition emit (evs : list levent) (st : step) : sres := SOk st evs.

Definition tag_events (i : nat) (evs : list levent) : list event := map (fun e => (i, e)) evs.

(* `for S in <steps at positions idxs>: body`  *)
Fixpoint for_steps (idxs : list nat) (b : body) (s : bstate) : res :=
  match idxs with
  | [] => Ok s
  | i :: rest =>
      match nth_error (ms s) i with
      | None => Err IndexError s
      | Some st =>
          match b (ms s) i st with
          | SOk st' evs => for_steps rest b (mkB (upd i st' (ms s)) (tr s ++ tag_events i evs))
          | SErr e evs => Err e (mkB (ms s) (tr s ++ tag_events i evs))
          end
      end
  end.

Definition rbind (r : res) (f : bstate -> res) : res :=
  match r with Ok s => f s | Err e s => Err e s end.
Notation "r >>= f" := (rbind r f) (at level 50, left associativity).

(* `for x in xs: f x` at block level *)
Fixpoint for_each {A} (xs : list A) (f : A -> bstate -> res) (s : bstate) : res :=
  match xs with
  | [] => Ok s
  | x :: rest => f x s >>= for_each rest f
  end.

(* ------------------------------------------------------------------ send_full / recv_full *)

Definition dummy_step : step := mkStep DONE 0 false false false false false [] [] [].

(* S.prev = MS[active_slots[j-1]] : list predecessor, the last one for j = 0 *)
Definition prev_idx (n i : nat) : nat := match i with 0 => n - 1 | S j => j end.

Definition send_full (l : nat) (i : nat) (st : step) : sres :=
  if st_last st then SOk st []
  else let t := (l, st_iter st, i) in
       SOk (set_tags (upd l (Some t) (st_tags st)) st) [LSend l t; LEndPt l].

Definition recv_full (l : nat) (msl : list step) (i : nat) (st : step) : sres :=
  if negb (st_prev_done st) && negb (st_first st) then
    let p := prev_idx (length msl) i in
    let src := nth p msl dummy_step in
    let found := nth l (st_tags src) None in
    let t := (l, st_iter st, p) in
    if otag_eqb found (Some t) then SOk st [LRecv l t found]
    else SErr CommunicationError [LRecv l t found]
  else SOk st [].

(* sweep.update_nodes asserts L.status.unlocked *)
Definition update_nodes (l : nat) (st : step) : sres :=
  if nth l (st_unlocked st) false then SOk st [LSweep l] else SErr AssertionError [].

(* S.transfer(source=levels[a], target=levels[b]): restrict (a<b) unlocks the target; both need the
   level they read from (fine for restrict, coarse for prolong) to be unlocked *)
Definition transfer (a b : nat) (st : step) : sres :=
  if a <? b then
    if nth a (st_unlocked st) false
    then SOk (set_unlocked (upd b true (st_unlocked st)) st) [LTransfer a b]
    else SErr UnlockError [LTransfer a b]
  else
    if nth a (st_unlocked st) false then SOk st [LTransfer a b] else SErr UnlockError [LTransfer a b].

(* pre_sweep; update_nodes; compute_residual(stage); post_sweep on level l *)
Definition sweep_block (l : nat) (sg : stage) (st : step) : sres :=
  sbind (emit [hook_ev PreSweep l st] st) (fun st =>
  sbind (update_nodes l st) (fun st =>
  emit [LResid l sg; hook_ev PostSweep l st] st)).

Definition b_sendrecv (l : nat) : body := fun msl i st =>
  sbind (send_full l i st) (recv_full l msl i).

Definition b_sweep (l : nat) (sg : stage) : body := fun _ _ st => sweep_block l sg st.
Definition b_set_stage (sg : stage) : body := fun _ _ st => SOk (set_stage sg st) [].
Definition b_transfer (a b : nat) : body := fun _ _ st => transfer a b st.

(* ------------------------------------------------------------------ the stages *)

Section Stages.
Variable c : cfg.
Variable o : oracle.

Definition nsw (l : nat) : nat := nth l (nsweeps c) 0.

Definition spread (run : list nat) : bstate -> res :=
  for_steps run (fun _ _ st =>
    SOk (set_stage (if 1 <? nlev c then PREDICT else IT_CHECK)
           (set_unlocked (upd 0 true (st_unlocked st)) st))
        [hook_ev PreStep 0 st; LPredict 0]).

(* pfasst_burnin, middle part: for q: (for p>=q: coarse sweep + send), (for p>q: recv) *)
Definition burnin_round (run : list nat) (q : nat) (s : bstate) : res :=
  let lc := nlev c - 1 in
  for_steps (skipn q run) (fun _ i st => sbind (update_nodes lc st) (send_full lc i)) s >>=
  for_steps (skipn (S q) run) (fun msl i st => recv_full lc msl i st).

(* the branch on params.predict_type inside predict *)
Definition predict_mid (run : list nat) (s : bstate) : res :=
  match predict_type c with
  | PNone => Ok s
  | PFineOnly => for_steps run (fun _ _ st => update_nodes 0 st) s
  | PBurnin =>
      for_steps run (fun _ _ st =>
        fold_left (fun r l => sbind r (transfer (l - 1) l)) (seq 1 (nlev c - 1)) (SOk st [])) s >>=
      for_each (seq 0 (length run)) (burnin_round run) >>=
      for_steps run (fun msl i st =>
        sbind (fold_left (fun r l => sbind r (transfer l (l - 1))) (rev (seq 1 (nlev c - 1))) (SOk st []))
              (fun st => sbind (send_full 0 i st) (recv_full 0 msl i))) >>=
      for_steps run (fun _ _ st => update_nodes 0 st)
  | PFmg => Err NotImplementedError s
  | POther => Err ControllerError s
  end.

Definition predict (run : list nat) (s : bstate) : res :=
  for_steps run (fun _ _ st => SOk st [hook_ev PrePredict 0 st]) s >>=
  predict_mid run >>=
  for_steps run (fun _ _ st => SOk st [hook_ev PostPredict 0 st]) >>=
  for_steps run (b_set_stage IT_CHECK).

(* CheckConvergence.check_convergence with e_tol absent *)
Definition converged (i : nat) (st : step) (fd : bool) : bool :=
  ((maxiter c <=? st_iter st) || conv o i (st_iter st) || fd) && negb (fcont o i (st_iter st)).

Definition next_stage (nrun : nat) : stage :=
  if 1 <? nlev c then IT_DOWN
  else if (nrun =? 1) || mssdc_jac c then IT_FINE else IT_COARSE.

(* it_check, loop 1: send, receive, residual *)
Definition check_loop1 (run : list nat) : bstate -> res :=
  for_steps run (fun msl i st =>
    sbind (b_sendrecv 0 msl i st) (fun st => emit [LResid 0 IT_CHECK] st)).

(* loop 2: post_iteration hook, convergence controllers decide status.done *)
Definition check_loop2 (run : list nat) : bstate -> res :=
  for_steps run (fun _ i st =>
    let fd := st_force_done st || fdone o i (st_iter st) in
    SOk (set_check (st_iter st) (converged i st fd) (st_prev_done st) fd st)
        (if 0 <? st_iter st then [hook_ev PostIteration 0 st] else [])).

(* loop 3: communicate done-ness, then start the next iteration or finish the step *)
Definition check_loop3 (run : list nat) : bstate -> res :=
  for_steps run (fun msl i st =>
    let pd := if st_first st then st_prev_done st
              else st_done (nth (prev_idx (length msl) i) msl dummy_step) in
    let d1 := if st_first st then st_done st else st_done st && pd in
    let d2 := if all_to_done c
              then forallb (fun j => if j =? i then d1 else st_done (nth j msl dummy_step)) run
              else d1 in
    if d2 then
      let st' := set_check (st_iter st) d2 pd (st_force_done st) st in
      SOk (set_stage DONE st') [LEndPt 0; hook_ev PostStep 0 st']
    else
      let st' := set_check (S (st_iter st)) d2 pd (st_force_done st) st in
      SOk (set_stage (next_stage (length run)) st') [hook_ev PreIteration 0 st']).

Definition it_check (run : list nat) (s : bstate) : res :=
  check_loop1 run s >>= check_loop2 run >>= check_loop3 run.

Definition it_fine (run : list nat) (s : bstate) : res :=
  for_steps run (fun _ _ st => SOk (set_sweeps (upd 0 0 (st_sweeps st)) st) []) s >>=
  for_each (seq 0 (nsw 0)) (fun _ s =>
    for_steps run (fun _ _ st => SOk (set_sweeps (upd 0 (S (nth 0 (st_sweeps st) 0)) (st_sweeps st)) st) []) s >>=
    for_steps run (b_sendrecv 0) >>=
    for_steps run (b_sweep 0 IT_FINE)) >>=
  for_steps run (b_set_stage IT_CHECK).

(* nsweeps[l] rounds of (send/recv on l ; sweep on l) *)
Definition mid_sweeps (run : list nat) (l : nat) (sg : stage) : bstate -> res :=
  for_each (seq 0 (nsw l)) (fun _ s =>
    for_steps run (b_sendrecv l) s >>= for_steps run (b_sweep l sg)).

Definition it_down (run : list nat) (s : bstate) : res :=
  (if nlev c <? 2 then Err IndexError s else for_steps run (b_transfer 0 1) s) >>=
  for_each (seq 1 (nlev c - 2)) (fun l s =>
    mid_sweeps run l IT_DOWN s >>= for_steps run (b_transfer l (S l))) >>=
  for_steps run (b_set_stage IT_COARSE).

Definition it_coarse (run : list nat) : bstate -> res :=
  let lc := nlev c - 1 in
  for_steps run (fun msl i st =>
    sbind (recv_full lc msl i st) (fun st =>
    sbind (sweep_block lc IT_COARSE st) (fun st =>
    sbind (send_full lc i st) (fun st =>
    SOk (set_stage (if 1 <? nlev c then IT_UP else IT_CHECK) st) [])))).

Definition it_up (run : list nat) (s : bstate) : res :=
  for_each (rev (seq 1 (nlev c - 1))) (fun l s =>
    for_steps run (b_transfer l (l - 1)) s >>= fun s =>
    if 0 <? l - 1 then mid_sweeps run (l - 1) IT_UP s else Ok s) s >>=
  for_steps run (b_set_stage IT_FINE).

Fixpoint all_same (l : list stage) : bool :=
  match l with
  | a :: ((b :: _) as t) => stage_eqb a b && all_same t
  | _ => true
  end.

Definition running (msl : list step) : list nat :=
  filter (fun i => negb (stage_eqb (st_stage (nth i msl dummy_step)) DONE)) (seq 0 (length msl)).

Definition all_done (msl : list step) : bool := forallb st_done msl.

(* one call of controller.pfasst: Ok state (the caller tests all_done) or the exception *)
Definition pfasst (s : bstate) : res :=
  let run := running (ms s) in
  let stages := map (fun i => st_stage (nth i (ms s) dummy_step)) run in
  if all_same stages then
    match stages with
    | [] => Err IndexError s                      (* stages[0] on an empty list *)
    | sg :: _ =>
        match sg with
        | SPREAD => spread run s
        | PREDICT => predict run s
        | IT_CHECK => it_check run s
        | IT_FINE => it_fine run s
        | IT_DOWN => it_down run s
        | IT_COARSE => it_coarse run s
        | IT_UP => it_up run s
        | DONE => Err ControllerError s           (* switcher default *)
        end
    end
  else Err ControllerError s.

Inductive outcome := Finished (s : bstate) | Raised (e : error) (s : bstate) | OutOfFuel (s : bstate).

(* done = False; while not done: done = pfasst(MS_active) *)
Fixpoint run_block (fuel : nat) (s : bstate) : outcome :=
  match fuel with
  | 0 => OutOfFuel s
  | S f => match pfasst s with
           | Err e s' => Raised e s'
           | Ok s' => if all_done (ms s') then Finished s' else run_block f s'
           end
  end.

End Stages.

(* restart_block: the fields it resets, for n active steps *)
Definition init_step (nl n i : nat) : step :=
  mkStep SPREAD 0 false false (i =? 0) (i =? n - 1) false (repeat None nl) (repeat 1 nl) (repeat false nl).

Definition init_block (nl n : nat) : bstate := mkB (map (init_step nl n) (seq 0 n)) [].

(* enough for every block in which no iteration beyond `bound` is forced: 2 + 5 calls per check round *)
Definition fuel_for (bound : nat) : nat := 2 + 5 * (bound + 1).

Definition run_model (c : cfg) (o : oracle) (n fuel : nat) : outcome :=
  run_block c o fuel (init_block (nlev c) n).

(* ------------------------------------------------------------------ integer code of a trace
   (the same code is computed by harness/scripted.py: encode_events) *)

Definition hook_id (h : hook) : nat :=
  match h with PreStep => 0 | PrePredict => 1 | PostPredict => 2 | PreIteration => 3 | PreSweep => 4
             | PostSweep => 5 | PostIteration => 6 | PostStep => 7 end.
Definition stage_id (s : stage) : nat :=
  match s with SPREAD => 0 | PREDICT => 1 | IT_CHECK => 2 | IT_FINE => 3 | IT_DOWN => 4 | IT_COARSE => 5
             | IT_UP => 6 | DONE => 7 end.
Definition b2n (b : bool) : nat := if b then 1 else 0.

Definition event_fields (e : event) : list nat :=
  let '(slot, le) := e in
  match le with
  | LHook h l it sg sw d pd => [1; hook_id h; slot; l; it; stage_id sg; sw; b2n d; b2n pd]
  | LPredict l => [2; slot; l]
  | LSweep l => [3; slot; l]
  | LResid l sg => [4; slot; l; stage_id sg]
  | LEndPt l => [5; slot; l]
  | LSend l (a, b, d) => [6; slot; l; a; b; d]
  | LRecv l (a, b, d) f =>
      [7; slot; l; a; b; d] ++ match f with None => [0; 0; 0; 0] | Some (x, y, z) => [1; x; y; z] end
  | LTransfer a b => [8; slot; a; b]
  end.

Definition encode_event (e : event) : Z :=
  fold_left (fun a f => (a * 64 + Z.of_nat (S f))%Z) (event_fields e) 0%Z.

(* one number per event (at most 10 fields of 6 bits) *)
Definition encode_trace (t : list event) : list Z := map encode_event t.

Fixpoint zlist_eqb (a b : list Z) : bool :=
  match a, b with
  | [], [] => true
  | x :: a', y :: b' => Z.eqb x y && zlist_eqb a' b'
  | _, _ => false
  end.

Definition error_code (e : error) : nat :=
  match e with
  | ControllerError => 1 | CommunicationError => 2 | UnlockError => 3 | AssertionError => 4
  | NotImplementedError => 5 | IndexError => 6
  end.

Definition outcome_code (r : outcome) : nat * list Z :=
  match r with
  | Finished s => (0, encode_trace (tr s))
  | Raised e s => (error_code e, encode_trace (tr s))
  | OutOfFuel s => (7, encode_trace (tr s))
  end.

(* oracle tables as bit masks: bit (slot * width + iter) *)
Definition bit_oracle (width : nat) (cv fd fc : Z) : oracle :=
  let f m := fun slot it => (it <? width) && Z.testbit m (Z.of_nat (slot * width + it)) in
  mkOracle (f cv) (f fd) (f fc).
