(* C02/C03/C01/C10 — executable model of pySDC's sweepers.

   Numbers: an arbitrary type K with ring operations (laws are hypotheses of the proof files, not of
   the model).  Solution values: V := X -> K for an arbitrary component index set X, with pointwise
   operations; the right-hand side  feval : K -> V -> nat -> V  is an ARBITRARY function of time and
   state returning one vector per "part" (1 part: generic_implicit / explicit; 2 parts impl, expl:
   imex_1st_order; comp1, comp2: multi_implicit), so nonlinear and coupled problems are covered.
   Node-indexed data are functions nat -> _ with functional update; index 0 is the initial value.

   The definitions mirror the loops of
     pySDC/implementations/sweeper_classes/{generic_implicit,imex_1st_order,explicit,multi_implicit}.py
     pySDC/core/sweeper.py (predict 'spread'/'copy'/'zero', compute_residual)
   one loop at a time; mutation becomes a new value. *)
From Coq Require Import List Arith Bool.
Import ListNotations.

Section SweepModel.
  Context {K : Type} (kO kI : K) (kadd kmul ksub : K -> K -> K) (kopp : K -> K) (keqb : K -> K -> bool).
  Context {X : Type}.
  Notation V := (X -> K).

  Local Infix "+" := kadd.
  Local Infix "*" := kmul.
  Local Infix "-" := ksub.

  Definition vzero : V := fun _ => kO.
  Definition vadd (a b : V) : V := fun x => a x + b x.
  Definition vsub (a b : V) : V := fun x => a x - b x.
  Definition vscale (c : K) (a : V) : V := fun x => c * a x.

  Definition upd {A} (g : nat -> A) (i : nat) (v : A) : nat -> A :=
    fun j => if Nat.eqb j i then v else g j.

  (* `acc += term j` for j = lo, lo+1, ..., lo+n-1  (the shape of every accumulation loop) *)
  Definition accum (acc : V) (lo n : nat) (term : nat -> V) : V :=
    fold_left (fun a j => vadd a (term j)) (seq lo n) acc.
  Definition accum_sub (acc : V) (lo n : nat) (term : nat -> V) : V :=
    fold_left (fun a j => vsub a (term j)) (seq lo n) acc.

  (* sum of the parts of a right-hand side evaluation *)
  Fixpoint ftot (np : nat) (fp : nat -> V) : V :=
    match np with O => vzero | S p => vadd (ftot p fp) (fp p) end.

  (* ---------------------------------------------------------------- data of one level *)
  Variable M : nat.                       (* number of collocation nodes *)
  Variable dt t0 : K.
  Variable nodes : nat -> K.              (* nodes m, m = 1..M  (coll.nodes[m-1]) *)
  Variable Q : nat -> nat -> K.           (* coll.Qmat, rows/cols 0..M *)
  Variable weights : nat -> K.            (* weights m, m = 1..M *)
  Variable np : nat.                      (* number of right-hand-side parts *)
  Variable feval : K -> V -> nat -> V.    (* P.eval_f(u, t) : part p *)
  Variable QD : nat -> nat -> nat -> K.   (* preconditioner matrix of part p: QD p m j *)

  Definition tnode (m : nat) : K := t0 + dt * nodes m.

  (* integrate():  me[m] = sum_{j=1..M} dt*Q[m,j]*(sum of parts of f[j]) *)
  Definition integrate (f : nat -> nat -> V) (m : nat) : V :=
    accum vzero 1 M (fun j => vscale (dt * Q m j) (ftot np (f j))).

  (* the term  dt * (sum_p QD_p[m,j] * f[j].p)  subtracted in the gather loop, added in the sweep loop *)
  Fixpoint qd_term (p : nat) (f : nat -> nat -> V) (m j : nat) : V :=
    match p with O => vzero | S p' => vadd (qd_term p' f m j) (vscale (QD p' m j) (f j p')) end.
  Definition dqd_term (f : nat -> nat -> V) (m j : nat) : V := vscale dt (qd_term np f m j).

  (* gather loop: integral[m] - sum_{j=lo..M} dqd_term + u0 (+ tau[m]) ; lo = 1 (0 for the mass sweeper) *)
  Definition gather (lo : nat) (u0 : V) (f : nat -> nat -> V) (tau : nat -> option V) (m : nat) : V :=
    let s := accum_sub (integrate f m) lo (S M - lo) (dqd_term f m) in
    let s := vadd s u0 in
    match tau m with Some tm => vadd s tm | None => s end.

  (* node solve of each sweeper: given rhs, node index, old node value -> new node value *)
  Variable node_solve : V -> nat -> V -> V.

  (* sweep loop over the nodes in the order given *)
  Fixpoint sweep_loop (lo : nat) (g : nat -> V) (ms : list nat) (st : (nat -> V) * (nat -> nat -> V))
    : (nat -> V) * (nat -> nat -> V) :=
    match ms with
    | [] => st
    | m :: ms' =>
        let '(u', f') := st in
        let rhs := accum (g m) lo (m - lo) (dqd_term f' m) in
        let um := node_solve rhs m (u' m) in
        sweep_loop lo g ms' (upd u' m um, upd f' m (feval (tnode m) um))
    end.

  (* update_nodes() *)
  Definition update_nodes (u : nat -> V) (f : nat -> nat -> V) (tau : nat -> option V)
    : (nat -> V) * (nat -> nat -> V) :=
    sweep_loop 1 (gather 1 (u 0) f tau) (seq 1 M) (u, f).

  (* compute_end_point() *)
  Definition end_point (right_is_node do_coll_update : bool) (u : nat -> V) (f : nat -> nat -> V)
             (tau : nat -> option V) : V :=
    if right_is_node && negb do_coll_update then u M
    else
      let s := accum (u 0) 1 M (fun m => vscale (dt * weights m) (ftot np (f m))) in
      match tau M with Some tm => vadd s tm | None => s end.

  (* compute_residual(): the residual vector of node m (before taking norms) *)
  Definition residual_vec (u : nat -> V) (f : nat -> nat -> V) (tau : nat -> option V) (m : nat) : V :=
    let r := vadd (integrate f m) (vsub (u 0) (u m)) in
    match tau m with Some tm => vadd r tm | None => r end.

  (* predict(): 'spread' and 'copy' *)
  Definition predict_spread (u0 : V) : (nat -> V) * (nat -> nat -> V) :=
    (fun _ => u0, fun m => feval (if Nat.eqb m 0 then t0 else tnode m) u0).
  Definition predict_copy (u0 : V) : (nat -> V) * (nat -> nat -> V) :=
    (fun _ => u0, fun _ => feval t0 u0).

End SweepModel.

(* ---------------------------------------------------------------- the concrete sweepers *)
Section Sweepers.
  Context {K : Type} (kO kI : K) (kadd kmul ksub : K -> K -> K) (keqb : K -> K -> bool).
  Context {X : Type}.
  Notation V := (X -> K).
  Variable M : nat.
  Variable dt t0 : K.
  Variable nodes : nat -> K.
  Variable Q : nat -> nat -> K.

  (* solve_system(rhs, factor, u_guess, t) of the problem, per implicit part *)
  Variable solve : nat -> V -> K -> V -> K -> V.
  Variable feval : K -> V -> nat -> V.

  Let tn := tnode kadd kmul dt t0 nodes.

  (* generic_implicit: one part, QI; skips the solve when dt*QI[m,m] == 0 *)
  Definition gi_node_solve (QI : nat -> nat -> K) (rhs : V) (m : nat) (uold : V) : V :=
    let alpha := kmul dt (QI m m) in
    if keqb alpha kO then rhs else solve 0 rhs alpha uold (tn m).
  Definition gi_update (QI : nat -> nat -> K) :=
    update_nodes kO kadd kmul ksub M dt t0 nodes Q 1 feval (fun _ => QI) (gi_node_solve QI).

  (* imex_1st_order: parts 0 = impl (QI), 1 = expl (QE); always solves *)
  Definition imex_node_solve (QI : nat -> nat -> K) (rhs : V) (m : nat) (uold : V) : V :=
    solve 0 rhs (kmul dt (QI m m)) uold (tn m).
  Definition imex_update (QI QE : nat -> nat -> K) :=
    update_nodes kO kadd kmul ksub M dt t0 nodes Q 2 feval
                 (fun p => if Nat.eqb p 0 then QI else QE) (imex_node_solve QI).

  (* explicit: one part, QE; no solve *)
  Definition expl_node_solve (rhs : V) (m : nat) (uold : V) : V := rhs.
  Definition expl_update (QE : nat -> nat -> K) :=
    update_nodes kO kadd kmul ksub M dt t0 nodes Q 1 feval (fun _ => QE) expl_node_solve.

  (* multi_implicit: parts comp1 (Q1), comp2 (Q2): gather subtracts only the Q1 part; Q2int is kept
     separately; two successive solves per node *)
  Definition mi_Q2int (Q2 : nat -> nat -> K) (f : nat -> nat -> V) (m : nat) : V :=
    accum kadd (vzero kO) 1 M (fun j => vscale kmul (kmul dt (Q2 m j)) (f j 1)).
  Definition mi_gather (Q1 : nat -> nat -> K) (u0 : V) (f : nat -> nat -> V) (tau : nat -> option V) (m : nat) : V :=
    let integral := integrate kO kadd kmul M dt Q 2 f m in
    let s := accum_sub ksub integral 1 M (fun j => vscale kmul (kmul dt (Q1 m j)) (f j 0)) in
    let s := vadd kadd s u0 in
    match tau m with Some tm => vadd kadd s tm | None => s end.
  Fixpoint mi_loop (Q1 Q2 : nat -> nat -> K) (g q2int : nat -> V) (ms : list nat)
           (st : (nat -> V) * (nat -> nat -> V)) : (nat -> V) * (nat -> nat -> V) :=
    match ms with
    | [] => st
    | m :: ms' =>
        let '(u', f') := st in
        let rhs1 := accum kadd (g m) 1 (m - 1) (fun j => vscale kmul (kmul dt (Q1 m j)) (f' j 0)) in
        let u1 := solve 0 rhs1 (kmul dt (Q1 m m)) (u' m) (tn m) in
        let rhs2 := accum kadd (vsub ksub u1 (q2int m)) 1 (m - 1)
                          (fun j => vscale kmul (kmul dt (Q2 m j)) (f' j 1)) in
        let u2 := solve 1 rhs2 (kmul dt (Q2 m m)) u1 (tn m) in
        mi_loop Q1 Q2 g q2int ms' (upd u' m u2, upd f' m (feval (tn m) u2))
    end.
  Definition mi_update (Q1 Q2 : nat -> nat -> K) (u : nat -> V) (f : nat -> nat -> V) (tau : nat -> option V) :=
    mi_loop Q1 Q2 (mi_gather Q1 (u 0) f tau) (mi_Q2int Q2 f) (seq 1 M) (u, f).

  (* RungeKutta.update_nodes (one part; IMEX-RK: two parts): stage m starts from u0 (no gather of old
     values), adds dt*A[m,j]*f_j of the stages before it and solves with factor dt*A[m,m] unless A[m,m] = 0.
     (The code's skip of the last right-hand-side evaluation for stiffly accurate non-embedded schemes
     is not modelled: the value is never used.) *)
  Definition rk_node_solve (A : nat -> nat -> K) (rhs : V) (m : nat) (uold : V) : V :=
    if keqb (A m m) kO then rhs else solve 0 rhs (kmul dt (A m m)) uold (tn m).
  Definition rk_update (np : nat) (QDs : nat -> nat -> nat -> K) (u : nat -> V) (f : nat -> nat -> V) :=
    sweep_loop kO kadd kmul dt t0 nodes np feval QDs (rk_node_solve (QDs 0)) 1 (fun _ => u 0) (seq 1 M) (u, f).

  (* imex_1st_order_mass.update_nodes: like imex_1st_order, but (i) the gather and the node loop run over
     columns j = 0..M of QI/QE (column 0 of QE is the dTau column), (ii) on level 0 the mass matrix is
     applied to u0, (iii) the problem's solve_system inverts (mass - factor*f_impl). *)
  Definition mass_update (QI QE : nat -> nat -> K) (massop : V -> V) (level0 : bool)
             (u : nat -> V) (f : nat -> nat -> V) (tau : nat -> option V) :=
    let u0m := if level0 then massop (u 0) else u 0 in
    let QDs := fun p => if Nat.eqb p 0 then QI else QE in
    sweep_loop kO kadd kmul dt t0 nodes 2 feval QDs (imex_node_solve QI) 0
               (gather kO kadd kmul ksub M dt Q 2 QDs 0 u0m f tau) (seq 1 M) (u, f).

End Sweepers.
