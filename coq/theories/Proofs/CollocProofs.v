(* C05 — soundness of the collocation-table validator [check_coll]:
   finitely many checked moments  ==>  exactness for EVERY polynomial below the order. *)
From Coq Require Import ZArith QArith Qpower Qabs List Bool Lia.
From PySDC Require Import Base.Tactics Base.Dyadic Base.DyadicFast Base.Poly Model.Colloc.
Import ListNotations.
Open Scope Q_scope.

(* ---------------- exact integral of a polynomial, via its antiderivative ---------------------- *)

Definition qnat (n : nat) : Q := inject_Z (Z.of_nat n).

(* integral of x^k over [lo, hi] *)
Definition mono_int (lo hi : Q) (k : nat) : Q := (qpow hi (S k) - qpow lo (S k)) / qnat (S k).

(* integral of the polynomial with coefficient list c (lowest degree first) over [lo, hi] *)
Definition pint (c : list Q) (lo hi : Q) : Q := lin_from 0 c (mono_int lo hi).

(* antiderivative with zero constant term, and the formal derivative *)
Fixpoint antider_from (k : nat) (c : list Q) : list Q :=
  match c with [] => [] | a :: c' => a / qnat (S k) :: antider_from (S k) c' end.
Definition antider (c : list Q) : list Q := 0 :: antider_from 0 c.

Fixpoint deriv_from (k : nat) (c : list Q) : list Q :=   (* c holds the coefficients of x^k, x^(k+1), .. *)
  match c with [] => [] | a :: c' => qnat k * a :: deriv_from (S k) c' end.
Definition pderiv (c : list Q) : list Q := match c with [] => [] | _ :: c' => deriv_from 1 c' end.

Lemma qnat_S_pos k : 0 < qnat (S k).
Proof. unfold qnat. change 0 with (inject_Z 0). rewrite <- Zlt_Qlt. lia. Qed.

Lemma qnat_S_neq0 k : ~ qnat (S k) == 0.
Proof. intro H. pose proof (qnat_S_pos k) as P. rewrite H in P. discriminate P. Qed.

(* the formal derivative of the antiderivative is the polynomial itself (coefficientwise) *)
Lemma deriv_antider_from c : forall k, Forall2 Qeq (deriv_from (S k) (antider_from k c)) c.
Proof.
  induction c as [|a c IH]; intros k; cbn [antider_from deriv_from]; constructor.
  - field. apply qnat_S_neq0.
  - apply IH.
Qed.

Lemma pderiv_antider c : Forall2 Qeq (pderiv (antider c)) c.
Proof. unfold pderiv, antider. apply deriv_antider_from. Qed.

(* evaluating the antiderivative: P(x) = sum_j c_j x^(j+1)/(j+1) *)
Lemma peval_antider_from c : forall k x,
  qpow x (S k) * peval (antider_from k c) x == lin_from k c (fun j => qpow x (S j) / qnat (S j)).
Proof.
  induction c as [|a c IH]; intros k x; cbn [antider_from lin_from].
  - unfold peval; cbn. ring.
  - change (peval (a / qnat (S k) :: antider_from (S k) c) x)
      with (a / qnat (S k) + x * peval (antider_from (S k) c) x).
    rewrite <- IH. cbn [qpow]. field. apply qnat_S_neq0.
Qed.

Lemma peval_antider c x : peval (antider c) x == lin_from 0 c (fun j => qpow x (S j) / qnat (S j)).
Proof.
  unfold antider. change (peval (0 :: antider_from 0 c) x) with (0 + x * peval (antider_from 0 c) x).
  rewrite <- peval_antider_from. cbn [qpow]. ring.
Qed.

Lemma lin_from_sub c : forall k f g,
  lin_from k c (fun j => f j - g j) == lin_from k c f - lin_from k c g.
Proof.
  induction c as [|a c IH]; intros k f g; cbn [lin_from]; [ring|]. rewrite IH. ring.
Qed.

Lemma lin_from_ext c : forall k f g, (forall j, f j == g j) -> lin_from k c f == lin_from k c g.
Proof.
  induction c as [|a c IH]; intros k f g H; cbn [lin_from]; [reflexivity|]. rewrite H, (IH (S k) f g H). reflexivity.
Qed.

(* [pint] is the difference of the antiderivative at the end points (fundamental theorem, formally) *)
Lemma pint_antider c lo hi : pint c lo hi == peval (antider c) hi - peval (antider c) lo.
Proof.
  unfold pint. rewrite !peval_antider, <- lin_from_sub. apply lin_from_ext. intro j.
  unfold mono_int. field. apply qnat_S_neq0.
Qed.

(* ---------------- small list / forallb facts --------------------------------------------------- *)

Lemma forallb_seq (f : nat -> bool) a n :
  forallb f (seq a n) = true -> forall i, (a <= i < a + n)%nat -> f i = true.
Proof. intros H i Hi. rewrite forallb_forall in H. apply H. apply in_seq. exact Hi. Qed.

Lemma hd_nth (l : list dy) d : (0 < length l)%nat -> hd d l = nth 0 l d0.
Proof. destruct l; cbn; [lia | reflexivity]. Qed.

Lemma last_nth (l : list dy) d : (0 < length l)%nat -> last l d = nth (length l - 1) l d0.
Proof.
  induction l as [|x l IH]; cbn [length]; [lia|]. intros _.
  destruct l as [|y l]; [reflexivity|].
  change (last (x :: y :: l) d) with (last (y :: l) d). rewrite IH by (cbn; lia).
  cbn [length]. replace (S (S (length l)) - 1)%nat with (S (length l)) by lia.
  replace (S (length l) - 1)%nat with (length l) by lia. reflexivity.
Qed.

(* ---------------- moments ---------------------------------------------------------------------- *)

Definition QL (l : list dy) : list Q := map D2Q l.

Lemma D2Q_dmoment w : forall x k, D2Q (dmoment w x k) == moment (QL w) (QL x) k.
Proof.
  unfold moment, QL.
  induction w as [|wi w IH]; intros [|xi x] k; cbn [dmoment wsum map]; try reflexivity.
  rewrite D2Q_add, D2Q_mul, D2Q_dpow, IH. reflexivity.
Qed.

(* tolerance of the k-th moment condition:  rtol * sum_i |w_i| |x_i|^k  *)
Definition rule_tol (w x : list dy) (rtol : dy) (k : nat) : Q := D2Q rtol * D2Q (dmoment_abs w x k).

Fixpoint abs_moment (w x : list Q) (k : nat) : Q :=
  match w, x with wi :: w', xi :: x' => Qabs (wi * qpow xi k) + abs_moment w' x' k | _, _ => 0 end.

Lemma rule_tol_eq w x rtol k :
  rule_tol w x rtol k == D2Q rtol * abs_moment (QL w) (QL x) k.
Proof.
  unfold rule_tol. apply Qmult_comp; [reflexivity|]. unfold QL. revert x.
  induction w as [|wi w IH]; intros [|xi x]; cbn [dmoment_abs abs_moment map]; try reflexivity.
  rewrite D2Q_add, D2Q_abs, D2Q_mul, D2Q_dpow, IH. reflexivity.
Qed.

Lemma Qabs_div_bound K m T tau : 0 < K -> Qabs (K * m - T) <= K * tau -> Qabs (m - T / K) <= tau.
Proof.
  intros HK H.
  assert (HK0 : ~ K == 0) by (intro E; rewrite E in HK; discriminate HK).
  setoid_replace (m - T / K) with ((K * m - T) * / K) by (field; exact HK0).
  rewrite Qabs_Qmult. rewrite (Qabs_pos (/ K)) by (apply Qlt_le_weak, Qinv_lt_0_compat; exact HK).
  apply Qle_shift_div_r; [exact HK|]. rewrite (Qmult_comm tau K). exact H.
Qed.

Lemma qpow0 k : qpow 0 (S k) == 0.
Proof. cbn [qpow]. ring. Qed.

Lemma check_mom_sound w x top rtol k :
  check_mom w x top rtol k = true ->
  Qabs (moment (QL w) (QL x) k - mono_int 0 (D2Q top) k) <= rule_tol w x rtol k.
Proof.
  unfold check_mom, rule_tol, mono_int. cbv zeta.
  rewrite dleb_spec, D2Q_abs, D2Q_sub, !D2Q_mul, D2Q_dZ, D2Q_dmoment, D2Q_dpow. fold (qnat (S k)).
  intros H. rewrite qpow0. setoid_replace (qpow (D2Q top) (S k) - 0) with (qpow (D2Q top) (S k)) by ring.
  apply Qabs_div_bound with (K := qnat (S k)); [apply qnat_S_pos|]. exact H.
Qed.

(* ---- the fast organisation computes the same booleans ---- *)
Lemma zipmul_pow xs k : zipmul xs (map (fun x => dpow x k) xs) = map (fun x => dpow x (S k)) xs.
Proof. induction xs as [|x xs IH]; cbn [map zipmul dpow]; [reflexivity|]. rewrite IH. reflexivity. Qed.

Lemma fdot_pow w : forall xs k,
  fdot w (map (fun x => dpow x k) xs) = (dmoment w xs k, dmoment_abs w xs k).
Proof.
  induction w as [|wi w IH]; intros [|xi xs] k; cbn [fdot map dmoment dmoment_abs]; try reflexivity.
  rewrite IH, !fadd_eq. reflexivity.
Qed.

Lemma check_rule_from_eq w xs top rtol : forall n k,
  check_rule_from w (powtab_from xs (map (fun x => dpow x k) xs) n) rtol k (dpow top (S k)) top
  = forallb (check_mom w xs top rtol) (seq k n).
Proof.
  induction n as [|n IH]; intros k; cbn [powtab_from check_rule_from seq forallb]; [reflexivity|].
  rewrite fdot_pow, fleb_eq, fsub_eq, zipmul_pow.
  change (dmul top (dpow top (S k))) with (dpow top (S (S k))). rewrite IH. reflexivity.
Qed.

Lemma check_rule_fast_eq w xs top rtol n :
  check_rule_fast w (powtab xs n) top rtol = check_rule w xs top rtol n.
Proof. unfold check_rule_fast, powtab, check_rule. apply check_rule_from_eq. Qed.

(* the central step: n checked moments => every polynomial with at most n coefficients *)
Theorem check_rule_sound w x top rtol n :
  check_rule w x top rtol n = true ->
  forall c, (length c <= n)%nat ->
  Qabs (wsum (QL w) (QL x) (peval c) - pint c 0 (D2Q top)) <= abs_lin_from 0 c (rule_tol w x rtol).
Proof.
  unfold check_rule. intros H c Hlen. rewrite wsum_peval. unfold pint.
  apply (lin_from_diff_bound c 0%nat _ _ _ n).
  - intros j Hj. apply check_mom_sound. apply (forallb_seq _ _ _ H). lia.
  - lia.
Qed.

(* back to the unscaled weights and nodes: w_i*s, (x_i - a)*s  *)
Lemma wsum_hat (f : Q -> Q) (Hf : forall u v, u == v -> f u == f v) a s ws : forall xs,
  wsum (QL (map (fun w => dmul w s) ws)) (QL (map (hat a s) xs)) f
  == D2Q s * wsum (QL ws) (QL xs) (fun x => f ((x - D2Q a) * D2Q s)).
Proof.
  unfold QL. induction ws as [|w ws IH]; intros [|x xs]; cbn [map wsum]; try ring.
  rewrite IH. rewrite D2Q_mul.
  rewrite (Hf (D2Q (hat a s x)) ((D2Q x - D2Q a) * D2Q s)).
  - ring.
  - unfold hat. rewrite D2Q_mul, D2Q_sub. reflexivity.
Qed.

(* ---------------- the specification ------------------------------------------------------------- *)

Definition QA (t : coll_table) : Q := D2Q (ct_a t).
Definition QB (t : coll_table) : Q := D2Q (ct_b t).
Definition sigma (t : coll_table) : Q := D2Q (sig (ct_a t) (ct_b t)).     (* a power of two *)
Definition hatQ (t : coll_table) (x : Q) : Q := (x - QA t) * sigma t.       (* the scaled variable *)
Definition Qnodes (t : coll_table) : list Q := QL (ct_nodes t).
Definition Qweights (t : coll_table) : list Q := QL (ct_weights t).
Definition Qrow (t : coll_table) (m : nat) : list Q := QL (tl (nth m (ct_Q t) [])).   (* Qmat[m, 1:] *)
Definition Qent (A : list (list dy)) (i j : nat) : Q := D2Q (ent A i j).
Definition node (t : coll_table) (i : nat) : Q := D2Q (nth i (ct_nodes t) d0).
Definition nnodes (t : coll_table) : nat := length (ct_nodes t).

(* nodes *)
Definition spec_nodes (t : coll_table) : Prop :=
  QA t < QB t /\
  (forall i j, (i < j < nnodes t)%nat -> node t i < node t j) /\
  (forall i, (i < nnodes t)%nat -> QA t <= node t i <= QB t) /\
  (node t 0 == QA t <-> ct_left t = true) /\
  (node t (nnodes t - 1) == QB t <-> ct_right t = true).

(* weights: for every polynomial p_c(y) = sum_k c_k y^k in the scaled variable y = (x - a) sigma,
     sigma * sum_i w_i p_c(y_i)  =  int_0^{(b-a) sigma} p_c(y) dy   ( = sigma * int_a^b p_c(y(x)) dx )  *)
Definition spec_weights (t : coll_table) : Prop :=
  forall c, (length c <= ct_order t)%nat ->
  Qabs (sigma t * wsum (Qweights t) (Qnodes t) (fun x => peval c (hatQ t x)) - pint c 0 (hatQ t (QB t)))
  <= abs_lin_from 0 c (rule_tol (ct_what t) (ct_xhat t) (ct_rtol t)).

(* row m+1 of Qmat integrates from tleft to node m *)
Definition spec_Q (t : coll_table) : Prop :=
  forall m, (m < nnodes t)%nat ->
  forall c, (length c <= nnodes t)%nat ->
  Qabs (sigma t * wsum (Qrow t (S m)) (Qnodes t) (fun x => peval c (hatQ t x)) - pint c 0 (hatQ t (node t m)))
  <= abs_lin_from 0 c (rule_tol (ct_qhat t (S m)) (ct_xhat t) (ct_rtol t)).

Definition spec_pad (t : coll_table) : Prop :=
  (forall j, Qent (ct_Q t) 0 j == 0) /\ (forall i, Qent (ct_Q t) i 0 == 0) /\
  (forall j, Qent (ct_S t) 0 j == 0) /\ (forall i, Qent (ct_S t) i 0 == 0).

Definition S_tol (t : coll_table) (m j : nat) : Q :=
  D2Q (ct_stol t) * (Qabs (Qent (ct_Q t) (S m) j) + Qabs (Qent (ct_Q t) m j)).

Definition spec_S (t : coll_table) : Prop :=
  forall m j, (m < nnodes t)%nat -> (j <= nnodes t)%nat ->
  Qabs (Qent (ct_S t) (S m) j - (Qent (ct_Q t) (S m) j - Qent (ct_Q t) m j)) <= S_tol t m j.

(* Q[m] = sum_{l <= m} S[l] *)
Definition spec_cumsum (t : coll_table) : Prop :=
  forall m j, (m <= nnodes t)%nat -> (j <= nnodes t)%nat ->
  Qabs (Qent (ct_Q t) m j - qsum (map (fun l => Qent (ct_S t) (S l) j) (seq 0 m)))
  <= qsum (map (fun l => S_tol t l j) (seq 0 m)).

Definition spec_delta (t : coll_table) : Prop :=
  forall m, (m < nnodes t)%nat ->
  let x := node t m in
  let p := D2Q (nth m (ct_a t :: ct_nodes t) d0) in     (* tleft for m = 0, node m-1 otherwise *)
  Qabs (D2Q (nth m (ct_delta t) d0) - (x - p)) <= D2Q (ct_stol t) * (Qabs x + Qabs p).

Definition spec_upd (t : coll_table) : Prop :=
  ct_upd_out t = (ct_upd_in t || negb (ct_right t))%bool.

Definition coll_spec (t : coll_table) : Prop :=
  spec_nodes t /\ spec_weights t /\ spec_Q t /\ spec_pad t /\ spec_S t /\ spec_cumsum t /\ spec_delta t /\ spec_upd t.

(* ---------------- proofs of the clauses ---------------------------------------------------------- *)

Lemma increasing_head x l : increasing (x :: l) = true ->
  forall j, (j < length l)%nat -> D2Q x < D2Q (nth j l d0).
Proof.
  revert x. induction l as [|y l IH]; intros x H j Hj; [cbn in Hj; lia|].
  cbn [increasing] in H. apply andb_prop in H as [Hxy Hinc]. apply dltb_spec in Hxy.
  destruct j as [|j]; [exact Hxy|]. cbn [nth].
  eapply Qlt_trans; [exact Hxy|]. apply IH; [exact Hinc | cbn in Hj; lia].
Qed.

Lemma increasing_tail x l : increasing (x :: l) = true -> increasing l = true.
Proof. destruct l as [|y l]; [reflexivity|]. cbn [increasing]. intros H. apply andb_prop in H. apply H. Qed.

Lemma increasing_sound l : increasing l = true ->
  forall i j, (i < j < length l)%nat -> D2Q (nth i l d0) < D2Q (nth j l d0).
Proof.
  induction l as [|x l IH]; intros H i j Hij; [cbn in Hij; lia|].
  destruct i as [|i].
  - destruct j as [|j]; [lia|]. cbn [nth]. apply (increasing_head x l H). cbn in Hij; lia.
  - destruct j as [|j]; [lia|]. cbn [nth]. apply IH; [apply (increasing_tail x l H) | cbn in Hij; lia].
Qed.

Lemma Qle_lt_or_eq' x y : x <= y -> x < y \/ x == y.
Proof. intros H. apply Qle_lt_or_eq. exact H. Qed.

Lemma chk_nodes_sound t : (0 < nnodes t)%nat -> chk_nodes t = true -> spec_nodes t.
Proof.
  unfold chk_nodes, spec_nodes, nnodes, node, QA, QB. intros HM H.
  repeat (apply andb_prop in H as [H ?]).
  rename H into Hab. rename H4 into Hinc. rename H3 into Hlo. rename H2 into Hhi. rename H1 into Hl. rename H0 into Hr.
  rewrite (hd_nth _ _ HM) in *. rewrite (last_nth _ _ HM) in *.
  apply dltb_spec in Hab. apply dleb_spec in Hlo. apply dleb_spec in Hhi.
  pose proof (increasing_sound _ Hinc) as Hmono.
  split; [exact Hab|]. split; [exact Hmono|]. split; [|split].
  - intros i Hi. split.
    + destruct i as [|i]; [exact Hlo|]. eapply Qle_trans; [exact Hlo|]. apply Qlt_le_weak, Hmono. lia.
    + destruct (Nat.eq_dec i (length (ct_nodes t) - 1)) as [->|Hne]; [exact Hhi|].
      eapply Qle_trans; [|exact Hhi]. apply Qlt_le_weak, Hmono. lia.
  - apply eqb_prop in Hl. rewrite <- Hl. symmetry. apply deqb_spec.
  - apply eqb_prop in Hr. rewrite <- Hr. symmetry. apply deqb_spec.
Qed.

Lemma peval_proper c u v : u == v -> peval c u == peval c v.
Proof. apply peval_ext. Qed.

Lemma D2Q_top t : D2Q (ct_top t) == hatQ t (QB t).
Proof. unfold ct_top, hat, hatQ, QA, QB, sigma. rewrite D2Q_mul, D2Q_sub. reflexivity. Qed.

Lemma pint_ext c lo hi hi' : hi == hi' -> pint c lo hi == pint c lo hi'.
Proof.
  intros H. unfold pint. apply lin_from_ext. intro j. unfold mono_int. rewrite H. reflexivity.
Qed.

Lemma chk_weights_sound t : chk_weights t = true -> spec_weights t.
Proof.
  unfold chk_weights, spec_weights. rewrite check_rule_fast_eq. intros H c Hc.
  pose proof (check_rule_sound _ _ _ _ _ H c Hc) as B.
  pose proof (wsum_hat (peval c) (peval_proper c) (ct_a t) (sig (ct_a t) (ct_b t)) (ct_weights t) (ct_nodes t)) as E.
  change (wsum (QL (ct_what t)) (QL (ct_xhat t)) (peval c) ==
          sigma t * wsum (Qweights t) (Qnodes t) (fun x => peval c (hatQ t x))) in E.
  rewrite E in B. rewrite (pint_ext c 0 _ _ (D2Q_top t)) in B. exact B.
Qed.

Lemma D2Q_xhat_nth t m : (m < nnodes t)%nat -> D2Q (nth m (ct_xhat t) d0) == hatQ t (node t m).
Proof.
  intros Hm. unfold ct_xhat, hatQ, node, QA, sigma.
  rewrite (nth_indep _ d0 (hat (ct_a t) (sig (ct_a t) (ct_b t)) d0)) by (rewrite map_length; exact Hm).
  rewrite map_nth. unfold hat. rewrite D2Q_mul, D2Q_sub. reflexivity.
Qed.

Lemma chk_Q_sound t : chk_Q t = true -> spec_Q t.
Proof.
  unfold chk_Q, spec_Q. intros H m Hm c Hc.
  cbv zeta in H. pose proof (forallb_seq _ _ _ H m) as Hrow. unfold chk_Qrow in Hrow. fold (nnodes t) in Hrow.
  specialize (Hrow ltac:(lia)). rewrite check_rule_fast_eq in Hrow.
  pose proof (check_rule_sound _ _ _ _ _ Hrow c Hc) as B.
  pose proof (wsum_hat (peval c) (peval_proper c) (ct_a t) (sig (ct_a t) (ct_b t))
                (tl (nth (S m) (ct_Q t) [])) (ct_nodes t)) as E.
  change (wsum (QL (ct_qhat t (S m))) (QL (ct_xhat t)) (peval c) ==
          sigma t * wsum (Qrow t (S m)) (Qnodes t) (fun x => peval c (hatQ t x))) in E.
  rewrite E in B. rewrite (pint_ext c 0 _ _ (D2Q_xhat_nth t m Hm)) in B. exact B.
Qed.

Lemma all_zero_nth l j : all_zero l = true -> D2Q (nth j l d0) == 0.
Proof.
  unfold all_zero. intros H. destruct (Nat.lt_ge_cases j (length l)) as [Hj|Hj].
  - rewrite forallb_forall in H. specialize (H _ (nth_In l d0 Hj)). apply deqb_spec in H. exact H.
  - rewrite nth_overflow by exact Hj. reflexivity.
Qed.

Lemma first_col_zero A i : forallb (fun r => deqb (hd d0 r) d0) A = true -> Qent A i 0 == 0.
Proof.
  unfold Qent, ent. intros H. destruct (Nat.lt_ge_cases i (length A)) as [Hi|Hi].
  - rewrite forallb_forall in H. specialize (H _ (nth_In A [] Hi)). apply deqb_spec in H.
    destruct (nth i A []); exact H.
  - rewrite (nth_overflow A) by exact Hi. reflexivity.
Qed.

Lemma chk_pad_sound t : chk_pad t = true -> spec_pad t.
Proof.
  unfold chk_pad, spec_pad. intros H. repeat (apply andb_prop in H as [H ?]).
  repeat split.
  - intro j. apply all_zero_nth. exact H.
  - intro i. apply first_col_zero. assumption.
  - intro j. apply all_zero_nth. assumption.
  - intro i. apply first_col_zero. assumption.
Qed.

Lemma close_sound tol scale x y : close tol scale x y = true ->
  Qabs (D2Q x - D2Q y) <= D2Q tol * D2Q scale.
Proof. unfold close. rewrite dleb_spec, D2Q_abs, D2Q_sub, D2Q_mul. intro H; exact H. Qed.

Lemma chk_S_sound t : chk_S t = true -> spec_S t.
Proof.
  unfold chk_S, spec_S. intros H m j Hm Hj.
  pose proof (forallb_seq _ _ _ H m ltac:(fold (nnodes t); lia)) as H1.
  pose proof (forallb_seq _ _ _ H1 j ltac:(fold (nnodes t); lia)) as H2.
  unfold chk_S_entry in H2. apply close_sound in H2.
  rewrite D2Q_sub, D2Q_add, !D2Q_abs in H2. exact H2.
Qed.

Lemma qsum_app l1 l2 : qsum (l1 ++ l2) == qsum l1 + qsum l2.
Proof. unfold qsum. induction l1 as [|a l IH]; cbn [app fold_right]; [ring|]. rewrite IH. ring. Qed.

Lemma cumsum_of_S t : spec_pad t -> spec_S t -> spec_cumsum t.
Proof.
  intros [Hp _] HS m j Hm Hj. induction m as [|m IH].
  - cbn [seq map qsum fold_right]. rewrite Hp. setoid_replace (0 - 0) with 0 by ring. apply Qle_refl.
  - rewrite seq_S, !map_app, !qsum_app. cbn [plus map qsum fold_right].
    specialize (IH ltac:(lia)). specialize (HS m j ltac:(lia) Hj).
    set (q1 := Qent (ct_Q t) (S m) j) in *. set (q0 := Qent (ct_Q t) m j) in *.
    set (s1 := Qent (ct_S t) (S m) j) in *.
    set (cs := qsum (map (fun l => Qent (ct_S t) (S l) j) (seq 0 m))) in *.
    setoid_replace (q1 - (cs + (s1 + 0))) with ((q0 - cs) + - (s1 - (q1 - q0))) by ring.
    eapply Qle_trans; [apply Qabs_triangle|]. rewrite Qabs_opp.
    apply Qplus_le_compat; [exact IH|]. rewrite Qplus_0_r. exact HS.
Qed.

Lemma chk_delta_sound t : chk_delta t = true -> spec_delta t.
Proof.
  unfold chk_delta, spec_delta. intros H m Hm. cbv zeta.
  pose proof (forallb_seq _ _ _ H m ltac:(fold (nnodes t); lia)) as H1.
  unfold chk_delta_entry in H1. apply close_sound in H1.
  rewrite D2Q_sub, D2Q_add, !D2Q_abs in H1. exact H1.
Qed.

Lemma chk_shape_pos t : chk_shape t = true -> (0 < nnodes t)%nat.
Proof.
  unfold chk_shape. intros H. repeat (apply andb_prop in H as [H ?]). apply Nat.ltb_lt in H. exact H.
Qed.

Theorem check_coll_sound t : check_coll t = true -> coll_spec t.
Proof.
  unfold check_coll, coll_spec. intros H. repeat (apply andb_prop in H as [H ?]).
  rename H into Hshape. rename H6 into Hnodes. rename H5 into Hw. rename H4 into HQ. rename H3 into Hpad.
  rename H2 into HS. rename H1 into Hdelta. rename H0 into Hupd.
  apply chk_pad_sound in Hpad. apply chk_S_sound in HS.
  split; [apply chk_nodes_sound; [apply Nat.ltb_lt; exact Hshape | exact Hnodes]|].
  split; [apply chk_weights_sound; exact Hw|].
  split; [apply chk_Q_sound; exact HQ|].
  split; [exact Hpad|]. split; [exact HS|].
  split; [apply cumsum_of_S; assumption|].
  split; [apply chk_delta_sound; exact Hdelta|].
  unfold spec_upd. apply eqb_prop. exact Hupd.
Qed.

(* ---------------- affine law ---------------------------------------------------------------------- *)

Lemma D2Q_l1 l : D2Q (l1 l) == qsum (map Qabs (QL l)).
Proof.
  unfold l1, QL, qsum. rewrite D2Q_sum, !map_map. induction l as [|x l IH]; cbn [map fold_right]; [reflexivity|].
  rewrite IH, D2Q_abs. reflexivity.
Qed.

Definition aff_row_spec (h wtol : dy) (rw tw : list dy) : Prop :=
  length rw = length tw /\
  forall i, (i < length rw)%nat ->
  Qabs (D2Q (nth i tw d0) - D2Q h * D2Q (nth i rw d0)) <= D2Q wtol * (D2Q h * qsum (map Qabs (QL rw))).

Lemma forallb_combine_nth (f : dy * dy -> bool) l1 l2 :
  length l1 = length l2 -> forallb f (combine l1 l2) = true ->
  forall i, (i < length l1)%nat -> f (nth i l1 d0, nth i l2 d0) = true.
Proof.
  intros Hl H i Hi. rewrite forallb_forall in H. apply H.
  rewrite <- combine_nth by exact Hl. apply nth_In. rewrite combine_length. lia.
Qed.

Lemma chk_aff_row_sound h wtol rw tw : chk_aff_row h wtol rw tw = true -> aff_row_spec h wtol rw tw.
Proof.
  unfold chk_aff_row, aff_row_spec. intros H. apply andb_prop in H as [Hl H]. apply Nat.eqb_eq in Hl.
  split; [exact Hl|]. intros i Hi.
  pose proof (forallb_combine_nth _ _ _ Hl H i Hi) as Hc. cbn [fst snd] in Hc.
  apply close_sound in Hc. rewrite !D2Q_mul, D2Q_l1 in Hc. exact Hc.
Qed.

Definition affine_spec (r t : coll_table) (ntol wtol : dy) : Prop :=
  let h := dsub (ct_b t) (ct_a t) in
  QA r == 0 /\ QB r - QA r == 1 /\ nnodes r = nnodes t /\
  (forall i, (i < nnodes t)%nat ->
     Qabs (node t i - (QA t + (QB t - QA t) * node r i)) <= D2Q ntol * (Qabs (QA t) + Qabs (QB t))) /\
  aff_row_spec h wtol (ct_weights r) (ct_weights t) /\
  (length (ct_Q r) = length (ct_Q t) /\
   forall m, (m < length (ct_Q r))%nat -> aff_row_spec h wtol (nth m (ct_Q r) []) (nth m (ct_Q t) [])) /\
  (length (ct_S r) = length (ct_S t) /\
   forall m, (m < length (ct_S r))%nat -> aff_row_spec h wtol (nth m (ct_S r) []) (nth m (ct_S t) [])) /\
  ct_order r = ct_order t /\ ct_left r = ct_left t /\ ct_right r = ct_right t.

Lemma forallb_combine_rows (f : list dy * list dy -> bool) (A B : list (list dy)) :
  length A = length B -> forallb f (combine A B) = true ->
  forall i, (i < length A)%nat -> f (nth i A [], nth i B []) = true.
Proof.
  intros Hl H i Hi. rewrite forallb_forall in H. apply H.
  rewrite <- combine_nth by exact Hl. apply nth_In. rewrite combine_length. lia.
Qed.

Theorem check_affine_sound r t ntol wtol : check_affine r t ntol wtol = true -> affine_spec r t ntol wtol.
Proof.
  unfold check_affine, affine_spec. cbv zeta. intros H. repeat (apply andb_prop in H as [H ?]).
  rename H into Ha. rename H10 into Hh. rename H9 into Hn. rename H8 into Hnodes. rename H7 into Hw.
  rename H6 into HlQ. rename H5 into HQ. rename H4 into HlS. rename H3 into HS.
  rename H2 into Ho. rename H1 into Hl. rename H0 into Hr.
  apply deqb_spec in Ha. apply deqb_spec in Hh. rewrite D2Q_sub in Hh.
  apply Nat.eqb_eq in Hn, HlQ, HlS, Ho. apply eqb_prop in Hl, Hr.
  split; [exact Ha|]. split; [exact Hh|]. split; [exact Hn|].
  split.
  { intros i Hi. unfold nnodes in *.
    pose proof (forallb_combine_nth _ _ _ Hn Hnodes i ltac:(lia)) as Hc. cbn [fst snd] in Hc.
    apply close_sound in Hc. rewrite !D2Q_add, D2Q_mul, D2Q_sub, !D2Q_abs in Hc. exact Hc. }
  split; [apply chk_aff_row_sound; exact Hw|].
  split.
  { split; [exact HlQ|]. intros m Hm. apply chk_aff_row_sound.
    apply (forallb_combine_rows _ _ _ HlQ HQ m Hm). }
  split.
  { split; [exact HlS|]. intros m Hm. apply chk_aff_row_sound.
    apply (forallb_combine_rows _ _ _ HlS HS m Hm). }
  repeat split; assumption.
Qed.

(* ---------------- the scaling exponent really normalises the interval: 1 <= (b-a) sigma < 2 ---------- *)

Lemma pow2_neq0 e : ~ 2 ^ e == 0.
Proof. intro Z0. pose proof (pow2_pos e) as P. apply (Qlt_irrefl 0). rewrite <- Z0 at 2. exact P. Qed.

Lemma scale_exp_spec a b : D2Q a < D2Q b ->
  1 <= (D2Q b - D2Q a) * D2Q (sig a b) < 2.
Proof.
  intros Hab. unfold sig, scale_exp. set (h := dsub b a).
  assert (Hh : D2Q h == D2Q b - D2Q a) by (unfold h; apply D2Q_sub).
  rewrite <- Hh.
  assert (Hpos : (0 < dm h)%Z).
  { assert (P : 0 < D2Q h) by (rewrite Hh; rewrite <- (Qplus_opp_r (D2Q a)); apply Qplus_lt_l; exact Hab).
    unfold D2Q in P. destruct (Z_lt_le_dec 0 (dm h)) as [L|L]; [exact L|].
    exfalso. apply (Qlt_irrefl 0). eapply Qlt_le_trans; [exact P|].
    setoid_replace 0 with (0 * 2 ^ de h) by ring.
    apply Qmult_le_compat_r; [change 0 with (inject_Z 0); rewrite <- Zle_Qle; exact L | apply Qlt_le_weak, pow2_pos]. }
  rewrite Z.abs_eq by lia.
  pose proof (Z.log2_spec (dm h) Hpos) as [Lo Hi].
  set (l := Z.log2 (dm h)) in *. assert (Hl : (0 <= l)%Z) by apply Z.log2_nonneg.
  unfold D2Q at 1 3. unfold dpow2. cbn [dm de].
  assert (E : inject_Z (dm h) * 2 ^ de h * (inject_Z 1 * 2 ^ (- (l + de h))) == inject_Z (dm h) * 2 ^ (- l)).
  { replace (- (l + de h))%Z with (- l + - de h)%Z by lia.
    rewrite !Qpower_plus by exact two_neq0. rewrite Qpower_opp, (Qpower_opp 2 (de h)).
    change (inject_Z 1) with 1. field. split; apply pow2_neq0. }
  rewrite E. rewrite Qpower_opp.
  assert (P2 : 0 < 2 ^ l) by apply pow2_pos.
  assert (E2 : 2 ^ l == inject_Z (2 ^ l)%Z) by (rewrite Zpower_Qpower by exact Hl; reflexivity).
  split.
  - apply Qle_shift_div_l; [exact P2|]. rewrite Qmult_1_l, E2, <- Zle_Qle. exact Lo.
  - apply Qlt_shift_div_r; [exact P2|]. rewrite E2. change 2 with (inject_Z 2). rewrite <- inject_Z_mult, <- Zlt_Qlt.
    replace (Z.succ l) with (l + 1)%Z in Hi by lia. rewrite Z.pow_add_r in Hi by lia. lia.
Qed.

(* ---------------- collocation-update switch under re-initialisation ------------------------------- *)
Lemma bools_eqb_eq x : forall y, bools_eqb x y = true -> x = y.
Proof.
  induction x as [|a x IH]; intros [|b y] H; cbn in H; try discriminate; [reflexivity|].
  apply andb_prop in H as [H1 H2]. apply eqb_prop in H1. rewrite H1, (IH y H2). reflexivity.
Qed.

(* If the observed flags of a sequence of initialisations of one object pass the check, then after EVERY
   initialisation i the flag is the function of that call alone: true whenever the right end is not a node,
   the user's value otherwise — whatever happened in the earlier initialisations. *)
Theorem check_reinit_sound calls obs : check_reinit calls obs = true ->
  length obs = length calls /\
  forall i, (i < length calls)%nat ->
    let c := nth i calls (true, false) in
    nth i obs false = upd_flag (fst c) (snd c) /\
    (fst c = false -> nth i obs false = true) /\
    (fst c = true -> nth i obs false = snd c).
Proof.
  unfold check_reinit. intros H. apply bools_eqb_eq in H. subst obs. unfold reinit_flags.
  split; [apply map_length|]. intros i Hi. cbv zeta. set (c := nth i calls (true, false)).
  assert (E : nth i (map (fun c0 : bool * bool => upd_flag (fst c0) (snd c0)) calls) false = upd_flag (fst c) (snd c)).
  { change false with ((fun c0 : bool * bool => upd_flag (fst c0) (snd c0)) (true, false)). rewrite map_nth. reflexivity. }
  rewrite E. split; [reflexivity|]. unfold upd_flag. split.
  - intros Hc. rewrite Hc. apply orb_true_r.
  - intros Hc. rewrite Hc. cbn. apply orb_false_r.
Qed.

(* history independence: the flag after a call does not depend on the calls before it *)
Theorem reinit_history_independent before1 before2 call :
  last (reinit_flags (before1 ++ [call])) false = last (reinit_flags (before2 ++ [call])) false.
Proof. unfold reinit_flags. rewrite !map_app. cbn [map]. rewrite !last_last. reflexivity. Qed.
