(* C13 — proofs about the heap model of pySDC's data types (Model/Heap.v). *)
From Coq Require Import ZArith List Bool Arith Lia.
From PySDC Require Import Model.Heap.
Import ListNotations.

(* ------------------------------------------------------------------ names *)
Lemma lookup_remove_other : forall n m e, n <> m -> lookup n (remove_name m e) = lookup n e.
Proof.
  induction e as [|[k v] e IH]; simpl; intros; auto.
  destruct (m =? k) eqn:E1; simpl.
  - apply Nat.eqb_eq in E1; subst. destruct (n =? k) eqn:E2; [apply Nat.eqb_eq in E2; lia | auto].
  - destruct (n =? k); auto.
Qed.
Lemma lookup_remove_same : forall n e, lookup n (remove_name n e) = None.
Proof.
  induction e as [|[k v] e IH]; simpl; auto.
  destruct (n =? k) eqn:E; auto. simpl. rewrite E. auto.
Qed.
Lemma lookup_bind_same : forall n v e, lookup n (bind n v e) = Some v.
Proof. intros. unfold bind. simpl. rewrite Nat.eqb_refl. auto. Qed.
Lemma lookup_bind_other : forall n m v e, n <> m -> lookup n (bind m v e) = lookup n e.
Proof.
  intros. unfold bind. simpl. destruct (n =? m) eqn:E; [apply Nat.eqb_eq in E; lia|].
  apply lookup_remove_other; auto.
Qed.

(* ------------------------------------------------------------------ list plumbing *)
Lemma set_nth_length : forall A (l : list A) i x, length (set_nth l i x) = length l.
Proof. induction l; destruct i; simpl; auto. Qed.
Lemma nth_set_nth_same : forall A (l : list A) i x d, i < length l -> nth i (set_nth l i x) d = x.
Proof. induction l; destruct i; simpl; intros; try lia; auto. apply IHl. lia. Qed.
Lemma nth_set_nth_other : forall A (l : list A) i j x d, i <> j -> nth j (set_nth l i x) d = nth j l d.
Proof. induction l; destruct i; destruct j; simpl; intros; try lia; auto. Qed.

Lemma write_at_length : forall ps l cs, length (write_at l ps cs) = length l.
Proof.
  induction ps as [|p ps IH]; intros l cs; simpl; auto.
  destruct cs as [|c cs]; auto. rewrite IH. apply set_nth_length.
Qed.
Lemma nth_write_at_outside : forall ps l cs j, ~ In j ps -> nth j (write_at l ps cs) c0 = nth j l c0.
Proof.
  induction ps as [|p ps IH]; intros l cs j H; simpl; auto.
  destruct cs as [|c cs]; auto. rewrite IH by (intro; apply H; right; auto).
  apply nth_set_nth_other. intro E. apply H. left. auto.
Qed.
Lemma read_write_at : forall ps l cs, NoDup ps -> Forall (fun p => p < length l) ps -> length cs = length ps ->
  read_at (write_at l ps cs) ps = cs.
Proof.
  induction ps as [|p ps IH]; intros l cs ND F L; destruct cs as [|c cs]; simpl in *; try discriminate; auto.
  inversion ND; subst. inversion F; subst. f_equal.
  - rewrite nth_write_at_outside by auto. apply nth_set_nth_same. auto.
  - apply IH; auto.
    eapply Forall_impl; [|eauto]. simpl. intros. rewrite set_nth_length. auto.
Qed.
Lemma read_at_seq : forall l, read_at l (seq 0 (length l)) = l.
Proof.
  unfold read_at. induction l; simpl; auto. f_equal. rewrite <- seq_shift, map_map. exact IHl.
Qed.
Lemma read_at_length : forall l ps, length (read_at l ps) = length ps.
Proof. intros. apply map_length. Qed.

Lemma write_buf_length : forall bs b ps new, length (write_buf bs b ps new) = length bs.
Proof. intros. apply set_nth_length. Qed.
Lemma write_buf_other : forall bs b ps new b', b' <> b -> nth b' (write_buf bs b ps new) [] = nth b' bs [].
Proof. intros. unfold write_buf. apply nth_set_nth_other. auto. Qed.
Lemma write_buf_same_length : forall bs b ps new, length (nth b (write_buf bs b ps new) []) = length (nth b bs []).
Proof.
  intros. unfold write_buf. destruct (Nat.lt_ge_cases b (length bs)).
  - rewrite nth_set_nth_same by auto. apply write_at_length.
  - rewrite !nth_overflow; auto. rewrite set_nth_length. auto.
Qed.
Lemma write_buf_cell_outside : forall bs b ps new b' i,
  (b' <> b \/ ~ In i ps) ->
  nth i (nth b' (write_buf bs b ps new) []) c0 = nth i (nth b' bs []) c0.
Proof.
  intros. destruct (Nat.eq_dec b' b) as [->|N].
  - unfold write_buf. destruct (Nat.lt_ge_cases b (length bs)).
    + rewrite nth_set_nth_same by auto. apply nth_write_at_outside. tauto.
    + rewrite !(nth_overflow _ [] ) ; auto. rewrite set_nth_length. auto.
  - rewrite write_buf_other; auto.
Qed.

(* ------------------------------------------------------------------ values, well-formedness *)
Definition leaves (v : value) : list arr :=
  match v with
  | VArr a => [a]
  | VPart _ p v q m => [p; v; q; m]
  | VFld _ e g => [e; g]
  | VNum _ _ => []
  end.
Definition read_value (bs : list (list cell)) (v : value) : list (list cell) := map (read_arr bs) (leaves v).
(* every array of the value lives in a buffer below nb *)
Definition wfv (nb : nat) (v : value) : Prop := Forall (fun a => a_buf a < nb) (leaves v).
Definition wf (h : heap) : Prop := forall n v, lookup n (env h) = Some v -> wfv (length (bufs h)) v.
(* every array of the value lives in a buffer from nb upwards *)
Definition freshv (nb : nat) (v : value) : Prop := Forall (fun a => nb <= a_buf a) (leaves v).

Lemma wfv_mono : forall n m v, n <= m -> wfv n v -> wfv m v.
Proof. unfold wfv. intros. eapply Forall_impl; [|eauto]. simpl. intros. lia. Qed.

Lemma read_arr_app : forall bs extra a, a_buf a < length bs -> read_arr (bs ++ extra) a = read_arr bs a.
Proof. intros. unfold read_arr. rewrite app_nth1; auto. Qed.
Lemma read_value_app : forall bs extra v, wfv (length bs) v -> read_value (bs ++ extra) v = read_value bs v.
Proof.
  intros. unfold read_value. apply map_ext_in. intros a Ha.
  apply read_arr_app. unfold wfv in H. rewrite Forall_forall in H. auto.
Qed.
(* ------------------------------------------------------------------ the frame relation of non-writing operations *)
Definition Ext (d : nat) (h h' : heap) : Prop :=
  (exists extra, bufs h' = bufs h ++ extra) /\ noid h <= noid h' /\
  (forall n, n <> d -> lookup n (env h') = lookup n (env h)).

Lemma Ext_refl : forall d h, Ext d h h.
Proof. intros. split; [exists []; rewrite app_nil_r; auto|]. split; auto. Qed.
Lemma Ext_fail : forall d h e, Ext d h (fst (fail h e)).
Proof. intros. apply Ext_refl. Qed.
Lemma Ext_ok_bind : forall d h extra v k, Ext d h (fst (ok_bind h extra d v k)).
Proof.
  intros. unfold ok_bind. simpl. split; [eexists; simpl; eauto|]. split; simpl; [lia|].
  intros. apply lookup_bind_other. auto.
Qed.
Lemma Ext_del : forall d h, Ext d h (mkHeap (bufs h) (noid h) (remove_name d (env h))).
Proof.
  intros. split; [exists []; simpl; rewrite app_nil_r; auto|]. split; simpl; auto.
  intros. apply lookup_remove_other. auto.
Qed.

Ltac dmatch :=
  match goal with
  | |- context [match ?x with _ => _ end] => destruct x eqn:?
  | |- context [if ?x then _ else _] => destruct x eqn:?
  end.
Ltac ext_leaf := first [apply Ext_fail | apply Ext_ok_bind | apply Ext_refl | apply Ext_del].

Lemma do_ufunc_Ext : forall h d f a o, Ext d h (fst (do_ufunc h d f a o)).
Proof. intros. unfold do_ufunc. repeat dmatch; ext_leaf. Qed.
Lemma part_result_Ext : forall h d p v q m e1 e2, Ext d h (fst (part_result h d p v q m e1 e2)).
Proof. intros. unfold part_result. repeat dmatch; ext_leaf. Qed.
Lemma fld_result_Ext : forall h d e g e1 e2, Ext d h (fst (fld_result h d e g e1 e2)).
Proof. intros. unfold fld_result. repeat dmatch; ext_leaf. Qed.
Lemma do_bin_Ext : forall h d f x y, Ext d h (fst (do_bin h d f x y)).
Proof.
  intros. unfold do_bin.
  repeat (first [apply do_ufunc_Ext | apply part_result_Ext | apply fld_result_Ext | ext_leaf | dmatch]).
Qed.

Lemma exec_Ext : forall h o, is_setitem o = false -> Ext (dst o) h (fst (exec h o)).
Proof.
  intros h o Hs. destruct o; simpl in Hs; try discriminate; simpl dst; unfold exec;
    repeat (first [apply do_ufunc_Ext | apply do_bin_Ext | ext_leaf | dmatch]).
Qed.

(* ------------------------------------------------------------------ well-formedness is invariant *)
Lemma wf_empty : wf empty_heap.
Proof. intros n v H. simpl in H. discriminate. Qed.

Lemma wf_ok_bind : forall h extra d v k, wf h -> wfv (length (bufs h) + length extra) v -> wf (fst (ok_bind h extra d v k)).
Proof.
  intros h extra d v k W Hv n v' Hl.
  change (lookup n (bind d v (env h)) = Some v') in Hl.
  change (wfv (length (bufs h ++ extra)) v'). rewrite app_length.
  destruct (Nat.eq_dec n d) as [->|N].
  - rewrite lookup_bind_same in Hl. inversion Hl; subst. auto.
  - rewrite lookup_bind_other in Hl by auto. eapply wfv_mono; [|eapply W; eauto]. lia.
Qed.
Lemma wf_fail : forall h e, wf h -> wf (fst (fail h e)).
Proof. auto. Qed.

Ltac wfv_solve :=
  unfold wfv, leaves, fresh_arr in *; simpl in *;
  repeat match goal with H : Forall _ (_ :: _) |- _ => inversion H; clear H; subst end;
  repeat constructor; simpl; try lia.

Lemma do_ufunc_wf : forall h d f a o, wf h -> wf (fst (do_ufunc h d f a o)).
Proof.
  intros. unfold do_ufunc. repeat dmatch; try (apply wf_fail; auto).
  apply wf_ok_bind; auto. wfv_solve.
Qed.
Lemma part_result_wf : forall h d p v q m e1 e2, wf h -> a_buf q < length (bufs h) -> a_buf m < length (bufs h) ->
  wf (fst (part_result h d p v q m e1 e2)).
Proof.
  intros. unfold part_result. repeat dmatch; try (apply wf_fail; auto).
  apply wf_ok_bind; auto. wfv_solve.
Qed.
Lemma fld_result_wf : forall h d e g e1 e2, wf h -> wf (fst (fld_result h d e g e1 e2)).
Proof.
  intros. unfold fld_result. repeat dmatch; try (apply wf_fail; auto).
  apply wf_ok_bind; auto. wfv_solve.
Qed.
Definition wfp (nb : nat) (p : opval) : Prop := match p with PVal v => wfv nb v | _ => True end.
Lemma eval_operand_wf : forall h o p, wf h -> eval_operand h o = Some p -> wfp (length (bufs h)) p.
Proof.
  intros h o p W E. destruct o; simpl in E.
  - destruct (lookup n (env h)) eqn:L; simpl in E; inversion E; subst. simpl. eapply W; eauto.
  - inversion E; subst; simpl; auto.
  - inversion E; subst; simpl; auto.
Qed.
Lemma do_bin_wf : forall h d f x y, wf h -> wfp (length (bufs h)) x -> wfp (length (bufs h)) y -> wf (fst (do_bin h d f x y)).
Proof.
  intros h d f x y W Hx Hy. unfold do_bin.
  repeat (first [apply do_ufunc_wf; assumption | apply fld_result_wf; assumption | apply wf_fail; assumption
                 | apply part_result_wf; [assumption | simpl in *; wfv_solve | simpl in *; wfv_solve] | dmatch]).
Qed.

Lemma exec_wf : forall h o, wf h -> wf (fst (exec h o)).
Proof.
  intros h o W. destruct o; unfold exec;
    repeat (first [apply wf_fail; assumption | apply do_ufunc_wf; assumption | dmatch]);
    try match goal with
        | |- wf (fst (do_bin _ _ _ _ _)) =>
            apply do_bin_wf; auto;
            try (eapply eval_operand_wf; eauto; fail);
            try (simpl; eapply W; eauto; fail)
        end;
    try (apply wf_ok_bind; [assumption|];
         repeat match goal with
                | H : lookup _ (env h) = Some _ |- _ => apply W in H
                end; first [eapply wfv_mono; [|eassumption]; simpl; lia | wfv_solve]; fail).
  all: try (intros n0 v0 Hl; simpl in *; rewrite write_buf_length; eapply W; eauto; fail).
  (* ODel *)
  intros n0 v0 Hl. simpl in *. destruct (Nat.eq_dec n0 d) as [->|N].
  - rewrite lookup_remove_same in Hl. discriminate.
  - rewrite lookup_remove_other in Hl by auto. eapply W; eauto.
Qed.

Lemma exec_seq_wf : forall ops h, wf h -> wf (exec_seq h ops).
Proof. induction ops; simpl; intros; auto. apply IHops. apply exec_wf. auto. Qed.

(* ================================================================== T1: value semantics *)
(* No operation other than __setitem__ changes the cells of ANY existing object, named or not
   (operands, bystanders, and the object a name is being rebound from). *)
Theorem ops_preserve_objects : forall h o v, is_setitem o = false ->
  wfv (length (bufs h)) v -> read_value (bufs (fst (exec h o))) v = read_value (bufs h) v.
Proof. intros h o v Hs Hv. destruct (exec_Ext h o Hs) as [[extra E] _]. rewrite E. apply read_value_app. auto. Qed.

Theorem ops_preserve_others : forall h o n v, wf h -> is_setitem o = false -> n <> dst o ->
  lookup n (env h) = Some v ->
  lookup n (env (fst (exec h o))) = Some v /\ read_value (bufs (fst (exec h o))) v = read_value (bufs h) v.
Proof.
  intros h o n v W Hs Hn Hl. split.
  - destruct (exec_Ext h o Hs) as [_ [_ E]]. rewrite E; auto.
  - apply ops_preserve_objects; auto. eapply W; eauto.
Qed.

Theorem value_semantics_seq : forall ops h n v, wf h ->
  (forall o, In o ops -> is_setitem o = false) -> (forall o, In o ops -> dst o <> n) ->
  lookup n (env h) = Some v ->
  lookup n (env (exec_seq h ops)) = Some v /\ read_value (bufs (exec_seq h ops)) v = read_value (bufs h) v.
Proof.
  induction ops as [|o ops IH]; simpl; intros h n v W Hs Hd Hl; auto.
  destruct (ops_preserve_others h o n v W) as [L1 R1]; auto.
  { intro E. apply (Hd o); auto. }
  destruct (IH (fst (exec h o)) n v) as [L2 R2]; auto.
  { apply exec_wf; auto. }
  split; auto. rewrite R2. auto.
Qed.

(* ------------------------------------------------------------------ inversion of a successful ufunc call *)
Lemma do_ufunc_ok : forall h d f a o h', do_ufunc h d f a o = (h', ROk) ->
  exists k dt s cells, ufunc_value (bufs h) f a o = inr (k, dt, s, cells) /\
    h' = mkHeap (bufs h ++ [cells]) (noid h + 1) (bind d (VArr (fresh_arr h 0 0 k dt s (length cells))) (env h)).
Proof.
  intros h d f a o h' H. unfold do_ufunc in H.
  destruct (ufunc_value (bufs h) f a o) as [e|[[[k dt] s] cells]] eqn:E.
  - unfold fail in H. inversion H.
  - unfold ok_bind in H. inversion H. exists k, dt, s, cells. auto.
Qed.

Lemma ufunc_value_kind : forall bs f a o k dt s cells, ufunc_value bs f a o = inr (k, dt, s, cells) ->
  exists ua uo, resolve_kind (map u_kind (ua ++ uo)) = Some k /\
    ua = flat_map (fun o => match o with Some u => [u] | None => [] end) (map (as_ufarg bs) a) /\
    uo = flat_map (fun o => match o with Some u => [u] | None => [] end) (map (as_ufarg bs) o).
Proof.
  intros bs f a o k dt s cells H. unfold ufunc_value in H.
  repeat match type of H with
         | context [match ?x with _ => _ end] => destruct x eqn:?
         | context [if ?x then _ else _] => destruct x eqn:?
         end; try discriminate.
  inversion H; subst. eexists. eexists. split; [eassumption|]. split; reflexivity.
Qed.

(* ================================================================== T2: augmented assignment rebinds *)
(* `d op= y` on an array never writes: the object formerly bound to d keeps its cells (so every
   other name bound to it, and every view of it, is unaffected), and d is rebound to an array in a
   brand-new buffer. *)
Theorem iop_rebinds_never_writes : forall h d f y h' a, wf h ->
  exec h (OIop d f y) = (h', ROk) -> lookup d (env h) = Some (VArr a) ->
  read_arr (bufs h') a = read_arr (bufs h) a /\
  exists a', lookup d (env h') = Some (VArr a') /\ a_buf a' = length (bufs h) /\ a_oid a' = noid h /\
    a_idx a' = seq 0 (length (a_idx a')) /\ read_arr (bufs h') a' = nth (length (bufs h)) (bufs h') [].
Proof.
  intros h d f y h' a W H L.
  assert (Ha : a_buf a < length (bufs h)).
  { apply W in L. unfold wfv, leaves in L. inversion L; auto. }
  unfold exec in H. rewrite L in H.
  destruct (eval_operand h y) as [py|] eqn:Ey; [|inversion H].
  assert (D : exists ar, do_ufunc h d f [PVal (VArr a); py] ar = (h', ROk)).
  { destruct py as [[ | | | ]| | ]; try (inversion H; fail);
      destruct (arity f =? 2); try (inversion H; fail); eexists; eauto. }
  destruct D as [ar D]. apply do_ufunc_ok in D. destruct D as (k & dt & s & cells & _ & ->). cbn [bufs env noid].
  split.
  - apply read_arr_app. auto.
  - eexists. rewrite lookup_bind_same. split; [reflexivity|]. unfold fresh_arr. cbn [a_buf a_oid a_idx].
    rewrite seq_length. repeat split; try lia.
    unfold read_arr. cbn [a_buf a_idx]. rewrite Nat.add_0_r, app_nth2, Nat.sub_diag by lia. simpl. apply read_at_seq.
Qed.

(* the class of the rebound array is the class of the old one whenever that is a proper mesh
   subclass, or the other operand does not carry a proper mesh subclass *)
Lemma first_kind_app_hit : forall p k ks, p k = true -> first_kind p (Some k :: ks) = Some k.
Proof. intros. simpl. rewrite H. auto. Qed.

(* ================================================================== result class *)
Lemma first_kind_some : forall p ks k, first_kind p ks = Some k -> In (Some k) ks /\ p k = true.
Proof.
  induction ks as [|[k'|] ks IH]; simpl; intros k H; try discriminate.
  - destruct (p k') eqn:E.
    + inversion H; subst. auto.
    + destruct (IH _ H). auto.
  - destruct (IH _ H). auto.
Qed.
Lemma first_kind_exists : forall p ks k, In (Some k) ks -> p k = true -> exists k', first_kind p ks = Some k'.
Proof.
  induction ks as [|[k'|] ks IH]; simpl; intros k H Hp; [tauto| |].
  - destruct (p k') eqn:E; [eauto|]. destruct H as [H|H]; [inversion H; subst; congruence|]. eauto.
  - destruct H as [H|H]; [discriminate|]. eauto.
Qed.
Lemma resolve_kind_uniform : forall ks k, is_meshclass k = true -> In (Some k) ks ->
  (forall k', In (Some k') ks -> k' = k \/ k' = KNd) -> resolve_kind ks = Some k.
Proof.
  intros ks k Hm Hin Hall. unfold resolve_kind.
  destruct (first_kind is_submesh ks) as [k1|] eqn:E1.
  - apply first_kind_some in E1. destruct E1 as [I1 P1]. destruct (Hall _ I1); subst; auto. discriminate.
  - destruct (first_kind_exists is_meshclass ks k Hin Hm) as [k2 E2]. rewrite E2.
    apply first_kind_some in E2. destruct E2 as [I2 P2]. destruct (Hall _ I2); subst; auto. discriminate.
Qed.
(* a proper mesh subclass in first position always wins (numpy asks subclasses first, then left to right) *)
Lemma resolve_kind_head_sub : forall k ks, is_submesh k = true -> resolve_kind (Some k :: ks) = Some k.
Proof. intros. unfold resolve_kind. simpl. rewrite H. auto. Qed.

Definition somes {A} (l : list (option A)) : list A := flat_map (fun o => match o with Some u => [u] | None => [] end) l.
Lemma in_kinds_of_args : forall bs (ps : list opval) k,
  In (Some k) (map u_kind (somes (map (as_ufarg bs) ps))) ->
  k = KNd \/ exists a, In (PVal (VArr a)) ps /\ a_kind a = k.
Proof.
  induction ps as [|p ps IH]; simpl; intros k H; [tauto|].
  unfold somes in *. simpl in H.
  destruct (as_ufarg bs p) as [u|] eqn:E; simpl in H.
  - destruct H as [H|H].
    + destruct p as [[a| | | ]|t c|dt sh cs]; simpl in E; try discriminate.
      * inversion E; subst. simpl in H. inversion H. right. exists a. auto.
      * inversion E; subst. simpl in H. discriminate.
      * destruct (length cs =? size sh); inversion E; subst. simpl in H. inversion H. auto.
    + destruct (IH _ H) as [|[a [I K]]]; auto. right. exists a. auto.
  - destruct (IH _ H) as [|[a [I K]]]; auto. right. exists a. auto.
Qed.
Lemma kinds_of_args_in : forall bs (ps : list opval) a,
  In (PVal (VArr a)) ps -> In (Some (a_kind a)) (map u_kind (somes (map (as_ufarg bs) ps))).
Proof.
  induction ps as [|p ps IH]; simpl; intros a H; [tauto|].
  unfold somes in *. simpl. destruct H as [->|H].
  - simpl. auto.
  - apply in_map_iff. specialize (IH _ H). apply in_map_iff in IH. destruct IH as [u [U I]].
    exists u. split; auto. apply in_or_app. auto.
Qed.

(* The result of a ufunc call has the class of its array arguments when these agree (plain
   ndarrays and python scalars do not count). *)
Theorem ufunc_result_class : forall h d f args outs h' k, do_ufunc h d f args outs = (h', ROk) ->
  is_meshclass k = true ->
  (exists a, In (PVal (VArr a)) (args ++ outs) /\ a_kind a = k) ->
  (forall a, In (PVal (VArr a)) (args ++ outs) -> a_kind a = k \/ a_kind a = KNd) ->
  exists a', lookup d (env h') = Some (VArr a') /\ a_kind a' = k /\ a_buf a' = length (bufs h).
Proof.
  intros h d f args outs h' k H Hm [a0 [I0 K0]] Hall.
  apply do_ufunc_ok in H. destruct H as (k' & dt & s & cells & U & ->).
  apply ufunc_value_kind in U. destruct U as (ua & uo & R & -> & ->).
  fold (somes (map (as_ufarg (bufs h)) args)) in R. fold (somes (map (as_ufarg (bufs h)) outs)) in R.
  assert (E : somes (map (as_ufarg (bufs h)) args) ++ somes (map (as_ufarg (bufs h)) outs)
              = somes (map (as_ufarg (bufs h)) (args ++ outs))).
  { unfold somes. rewrite map_app, flat_map_app. auto. }
  rewrite E in R.
  rewrite (resolve_kind_uniform _ k) in R; auto.
  - inversion R; subst. cbn [env bufs]. eexists. rewrite lookup_bind_same. split; [reflexivity|]. simpl. split; auto; lia.
  - subst k. apply kinds_of_args_in. auto.
  - intros k1 I1. apply in_kinds_of_args in I1. destruct I1 as [->|[a [I K]]]; auto.
    subst k1. apply Hall. auto.
Qed.

(* operators on arrays are ufunc calls *)
Lemma exec_bin_arrays : forall h d f x y ax ay, lookup x (env h) = Some (VArr ax) -> lookup y (env h) = Some (VArr ay) ->
  arity f = 2 -> exec h (OBin d f (ON x) (ON y)) = do_ufunc h d f [PVal (VArr ax); PVal (VArr ay)] [].
Proof. intros. unfold exec, eval_operand. rewrite H, H0. simpl. rewrite H1. auto. Qed.
Lemma exec_bin_scalar : forall h d f x t c ax, lookup x (env h) = Some (VArr ax) ->
  arity f = 2 -> exec h (OBin d f (ON x) (OS t c)) = do_ufunc h d f [PVal (VArr ax); PScal t c] []
              /\ exec h (OBin d f (OS t c) (ON x)) = do_ufunc h d f [PScal t c; PVal (VArr ax)] [].
Proof. intros. unfold exec, eval_operand. rewrite H. simpl. rewrite H0. auto. Qed.
Lemma exec_iop_array : forall h d f y a py, lookup d (env h) = Some (VArr a) -> eval_operand h y = Some py ->
  (match py with PVal (VArr _) | PScal _ _ | PLit _ _ _ => True | _ => False end) -> arity f = 2 ->
  exec h (OIop d f y) = do_ufunc h d f [PVal (VArr a); py] [PVal (VArr a)].
Proof.
  intros. unfold exec. rewrite H, H0. destruct py as [[ | | | ]| | ]; try tauto; rewrite H2; auto.
Qed.

Theorem binop_same_class : forall h d f x y ax ay h', lookup x (env h) = Some (VArr ax) -> lookup y (env h) = Some (VArr ay) ->
  arity f = 2 -> a_kind ax = a_kind ay -> is_meshclass (a_kind ax) = true ->
  exec h (OBin d f (ON x) (ON y)) = (h', ROk) ->
  exists a', lookup d (env h') = Some (VArr a') /\ a_kind a' = a_kind ax /\ a_buf a' = length (bufs h).
Proof.
  intros. rewrite (exec_bin_arrays h d f x y ax ay) in H4; auto.
  eapply ufunc_result_class; eauto.
  - exists ax. simpl. auto.
  - simpl. intros a [E|[E|[]]]; inversion E; subst; auto.
Qed.
Theorem scalar_op_same_class : forall h d f x t c ax h', lookup x (env h) = Some (VArr ax) ->
  arity f = 2 -> is_meshclass (a_kind ax) = true ->
  (exec h (OBin d f (ON x) (OS t c)) = (h', ROk) \/ exec h (OBin d f (OS t c) (ON x)) = (h', ROk)) ->
  exists a', lookup d (env h') = Some (VArr a') /\ a_kind a' = a_kind ax /\ a_buf a' = length (bufs h).
Proof.
  intros. destruct (exec_bin_scalar h d f x t c ax H H0) as [E1 E2]. rewrite E1, E2 in H2.
  destruct H2 as [H2|H2]; (eapply ufunc_result_class; eauto;
    [exists ax; simpl; auto | simpl; intros a [E|[E|[]]]; inversion E; subst; auto]).
Qed.
(* augmented assignment with a scalar / a plain array / an array of the same class keeps the class *)
Theorem iop_keeps_class : forall h d f y a py h', lookup d (env h) = Some (VArr a) -> eval_operand h y = Some py ->
  (match py with PVal (VArr b) => a_kind b = a_kind a \/ a_kind b = KNd | PScal _ _ | PLit _ _ _ => True | _ => False end) ->
  arity f = 2 -> is_meshclass (a_kind a) = true ->
  exec h (OIop d f y) = (h', ROk) ->
  exists a', lookup d (env h') = Some (VArr a') /\ a_kind a' = a_kind a /\ a_buf a' = length (bufs h).
Proof.
  intros.
  assert (P : match py with PVal (VArr _) | PScal _ _ | PLit _ _ _ => True | _ => False end)
    by (destruct py as [[ | | | ]| | ]; auto).
  rewrite (exec_iop_array h d f y a py) in H4; auto.
  eapply ufunc_result_class; eauto.
  - exists a. simpl. auto.
  - simpl. intros b [E|[E|[E|[]]]]; inversion E; subst; auto.
Qed.

(* ================================================================== T3: __setitem__ is the only writer, and it writes only the positions of its target view *)
Lemma bcast_cells_length : forall s t cells, length (bcast_cells s t cells) = size s.
Proof. intros. unfold bcast_cells. rewrite map_length, seq_length. auto. Qed.
Lemma shape_eqb_eq : forall a b, shape_eqb a b = true -> a = b.
Proof.
  unfold shape_eqb. induction a; destruct b; simpl; intros; auto; try discriminate.
  apply andb_true_iff in H. destruct H as [L H]. apply andb_true_iff in H. destruct H as [E H].
  simpl in E. apply Nat.eqb_eq in E. subst. f_equal. apply IHa. rewrite H. simpl in L. rewrite L. auto.
Qed.
Lemma assign_cells_length : forall dt sh c ssh cells l, assign_cells dt sh c ssh cells = Some l -> length l = size sh.
Proof.
  intros. unfold assign_cells in H.
  destruct (bshape sh _); [|discriminate]. destruct (shape_eqb l0 sh); inversion H.
  rewrite map_length. apply bcast_cells_length.
Qed.

(* inversion of exec on OSet: either nothing happened (an exception), or exactly one window was overwritten *)
Lemma exec_set_inv : forall h d s src h' r, exec h (OSet d s src) = (h', r) ->
  (h' = h /\ r <> ROk) \/
  (exists a reg cells, lookup d (env h) = Some (VArr a) /\ select a s = inr reg /\
     length cells = size (region_shape reg) /\ r = ROk /\
     h' = mkHeap (write_buf (bufs h) (a_buf a) (region_idx reg) cells) (noid h) (env h)).
Proof.
  intros h d s src h' r H. unfold exec in H.
  repeat match type of H with
         | context [match ?x with _ => _ end] => destruct x eqn:?
         | context [if ?x then _ else _] => destruct x eqn:?
         end;
    try (unfold fail in H; inversion H; subst; left; split; [reflexivity|discriminate]);
    inversion H; subst; right;
    match goal with
    | A : assign_cells _ _ _ _ _ = Some ?l |- _ => apply assign_cells_length in A
    end;
    do 3 eexists; (split; [reflexivity|]); (split; [eassumption|]); (split; [eassumption|]); auto.
Qed.

Theorem setitem_frame : forall h d s src h' r, exec h (OSet d s src) = (h', r) ->
  env h' = env h /\ noid h' = noid h /\ length (bufs h') = length (bufs h) /\
  (forall b, length (nth b (bufs h') []) = length (nth b (bufs h) [])) /\
  (r <> ROk -> h' = h) /\
  forall a reg, lookup d (env h) = Some (VArr a) -> select a s = inr reg ->
    forall b i, (b <> a_buf a \/ ~ In i (region_idx reg)) ->
      nth i (nth b (bufs h') []) c0 = nth i (nth b (bufs h) []) c0.
Proof.
  intros h d s src h' r H. apply exec_set_inv in H.
  destruct H as [[-> Hr]|(a & reg & cells & L & S & Len & -> & ->)].
  - repeat split; auto.
  - cbn [env noid bufs]. repeat split; auto.
    + apply write_buf_length.
    + intros b. destruct (Nat.eq_dec b (a_buf a)) as [->|N].
      * apply write_buf_same_length.
      * rewrite write_buf_other; auto.
    + intros C. exfalso. apply C. auto.
    + intros a' reg' L' S' b i Hout. rewrite L in L'. inversion L'; subst a'. rewrite S in S'. inversion S'; subst reg'.
      apply write_buf_cell_outside. auto.
Qed.

(* any array none of whose positions is written reads the same afterwards *)
Theorem setitem_preserves_disjoint : forall h d s src h' r a reg, exec h (OSet d s src) = (h', r) ->
  lookup d (env h) = Some (VArr a) -> select a s = inr reg ->
  forall a2, (a_buf a2 <> a_buf a \/ forall i, In i (a_idx a2) -> ~ In i (region_idx reg)) ->
  read_arr (bufs h') a2 = read_arr (bufs h) a2.
Proof.
  intros h d s src h' r a reg H L S a2 Hd.
  destruct (setitem_frame _ _ _ _ _ _ H) as (_ & _ & _ & _ & _ & Hc).
  unfold read_arr, read_at. apply map_ext_in. intros i Hi. apply (Hc a reg L S).
  destruct Hd as [Hd|Hd]; auto.
Qed.
(* without knowing the selection: arrays in other buffers are never affected *)
Theorem setitem_preserves_other_buffers : forall h d s src h' r a, exec h (OSet d s src) = (h', r) ->
  lookup d (env h) = Some (VArr a) -> forall a2, a_buf a2 <> a_buf a -> read_arr (bufs h') a2 = read_arr (bufs h) a2.
Proof.
  intros h d s src h' r a H L a2 N.
  destruct (select a s) as [e|reg] eqn:S.
  - apply exec_set_inv in H. destruct H as [[-> _]|(a' & reg & cells & L' & S' & _)]; auto.
    rewrite L in L'. inversion L'; subst. congruence.
  - eapply setitem_preserves_disjoint; eauto.
Qed.

(* a successful write is read back at the written positions (distinct and inside the buffer) *)
Lemma read_after_write : forall bs b ps cells, NoDup ps -> Forall (fun p => p < length (nth b bs [])) ps ->
  length cells = length ps -> read_at (nth b (write_buf bs b ps cells) []) ps = cells.
Proof.
  intros bs b ps cells ND F L. unfold write_buf.
  destruct (Nat.lt_ge_cases b (length bs)).
  - rewrite nth_set_nth_same by auto. apply read_write_at; auto.
  - rewrite (nth_overflow bs) in F by auto. destruct ps as [|p ps].
    + destruct cells; simpl in *; [reflexivity|discriminate].
    + inversion F; subst. simpl in *. lia.
Qed.

(* ================================================================== T4: copy construction *)
Lemma read_at_seq_len : forall l n, length l = n -> read_at l (seq 0 n) = l.
Proof. intros. subst. apply read_at_seq. Qed.
Lemma read_fresh_mk : forall bs extra o k dt sh i n,
  read_arr (bs ++ extra) (mkArr o k dt sh (length bs + i) (seq 0 n)) = read_at (nth i extra []) (seq 0 n).
Proof.
  intros. unfold read_arr. cbn [a_buf a_idx]. rewrite app_nth2 by lia.
  replace (length bs + i - length bs) with i by lia. auto.
Qed.

Lemma exec_copy_fresh : forall h d ck s h' v, exec h (OCopy d ck s) = (h', ROk) -> lookup s (env h) = Some v ->
  exists v' extra k, h' = mkHeap (bufs h ++ extra) (noid h + k) (bind d v' (env h)) /\
    freshv (length (bufs h)) v' /\ NoDup (map a_buf (leaves v')) /\
    read_value (bufs h') v' = read_value (bufs h) v /\
    map a_shape (leaves v') = map a_shape (leaves v) /\ map a_dt (leaves v') = map a_dt (leaves v) /\
    Forall (fun a => exists n, a_idx a = seq 0 n) (leaves v') /\
    match ck, v' with
    | CArr k, VArr a' => a_kind a' = k
    | CPart, VPart _ p' v' q' m' => a_kind p' = KPos /\ a_kind v' = KVel
    | CFld, VFld _ e' g' => a_kind e' = KElec /\ a_kind g' = KMagn
    | _, _ => False
    end.
Proof.
  intros h d ck s h' v H L. unfold exec in H. rewrite L in H.
  destruct ck as [k| | ]; destruct v as [a|o p v q m|o e g|t c];
    repeat match type of H with
           | context [if ?x then _ else _] => destruct x eqn:?
           end; try (unfold fail in H; inversion H; fail);
    unfold ok_bind in H; inversion H; subst; clear H;
    eexists; eexists; eexists; (split; [reflexivity|]);
    cbn [bufs env noid]; unfold freshv, read_value, leaves, fresh_arr; simpl;
    repeat split;
    try (repeat constructor; simpl; try lia; fail).
  all: try (repeat constructor; simpl; intuition lia).
  all: try (repeat constructor; eexists; reflexivity).
  all: rewrite !read_fresh_mk; simpl; unfold read_arr; rewrite !read_at_seq_len by apply read_at_length; reflexivity.
Qed.

(* Copy construction cls(src) (mesh, multi-component meshes, particles, fields): the new object has
   the cells of the source, lives in brand-new pairwise distinct buffers, nothing else changed; a
   later write through ANY pre-existing array (the source, a view of it, ...) leaves the copy
   unchanged and a write through the copy (or any view into its buffers) leaves every pre-existing
   object unchanged. *)
Theorem copy_independent : forall h d ck s h1 v, wf h -> exec h (OCopy d ck s) = (h1, ROk) -> lookup s (env h) = Some v ->
  exists v', lookup d (env h1) = Some v' /\
    read_value (bufs h1) v' = read_value (bufs h) v /\
    freshv (length (bufs h)) v' /\ NoDup (map a_buf (leaves v')) /\
    (forall w, wfv (length (bufs h)) w -> read_value (bufs h1) w = read_value (bufs h) w) /\
    forall t sl src h2 r a, exec h1 (OSet t sl src) = (h2, r) -> lookup t (env h1) = Some (VArr a) ->
      (a_buf a < length (bufs h) -> read_value (bufs h2) v' = read_value (bufs h1) v') /\
      (length (bufs h) <= a_buf a -> forall w, wfv (length (bufs h)) w -> read_value (bufs h2) w = read_value (bufs h1) w).
Proof.
  intros h d ck s h1 v W H L.
  destruct (exec_copy_fresh _ _ _ _ _ _ H L) as (v' & extra & k & E & F & ND & R & _).
  exists v'. split; [subst h1; cbn [env]; apply lookup_bind_same|].
  split; auto. split; auto. split; auto. split.
  - intros w Hw. subst h1. cbn [bufs]. apply read_value_app. auto.
  - intros t sl src h2 r a X Lt. split.
    + intros Ha. unfold read_value. apply map_ext_in. intros a2 I2.
      eapply setitem_preserves_other_buffers; eauto.
      unfold freshv in F. rewrite Forall_forall in F. specialize (F _ I2). lia.
    + intros Ha w Hw. unfold read_value. apply map_ext_in. intros a2 I2.
      eapply setitem_preserves_other_buffers; eauto.
      unfold wfv in Hw. rewrite Forall_forall in Hw. specialize (Hw _ I2). lia.
Qed.

(* ================================================================== T5: views (components, slices, strided / transposed views) alias the parent *)
Lemma read_at_sub : forall l idx k n, read_at l (sub idx k n) = firstn n (skipn k (read_at l idx)).
Proof. intros. unfold read_at, sub. rewrite skipn_map, firstn_map. reflexivity. Qed.
Lemma read_at_gather : forall l idx pos, Forall (fun p => p < length idx) pos ->
  read_at l (map (fun p => nth p idx 0) pos) = map (fun p => nth p (read_at l idx) c0) pos.
Proof.
  intros l idx pos F. unfold read_at. rewrite map_map. apply map_ext_in. intros p Hp.
  rewrite Forall_forall in F. specialize (F _ Hp).
  set (g := fun i => nth i l c0). change (g (nth p idx 0) = nth p (map g idx) c0).
  rewrite (nth_indep (map g idx) c0 (g 0)) by (rewrite map_length; auto).
  rewrite map_nth. reflexivity.
Qed.

Theorem component_views_alias : forall h c p i h1 ap, exec h (OComp c p i) = (h1, ROk) -> lookup p (env h) = Some (VArr ap) ->
  exists ac, lookup c (env h1) = Some (VArr ac) /\ bufs h1 = bufs h /\
    a_kind ac = KMesh /\ a_dt ac = a_dt ap /\ a_buf ac = a_buf ap /\ a_shape ac = tl (a_shape ap) /\
    a_idx ac = sub (a_idx ap) (i * size (a_shape ac)) (size (a_shape ac)) /\ i < 2 /\ size (a_shape ap) = 2 * size (a_shape ac) /\
    (* in every buffer state, i.e. whatever is written later through the view, the parent or anything else *)
    forall bs, read_arr bs ac = firstn (size (a_shape ac)) (skipn (i * size (a_shape ac)) (read_arr bs ap)).
Proof.
  intros h c p i h1 ap H L. unfold exec in H. rewrite L in H.
  destruct (is_multi (a_kind ap) && (i <? 2)) eqn:M; [|inversion H].
  apply andb_true_iff in M. destruct M as [_ Hi]. apply Nat.ltb_lt in Hi.
  destruct (a_shape ap) as [|n t] eqn:S; [inversion H|].
  destruct n as [|[|[|n]]]; try (inversion H; fail).
  destruct t as [|m t]; [inversion H|].
  unfold ok_bind in H. inversion H; subst; clear H. cbn [env bufs].
  eexists. rewrite lookup_bind_same. split; [reflexivity|]. split; [apply app_nil_r|].
  cbn [a_kind a_dt a_buf a_shape a_idx tl].
  repeat split; auto.
  intros bs. unfold read_arr. cbn [a_kind a_dt a_buf a_shape a_idx]. apply read_at_sub.
Qed.

(* general basic-indexing views  d = s.transpose(perm)[start:stop:step, ...]  (strided, reversed, sub-block,
   transposed): same class, same buffer, and in EVERY buffer state the view reads as the gathered cells of the
   parent at fixed in-range, pairwise distinct positions *)
Lemma nodupb_NoDup : forall l, nodupb l = true -> NoDup l.
Proof.
  induction l as [|x l IH]; simpl; intros H; constructor.
  - apply andb_true_iff in H. destruct H as [H _]. intro I. apply negb_true_iff in H.
    assert (existsb (Nat.eqb x) l = true) by (apply existsb_exists; exists x; split; auto; apply Nat.eqb_refl). congruence.
  - apply IH. apply andb_true_iff in H. tauto.
Qed.
Lemma view_of_spec : forall a perm sl nsh idx, view_of a perm sl = Some (nsh, idx) ->
  exists pos, idx = map (fun p => nth p (a_idx a) 0) pos /\ Forall (fun p => p < length (a_idx a)) pos /\
              NoDup idx /\ length idx = size nsh /\ nsh = map (fun x => snd x) sl.
Proof.
  intros a perm sl nsh idx H. unfold view_of in H.
  repeat match type of H with
         | context [if ?x then _ else _] => destruct x eqn:?
         end; try discriminate.
  inversion H; subst. eexists. split; [reflexivity|].
  repeat match goal with E : _ && _ = true |- _ => apply andb_true_iff in E; destruct E end.
  split; [|split; [|split]]; auto.
  - apply Forall_forall. intros p Hp.
    match goal with E : forallb _ _ = true |- _ => rewrite forallb_forall in E; specialize (E _ Hp); apply Nat.ltb_lt in E; exact E end.
  - apply nodupb_NoDup. auto.
  - apply Nat.eqb_eq. auto.
Qed.
Theorem strided_views_alias : forall h d s perm sl h1 ap, exec h (OView d s perm sl) = (h1, ROk) -> lookup s (env h) = Some (VArr ap) ->
  exists av pos, lookup d (env h1) = Some (VArr av) /\ bufs h1 = bufs h /\
    a_kind av = a_kind ap /\ a_dt av = a_dt ap /\ a_buf av = a_buf ap /\ a_shape av = map (fun x => snd x) sl /\
    a_idx av = map (fun p => nth p (a_idx ap) 0) pos /\ Forall (fun p => p < length (a_idx ap)) pos /\
    NoDup (a_idx av) /\ length (a_idx av) = size (a_shape av) /\
    forall bs, read_arr bs av = map (fun p => nth p (read_arr bs ap) c0) pos.
Proof.
  intros h d s perm sl h1 ap H L. unfold exec in H. rewrite L in H.
  destruct (view_of ap perm sl) as [[nsh idx]|] eqn:V; [|inversion H].
  destruct (view_of_spec _ _ _ _ _ V) as (pos & E & F & ND & Len & Sh).
  unfold ok_bind in H. inversion H; subst h1; clear H. cbn [env bufs].
  exists (mkArr (noid h) (a_kind ap) (a_dt ap) nsh (a_buf ap) idx), pos.
  rewrite lookup_bind_same. cbn [a_kind a_dt a_buf a_shape a_idx].
  repeat split; auto; try apply app_nil_r.
  intros bs. unfold read_arr. cbn [a_buf a_idx]. rewrite E. apply read_at_gather. auto.
Qed.

Lemma exec_keeps_binding : forall h o n, (is_setitem o = true \/ dst o <> n) ->
  lookup n (env (fst (exec h o))) = lookup n (env h).
Proof.
  intros h o n H. destruct (is_setitem o) eqn:S.
  - destruct o; try discriminate. destruct (exec h (OSet d s src)) as [h' r] eqn:E.
    destruct (setitem_frame _ _ _ _ _ _ E) as [Ev _]. simpl. rewrite Ev. auto.
  - destruct H as [H|H]; [discriminate|]. destruct (exec_Ext h o S) as (_ & _ & E). apply E. auto.
Qed.

(* ... hence after ANY later operations that do not rebind the two names (writes through the view, the
   parent, aliases, slices, other components, ... included) the view still shows the parent's component *)
Theorem component_view_tracks_parent : forall ops h c p i h1 ap ac,
  exec h (OComp c p i) = (h1, ROk) -> lookup p (env h) = Some (VArr ap) -> c <> p ->
  lookup c (env h1) = Some (VArr ac) ->
  (forall o, In o ops -> is_setitem o = true \/ (dst o <> c /\ dst o <> p)) ->
  let h2 := exec_seq h1 ops in
  lookup c (env h2) = Some (VArr ac) /\ lookup p (env h2) = Some (VArr ap) /\
  read_arr (bufs h2) ac = firstn (size (a_shape ac)) (skipn (i * size (a_shape ac)) (read_arr (bufs h2) ap)).
Proof.
  intros ops h c p i h1 ap ac H L N Lc Hops h2.
  destruct (component_views_alias _ _ _ _ _ _ H L) as (ac' & Lc' & _ & _ & _ & _ & _ & _ & _ & _ & V).
  rewrite Lc in Lc'. inversion Lc'; subst ac'.
  assert (Lp : lookup p (env h1) = Some (VArr ap)).
  { destruct (exec_Ext h (OComp c p i) eq_refl) as (_ & _ & E). rewrite H in E. simpl in E. rewrite E; auto. }
  assert (K : lookup c (env h2) = Some (VArr ac) /\ lookup p (env h2) = Some (VArr ap)).
  { subst h2. clear H V L. revert h1 Lc Lp. induction ops as [|o ops IH]; simpl; intros h1 Lc Lp; auto.
    apply IH.
    - intros o' I. apply Hops. simpl. auto.
    - rewrite exec_keeps_binding; auto. destruct (Hops o) as [|[]]; simpl; auto.
    - rewrite exec_keeps_binding; auto. destruct (Hops o) as [|[]]; simpl; auto. }
  destruct K. repeat split; auto.
Qed.

(* a write through the view is read back through the view, hence (previous theorem) seen in the parent *)
Theorem setitem_reads_back : forall h d src h' a cells, exec h (OSet d SAll src) = (h', ROk) ->
  lookup d (env h) = Some (VArr a) -> a_shape a <> [] ->
  NoDup (a_idx a) -> Forall (fun p => p < length (nth (a_buf a) (bufs h) [])) (a_idx a) -> length (a_idx a) = size (a_shape a) ->
  (exists ps u, eval_operand h src = Some ps /\ as_ufarg (bufs h) ps = Some u /\
     assign_cells (a_dt a) (a_shape a) (u_cplx u) (u_shape u) (u_cells u) = Some cells) ->
  read_arr (bufs h') a = cells.
Proof.
  intros h d src h' a cells H L Hs ND Hb Hl (ps & u & E1 & E2 & E3).
  unfold exec in H. rewrite L, E1 in H.
  unfold select in H. destruct (a_shape a) as [|n t] eqn:S; [congruence|].
  rewrite E2 in H. cbn [region_shape region_idx] in H. rewrite E3 in H.
  apply assign_cells_length in E3.
  destruct (u_kind u); simpl in H.
  2: destruct (u_cplx u && negb (is_cplx (a_dt a))); [inversion H|].
  all: inversion H; subst; cbn [bufs]; unfold read_arr;
    apply read_after_write; auto; congruence.
Qed.

(* ================================================================== T7: abs() is the maximum norm *)
Local Open Scope Z_scope.
Lemma maxabs_nonneg : forall l, 0 <= maxabs l.
Proof. induction l; simpl; lia. Qed.
Lemma maxabs_ge : forall l x, In x l -> Z.abs x <= maxabs l.
Proof. induction l; simpl; intros x H; [tauto|]. destruct H as [->|H]; [lia|]. specialize (IHl _ H). lia. Qed.
Lemma maxabs_attained : forall l, l <> [] -> exists x, In x l /\ maxabs l = Z.abs x.
Proof.
  induction l as [|a l IH]; intros H; [congruence|]. simpl.
  destruct l as [|b l].
  - exists a. simpl. split; auto. lia.
  - destruct IH as [x [I E]]; [congruence|].
    destruct (Z.max_spec (Z.abs a) (maxabs (b :: l))) as [[_ M]|[_ M]]; rewrite M.
    + exists x. split; [right; auto|auto].
    + exists a. split; [left; auto|auto].
Qed.
Lemma maxabs_zero : forall l, maxabs l = 0 <-> Forall (fun x => x = 0) l.
Proof.
  induction l; simpl; split; intros H; auto.
  - pose proof (maxabs_nonneg l). constructor; [lia|]. apply IHl. lia.
  - inversion H; subst. apply IHl in H3. rewrite H3. simpl. lia.
Qed.
Lemma maxabs_scale : forall c l, maxabs (map (Z.mul c) l) = Z.abs c * maxabs l.
Proof.
  induction l; simpl; [lia|]. rewrite IHl, Z.abs_mul. rewrite Z.mul_max_distr_nonneg_l by lia. auto.
Qed.
Definition zip_add (l1 l2 : list Z) : list Z := map (fun xy => fst xy + snd xy) (combine l1 l2).
Lemma maxabs_triangle : forall l1 l2, maxabs (zip_add l1 l2) <= maxabs l1 + maxabs l2.
Proof.
  unfold zip_add. induction l1 as [|x l1 IH]; destruct l2 as [|y l2]; simpl;
    intros.
  - lia.
  - pose proof (maxabs_nonneg l2). lia.
  - pose proof (maxabs_nonneg l1). lia.
  - specialize (IH l2). simpl in IH. lia.
Qed.

(* complex cells: the squared modulus (exact in Z); sqrt S <= sqrt A + sqrt B is stated without roots *)
Lemma normsq_nonneg : forall c, 0 <= normsq c.
Proof. intros [a b]. unfold normsq. simpl. nia. Qed.
Lemma normsq_zero : forall c, normsq c = 0 <-> c = (0, 0).
Proof. intros [a b]. unfold normsq. simpl. split; intros H; [f_equal; nia|inversion H; lia]. Qed.
Lemma normsq_mul : forall x y, normsq (cmul x y) = normsq x * normsq y.
Proof. intros [a b] [c d]. unfold normsq, cmul. simpl. ring. Qed.
Lemma maxsq_nonneg : forall l, 0 <= maxsq l.
Proof. induction l; simpl; lia. Qed.
Lemma maxsq_ge : forall l c, In c l -> normsq c <= maxsq l.
Proof. induction l; simpl; intros c H; [tauto|]. destruct H as [->|H]; [lia|]. specialize (IHl _ H). lia. Qed.
Lemma maxsq_zero : forall l, maxsq l = 0 <-> Forall (fun c => c = (0, 0)) l.
Proof.
  induction l; simpl; split; intros H; auto.
  - pose proof (maxsq_nonneg l). pose proof (normsq_nonneg a). constructor; [apply normsq_zero; lia|]. apply IHl. lia.
  - inversion H; subst. apply IHl in H3. rewrite H3. unfold normsq. simpl. lia.
Qed.
Lemma maxsq_scale : forall c l, maxsq (map (cmul c) l) = normsq c * maxsq l.
Proof.
  induction l; simpl; [lia|]. rewrite IHl, normsq_mul. rewrite Z.mul_max_distr_nonneg_l; auto. apply normsq_nonneg.
Qed.
Definition cadd (x y : cell) : cell := (fst x + fst y, snd x + snd y).
Definition zip_cadd (l1 l2 : list cell) : list cell := map (fun xy => cadd (fst xy) (snd xy)) (combine l1 l2).
(* sqrt S <= sqrt A + sqrt B   <->   S <= A + B  \/  (S - A - B)^2 <= 4 A B   (for S, A, B >= 0) *)
Definition sqrt_le_sum (S A B : Z) : Prop := S <= A + B \/ (S - A - B) * (S - A - B) <= 4 * A * B.
Lemma cell_triangle : forall x y A B, normsq x <= A -> normsq y <= B -> sqrt_le_sum (normsq (cadd x y)) A B.
Proof.
  intros [a b] [c d] A B. unfold normsq, cadd, sqrt_le_sum. cbn [fst snd]. intros HA HB.
  set (p := a * c + b * d).
  assert (CS : p * p <= (a * a + b * b) * (c * c + d * d)).
  { subst p. replace ((a * a + b * b) * (c * c + d * d))
      with ((a * c + b * d) * (a * c + b * d) + (a * d - b * c) * (a * d - b * c)) by ring.
    pose proof (Z.square_nonneg (a * d - b * c)). lia. }
  replace ((a + c) * (a + c) + (b + d) * (b + d)) with ((a * a + b * b) + (c * c + d * d) + 2 * p) by (subst p; ring).
  set (na := a * a + b * b) in *. set (nb := c * c + d * d) in *.
  assert (0 <= na) by (subst na; nia). assert (0 <= nb) by (subst nb; nia).
  clearbody p na nb.
  destruct (Z_le_gt_dec (na + nb + 2 * p) (A + B)); [left; auto|right].
  assert (T : 0 < na + nb + 2 * p - A - B <= 2 * p) by lia.
  assert (T2 : (na + nb + 2 * p - A - B) * (na + nb + 2 * p - A - B) <= (2 * p) * (2 * p)).
  { apply Z.mul_le_mono_nonneg; lia. }
  assert (AB : na * nb <= A * B) by (apply Z.mul_le_mono_nonneg; lia).
  set (TT := (na + nb + 2 * p - A - B) * (na + nb + 2 * p - A - B)) in *. clearbody TT.
  replace (2 * p * (2 * p)) with (4 * (p * p)) in T2 by ring. lia.
Qed.
Lemma sqrt_le_sum_mono : forall S A B A' B', 0 <= S -> 0 <= A <= A' -> 0 <= B <= B' -> sqrt_le_sum S A B -> sqrt_le_sum S A' B'.
Proof.
  unfold sqrt_le_sum. intros S A B A' B' HS HA HB [H|H]; [left; lia|].
  destruct (Z_le_gt_dec S (A' + B')); [left; auto|right].
  assert (0 < S - A' - B' <= S - A - B) by lia.
  assert ((S - A' - B') * (S - A' - B') <= (S - A - B) * (S - A - B)) by (apply Z.mul_le_mono_nonneg; lia).
  assert (A * B <= A' * B') by (apply Z.mul_le_mono_nonneg; lia).
  set (T1 := (S - A' - B') * (S - A' - B')) in *. set (T0 := (S - A - B) * (S - A - B)) in *. clearbody T1 T0. lia.
Qed.
Lemma maxsq_triangle : forall l1 l2, sqrt_le_sum (maxsq (zip_cadd l1 l2)) (maxsq l1) (maxsq l2).
Proof.
  unfold zip_cadd. induction l1 as [|x l1 IH]; destruct l2 as [|y l2]; simpl.
  - left; lia.
  - left. pose proof (maxsq_nonneg l2). pose proof (normsq_nonneg y). lia.
  - left. pose proof (maxsq_nonneg l1). pose proof (normsq_nonneg x). lia.
  - specialize (IH l2).
  pose proof (maxsq_nonneg l1). pose proof (maxsq_nonneg l2). pose proof (normsq_nonneg x). pose proof (normsq_nonneg y).
  destruct (Z.max_spec (normsq (cadd x y)) (maxsq (map (fun xy => cadd (fst xy) (snd xy)) (combine l1 l2)))) as [[_ M]|[_ M]];
    rewrite M.
  + eapply sqrt_le_sum_mono; [| | |apply IH]; try lia.
    pose proof (maxsq_nonneg (map (fun xy => cadd (fst xy) (snd xy)) (combine l1 l2))). lia.
  + apply cell_triangle; lia.
Qed.
Local Close Scope Z_scope.

(* the model's abs() is this norm *)
Theorem abs_is_maxnorm : forall h d s h' a, exec h (OAbs d s) = (h', ROk) -> lookup s (env h) = Some (VArr a) ->
  lookup d (env h') =
    Some (if is_cplx (a_dt a) then VNum NAbsSq (maxsq (read_arr (bufs h) a), 0%Z)
          else VNum NPyFloat (maxabs (map fst (read_arr (bufs h) a)), 0%Z))
  /\ bufs h' = bufs h.
Proof.
  intros h d s h' a H L. unfold exec in H. rewrite L in H.
  destruct (is_meshclass (a_kind a)); [|inversion H].
  destruct (read_arr (bufs h) a) eqn:R; [inversion H|]. rewrite <- R in H.
  destruct (is_cplx (a_dt a)); unfold ok_bind in H; inversion H; subst; cbn [env bufs];
    rewrite lookup_bind_same, app_nil_r; rewrite R; auto.
Qed.

(* every heap reachable from the empty one is well-formed: the theorems' [wf] hypotheses are met by every run *)
Theorem wf_reachable : forall ops, wf (exec_seq empty_heap ops).
Proof. intros. apply exec_seq_wf. apply wf_empty. Qed.

(* ================================================================== a quirk the faithful model exhibits *)
(* particles.__add__/__sub__/__rmul__ end with `p.m = self.m; p.q = self.q`: the RESULT of particle
   arithmetic shares the mass and charge arrays with its left operand (the copy constructor does
   not).  "Results of arithmetic own all their storage" is therefore false for particles: *)
Definition quirk_ops : list op :=
  [ONewPart 0 [2] 1 2 3 4; OBin 1 UAdd (ON 0) (ON 0); OComp 2 1 3; OSet 2 SAll (OS SFloat (9, 0)%Z); OComp 3 0 3].
Lemma particles_result_independent_refuted :
  exists ops a, lookup 3 (env (exec_seq empty_heap ops)) = Some (VArr a) /\
    (* name 3 = operand.m, written only through result.m *)
    read_arr (bufs (exec_seq empty_heap ops)) a = [(9, 0); (9, 0)]%Z /\
    read_arr (bufs (exec_seq empty_heap (firstn 3 ops))) a = [(4, 0); (4, 0)]%Z.
Proof. exists quirk_ops. eexists. vm_compute. repeat split. Qed.

(* ================================================================== non-vacuity *)
Definition demo_ops : list op :=
  [ONew 0 KImex DReal [3] 2; OAssign 1 0; OIop 1 UAdd (OS SInt (1, 0)%Z); OComp 2 0 1;
   OSet 2 (SRange 1 3) (OS SFloat (7, 0)%Z); OCopy 3 (CArr KImex) 0; OSet 3 SAll (OS SInt (0, 0)%Z); OAbs 4 0].
(* names after the run: 0 = the imex mesh (component `expl` partly overwritten through the view 2),
   1 = the rebound result of `+=` in a new buffer, 3 = an independent copy (zeroed), 4 = abs(0) *)
Example demo_run :
  dump 5 (exec_seq empty_heap demo_ops) =
  [1; 2; 0; 2; 2; 3;  2;0; 2;0; 2;0; 2;0; 7;0; 7;0;
   1; 2; 0; 2; 2; 3;  3;0; 3;0; 3;0; 3;0; 3;0; 3;0;
   1; 1; 0; 1; 3;  2;0; 7;0; 7;0;
   1; 2; 0; 2; 2; 3;  0;0; 0;0; 0;0; 0;0; 0;0; 0;0;
   4; 0; 7; 0;
   -1; 0; 1; 2; 3; -2; 0; 2]%Z.
Proof. vm_compute. reflexivity. Qed.
Example demo_iop_hypotheses : exists h a h', wf h /\ lookup 1 (env h) = Some (VArr a) /\
  exec h (OIop 1 UAdd (OS SInt (1, 0)%Z)) = (h', ROk).
Proof.
  exists (exec_seq empty_heap (firstn 2 demo_ops)). eexists. eexists.
  split; [apply wf_reachable|]. split; vm_compute; reflexivity.
Qed.
Example demo_component_hypotheses : exists h ap h1, lookup 0 (env h) = Some (VArr ap) /\ exec h (OComp 2 0 1) = (h1, ROk).
Proof. exists (exec_seq empty_heap (firstn 3 demo_ops)). eexists. eexists. split; vm_compute; reflexivity. Qed.
Example demo_copy_hypotheses : exists h v h1, wf h /\ lookup 0 (env h) = Some v /\ exec h (OCopy 3 (CArr KImex) 0) = (h1, ROk).
Proof.
  exists (exec_seq empty_heap (firstn 5 demo_ops)). eexists. eexists.
  split; [apply wf_reachable|]. split; vm_compute; reflexivity.
Qed.

(* ================================================================== strong well-formedness (windows in bounds) and full-strength view theorems *)
(* strong well-formedness: every bound array's positions are pairwise distinct, lie inside its (allocated) buffer
   and are as many as its shape says *)
Definition inb (bs : list (list cell)) (a : arr) : Prop :=
  a_buf a < length bs /\ Forall (fun p => p < length (nth (a_buf a) bs [])) (a_idx a) /\
  NoDup (a_idx a) /\ length (a_idx a) = size (a_shape a).
Definition wfsv (bs : list (list cell)) (v : value) : Prop := Forall (inb bs) (leaves v).
Definition wfs (h : heap) : Prop := forall n v, lookup n (env h) = Some v -> wfsv (bufs h) v.

Lemma inb_app : forall bs extra a, inb bs a -> inb (bs ++ extra) a.
Proof. unfold inb. intros bs extra a (H1 & H2 & H3 & H4). rewrite app_length, app_nth1 by auto. repeat split; auto; lia. Qed.
Lemma wfsv_app : forall bs extra v, wfsv bs v -> wfsv (bs ++ extra) v.
Proof. unfold wfsv. intros. eapply Forall_impl; [|eauto]. intros. apply inb_app. auto. Qed.
Lemma inb_fresh : forall bs extra o k dt sh i n, i < length extra -> length (nth i extra []) = n -> n = size sh ->
  inb (bs ++ extra) (mkArr o k dt sh (length bs + i) (seq 0 n)).
Proof.
  unfold inb. intros. cbn [a_buf a_idx a_shape]. rewrite app_length, app_nth2 by lia.
  replace (length bs + i - length bs) with i by lia. repeat split; try lia.
  - apply Forall_forall. intros p Hp. apply in_seq in Hp. lia.
  - apply seq_NoDup.
  - rewrite seq_length. auto.
Qed.
Lemma read_arr_length : forall bs a, inb bs a -> length (read_arr bs a) = size (a_shape a).
Proof. intros bs a (H1 & H2 & H3 & H4). unfold read_arr. rewrite read_at_length. auto. Qed.
Lemma sub_incl : forall (l : list nat) k n x, In x (sub l k n) -> In x l.
Proof.
  intros l k n x H. unfold sub in H. rewrite <- (firstn_skipn k l). apply in_or_app. right.
  rewrite <- (firstn_skipn n (skipn k l)). apply in_or_app. left. auto.
Qed.
Lemma NoDup_app_r : forall (l1 l2 : list nat), NoDup (l1 ++ l2) -> NoDup l2.
Proof. induction l1; simpl; intros l2 H; auto. inversion H; auto. Qed.
Lemma NoDup_app_l : forall (l1 l2 : list nat), NoDup (l1 ++ l2) -> NoDup l1.
Proof.
  induction l1; simpl; intros l2 H; constructor; inversion H; subst.
  - intro I. apply H2. apply in_or_app. auto.
  - eapply IHl1; eauto.
Qed.
Lemma sub_NoDup : forall (l : list nat) k n, NoDup l -> NoDup (sub l k n).
Proof.
  intros l k n H. unfold sub. rewrite <- (firstn_skipn k l) in H. apply NoDup_app_r in H.
  rewrite <- (firstn_skipn n (skipn k l)) in H. apply NoDup_app_l in H. auto.
Qed.
Lemma sub_length : forall (l : list nat) k n, k + n <= length l -> length (sub l k n) = n.
Proof. intros. unfold sub. rewrite firstn_length, skipn_length. lia. Qed.
Lemma inb_sub : forall bs a k n sh o kd dt, inb bs a -> k + n <= length (a_idx a) -> n = size sh ->
  inb bs (mkArr o kd dt sh (a_buf a) (sub (a_idx a) k n)).
Proof.
  unfold inb. intros bs a k n sh o kd dt (H1 & H2 & H3 & H4) Hk Hn. cbn [a_buf a_idx a_shape].
  repeat split; auto.
  - apply Forall_forall. intros p Hp. apply sub_incl in Hp. rewrite Forall_forall in H2. auto.
  - apply sub_NoDup. auto.
  - rewrite sub_length; auto.
Qed.

Lemma wfs_ok_bind : forall h extra d v k, wfs h -> wfsv (bufs h ++ extra) v -> wfs (fst (ok_bind h extra d v k)).
Proof.
  intros h extra d v k W Hv n v' Hl.
  change (lookup n (bind d v (env h)) = Some v') in Hl.
  change (wfsv (bufs h ++ extra) v').
  destruct (Nat.eq_dec n d) as [->|N].
  - rewrite lookup_bind_same in Hl. inversion Hl; subst. auto.
  - rewrite lookup_bind_other in Hl by auto. apply wfsv_app. eapply W; eauto.
Qed.
Lemma wfs_fail : forall h e, wfs h -> wfs (fst (fail h e)).
Proof. auto. Qed.
Lemma wfs_empty : wfs empty_heap.
Proof. intros n v H. simpl in H. discriminate. Qed.

Definition wfsp (bs : list (list cell)) (p : opval) : Prop := match p with PVal v => wfsv bs v | _ => True end.
Lemma eval_operand_wfs : forall h o p, wfs h -> eval_operand h o = Some p -> wfsp (bufs h) p.
Proof.
  intros h o p W E. destruct o; simpl in E.
  - destruct (lookup n (env h)) eqn:L; simpl in E; inversion E; subst. simpl. eapply W; eauto.
  - inversion E; subst; simpl; auto.
  - inversion E; subst; simpl; auto.
Qed.

(* a ufunc argument whose cell list has the length of its shape *)
Definition uf_ok (u : ufarg) : Prop := length (u_cells u) = size (u_shape u).
Lemma as_ufarg_ok : forall bs p u, wfsp bs p -> as_ufarg bs p = Some u -> uf_ok u.
Proof.
  intros bs p u W E. destruct p as [[a| | | ]|t c|dt sh cs]; simpl in E; try discriminate.
  - inversion E; subst. unfold uf_ok. simpl. apply read_arr_length. simpl in W. inversion W; auto.
  - inversion E; subst. reflexivity.
  - destruct (length cs =? size sh) eqn:L; inversion E; subst. apply Nat.eqb_eq in L. auto.
Qed.
Lemma ufunc_compute_length : forall f args c s cells, Forall uf_ok args -> ufunc_compute f args = Some (c, s, cells) ->
  length cells = size s.
Proof.
  intros f args c s cells F H. unfold ufunc_compute in H.
  destruct args as [|x [|y [|z t]]]; try discriminate.
  - destruct (arity f =? 1); inversion H; subst. rewrite map_length. inversion F; auto.
  - destruct (arity f =? 2); [|discriminate]. destruct (bshape (u_shape x) (u_shape y)); inversion H; subst.
    rewrite map_length, combine_length, !bcast_cells_length. lia.
Qed.
Lemma somes_ok : forall bs ps, Forall (wfsp bs) ps -> Forall uf_ok (somes (map (as_ufarg bs) ps)).
Proof.
  induction ps as [|p ps IH]; intros F; unfold somes in *; simpl; [constructor|].
  inversion F; subst. apply Forall_app. split; auto.
  destruct (as_ufarg bs p) eqn:E; [|constructor]. constructor; [|constructor]. eapply as_ufarg_ok; eauto.
Qed.
Lemma ufunc_value_length : forall bs f a o k dt s cells, Forall (wfsp bs) a ->
  ufunc_value bs f a o = inr (k, dt, s, cells) -> length cells = size s.
Proof.
  intros bs f a o k dt s cells F H. unfold ufunc_value in H.
  repeat match type of H with
         | context [match ?x with _ => _ end] => destruct x eqn:?
         | context [if ?x then _ else _] => destruct x eqn:?
         end; try discriminate.
  inversion H; subst. eapply ufunc_compute_length; [|eauto]. apply (somes_ok bs a F).
Qed.
Lemma do_ufunc_wfs : forall h d f a o, wfs h -> Forall (wfsp (bufs h)) a -> wfs (fst (do_ufunc h d f a o)).
Proof.
  intros h d f a o W F. unfold do_ufunc.
  destruct (ufunc_value (bufs h) f a o) as [e|[[[k dt] s] cells]] eqn:E; [apply wfs_fail; auto|].
  apply wfs_ok_bind; auto. unfold wfsv, leaves, fresh_arr. constructor; [|constructor].
  rewrite !Nat.add_0_r. replace (length (bufs h)) with (length (bufs h) + 0) at 1 by lia.
  apply inb_fresh; simpl; auto. eapply ufunc_value_length; eauto.
Qed.

Lemma inb_fresh_i : forall h extra o k dt sh i n, i < length extra -> length (nth i extra []) = n -> n = size sh ->
  inb (bufs h ++ extra) (mkArr o k dt sh (length (bufs h) + i) (seq 0 n)).
Proof. intros. apply inb_fresh; auto. Qed.

Ltac fresh_tac :=
  unfold fresh_arr; apply inb_fresh_i; simpl; try lia; try reflexivity; auto.

Lemma part_result_wfs : forall h d p v q m e1 e2, wfs h -> inb (bufs h) q -> inb (bufs h) m ->
  wfs (fst (part_result h d p v q m e1 e2)).
Proof.
  intros. unfold part_result.
  repeat dmatch; try (apply wfs_fail; auto).
  apply wfs_ok_bind; auto. unfold wfsv, leaves.
  repeat (apply Forall_cons || apply Forall_nil); try (apply inb_app; assumption);
    fresh_tac; eapply assign_cells_length; eauto.
Qed.
Lemma fld_result_wfs : forall h d e g e1 e2, wfs h -> wfs (fst (fld_result h d e g e1 e2)).
Proof.
  intros. unfold fld_result.
  repeat dmatch; try (apply wfs_fail; auto).
  apply wfs_ok_bind; auto. unfold wfsv, leaves.
  repeat (apply Forall_cons || apply Forall_nil); fresh_tac; eapply assign_cells_length; eauto.
Qed.
Lemma Forall_two : forall A (P : A -> Prop) x y, P x -> P y -> Forall P [x; y].
Proof. intros. constructor; auto. Qed.
Lemma Forall_one : forall A (P : A -> Prop) x, P x -> Forall P [x].
Proof. intros. constructor; auto. Qed.
Lemma do_bin_wfs : forall h d f x y, wfs h -> wfsp (bufs h) x -> wfsp (bufs h) y -> wfs (fst (do_bin h d f x y)).
Proof.
  intros h d f x y W Hx Hy. unfold do_bin.
  repeat (first [apply fld_result_wfs; assumption | apply wfs_fail; assumption
                 | apply do_ufunc_wfs; [assumption | apply Forall_two; first [assumption | exact I]]
                 | apply part_result_wfs; [assumption | simpl in Hx, Hy; unfold wfsv, leaves in *;
                       repeat match goal with H : Forall _ (_ :: _) |- _ => inversion H; clear H; subst end; assumption ..]
                 | dmatch]).
Qed.

Lemma eval_args_wfs : forall h args pa, wfs h ->
  fold_right (fun o acc => match eval_operand h o, acc with Some p, Some l => Some (p :: l) | _, _ => None end) (Some []) args = Some pa ->
  Forall (wfsp (bufs h)) pa.
Proof.
  induction args as [|o args IH]; simpl; intros pa W H.
  - inversion H. constructor.
  - destruct (eval_operand h o) eqn:E; [|discriminate].
    destruct (fold_right _ _ args) eqn:F; [|discriminate]. inversion H; subst.
    constructor; [eapply eval_operand_wfs; eauto|]. apply IH; auto.
Qed.

Lemma inb_write : forall bs b ps new a, inb bs a -> inb (write_buf bs b ps new) a.
Proof.
  unfold inb. intros bs b ps new a (H1 & H2 & H3 & H4). rewrite write_buf_length. repeat split; auto.
  destruct (Nat.eq_dec (a_buf a) b) as [E|N].
  - rewrite E. rewrite write_buf_same_length. rewrite <- E. auto.
  - rewrite write_buf_other; auto.
Qed.

Lemma select_inb : forall bs a s sh idx, inb bs a -> select a s = inr (RegArr sh idx) ->
  forall o k dt, inb bs (mkArr o k dt sh (a_buf a) idx).
Proof.
  intros bs a s sh idx I S o k dt. pose proof I as (H1 & H2 & H3 & H4). unfold select in S.
  destruct (a_shape a) as [|n t] eqn:Sh; [discriminate|].
  change (size (n :: t)) with (n * size t) in H4.
  destruct s as [|lo hi|i].
  - inversion S; subst. unfold inb. cbn [a_buf a_idx a_shape]. repeat split; auto.
  - inversion S; subst. apply inb_sub; auto.
    rewrite H4. set (sz := size t) in *. clearbody sz.
    rewrite <- Nat.mul_add_distr_r. apply Nat.mul_le_mono_r. lia.
  - destruct (i <? n) eqn:L; [|discriminate]. apply Nat.ltb_lt in L.
    destruct t as [|m t']; inversion S; subst. apply inb_sub; auto.
    rewrite H4. change (m * size t') with (size (m :: t')). set (sz := size (m :: t')) in *. clearbody sz.
    replace (i * sz + sz) with ((i + 1) * sz) by lia. apply Nat.mul_le_mono_r. lia.
Qed.

Ltac leaves_tac := unfold wfsv, leaves; repeat (apply Forall_cons || apply Forall_nil).
Ltac len_tac :=
  simpl; try rewrite !repeat_length; try lia; try reflexivity;
  try (unfold read_arr; apply read_at_length);
  try (match goal with H : inb _ ?a |- length (a_idx ?a) = _ => exact (proj2 (proj2 (proj2 H))) end);
  try (apply read_arr_length; assumption);
  try (rewrite read_arr_length by assumption; reflexivity).

Lemma exec_wfs : forall h o, wfs h -> wfs (fst (exec h o)).
Proof.
  intros h o W.
  assert (INV : forall n v, lookup n (env h) = Some v -> Forall (inb (bufs h)) (leaves v)) by (intros; eapply W; eauto).
  destruct o; unfold exec.
  - (* ONew *) dmatch; [|apply wfs_fail; auto]. apply wfs_ok_bind; auto. leaves_tac. fresh_tac; len_tac.
  - (* ONewPart *) apply wfs_ok_bind; auto. leaves_tac; fresh_tac; len_tac.
  - (* ONewFld *) apply wfs_ok_bind; auto. leaves_tac; fresh_tac; len_tac.
  - (* OCopy *)
    destruct (lookup s (env h)) as [v|] eqn:L; [|apply wfs_fail; auto].
    apply INV in L.
    destruct k as [k| | ]; destruct v as [a|o p v q m|o e g|t c]; unfold leaves in L;
      repeat match goal with H : Forall _ (_ :: _) |- _ => inversion H; clear H; subst end;
      repeat dmatch; try (apply wfs_fail; auto; fail);
      apply wfs_ok_bind; auto; leaves_tac; fresh_tac; len_tac.
  - (* OAssign *)
    destruct (lookup s (env h)) as [v|] eqn:L; [|apply wfs_fail; auto].
    apply wfs_ok_bind; auto. apply wfsv_app. eapply W; eauto.
  - (* OUfunc *)
    destruct (fold_right _ _ args) as [pa|] eqn:F; [|repeat dmatch; apply wfs_fail; auto].
    repeat dmatch; try (apply wfs_fail; auto; fail); apply do_ufunc_wfs; auto; eapply eval_args_wfs; eauto.
  - (* OBin *)
    destruct (eval_operand h x) eqn:Ex; [|apply wfs_fail; auto].
    destruct (eval_operand h y) eqn:Ey; [|apply wfs_fail; auto].
    apply do_bin_wfs; auto; eapply eval_operand_wfs; eauto.
  - (* OUn *)
    destruct (eval_operand h x) as [p|] eqn:Ex; [|apply wfs_fail; auto].
    pose proof (eval_operand_wfs _ _ _ W Ex) as Hp.
    repeat dmatch; try (apply wfs_fail; auto; fail).
    apply do_ufunc_wfs; auto; try (apply Forall_one; subst; exact Hp).
  - (* OIop *)
    destruct (lookup d (env h)) as [v|] eqn:L; [|repeat dmatch; apply wfs_fail; auto].
    destruct (eval_operand h y) as [py|] eqn:Ey; [|repeat dmatch; apply wfs_fail; auto].
    pose proof (eval_operand_wfs _ _ _ W Ey) as Hp.
    assert (Hv : wfsv (bufs h) v) by (eapply W; eauto).
    destruct v as [a|o p v q m|o e g|t c].
    + repeat dmatch; try (apply wfs_fail; auto; fail); apply do_ufunc_wfs; auto; apply Forall_two; subst; auto; exact I.
    + apply do_bin_wfs; auto.
    + apply do_bin_wfs; auto.
    + apply wfs_fail; auto.
  - (* OSet *)
    repeat dmatch; try (apply wfs_fail; auto; fail);
      intros n0 v0 Hl; cbn [fst env bufs] in *; specialize (W _ _ Hl); unfold wfsv in *; rewrite Forall_forall in *;
      intros a0 Ha0; apply inb_write; auto.
  - (* OGet *)
    destruct (lookup s (env h)) as [v|] eqn:L; [|apply wfs_fail; auto].
    pose proof (INV _ _ L) as I.
    destruct v as [a|o p v q m|o e g|t c]; try (apply wfs_fail; auto; fail).
    unfold leaves in I. inversion I; subst.
    destruct (select a sl) as [e|[sh off|off]] eqn:S; try (apply wfs_fail; auto; fail).
    + apply wfs_ok_bind; auto. leaves_tac. rewrite app_nil_r. eapply select_inb; eauto.
    + apply wfs_ok_bind; auto. leaves_tac.
  - (* OComp *)
    destruct (lookup s (env h)) as [v|] eqn:L; [|apply wfs_fail; auto].
    pose proof (INV _ _ L) as I.
    destruct v as [a|o p v q m|o e g|t cc]; unfold leaves in I;
      repeat match goal with H : Forall _ (_ :: _) |- _ => inversion H; clear H; subst end.
    + destruct (is_multi (a_kind a) && (c <? 2)) eqn:M; [|apply wfs_fail; auto].
      apply andb_true_iff in M. destruct M as [_ Hc]. apply Nat.ltb_lt in Hc.
      destruct (a_shape a) as [|n t] eqn:Sh; [apply wfs_fail; auto|].
      destruct n as [|[|[|n]]]; try (apply wfs_fail; auto; fail).
      destruct t as [|m t]; [apply wfs_fail; auto|].
      apply wfs_ok_bind; auto. leaves_tac. rewrite app_nil_r.
      match goal with H : inb _ a |- _ => pose proof H as (B1 & B2 & B3 & B4) end.
      rewrite Sh in B4. change (size (2 :: m :: t)) with (2 * size (m :: t)) in B4.
      cbn [tl]. apply inb_sub; auto. rewrite B4.
      set (sz := size (m :: t)) in *. clearbody sz.
      replace (c * sz + sz) with ((c + 1) * sz) by lia. apply Nat.mul_le_mono_r. lia.
    + destruct c as [|[|[|[|c]]]]; try (apply wfs_fail; auto; fail);
        apply wfs_ok_bind; auto; leaves_tac; rewrite app_nil_r; assumption.
    + destruct c as [|[|c]]; try (apply wfs_fail; auto; fail);
        apply wfs_ok_bind; auto; leaves_tac; rewrite app_nil_r; assumption.
    + apply wfs_fail; auto.
  - (* OAbs *)
    repeat dmatch; try (apply wfs_fail; auto; fail); apply wfs_ok_bind; auto; leaves_tac.
  - (* OMethCopy *)
    destruct (lookup s (env h)) as [v|] eqn:L; [|apply wfs_fail; auto].
    pose proof (INV _ _ L) as I.
    destruct v as [a|o p v q m|o e g|t c]; try (apply wfs_fail; auto; fail).
    unfold leaves in I. inversion I; subst.
    apply wfs_ok_bind; auto. leaves_tac. fresh_tac; len_tac.
  - (* OSum *)
    repeat dmatch; try (apply wfs_fail; auto; fail); apply wfs_ok_bind; auto; leaves_tac.
  - (* OSum0 *)
    repeat dmatch; try (apply wfs_fail; auto; fail).
    apply wfs_ok_bind; auto. leaves_tac. fresh_tac. simpl. rewrite map_length, seq_length. reflexivity.
  - (* OView *)
    destruct (lookup s (env h)) as [v|] eqn:L; [|apply wfs_fail; auto].
    pose proof (INV _ _ L) as I.
    destruct v as [a|o p v q m|o e g|t c]; try (apply wfs_fail; auto; fail).
    unfold leaves in I. inversion I; subst.
    destruct (view_of a perm sl) as [[nsh idx]|] eqn:V; [|apply wfs_fail; auto].
    destruct (view_of_spec _ _ _ _ _ V) as (pos & E & F & ND & Len & Sh).
    apply wfs_ok_bind; auto. leaves_tac. rewrite app_nil_r.
    match goal with H : inb _ a |- _ => destruct H as (B1 & B2 & B3 & B4) end.
    unfold inb. cbn [a_buf a_idx a_shape]. repeat split; auto.
    rewrite E. apply Forall_forall. intros x Hx. apply in_map_iff in Hx. destruct Hx as (p & <- & Hp).
    rewrite Forall_forall in F, B2. apply B2. apply nth_In. auto.
  - (* ODel *)
    destruct (lookup d (env h)) eqn:L; [|apply wfs_fail; auto].
    intros n0 v0 Hl. cbn [fst env bufs] in *. destruct (Nat.eq_dec n0 d) as [->|N].
    + rewrite lookup_remove_same in Hl. discriminate.
    + rewrite lookup_remove_other in Hl by auto. eapply W; eauto.
Qed.

Lemma exec_seq_wfs : forall ops h, wfs h -> wfs (exec_seq h ops).
Proof. induction ops; simpl; intros; auto. apply IHops. apply exec_wfs. auto. Qed.
Theorem wfs_reachable : forall ops, wfs (exec_seq empty_heap ops).
Proof. intros. apply exec_seq_wfs. apply wfs_empty. Qed.

(* full strength: on a heap with in-bounds windows (every reachable heap) a successful `d[:] = src`
   is read back through d *)
Theorem setitem_reads_back_wfs : forall h d src h' a cells, wfs h -> exec h (OSet d SAll src) = (h', ROk) ->
  lookup d (env h) = Some (VArr a) ->
  (exists ps u, eval_operand h src = Some ps /\ as_ufarg (bufs h) ps = Some u /\
     assign_cells (a_dt a) (a_shape a) (u_cplx u) (u_shape u) (u_cells u) = Some cells) ->
  read_arr (bufs h') a = cells.
Proof.
  intros h d src h' a cells W H L E.
  assert (I : inb (bufs h) a).
  { specialize (W _ _ L). unfold wfsv, leaves in W. inversion W; auto. }
  destruct I as (_ & I2 & I3 & I4).
  eapply setitem_reads_back; eauto.
  intro Sh. unfold exec in H. rewrite L in H. destruct E as (ps & u & E1 & _). rewrite E1 in H.
  unfold select in H. rewrite Sh in H. unfold fail in H. inversion H.
Qed.

(* a write through a component view is seen in the parent: afterwards the parent's component IS the written data *)
Theorem component_write_seen_in_parent : forall h c p i h1 ap ac src h2 cells, wfs h ->
  exec h (OComp c p i) = (h1, ROk) -> lookup p (env h) = Some (VArr ap) -> c <> p ->
  lookup c (env h1) = Some (VArr ac) ->
  exec h1 (OSet c SAll src) = (h2, ROk) ->
  (exists ps u, eval_operand h1 src = Some ps /\ as_ufarg (bufs h1) ps = Some u /\
     assign_cells (a_dt ac) (a_shape ac) (u_cplx u) (u_shape u) (u_cells u) = Some cells) ->
  firstn (size (a_shape ac)) (skipn (i * size (a_shape ac)) (read_arr (bufs h2) ap)) = cells.
Proof.
  intros h c p i h1 ap ac src h2 cells W H L N Lc H2 E.
  assert (W1 : wfs h1). { replace h1 with (fst (exec h (OComp c p i))) by (rewrite H; auto). apply exec_wfs. auto. }
  pose proof (setitem_reads_back_wfs _ _ _ _ _ _ W1 H2 Lc E) as R.
  destruct (component_view_tracks_parent [OSet c SAll src] h c p i h1 ap ac H L N Lc) as (_ & _ & T).
  { intros o [<-|[]]. left. reflexivity. }
  unfold exec_seq in T. cbn [fold_left] in T. rewrite H2 in T. cbn [fst] in T. rewrite <- T. exact R.
Qed.

(* and vice versa: a write through the parent is seen through the view *)
Theorem parent_write_seen_in_component : forall h c p i h1 ap ac src h2 cells, wfs h ->
  exec h (OComp c p i) = (h1, ROk) -> lookup p (env h) = Some (VArr ap) -> c <> p ->
  lookup c (env h1) = Some (VArr ac) ->
  exec h1 (OSet p SAll src) = (h2, ROk) ->
  (exists ps u, eval_operand h1 src = Some ps /\ as_ufarg (bufs h1) ps = Some u /\
     assign_cells (a_dt ap) (a_shape ap) (u_cplx u) (u_shape u) (u_cells u) = Some cells) ->
  read_arr (bufs h2) ac = firstn (size (a_shape ac)) (skipn (i * size (a_shape ac)) cells).
Proof.
  intros h c p i h1 ap ac src h2 cells W H L N Lc H2 E.
  assert (W1 : wfs h1). { replace h1 with (fst (exec h (OComp c p i))) by (rewrite H; auto). apply exec_wfs. auto. }
  assert (Lp : lookup p (env h1) = Some (VArr ap)).
  { destruct (exec_Ext h (OComp c p i) eq_refl) as (_ & _ & X). rewrite H in X. simpl in X. rewrite X; auto. }
  pose proof (setitem_reads_back_wfs _ _ _ _ _ _ W1 H2 Lp E) as R.
  destruct (component_view_tracks_parent [OSet p SAll src] h c p i h1 ap ac H L N Lc) as (_ & _ & T).
  { intros o [<-|[]]. left. reflexivity. }
  unfold exec_seq in T. cbn [fold_left] in T. rewrite H2 in T. cbn [fst] in T. rewrite T, R. reflexivity.
Qed.

(* the composition the strided/transposed views are there for: take a strided / reversed / sub-block / transposed
   view v of a multi-component mesh p, take a component c of v, write through c: the write lands in p, at the
   gathered positions of that component *)
Theorem strided_component_write_seen_in_base : forall h v p perm sl h1 ap av pos c i h2 ac src h3 cells, wfs h ->
  exec h (OView v p perm sl) = (h1, ROk) -> lookup p (env h) = Some (VArr ap) -> lookup v (env h1) = Some (VArr av) ->
  (forall bs, read_arr bs av = map (fun q => nth q (read_arr bs ap) c0) pos) ->
  exec h1 (OComp c v i) = (h2, ROk) -> c <> v -> lookup c (env h2) = Some (VArr ac) ->
  exec h2 (OSet c SAll src) = (h3, ROk) ->
  (exists ps u, eval_operand h2 src = Some ps /\ as_ufarg (bufs h2) ps = Some u /\
     assign_cells (a_dt ac) (a_shape ac) (u_cplx u) (u_shape u) (u_cells u) = Some cells) ->
  firstn (size (a_shape ac)) (skipn (i * size (a_shape ac)) (map (fun q => nth q (read_arr (bufs h3) ap) c0) pos)) = cells.
Proof.
  intros h v p perm sl h1 ap av pos c i h2 ac src h3 cells W H L Lv G HC N Lc HS E.
  assert (W1 : wfs h1). { replace h1 with (fst (exec h (OView v p perm sl))) by (rewrite H; auto). apply exec_wfs. auto. }
  rewrite <- G. eapply component_write_seen_in_parent with (h := h1); eauto.
Qed.

Definition strided_demo : list op :=
  [ONew 0 KImex DReal [2; 3] 1;
   OView 1 0 [0; 2; 1] [(0%Z, 1%Z, 2); (2%Z, (-2)%Z, 2); (0%Z, 1%Z, 2)];      (* v = f.transpose(0,2,1)[:, ::-2, :] *)
   OComp 2 1 1;                                                     (* c = v.expl *)
   OSet 2 SAll (OS SInt (9, 0)%Z)].                                 (* c[:] = 9 *)
Example strided_demo_run :
  dump 3 (exec_seq empty_heap strided_demo) =
  [1; 2; 0; 3; 2; 2; 3;  1;0; 1;0; 1;0; 1;0; 1;0; 1;0;  9;0; 1;0; 9;0; 9;0; 1;0; 9;0;
   1; 2; 0; 3; 2; 2; 2;  1;0; 1;0; 1;0; 1;0;  9;0; 9;0; 9;0; 9;0;
   1; 1; 0; 2; 2; 2;  9;0; 9;0; 9;0; 9;0;
   -1; 0; 1; 2; -2; 0; 1; 0; 2; 1; 2]%Z.
Proof. vm_compute. reflexivity. Qed.
Example strided_demo_hypotheses : exists h ap h1, wfs h /\ lookup 0 (env h) = Some (VArr ap) /\
  exec h (OView 1 0 [0; 2; 1] [(0%Z, 1%Z, 2); (2%Z, (-2)%Z, 2); (0%Z, 1%Z, 2)]) = (h1, ROk).
Proof.
  exists (exec_seq empty_heap (firstn 1 strided_demo)). eexists. eexists.
  split; [apply wfs_reachable|]. split; vm_compute; reflexivity.
Qed.
