(* Proofs about Model/Block.v: a block of time-parallel steps whose fine levels hold their collocation solutions, chained by
   their end values, is a fixed point of EVERY schedule of sweeps, forward transfers, restrictions and prolongations — in
   particular of one MSSDC / MLSDC / PFASST iteration of the controller, for any number of steps and levels, Jacobi or
   Gauss-Seidel coupling (C01: "number of time-parallel steps and coupling may change the iteration counts but never the answer"). *)
From Coq Require Import List Arith Bool Lia Ring.
From PySDC Require Import Model.Sweep Model.Transfer Model.MultiLevel Model.Block
     Proofs.SweepProofs Proofs.TransferProofs Proofs.MultiLevelProofs.
Import ListNotations.

Section BlockProofs.
  Context {K : Type} (kO kI : K) (kadd kmul ksub : K -> K -> K) (kopp : K -> K) (keqb : K -> K -> bool).
  Hypothesis Rth : ring_theory kO kI kadd kmul ksub kopp (@eq K).
  Add Ring Kring5 : Rth.
  Hypothesis keqb_true : forall a b, keqb a b = true -> a = b.
  Context {X : Type}.
  Notation V := (X -> K).
  Local Infix "+!" := kadd (at level 50, left associativity).
  Local Infix "*!" := kmul (at level 40, left associativity).
  Local Infix "-!" := ksub (at level 50, left associativity).
  Notation sumf := (sumf kO kadd).
  Variable imex : bool.
  Variable lev : nat -> @level K X.
  Variable xf : nat -> @xfer K X.
  Variable tstart : nat -> K.
  Variable P L : nat.                        (* number of steps in the block, number of levels *)
  Notation lvst := (@lvst K X).
  Notation bstate := (@bstate K X).
  Notation np := (nparts imex).
  Notation M l := (lM (lev l)).
  Notation do_op := (do_op kO kadd kmul ksub keqb imex lev xf tstart).
  Notation run_ops := (run_ops kO kadd kmul ksub keqb imex lev xf tstart).
  Notation restrict_st p l s :=
    (restrict_to kO kadd kmul ksub (tstart p) imex (xf l) (lev l) (lev (S l)) (stau s) (su s, sf s)).
  Notation holds p l tau s := (holds_solution kO kadd kmul ksub (tstart p) imex (lev l) tau s).

  (* ---------------------------------------------------------------- hypotheses on the hierarchy *)
  Hypothesis Hlev : forall l, l < L -> level_ok kO kmul ksub keqb imex (lev l) /\ 1 <= M l.
  Hypothesis Hxf : forall l, S l < L ->
    xfer_ok kO kI kadd ksub (xf l) (lev l) (lev (S l)) /\
    (* the last coarse node is the last fine node (right end point): last row of Rcoll is a unit vector *)
    (forall m, 1 <= m <= M l -> xRcoll (xf l) (M (S l)) m = if Nat.eqb m (M l) then kI else kO).

  (* ---------------------------------------------------------------- equivalence of level states *)
  Definition teq (n : nat) (t t' : nat -> option V) : Prop :=
    forall m, 1 <= m <= n ->
      match t m, t' m with
      | Some a, Some b => forall x, a x = b x
      | None, None => True
      | _, _ => False
      end.
  Definition eqv (l : nat) (s s' : lvst) : Prop :=
    (forall m, m <= M l -> forall x, su s m x = su s' m x) /\
    (forall m, 1 <= m <= M l -> forall p x, sf s m p x = sf s' m p x) /\
    teq (M l) (stau s) (stau s') /\
    (forall m, 1 <= m <= M l -> forall x, suold s m x = suold s' m x) /\
    (forall m, 1 <= m <= M l -> forall p x, sfold s m p x = sfold s' m p x).

  Lemma tauval_teq n t t' m x : teq n t t' -> 1 <= m <= n -> tauval kO t m x = tauval kO t' m x.
  Proof.
    intros H Hm. specialize (H m Hm). unfold tauval. destruct (t m), (t' m); try contradiction; [apply H | reflexivity].
  Qed.

  Lemma holds_eqv p l tau tau' (s s' : @lstate K X) :
    feval_ext (lfeval (lev l)) -> 1 <= M l ->
    holds p l tau s -> same (lev l) s' s -> teq (M l) tau' tau -> holds p l tau' s'.
  Proof.
    intros Hext HM Hs Hsame Ht.
    pose proof (holds_solution_same kO kI kadd kmul ksub kopp Rth (tstart p) imex (lev l) tau s s' Hext Hs Hsame) as (Hc & Hz & Hu).
    split; [exact Hc|]. split.
    - intros m Hm x. etransitivity; [|exact (Hz m Hm x)].
      rewrite !(residual_is_defect kO kI kadd kmul ksub kopp Rth).
      rewrite (tauval_teq (M l) tau' tau m x Ht Hm). reflexivity.
    - intros m Hm. pose proof (Ht 1 ltac:(lia)) as H1. pose proof (Ht m Hm) as H2. pose proof (Hu m Hm) as H3.
      destruct (tau' 1), (tau 1), (tau' m), (tau m); try contradiction;
        split; intros E; try discriminate E; try reflexivity;
        try (destruct H3 as [A B]; first [discriminate (A eq_refl) | discriminate (B eq_refl)]).
  Qed.

  (* ---------------------------------------------------------------- the reference block *)
  Variable R0 : nat -> lvst.                 (* the fine-level states of the steps *)
  Fixpoint Ref (p l : nat) : lvst :=
    match l with
    | 0 => R0 p
    | S l' =>
        let s := Ref p l' in
        let G := restrict_st p l' s in
        {| su := Gu G; sf := Gf G; stau := Gtau G; suold := Guold G; sfold := Gfold G; svalid := true |}
    end.

  Hypothesis H0 : forall p, p < P -> holds p 0 (stau (R0 p)) (su (R0 p), sf (R0 p)).
  Hypothesis Hchain : forall p, 0 < p < P -> forall x, su (R0 p) 0 x = su (R0 (p - 1)) (M 0) x.

  Lemma ref_holds p : p < P -> forall l, l < L -> holds p l (stau (Ref p l)) (su (Ref p l), sf (Ref p l)).
  Proof.
    intros Hp. induction l as [|l IH]; intros Hl; [apply H0; exact Hp|].
    cbn [Ref su sf stau].
    destruct (Hxf l Hl) as [Hx _].
    exact (restrict_holds kO kI kadd kmul ksub kopp Rth (tstart p) imex (xf l) (lev l) (lev (S l)) (stau (Ref p l))
             (su (Ref p l), sf (Ref p l)) Hx (IH ltac:(lia))).
  Qed.

  Lemma ref_old p l : forall m x, suold (Ref p (S l)) m x = su (Ref p (S l)) m x.
  Proof. intros m x. cbn [Ref su suold]. unfold MultiLevel.restrict_to, Transfer.restrict. cbn [Gu Guold]. reflexivity. Qed.
  Lemma ref_fold p l : forall m q x, sfold (Ref p (S l)) m q x = sf (Ref p (S l)) m q x.
  Proof. intros m q x. cbn [Ref sf sfold]. unfold MultiLevel.restrict_to, Transfer.restrict. cbn [Gf Gfold]. reflexivity. Qed.

  (* the chain of end values holds on every level of the reference block *)
  Lemma ref_chain p : 0 < p < P -> forall l, l < L -> forall x, su (Ref p l) 0 x = su (Ref (p - 1) l) (M l) x.
  Proof.
    intros Hp. induction l as [|l IH]; intros Hl x; [apply Hchain; exact Hp|].
    destruct (Hxf l Hl) as [(Radd & Rsub & Rzero & Rext & _) Hunit].
    destruct (Hlev l ltac:(lia)) as [_ HMl]. destruct (Hlev (S l) Hl) as [_ HMc].
    cbn [Ref su]. unfold MultiLevel.restrict_to, Transfer.restrict. cbn [Gu fst].
    rewrite Nat.eqb_refl. replace (Nat.eqb (M (S l)) 0) with false by (symmetry; apply Nat.eqb_neq; lia).
    rewrite (rcomb_spec kO kI kadd kmul ksub kopp Rth).
    rewrite (Rext _ (su (Ref (p - 1) l) (M l))) by (intros y; apply IH; lia).
    (* sum_m Rcoll(Mc, m) Rs(u_m) with a unit last row *)
    rewrite (sumf_ext kO kadd _ (fun m => (if Nat.eqb m (M l) then kI else kO) *! xRs (xf l) (su (Ref (p - 1) l) m) x) 1 (M l))
      by (intros m Hm; rewrite Hunit by lia; reflexivity).
    rewrite (sumf_last kO kI kadd kmul ksub kopp Rth _ (M l)) by lia.
    rewrite Nat.eqb_refl.
    rewrite (sumf_ext kO kadd _ (fun _ => kO) 1 (M l - 1)).
    - rewrite (sumf_zero kO kI kadd kmul ksub kopp Rth). ring.
    - intros m Hm. replace (Nat.eqb m (M l)) with false by (symmetry; apply Nat.eqb_neq; lia). ring.
  Qed.

  (* ---------------------------------------------------------------- congruence of restriction *)
  Lemma integrate_cong (Lv : @level K X) (f f' : nat -> nat -> V) m x :
    (forall j, 1 <= j <= lM Lv -> forall q y, f j q y = f' j q y) ->
    integrate kO kadd kmul (lM Lv) (ldt Lv) (lQ Lv) np f m x = integrate kO kadd kmul (lM Lv) (ldt Lv) (lQ Lv) np f' m x.
  Proof.
    intros H. rewrite !(integrate_is_dtQF kO kI kadd kmul ksub kopp Rth). f_equal. apply sumf_ext. intros j Hj. f_equal.
    apply (ftot_ext kO kadd). intros q. apply H. lia.
  Qed.

  Lemma restrict_cong p l (s s' : lvst) :
    S l < L -> eqv l s s' ->
    let G := restrict_st p l s in let G' := restrict_st p l s' in
    eqv (S l) {| su := Gu G; sf := Gf G; stau := Gtau G; suold := Guold G; sfold := Gfold G; svalid := svalid s |}
              {| su := Gu G'; sf := Gf G'; stau := Gtau G'; suold := Guold G'; sfold := Gfold G'; svalid := true |}.
  Proof.
    intros Hl (Eu & Ef & Et & _ & _) G G'.
    destruct (Hxf l Hl) as [(Radd & Rsub & Rzero & Rext & _) _].
    destruct (Hlev l ltac:(lia)) as [_ HMl].
    destruct (Hlev (S l) Hl) as [(_ & Hextc & _) _].
    assert (Gu_eq : forall n y, Gu G n y = Gu G' n y).
    { intros n y. unfold G, G', MultiLevel.restrict_to, Transfer.restrict. cbn [Gu fst].
      destruct (Nat.eqb n 0).
      - apply Rext. intros z. apply Eu. lia.
      - rewrite !(rcomb_spec kO kI kadd kmul ksub kopp Rth). apply sumf_ext. intros m Hm. f_equal.
        apply Rext. intros z. apply Eu. lia. }
    assert (Gf_eq : forall n q y, Gf G n q y = Gf G' n q y).
    { intros n q y. unfold G, G', MultiLevel.restrict_to, Transfer.restrict. cbn [Gf fst].
      apply Hextc. intros z. apply (Gu_eq n z). }
    assert (Gt_eq : forall n, exists a b, Gtau G n = Some a /\ Gtau G' n = Some b /\ forall y, a y = b y).
    { intros n. unfold G, G', MultiLevel.restrict_to, Transfer.restrict. cbn [Gtau fst snd].
      assert (T0 : forall z,
        vsub ksub (rcomb kO kadd kmul (M l) (xRs (xf l)) (xRcoll (xf l))
                     (integrate kO kadd kmul (M l) (ldt (lev l)) (lQ (lev l)) np (sf s)) n)
                  (integrate kO kadd kmul (M (S l)) (ldt (lev (S l))) (lQ (lev (S l))) np (Gf G) n) z
        = vsub ksub (rcomb kO kadd kmul (M l) (xRs (xf l)) (xRcoll (xf l))
                     (integrate kO kadd kmul (M l) (ldt (lev l)) (lQ (lev l)) np (sf s')) n)
                  (integrate kO kadd kmul (M (S l)) (ldt (lev (S l))) (lQ (lev (S l))) np (Gf G') n) z).
      { intros z. unfold vsub. f_equal.
        - rewrite !(rcomb_spec kO kI kadd kmul ksub kopp Rth). apply sumf_ext. intros m Hm. f_equal.
          apply Rext. intros w. apply integrate_cong. intros j Hj q v. apply Ef. exact Hj.
        - apply integrate_cong. intros j Hj q v. apply Gf_eq. }
      pose proof (Et 1 ltac:(lia)) as E1.
      destruct (stau s 1) as [a1|], (stau s' 1) as [b1|]; try contradiction.
      - eexists. eexists. split; [reflexivity|]. split; [reflexivity|]. intros y.
        unfold vadd. f_equal; [apply T0|].
        rewrite !(rcomb_spec kO kI kadd kmul ksub kopp Rth). apply sumf_ext. intros m Hm. f_equal.
        apply Rext. intros w. pose proof (Et m ltac:(lia)) as Em.
        destruct (stau s m), (stau s' m); try contradiction; [apply Em | reflexivity].
      - eexists. eexists. split; [reflexivity|]. split; [reflexivity|]. intros y. apply T0. }
    unfold eqv. cbn [su sf stau suold sfold].
    split; [intros m _ x; apply Gu_eq|]. split; [intros m _ q x; apply Gf_eq|]. split.
    - intros m Hm. destruct (Gt_eq m) as (a & b & Ea & Eb & Hab). rewrite Ea, Eb. exact Hab.
    - split.
      + intros m _ x. unfold G, G', MultiLevel.restrict_to, Transfer.restrict in *. cbn [Guold Gu fst] in *. apply Gu_eq.
      + intros m _ q x. unfold G, G', MultiLevel.restrict_to, Transfer.restrict in *. cbn [Gfold Gf fst] in *. apply Gf_eq.
  Qed.

  (* ---------------------------------------------------------------- the invariant and its preservation *)
  Definition Inv (B : bstate) : Prop :=
    forall p l, p < P -> l < L -> svalid (B p l) = true -> eqv l (B p l) (Ref p l).

  (* restrictions / prolongations stay inside the hierarchy *)
  Definition op_in_bounds (o : @op) : Prop :=
    match o with Sweep _ _ | Recv _ _ => True | Restrict _ l | Prolong _ l => S l < L end.

  Lemma eqv_same l s s' : eqv l s s' -> same (lev l) (su s, sf s) (su s', sf s').
  Proof. intros (Eu & Ef & _). split; cbn [fst snd]; assumption. Qed.

  Lemma inv_holds B p l : Inv B -> p < P -> l < L -> svalid (B p l) = true ->
    holds p l (stau (B p l)) (su (B p l), sf (B p l)).
  Proof.
    intros HI Hp Hl Hv. pose proof (HI p l Hp Hl Hv) as E.
    destruct (Hlev l Hl) as [(_ & Hext & _) HM].
    apply (holds_eqv p l (stau (Ref p l)) (stau (B p l)) (su (Ref p l), sf (Ref p l)) _ Hext HM (ref_holds p Hp l Hl)).
    - apply eqv_same. exact E.
    - destruct E as (_ & _ & Et & _). exact Et.
  Qed.

  Lemma bupd_inv B p l s :
    Inv B -> (p < P -> l < L -> svalid s = true -> eqv l s (Ref p l)) -> Inv (bupd B p l s).
  Proof.
    intros HI Hs p' l' Hp' Hl' Hv. unfold bupd in *.
    destruct (Nat.eqb_spec p' p) as [->|Hne]; cbn [andb] in *.
    - destruct (Nat.eqb_spec l' l) as [->|Hne2].
      + apply Hs; assumption.
      + apply HI; assumption.
    - apply HI; assumption.
  Qed.

  Lemma do_op_inv B o : op_in_bounds o -> Inv B -> Inv (do_op B o).
  Proof.
    intros Hb HI. destruct o as [p l|p l|p l|p l]; cbn [Block.do_op].
    - (* Sweep *)
      apply bupd_inv; [exact HI|]. cbn [svalid su sf stau suold sfold]. intros Hp Hl Hv.
      pose proof (HI p l Hp Hl Hv) as (Eu & Ef & Et & Eo & Efo).
      destruct (Hlev l Hl) as [Hok _].
      pose proof (sweep1_fixed kO kI kadd kmul ksub kopp keqb Rth keqb_true (tstart p) imex (lev l) (stau (B p l))
                    (su (B p l), sf (B p l)) Hok (inv_holds B p l HI Hp Hl Hv)) as [Su Sf]. cbn [fst snd] in Su, Sf.
      unfold eqv. cbn [su sf stau suold sfold]. repeat split.
      + intros m Hm x. rewrite Su by exact Hm. apply Eu. exact Hm.
      + intros m Hm q x. rewrite Sf by exact Hm. apply Ef. exact Hm.
      + exact Et.
      + exact Eo.
      + exact Efo.
    - (* Recv *)
      destruct p as [|q]; [exact HI|].
      apply bupd_inv; [exact HI|]. cbn [svalid su sf stau suold sfold]. intros Hp Hl Hv.
      apply andb_prop in Hv as [Hv1 Hv2].
      pose proof (HI (S q) l Hp Hl Hv1) as (Eu & Ef & Et & Eo & Efo).
      pose proof (HI q l ltac:(lia) Hl Hv2) as (Eu' & _).
      unfold eqv. cbn [su sf stau suold sfold]. repeat split.
      + intros m Hm x. unfold upd. destruct (Nat.eqb_spec m 0) as [->|Hne].
        * rewrite (Eu' (M l)) by lia. rewrite (ref_chain (S q) ltac:(lia) l Hl x). replace (S q - 1) with q by lia. reflexivity.
        * apply Eu. exact Hm.
      + intros m Hm r x. unfold upd. replace (Nat.eqb m 0) with false by (symmetry; apply Nat.eqb_neq; lia). apply Ef. exact Hm.
      + exact Et.
      + exact Eo.
      + exact Efo.
    - (* Restrict *)
      cbn [op_in_bounds] in Hb.
      apply bupd_inv; [exact HI|]. cbn [svalid]. intros Hp Hl Hv.
      pose proof (HI p l Hp ltac:(lia) Hv) as E.
      exact (restrict_cong p l (B p l) (Ref p l) Hb E).
    - (* Prolong *)
      cbn [op_in_bounds] in Hb.
      apply bupd_inv; [exact HI|]. cbn [svalid su sf stau suold sfold]. intros Hp Hl Hv.
      apply andb_prop in Hv as [Hv1 Hv2].
      pose proof (HI p l Hp Hl Hv1) as (Eu & Ef & Et & Eo & Efo).
      pose proof (HI p (S l) Hp Hb Hv2) as (Cu & Cf & _ & Co & Cfo).
      destruct (Hxf l Hb) as [Hx _]. destruct (Hlev l Hl) as [(_ & Hext & _) _].
      pose proof (inv_holds B p l HI Hp Hl Hv1) as (Hcons & _).
      pose (G := {| Gu := su (B p (S l)); Gf := sf (B p (S l)); Gtau := stau (B p (S l));
                    Guold := suold (B p (S l)); Gfold := sfold (B p (S l)) |}).
      assert (Hsc : forall m, 1 <= m <= M (S l) -> forall y, su (B p (S l)) m y = Guold G m y).
      { intros m Hm y. cbn [G Guold]. rewrite (Cu m) by lia. rewrite (Co m Hm). symmetry. apply ref_old. }
      assert (Hscf : forall m, 1 <= m <= M (S l) -> forall q y, sf (B p (S l)) m q y = Gfold G m q y).
      { intros m Hm q y. cbn [G Gfold]. rewrite (Cf m Hm). rewrite (Cfo m Hm). symmetry. apply ref_fold. }
      pose proof (prolong_same kO kI kadd kmul ksub kopp Rth (tstart p) (xf l) (lev l) (lev (S l)) G
                    (su (B p (S l)), sf (B p (S l))) (su (B p l), sf (B p l)) Hx Hext Hcons Hsc Hscf) as [Pu Pf].
      cbn [fst snd G Gtau Guold Gfold] in Pu, Pf.
      unfold eqv. cbn [su sf stau suold sfold]. repeat split.
      + intros m Hm x. rewrite Pu by exact Hm. apply Eu. exact Hm.
      + intros m Hm q x. rewrite Pf by exact Hm. apply Ef. exact Hm.
      + exact Et.
      + exact Eo.
      + exact Efo.
  Qed.

  Theorem run_ops_inv : forall ops B, Forall op_in_bounds ops -> Inv B -> Inv (run_ops ops B).
  Proof.
    induction ops as [|o ops IH]; intros B Hb HI; cbn [Block.run_ops fold_left]; [exact HI|].
    inversion Hb as [|? ? Ho Hops]; subst.
    apply IH; [exact Hops | apply do_op_inv; assumption].
  Qed.

  (* the block whose fine levels are the given solutions (coarse levels not yet initialised) *)
  Definition init_block : bstate :=
    fun p l => match l with
               | 0 => {| su := su (R0 p); sf := sf (R0 p); stau := stau (R0 p); suold := suold (R0 p); sfold := sfold (R0 p);
                         svalid := Nat.ltb p P |}
               | S _ => {| su := fun _ _ => kO; sf := fun _ _ _ => kO; stau := fun _ => None; suold := fun _ _ => kO;
                           sfold := fun _ _ _ => kO; svalid := false |}
               end.

  Lemma init_inv : Inv init_block.
  Proof.
    intros p l Hp Hl Hv. destruct l as [|l]; cbn [init_block svalid] in *; [|discriminate Hv].
    cbn [Ref]. unfold eqv. cbn [su sf stau suold sfold]. repeat split; try reflexivity.
    intros m Hm. destruct (stau (R0 p) m); [reflexivity|exact I].
  Qed.

  (* MAIN THEOREM: after ANY schedule of sweeps, forward transfers, restrictions and prolongations (inside the hierarchy),
     every step's fine level that is still valid holds the same values and right-hand sides as before *)
  Theorem block_fixed_point_any_schedule ops :
    Forall op_in_bounds ops ->
    forall p, p < P -> 0 < L -> svalid (run_ops ops init_block p 0) = true ->
    same (lev 0) (su (run_ops ops init_block p 0), sf (run_ops ops init_block p 0)) (su (R0 p), sf (R0 p)).
  Proof.
    intros Hb p Hp HL Hv.
    pose proof (run_ops_inv ops init_block Hb init_inv p 0 Hp HL Hv) as E.
    apply eqv_same in E. exact E.
  Qed.
End BlockProofs.

(* the controller's schedule stays inside the hierarchy *)
Section Schedule.
  Variable L : nat.
  Notation inb := (op_in_bounds L).
  Lemma for_steps_inb P f : (forall p, Forall inb (f p)) -> Forall inb (for_steps P f).
  Proof. intros H. unfold for_steps. apply Forall_flat_map. apply Forall_forall. intros p _. apply H. Qed.
  Lemma repeat_ops_inb n ops : Forall inb ops -> Forall inb (repeat_ops n ops).
  Proof. intros H. induction n as [|n IH]; cbn [repeat_ops]; [constructor | apply Forall_app; split; assumption]. Qed.
  Lemma comm_sweep_inb P l : Forall inb (comm_all P l ++ sweep_all P l).
  Proof.
    apply Forall_app; split; apply for_steps_inb; intros p; repeat constructor.
  Qed.
  Lemma iteration_body_in_bounds P nsw jacobi : Forall inb (iteration_body P L nsw jacobi).
  Proof.
    unfold iteration_body. destruct (Nat.ltb_spec 1 L) as [HL|HL].
    - repeat (apply Forall_app; split).
      + apply for_steps_inb; intros p. repeat constructor. cbn. lia.
      + apply Forall_flat_map. apply Forall_forall. intros l Hl. apply in_seq in Hl.
        apply Forall_app; split; [apply repeat_ops_inb, comm_sweep_inb|].
        apply for_steps_inb; intros p. repeat constructor. cbn. lia.
      + apply for_steps_inb; intros p; repeat constructor.
      + apply Forall_flat_map. apply Forall_forall. intros l Hl. apply in_rev, in_seq in Hl.
        apply Forall_app; split.
        * apply for_steps_inb; intros p. repeat constructor. cbn. lia.
        * destruct (Nat.ltb 0 (l - 1)); [apply repeat_ops_inb, comm_sweep_inb | constructor].
      + apply repeat_ops_inb, comm_sweep_inb.
    - destruct jacobi; [apply repeat_ops_inb, comm_sweep_inb | apply for_steps_inb; intros p; repeat constructor].
  Qed.
  Lemma pfasst_iteration_in_bounds P nsw jacobi : Forall inb (pfasst_iteration P L nsw jacobi).
  Proof.
    unfold pfasst_iteration. apply Forall_app; split; [|apply iteration_body_in_bounds].
    apply for_steps_inb; intros p; repeat constructor.
  Qed.
End Schedule.

(* validity flags evolve independently of the numerical data: they can be computed on booleans alone *)
Definition fl_op (F : nat -> nat -> bool) (o : op) : nat -> nat -> bool :=
  match o with
  | Sweep _ _ => F
  | Recv p l => match p with
                | 0 => F
                | S q => fun p' l' => if Nat.eqb p' p && Nat.eqb l' l then F p l && F q l else F p' l'
                end
  | Restrict p l => fun p' l' => if Nat.eqb p' p && Nat.eqb l' (S l) then F p l else F p' l'
  | Prolong p l => fun p' l' => if Nat.eqb p' p && Nat.eqb l' l then F p l && F p (S l) else F p' l'
  end.

Section Flags.
  Context {K : Type} (kO : K) (kadd kmul ksub : K -> K -> K) (keqb : K -> K -> bool).
  Context {X : Type}.
  Variable imex : bool.
  Variable lev : nat -> @level K X.
  Variable xf : nat -> @xfer K X.
  Variable tstart : nat -> K.
  Notation do_op := (do_op kO kadd kmul ksub keqb imex lev xf tstart).
  Notation run_ops := (run_ops kO kadd kmul ksub keqb imex lev xf tstart).

  Lemma flags_do_op (B : @bstate K X) o p l :
    svalid (do_op B o p l) = fl_op (fun p l => svalid (B p l)) o p l.
  Proof.
    destruct o as [p0 l0|p0 l0|p0 l0|p0 l0]; cbn [Block.do_op fl_op].
    - unfold bupd. destruct (Nat.eqb_spec p p0) as [->|]; cbn [andb]; [|reflexivity].
      destruct (Nat.eqb_spec l l0) as [->|]; reflexivity.
    - destruct p0 as [|q]; [reflexivity|]. unfold bupd. destruct (Nat.eqb p (S q) && Nat.eqb l l0); reflexivity.
    - unfold bupd. destruct (Nat.eqb p p0 && Nat.eqb l (S l0)); reflexivity.
    - unfold bupd. destruct (Nat.eqb p p0 && Nat.eqb l l0); reflexivity.
  Qed.

  Lemma fl_op_ext F G o : (forall p l, F p l = G p l) -> forall p l, fl_op F o p l = fl_op G o p l.
  Proof.
    intros E p l. destruct o as [p0 l0|p0 l0|p0 l0|p0 l0]; cbn [fl_op]; try apply E.
    - destruct p0; [apply E|]. destruct (Nat.eqb p (S p0) && Nat.eqb l l0); rewrite ?E; reflexivity.
    - destruct (Nat.eqb p p0 && Nat.eqb l (S l0)); rewrite ?E; reflexivity.
    - destruct (Nat.eqb p p0 && Nat.eqb l l0); rewrite ?E; reflexivity.
  Qed.

  Lemma flags_run_ops ops : forall (B : @bstate K X) F, (forall p l, svalid (B p l) = F p l) ->
    forall p l, svalid (run_ops ops B p l) = fold_left fl_op ops F p l.
  Proof.
    induction ops as [|o ops IH]; intros B F E p l; cbn [Block.run_ops fold_left]; [apply E|].
    apply IH. intros p' l'. rewrite flags_do_op. apply fl_op_ext. exact E.
  Qed.
End Flags.

(* ---------------------------------------------------------------- the controller's schedule keeps every entry valid *)
Section ScheduleValid.
  Variable P : nat.
  Notation runf ops F := (fold_left fl_op ops F).
  Definition Vk (k : nat) (F : nat -> nat -> bool) : Prop := forall p l, p < P -> l <= k -> F p l = true.

  Lemma runf_app a b F : runf (a ++ b) F = runf b (runf a F).
  Proof. apply fold_left_app. Qed.

  (* operations that never invalidate levels 0..k *)
  Definition harmless (k : nat) (o : op) : Prop :=
    match o with Prolong _ l => S l <= k \/ k < l | _ => True end.

  Lemma fl_op_Vk k F o : harmless k o -> Vk k F -> Vk k (fl_op F o).
  Proof.
    intros Hh HV p l Hp Hl. destruct o as [p0 l0|p0 l0|p0 l0|p0 l0]; cbn [fl_op harmless] in *.
    - apply HV; assumption.
    - destruct p0 as [|q]; [apply HV; assumption|].
      destruct (Nat.eqb_spec p (S q)) as [->|]; cbn [andb]; [|apply HV; assumption].
      destruct (Nat.eqb_spec l l0) as [->|]; [|apply HV; assumption].
      rewrite (HV (S q) l0 Hp Hl), (HV q l0 ltac:(lia) Hl). reflexivity.
    - destruct (Nat.eqb_spec p p0) as [->|]; cbn [andb]; [|apply HV; assumption].
      destruct (Nat.eqb_spec l (S l0)) as [->|]; [|apply HV; assumption].
      apply HV; [assumption | lia].
    - destruct (Nat.eqb_spec p p0) as [->|]; cbn [andb]; [|apply HV; assumption].
      destruct (Nat.eqb_spec l l0) as [->|]; [|apply HV; assumption].
      destruct Hh as [Hh|Hh]; [|lia].
      rewrite (HV p0 l0 Hp Hl), (HV p0 (S l0) Hp Hh). reflexivity.
  Qed.

  Lemma runf_Vk k ops : Forall (harmless k) ops -> forall F, Vk k F -> Vk k (runf ops F).
  Proof.
    induction ops as [|o ops IH]; intros Hh F HV; cbn [fold_left]; [exact HV|].
    inversion Hh as [|? ? Ho Hops]; subst. apply IH; [exact Hops | apply fl_op_Vk; assumption].
  Qed.

  Lemma for_steps_harmless k n f : (forall p, Forall (harmless k) (f p)) -> Forall (harmless k) (for_steps n f).
  Proof. intros H. unfold for_steps. apply Forall_flat_map. apply Forall_forall. intros p _. apply H. Qed.
  Lemma repeat_harmless k n ops : Forall (harmless k) ops -> Forall (harmless k) (repeat_ops n ops).
  Proof. intros H. induction n as [|n IH]; cbn [repeat_ops]; [constructor | apply Forall_app; split; assumption]. Qed.
  Lemma comm_sweep_harmless k n l : Forall (harmless k) (comm_all n l ++ sweep_all n l).
  Proof. apply Forall_app; split; apply for_steps_harmless; intros p; repeat constructor. Qed.

  (* restricting every step from level k makes level k+1 valid *)
  Lemma restrict_all_Vk k : forall F, Vk k F -> Vk (S k) (runf (for_steps P (fun p => [Restrict p k])) F).
  Proof.
    intros F HV.
    assert (G : forall n F', Vk k F' -> (forall p, p < P -> P - n <= p -> F' p (S k) = true \/ True) ->
                forall j, j + n = P ->
                (forall p, p < j -> F' p (S k) = true) ->
                Vk k (runf (flat_map (fun p => [Restrict p k]) (seq j n)) F') /\
                (forall p, p < P -> runf (flat_map (fun p => [Restrict p k]) (seq j n)) F' p (S k) = true)).
    { induction n as [|n IH]; intros F' HV' _ j Hj Hdone; cbn [seq flat_map fold_left app].
      - split; [exact HV'|]. intros p Hp. apply Hdone. lia.
      - apply (IH (fl_op F' (Restrict j k))).
        + apply fl_op_Vk; [exact I | exact HV'].
        + intros; right; exact I.
        + lia.
        + intros p Hp. cbn [fl_op]. destruct (Nat.eqb_spec p j) as [->|Hne]; cbn [andb].
          * rewrite Nat.eqb_refl. apply HV'; lia.
          * apply Hdone. lia. }
    destruct (G P F HV (fun _ _ _ => or_intror I) 0 ltac:(lia) ltac:(intros; lia)) as [HVk Hnew].
    intros p l Hp Hl. destruct (Nat.eq_dec l (S k)) as [->|Hne]; [apply Hnew; exact Hp | apply HVk; [exact Hp | lia]].
  Qed.

  (* it_down after level 0 has been restricted: levels a .. a+n-1 are swept and restricted in turn *)
  Lemma down_levels_Vk nsw : forall n a F, Vk a F ->
    Vk (a + n) (runf (flat_map (fun l => repeat_ops (nsw l) (comm_all P l ++ sweep_all P l)
                                         ++ for_steps P (fun p => [Restrict p l])) (seq a n)) F).
  Proof.
    induction n as [|n IH]; intros a F HV; cbn [seq flat_map fold_left].
    - rewrite Nat.add_0_r. exact HV.
    - rewrite runf_app, runf_app. replace (a + S n) with (S a + n) by lia. apply IH.
      apply restrict_all_Vk. apply runf_Vk; [apply repeat_harmless, comm_sweep_harmless | exact HV].
  Qed.

  Theorem pfasst_iteration_valid L nsw jacobi F :
    Vk 0 F -> Vk (L - 1) (runf (pfasst_iteration P L nsw jacobi) F).
  Proof.
    intros HV. unfold pfasst_iteration, iteration_body. rewrite runf_app.
    assert (H1 : Vk 0 (runf (it_check_ops P) F)).
    { apply runf_Vk; [|exact HV]. apply for_steps_harmless; intros p; repeat constructor. }
    destruct (Nat.ltb_spec 1 L) as [HL|HL].
    - rewrite !runf_app.
      (* it_down *)
      assert (H2 : Vk (L - 1) (runf (it_down_ops P L nsw) (runf (it_check_ops P) F))).
      { unfold it_down_ops. rewrite runf_app. replace (L - 1) with (1 + (L - 2)) by lia.
        apply down_levels_Vk. apply restrict_all_Vk. exact H1. }
      (* it_coarse, it_up, it_fine never invalidate levels 0..L-1 *)
      apply runf_Vk; [apply repeat_harmless, comm_sweep_harmless|].
      apply runf_Vk.
      { unfold it_up_ops. apply Forall_flat_map. apply Forall_forall. intros l Hl. apply in_rev, in_seq in Hl.
        apply Forall_app; split.
        - apply for_steps_harmless; intros p. constructor; [|constructor]. cbn [harmless]. left. lia.
        - destruct (Nat.ltb 0 (l - 1)); [apply repeat_harmless, comm_sweep_harmless | constructor]. }
      apply runf_Vk; [apply for_steps_harmless; intros p; repeat constructor | exact H2].
    - replace (L - 1) with 0 by lia.
      destruct jacobi.
      + apply runf_Vk; [apply repeat_harmless, comm_sweep_harmless | exact H1].
      + apply runf_Vk; [apply for_steps_harmless; intros p; repeat constructor | exact H1].
  Qed.
End ScheduleValid.
