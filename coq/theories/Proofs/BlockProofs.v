(* Proofs about Model/Block.v: a block of time-parallel steps whose fine levels hold their collocation solutions, chained by
   their end values, is a fixed point of EVERY schedule of sweeps, forward transfers, restrictions and prolongations — in
   particular of one MSSDC / MLSDC / PFASST iteration of the controller, for any number of steps and levels, Jacobi or
   Gauss-Seidel coupling (C01: "number of time-parallel steps and coupling may change the iteration counts but never the answer"). *)
From Coq Require Import List Arith Bool Lia Ring.
From PySDC Require Import Model.Sweep Model.Transfer Model.MultiLevel Model.Block
     Proofs.SweepProofs Proofs.TransferProofs Proofs.MultiLevelProofs.
Import ListNotations.

Section BlockProofs.
  Context {K : Type} (kO kI : K) (kadd kmul ksub : K -> K -> K) (kopp : K -> K) (keqb : K -> K -> bool).
  Hypothesis Rth : ring_theory kO kI kadd kmul ksub kopp (@eq K).
  Add Ring Kring5 : Rth.
  Hypothesis keqb_true : forall a b, keqb a b = true -> a = b.
  Context {X : Type}.
  Notation V := (X -> K).
  Local Infix "+!" := kadd (at level 50, left associativity).
  Local Infix "*!" := kmul (at level 40, left associativity).
  Local Infix "-!" := ksub (at level 50, left associativity).
  Notation sumf := (sumf kO kadd).
  Variable imex : bool.
  Variable lev : nat -> @level K X.
  Variable xf : nat -> @xfer K X.
  Variable tstart : nat -> K.
  Variable lend : nat -> @endp K.
  Variable P L : nat.                        (* number of steps in the block, number of levels *)
  Notation lvst := (@lvst K X).
  Notation bstate := (@bstate K X).
  Notation np := (nparts imex).
  Notation M l := (lM (lev l)).
  Notation do_op := (do_op kO kadd kmul ksub keqb imex lev xf tstart lend).
  Notation run_ops := (run_ops kO kadd kmul ksub keqb imex lev xf tstart lend).
  Notation uend_of l s := (end_value kO kadd kmul imex lev lend l s).
  Notation restrict_st p l s :=
    (restrict_to kO kadd kmul ksub (tstart p) imex (xf l) (lev l) (lev (S l)) (stau s) (su s, sf s)).
  Notation holds p l tau s := (holds_solution kO kadd kmul ksub (tstart p) imex (lev l) tau s).

  (* ---------------------------------------------------------------- hypotheses on the hierarchy *)
  Hypothesis Hlev : forall l, l < L -> level_ok kO kmul ksub keqb imex (lev l) /\ 1 <= M l.
  Hypothesis Hxf : forall l, S l < L ->
    xfer_ok kO kI kadd ksub (xf l) (lev l) (lev (S l)) /\
    (* the last coarse node is the last fine node (right end point): last row of Rcoll is a unit vector *)
    (forall m, 1 <= m <= M l -> xRcoll (xf l) (M (S l)) m = if Nat.eqb m (M l) then kI else kO).

  (* with more than one level the end value is the last node on every level (the controller refuses anything else:
     "For PFASST to work, we assume uend^k = u_M^k"); a single level may use the quadrature end value *)
  Hypothesis Hcopy : 1 < L -> forall l, l < L -> erin (lend l) && negb (edcu (lend l)) = true.

  (* ---------------------------------------------------------------- equivalence of level states *)
  Definition teq (n : nat) (t t' : nat -> option V) : Prop :=
    forall m, 1 <= m <= n ->
      match t m, t' m with
      | Some a, Some b => forall x, a x = b x
      | None, None => True
      | _, _ => False
      end.
  Definition eqv (l : nat) (s s' : lvst) : Prop :=
    (forall m, m <= M l -> forall x, su s m x = su s' m x) /\
    (forall m, 1 <= m <= M l -> forall p x, sf s m p x = sf s' m p x) /\
    teq (M l) (stau s) (stau s') /\
    (forall m, 1 <= m <= M l -> forall x, suold s m x = suold s' m x) /\
    (forall m, 1 <= m <= M l -> forall p x, sfold s m p x = sfold s' m p x).

  Lemma tauval_teq n t t' m x : teq n t t' -> 1 <= m <= n -> tauval kO t m x = tauval kO t' m x.
  Proof.
    intros H Hm. specialize (H m Hm). unfold tauval. destruct (t m), (t' m); try contradiction; [apply H | reflexivity].
  Qed.

  Lemma holds_eqv p l tau tau' (s s' : @lstate K X) :
    feval_ext (lfeval (lev l)) -> 1 <= M l ->
    holds p l tau s -> same (lev l) s' s -> teq (M l) tau' tau -> holds p l tau' s'.
  Proof.
    intros Hext HM Hs Hsame Ht.
    pose proof (holds_solution_same kO kI kadd kmul ksub kopp Rth (tstart p) imex (lev l) tau s s' Hext Hs Hsame) as (Hc & Hz & Hu).
    split; [exact Hc|]. split.
    - intros m Hm x. etransitivity; [|exact (Hz m Hm x)].
      rewrite !(residual_is_defect kO kI kadd kmul ksub kopp Rth).
      rewrite (tauval_teq (M l) tau' tau m x Ht Hm). reflexivity.
    - intros m Hm. pose proof (Ht 1 ltac:(lia)) as H1. pose proof (Ht m Hm) as H2. pose proof (Hu m Hm) as H3.
      destruct (tau' 1), (tau 1), (tau' m), (tau m); try contradiction;
        split; intros E; try discriminate E; try reflexivity;
        try (destruct H3 as [A B]; first [discriminate (A eq_refl) | discriminate (B eq_refl)]).
  Qed.

  (* ---------------------------------------------------------------- the reference block *)
  Variable R0 : nat -> lvst.                 (* the fine-level states of the steps *)
  Fixpoint Ref (p l : nat) : lvst :=
    match l with
    | 0 => R0 p
    | S l' =>
        let s := Ref p l' in
        let G := restrict_st p l' s in
        {| su := Gu G; sf := Gf G; stau := Gtau G; suold := Guold G; sfold := Gfold G;
           suend := Gu G 0; ssent := true; svalid := true |}
    end.

  Hypothesis H0 : forall p, p < P -> holds p 0 (stau (R0 p)) (su (R0 p), sf (R0 p)).
  (* the steps are chained by their END VALUES (last node, or the quadrature end value for a single level) *)
  Hypothesis Hchain : forall p, 0 < p < P -> forall x, su (R0 p) 0 x = uend_of 0 (R0 (p - 1)) x.

  Lemma ref_holds p : p < P -> forall l, l < L -> holds p l (stau (Ref p l)) (su (Ref p l), sf (Ref p l)).
  Proof.
    intros Hp. induction l as [|l IH]; intros Hl; [apply H0; exact Hp|].
    cbn [Ref su sf stau].
    destruct (Hxf l Hl) as [Hx _].
    exact (restrict_holds kO kI kadd kmul ksub kopp Rth (tstart p) imex (xf l) (lev l) (lev (S l)) (stau (Ref p l))
             (su (Ref p l), sf (Ref p l)) Hx (IH ltac:(lia))).
  Qed.

  Lemma ref_old p l : forall m x, suold (Ref p (S l)) m x = su (Ref p (S l)) m x.
  Proof. intros m x. cbn [Ref su suold]. unfold MultiLevel.restrict_to, Transfer.restrict. cbn [Gu Guold]. reflexivity. Qed.
  Lemma ref_fold p l : forall m q x, sfold (Ref p (S l)) m q x = sf (Ref p (S l)) m q x.
  Proof. intros m q x. cbn [Ref sf sfold]. unfold MultiLevel.restrict_to, Transfer.restrict. cbn [Gf Gfold]. reflexivity. Qed.

  Lemma end_value_copy l (s : lvst) : erin (lend l) && negb (edcu (lend l)) = true -> uend_of l s = su s (M l).
  Proof. intros H. unfold end_value, end_point. rewrite H. reflexivity. Qed.

  (* the chain of end values holds on every level of the reference block *)
  Lemma ref_chain p : 0 < p < P -> forall l, l < L -> forall x, su (Ref p l) 0 x = uend_of l (Ref (p - 1) l) x.
  Proof.
    intros Hp. induction l as [|l IH]; intros Hl x; [apply Hchain; exact Hp|].
    assert (HL : 1 < L) by lia.
    destruct (Hxf l Hl) as [(Radd & Rsub & Rzero & Rext & _) Hunit].
    destruct (Hlev l ltac:(lia)) as [_ HMl]. destruct (Hlev (S l) Hl) as [_ HMc].
    rewrite (end_value_copy (S l) _ (Hcopy HL (S l) Hl)).
    cbn [Ref su]. unfold MultiLevel.restrict_to, Transfer.restrict. cbn [Gu fst].
    rewrite Nat.eqb_refl. replace (Nat.eqb (M (S l)) 0) with false by (symmetry; apply Nat.eqb_neq; lia).
    rewrite (rcomb_spec kO kI kadd kmul ksub kopp Rth).
    rewrite (Rext _ (su (Ref (p - 1) l) (M l))).
    2:{ intros y. rewrite (IH ltac:(lia) y). rewrite (end_value_copy l _ (Hcopy HL l ltac:(lia))). reflexivity. }
    (* sum_m Rcoll(Mc, m) Rs(u_m) with a unit last row *)
    rewrite (sumf_ext kO kadd _ (fun m => (if Nat.eqb m (M l) then kI else kO) *! xRs (xf l) (su (Ref (p - 1) l) m) x) 1 (M l))
      by (intros m Hm; rewrite Hunit by lia; reflexivity).
    rewrite (sumf_last kO kI kadd kmul ksub kopp Rth _ (M l)) by lia.
    rewrite Nat.eqb_refl.
    rewrite (sumf_ext kO kadd _ (fun _ => kO) 1 (M l - 1)).
    - rewrite (sumf_zero kO kI kadd kmul ksub kopp Rth). ring.
    - intros m Hm. replace (Nat.eqb m (M l)) with false by (symmetry; apply Nat.eqb_neq; lia). ring.
  Qed.

  (* the end value respects pointwise equality of level states *)
  Lemma end_value_cong l (s s' : lvst) : 1 <= M l -> eqv l s s' -> forall x, uend_of l s x = uend_of l s' x.
  Proof.
    intros HM (Eu & Ef & Et & _) x. unfold end_value, end_point.
    destruct (erin (lend l) && negb (edcu (lend l))); [apply Eu; lia|].
    pose proof (Et (M l) ltac:(lia)) as EM.
    assert (A : forall (t : option V), (match t with Some tm => vadd kadd
                (accum kadd (su s 0) 1 (M l) (fun m => vscale kmul (ldt (lev l) *! ew (lend l) m) (ftot kO kadd np (sf s m)))) tm
              | None => accum kadd (su s 0) 1 (M l) (fun m => vscale kmul (ldt (lev l) *! ew (lend l) m) (ftot kO kadd np (sf s m))) end) x
             = su s 0 x +! sumf (fun m => ldt (lev l) *! ew (lend l) m *! ftot kO kadd np (sf s m) x) 1 (M l)
               +! match t with Some tm => tm x | None => kO end).
    { intros t. destruct t; unfold vadd; rewrite (accum_spec kO kI kadd kmul ksub kopp Rth); unfold vscale; ring. }
    assert (A' : forall (t : option V), (match t with Some tm => vadd kadd
                (accum kadd (su s' 0) 1 (M l) (fun m => vscale kmul (ldt (lev l) *! ew (lend l) m) (ftot kO kadd np (sf s' m)))) tm
              | None => accum kadd (su s' 0) 1 (M l) (fun m => vscale kmul (ldt (lev l) *! ew (lend l) m) (ftot kO kadd np (sf s' m))) end) x
             = su s' 0 x +! sumf (fun m => ldt (lev l) *! ew (lend l) m *! ftot kO kadd np (sf s' m) x) 1 (M l)
               +! match t with Some tm => tm x | None => kO end).
    { intros t. destruct t; unfold vadd; rewrite (accum_spec kO kI kadd kmul ksub kopp Rth); unfold vscale; ring. }
    rewrite A, A'. rewrite (Eu 0) by lia.
    f_equal; [f_equal|].
    - apply sumf_ext. intros m Hm. f_equal. apply (ftot_ext kO kadd). intros q. apply Ef. lia.
    - destruct (stau s (M l)), (stau s' (M l)); try contradiction; [apply EM | reflexivity].
  Qed.

  (* ---------------------------------------------------------------- congruence of restriction *)
  Lemma integrate_cong (Lv : @level K X) (f f' : nat -> nat -> V) m x :
    (forall j, 1 <= j <= lM Lv -> forall q y, f j q y = f' j q y) ->
    integrate kO kadd kmul (lM Lv) (ldt Lv) (lQ Lv) np f m x = integrate kO kadd kmul (lM Lv) (ldt Lv) (lQ Lv) np f' m x.
  Proof.
    intros H. rewrite !(integrate_is_dtQF kO kI kadd kmul ksub kopp Rth). f_equal. apply sumf_ext. intros j Hj. f_equal.
    apply (ftot_ext kO kadd). intros q. apply H. lia.
  Qed.

  Lemma restrict_cong p l (s s' : lvst) :
    S l < L -> eqv l s s' ->
    let G := restrict_st p l s in let G' := restrict_st p l s' in
    forall ue1 se1 v1 ue2 se2 v2,
    eqv (S l) {| su := Gu G; sf := Gf G; stau := Gtau G; suold := Guold G; sfold := Gfold G; suend := ue1; ssent := se1; svalid := v1 |}
              {| su := Gu G'; sf := Gf G'; stau := Gtau G'; suold := Guold G'; sfold := Gfold G'; suend := ue2; ssent := se2; svalid := v2 |}.
  Proof.
    intros Hl (Eu & Ef & Et & _ & _) G G' ue1 se1 v1 ue2 se2 v2.
    destruct (Hxf l Hl) as [(Radd & Rsub & Rzero & Rext & _) _].
    destruct (Hlev l ltac:(lia)) as [_ HMl].
    destruct (Hlev (S l) Hl) as [(_ & Hextc & _) _].
    assert (Gu_eq : forall n y, Gu G n y = Gu G' n y).
    { intros n y. unfold G, G', MultiLevel.restrict_to, Transfer.restrict. cbn [Gu fst].
      destruct (Nat.eqb n 0).
      - apply Rext. intros z. apply Eu. lia.
      - rewrite !(rcomb_spec kO kI kadd kmul ksub kopp Rth). apply sumf_ext. intros m Hm. f_equal.
        apply Rext. intros z. apply Eu. lia. }
    assert (Gf_eq : forall n q y, Gf G n q y = Gf G' n q y).
    { intros n q y. unfold G, G', MultiLevel.restrict_to, Transfer.restrict. cbn [Gf fst].
      apply Hextc. intros z. apply (Gu_eq n z). }
    assert (Gt_eq : forall n, exists a b, Gtau G n = Some a /\ Gtau G' n = Some b /\ forall y, a y = b y).
    { intros n. unfold G, G', MultiLevel.restrict_to, Transfer.restrict. cbn [Gtau fst snd].
      assert (T0 : forall z,
        vsub ksub (rcomb kO kadd kmul (M l) (xRs (xf l)) (xRcoll (xf l))
                     (integrate kO kadd kmul (M l) (ldt (lev l)) (lQ (lev l)) np (sf s)) n)
                  (integrate kO kadd kmul (M (S l)) (ldt (lev (S l))) (lQ (lev (S l))) np (Gf G) n) z
        = vsub ksub (rcomb kO kadd kmul (M l) (xRs (xf l)) (xRcoll (xf l))
                     (integrate kO kadd kmul (M l) (ldt (lev l)) (lQ (lev l)) np (sf s')) n)
                  (integrate kO kadd kmul (M (S l)) (ldt (lev (S l))) (lQ (lev (S l))) np (Gf G') n) z).
      { intros z. unfold vsub. f_equal.
        - rewrite !(rcomb_spec kO kI kadd kmul ksub kopp Rth). apply sumf_ext. intros m Hm. f_equal.
          apply Rext. intros w. apply integrate_cong. intros j Hj q v. apply Ef. exact Hj.
        - apply integrate_cong. intros j Hj q v. apply Gf_eq. }
      pose proof (Et 1 ltac:(lia)) as E1.
      destruct (stau s 1) as [a1|], (stau s' 1) as [b1|]; try contradiction.
      - eexists. eexists. split; [reflexivity|]. split; [reflexivity|]. intros y.
        unfold vadd. f_equal; [apply T0|].
        rewrite !(rcomb_spec kO kI kadd kmul ksub kopp Rth). apply sumf_ext. intros m Hm. f_equal.
        apply Rext. intros w. pose proof (Et m ltac:(lia)) as Em.
        destruct (stau s m), (stau s' m); try contradiction; [apply Em | reflexivity].
      - eexists. eexists. split; [reflexivity|]. split; [reflexivity|]. intros y. apply T0. }
    unfold eqv. cbn [su sf stau suold sfold].
    split; [intros m _ x; apply Gu_eq|]. split; [intros m _ q x; apply Gf_eq|]. split.
    - intros m Hm. destruct (Gt_eq m) as (a & b & Ea & Eb & Hab). rewrite Ea, Eb. exact Hab.
    - split.
      + intros m _ x. unfold G, G', MultiLevel.restrict_to, Transfer.restrict in *. cbn [Guold Gu fst] in *. apply Gu_eq.
      + intros m _ q x. unfold G, G', MultiLevel.restrict_to, Transfer.restrict in *. cbn [Gfold Gf fst] in *. apply Gf_eq.
  Qed.

  (* ---------------------------------------------------------------- the invariant and its preservation *)
  Definition Inv (B : bstate) : Prop :=
    forall p l, p < P -> l < L -> svalid (B p l) = true ->
      eqv l (B p l) (Ref p l) /\
      (ssent (B p l) = true -> forall x, suend (B p l) x = uend_of l (Ref p l) x).

  (* restrictions / prolongations stay inside the hierarchy *)
  Definition op_in_bounds (o : @op) : Prop :=
    match o with Sweep _ _ | Send _ _ | Recv _ _ => True | Restrict _ l | Prolong _ l => S l < L end.

  Lemma eqv_same l s s' : eqv l s s' -> same (lev l) (su s, sf s) (su s', sf s').
  Proof. intros (Eu & Ef & _). split; cbn [fst snd]; assumption. Qed.

  Lemma inv_holds B p l : Inv B -> p < P -> l < L -> svalid (B p l) = true ->
    holds p l (stau (B p l)) (su (B p l), sf (B p l)).
  Proof.
    intros HI Hp Hl Hv. pose proof (HI p l Hp Hl Hv) as [E _].
    destruct (Hlev l Hl) as [(_ & Hext & _) HM].
    apply (holds_eqv p l (stau (Ref p l)) (stau (B p l)) (su (Ref p l), sf (Ref p l)) _ Hext HM (ref_holds p Hp l Hl)).
    - apply eqv_same. exact E.
    - destruct E as (_ & _ & Et & _). exact Et.
  Qed.

  Lemma bupd_inv B p l s :
    Inv B ->
    (p < P -> l < L -> svalid s = true ->
       eqv l s (Ref p l) /\ (ssent s = true -> forall x, suend s x = uend_of l (Ref p l) x)) ->
    Inv (bupd B p l s).
  Proof.
    intros HI Hs p' l' Hp' Hl' Hv. unfold bupd in *.
    destruct (Nat.eqb_spec p' p) as [->|Hne]; cbn [andb] in *.
    - destruct (Nat.eqb_spec l' l) as [->|Hne2].
      + apply Hs; assumption.
      + apply HI; assumption.
    - apply HI; assumption.
  Qed.

  Lemma do_op_inv B o : op_in_bounds o -> Inv B -> Inv (do_op B o).
  Proof.
    intros Hb HI. destruct o as [p l|p l|p l|p l|p l]; cbn [Block.do_op].
    - (* Sweep *)
      apply bupd_inv; [exact HI|]. cbn [svalid ssent suend su sf stau suold sfold]. intros Hp Hl Hv.
      pose proof (HI p l Hp Hl Hv) as [(Eu & Ef & Et & Eo & Efo) Hue].
      destruct (Hlev l Hl) as [Hok _].
      pose proof (sweep1_fixed kO kI kadd kmul ksub kopp keqb Rth keqb_true (tstart p) imex (lev l) (stau (B p l))
                    (su (B p l), sf (B p l)) Hok (inv_holds B p l HI Hp Hl Hv)) as [Su Sf]. cbn [fst snd] in Su, Sf.
      split; [|exact Hue].
      unfold eqv. cbn [su sf stau suold sfold]. repeat split.
      + intros m Hm x. rewrite Su by exact Hm. apply Eu. exact Hm.
      + intros m Hm q x. rewrite Sf by exact Hm. apply Ef. exact Hm.
      + exact Et.
      + exact Eo.
      + exact Efo.
    - (* Send *)
      apply bupd_inv; [exact HI|]. cbn [svalid ssent suend su sf stau suold sfold]. intros Hp Hl Hv.
      pose proof (HI p l Hp Hl Hv) as [E _]. destruct (Hlev l Hl) as [_ HM].
      split.
      + destruct E as (Eu & Ef & Et & Eo & Efo). unfold eqv. cbn [su sf stau suold sfold]. repeat split; assumption.
      + intros _ x. apply (end_value_cong l (B p l) (Ref p l) HM E).
    - (* Recv *)
      destruct p as [|q]; [exact HI|].
      apply bupd_inv; [exact HI|]. cbn [svalid ssent suend su sf stau suold sfold]. intros Hp Hl Hv.
      apply andb_prop in Hv as [Hv1 Hv2]. apply andb_prop in Hv2 as [Hv2 Hs2].
      pose proof (HI (S q) l Hp Hl Hv1) as [(Eu & Ef & Et & Eo & Efo) Hue].
      pose proof (HI q l ltac:(lia) Hl Hv2) as [_ Hsrc].
      split; [|exact Hue].
      unfold eqv. cbn [su sf stau suold sfold]. repeat split.
      + intros m Hm x. unfold upd. destruct (Nat.eqb_spec m 0) as [->|Hne].
        * rewrite (Hsrc Hs2 x). rewrite (ref_chain (S q) ltac:(lia) l Hl x). replace (S q - 1) with q by lia. reflexivity.
        * apply Eu. exact Hm.
      + intros m Hm r x. unfold upd. replace (Nat.eqb m 0) with false by (symmetry; apply Nat.eqb_neq; lia). apply Ef. exact Hm.
      + exact Et.
      + exact Eo.
      + exact Efo.
    - (* Restrict *)
      cbn [op_in_bounds] in Hb.
      apply bupd_inv; [exact HI|]. cbn [svalid ssent]. intros Hp Hl Hv.
      pose proof (HI p l Hp ltac:(lia) Hv) as [E _].
      split; [|intros H; discriminate H].
      exact (restrict_cong p l (B p l) (Ref p l) Hb E _ _ _ _ _ _).
    - (* Prolong *)
      cbn [op_in_bounds] in Hb.
      apply bupd_inv; [exact HI|]. cbn [svalid ssent suend su sf stau suold sfold]. intros Hp Hl Hv.
      apply andb_prop in Hv as [Hv1 Hv2].
      pose proof (HI p l Hp Hl Hv1) as [(Eu & Ef & Et & Eo & Efo) Hue].
      pose proof (HI p (S l) Hp Hb Hv2) as [(Cu & Cf & _ & Co & Cfo) _].
      destruct (Hxf l Hb) as [Hx _]. destruct (Hlev l Hl) as [(_ & Hext & _) _].
      pose proof (inv_holds B p l HI Hp Hl Hv1) as (Hcons & _).
      pose (G := {| Gu := su (B p (S l)); Gf := sf (B p (S l)); Gtau := stau (B p (S l));
                    Guold := suold (B p (S l)); Gfold := sfold (B p (S l)) |}).
      assert (Hsc : forall m, 1 <= m <= M (S l) -> forall y, su (B p (S l)) m y = Guold G m y).
      { intros m Hm y. cbn [G Guold]. rewrite (Cu m) by lia. rewrite (Co m Hm). symmetry. apply ref_old. }
      assert (Hscf : forall m, 1 <= m <= M (S l) -> forall q y, sf (B p (S l)) m q y = Gfold G m q y).
      { intros m Hm q y. cbn [G Gfold]. rewrite (Cf m Hm). rewrite (Cfo m Hm). symmetry. apply ref_fold. }
      pose proof (prolong_same kO kI kadd kmul ksub kopp Rth (tstart p) (xf l) (lev l) (lev (S l)) G
                    (su (B p (S l)), sf (B p (S l))) (su (B p l), sf (B p l)) Hx Hext Hcons Hsc Hscf) as [Pu Pf].
      cbn [fst snd G Gtau Guold Gfold] in Pu, Pf.
      split; [|exact Hue].
      unfold eqv. cbn [su sf stau suold sfold]. repeat split.
      + intros m Hm x. rewrite Pu by exact Hm. apply Eu. exact Hm.
      + intros m Hm q x. rewrite Pf by exact Hm. apply Ef. exact Hm.
      + exact Et.
      + exact Eo.
      + exact Efo.
  Qed.

  Theorem run_ops_inv : forall ops B, Forall op_in_bounds ops -> Inv B -> Inv (run_ops ops B).
  Proof.
    induction ops as [|o ops IH]; intros B Hb HI; cbn [Block.run_ops fold_left]; [exact HI|].
    inversion Hb as [|? ? Ho Hops]; subst.
    apply IH; [exact Hops | apply do_op_inv; assumption].
  Qed.

  (* the block whose fine levels are the given solutions (coarse levels not yet initialised, nothing sent yet) *)
  Definition init_block : bstate :=
    fun p l => match l with
               | 0 => {| su := su (R0 p); sf := sf (R0 p); stau := stau (R0 p); suold := suold (R0 p); sfold := sfold (R0 p);
                         suend := suend (R0 p); ssent := false; svalid := Nat.ltb p P |}
               | S _ => {| su := fun _ _ => kO; sf := fun _ _ _ => kO; stau := fun _ => None; suold := fun _ _ => kO;
                           sfold := fun _ _ _ => kO; suend := fun _ => kO; ssent := false; svalid := false |}
               end.

  Lemma init_inv : Inv init_block.
  Proof.
    intros p l Hp Hl Hv. destruct l as [|l]; cbn [init_block svalid ssent] in *; [|discriminate Hv].
    split; [|intros H; discriminate H].
    cbn [Ref]. unfold eqv. cbn [su sf stau suold sfold]. repeat split; try reflexivity.
    intros m Hm. destruct (stau (R0 p) m); [reflexivity|exact I].
  Qed.

  (* MAIN THEOREM: after ANY schedule of sweeps, sends, receives, restrictions and prolongations (inside the hierarchy),
     every step's fine level that is still valid holds the same values and right-hand sides as before *)
  Theorem block_fixed_point_any_schedule ops :
    Forall op_in_bounds ops ->
    forall p, p < P -> 0 < L -> svalid (run_ops ops init_block p 0) = true ->
    same (lev 0) (su (run_ops ops init_block p 0), sf (run_ops ops init_block p 0)) (su (R0 p), sf (R0 p)).
  Proof.
    intros Hb p Hp HL Hv.
    pose proof (run_ops_inv ops init_block Hb init_inv p 0 Hp HL Hv) as [E _].
    apply eqv_same in E. exact E.
  Qed.
End BlockProofs.

(* the controller's schedule stays inside the hierarchy *)
Section Schedule.
  Variable L : nat.
  Notation inb := (op_in_bounds L).
  Lemma for_steps_inb P f : (forall p, Forall inb (f p)) -> Forall inb (for_steps P f).
  Proof. intros H. unfold for_steps. apply Forall_flat_map. apply Forall_forall. intros p _. apply H. Qed.
  Lemma repeat_ops_inb n ops : Forall inb ops -> Forall inb (repeat_ops n ops).
  Proof. intros H. induction n as [|n IH]; cbn [repeat_ops]; [constructor | apply Forall_app; split; assumption]. Qed.
  Lemma comm_sweep_inb P l : Forall inb (comm_all P l ++ sweep_all P l).
  Proof.
    apply Forall_app; split; apply for_steps_inb; intros p; repeat constructor.
  Qed.
  Lemma iteration_body_in_bounds P nsw jacobi : Forall inb (iteration_body P L nsw jacobi).
  Proof.
    unfold iteration_body. destruct (Nat.ltb_spec 1 L) as [HL|HL].
    - repeat (apply Forall_app; split).
      + apply for_steps_inb; intros p. repeat constructor. cbn. lia.
      + apply Forall_flat_map. apply Forall_forall. intros l Hl. apply in_seq in Hl.
        apply Forall_app; split; [apply repeat_ops_inb, comm_sweep_inb|].
        apply for_steps_inb; intros p. repeat constructor. cbn. lia.
      + apply for_steps_inb; intros p; repeat constructor.
      + apply Forall_flat_map. apply Forall_forall. intros l Hl. apply in_rev, in_seq in Hl.
        apply Forall_app; split.
        * apply for_steps_inb; intros p. repeat constructor. cbn. lia.
        * destruct (Nat.ltb 0 (l - 1)); [apply repeat_ops_inb, comm_sweep_inb | constructor].
      + apply repeat_ops_inb, comm_sweep_inb.
    - destruct jacobi; [apply repeat_ops_inb, comm_sweep_inb | apply for_steps_inb; intros p; repeat constructor].
  Qed.
  Lemma pfasst_iteration_in_bounds P nsw jacobi : Forall inb (pfasst_iteration P L nsw jacobi).
  Proof.
    unfold pfasst_iteration. apply Forall_app; split; [|apply iteration_body_in_bounds].
    apply for_steps_inb; intros p; repeat constructor.
  Qed.
  Lemma predict_ops_in_bounds P pt : Forall inb (predict_ops P L pt).
  Proof.
    destruct pt; cbn [predict_ops]; [constructor | apply for_steps_inb; intros p; repeat constructor |].
    unfold burnin_ops. repeat (apply Forall_app; split).
    - apply for_steps_inb; intros p. apply Forall_forall. intros o Ho. apply in_map_iff in Ho as (l & <- & Hl).
      apply in_seq in Hl. cbn. lia.
    - apply Forall_flat_map. apply Forall_forall. intros q _. apply Forall_app; split;
        apply Forall_flat_map; apply Forall_forall; intros p _; repeat constructor.
    - apply for_steps_inb; intros p. apply Forall_app; split; [|repeat constructor].
      apply Forall_forall. intros o Ho. apply in_map_iff in Ho as (l & <- & Hl). apply in_rev, in_seq in Hl. cbn. lia.
    - apply for_steps_inb; intros p; repeat constructor.
  Qed.
End Schedule.

(* validity / sent flags evolve independently of the numerical data: they can be computed on booleans alone *)
Definition flst := ((nat -> nat -> bool) * (nat -> nat -> bool))%type.     (* (valid, sent) *)
Definition fset (F : nat -> nat -> bool) (p l : nat) (b : bool) : nat -> nat -> bool :=
  fun p' l' => if Nat.eqb p' p && Nat.eqb l' l then b else F p' l'.
Definition fl_op (FS : flst) (o : op) : flst :=
  let (F, S_) := FS in
  match o with
  | Sweep _ _ => (F, S_)
  | Send p l => (F, fset S_ p l (F p l))
  | Recv p l => match p with
                | 0 => (F, S_)
                | S q => (fset F p l (F p l && (F q l && S_ q l)), S_)
                end
  | Restrict p l => (fset F p (S l) (F p l), fset S_ p (S l) false)
  | Prolong p l => (fset F p l (F p l && F p (S l)), S_)
  end.

Section Flags.
  Context {K : Type} (kO : K) (kadd kmul ksub : K -> K -> K) (keqb : K -> K -> bool).
  Context {X : Type}.
  Variable imex : bool.
  Variable lev : nat -> @level K X.
  Variable xf : nat -> @xfer K X.
  Variable tstart : nat -> K.
  Variable lend : nat -> @endp K.
  Notation do_op := (do_op kO kadd kmul ksub keqb imex lev xf tstart lend).
  Notation run_ops := (run_ops kO kadd kmul ksub keqb imex lev xf tstart lend).

  Definition flags_of (B : @bstate K X) (FS : flst) : Prop :=
    forall p l, svalid (B p l) = fst FS p l /\ ssent (B p l) = snd FS p l.

  Lemma flags_do_op (B : @bstate K X) FS o : flags_of B FS -> flags_of (do_op B o) (fl_op FS o).
  Proof.
    intros HF p l. destruct FS as [F S_]. cbn [fst snd] in *.
    assert (HFv : forall a b, svalid (B a b) = F a b) by (intros a b; apply (HF a b)).
    assert (HFs : forall a b, ssent (B a b) = S_ a b) by (intros a b; apply (HF a b)).
    destruct o as [p0 l0|p0 l0|p0 l0|p0 l0|p0 l0]; cbn [Block.do_op fl_op fst snd].
    - unfold bupd. destruct (Nat.eqb_spec p p0) as [->|]; cbn [andb]; [|split; [apply HFv|apply HFs]].
      destruct (Nat.eqb_spec l l0) as [->|]; cbn [svalid ssent]; split; first [apply HFv | apply HFs].
    - unfold bupd, fset. destruct (Nat.eqb_spec p p0) as [->|]; cbn [andb]; [|split; [apply HFv|apply HFs]].
      destruct (Nat.eqb_spec l l0) as [->|]; cbn [svalid ssent]; rewrite ?HFv, ?HFs; split; reflexivity.
    - destruct p0 as [|q]; [split; [apply HFv|apply HFs]|]. cbn [fst snd].
      unfold bupd, fset. destruct (Nat.eqb_spec p (S q)) as [->|]; cbn [andb]; [|split; [apply HFv|apply HFs]].
      destruct (Nat.eqb_spec l l0) as [->|]; cbn [svalid ssent]; rewrite ?HFv, ?HFs; split; reflexivity.
    - unfold bupd, fset. destruct (Nat.eqb_spec p p0) as [->|]; cbn [andb]; [|split; [apply HFv|apply HFs]].
      destruct (Nat.eqb_spec l (S l0)) as [->|]; cbn [svalid ssent]; rewrite ?HFv, ?HFs; split; reflexivity.
    - unfold bupd, fset. destruct (Nat.eqb_spec p p0) as [->|]; cbn [andb]; [|split; [apply HFv|apply HFs]].
      destruct (Nat.eqb_spec l l0) as [->|]; cbn [svalid ssent]; rewrite ?HFv, ?HFs; split; reflexivity.
  Qed.

  Lemma flags_run_ops ops : forall (B : @bstate K X) FS, flags_of B FS -> flags_of (run_ops ops B) (fold_left fl_op ops FS).
  Proof.
    induction ops as [|o ops IH]; intros B FS HF; cbn [Block.run_ops fold_left]; [exact HF|].
    apply IH. apply flags_do_op. exact HF.
  Qed.
End Flags.

(* ---------------------------------------------------------------- the controller's schedule keeps every entry valid *)
Section ScheduleValid.
  Variable P : nat.
  Notation runf ops FS := (fold_left fl_op ops FS).
  Definition Vk (k : nat) (FS : flst) : Prop := forall p l, p < P -> l <= k -> fst FS p l = true.

  Lemma runf_app a b (FS : flst) : runf (a ++ b) FS = runf b (runf a FS).
  Proof. apply fold_left_app. Qed.

  Lemma fset_same F p l b : fset F p l b p l = b.
  Proof. unfold fset. rewrite !Nat.eqb_refl. reflexivity. Qed.
  Lemma fset_other F p l b p' l' : (p' <> p \/ l' <> l) -> fset F p l b p' l' = F p' l'.
  Proof.
    intros H. unfold fset. destruct (Nat.eqb_spec p' p) as [->|]; cbn [andb]; [|reflexivity].
    destruct (Nat.eqb_spec l' l) as [->|]; [destruct H; congruence | reflexivity].
  Qed.

  (* a loop over the steps 0..P-1 whose body keeps levels 0..k valid, provided the earlier steps have sent on level l,
     and leaves the current step sent on level l *)
  Lemma loop_steps k l (body : nat -> list op) :
    (forall j FS, j < P -> Vk k FS -> (forall q, q < j -> snd FS q l = true) ->
       Vk k (runf (body j) FS) /\ (forall q, q <= j -> q < P -> snd (runf (body j) FS) q l = true)) ->
    forall FS, Vk k FS -> Vk k (runf (for_steps P body) FS) /\ (forall q, q < P -> snd (runf (for_steps P body) FS) q l = true).
  Proof.
    intros Hbody FS HV. unfold for_steps.
    assert (G : forall n j FS', j + n = P -> Vk k FS' -> (forall q, q < j -> snd FS' q l = true) ->
                Vk k (runf (flat_map body (seq j n)) FS') /\ (forall q, q < P -> snd (runf (flat_map body (seq j n)) FS') q l = true)).
    { induction n as [|n IH]; intros j FS' Hj HV' Hs; cbn [seq flat_map fold_left].
      - split; [exact HV'|]. intros q Hq. apply Hs. lia.
      - rewrite runf_app. destruct (Hbody j FS' ltac:(lia) HV' Hs) as [HV2 Hs2].
        apply IH; [lia | exact HV2 |]. intros q Hq. apply Hs2; lia. }
    apply (G P 0 FS); [lia | exact HV | intros q Hq; lia].
  Qed.

  (* send + recv on level l for every step *)
  Lemma comm_all_Vk k l : l <= k -> forall FS, Vk k FS -> Vk k (runf (comm_all P l) FS).
  Proof.
    intros Hl FS HV. apply (loop_steps k l (fun p => [Send p l; Recv p l])); [|exact HV].
    intros j [F S_] Hj HVj Hsent. cbn [fold_left fl_op].
    assert (HF : forall p l', p < P -> l' <= k -> F p l' = true) by exact HVj.
    assert (HS : forall q, q < j -> S_ q l = true) by exact Hsent.
    assert (Hvj : F j l = true) by (apply HF; assumption).
    destruct j as [|q]; cbn [fold_left fl_op fst snd].
    - split; [exact HVj|]. intros q Hq _. assert (q = 0) by lia. subst q. rewrite fset_same. exact Hvj.
    - split.
      + intros p l' Hp Hl'. cbn [fst]. unfold fset at 1.
        destruct (Nat.eqb_spec p (S q)) as [->|]; cbn [andb]; [|apply HF; assumption].
        destruct (Nat.eqb_spec l' l) as [->|]; [|apply HF; assumption].
        rewrite Hvj. cbn [andb]. rewrite (HF q l ltac:(lia) Hl). cbn [andb].
        rewrite fset_other by (left; lia). apply HS. lia.
      + intros r Hr _. cbn [snd]. destruct (Nat.eq_dec r (S q)) as [->|Hne].
        * rewrite fset_same. exact Hvj.
        * rewrite fset_other by (left; exact Hne). apply HS. lia.
  Qed.

  (* recv + sweep + send on level l for every step (Gauss-Seidel) *)
  Lemma coarse_loop_Vk k l : l <= k -> forall FS, Vk k FS -> Vk k (runf (for_steps P (fun p => [Recv p l; Sweep p l; Send p l])) FS).
  Proof.
    intros Hl FS HV. apply (loop_steps k l (fun p => [Recv p l; Sweep p l; Send p l])); [|exact HV].
    intros j [F S_] Hj HVj Hsent. cbn [fold_left fl_op].
    assert (HF : forall p l', p < P -> l' <= k -> F p l' = true) by exact HVj.
    assert (HS : forall q, q < j -> S_ q l = true) by exact Hsent.
    assert (Hvj : F j l = true) by (apply HF; assumption).
    destruct j as [|q]; cbn [fold_left fl_op fst snd].
    - split; [exact HVj|]. intros q Hq _. assert (q = 0) by lia. subst q. rewrite fset_same. exact Hvj.
    - assert (Hnew : fset F (S q) l (F (S q) l && (F q l && S_ q l)) (S q) l = true).
      { rewrite fset_same, Hvj, (HF q l ltac:(lia) Hl), (HS q ltac:(lia)). reflexivity. }
      split.
      + intros p l' Hp Hl'. cbn [fst].
        destruct (Nat.eq_dec p (S q)) as [->|Hne].
        * destruct (Nat.eq_dec l' l) as [->|Hne2]; [exact Hnew | rewrite fset_other by (right; exact Hne2); apply HF; assumption].
        * rewrite fset_other by (left; exact Hne). apply HF; assumption.
      + intros r Hr _. cbn [snd]. destruct (Nat.eq_dec r (S q)) as [->|Hne].
        * rewrite fset_same. exact Hnew.
        * rewrite fset_other by (left; exact Hne). apply HS. lia.
  Qed.

  Lemma sweep_all_Vk k l FS : Vk k FS -> Vk k (runf (sweep_all P l) FS).
  Proof.
    intros HV. unfold sweep_all, for_steps. generalize (seq 0 P). intros ps. revert FS HV.
    induction ps as [|p ps IH]; intros [F S_] HV; cbn [flat_map fold_left app]; [exact HV | apply IH; exact HV].
  Qed.

  Lemma repeat_comm_sweep_Vk k l n : l <= k -> forall FS, Vk k FS -> Vk k (runf (repeat_ops n (comm_all P l ++ sweep_all P l)) FS).
  Proof.
    intros Hl. induction n as [|n IH]; intros FS HV; cbn [repeat_ops fold_left]; [exact HV|].
    rewrite runf_app, runf_app. apply IH. apply sweep_all_Vk. apply comm_all_Vk; assumption.
  Qed.

  (* restricting every step from level k makes level k+1 valid *)
  Lemma restrict_all_Vk k : forall FS, Vk k FS -> Vk (S k) (runf (for_steps P (fun p => [Restrict p k])) FS).
  Proof.
    intros FS HV. unfold for_steps.
    assert (G : forall n j FS', j + n = P -> Vk k FS' -> (forall p, p < j -> fst FS' p (S k) = true) ->
                Vk k (runf (flat_map (fun p => [Restrict p k]) (seq j n)) FS') /\
                (forall p, p < P -> fst (runf (flat_map (fun p => [Restrict p k]) (seq j n)) FS') p (S k) = true)).
    { induction n as [|n IH]; intros j [F S_] Hj HV' Hdone; cbn [seq flat_map fold_left app].
      - split; [exact HV'|]. intros p Hp. apply Hdone. lia.
      - assert (HF : forall q l', q < P -> l' <= k -> F q l' = true) by exact HV'.
        assert (HD : forall q, q < j -> F q (S k) = true) by exact Hdone.
        cbn [fl_op]. apply IH; [lia | |].
        + intros p l Hp Hl. cbn [fst]. rewrite fset_other by (right; lia). apply HF; assumption.
        + intros p Hp. cbn [fst]. destruct (Nat.eq_dec p j) as [->|Hne].
          * rewrite fset_same. apply HF; lia.
          * rewrite fset_other by (left; exact Hne). apply HD. lia. }
    destruct (G P 0 FS ltac:(lia) HV ltac:(intros; lia)) as [HVk Hnew].
    intros p l Hp Hl. destruct (Nat.eq_dec l (S k)) as [->|Hne]; [apply Hnew; exact Hp | apply HVk; [exact Hp | lia]].
  Qed.

  (* prolongation to level l from level l+1 <= k *)
  Lemma prolong_all_Vk k l : S l <= k -> forall FS, Vk k FS -> Vk k (runf (for_steps P (fun p => [Prolong p l])) FS).
  Proof.
    intros Hl FS HV. unfold for_steps. generalize (seq 0 P). intros ps. revert FS HV.
    induction ps as [|p ps IH]; intros [F S_] HV; cbn [flat_map fold_left app]; [exact HV|].
    assert (HF : forall q l', q < P -> l' <= k -> F q l' = true) by exact HV.
    apply IH. cbn [fl_op]. intros p' l' Hp' Hl'. cbn [fst].
    destruct (Nat.eq_dec p' p) as [->|Hne].
    - destruct (Nat.eq_dec l' l) as [->|Hne2].
      + rewrite fset_same. rewrite (HF p l Hp' ltac:(lia)), (HF p (S l) Hp' Hl). reflexivity.
      + rewrite fset_other by (right; exact Hne2). apply HF; assumption.
    - rewrite fset_other by (left; exact Hne). apply HF; assumption.
  Qed.

  (* it_down after level 0 has been restricted: levels a .. a+n-1 are swept and restricted in turn *)
  Lemma down_levels_Vk nsw : forall n a FS, Vk a FS ->
    Vk (a + n) (runf (flat_map (fun l => repeat_ops (nsw l) (comm_all P l ++ sweep_all P l)
                                         ++ for_steps P (fun p => [Restrict p l])) (seq a n)) FS).
  Proof.
    induction n as [|n IH]; intros a FS HV; cbn [seq flat_map fold_left].
    - rewrite Nat.add_0_r. exact HV.
    - rewrite runf_app, runf_app. replace (a + S n) with (S a + n) by lia. apply IH.
      apply restrict_all_Vk. apply repeat_comm_sweep_Vk; [lia | exact HV].
  Qed.

  Lemma up_levels_Vk k nsw : forall ls FS, (forall l, In l ls -> 1 <= l <= k) -> Vk k FS ->
    Vk k (runf (flat_map (fun l => for_steps P (fun p => [Prolong p (l - 1)])
                                   ++ (if Nat.ltb 0 (l - 1) then repeat_ops (nsw (l - 1)) (comm_all P (l - 1) ++ sweep_all P (l - 1)) else []))
                         ls) FS).
  Proof.
    induction ls as [|l ls IH]; intros FS Hls HV; cbn [flat_map fold_left]; [exact HV|].
    rewrite runf_app, runf_app. apply IH; [intros l' Hl'; apply Hls; right; exact Hl'|].
    pose proof (Hls l (or_introl eq_refl)) as Hl.
    assert (H1 : Vk k (runf (for_steps P (fun p => [Prolong p (l - 1)])) FS)) by (apply prolong_all_Vk; [lia | exact HV]).
    destruct (Nat.ltb 0 (l - 1)); [apply repeat_comm_sweep_Vk; [lia | exact H1] | exact H1].
  Qed.

  Theorem pfasst_iteration_valid L nsw jacobi FS :
    Vk 0 FS -> Vk (L - 1) (runf (pfasst_iteration P L nsw jacobi) FS).
  Proof.
    intros HV. unfold pfasst_iteration, iteration_body. rewrite runf_app.
    assert (H1 : Vk 0 (runf (it_check_ops P) FS)) by (apply comm_all_Vk; [lia | exact HV]).
    destruct (Nat.ltb_spec 1 L) as [HL|HL].
    - rewrite !runf_app.
      assert (H2 : Vk (L - 1) (runf (it_down_ops P L nsw) (runf (it_check_ops P) FS))).
      { unfold it_down_ops. rewrite runf_app. replace (L - 1) with (1 + (L - 2)) by lia.
        apply down_levels_Vk. apply restrict_all_Vk. exact H1. }
      assert (H3 : Vk (L - 1) (runf (it_coarse_ops P L) (runf (it_down_ops P L nsw) (runf (it_check_ops P) FS))))
        by (apply coarse_loop_Vk; [lia | exact H2]).
      unfold it_fine_ops. apply repeat_comm_sweep_Vk; [lia|].
      unfold it_up_ops. apply up_levels_Vk; [|exact H3].
      intros l Hl. apply in_rev, in_seq in Hl. lia.
    - replace (L - 1) with 0 by lia.
      destruct jacobi.
      + unfold it_fine_ops. apply repeat_comm_sweep_Vk; [lia | exact H1].
      + unfold it_coarse_ops. replace (1 - 1) with 0 by lia. apply coarse_loop_Vk; [lia | exact H1].
  Qed.

  Lemma Vk_mono k k' FS : k' <= k -> Vk k FS -> Vk k' FS.
  Proof. intros Hk HV p l Hp Hl. apply HV; [exact Hp | lia]. Qed.

  (* any number of iterations *)
  Lemma iterations_valid L nsw jacobi n : forall FS, Vk 0 FS -> Vk 0 (runf (repeat_ops n (pfasst_iteration P L nsw jacobi)) FS).
  Proof.
    induction n as [|n IH]; intros FS HV; cbn [repeat_ops fold_left]; [exact HV|].
    rewrite runf_app. apply IH. apply (Vk_mono (L - 1) 0); [lia|]. apply pfasst_iteration_valid. exact HV.
  Qed.

  (* ---- predictors *)
  (* restricting ONE step through levels a, a+1, ..., a+n-1 *)
  Lemma restrict_chain_one p : forall n a FS, p < P -> (forall l, l <= a -> fst FS p l = true) ->
    let FS' := runf (map (fun l => Restrict p l) (seq a n)) FS in
    (forall l, l <= a + n -> fst FS' p l = true) /\ (forall q l, q <> p -> fst FS' q l = fst FS q l).
  Proof.
    induction n as [|n IH]; intros a [F S_] Hp Hv; cbn [seq map fold_left].
    - split; [intros l Hl; apply Hv; lia | intros; reflexivity].
    - cbn [fl_op]. assert (HF : forall l, l <= a -> F p l = true) by exact Hv.
      destruct (IH (S a) (fset F p (S a) (F p a), fset S_ p (S a) false) Hp) as [I1 I2].
      + intros l Hl. cbn [fst]. destruct (Nat.eq_dec l (S a)) as [->|Hne].
        * rewrite fset_same. apply HF. lia.
        * rewrite fset_other by (right; exact Hne). apply HF. lia.
      + split.
        * intros l Hl. apply I1. lia.
        * intros q l Hq. rewrite (I2 q l Hq). cbn [fst]. apply fset_other. left. exact Hq.
  Qed.

  Lemma restrict_all_levels_Vk L : forall FS, Vk 0 FS ->
    Vk (L - 1) (runf (for_steps P (fun p => map (fun l => Restrict p l) (seq 0 (L - 1)))) FS).
  Proof.
    intros FS HV. unfold for_steps.
    assert (G : forall n j FS', j + n = P -> Vk 0 FS' -> (forall p l, p < j -> l <= L - 1 -> fst FS' p l = true) ->
                forall p l, p < P -> l <= L - 1 ->
                  fst (runf (flat_map (fun p => map (fun l => Restrict p l) (seq 0 (L - 1))) (seq j n)) FS') p l = true).
    { induction n as [|n IH]; intros j FS' Hj HV' Hdone p l Hp Hl; cbn [seq flat_map fold_left].
      - apply Hdone; [lia | exact Hl].
      - rewrite runf_app.
        destruct (restrict_chain_one j (L - 1) 0 FS' ltac:(lia) ltac:(intros l0 Hl0; apply (HV' j l0); [lia | exact Hl0])) as [R1 R2].
        cbv zeta in R1, R2.
        apply IH; [lia | | | exact Hp | exact Hl].
        + intros q l0 Hq Hl0. destruct (Nat.eq_dec q j) as [->|Hne]; [apply R1; lia | rewrite (R2 q l0 Hne); apply (HV' q l0); assumption].
        + intros q l0 Hq Hl0. destruct (Nat.eq_dec q j) as [->|Hne]; [apply R1; lia | rewrite (R2 q l0 Hne); apply Hdone; [lia | exact Hl0]]. }
    intros p l Hp Hl. apply (G P 0 FS); [lia | exact HV | intros; lia | exact Hp | exact Hl].
  Qed.

  (* the staircase of the burn-in on level c: round q sweeps and sends steps q.., then steps q+1.. receive *)
  Lemma staircase_round_Vk k c q : c <= k -> forall FS, Vk k FS ->
    Vk k (runf (flat_map (fun p => [Sweep p c; Send p c]) (seq q (P - q)) ++ flat_map (fun p => [Recv p c]) (seq (S q) (P - S q))) FS).
  Proof.
    intros Hc FS HV. rewrite runf_app.
    (* after the sweep/send part: still valid, and every step q <= p < P has sent *)
    assert (A : forall n j FS', j + n = P -> Vk k FS' -> (forall p, q <= p < j -> snd FS' p c = true) ->
                Vk k (runf (flat_map (fun p => [Sweep p c; Send p c]) (seq j n)) FS') /\
                (forall p, q <= p < P -> snd (runf (flat_map (fun p => [Sweep p c; Send p c]) (seq j n)) FS') p c = true)).
    { induction n as [|n IH]; intros j [F S_] Hj HV' Hs; cbn [seq flat_map fold_left app].
      - split; [exact HV'|]. intros p Hp. apply Hs. lia.
      - cbn [fl_op]. assert (HF : forall p l, p < P -> l <= k -> F p l = true) by exact HV'.
        assert (HS : forall p, q <= p < j -> S_ p c = true) by exact Hs.
        apply IH; [lia | exact HV' |].
        intros p Hp. cbn [snd]. destruct (Nat.eq_dec p j) as [->|Hne].
        + rewrite fset_same. apply HF; lia.
        + rewrite fset_other by (left; exact Hne). apply HS. lia. }
    destruct (Nat.le_gt_cases P q) as [Hq|Hq].
    { replace (P - q) with 0 by lia. replace (P - S q) with 0 by lia. cbn [seq flat_map fold_left]. exact HV. }
    destruct (A (P - q) q FS ltac:(lia) HV ltac:(intros; lia)) as [HV1 HS1].
    set (FS1 := runf (flat_map (fun p => [Sweep p c; Send p c]) (seq q (P - q))) FS) in *.
    (* the receives: each needs its predecessor valid and sent; sent flags are not changed by receives *)
    assert (B : forall n j FS', j + n = P -> Vk k FS' -> (forall p, q <= p < P -> snd FS' p c = true) -> q < j ->
                Vk k (runf (flat_map (fun p => [Recv p c]) (seq j n)) FS')).
    { induction n as [|n IH]; intros j [F S_] Hj HV' Hs Hqj; cbn [seq flat_map fold_left app]; [exact HV'|].
      assert (HF : forall p l, p < P -> l <= k -> F p l = true) by exact HV'.
      assert (HS : forall p, q <= p < P -> S_ p c = true) by exact Hs.
      destruct j as [|j']; [lia|]. cbn [fl_op].
      apply IH; [lia | | exact Hs | lia].
      intros p l Hp Hl. cbn [fst]. destruct (Nat.eq_dec p (S j')) as [->|Hne].
      - destruct (Nat.eq_dec l c) as [->|Hne2].
        + rewrite fset_same. rewrite (HF (S j') c Hp Hc), (HF j' c ltac:(lia) Hc), (HS j' ltac:(lia)). reflexivity.
        + rewrite fset_other by (right; exact Hne2). apply HF; assumption.
      - rewrite fset_other by (left; exact Hne). apply HF; assumption. }
    destruct (Nat.le_gt_cases P (S q)) as [Hq2|Hq2].
    { replace (P - S q) with 0 by lia. cbn [seq flat_map fold_left]. exact HV1. }
    apply (B (P - S q) (S q) FS1); [lia | exact HV1 | exact HS1 | lia].
  Qed.

  Lemma staircase_Vk k c : c <= k -> forall n a FS, Vk k FS ->
    Vk k (runf (flat_map (fun q => flat_map (fun p => [Sweep p c; Send p c]) (seq q (P - q))
                                   ++ flat_map (fun p => [Recv p c]) (seq (S q) (P - S q))) (seq a n)) FS).
  Proof.
    intros Hc. induction n as [|n IH]; intros a FS HV; cbn [seq flat_map fold_left]; [exact HV|].
    rewrite runf_app. apply IH. apply staircase_round_Vk; assumption.
  Qed.

  (* prolong one step from the coarsest level up, then send + recv on the fine level, for every step in order *)
  Lemma up_and_comm_Vk L : forall FS, Vk (L - 1) FS ->
    Vk (L - 1) (runf (for_steps P (fun p => map (fun l => Prolong p (l - 1)) (rev (seq 1 (L - 1))) ++ [Send p 0; Recv p 0])) FS).
  Proof.
    intros FS HV. apply (loop_steps (L - 1) 0 (fun p => map (fun l => Prolong p (l - 1)) (rev (seq 1 (L - 1))) ++ [Send p 0; Recv p 0])); [|exact HV].
    intros j FS0 Hj HVj Hsent. rewrite runf_app.
    (* the prolongations of step j keep everything valid and do not touch sent flags *)
    assert (Pr : forall ls FS', (forall l, In l ls -> 1 <= l <= L - 1) -> Vk (L - 1) FS' ->
                  Vk (L - 1) (runf (map (fun l => Prolong j (l - 1)) ls) FS') /\ snd (runf (map (fun l => Prolong j (l - 1)) ls) FS') = snd FS').
    { induction ls as [|l ls IH]; intros [F S_] Hls HV'; cbn [map fold_left]; [split; [exact HV' | reflexivity]|].
      cbn [fl_op]. assert (HF : forall p l', p < P -> l' <= L - 1 -> F p l' = true) by exact HV'.
      pose proof (Hls l (or_introl eq_refl)) as Hl.
      destruct (IH (fset F j (l - 1) (F j (l - 1) && F j (S (l - 1))), S_) ltac:(intros l' Hl'; apply Hls; right; exact Hl')) as [I1 I2].
      - intros p l' Hp Hl'. cbn [fst]. destruct (Nat.eq_dec p j) as [->|Hne].
        + destruct (Nat.eq_dec l' (l - 1)) as [->|Hne2].
          * rewrite fset_same. rewrite (HF j (l - 1) Hp ltac:(lia)), (HF j (S (l - 1)) Hp ltac:(lia)). reflexivity.
          * rewrite fset_other by (right; exact Hne2). apply HF; assumption.
        + rewrite fset_other by (left; exact Hne). apply HF; assumption.
      - split; [exact I1 | rewrite I2; reflexivity]. }
    destruct (Pr (rev (seq 1 (L - 1))) FS0 ltac:(intros l Hl; apply in_rev, in_seq in Hl; lia) HVj) as [HV1 HS1].
    destruct (runf (map (fun l => Prolong j (l - 1)) (rev (seq 1 (L - 1)))) FS0) as [F S_] eqn:E. cbn [snd] in HS1. subst S_.
    cbn [fold_left fl_op].
    assert (HF : forall p l', p < P -> l' <= L - 1 -> F p l' = true) by exact HV1.
    assert (HS : forall q, q < j -> snd FS0 q 0 = true) by exact Hsent.
    assert (Hvj : F j 0 = true) by (apply HF; [exact Hj | lia]).
    destruct j as [|q]; cbn [fold_left fl_op fst snd].
    - split; [exact HV1|]. intros q Hq _. assert (q = 0) by lia. subst q. rewrite fset_same. exact Hvj.
    - split.
      + intros p l' Hp Hl'. cbn [fst]. unfold fset at 1.
        destruct (Nat.eqb_spec p (S q)) as [->|]; cbn [andb]; [|apply HF; assumption].
        destruct (Nat.eqb_spec l' 0) as [->|]; [|apply HF; assumption].
        rewrite Hvj. cbn [andb]. rewrite (HF q 0 ltac:(lia) ltac:(lia)). cbn [andb].
        rewrite fset_other by (left; lia). apply HS. lia.
      + intros r Hr _. cbn [snd]. destruct (Nat.eq_dec r (S q)) as [->|Hne].
        * rewrite fset_same. exact Hvj.
        * rewrite fset_other by (left; exact Hne). apply HS. lia.
  Qed.

  Theorem predict_ops_valid L pt FS : Vk 0 FS -> Vk 0 (runf (predict_ops P L pt) FS).
  Proof.
    intros HV. destruct pt; cbn [predict_ops fold_left]; [exact HV | apply sweep_all_Vk; exact HV |].
    unfold burnin_ops. rewrite !runf_app.
    apply (Vk_mono (L - 1) 0); [lia|].
    apply sweep_all_Vk. apply up_and_comm_Vk. apply staircase_Vk; [lia|]. apply restrict_all_levels_Vk. exact HV.
  Qed.
End ScheduleValid.
