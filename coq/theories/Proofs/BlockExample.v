(* Non-vacuity of C01_block_fixed_point_any_schedule: a concrete block of 2 steps on 2 levels over Qc (pure quadrature problem
   u' = t, 2 nodes per level, identity transfers) satisfies all hypotheses, and after the controller's own schedule
   (pfasst_iteration) every fine entry is still valid, so the theorem applies to it. *)
From Coq Require Import List Arith Bool Lia Ring ZArith QArith Qcanon.
From PySDC Require Import Model.Sweep Model.Transfer Model.MultiLevel Model.Block
     Proofs.SweepProofs Proofs.TransferProofs Proofs.MultiLevelProofs Proofs.MultiLevelExample Proofs.BlockProofs.
Import ListNotations.
Local Open Scope Qc_scope.

Definition bx_lev (_ : nat) : @level Qc unit := ex_level 2 1 1.
Definition bx_xf (_ : nat) : @xfer Qc unit := ex_xfer false.
Definition bx_tstart (p : nat) : Qc := Q2Qc (inject_Z (Z.of_nat p)).
Definition bx_lend (_ : nat) : @endp Qc := {| erin := true; edcu := false; ew := fun _ => exK0 |}.   (* copy mode: uend = last node *)
Definition bx_tn (p m : nat) : Qc := tnode Qcplus Qcmult exK1 (bx_tstart p) ex_nodes m.
Definition bx_sol (u0 : Qc) (p m : nat) : Qc :=
  if Nat.eqb m 0 then u0 else u0 + exK1 * sumf exK0 Qcplus (fun j => ex_Q m j * bx_tn p j) 1 2.
Definition bx_u0 (p : nat) : Qc := match p with 0%nat => Q2Qc 3 | S _ => bx_sol (Q2Qc 3) 0 2 end.
Definition bx_R0 (p : nat) : @lvst Qc unit :=
  {| su := fun m _ => bx_sol (bx_u0 p) p m; sf := fun m _ _ => bx_tn p m; stau := fun _ => None;
     suold := fun _ _ => exK0; sfold := fun _ _ _ => exK0; suend := fun _ => exK0; ssent := false; svalid := true |}.

Example bx_Hlev : forall l, (l < 2)%nat -> level_ok exK0 Qcmult Qcminus ex_eqb false (bx_lev l) /\ (1 <= lM (bx_lev l))%nat.
Proof. intros l _. split; [apply ex_level_ok | cbn; lia]. Qed.

Example bx_Hxf : forall l, (S l < 2)%nat ->
  xfer_ok exK0 exK1 Qcplus Qcminus (bx_xf l) (bx_lev l) (bx_lev (S l)) /\
  (forall m, (1 <= m <= lM (bx_lev l))%nat -> xRcoll (bx_xf l) (lM (bx_lev (S l))) m = if Nat.eqb m (lM (bx_lev l)) then exK1 else exK0).
Proof. intros l _. split; [apply ex_xfer_ok; lia | intros m _; reflexivity]. Qed.

Example bx_H0 : forall p, (p < 2)%nat ->
  holds_solution exK0 Qcplus Qcmult Qcminus (bx_tstart p) false (bx_lev 0) (stau (bx_R0 p)) (su (bx_R0 p), sf (bx_R0 p)).
Proof.
  intros p _. unfold holds_solution, bx_lev, bx_R0. cbn [su sf stau fst snd lM ldt lnodes lfeval lQ ex_level]. split; [|split].
  - intros m Hm q x. reflexivity.
  - intros m Hm x. cbn [fst snd lM ldt lQ ex_level nparts].
    apply (proj2 (residual_zero_iff_collocation exK0 exK1 Qcplus Qcmult Qcminus Qcopp Qcrt 2 exK1 ex_Q _ _ (fun _ => None) m x)).
    unfold bx_sol. replace (Nat.eqb m 0) with false by (symmetry; apply Nat.eqb_neq; lia). cbn [Nat.eqb].
    unfold tauval, bx_tn. unfold exK0, exK1. ring.
  - intros m Hm. split; intros; reflexivity.
Qed.

Example bx_Hcopy : (1 < 2)%nat -> forall l, (l < 2)%nat -> erin (bx_lend l) && negb (edcu (bx_lend l)) = true.
Proof. intros _ l _. reflexivity. Qed.

Example bx_Hchain : forall p, (0 < p < 2)%nat -> forall x, su (bx_R0 p) 0 x = end_value exK0 Qcplus Qcmult false bx_lev bx_lend 0 (bx_R0 (p - 1)) x.
Proof. intros p Hp x. assert (p = 1%nat) by lia. subst p. reflexivity. Qed.

(* the controller's schedule for 2 steps, 2 levels, one sweep per level keeps every fine entry valid ... *)
Definition bx_ops := pfasst_iteration 2 2 (fun _ => 1%nat) true.
Notation bx_B := (run_ops exK0 Qcplus Qcmult Qcminus ex_eqb false bx_lev bx_xf bx_tstart bx_lend bx_ops (init_block exK0 2 bx_R0)).
Example bx_valid : svalid (bx_B 0%nat 0%nat) = true /\ svalid (bx_B 1%nat 0%nat) = true /\
                   svalid (bx_B 0%nat 1%nat) = true /\ svalid (bx_B 1%nat 1%nat) = true.
Proof.
  pose proof (flags_run_ops exK0 Qcplus Qcmult Qcminus ex_eqb false bx_lev bx_xf bx_tstart bx_lend bx_ops (init_block exK0 2 bx_R0)
                (fun p l => match l with 0%nat => Nat.ltb p 2 | S _ => false end, fun _ _ => false)
                ltac:(intros p [|l]; split; reflexivity)) as HF.
  rewrite (proj1 (HF 0%nat 0%nat)), (proj1 (HF 1%nat 0%nat)), (proj1 (HF 0%nat 1%nat)), (proj1 (HF 1%nat 1%nat)).
  vm_compute. repeat split; reflexivity.
Qed.

(* ... so the theorem applies: both steps come back unchanged *)
Example bx_fixed : forall p, (p < 2)%nat -> same (bx_lev 0) (su (bx_B p 0%nat), sf (bx_B p 0%nat)) (su (bx_R0 p), sf (bx_R0 p)).
Proof.
  intros p Hp.
  apply (block_fixed_point_any_schedule exK0 exK1 Qcplus Qcmult Qcminus Qcopp ex_eqb Qcrt ex_eqb_true false bx_lev bx_xf bx_tstart bx_lend 2 2
           bx_Hlev bx_Hxf bx_Hcopy bx_R0 bx_H0 bx_Hchain bx_ops (pfasst_iteration_in_bounds 2 2 _ _) p Hp ltac:(lia)).
  pose proof bx_valid as (V0 & V1 & _). destruct p as [|[|p]]; [exact V0 | exact V1 | lia].
Qed.
