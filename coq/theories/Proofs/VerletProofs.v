From Coq Require Import List Arith Bool Lia Ring.
From PySDC Require Import Model.Sweep Model.Verlet Proofs.SweepProofs.
Import ListNotations.

Section VerletProofs.
  Context {K : Type} (kO kI : K) (kadd kmul ksub : K -> K -> K) (kopp : K -> K).
  Hypothesis Rth : ring_theory kO kI kadd kmul ksub kopp (@eq K).
  Add Ring KringV : Rth.
  Context {X : Type}.
  Notation V := (X -> K).
  Local Infix "+!" := kadd (at level 50, left associativity).
  Local Infix "*!" := kmul (at level 40, left associativity).
  Local Infix "-!" := ksub (at level 50, left associativity).
  Variable M : nat.
  Variable dt t0 : K.
  Variable nodes : nat -> K.
  Variable Q QQ Qx QT : nat -> nat -> K.
  Variable feval : K -> V -> V -> V.
  Notation tn := (tnode kadd kmul dt t0 nodes).
  Notation sumf := (sumf kO kadd).
  Notation tauval := (tauval kO).
  Notation vloop := (verlet_loop kadd kmul dt t0 nodes Qx QT feval).

  Definition v_pos (gp : nat -> V) (fn : nat -> V) (m : nat) : V :=
    accum kadd (gp m) 1 (m - 1) (fun j => vscale kmul (dt *! (dt *! Qx m j)) (fn j)).
  Definition v_vel0 (gv : nat -> V) (fn : nat -> V) (m : nat) : V :=
    accum kadd (gv m) 1 (m - 1) (fun j => vscale kmul (dt *! QT m j) (fn j)).

  Lemma verlet_loop_spec (gp gv : nat -> V) : forall n k (p' v' f' : nat -> V),
    1 <= k ->
    let r := vloop gp gv (seq k n) (p', v', f') in
    (forall j, j < k \/ k + n <= j -> fst (fst r) j = p' j /\ snd (fst r) j = v' j /\ snd r j = f' j) /\
    (forall m, k <= m < k + n ->
       fst (fst r) m = v_pos gp (snd r) m /\
       snd r m = feval (tn m) (fst (fst r) m) (v_vel0 gv (snd r) m) /\
       snd (fst r) m = vadd kadd (v_vel0 gv (snd r) m) (vscale kmul (dt *! QT m m) (snd r m))).
  Proof.
    induction n as [|n IH]; intros k p' v' f' Hk; cbn [seq Verlet.verlet_loop].
    - cbn [fst snd]. split; [intros; repeat split; reflexivity | intros m Hm; lia].
    - set (pm := accum kadd (gp k) 1 (k - 1) (fun j => vscale kmul (dt *! (dt *! Qx k j)) (f' j))).
      set (vm0 := accum kadd (gv k) 1 (k - 1) (fun j => vscale kmul (dt *! QT k j) (f' j))).
      set (fm := feval (tn k) pm vm0).
      set (vm := vadd kadd vm0 (vscale kmul (dt *! QT k k) fm)).
      specialize (IH (S k) (upd p' k pm) (upd v' k vm) (upd f' k fm) ltac:(lia)).
      cbv zeta in IH. destruct IH as [IHf IHn].
      set (r := vloop gp gv (seq (S k) n) (upd p' k pm, upd v' k vm, upd f' k fm)) in *.
      assert (Hpre : forall j, 1 <= j < 1 + (k - 1) -> snd r j = f' j).
      { intros j Hj. destruct (IHf j ltac:(lia)) as [_ [_ E]]. rewrite E. apply upd_other. lia. }
      assert (Ep : v_pos gp (snd r) k = pm).
      { unfold v_pos, pm. apply (accum_ext kadd). intros j Hj. rewrite (Hpre j Hj). reflexivity. }
      assert (Ev : v_vel0 gv (snd r) k = vm0).
      { unfold v_vel0, vm0. apply (accum_ext kadd). intros j Hj. rewrite (Hpre j Hj). reflexivity. }
      split.
      + intros j Hj. destruct (IHf j ltac:(lia)) as [Ea [Eb Ec]]. rewrite Ea, Eb, Ec, !upd_other by lia.
        repeat split; reflexivity.
      + intros m Hm. destruct (Nat.eq_dec m k) as [->|Hne].
        * destruct (IHf k ltac:(lia)) as [Ea [Eb Ec]]. rewrite Ea, Eb, Ec, !upd_same, Ep, Ev.
          repeat split; reflexivity.
        * destruct (IHn m ltac:(lia)) as [Ea [Eb Ec]]. repeat split; assumption.
  Qed.

  (* verlet.update_nodes: position / velocity block form, for every M, matrices, data, tau, any acceleration *)
  Theorem verlet_block_form (p v f : nat -> V) taup tauv :
    let r := verlet_update kO kadd kmul ksub M dt t0 nodes Q QQ Qx QT feval p v f taup tauv in
    let pn := fst (fst r) in let vn := snd (fst r) in let fn := snd r in
    (forall j, j = 0 \/ M < j -> pn j = p j /\ vn j = v j /\ fn j = f j) /\
    forall m, 1 <= m <= M -> forall x,
      pn m x -! dt *! dt *! sumf (fun j => Qx m j *! fn j x) 1 (m - 1)
      = p 0 x +! dt *! sumf (fun j => Q m j) 1 M *! v 0 x
              +! dt *! dt *! sumf (fun j => (QQ m j -! Qx m j) *! f j x) 1 M +! tauval taup m x
      /\
      vn m x -! dt *! sumf (fun j => QT m j *! fn j x) 1 m
      = v 0 x +! dt *! sumf (fun j => (Q m j -! QT m j) *! f j x) 1 M +! tauval tauv m x.
  Proof.
    intros r pn vn fn. unfold verlet_update in r.
    pose proof (verlet_loop_spec (vgather_pos kO kadd kmul ksub M dt Q QQ Qx (p 0) (v 0) f taup)
                  (vgather_vel kO kadd kmul ksub M dt Q QT (v 0) f tauv) M 1 p v f (le_n 1)) as S.
    cbv zeta in S. fold r in S. destruct S as [Sf Sn].
    split; [intros j Hj; apply Sf; lia|].
    intros m Hm x. destruct (Sn m ltac:(lia)) as [Ep [Ef Ev]]. fold pn in Ep. fold fn in Ep, Ef, Ev. fold vn in Ev.
    split.
    - rewrite Ep. unfold v_pos. rewrite (accum_spec kO kI kadd kmul ksub kopp Rth). unfold vscale.
      unfold vgather_pos, tauval.
      assert (G : forall tm : option V,
         (match tm with
          | Some t => vadd kadd (vadd kadd (accum_sub ksub (vint_pos kO kadd kmul M dt Q QQ (v 0) f m) 1 M
                         (fun j => vscale kmul (dt *! (dt *! Qx m j)) (f j))) (p 0)) t
          | None => vadd kadd (accum_sub ksub (vint_pos kO kadd kmul M dt Q QQ (v 0) f m) 1 M
                         (fun j => vscale kmul (dt *! (dt *! Qx m j)) (f j))) (p 0) end) x
         = dt *! dt *! sumf (fun j => QQ m j *! f j x) 1 M +! dt *! sumf (fun j => Q m j) 1 M *! v 0 x
           -! dt *! dt *! sumf (fun j => Qx m j *! f j x) 1 M +! p 0 x +! match tm with Some t => t x | None => kO end).
      { assert (I : vint_pos kO kadd kmul M dt Q QQ (v 0) f m x
                    = dt *! dt *! sumf (fun j => QQ m j *! f j x) 1 M +! dt *! sumf (fun j => Q m j) 1 M *! v 0 x).
        { unfold vint_pos. rewrite (accum_spec kO kI kadd kmul ksub kopp Rth). unfold vzero, vadd, vscale.
          rewrite (sumf_ext kO kadd (fun j => dt *! (dt *! QQ m j) *! f j x +! dt *! Q m j *! v 0 x)
                     (fun j => (dt *! dt) *! (QQ m j *! f j x) +! (dt *! v 0 x) *! Q m j) 1 M) by (intros; ring).
          rewrite (sumf_add kO kI kadd kmul ksub kopp Rth), !(sumf_scal kO kI kadd kmul ksub kopp Rth).
          set (SQ := sumf (fun j => Q m j) 1 M). change (sumf (Q m) 1 M) with SQ. ring. }
        intros tm. destruct tm as [t|]; unfold vadd; rewrite (accum_sub_spec kO kI kadd kmul ksub kopp Rth), I; unfold vscale;
          rewrite (sumf_ext kO kadd (fun j => dt *! (dt *! Qx m j) *! f j x) (fun j => (dt *! dt) *! (Qx m j *! f j x)) 1 M) by (intros; ring);
          rewrite (sumf_scal kO kI kadd kmul ksub kopp Rth); ring. }
      rewrite G.
      rewrite (sumf_ext kO kadd (fun j => dt *! (dt *! Qx m j) *! fn j x) (fun j => (dt *! dt) *! (Qx m j *! fn j x)) 1 (m - 1)) by (intros; ring).
      rewrite (sumf_scal kO kI kadd kmul ksub kopp Rth).
      rewrite (sumf_L5 kO kI kadd kmul ksub kopp Rth). ring.
    - rewrite Ev. unfold vadd, vscale, v_vel0. rewrite (accum_spec kO kI kadd kmul ksub kopp Rth). unfold vscale.
      unfold vgather_vel, tauval.
      assert (G : forall tm : option V,
         (match tm with
          | Some t => vadd kadd (vadd kadd (accum_sub ksub (vint_vel kO kadd kmul M dt Q f m) 1 M
                         (fun j => vscale kmul (dt *! QT m j) (f j))) (v 0)) t
          | None => vadd kadd (accum_sub ksub (vint_vel kO kadd kmul M dt Q f m) 1 M
                         (fun j => vscale kmul (dt *! QT m j) (f j))) (v 0) end) x
         = dt *! sumf (fun j => Q m j *! f j x) 1 M -! dt *! sumf (fun j => QT m j *! f j x) 1 M +! v 0 x
           +! match tm with Some t => t x | None => kO end).
      { assert (I : vint_vel kO kadd kmul M dt Q f m x = dt *! sumf (fun j => Q m j *! f j x) 1 M).
        { unfold vint_vel. rewrite (accum_spec kO kI kadd kmul ksub kopp Rth). unfold vzero, vscale.
          rewrite (sumf_ext kO kadd (fun j => dt *! Q m j *! f j x) (fun j => dt *! (Q m j *! f j x)) 1 M) by (intros; ring).
          rewrite (sumf_scal kO kI kadd kmul ksub kopp Rth). ring. }
        intros tm. destruct tm as [t|]; unfold vadd; rewrite (accum_sub_spec kO kI kadd kmul ksub kopp Rth), I; unfold vscale;
          rewrite (sumf_ext kO kadd (fun j => dt *! QT m j *! f j x) (fun j => dt *! (QT m j *! f j x)) 1 M) by (intros; ring);
          rewrite (sumf_scal kO kI kadd kmul ksub kopp Rth); ring. }
      rewrite G.
      rewrite (sumf_ext kO kadd (fun j => dt *! QT m j *! fn j x) (fun j => dt *! (QT m j *! fn j x)) 1 (m - 1)) by (intros; ring).
      rewrite (sumf_scal kO kI kadd kmul ksub kopp Rth).
      rewrite (sumf_L5 kO kI kadd kmul ksub kopp Rth).
      assert (Hl : sumf (fun j => QT m j *! fn j x) 1 m = sumf (fun j => QT m j *! fn j x) 1 (m - 1) +! QT m m *! fn m x).
      { replace m with (S (m - 1)) at 1 by lia. rewrite (sumf_snoc kO kI kadd kmul ksub kopp Rth).
        replace (1 + (m - 1)) with m by lia. reflexivity. }
      rewrite Hl. ring.
  Qed.

  (* ---------------------------------------------------------------- compute_end_point *)
  Variable weights qQ : nat -> K.

  Lemma sumf_swap (a : nat -> nat -> K) lo1 n1 lo2 n2 :
    sumf (fun i => sumf (fun j => a i j) lo2 n2) lo1 n1 = sumf (fun j => sumf (fun i => a i j) lo1 n1) lo2 n2.
  Proof.
    induction n1 as [|n1 IH].
    - cbn. symmetry. apply (sumf_zero kO kI kadd kmul ksub kopp Rth).
    - rewrite (sumf_snoc kO kI kadd kmul ksub kopp Rth), IH.
      rewrite (sumf_ext kO kadd (fun j => sumf (fun i => a i j) lo1 (S n1))
                 (fun j => sumf (fun i => a i j) lo1 n1 +! a (lo1 + n1) j) lo2 n2)
        by (intros j _; apply (sumf_snoc kO kI kadd kmul ksub kopp Rth)).
      rewrite (sumf_add kO kI kadd kmul ksub kopp Rth). reflexivity.
  Qed.

  (* verlet.compute_end_point: a copy of the last node exactly when configured so; otherwise the full Picard
     evaluation  x0 + dt (sum w) v0 + dt^2 sum_m qQ_m f_m (+ tau),  v0 + dt sum_m w_m f_m (+ tau) *)
  Theorem verlet_end_point_form rin dcu (p v f : nat -> V) taup tauv :
    let e := verlet_end_point kadd kmul M dt weights qQ rin dcu p v f taup tauv in
    (rin && negb dcu = true -> e = (p M, v M)) /\
    (rin && negb dcu = false -> forall x,
       fst e x = p 0 x +! dt *! sumf weights 1 M *! v 0 x +! dt *! dt *! sumf (fun m => qQ m *! f m x) 1 M +! tauval taup M x /\
       snd e x = v 0 x +! dt *! sumf (fun m => weights m *! f m x) 1 M +! tauval tauv M x).
  Proof.
    intros e. unfold e, verlet_end_point. split; intros Hb; rewrite Hb; [reflexivity|].
    intros x. unfold tauval. split.
    - assert (G : accum kadd (p 0) 1 M (fun m => vadd kadd (vscale kmul (dt *! (dt *! qQ m)) (f m)) (vscale kmul (dt *! weights m) (v 0))) x
                  = p 0 x +! dt *! sumf weights 1 M *! v 0 x +! dt *! dt *! sumf (fun m => qQ m *! f m x) 1 M).
      { rewrite (accum_spec kO kI kadd kmul ksub kopp Rth). unfold vadd, vscale.
        rewrite (sumf_ext kO kadd (fun m => dt *! (dt *! qQ m) *! f m x +! dt *! weights m *! v 0 x)
                   (fun m => (dt *! dt) *! (qQ m *! f m x) +! (dt *! v 0 x) *! weights m) 1 M) by (intros; ring).
        rewrite (sumf_add kO kI kadd kmul ksub kopp Rth), !(sumf_scal kO kI kadd kmul ksub kopp Rth).
        set (SW := sumf (fun m => weights m) 1 M). change (sumf weights 1 M) with SW. ring. }
      remember (accum kadd (p 0) 1 M (fun m => vadd kadd (vscale kmul (dt *! (dt *! qQ m)) (f m)) (vscale kmul (dt *! weights m) (v 0)))) as EP.
      destruct (taup M) as [t|]; cbn [fst]; unfold vadd; rewrite G; ring.
    - assert (G : accum kadd (v 0) 1 M (fun m => vscale kmul (dt *! weights m) (f m)) x
                  = v 0 x +! dt *! sumf (fun m => weights m *! f m x) 1 M).
      { rewrite (accum_spec kO kI kadd kmul ksub kopp Rth). unfold vscale.
        rewrite (sumf_ext kO kadd (fun m => dt *! weights m *! f m x) (fun m => dt *! (weights m *! f m x)) 1 M) by (intros; ring).
        rewrite (sumf_scal kO kI kadd kmul ksub kopp Rth). reflexivity. }
      remember (accum kadd (v 0) 1 M (fun m => vscale kmul (dt *! weights m) (f m))) as EV.
      destruct (tauv M) as [t|]; cbn [snd]; unfold vadd; rewrite G; ring.
  Qed.

  (* with qQ = w^T Q (what verlet.__init__ configures; validated on the real table every run) the position end value is the
     second-order form of  u0 + dt sum_n w_n F_n :  x0 + dt sum_n w_n (v0 + dt sum_j Q_nj f_j) *)
  Corollary verlet_end_point_second_order_form dcu rin (p v f : nat -> V) taup tauv :
    (forall m, qQ m = sumf (fun n => weights n *! Q n m) 1 M) ->
    rin && negb dcu = false ->
    let e := verlet_end_point kadd kmul M dt weights qQ rin dcu p v f taup tauv in
    forall x, fst e x = p 0 x +! dt *! sumf (fun n => weights n *! (v 0 x +! dt *! sumf (fun j => Q n j *! f j x) 1 M)) 1 M
                        +! tauval taup M x.
  Proof.
    intros HqQ Hb e x. destruct (verlet_end_point_form rin dcu p v f taup tauv) as [_ H]. cbv zeta in H. fold e in H.
    destruct (H Hb x) as [Hp _]. rewrite Hp.
    rewrite (sumf_ext kO kadd (fun n => weights n *! (v 0 x +! dt *! sumf (fun j => Q n j *! f j x) 1 M))
               (fun n => v 0 x *! weights n +! dt *! sumf (fun j => weights n *! Q n j *! f j x) 1 M) 1 M).
    2:{ intros n _.
        rewrite (sumf_ext kO kadd (fun j => weights n *! Q n j *! f j x) (fun j => weights n *! (Q n j *! f j x)) 1 M) by (intros; ring).
        rewrite (sumf_scal kO kI kadd kmul ksub kopp Rth). ring. }
    rewrite (sumf_add kO kI kadd kmul ksub kopp Rth), !(sumf_scal kO kI kadd kmul ksub kopp Rth).
    rewrite (sumf_swap (fun n j => weights n *! Q n j *! f j x)).
    rewrite (sumf_ext kO kadd (fun m => qQ m *! f m x) (fun j => sumf (fun i => weights i *! Q i j *! f j x) 1 M) 1 M).
    2:{ intros m _. rewrite HqQ.
        rewrite (sumf_ext kO kadd (fun i => weights i *! Q i m *! f m x) (fun i => f m x *! (weights i *! Q i m)) 1 M) by (intros; ring).
        rewrite (sumf_scal kO kI kadd kmul ksub kopp Rth). ring. }
    set (SW := sumf (fun m => weights m) 1 M). change (sumf weights 1 M) with SW. ring.
  Qed.
End VerletProofs.
