(* C19 — proofs about Model/Rerun.v *)
From Coq Require Import List Bool Arith ZArith Lia PrimFloat.
From PySDC Require Import Model.Rerun.
Import ListNotations.

(* ------------------------------------------------------------------------------------------- *)
(* helpers *)

Lemma list_beq_bool_eq : forall l1 l2, list_beq Bool.eqb l1 l2 = true -> l1 = l2.
Proof.
  induction l1 as [|x r IH]; destruct l2 as [|y r2]; simpl; intros H; try discriminate; auto.
  apply andb_true_iff in H. destruct H as [H1 H2].
  apply eqb_prop in H1. subst. f_equal. auto.
Qed.

Lemma upd_length : forall A (l : list A) i x, length (upd l i x) = length l.
Proof. induction l; destruct i; simpl; auto. Qed.

Lemma mapi_from_ext2 : forall A B (f g : nat -> A -> B) (d d' : A) l l' k,
  length l = length l' ->
  (forall i, i < length l -> f (k + i) (nth i l d) = g (k + i) (nth i l' d')) ->
  mapi_from k f l = mapi_from k g l'.
Proof.
  induction l as [|x r IH]; destruct l' as [|y r']; simpl; intros k HL H; try discriminate; auto.
  f_equal.
  - specialize (H 0). simpl in H. rewrite Nat.add_0_r in H. apply H. lia.
  - apply IH. lia. intros i Hi. specialize (H (S i)). simpl in H.
    replace (k + S i) with (S k + i) in H by lia. apply H. lia.
Qed.

Lemma index_of_seq : forall n k p, p < n -> index_of (k + p) (seq k n) = Some p.
Proof.
  induction n as [|n IH]; intros k p Hp. lia.
  simpl. destruct p as [|p'].
  - rewrite Nat.add_0_r, Nat.eqb_refl. reflexivity.
  - destruct (Nat.eqb_spec k (k + S p')) as [E|E]. lia.
    replace (k + S p') with (S k + p') by lia. rewrite IH by lia. reflexivity.
Qed.

Lemma mapi_from_length : forall A B (f : nat -> A -> B) l k, length (mapi_from k f l) = length l.
Proof. induction l; simpl; auto. Qed.

(* ------------------------------------------------------------------------------------------- *)
(* Part 1: the time loop — no law about add/sub/ltb is used anywhere *)

Section TimeLoopProofs.
  Variable T : Type.
  Variable add sub : T -> T -> T.
  Variable ltb : T -> T -> bool.
  Variable zero teneps dflt : T.
  Variable U : Type.
  Variable blk : list (nat * T * T) -> U -> U.
  Variable dts : list T.

  Notation loop := (loop T add ltb dflt U blk dts).
  Notation init_times := (init_times T add zero dts).
  Notation thr := (thr T sub teneps).
  Notation active := (active T ltb).
  Notation run := (run T add sub ltb zero teneps dflt U blk dts).
  Notation mask_agree := (mask_agree T ltb U).
  Notation next_times := (next_times T add dflt dts).

  (* run is a function: same inputs, same outcome (trivially, it is a Gallina function) *)
  Lemma run_deterministic : forall f t0 Tend u0 o1 o2, run f t0 Tend u0 = o1 -> run f t0 Tend u0 = o2 -> o1 = o2.
  Proof. intros; congruence. Qed.

  Lemma loop_fuel_mono : forall f th times u r k, loop f th times u = Some r -> loop (f + k) th times u = Some r.
  Proof.
    induction f as [|f IH]; intros th times u r k H.
    - simpl in H. destruct (compress (active th times)) eqn:E; try discriminate.
      destruct k; simpl; rewrite E; auto.
    - simpl in H. simpl. destruct (compress (active th times)) eqn:E; auto.
      destruct (loop f th _ _) as [[[tf uf] tr]|] eqn:E2; try discriminate.
      rewrite (IH _ _ _ _ k E2). auto.
  Qed.

  (* the first run (threshold thM) is a prefix of the run with threshold thE as long as both
     active tests give the same mask before every block of the first run *)
  Lemma loop_switch : forall f1 thM thE times u tk uk tr1,
    loop f1 thM times u = Some (tk, uk, tr1) ->
    forallb (mask_agree thM thE) tr1 = true ->
    forall f2 tf uf tr2, loop f2 thE tk uk = Some (tf, uf, tr2) ->
    loop (f1 + f2) thE times u = Some (tf, uf, tr1 ++ tr2).
  Proof.
    induction f1 as [|f IH]; intros thM thE times u tk uk tr1 H HM f2 tf uf tr2 H2.
    - simpl in H. destruct (compress (active thM times)) eqn:E; try discriminate.
      inversion H; subst. simpl. exact H2.
    - simpl in H. destruct (compress (active thM times)) eqn:E.
      + inversion H; subst. simpl app.
        replace (S f + f2) with (f2 + S f) by lia. apply loop_fuel_mono. exact H2.
      + destruct (loop f thM _ _) as [[[tf1 uf1] tr]|] eqn:E2; try discriminate.
        inversion H; subst. simpl in HM. apply andb_true_iff in HM. destruct HM as [HM1 HM2].
        apply list_beq_bool_eq in HM1.
        simpl. rewrite <- HM1. rewrite E.
        rewrite (IH _ _ _ _ _ _ _ E2 HM2 _ _ _ _ H2). reflexivity.
  Qed.

  (* split_compose: stop at a block boundary, continue from the reached time value tk and the
     returned value uk: same blocks, same (slot, start, dt) triples, same chained values, same end.
       premise (a)  the two active tests agree before every block of the first run  [boolean]
       premise (b)  the time list the second run() builds from tk is the one the first run ended with *)
  Theorem split_compose : forall f1 f2 t0 Tmid Tend u0 times_k uk tr1 tk tf uf tr2,
    loop f1 (thr Tmid) (init_times t0) u0 = Some (times_k, uk, tr1) ->
    forallb (mask_agree (thr Tmid) (thr Tend)) tr1 = true ->
    init_times tk = times_k ->
    loop f2 (thr Tend) (init_times tk) uk = Some (tf, uf, tr2) ->
    loop (f1 + f2) (thr Tend) (init_times t0) u0 = Some (tf, uf, tr1 ++ tr2).
  Proof.
    intros. subst times_k. eapply loop_switch; eauto.
  Qed.

  Corollary split_compose_observables : forall f1 f2 t0 Tmid Tend u0 times_k uk tr1 tk tf uf tr2,
    loop f1 (thr Tmid) (init_times t0) u0 = Some (times_k, uk, tr1) ->
    forallb (mask_agree (thr Tmid) (thr Tend)) tr1 = true ->
    init_times tk = times_k ->
    loop f2 (thr Tend) (init_times tk) uk = Some (tf, uf, tr2) ->
    exists trF, loop (f1 + f2) (thr Tend) (init_times t0) u0 = Some (tf, uf, trF) /\
                steps_of T U trF = steps_of T U tr1 ++ steps_of T U tr2 /\
                values_of T U trF = values_of T U tr1 ++ values_of T U tr2.
  Proof.
    intros. exists (tr1 ++ tr2). split. eapply split_compose; eauto.
    unfold steps_of, values_of. rewrite !map_app. auto.
  Qed.

  (* the time list keeps its length *)
  Lemma next_times_length : forall slots times, length (next_times slots times) = length times.
  Proof.
    intros slots times. unfold Rerun.next_times. destruct slots as [|s0 r]; auto.
    set (t1 := upd times s0 _).
    assert (H1 : length t1 = length times) by (apply upd_length).
    revert H1. generalize t1. generalize (seq 1 (length (s0 :: r) - 1)).
    induction l as [|i l IH]; simpl; intros t H; auto.
    apply IH. rewrite upd_length. auto.
  Qed.

  Lemma loop_length : forall f th times u tf uf tr, loop f th times u = Some (tf, uf, tr) -> length tf = length times.
  Proof.
    induction f as [|f IH]; intros th times u tf uf tr H; simpl in H.
    - destruct (compress _); try discriminate. inversion H; subst; auto.
    - destruct (compress _) eqn:E. inversion H; subst; auto.
      destruct (loop f th _ _) as [[[a b] c]|] eqn:E2; try discriminate.
      inversion H; subst. apply IH in E2. rewrite E2. apply next_times_length.
  Qed.
End TimeLoopProofs.

(* one time slot (num_procs = 1): premise (b) is the single equation  tk + 0 = tk *)
Section OneSlot.
  Variable T : Type.
  Variable add sub : T -> T -> T.
  Variable ltb : T -> T -> bool.
  Variable zero teneps dflt : T.
  Variable U : Type.
  Variable blk : list (nat * T * T) -> U -> U.
  Variable d : T.

  Theorem split_compose_one_slot : forall f1 f2 t0 Tmid Tend u0 times_k uk tr1 tf uf tr2,
    let L := loop T add ltb dflt U blk [d] in
    let it := init_times T add zero [d] in
    let th := thr T sub teneps in
    L f1 (th Tmid) (it t0) u0 = Some (times_k, uk, tr1) ->
    forallb (mask_agree T ltb U (th Tmid) (th Tend)) tr1 = true ->
    let tk := nth 0 times_k dflt in
    add tk zero = tk ->
    L f2 (th Tend) (it tk) uk = Some (tf, uf, tr2) ->
    L (f1 + f2) (th Tend) (it t0) u0 = Some (tf, uf, tr1 ++ tr2).
  Proof.
    intros f1 f2 t0 Tmid Tend u0 times_k uk tr1 tf uf tr2 L it th H HM tk Hz H2.
    eapply split_compose; eauto.
    pose proof (loop_length _ _ _ _ _ _ _ _ _ _ _ _ _ _ H) as HL.
    unfold it, init_times in *. simpl in *.
    destruct times_k as [|x [|y r]]; simpl in HL; try discriminate.
    unfold tk in *. simpl in *. rewrite Hz. reflexivity.
  Qed.
End OneSlot.

(* two slots: after a block in which both were active the time list is [tk; tk + d0] with
   tk = time[1] + d1, and run() rebuilds it from tk as [tk + 0; tk + (0 + d0)] *)
Lemma two_slot_boundary : forall T (add : T -> T -> T) (zero dflt : T) d0 d1 a b,
  let tk := add b d1 in
  next_times T add dflt [d0; d1] [0; 1] [a; b] = [tk; add tk d0] /\
  (add tk zero = tk -> add zero d0 = d0 -> init_times T add zero [d0; d1] tk = [tk; add tk d0]).
Proof.
  intros. split. reflexivity. intros H1 H2. unfold init_times. simpl. rewrite H1, H2. reflexivity.
Qed.

(* ------------------------------------------------------------------------------------------- *)
(* the IEEE-double instance (Coq primitive floats; primitives, not axioms) *)

Definition f_teneps : float := 0x1.4p-49%float.          (* 10 * np.finfo(float).eps *)
Definition floop := loop float PrimFloat.add PrimFloat.ltb 0%float.
Definition frun := run float PrimFloat.add PrimFloat.sub PrimFloat.ltb 0%float f_teneps 0%float.
Definition finit := init_times float PrimFloat.add 0%float.
Definition fthr := thr float PrimFloat.sub f_teneps.

(* bit-exact comparison of doubles (distinguishes +0/-0, identifies NaNs) for reporting *)
Definition fclass_code (x : float) : nat :=
  match classify x with
  | FloatClass.PNormal => 0 | FloatClass.NNormal => 1 | FloatClass.PSubn => 2 | FloatClass.NSubn => 3
  | FloatClass.PZero => 4 | FloatClass.NZero => 5 | FloatClass.PInf => 6 | FloatClass.NInf => 7 | FloatClass.NaN => 8
  end.
Definition feqb (x y : float) : bool :=
  Nat.eqb (fclass_code x) (fclass_code y) && (PrimFloat.eqb x y || Nat.eqb (fclass_code x) 8).

Definition step_eqb (a b : nat * float * float) : bool :=
  let '(p, t, d) := a in let '(q, s, e) := b in Nat.eqb p q && feqb t s && feqb d e.
Definition steps_eqb (a b : list (list (nat * float * float))) : bool := list_beq (list_beq step_eqb) a b.

(* full-strength split composition (without premise (b)) is REFUTED for IEEE doubles:
   4 slots, dt = 0.1, t0 = 0: run(0, 0.4) then run(0.4, 0.8) starts its 3rd/4th step at
   0.6000000000000001 / 0.7000000000000001, the uninterrupted run(0, 0.8) at 0.6 / 0.7 *)
Definition w_dt : float := 0x1.999999999999ap-4%float.
Definition w_dts := [w_dt; w_dt; w_dt; w_dt].
Definition w_blk : list (nat * float * float) -> unit -> unit := fun _ u => u.

Theorem split_compose_refuted :
  exists (t0 Tmid Tend tk : float) times_k tr1 tf tr2 tF trF,
    floop unit w_blk w_dts 5 (fthr Tmid) (finit w_dts t0) tt = Some (times_k, tt, tr1) /\
    forallb (mask_agree float PrimFloat.ltb unit (fthr Tmid) (fthr Tend)) tr1 = true /\
    nth 0 times_k 0%float = tk /\
    floop unit w_blk w_dts 5 (fthr Tend) (finit w_dts tk) tt = Some (tf, tt, tr2) /\
    floop unit w_blk w_dts 10 (fthr Tend) (finit w_dts t0) tt = Some (tF, tt, trF) /\
    steps_of float unit trF <> steps_of float unit tr1 ++ steps_of float unit tr2.
Proof.
  eexists 0%float, 0x1.999999999999ap-2%float, 0x1.999999999999ap-1%float, _, _, _, _, _, _, _.
  split. vm_compute. reflexivity.
  split. vm_compute. reflexivity.
  split. vm_compute. reflexivity.
  split. vm_compute. reflexivity.
  split. vm_compute. reflexivity.
  intro H.
  apply (f_equal (map (map (fun x : nat * float * float => PrimFloat.ltb (snd (fst x)) 0x1.3333333333334p-1%float)))) in H.
  vm_compute in H. discriminate H.
Qed.

(* non-vacuity of split_compose on doubles: 2 slots, dt = 0.1 — both premises hold *)
Example split_compose_nonvacuous :
  let dts := [w_dt; w_dt] in
  exists times_k tr1 tf tr2,
    floop unit w_blk dts 5 (fthr 0x1.999999999999ap-2%float) (finit dts 0%float) tt = Some (times_k, tt, tr1) /\
    forallb (mask_agree float PrimFloat.ltb unit (fthr 0x1.999999999999ap-2%float) (fthr 0x1.999999999999ap-1%float)) tr1 = true /\
    finit dts (nth 0 times_k 0%float) = times_k /\
    floop unit w_blk dts 5 (fthr 0x1.999999999999ap-1%float) (finit dts (nth 0 times_k 0%float)) tt = Some (tf, tt, tr2) /\
    length tr1 = 2 /\ length tr2 = 2.
Proof.
  eexists _, _, _, _.
  split. vm_compute. reflexivity.
  split. vm_compute. reflexivity.
  split. vm_compute. reflexivity.
  split. vm_compute. reflexivity.
  split; reflexivity.
Qed.

(* ------------------------------------------------------------------------------------------- *)
(* Part 2: the entry resets re-initialise everything except an explicit list of carried fields *)

Section PersistProofs.
  Variable D : Type.
  Notation Stp := (Stp D).
  Notation Ctrl := (Ctrl D).

  Lemma levels_reset_carried : forall (time : val) (u0 : D) (ls ls' : list (Lev D)),
    map (fun l => (lv_keep l, lv_nn l)) ls = map (fun l => (lv_keep l, lv_nn l)) ls' ->
    mapi (fun i l => let l' := reset_level time l in if Nat.eqb i 0 then set_u0 u0 l' else l') ls =
    mapi (fun i l => let l' := reset_level time l in if Nat.eqb i 0 then set_u0 u0 l' else l') ls'.
  Proof.
    intros time u0 ls ls' H. unfold mapi.
    assert (HL : length ls = length ls').
    { apply (f_equal (@length _)) in H. rewrite !map_length in H. exact H. }
    destruct ls as [|l0 r].
    - destruct ls'; try discriminate. reflexivity.
    - apply mapi_from_ext2 with (d := l0) (d' := l0); auto.
      intros i Hi.
      assert (E : (lv_keep (nth i (l0 :: r) l0), lv_nn (nth i (l0 :: r) l0)) = (lv_keep (nth i ls' l0), lv_nn (nth i ls' l0))).
      { rewrite <- (map_nth (fun l => (lv_keep l, lv_nn l)) (l0 :: r) l0 i).
        rewrite <- (map_nth (fun l => (lv_keep l, lv_nn l)) ls' l0 i). rewrite H. reflexivity. }
      inversion E as [[E1 E2]]. unfold reset_level. simpl. rewrite E1, E2. reflexivity.
  Qed.

  (* reset of an active step reads only the carried fields of the old step *)
  Lemma reset_step_at_carried : forall slots j p time u0 (s s' : Stp),
    carried_step s = carried_step s' ->
    reset_step_at slots j p time u0 s = reset_step_at slots j p time u0 s'.
  Proof.
    intros slots j p time u0 [o ls pv] [o' ls' pv'] H. unfold carried_step in H. simpl in H.
    inversion H as [[H1 H2 H3 H4 H5 H6]].
    unfold reset_step_at. simpl. rewrite H1, H2, H3, H4, H5.
    f_equal. apply levels_reset_carried. exact H6.
  Qed.

  Lemma restart_block_frame : forall slots times u0 (steps steps' : list Stp) (d : Stp),
    length steps = length steps' ->
    (forall p, p < length steps -> step_rel slots p (nth p steps d) (nth p steps' d)) ->
    restart_block slots times u0 steps = restart_block slots times u0 steps'.
  Proof.
    intros slots times u0 steps steps' d HL H. unfold restart_block, mapi.
    apply mapi_from_ext2 with (d := d) (d' := d); auto.
    intros i Hi. simpl. specialize (H i Hi). unfold step_rel in H.
    destruct (index_of i slots); auto. apply reset_step_at_carried; auto.
  Qed.

  Lemma reset_stats_frame : forall (hs hs' : list Hook), Forall2 hook_rel hs hs' -> map reset_stats hs = map reset_stats hs'.
  Proof.
    induction 1 as [|h h' r r' [H1 H2] _ IH]; simpl; auto.
    rewrite IH. unfold reset_stats. rewrite H1, H2. reflexivity.
  Qed.

  (* FRAME / INITIALISATION LEMMA.  After reset_stats + restart_block the complete controller state is
     determined by the inputs of run() and by: for active slots the carried fields (pred_cnt,
     force_continue, diff_old_loc, diff_first_loc, restarts_in_a_row, u_avg/residual/increment,
     num_nodes); inactive steps (kept as they are, only `restart` is cleared); per hook its restart
     counter and private attributes; the convergence-controller buffers; the sweeper RNG. *)
  Theorem run_entry_frame : forall slots times u0 (c c' : Ctrl) (d : Stp),
    length (c_steps c) = length (c_steps c') ->
    (forall p, p < length (c_steps c) -> step_rel slots p (nth p (c_steps c) d) (nth p (c_steps c') d)) ->
    Forall2 hook_rel (c_hooks c) (c_hooks c') ->
    c_bufs c = c_bufs c' -> c_rng c = c_rng c' ->
    run_entry slots times u0 c = run_entry slots times u0 c'.
  Proof.
    intros slots times u0 c c' d HL HS HH HB HR. unfold run_entry.
    rewrite (restart_block_frame slots times u0 _ _ d HL HS), (reset_stats_frame _ _ HH), HB, HR. reflexivity.
  Qed.

  (* a run = entry resets followed by ANY function of the resulting state (pfasst blocks, hooks,
     convergence controllers): no assumption on that function *)
  Section Body.
    Variable Res : Type.
    Variable body : Ctrl -> Res * Ctrl.
    Definition run1 (slots : list nat) (times : list val) (u0 : D) (c : Ctrl) : Res * Ctrl :=
      body (run_entry slots times u0 c).

    Theorem rerun_equal : forall slots times u0 (c c' : Ctrl) (d : Stp),
      length (c_steps c) = length (c_steps c') ->
      (forall p, p < length (c_steps c) -> step_rel slots p (nth p (c_steps c) d) (nth p (c_steps c') d)) ->
      Forall2 hook_rel (c_hooks c) (c_hooks c') ->
      c_bufs c = c_bufs c' -> c_rng c = c_rng c' ->
      run1 slots times u0 c = run1 slots times u0 c'.
    Proof. intros. unfold run1. erewrite run_entry_frame; eauto. Qed.

    (* when every slot is active, a step enters only through its carried fields *)
    Corollary rerun_equal_all_active : forall times u0 (c c' : Ctrl) (d : Stp),
      length (c_steps c) = length (c_steps c') ->
      (forall p, p < length (c_steps c) -> carried_step (nth p (c_steps c) d) = carried_step (nth p (c_steps c') d)) ->
      Forall2 hook_rel (c_hooks c) (c_hooks c') ->
      c_bufs c = c_bufs c' -> c_rng c = c_rng c' ->
      run1 (seq 0 (length (c_steps c))) times u0 c = run1 (seq 0 (length (c_steps c))) times u0 c'.
    Proof.
      intros times u0 c c' d HL HS HH HB HR. apply rerun_equal with (d := d); auto.
      intros p Hp. unfold step_rel.
      pose proof (index_of_seq (length (c_steps c)) 0 p Hp) as E. simpl in E. rewrite E. apply HS; auto.
    Qed.
  End Body.
End PersistProofs.

(* ------------------------------------------------------------------------------------------- *)
(* dead fields: u_avg / residual / increment lists and the hooks' restart counter survive a run but
   are overwritten before they are read (compute_residual assigns L.residual as a whole; every hook
   sets __num_restarts in pre_run before the first add_to_stats).  A body that does not read them is
   a function of the erased state. *)

Section Erase.
  Variable D : Type.
  Notation Stp := (Stp D).
  Notation Ctrl := (Ctrl D).

  Definition erase_lev (l : Lev D) : Lev D := mkLev (lv_stat l) (lv_data l) (lv_tag l) [] (lv_nn l).
  Definition erase_step (s : Stp) : Stp := mkStp (st_stat s) (map erase_lev (st_levels s)) (st_prev s).
  Definition erase_hook (h : Hook) : Hook := mkHook (hk_stats h) None (hk_priv h).
  Definition erase (c : Ctrl) : Ctrl := mkCtrl (map erase_step (c_steps c)) (map erase_hook (c_hooks c)) (c_bufs c) (c_rng c).

  (* the live carried fields of a step *)
  Definition live_step (s : Stp) :=
    (ss_pred_cnt (st_stat s), ss_force_continue (st_stat s), ss_diff_old_loc (st_stat s), ss_diff_first_loc (st_stat s),
     ss_restarts_in_a_row (st_stat s), map (@lv_nn D) (st_levels s)).

  Lemma mapi_from_map : forall A B C (f : nat -> B -> C) (g : A -> B) l k,
    mapi_from k f (map g l) = mapi_from k (fun i x => f i (g x)) l.
  Proof. induction l; simpl; intros; f_equal; auto. Qed.

  Lemma map_mapi_from : forall A B C (f : nat -> A -> B) (g : B -> C) l k,
    map g (mapi_from k f l) = mapi_from k (fun i x => g (f i x)) l.
  Proof. induction l; simpl; intros; f_equal; auto. Qed.

  Lemma mapi_from_ext : forall A B (f g : nat -> A -> B) l k,
    (forall i x, f i x = g i x) -> mapi_from k f l = mapi_from k g l.
  Proof. induction l; simpl; intros; f_equal; auto. Qed.

  Lemma erase_reset_step_at : forall slots j p time u0 s,
    erase_step (reset_step_at slots j p time u0 s) = reset_step_at slots j p time u0 (erase_step s).
  Proof.
    intros. destruct s as [o ls pv]. unfold reset_step_at, erase_step. simpl. f_equal.
    unfold mapi. rewrite map_mapi_from, mapi_from_map. apply mapi_from_ext.
    intros i l. destruct (Nat.eqb i 0); reflexivity.
  Qed.

  Lemma erase_run_entry : forall slots times u0 c, erase (run_entry slots times u0 c) = run_entry slots times u0 (erase c).
  Proof.
    intros. destruct c as [steps hooks bufs rng]. unfold run_entry, erase. simpl. f_equal.
    - unfold restart_block, mapi. rewrite map_mapi_from, mapi_from_map. apply mapi_from_ext.
      intros i s. destruct (index_of i slots). apply erase_reset_step_at.
      destruct s; reflexivity.
    - rewrite !map_map. apply map_ext. intros h. reflexivity.
  Qed.

  Lemma live_carried : forall s s', live_step s = live_step s' -> carried_step (erase_step s) = carried_step (erase_step s').
  Proof.
    intros [o ls pv] [o' ls' pv'] H. unfold live_step in H. simpl in H. inversion H as [[H1 H2 H3 H4 H5 H6]].
    unfold carried_step. simpl. rewrite H1, H2, H3, H4, H5. f_equal.
    rewrite !map_map. simpl.
    clear - H6. revert ls' H6. induction ls as [|l r IH]; destruct ls' as [|l' r']; simpl; intros H; try discriminate; auto.
    inversion H. f_equal; auto.
  Qed.

  Lemma nn_reset_levels : forall (time : val) (u0 : D) (ls : list (Lev D)) k,
    map (@lv_nn D) (map erase_lev (mapi_from k (fun i l => let l' := reset_level time l in if Nat.eqb i 0 then set_u0 u0 l' else l') ls))
    = map (@lv_nn D) ls.
  Proof. induction ls; simpl; intros; f_equal; auto. destruct (Nat.eqb k 0); reflexivity. Qed.

  Definition priv_rel (h h' : Hook) : Prop := hk_priv h = hk_priv h'.

  (* live relation between two controllers of the same shape *)
  Definition live_rel (c c' : Ctrl) (d : Stp) : Prop :=
    length (c_steps c) = length (c_steps c') /\
    (forall p, p < length (c_steps c) -> live_step (nth p (c_steps c) d) = live_step (nth p (c_steps c') d)) /\
    Forall2 priv_rel (c_hooks c) (c_hooks c') /\ c_bufs c = c_bufs c' /\ c_rng c = c_rng c'.

  Lemma erase_hooks_rel : forall hs hs', Forall2 priv_rel hs hs' -> Forall2 hook_rel (map erase_hook hs) (map erase_hook hs').
  Proof. induction 1; simpl; constructor; auto. split; simpl; auto. Qed.

  Section Body.
    Variable Res : Type.
    Variable body' : Ctrl -> Res * Ctrl.
    (* the run of a body that does not read the dead fields *)
    Definition run2 (slots : list nat) (times : list val) (u0 : D) (c : Ctrl) : Res * Ctrl :=
      body' (erase (run_entry slots times u0 c)).

    (* rerun_equal, all slots active: the result and the final state of run() do not depend on the
       persistent state the controller starts from, as far as that state agrees on the LIVE carried
       fields (which restart_block does not reset): pred_cnt, force_continue, diff_old_loc,
       diff_first_loc, restarts_in_a_row, the hooks' private attributes, the convergence-controller
       buffers and the sweeper RNG. *)
    Theorem rerun_equal_live : forall times u0 (c c' : Ctrl) (d : Stp),
      live_rel c c' d ->
      run2 (seq 0 (length (c_steps c))) times u0 c = run2 (seq 0 (length (c_steps c))) times u0 c'.
    Proof.
      intros times u0 c c' d (HL & HS & HH & HB & HR). unfold run2. rewrite !erase_run_entry. f_equal.
      apply run_entry_frame with (d := erase_step d); simpl; auto.
      - rewrite !map_length. exact HL.
      - rewrite map_length. intros p Hp. unfold step_rel.
        pose proof (index_of_seq (length (c_steps c)) 0 p Hp) as E. simpl in E. rewrite E.
        rewrite !(map_nth erase_step). apply live_carried. apply HS. exact Hp.
      - apply erase_hooks_rel. exact HH.
    Qed.

    (* contract of a fixed-step run whose sweepers do not draw random numbers: the live carried fields
       are left as it found them (force_continue is cleared by every check_iteration_status,
       restarts_in_a_row is 0 after every block without restart, the buffers are reset after every
       it_check, pred_cnt / diff_* are never written by controller_nonMPI) and the shape is kept *)
    Hypothesis body_keeps_live : forall e d, live_rel (snd (body' e)) e d.

    Lemma live_rel_trans : forall a b c d, live_rel a b d -> live_rel b c d -> live_rel a c d.
    Proof.
      intros a b c d (L1 & S1 & H1 & B1 & R1) (L2 & S2 & H2 & B2 & R2). repeat split; try congruence.
      - intros p Hp. rewrite S1 by exact Hp. apply S2. rewrite <- L1. exact Hp.
      - clear - H1 H2. revert H2. generalize (c_hooks c). induction H1; intros l2 H2; inversion H2; subst; constructor.
        unfold priv_rel in *. congruence. auto.
    Qed.

    Lemma live_rel_entry : forall slots times u0 c d, live_rel (erase (run_entry slots times u0 c)) c d.
    Proof.
      intros slots times u0 [steps hooks bufs rng] d. unfold live_rel, erase, run_entry. simpl.
      rewrite map_length. unfold restart_block, mapi. rewrite mapi_from_length.
      repeat split; auto.
      - intros p Hp.
        assert (G : forall l k q dd, q < length l ->
                  live_step (nth q (map erase_step (mapi_from k (fun p0 s => match index_of p0 slots with
                       | Some j => reset_step_at slots j p0 (nth p0 times None) u0 s
                       | None => clear_restart s end) l)) dd) = live_step (nth q l dd)).
        { induction l as [|s r IH]; simpl; intros k q dd Hq. lia.
          destruct q as [|q].
          - destruct (index_of k slots); destruct s as [o ls pv]; unfold live_step; simpl; f_equal.
            + apply nn_reset_levels.
            + rewrite map_map. reflexivity.
          - apply IH. lia. }
        apply G. exact Hp.
      - clear. induction hooks; simpl; constructor; auto. reflexivity.
    Qed.

    (* any history of fixed-step runs (each with all slots active) leaves the controller related to
       the one it started from; hence a later run gives the result a fresh controller gives *)
    Fixpoint history (c : Ctrl) (inputs : list (list val * D)) : Ctrl :=
      match inputs with
      | [] => c
      | (times, u0) :: r => history (snd (run2 (seq 0 (length (c_steps c))) times u0 c)) r
      end.

    Lemma history_live : forall inputs c d, live_rel (history c inputs) c d.
    Proof.
      induction inputs as [|[times u0] r IH]; intros c d; simpl.
      - destruct c. unfold live_rel. simpl. repeat split; auto.
        clear. induction c_hooks; constructor; auto. reflexivity.
      - eapply live_rel_trans. apply IH.
        eapply live_rel_trans. apply body_keeps_live. apply live_rel_entry.
    Qed.

    Theorem rerun_equal_after_history : forall inputs times u0 (c0 : Ctrl) (d : Stp),
      fst (run2 (seq 0 (length (c_steps c0))) times u0 (history c0 inputs)) =
      fst (run2 (seq 0 (length (c_steps c0))) times u0 c0).
    Proof.
      intros. pose proof (history_live inputs c0 d) as H.
      assert (HL : length (c_steps (history c0 inputs)) = length (c_steps c0)) by (destruct H; auto).
      rewrite <- HL. rewrite (rerun_equal_live times u0 _ _ d H). reflexivity.
    Qed.
  End Body.
End Erase.

(* ------------------------------------------------------------------------------------------- *)
(* the premises of rerun_equal are necessary: refutations of the unconditional statement *)

Definition ex_fresh2 : Ctrl unit := fresh_ctrl 2 [3] 1 [vFalse; vFalse] 1984%Z.
(* the same controller after a run in which both steps were active: step 1 still says last = True *)
Definition ex_used2 : Ctrl unit :=
  let s1 := nth 1 (c_steps (run_entry [0; 1] [Some 0%Z; Some 1%Z] tt ex_fresh2)) (fresh_step [3]) in
  mkCtrl [fresh_step [3]; s1] (c_hooks ex_fresh2) (c_bufs ex_fresh2) (c_rng ex_fresh2).
(* a body that reads status.last of step 1 (as LogGlobalErrorPostRun.post_run does for every step) *)
Definition ex_body_last (e : Ctrl unit) : val * Ctrl unit := (ss_last (st_stat (nth 1 (c_steps e) (fresh_step []))), e).

(* one active slot out of two: the stale status of the INACTIVE step reaches the body *)
Theorem rerun_equal_refuted_stale_inactive :
  (forall p, p < 2 -> carried_step (nth p (c_steps ex_fresh2) (fresh_step [])) = carried_step (nth p (c_steps ex_used2) (fresh_step []))) /\
  c_hooks ex_fresh2 = c_hooks ex_used2 /\ c_bufs ex_fresh2 = c_bufs ex_used2 /\ c_rng ex_fresh2 = c_rng ex_used2 /\
  fst (run1 unit val ex_body_last [0] [Some 0%Z; Some 1%Z] tt ex_fresh2) <>
  fst (run1 unit val ex_body_last [0] [Some 0%Z; Some 1%Z] tt ex_used2).
Proof.
  repeat split.
  - intros p Hp. destruct p as [|[|p]]; try lia; reflexivity.
  - vm_compute. discriminate.
Qed.

(* the sweeper RNG is carried and never re-seeded: a body that draws from it (initial_guess='random')
   gives different results on a used controller *)
Definition ex_body_rng (e : Ctrl unit) : Z * Ctrl unit :=
  (c_rng e, mkCtrl (c_steps e) (c_hooks e) (c_bufs e) (c_rng e + 1)%Z).

Theorem rerun_equal_refuted_rng :
  let c1 := snd (run2 unit Z ex_body_rng [0; 1] [Some 0%Z; Some 1%Z] tt ex_fresh2) in
  fst (run2 unit Z ex_body_rng [0; 1] [Some 0%Z; Some 1%Z] tt c1) <>
  fst (run2 unit Z ex_body_rng [0; 1] [Some 0%Z; Some 1%Z] tt ex_fresh2).
Proof. vm_compute. discriminate. Qed.

(* non-vacuity of rerun_equal_after_history: a body satisfying the contract, a non-empty history *)
Definition ex_body_ok (e : Ctrl unit) : list (SStat) * Ctrl unit := (map (@st_stat unit) (c_steps e), e).

Lemma ex_body_ok_keeps_live : forall e d, live_rel unit (snd (ex_body_ok e)) e d.
Proof.
  intros e d. simpl. unfold live_rel. repeat split; auto.
  induction (c_hooks e); constructor; auto. reflexivity.
Qed.

Example rerun_after_history_nonvacuous :
  fst (run2 unit _ ex_body_ok [0; 1] [Some 5%Z; Some 6%Z] tt
         (history unit _ ex_body_ok ex_fresh2 [([Some 0%Z; Some 1%Z], tt); ([Some 2%Z; Some 3%Z], tt)])) =
  fst (run2 unit _ ex_body_ok [0; 1] [Some 5%Z; Some 6%Z] tt ex_fresh2).
Proof. exact (rerun_equal_after_history unit _ ex_body_ok ex_body_ok_keeps_live _ _ tt ex_fresh2 (fresh_step [])). Qed.

(* ------------------------------------------------------------------------------------------- *)
(* Part 3: controllers in one process *)

Lemma upd_comm : forall A (l : list A) i j x y, i <> j -> upd (upd l i x) j y = upd (upd l j y) i x.
Proof.
  induction l as [|a r IH]; intros i j x y H; destruct i, j; simpl; auto; try congruence.
  f_equal. apply IH. congruence.
Qed.

Lemma nth_upd_other : forall A (l : list A) i j x d, i <> j -> nth j (upd l i x) d = nth j l d.
Proof.
  induction l as [|a r IH]; intros i j x d H; destruct i, j; simpl; auto; try congruence.
Qed.

Section WorldProofs.
  Variable D : Type.
  Variable Res : Type.
  Variable runc : nat -> Global -> Ctrl D -> Res * Ctrl D * Global.
  Variable dfl : Ctrl D.

  (* controller i neither reads nor writes the class-level component *)
  Definition global_pure (i : nat) : Prop :=
    forall g g2 c, snd (runc i g c) = g /\ fst (runc i g2 c) = fst (runc i g c).

  Notation run_in := (run_in runc).

  (* instance-level state: a run of controller i leaves every other controller object untouched *)
  Lemma run_in_other : forall i j w, i <> j -> nth j (w_ctrls (snd (run_in i dfl w))) dfl = nth j (w_ctrls w) dfl.
  Proof.
    intros i j w H. unfold Rerun.run_in. destruct (runc i (w_g w) (nth i (w_ctrls w) dfl)) as [[r c'] g'].
    simpl. apply nth_upd_other. exact H.
  Qed.

  (* two_controllers_independent: runs of two controllers that do not use class-level state commute —
     each gets the result it gets alone and the process ends in the same state *)
  Theorem two_controllers_independent : forall i j w, i <> j -> global_pure i -> global_pure j ->
    let '(ri, w1) := run_in i dfl w in let '(rj, w2) := run_in j dfl w1 in
    let '(rj', w1') := run_in j dfl w in let '(ri', w2') := run_in i dfl w1' in
    ri = ri' /\ rj = rj' /\ w2 = w2'.
  Proof.
    intros i j [g cs] Hij Pi Pj. unfold Rerun.run_in. simpl.
    destruct (runc i g (nth i cs dfl)) as [[ri ci] gi] eqn:Ei. simpl.
    rewrite (nth_upd_other _ cs i j ci dfl Hij).
    destruct (runc j gi (nth j cs dfl)) as [[rj cj] gj] eqn:Ej.
    destruct (runc j g (nth j cs dfl)) as [[rj' cj'] gj'] eqn:Ej'. simpl.
    rewrite (nth_upd_other _ cs j i cj' dfl (not_eq_sym Hij)).
    destruct (runc i gj' (nth i cs dfl)) as [[ri' ci'] gi'] eqn:Ei'.
    destruct (Pi g gj' (nth i cs dfl)) as [A1 A2]. destruct (Pi gj' g (nth i cs dfl)) as [A3 _].
    destruct (Pj g gi (nth j cs dfl)) as [B1 B2]. destruct (Pj gi g (nth j cs dfl)) as [B3 _].
    rewrite Ei in A1, A2. rewrite Ei' in A2, A3. rewrite Ej in B2, B3. rewrite Ej' in B1, B2.
    simpl in *. subst. inversion A2; inversion B2; subst. repeat split.
    f_equal. apply upd_comm. exact Hij.
  Qed.
End WorldProofs.

(* the exception made explicit: a hook that reads and bumps a CLASS attribute (LogToPickleFile.counter,
   `type(self).counter += 1`) makes the result of one controller depend on the runs of another *)
Definition ex_runc_pickle (i : nat) (g : Global) (c : Ctrl unit) : nat * Ctrl unit * Global :=
  (g_pickle_counter g, c, mkGlobal (g_step_attrs g) (g_level_attrs g) (S (g_pickle_counter g))).

Theorem two_controllers_independent_refuted_class_counter :
  let w := mkWorld (mkGlobal [] [] 0) [ex_fresh2; ex_fresh2] in
  fst (run_in ex_runc_pickle 1 ex_fresh2 (snd (run_in ex_runc_pickle 0 ex_fresh2 w))) <> fst (run_in ex_runc_pickle 1 ex_fresh2 w).
Proof. vm_compute. discriminate. Qed.

(* FrozenClass.add_attr appends to a CLASS-level list: creating a controller whose convergence
   controllers register status variables changes what every other controller's status objects accept *)
Definition add_attr (key : Z) (attrs : list Z) : list Z := if existsb (Z.eqb key) attrs then attrs else attrs ++ [key].
Definition allowed (key : Z) (declared attrs : list Z) : bool := existsb (Z.eqb key) attrs || existsb (Z.eqb key) declared.

Lemma add_attr_monotone : forall k key declared attrs, allowed k declared attrs = true -> allowed k declared (add_attr key attrs) = true.
Proof.
  intros k key declared attrs H. unfold allowed, add_attr in *. destruct (existsb (Z.eqb key) attrs); auto.
  rewrite existsb_app. apply orb_true_iff in H. destruct H as [H|H]; rewrite H; simpl; auto. apply orb_true_r.
Qed.

Example add_attr_leaks : allowed 7 [1; 2]%Z [] = false /\ allowed 7 [1; 2]%Z (add_attr 7 []) = true.
Proof. split; reflexivity. Qed.

(* ------------------------------------------------------------------------------------------- *)
(* Part 5: frame condition for caller-owned dicts shared between constructions *)

Section ConstructProofs.
  Variable Descr Ctl : Type.
  Variable build : Descr -> Ctl * Descr.
  Variable eqv : Descr -> Descr -> Prop.          (* the two dicts agree on everything a construction reads *)
  Hypothesis build_ext : forall d d', eqv d d' -> fst (build d) = fst (build d').
  (* FRAME: what a construction leaves in the caller's dicts is equivalent to what it found
     (it may add defaults it would compute anyway, it may not record decisions) *)
  Hypothesis build_frame : forall d, eqv (snd (build d)) d.

  Theorem shared_description_frame : forall (edit : Descr -> Descr),
    (forall d d', eqv d d' -> eqv (edit d) (edit d')) ->
    forall d, build_after Descr Ctl build edit d = fst (build (edit d)).
  Proof. intros edit He d. unfold build_after. apply build_ext. apply He. apply build_frame. Qed.
End ConstructProofs.

(* instance: the hook list of the unchanged Controller.__init__ satisfies the frame condition
   although the list object in the caller's dict grows by [DefaultHooks, CPUTimings] on every construction *)
Definition hooks_eqv (a b : list nat) : Prop := dedup_acc [] (0 :: 1 :: a) = dedup_acc [] (0 :: 1 :: b).

Lemma build_hooks_ext : forall a b, hooks_eqv a b -> fst (build_hooks a) = fst (build_hooks b).
Proof. intros a b H. exact H. Qed.

Lemma build_hooks_frame : forall a, hooks_eqv (snd (build_hooks a)) a.
Proof. intros a. unfold hooks_eqv, build_hooks. simpl. reflexivity. Qed.

Example shared_hook_list_nonvacuous : forall user,
  build_after _ _ build_hooks (fun l => l) user = fst (build_hooks user).
Proof.
  intros. apply (shared_description_frame _ _ build_hooks hooks_eqv build_hooks_ext build_hooks_frame (fun l => l)). auto.
Qed.

(* a construction that RECORDS hooks registered by convergence controllers in the caller's list violates the frame *)
Definition build_hooks_recording (registered : list nat) (user : list nat) : list nat * list nat :=
  let written := 0 :: 1 :: user ++ registered in (dedup_acc [] written, written).
Example recording_breaks_frame :
  fst (build_hooks_recording [] (snd (build_hooks_recording [7] [5]))) <> fst (build_hooks_recording [] [5]).
Proof. vm_compute. discriminate. Qed.
