(* C15 — ParaDiag: proofs about Model/ParaDiag.v.

   Part 1 (Section Theory): for EVERY field (field_theory, Leibniz equality), every size N > 0:
     finite sums, geometric sum, orthogonality of the powers of a primitive N-th root of unity,
     wifft_wfft / wfft_wifft   the weighted transforms are inverse to each other,
     E_wifft, diagonalisation  (F J^-1) E_alpha (J conj F) = diag(-gamma om^l),
     G_diag_is_dfac            the factor get_G_inv_matrix computes by an FFT of a column is that d_l,
     G_Ginv / Ginv_G           closed form of the inverse of G = d H + I,
     one_shot                  QDiagonalization.update_nodes solves (G (x) I - dt Q (x) A) x = r,
     increment_solves_circulant_system, fixed_point_is_sequential (and the full_ versions with the
     concrete transforms): the increment of one ParaDiag iteration solves the alpha-circulant
     all-at-once system exactly; a zero increment implies the sequential collocation recurrences;
     error_equation            one iteration maps the error e to e' with C_alpha e' = (C_alpha - C_0) e.
   Part 2: the Gaussian rationals form a field; executable instances of all hypotheses. *)
From Coq Require Import Arith Bool List Lia Field Ring QArith Qcanon Lqa.
From PySDC Require Import Model.ParaDiag.
Import ListNotations.

Section Theory.
Variable F : Type.
Variables (f0 f1 : F) (fadd fmul fsub : F -> F -> F) (fopp : F -> F) (fdiv : F -> F -> F) (finv : F -> F).
Hypothesis Fth : field_theory f0 f1 fadd fmul fsub fopp fdiv finv (@eq F).
Add Field Ffield : Fth.

Notation "0" := f0. Notation "1" := f1.
Infix "+" := fadd. Infix "*" := fmul. Infix "-" := fsub. Infix "/" := fdiv.
Notation "- x" := (fopp x).
Notation sum := (sumn F f0 fadd).
Notation "x ^ n" := (fpow F f1 fmul x n).
Notation dl := (delta F f0 f1).
Notation mm := (mmul F f0 fadd fmul).

Lemma sum_ext n f g : (forall k, (k < n)%nat -> f k = g k) -> sum n f = sum n g.
Proof. induction n; simpl; intros H; [reflexivity|]. rewrite IHn, H by (intros; auto with arith). reflexivity. Qed.

Lemma sum_zero n : sum n (fun _ => 0) = 0.
Proof. induction n; simpl; [reflexivity|]. rewrite IHn. ring. Qed.

Lemma sum_add n f g : sum n (fun k => f k + g k) = sum n f + sum n g.
Proof. induction n; simpl; [ring|]. rewrite IHn. ring. Qed.

Lemma sum_sub n f g : sum n (fun k => f k - g k) = sum n f - sum n g.
Proof. induction n; simpl; [ring|]. rewrite IHn. ring. Qed.

Lemma sum_scal n c f : sum n (fun k => c * f k) = c * sum n f.
Proof. induction n; simpl; [ring|]. rewrite IHn. ring. Qed.

Lemma sum_scal_r n c f : sum n (fun k => f k * c) = sum n f * c.
Proof. induction n; simpl; [ring|]. rewrite IHn. ring. Qed.

Lemma sum_swap n m (f : nat -> nat -> F) :
  sum n (fun i => sum m (fun j => f i j)) = sum m (fun j => sum n (fun i => f i j)).
Proof.
  induction n; simpl.
  - symmetry. apply sum_zero.
  - rewrite IHn. rewrite <- sum_add. reflexivity.
Qed.

Lemma sum_single n j f : (j < n)%nat -> (forall k, (k < n)%nat -> k <> j -> f k = 0) -> sum n f = f j.
Proof.
  induction n; intros Hj H; [lia|]. simpl.
  destruct (Nat.eq_dec j n) as [->|Hne].
  - rewrite (sum_ext n f (fun _ => 0)), sum_zero by (intros; apply H; lia). ring.
  - rewrite IHn by (try lia; intros; apply H; lia). rewrite (H n) by lia. ring.
Qed.

Lemma pow_add x a b : x ^ (a + b) = x ^ a * x ^ b.
Proof. induction a; simpl; [ring|]. rewrite IHa. ring. Qed.

Lemma pow_mul x a b : x ^ (a * b) = (x ^ a) ^ b.
Proof.
  induction b; simpl. { rewrite Nat.mul_0_r. reflexivity. }
  rewrite Nat.mul_succ_r, pow_add, IHb. ring.
Qed.

Lemma pow_one n : 1 ^ n = 1.
Proof. induction n; simpl; [reflexivity|]. rewrite IHn. ring. Qed.

Lemma pow_mul_distr x y n : (x * y) ^ n = x ^ n * y ^ n.
Proof. induction n; simpl; [ring|]. rewrite IHn. ring. Qed.

Lemma mul_zero_r a b : a * b = 0 -> a <> 0 -> b = 0.
Proof. intros H Ha. assert (b = (1 / a) * (a * b)) as -> by (field; exact Ha). rewrite H. ring. Qed.

Lemma one_neq_zero : 1 <> 0.
Proof. exact (F_1_neq_0 Fth). Qed.

Lemma geom x n : (x - 1) * sum n (fun k => x ^ k) = x ^ n - 1.
Proof. induction n; simpl; [ring|]. 
  assert ((x - 1) * (sum n (fun k => x ^ k) + x ^ n) = (x - 1) * sum n (fun k => x ^ k) + (x-1) * x^n) as -> by ring.
  rewrite IHn. ring. Qed.

Lemma root_sum x n : x ^ n = 1 -> x <> 1 -> sum n (fun k => x ^ k) = 0.
Proof.
  intros Hn Hx. apply (mul_zero_r (x - 1)).
  - rewrite geom, Hn. ring.
  - intros E. apply Hx. assert (x = (x - 1) + 1) as -> by ring. rewrite E. ring.
Qed.


(* ------------------------------------------------------------------ matrices *)
Lemma mm_ext n A B A' B' i j :
  (forall k, (k < n)%nat -> A i k = A' i k) -> (forall k, (k < n)%nat -> B k j = B' k j) ->
  mm n A B i j = mm n A' B' i j.
Proof. intros HA HB. unfold mmul. apply sum_ext. intros k Hk. rewrite HA, HB by exact Hk. reflexivity. Qed.

Lemma mm_assoc n A B C i j : mm n (mm n A B) C i j = mm n A (mm n B C) i j.
Proof.
  unfold mmul.
  rewrite (sum_ext n _ (fun k => sum n (fun k0 => A i k0 * B k0 k * C k j)))
    by (intros; rewrite <- sum_scal_r; reflexivity).
  rewrite sum_swap. apply sum_ext. intros k Hk. rewrite <- sum_scal. apply sum_ext. intros; ring.
Qed.

Lemma sum_delta_l n i f : (i < n)%nat -> sum n (fun k => dl i k * f k) = f i.
Proof.
  intros Hi. rewrite (sum_single n i) by (try assumption; intros k Hk Hne; unfold delta;
    destruct (Nat.eqb_spec i k); try congruence; ring).
  unfold delta. rewrite Nat.eqb_refl. ring.
Qed.

Lemma sum_delta_r n j f : (j < n)%nat -> sum n (fun k => f k * dl k j) = f j.
Proof.
  intros Hi. rewrite (sum_single n j) by (try assumption; intros k Hk Hne; unfold delta;
    destruct (Nat.eqb_spec k j); try congruence; ring).
  unfold delta. rewrite Nat.eqb_refl. ring.
Qed.

(* ------------------------------------------------------------------ roots of unity *)
Section Roots.
Variable N : nat.
Variables s om omi g gi alpha : F.
Hypothesis HN : (0 < N)%nat.
Hypothesis Hom : om * omi = 1.
Hypothesis HomN : om ^ N = 1.
Hypothesis Hprim : forall j, (0 < j < N)%nat -> om ^ j <> 1.
Hypothesis Hs : s * s * sum N (fun _ => 1) = 1.
Hypothesis Hg : g * gi = 1.
Hypothesis HgN : g ^ N = alpha.

Lemma inv_pair_pow x y k : x * y = 1 -> x ^ k * y ^ k = 1.
Proof. intros H. rewrite <- pow_mul_distr, H. apply pow_one. Qed.

Lemma omiN : omi ^ N = 1.
Proof. assert (H := inv_pair_pow om omi N Hom). rewrite HomN in H. transitivity (1 * omi ^ N); [ring|exact H]. Qed.

Lemma omi_prim j : (0 < j < N)%nat -> omi ^ j <> 1.
Proof.
  intros Hj E. apply (Hprim j Hj). assert (H := inv_pair_pow om omi j Hom). rewrite E in H.
  transitivity (om ^ j * 1); [ring|exact H].
Qed.

Lemma nonzero_of_inv x y : x * y = 1 -> y <> 0.
Proof. intros H E. rewrite E in H. apply one_neq_zero. transitivity (x * 0); [symmetry; exact H|ring]. Qed.

Lemma inv_pow k : 1 / (gi ^ k) = g ^ k.
Proof.
  assert (H := inv_pair_pow g gi k Hg).
  assert (Hnz := nonzero_of_inv _ _ H).
  assert (g ^ k = (g ^ k * gi ^ k) / gi ^ k) as -> by (field; exact Hnz).
  rewrite H. reflexivity.
Qed.

Lemma ortho j l : (j < N)%nat -> (l < N)%nat ->
  sum N (fun k => om ^ (j * k) * omi ^ (l * k)) = if Nat.eqb j l then sum N (fun _ => 1) else 0.
Proof.
  intros Hj Hl. destruct (Nat.eqb_spec j l) as [->|Hne].
  - apply sum_ext. intros k _. apply inv_pair_pow, Hom.
  - destruct (Nat.lt_ge_cases l j) as [Hlt|Hge].
    + rewrite (sum_ext N _ (fun k => (om ^ (j - l)) ^ k)).
      * apply root_sum.
        -- rewrite <- pow_mul, Nat.mul_comm, pow_mul, HomN. apply pow_one.
        -- apply Hprim. lia.
      * intros k _. replace (j * k)%nat with ((j - l) * k + l * k)%nat by nia.
        rewrite pow_add, <- pow_mul.
        assert (H := inv_pair_pow om omi (l * k) Hom).
        transitivity (om ^ ((j - l) * k) * (om ^ (l * k) * omi ^ (l * k))); [ring|]. rewrite H. ring.
    + rewrite (sum_ext N _ (fun k => (omi ^ (l - j)) ^ k)).
      * apply root_sum.
        -- rewrite <- pow_mul, Nat.mul_comm, pow_mul, omiN. apply pow_one.
        -- apply omi_prim. lia.
      * intros k _. replace (l * k)%nat with ((l - j) * k + j * k)%nat by nia.
        rewrite pow_add, <- pow_mul.
        assert (H := inv_pair_pow om omi (j * k) Hom).
        transitivity (omi ^ ((l - j) * k) * (om ^ (j * k) * omi ^ (j * k))); [ring|]. rewrite H. ring.
Qed.

Notation W := (wfft F f0 f1 fadd fmul fdiv N s om gi).
Notation V := (wifft F f0 f1 fadd fmul N s omi gi).
Notation Wc := (wfft_cf F f1 fmul fdiv s om gi).
Notation Vc := (wifft_cf F f1 fmul s omi gi).
Notation E := (E_mat F f0 f1 fopp N alpha).
Notation dfac := (d_fac F f1 fmul fopp fdiv om gi).

(* the products with the diagonal matrices J^-1 and J, as the code forms them, have the closed forms *)
Lemma wfft_closed j k : (k < N)%nat -> W j k = Wc j k.
Proof.
  intros Hk. unfold wfft, mmul, wfft_cf.
  rewrite (sum_single N k) by (try assumption; intros m Hm Hne; unfold Jinv_mat;
    destruct (Nat.eqb_spec m k); try congruence; ring).
  unfold Jinv_mat, fft_mat. rewrite Nat.eqb_refl. reflexivity.
Qed.

Lemma wifft_closed j k : (j < N)%nat -> V j k = Vc j k.
Proof.
  intros Hk. unfold wifft, mmul, wifft_cf.
  rewrite (sum_single N j) by (try assumption; intros m Hm Hne; unfold J_mat;
    destruct (Nat.eqb_spec j m); try congruence; ring).
  unfold J_mat, ifft_mat. rewrite Nat.eqb_refl. reflexivity.
Qed.

Lemma sN_delta j l : s * s * (if Nat.eqb j l then sum N (fun _ => 1) else 0) = dl j l.
Proof. unfold delta. destruct (Nat.eqb j l); [exact Hs|ring]. Qed.

(* (J conj F) (F J^-1) = I *)
Lemma wifft_wfft j l : (j < N)%nat -> (l < N)%nat -> mm N V W j l = dl j l.
Proof.
  intros Hj Hl.
  rewrite (mm_ext N V W Vc Wc) by (intros; auto using wifft_closed, wfft_closed).
  unfold mmul, wifft_cf, wfft_cf.
  rewrite (sum_ext N _ (fun k => (gi ^ j * g ^ l * (s * s)) * (om ^ (l * k) * omi ^ (j * k)))).
  2:{ intros k _. rewrite inv_pow, (Nat.mul_comm k l). ring. }
  rewrite sum_scal, ortho by assumption.
  transitivity (gi ^ j * g ^ l * (s * s * (if Nat.eqb l j then sum N (fun _ => 1) else 0))); [ring|].
  rewrite sN_delta. unfold delta. rewrite (Nat.eqb_sym l j). destruct (Nat.eqb_spec j l) as [->|]; [|ring].
  assert (H := inv_pair_pow g gi l Hg). transitivity (g ^ l * gi ^ l); [ring|exact H].
Qed.

(* (F J^-1) (J conj F) = I *)
Lemma wfft_wifft j l : (j < N)%nat -> (l < N)%nat -> mm N W V j l = dl j l.
Proof.
  intros Hj Hl.
  rewrite (mm_ext N W V Wc Vc) by (intros; auto using wifft_closed, wfft_closed).
  unfold mmul, wifft_cf, wfft_cf.
  rewrite (sum_ext N _ (fun k => (s * s) * (om ^ (j * k) * omi ^ (l * k)))).
  2:{ intros k _. rewrite inv_pow, (Nat.mul_comm k l).
      assert (H := inv_pair_pow g gi k Hg).
      transitivity ((g ^ k * gi ^ k) * (s * s * (om ^ (j * k) * omi ^ (l * k)))); [ring|]. rewrite H. ring. }
  rewrite sum_scal, ortho by assumption. apply sN_delta.
Qed.


Lemma inv_gi : 1 / gi = g.
Proof.
  assert (Hnz := nonzero_of_inv _ _ Hg).
  assert (g = (g * gi) / gi) as -> by (field; exact Hnz). rewrite Hg. reflexivity.
Qed.

Lemma omi_wrap N' l : N = S N' -> omi ^ (N' * l) = om ^ l.
Proof.
  intros HN'.
  assert (H1 : omi ^ (N' * l) * omi ^ l = 1).
  { rewrite <- pow_add. replace (N' * l + l)%nat with (l * N)%nat by nia.
    rewrite Nat.mul_comm, pow_mul, omiN. apply pow_one. }
  assert (H2 := inv_pair_pow om omi l Hom).
  transitivity (omi ^ (N' * l) * (om ^ l * omi ^ l)); [rewrite H2; ring|].
  transitivity (om ^ l * (omi ^ (N' * l) * omi ^ l)); [ring|]. rewrite H1. ring.
Qed.

(* E_alpha (J conj F) = (J conj F) diag(d): the columns of the weighted iFFT are eigenvectors *)
Lemma E_wifft k l : (k < N)%nat -> (l < N)%nat -> mm N E V k l = V k l * dfac l.
Proof.
  intros Hk Hl. rewrite (wifft_closed k l Hk).
  rewrite (mm_ext N E V E Vc k l) by (intros; auto using wifft_closed).
  unfold mmul, d_fac. rewrite inv_gi.
  destruct k as [|k'].
  - destruct (Nat.lt_exists_pred 0 N HN) as [N' [EN _]].
    rewrite (sum_single N N').
    + unfold E_mat. simpl (Nat.eqb 0 0). destruct (Nat.eqb_spec (S N') N) as [_|Hc]; [|congruence].
      simpl andb. cbv iota.
      unfold wifft_cf. rewrite (omi_wrap N' l EN). simpl Nat.mul. simpl (gi ^ 0). simpl (omi ^ 0).
      rewrite <- HgN. rewrite EN. simpl (g ^ S N').
      assert (H := inv_pair_pow g gi N' Hg).
      transitivity (- (g * (g ^ N' * gi ^ N') * (om ^ l * s))); [ring|]. rewrite H. ring.
    + lia.
    + intros m Hm Hne. unfold E_mat. simpl (Nat.eqb 0 0).
      destruct (Nat.eqb_spec (S m) N); [lia|]. simpl. ring.
  - rewrite (sum_single N k').
    + unfold E_mat. simpl (Nat.eqb (S k') 0). simpl andb. cbv iota. rewrite Nat.eqb_refl.
      unfold wifft_cf. replace (S k' * l)%nat with (l + k' * l)%nat by lia. rewrite pow_add.
      simpl (gi ^ S k').
      assert (H := inv_pair_pow om omi l Hom).
      transitivity (- ((g * gi) * (om ^ l * omi ^ l) * (gi ^ k' * (omi ^ (k' * l) * s)))); [|ring].
      rewrite Hg, H. ring.
    + lia.
    + intros m Hm Hne. unfold E_mat. simpl (Nat.eqb (S k') 0). simpl andb. cbv iota.
      destruct (Nat.eqb_spec (S k') (S m)); [congruence|]. ring.
Qed.

(* (F J^-1) E_alpha (J conj F) = diag(d_l),  d_l = -gamma om^l *)
Lemma diagonalisation j l : (j < N)%nat -> (l < N)%nat ->
  mm N (mm N W E) V j l = if Nat.eqb j l then dfac l else 0.
Proof.
  intros Hj Hl. rewrite mm_assoc.
  rewrite (mm_ext N W (mm N E V) W (fun k l => V k l * dfac l) j l)
    by (intros; auto using E_wifft).
  transitivity (mm N W V j l * dfac l).
  - unfold mmul. rewrite <- sum_scal_r. apply sum_ext. intros; ring.
  - rewrite wfft_wifft by assumption. unfold delta. destruct (Nat.eqb j l); ring.
Qed.

Notation Gd := (G_diag F f0 f1 fadd fmul fopp fdiv N alpha om gi).

(* the factor get_G_inv_matrix computes (FFT of the weighted first column of E_alpha) is d_l *)
Lemma G_diag_is_dfac l : (l < N)%nat -> Gd l = dfac l.
Proof.
  intros Hl. unfold G_diag, d_fac. rewrite inv_gi.
  destruct (Nat.eq_dec N 1) as [E1|E1].
  - rewrite (sum_single N 0) by (try lia; intros; lia).
    unfold E_mat. simpl (Nat.eqb 0 0). destruct (Nat.eqb_spec 1 N); [|lia]. simpl andb. cbv iota.
    rewrite inv_pow. simpl (g ^ 0). simpl (om ^ (0 * l)).
    assert (l = 0)%nat as -> by lia. simpl (om ^ 0).
    rewrite <- HgN, E1. simpl. ring.
  - rewrite (sum_single N 1).
    + unfold E_mat. simpl (Nat.eqb 1 0). simpl andb. cbv iota. simpl (Nat.eqb 1 1). cbv iota.
      rewrite inv_pow. simpl (g ^ 1). rewrite Nat.mul_1_l. ring.
    + lia.
    + intros k Hk Hne. unfold E_mat.
      destruct k as [|[|k]]; [|congruence|].
      * simpl (Nat.eqb 0 0). destruct (Nat.eqb_spec 1 N); [lia|]. simpl. ring.
      * simpl. ring.
Qed.

End Roots.

(* ------------------------------------------------------------------ G and its inverse *)
Notation Hm := (H_mat F f0 f1).
Notation Gm := (G_mat F f0 f1 fadd fmul).
Notation Gi := (G_inv_cf F f0 f1 fadd fmul fsub fdiv).

Lemma H_is_delta M i j : Hm M i j = dl (S j) M.
Proof. reflexivity. Qed.

Lemma sum_lastcol M (f : nat -> F) : (0 < M)%nat -> sum M (fun k => dl (S k) M * f k) = f (pred M).
Proof.
  intros HM. rewrite (sum_single M (pred M)).
  - unfold delta. destruct (Nat.eqb_spec (S (pred M)) M); [ring|lia].
  - lia.
  - intros k Hk Hne. unfold delta. destruct (Nat.eqb_spec (S k) M); [lia|ring].
Qed.

Lemma G_Ginv M d i j : (0 < M)%nat -> 1 + d <> 0 -> (i < M)%nat -> (j < M)%nat ->
  mm M (Gm M d) (Gi M d) i j = dl i j.
Proof.
  intros HM Hd Hi Hj. unfold mmul, G_mat, G_inv_cf, H_mat.
  rewrite (sum_ext M _ (fun k => dl (S k) M * (d * (dl k j - d / (1 + d) * dl (S j) M))
                                 + dl i k * (dl k j - d / (1 + d) * dl (S j) M)))
    by (intros; unfold delta; ring).
  rewrite sum_add, sum_lastcol, sum_delta_l by assumption.
  unfold delta. destruct (Nat.eqb_spec (pred M) j), (Nat.eqb_spec (S j) M), (Nat.eqb_spec i j);
    try lia; field; exact Hd.
Qed.

Lemma Ginv_G M d i j : (0 < M)%nat -> 1 + d <> 0 -> (i < M)%nat -> (j < M)%nat ->
  mm M (Gi M d) (Gm M d) i j = dl i j.
Proof.
  intros HM Hd Hi Hj. unfold mmul, G_mat, G_inv_cf, H_mat.
  rewrite (sum_ext M _ (fun k => dl (S k) M * (- (d / (1 + d)) * (d * dl (S j) M + dl k j))
                                 + dl i k * (d * dl (S j) M + dl k j)))
    by (intros; unfold delta; ring).
  rewrite sum_add, sum_lastcol, sum_delta_l by assumption.
  unfold delta. destruct (Nat.eqb_spec (pred M) j), (Nat.eqb_spec (S j) M), (Nat.eqb_spec i j);
    try lia; field; exact Hd.
Qed.


(* ------------------------------------------------------------------ one step: QDiagonalization *)
Notation mv := (mat_vec F f0 fadd fmul).
Notation appA := (apply_A F f0 fadd fmul).

Lemma mv_ext M A A' v v' m i :
  (forall j, (j < M)%nat -> A m j = A' m j) -> (forall j, (j < M)%nat -> v j i = v' j i) ->
  mv M A v m i = mv M A' v' m i.
Proof. intros HA Hv. unfold mat_vec. apply sum_ext. intros j Hj. rewrite HA, Hv by exact Hj. reflexivity. Qed.

Lemma mv_mv M A B v m i : mv M A (mv M B v) m i = mv M (mm M A B) v m i.
Proof.
  unfold mat_vec, mmul.
  rewrite (sum_ext M _ (fun j => sum M (fun k => A m j * B j k * v k i)))
    by (intros; rewrite <- sum_scal; apply sum_ext; intros; ring).
  rewrite sum_swap. apply sum_ext. intros k _. rewrite <- sum_scal_r. reflexivity.
Qed.

Lemma mv_delta M v m i : (m < M)%nat -> mv M dl v m i = v m i.
Proof. intros Hm. unfold mat_vec. apply (sum_delta_l M m (fun j => v j i)). exact Hm. Qed.

Lemma appA_ext n A v v' i : (forall j, (j < n)%nat -> v j = v' j) -> appA n A v i = appA n A v' i.
Proof. intros H. unfold apply_A. apply sum_ext. intros j Hj. rewrite H by exact Hj. reflexivity. Qed.

Lemma appA_zero n A v i : (forall j, (j < n)%nat -> v j = 0) -> appA n A v i = 0.
Proof.
  intros H. unfold apply_A. rewrite (sum_ext n _ (fun _ => 0)) by (intros j Hj; rewrite H by exact Hj; ring).
  apply sum_zero.
Qed.

(* A commutes with linear combinations over the nodes *)
Lemma appA_mv n A M B v m i :
  appA n A (mv M B v m) i = mv M B (fun j => appA n A (v j)) m i.
Proof.
  unfold apply_A, mat_vec.
  rewrite (sum_ext n _ (fun p => sum M (fun j => A i p * (B m j * v j p))))
    by (intros; rewrite <- sum_scal; reflexivity).
  rewrite sum_swap. apply sum_ext. intros j _. rewrite <- sum_scal. apply sum_ext. intros; ring.
Qed.

(* the local operator of step l in Fourier space:  (G (x) I - dt Q (x) A) x  *)
Definition Kop (M n : nat) (dt : F) (Q A G : mat F) (x : nodesv F) : nodesv F :=
  fun m i => mv M G x m i - sum M (fun j => (dt * Q m j) * appA n A (x j) i).

Section OneShot.
Variables (M n : nat) (dt : F) (Q A G Ginv Sm Smi : mat F) (w : nat -> F) (solve : F -> vec F -> vec F).
(* contracts of numpy.linalg.eig / inv in computeDiagonalization, of sparse inv in get_G_inv_matrix *)
Hypothesis HSS : forall i j, (i < M)%nat -> (j < M)%nat -> mm M Sm Smi i j = dl i j.
Hypothesis Heig : forall i j, (i < M)%nat -> (j < M)%nat -> mm M (mm M Q Ginv) Sm i j = Sm i j * w j.
Hypothesis HGG : forall i j, (i < M)%nat -> (j < M)%nat -> mm M G Ginv i j = dl i j.
(* contract of problem.solve_jacobian for the linear problem u' = A u: (I - factor A) x = rhs *)
Hypothesis Hsolve : forall m rhs i, (m < M)%nat -> (i < n)%nat ->
  solve (w m * dt) rhs i - (w m * dt) * appA n A (solve (w m * dt) rhs) i = rhs i.

Notation upd := (qdiag_update F f0 fadd fmul M dt w Sm Smi Ginv solve).

Lemma one_shot r m i : (m < M)%nat -> (i < n)%nat -> Kop M n dt Q A G (upd r) m i = r m i.
Proof.
  intros Hm Hi. unfold Kop, qdiag_update.
  set (x1 := mv M Smi r). set (x2 := fun m0 => solve (w m0 * dt) (x1 m0)).
  set (z := mv M Sm x2).
  rewrite mv_mv. rewrite (mv_ext M _ dl z z m i) by (intros; auto). rewrite mv_delta by exact Hm.
  set (a := fun p => appA n A (x2 p)).
  assert (Hy : forall j, appA n A (mv M Ginv z j) i = mv M (mm M Ginv Sm) a j i).
  { intros j. rewrite appA_mv.
    rewrite (mv_ext M Ginv Ginv _ (mv M Sm a) j i); [apply mv_mv|reflexivity|].
    intros k _. unfold z. apply appA_mv. }
  rewrite (sum_ext M _ (fun j => dt * (Q m j * mv M (mm M Ginv Sm) a j i)))
    by (intros j _; rewrite Hy; ring).
  rewrite sum_scal.
  change (sum M (fun j => Q m j * mv M (mm M Ginv Sm) a j i)) with (mv M Q (mv M (mm M Ginv Sm) a) m i).
  rewrite mv_mv.
  rewrite (mv_ext M _ (fun i j => Sm i j * w j) a a m i)
    by (intros; try reflexivity; rewrite <- mm_assoc; apply Heig; assumption).
  transitivity (mv M Sm x1 m i).
  - unfold z, mat_vec. rewrite <- sum_scal, <- sum_sub. apply sum_ext. intros p Hp.
    rewrite <- (Hsolve p (x1 p) i Hp Hi). unfold a, x2. ring.
  - unfold x1. rewrite mv_mv. rewrite (mv_ext M _ dl r r m i) by (intros; auto). apply mv_delta, Hm.
Qed.

End OneShot.


(* ------------------------------------------------------------------ block of L steps *)
Notation apm := (apply_matrix F f0 fadd fmul).

Lemma apm_is_mv L T x l m i : apm L T x l m i = mv L T (fun l' => x l' m) l i.
Proof. reflexivity. Qed.

(* every step satisfies its collocation problem with the end value of the previous step (the last
   node: RADAU-RIGHT, no collocation update) as initial value: sequential collocation time stepping *)
Definition seq_collocation (L M n : nat) (dt : F) (Q A : mat F) (g : stepsv F) (u0 : vec F) (u : stepsv F) : Prop :=
  forall l m i, (l < L)%nat -> (m < M)%nat -> (i < n)%nat ->
    u l m i = step_ic F M u0 u l i + sum M (fun j => (dt * Q m j) * (appA n A (u l j) i + g l j i)).

Section Block.
Variables (L M n : nat) (dt : F) (Q A As : mat F) (g : stepsv F) (W V E H : mat F) (d : nat -> F).
Variables (w : nat -> nat -> F) (Sm Smi G Ginv : nat -> mat F) (solve : F -> vec F -> vec F) (u0 : vec F).
Hypothesis HVW : forall j l, (j < L)%nat -> (l < L)%nat -> mm L V W j l = dl j l.
Hypothesis HEV : forall k l, (k < L)%nat -> (l < L)%nat -> mm L E V k l = V k l * d l.
Hypothesis HG : forall l i j, (l < L)%nat -> (i < M)%nat -> (j < M)%nat -> G l i j = d l * H i j + dl i j.
Hypothesis HSS : forall l i j, (l < L)%nat -> (i < M)%nat -> (j < M)%nat -> mm M (Sm l) (Smi l) i j = dl i j.
Hypothesis Heig : forall l i j, (l < L)%nat -> (i < M)%nat -> (j < M)%nat ->
  mm M (mm M Q (Ginv l)) (Sm l) i j = Sm l i j * w l j.
Hypothesis HGG : forall l i j, (l < L)%nat -> (i < M)%nat -> (j < M)%nat -> mm M (G l) (Ginv l) i j = dl i j.
Hypothesis Hsolve : forall l m rhs i, (l < L)%nat -> (m < M)%nat -> (i < n)%nat ->
  solve (w l m * dt) rhs i - (w l m * dt) * appA n As (solve (w l m * dt) rhs) i = rhs i.

Notation res := (block_residual F f0 fadd fmul fsub M n dt Q A g u0).
Notation incr := (paradiag_increment F f0 fadd fmul fsub L M n dt Q A g W V w Sm Smi Ginv solve u0).

(* The increment of one ParaDiag iteration solves the alpha-circulant all-at-once system
     (I (x) (I - dt Q (x) As) + E (x) H) inc = r     exactly. *)
Lemma increment_solves_circulant_system u l m i : (l < L)%nat -> (m < M)%nat -> (i < n)%nat ->
  incr u l m i - sum M (fun j => (dt * Q m j) * appA n As (incr u l j) i)
    + sum L (fun l' => E l l' * mv M H (incr u l') m i) = res u l m i.
Proof.
  intros Hl Hm Hi. unfold paradiag_increment.
  set (r := res u). set (rhat := apm L W r).
  set (xhat := fun k => qdiag_update F f0 fadd fmul M dt (w k) (Sm k) (Smi k) (Ginv k) solve (rhat k)).
  assert (Hone : forall k, (k < L)%nat -> Kop M n dt Q As (G k) (xhat k) m i = rhat k m i).
  { intros k Hk. apply one_shot; auto. }
  set (X := fun k => xhat k m i).
  set (A2 := fun k => sum M (fun j => (dt * Q m j) * appA n As (xhat k j) i)).
  set (H3 := fun k => mv M H (xhat k) m i).
  assert (T1 : apm L V xhat l m i = sum L (fun k => V l k * X k)) by reflexivity.
  assert (T2 : sum M (fun j => (dt * Q m j) * appA n As (apm L V xhat l j) i) = sum L (fun k => V l k * A2 k)).
  { rewrite (sum_ext M _ (fun j => sum L (fun k => V l k * ((dt * Q m j) * appA n As (xhat k j) i)))).
    - rewrite sum_swap. apply sum_ext. intros k _. unfold A2. rewrite <- sum_scal. reflexivity.
    - intros j _.
      rewrite (appA_mv n As L (fun _ k => V l k) (fun k => xhat k j) 0%nat i : 
                 appA n As (apm L V xhat l j) i = _).
      unfold mat_vec. rewrite <- sum_scal. apply sum_ext. intros; ring. }
  assert (T3a : forall l', mv M H (apm L V xhat l') m i = sum L (fun k => V l' k * H3 k)).
  { intros l'. unfold mat_vec, apply_matrix.
    rewrite (sum_ext M _ (fun j => sum L (fun k => H m j * (V l' k * xhat k j i))))
      by (intros; rewrite <- sum_scal; reflexivity).
    rewrite sum_swap. apply sum_ext. intros k _. unfold H3, mat_vec. rewrite <- sum_scal.
    apply sum_ext. intros; ring. }
  assert (T3 : sum L (fun l' => E l l' * mv M H (apm L V xhat l') m i) = sum L (fun k => V l k * (d k * H3 k))).
  { rewrite (sum_ext L _ (fun l' => sum L (fun k => E l l' * V l' k * H3 k))).
    - rewrite sum_swap. apply sum_ext. intros k Hk. rewrite sum_scal_r.
      change (sum L (fun i0 => E l i0 * V i0 k)) with (mm L E V l k). rewrite HEV by assumption. ring.
    - intros l' _. rewrite T3a, <- sum_scal. apply sum_ext. intros; ring. }
  rewrite T1, T2, T3, <- sum_sub, <- sum_add.
  rewrite (sum_ext L _ (fun k => V l k * rhat k m i)).
  - change (sum L (fun k => V l k * rhat k m i)) with (mv L V (mv L W (fun l' => r l' m)) l i).
    rewrite mv_mv. rewrite (mv_ext L _ dl _ (fun l' => r l' m) l i) by (intros; auto).
    apply (mv_delta L (fun l' => r l' m) l i Hl).
  - intros k Hk. rewrite <- (Hone k Hk). unfold Kop.
    rewrite (mv_ext M (G k) (fun i j => d k * H i j + dl i j) (xhat k) (xhat k) m i) by (intros; auto).
    unfold X, A2, H3, mat_vec.
    rewrite (sum_ext M (fun j => (d k * H m j + dl m j) * xhat k j i)
                       (fun j => d k * (H m j * xhat k j i) + dl m j * xhat k j i)) by (intros; ring).
    rewrite sum_add, sum_scal, (sum_delta_l M m (fun j => xhat k j i) Hm). ring.
Qed.

(* A fixed point of the ParaDiag iteration (zero increment) has zero all-at-once residual ... *)
Lemma fixed_point_residual u :
  (forall l m i, (l < L)%nat -> (m < M)%nat -> (i < n)%nat -> incr u l m i = 0) ->
  forall l m i, (l < L)%nat -> (m < M)%nat -> (i < n)%nat -> res u l m i = 0.
Proof.
  intros H0 l m i Hl Hm Hi. rewrite <- increment_solves_circulant_system by assumption.
  rewrite H0 by assumption.
  rewrite (sum_ext M _ (fun _ => 0)), sum_zero.
  2:{ intros j Hj. rewrite appA_zero; [ring|]. intros p Hp. apply H0; assumption. }
  rewrite (sum_ext L _ (fun _ => 0)), sum_zero; [ring|].
  intros l' Hl'. unfold mat_vec. rewrite (sum_ext M _ (fun _ => 0)), sum_zero; [ring|].
  intros j Hj. rewrite H0 by assumption. ring.
Qed.

(* ... hence satisfies the sequential collocation recurrences *)
Lemma fixed_point_is_sequential u :
  (forall l m i, (l < L)%nat -> (m < M)%nat -> (i < n)%nat -> incr u l m i = 0) ->
  seq_collocation L M n dt Q A g u0 u.
Proof.
  intros H0 l m i Hl Hm Hi. assert (Hr := fixed_point_residual u H0 l m i Hl Hm Hi).
  unfold block_residual, residual in Hr.
  set (s := sum M (fun j => (dt * Q m j) * (appA n A (u l j) i + g l j i))) in *.
  transitivity (u l m i + (s + (step_ic F M u0 u l i - u l m i))); [rewrite Hr; ring|ring].
Qed.

End Block.


(* ------------------------------------------------------------------ everything together *)
Section Full.
Variables (N M n : nat) (s om omi g gi alpha dt : F) (Q A As : mat F) (gf : stepsv F).
Variables (w : nat -> nat -> F) (Sm Smi Ginv : nat -> mat F) (solve : F -> vec F -> vec F) (u0 : vec F).
Hypothesis HN : (0 < N)%nat.
Hypothesis Hom : om * omi = 1.
Hypothesis HomN : om ^ N = 1.
Hypothesis Hprim : forall j, (0 < j < N)%nat -> om ^ j <> 1.
Hypothesis Hs : s * s * sum N (fun _ => 1) = 1.
Hypothesis Hg : g * gi = 1.
Hypothesis HgN : g ^ N = alpha.
Notation W := (wfft F f0 f1 fadd fmul fdiv N s om gi).
Notation V := (wifft F f0 f1 fadd fmul N s omi gi).
Notation E := (E_mat F f0 f1 fopp N alpha).
Notation dfac := (d_fac F f1 fmul fopp fdiv om gi).
Notation Gl := (fun l => G_mat F f0 f1 fadd fmul M (dfac l)).
Hypothesis HSS : forall l i j, (l < N)%nat -> (i < M)%nat -> (j < M)%nat -> mm M (Sm l) (Smi l) i j = dl i j.
Hypothesis Heig : forall l i j, (l < N)%nat -> (i < M)%nat -> (j < M)%nat ->
  mm M (mm M Q (Ginv l)) (Sm l) i j = Sm l i j * w l j.
Hypothesis HGG : forall l i j, (l < N)%nat -> (i < M)%nat -> (j < M)%nat -> mm M (Gl l) (Ginv l) i j = dl i j.
Hypothesis Hsolve : forall l m rhs i, (l < N)%nat -> (m < M)%nat -> (i < n)%nat ->
  solve (w l m * dt) rhs i - (w l m * dt) * appA n As (solve (w l m * dt) rhs) i = rhs i.

Notation res := (block_residual F f0 fadd fmul fsub M n dt Q A gf u0).
Notation incr := (paradiag_increment F f0 fadd fmul fsub N M n dt Q A gf W V w Sm Smi Ginv solve u0).

Lemma full_increment_solves_alpha_system u l m i : (l < N)%nat -> (m < M)%nat -> (i < n)%nat ->
  incr u l m i - sum M (fun j => (dt * Q m j) * appA n As (incr u l j) i)
    + sum N (fun l' => E l l' * mv M (Hm M) (incr u l') m i) = res u l m i.
Proof.
  intros. apply (increment_solves_circulant_system N M n dt Q A As gf W V E (Hm M) dfac w Sm Smi Gl Ginv solve u0);
    auto.
  - intros. apply (wifft_wfft N s om omi g gi); auto.
  - intros. apply (E_wifft N s om omi g gi alpha); auto.
Qed.

Lemma full_fixed_point_is_sequential u :
  (forall l m i, (l < N)%nat -> (m < M)%nat -> (i < n)%nat -> incr u l m i = 0) ->
  seq_collocation N M n dt Q A gf u0 u.
Proof.
  apply (fixed_point_is_sequential N M n dt Q A As gf W V E (Hm M) dfac w Sm Smi Gl Ginv solve u0); auto.
  - intros. apply (wifft_wfft N s om omi g gi); auto.
  - intros. apply (E_wifft N s om omi g gi alpha); auto.
Qed.

End Full.

(* ------------------------------------------------------------------ error propagation of one iteration *)
Lemma appA_add n A x y i : appA n A (fun p => x p + y p) i = appA n A x i + appA n A y i.
Proof. unfold apply_A. rewrite <- sum_add. apply sum_ext. intros; ring. Qed.

Lemma appA_sub n A x y i : appA n A (fun p => x p - y p) i = appA n A x i - appA n A y i.
Proof. unfold apply_A. rewrite <- sum_sub. apply sum_ext. intros; ring. Qed.

Lemma mv_H M x m i : (0 < M)%nat -> mv M (Hm M) x m i = x (pred M) i.
Proof. intros HM. unfold mat_vec, H_mat. apply (sum_lastcol M (fun j => x j i) HM). Qed.

(* row l of E_alpha applied to a vector: the alpha-weighted wrap-around in row 0, the predecessor below *)
Lemma E_row N alpha (f : nat -> F) l : (l < N)%nat ->
  sum N (fun l' => E_mat F f0 f1 fopp N alpha l l' * f l') =
  match l with O => - (alpha * f (pred N)) | S p => - f p end.
Proof.
  intros Hl. destruct l as [|p].
  - rewrite (sum_single N (pred N)).
    + unfold E_mat. simpl (Nat.eqb 0 0). destruct (Nat.eqb_spec (S (pred N)) N); [|lia]. simpl andb. cbv iota. ring.
    + lia.
    + intros k Hk Hne. unfold E_mat. simpl (Nat.eqb 0 0). destruct (Nat.eqb_spec (S k) N); [lia|]. simpl. ring.
  - rewrite (sum_single N p).
    + unfold E_mat. simpl (Nat.eqb (S p) 0). simpl andb. cbv iota. rewrite Nat.eqb_refl. ring.
    + lia.
    + intros k Hk Hne. unfold E_mat. simpl (Nat.eqb (S p) 0). simpl andb. cbv iota.
      destruct (Nat.eqb_spec (S p) (S k)); [congruence|]. ring.
Qed.

Section ErrorEquation.
Variables (N M n : nat) (s om omi g gi alpha dt : F) (Q A : mat F) (gf : stepsv F).
Variables (w : nat -> nat -> F) (Sm Smi Ginv : nat -> mat F) (solve : F -> vec F -> vec F) (u0 : vec F).
Hypothesis HN : (0 < N)%nat.
Hypothesis HM : (0 < M)%nat.
Hypothesis Hom : om * omi = 1.
Hypothesis HomN : om ^ N = 1.
Hypothesis Hprim : forall j, (0 < j < N)%nat -> om ^ j <> 1.
Hypothesis Hs : s * s * sum N (fun _ => 1) = 1.
Hypothesis Hg : g * gi = 1.
Hypothesis HgN : g ^ N = alpha.
Notation W := (wfft F f0 f1 fadd fmul fdiv N s om gi).
Notation V := (wifft F f0 f1 fadd fmul N s omi gi).
Notation E := (E_mat F f0 f1 fopp N alpha).
Notation dfac := (d_fac F f1 fmul fopp fdiv om gi).
Notation Gl := (fun l => G_mat F f0 f1 fadd fmul M (dfac l)).
Hypothesis HSS : forall l i j, (l < N)%nat -> (i < M)%nat -> (j < M)%nat -> mm M (Sm l) (Smi l) i j = dl i j.
Hypothesis Heig : forall l i j, (l < N)%nat -> (i < M)%nat -> (j < M)%nat ->
  mm M (mm M Q (Ginv l)) (Sm l) i j = Sm l i j * w l j.
Hypothesis HGG : forall l i j, (l < N)%nat -> (i < M)%nat -> (j < M)%nat -> mm M (Gl l) (Ginv l) i j = dl i j.
Hypothesis Hsolve : forall l m rhs i, (l < N)%nat -> (m < M)%nat -> (i < n)%nat ->
  solve (w l m * dt) rhs i - (w l m * dt) * appA n A (solve (w l m * dt) rhs) i = rhs i.

(* the alpha-circulant all-at-once operator  I (x) (I - dt Q (x) A) + E_alpha (x) H *)
Definition Calpha (x : stepsv F) : stepsv F := fun l m i =>
  x l m i - sum M (fun j => (dt * Q m j) * appA n A (x l j) i)
    + sum N (fun l' => E l l' * mv M (Hm M) (x l') m i).

Notation iter := (paradiag_iter F f0 fadd fmul fsub N M n dt Q A gf W V w Sm Smi Ginv solve u0).
Notation incr := (paradiag_increment F f0 fadd fmul fsub N M n dt Q A gf W V w Sm Smi Ginv solve u0).

(* Let ustar be the sequential collocation solution.  One ParaDiag iteration maps the error e = u - ustar
   to e' with   C_alpha e' = (C_alpha - C_0) e,   i.e. zero except in the first step, where it is
   -alpha times the error at the end of the block.  (For alpha -> 0 one iteration is exact; errors at
   the end of the block equal to zero give the exact solution after one iteration.) *)
Lemma error_equation ustar u :
  seq_collocation N M n dt Q A gf u0 ustar ->
  forall l m i, (l < N)%nat -> (m < M)%nat -> (i < n)%nat ->
  Calpha (fun l m i => iter u l m i - ustar l m i) l m i =
  match l with O => - (alpha * (u (pred N) (pred M) i - ustar (pred N) (pred M) i)) | S _ => 0 end.
Proof.
  intros Hseq l m i Hl Hmn Hi.
  set (e := fun l m i => u l m i - ustar l m i).
  assert (Hinc := full_increment_solves_alpha_system N M n s om omi g gi alpha dt Q A A gf w Sm Smi Ginv solve u0
                    HN Hom HomN Hprim Hs Hg HgN HSS Heig HGG Hsolve u l m i Hl Hmn Hi).
  assert (Hlin : Calpha (fun l m i => iter u l m i - ustar l m i) l m i = Calpha e l m i + Calpha (incr u) l m i).
  { unfold Calpha, paradiag_iter.
    rewrite (sum_ext M (fun j => dt * Q m j * appA n A (fun i0 => u l j i0 + incr u l j i0 - ustar l j i0) i)
                       (fun j => dt * Q m j * appA n A (e l j) i + dt * Q m j * appA n A (incr u l j) i)).
    2:{ intros j _. rewrite (appA_ext n A _ (fun p => e l j p + incr u l j p)) by (intros; unfold e; ring).
        rewrite appA_add. ring. }
    rewrite (sum_ext N (fun l' => E l l' * mv M (Hm M) (fun m0 i0 => u l' m0 i0 + incr u l' m0 i0 - ustar l' m0 i0) m i)
                       (fun l' => E l l' * mv M (Hm M) (e l') m i + E l l' * mv M (Hm M) (incr u l') m i)).
    2:{ intros l' _. rewrite !mv_H by exact HM. unfold e. ring. }
    rewrite !sum_add. unfold e. ring. }
  rewrite Hlin. unfold Calpha at 2. rewrite Hinc.
  (* the residual of u in terms of the error *)
  assert (Hres : block_residual F f0 fadd fmul fsub M n dt Q A gf u0 u l m i =
                 sum M (fun j => (dt * Q m j) * appA n A (e l j) i)
                 + (step_ic F M u0 u l i - step_ic F M u0 ustar l i) - e l m i).
  { unfold block_residual, residual.
    assert (Hs2 : sum M (fun j => dt * Q m j * appA n A (e l j) i) =
            sum M (fun j => dt * Q m j * (appA n A (u l j) i + gf l j i))
            - sum M (fun j => dt * Q m j * (appA n A (ustar l j) i + gf l j i))).
    { rewrite <- sum_sub. apply sum_ext. intros j _. unfold e. rewrite appA_sub. ring. }
    rewrite Hs2. unfold e. rewrite (Hseq l m i Hl Hmn Hi). ring. }
  rewrite Hres. unfold Calpha.
  rewrite (sum_ext N (fun l' => E l l' * mv M (Hm M) (e l') m i) (fun l' => E l l' * e l' (pred M) i))
    by (intros; rewrite mv_H by exact HM; reflexivity).
  rewrite (E_row N alpha (fun l' => e l' (pred M) i) l Hl).
  destruct l as [|p]; unfold step_ic, uend, e; ring.
Qed.

End ErrorEquation.

(* ------------------------------------------------------------------ sweeper state: set_G_inv is a function of its argument only *)
Section SetGinv.
Variable eig : mat F -> (nat -> F) * mat F * mat F.
Notation setG := (set_G_inv F f0 fadd fmul eig).
Notation qst := (qd_state F).

(* frame: the state after set_G_inv g does not depend on the state before *)
Lemma set_G_inv_frame M Q (st st' : qst) g : setG M Q st g = setG M Q st' g.
Proof. reflexivity. Qed.

Lemma set_G_inv_stores M Q (st : qst) g : st_Ginv F (setG M Q st g) = g.
Proof. unfold set_G_inv. destruct (eig _) as [[w Sm] Smi]. reflexivity. Qed.

Lemma set_G_inv_last_wins M Q (st : qst) g1 g2 : setG M Q (setG M Q st g1) g2 = setG M Q st g2.
Proof. reflexivity. Qed.

Lemma set_G_inv_idempotent M Q (st : qst) g : setG M Q (setG M Q st g) g = setG M Q st g.
Proof. reflexivity. Qed.

(* whatever the sweeper was configured with before: after set_G_inv g (g an inverse of G, eig fulfilling its
   contract on Q g) one update_nodes solves the local system of G *)
Lemma one_shot_after_set_G_inv M n dt Q A G g solve (st : qst) :
  (let '(w, Sm, Smi) := eig (mm M Q g) in
     (forall i j, (i < M)%nat -> (j < M)%nat -> mm M Sm Smi i j = dl i j) /\
     (forall i j, (i < M)%nat -> (j < M)%nat -> mm M (mm M Q g) Sm i j = Sm i j * w j) /\
     (forall m rhs i, (m < M)%nat -> (i < n)%nat ->
        solve (w m * dt) rhs i - (w m * dt) * appA n A (solve (w m * dt) rhs) i = rhs i)) ->
  (forall i j, (i < M)%nat -> (j < M)%nat -> mm M G g i j = dl i j) ->
  forall r m i, (m < M)%nat -> (i < n)%nat ->
  Kop M n dt Q A G (update_nodes_st F f0 fadd fmul M dt (setG M Q st g) solve r) m i = r m i.
Proof.
  unfold update_nodes_st, set_G_inv. destruct (eig (mm M Q g)) as [[w Sm] Smi].
  intros [HSS [Heig Hsolve]] HGG r m i Hmn Hi. cbn [st_w st_S st_Si st_Ginv].
  apply (one_shot M n dt Q A G g Sm Smi w solve); auto.
Qed.
End SetGinv.

End Theory.

(* ------------------------------------------------------------------ the Gaussian rationals are a field *)

Lemma this_plus (x y : Qc) : (this (x + y)%Qc == this x + this y)%Q.
Proof. unfold Qcplus, Q2Qc. cbn [this]. apply Qred_correct. Qed.
Lemma this_mult (x y : Qc) : (this (x * y)%Qc == this x * this y)%Q.
Proof. unfold Qcmult, Q2Qc. cbn [this]. apply Qred_correct. Qed.

Lemma Qc_sq_sum_zero (a b : Qc) : (a * a + b * b = 0 -> a = 0 /\ b = 0)%Qc.
Proof.
  intros H. assert (Hq : (this (a * a + b * b)%Qc == this 0%Qc)%Q) by (rewrite H; reflexivity).
  rewrite this_plus, !this_mult in Hq. change (this 0%Qc) with 0%Q in Hq.
  split; apply Qc_is_canon; simpl; nra.
Qed.

Lemma gq_eq (x y : GQ) : fst x = fst y -> snd x = snd y -> x = y.
Proof. destruct x, y; simpl; intros; subst; reflexivity. Qed.

Lemma GQ_field : field_theory g0 g1 gadd gmul gsub gopp gdiv ginv (@eq GQ).
Proof.
  constructor.
  - constructor; intros; apply gq_eq; destruct x; try destruct y; try destruct z; simpl; ring.
  - intros H. apply (f_equal fst) in H. simpl in H. discriminate H.
  - reflexivity.
  - intros [a b] Hp.
    assert (Hn : gnorm2 (a, b) <> 0%Qc).
    { unfold gnorm2; simpl. intros E. apply Qc_sq_sum_zero in E. destruct E; subst. apply Hp. reflexivity. }
    unfold gnorm2 in Hn; simpl in Hn.
    apply gq_eq; unfold gmul, ginv, g1, gnorm2; cbn [fst snd]. all: field; exact Hn.
Qed.

Add Field GQfield : GQ_field.

Lemma gout_inj (x y : GQ) : gout x = gout y -> x = y.
Proof.
  destruct x as [a b], y as [c d]. unfold gout; simpl. intros H. injection H as H1 H2.
  f_equal; apply Qc_is_canon; [rewrite H1|rewrite H2]; reflexivity.
Qed.

Ltac gq_compute := apply gout_inj; vm_compute; reflexivity.
Ltac gq_neq := let H := fresh in intros H; apply (f_equal gout) in H; vm_compute in H; discriminate H.

Definition gq (a b c d : Z) (p q : positive) : GQ := (Q2Qc (a # p), Q2Qc (c # q)).
Definition gqr (a : Z) (p : positive) : GQ := (Q2Qc (a # p), 0%Qc).

Notation gsum := (sumn GQ g0 gadd).
Notation gpow := (fpow GQ g1 gmul).
Notation gmm := (mmul GQ g0 gadd gmul).
Notation gdl := (delta GQ g0 g1).

(* ---- instance 1: N = 4, om = -i, s = 1/2, gamma = 1/2, alpha = 1/16: the hypotheses on the roots hold *)
Definition i4_s := gqr 1 2.   Definition i4_om := gopp gI.   Definition i4_omi := gI.
Definition i4_g := gqr 1 2.   Definition i4_gi := gqr 2 1.   Definition i4_alpha := gqr 1 16.

Lemma i4_Hom : gmul i4_om i4_omi = g1. Proof. gq_compute. Qed.
Lemma i4_HomN : gpow i4_om 4 = g1. Proof. gq_compute. Qed.
Lemma i4_Hprim : forall j, (0 < j < 4)%nat -> gpow i4_om j <> g1.
Proof. intros j Hj. destruct j as [|[|[|[|j]]]]; try lia; gq_neq. Qed.
Lemma i4_Hs : gmul (gmul i4_s i4_s) (gsum 4 (fun _ => g1)) = g1. Proof. gq_compute. Qed.
Lemma i4_Hg : gmul i4_g i4_gi = g1. Proof. gq_compute. Qed.
Lemma i4_HgN : gpow i4_g 4 = i4_alpha. Proof. gq_compute. Qed.

Definition i4_W := wfft GQ g0 g1 gadd gmul gdiv 4 i4_s i4_om i4_gi.
Definition i4_V := wifft GQ g0 g1 gadd gmul 4 i4_s i4_omi i4_gi.
Definition i4_E := E_mat GQ g0 g1 gopp 4 i4_alpha.
Definition i4_d := d_fac GQ g1 gmul gopp gdiv i4_om i4_gi.

(* the theorems specialise to this instance ... *)
Lemma i4_inverse j l : (j < 4)%nat -> (l < 4)%nat -> gmm 4 i4_V i4_W j l = gdl j l.
Proof.
  apply (wifft_wfft GQ g0 g1 gadd gmul gsub gopp gdiv ginv GQ_field 4 i4_s i4_om i4_omi i4_g i4_gi);
    auto using i4_Hom, i4_HomN, i4_Hprim, i4_Hs, i4_Hg with arith.
Qed.

Lemma i4_diagonalisation j l : (j < 4)%nat -> (l < 4)%nat ->
  gmm 4 (gmm 4 i4_W i4_E) i4_V j l = if Nat.eqb j l then i4_d l else g0.
Proof.
  apply (diagonalisation GQ g0 g1 gadd gmul gsub gopp gdiv ginv GQ_field 4 i4_s i4_om i4_omi i4_g i4_gi i4_alpha);
    auto using i4_Hom, i4_HomN, i4_Hprim, i4_Hs, i4_Hg, i4_HgN with arith.
Qed.

(* ... and the kernel computes the same thing directly: the eigenvalues are -1/2, i/2, 1/2, -i/2 *)
Lemma i4_diagonalisation_computed :
  gq_tab2 4 4 (gmm 4 (gmm 4 i4_W i4_E) i4_V) =
  [[(-1 # 2, 0); (0, 0); (0, 0); (0, 0)]; [(0, 0); (0, 1 # 2); (0, 0); (0, 0)];
   [(0, 0); (0, 0); (1 # 2, 0); (0, 0)]; [(0, 0); (0, 0); (0, 0); (0, -1 # 2)]]%Q.
Proof. vm_compute. reflexivity. Qed.

(* N = 1 special case: E = [-alpha], both transforms are [1], the factor is -alpha *)
Lemma i1_diagonalisation_computed :
  let W := wfft GQ g0 g1 gadd gmul gdiv 1 g1 g1 (gqr 3 1) in
  let V := wifft GQ g0 g1 gadd gmul 1 g1 g1 (gqr 3 1) in
  gq_tab2 1 1 (gmm 1 (gmm 1 W (E_mat GQ g0 g1 gopp 1 (gqr 1 3))) V) = [[(-1 # 3, 0)]]%Q
  /\ gout (G_diag GQ g0 g1 gadd gmul gopp gdiv 1 (gqr 1 3) g1 (gqr 3 1) 0) = (-1 # 3, 0)%Q.
Proof. vm_compute. split; reflexivity. Qed.

(* ---- instance 2: one-shot solve with M = 2 nodes; Q is manufactured from a rational eigen-decomposition
   (the theorem is for every Q), G is the factor matrix of step l = 1 of the N = 4 block above *)
Definition o_M := 2%nat.
Definition o_d := i4_d 1.
Definition o_G := G_mat GQ g0 g1 gadd gmul o_M o_d.
Definition o_Ginv := G_inv_cf GQ g0 g1 gadd gmul gsub gdiv o_M o_d.
Definition o_S : mat GQ := fun i j => match i, j with 0, 0 => gqr 1 1 | 0, 1 => gqr 1 1 | 1, 0 => gqr 1 1 | 1, 1 => gqr 2 1 | _, _ => g0 end%nat.
Definition o_Si : mat GQ := fun i j => match i, j with 0, 0 => gqr 2 1 | 0, 1 => gqr (-1) 1 | 1, 0 => gqr (-1) 1 | 1, 1 => gqr 1 1 | _, _ => g0 end%nat.
Definition o_w : nat -> GQ := fun j => match j with 0 => gqr 1 2 | _ => gqr 1 3 end%nat.
Definition o_Q : mat GQ := gmm 2 (gmm 2 (fun i j => gmul (o_S i j) (o_w j)) o_Si) o_G.
Definition o_dt := gqr 1 5.
Definition o_A : mat GQ := fun _ _ => gqr (-2) 1.
Definition o_solve (fac : GQ) (rhs : vec GQ) : vec GQ := fun i => gdiv (rhs i) (gsub g1 (gmul fac (gqr (-2) 1))).

Ltac two_cases i := destruct i as [|[|i]]; [| |lia].

Lemma o_HSS i j : (i < 2)%nat -> (j < 2)%nat -> gmm 2 o_S o_Si i j = gdl i j.
Proof. intros Hi Hj. two_cases i; two_cases j; gq_compute. Qed.
Lemma o_Heig i j : (i < 2)%nat -> (j < 2)%nat -> gmm 2 (gmm 2 o_Q o_Ginv) o_S i j = gmul (o_S i j) (o_w j).
Proof. intros Hi Hj. two_cases i; two_cases j; gq_compute. Qed.
Lemma o_HGG i j : (i < 2)%nat -> (j < 2)%nat -> gmm 2 o_G o_Ginv i j = gdl i j.
Proof. intros Hi Hj. two_cases i; two_cases j; gq_compute. Qed.
Lemma o_Hsolve m rhs i : (m < 2)%nat -> (i < 1)%nat ->
  gsub (o_solve (gmul (o_w m) o_dt) rhs i)
       (gmul (gmul (o_w m) o_dt) (apply_A GQ g0 gadd gmul 1 o_A (o_solve (gmul (o_w m) o_dt) rhs) i)) = rhs i.
Proof.
  intros Hm Hi. unfold apply_A, o_solve, o_A. cbn [sumn].
  destruct i as [|i]; [|lia].
  two_cases m; cbn [o_w]; field; gq_neq.
Qed.

Lemma o_one_shot_instance : forall r m i, (m < 2)%nat -> (i < 1)%nat ->
  Kop GQ g0 gadd gmul gsub 2 1 o_dt o_Q o_A o_G
      (qdiag_update GQ g0 gadd gmul 2 o_dt o_w o_S o_Si o_Ginv o_solve r) m i = r m i.
Proof.
  intros r m i. apply (one_shot GQ g0 g1 gadd gmul gsub gopp gdiv ginv GQ_field 2 1 o_dt o_Q o_A o_G o_Ginv o_S o_Si o_w o_solve);
    auto using o_HSS, o_Heig, o_HGG, o_Hsolve.
Qed.

(* ---- instance 3: a block of N = 4 implicit-Euler steps (M = 1, Q = [1]) for u' = -u, dt = 1/4 *)
Definition b_dt := gqr 1 4.
Definition b_Q : mat GQ := fun _ _ => g1.
Definition b_A : mat GQ := fun _ _ => gqr (-1) 1.
Definition b_g : stepsv GQ := fun _ _ _ => g0.
Definition b_Ginv (l : nat) : mat GQ := G_inv_cf GQ g0 g1 gadd gmul gsub gdiv 1 (i4_d l).
Definition b_S (l : nat) : mat GQ := gdl.
Definition b_w (l m : nat) : GQ := b_Ginv l 0%nat 0%nat.
Definition b_solve (fac : GQ) (rhs : vec GQ) : vec GQ := fun i => gdiv (rhs i) (gsub g1 (gmul fac (gqr (-1) 1))).
Definition b_u0 : vec GQ := fun _ => g1.
Definition b_incr := paradiag_increment GQ g0 gadd gmul gsub 4 1 1 b_dt b_Q b_A b_g i4_W i4_V b_w b_S b_S b_Ginv b_solve b_u0.
Definition b_iter := paradiag_iters GQ g0 gadd gmul gsub.

Ltac four_cases l := destruct l as [|[|[|[|l]]]]; [| | | |lia].
Ltac one_case i := destruct i as [|i]; [|lia].

Lemma b_HSS l i j : (l < 4)%nat -> (i < 1)%nat -> (j < 1)%nat -> gmm 1 (b_S l) (b_S l) i j = gdl i j.
Proof. intros Hl Hi Hj. one_case i; one_case j. gq_compute. Qed.
Lemma b_Heig l i j : (l < 4)%nat -> (i < 1)%nat -> (j < 1)%nat ->
  gmm 1 (gmm 1 b_Q (b_Ginv l)) (b_S l) i j = gmul (b_S l i j) (b_w l j).
Proof. intros Hl Hi Hj. one_case i; one_case j. four_cases l; gq_compute. Qed.
Lemma b_HGG l i j : (l < 4)%nat -> (i < 1)%nat -> (j < 1)%nat ->
  gmm 1 (G_mat GQ g0 g1 gadd gmul 1 (i4_d l)) (b_Ginv l) i j = gdl i j.
Proof. intros Hl Hi Hj. one_case i; one_case j. four_cases l; gq_compute. Qed.
Lemma b_Hsolve l m rhs i : (l < 4)%nat -> (m < 1)%nat -> (i < 1)%nat ->
  gsub (b_solve (gmul (b_w l m) b_dt) rhs i)
       (gmul (gmul (b_w l m) b_dt) (apply_A GQ g0 gadd gmul 1 b_A (b_solve (gmul (b_w l m) b_dt) rhs) i)) = rhs i.
Proof.
  intros Hl Hm Hi. unfold apply_A, b_solve, b_A. cbn [sumn]. one_case m. one_case i.
  four_cases l; (set (f := gmul (b_w _ 0%nat) b_dt); field; subst f; gq_neq).
Qed.

Lemma b_fixed_point_instance u :
  (forall l m i, (l < 4)%nat -> (m < 1)%nat -> (i < 1)%nat -> b_incr u l m i = g0) ->
  seq_collocation GQ g0 gadd gmul 4 1 1 b_dt b_Q b_A b_g b_u0 u.
Proof.
  apply (full_fixed_point_is_sequential GQ g0 g1 gadd gmul gsub gopp gdiv ginv GQ_field 4 1 1
           i4_s i4_om i4_omi i4_g i4_gi i4_alpha b_dt b_Q b_A b_A b_g b_w b_S b_S b_Ginv b_solve b_u0);
    auto using i4_Hom, i4_HomN, i4_Hprim, i4_Hs, i4_Hg, i4_HgN, b_HSS, b_Heig, b_HGG, b_Hsolve with arith.
Qed.

(* the sequential implicit-Euler values (4/5)^(l+1) are a fixed point: the hypothesis above is satisfiable *)
Definition b_useq : stepsv GQ := fun l _ _ => gpow (gqr 4 5) (S l).
Lemma b_useq_fixed l m i : (l < 4)%nat -> (m < 1)%nat -> (i < 1)%nat -> b_incr b_useq l m i = g0.
Proof. intros Hl Hm Hi. one_case m; one_case i. four_cases l; gq_compute. Qed.

(* ... and the iteration started from the spread initial value approaches it: after 3 iterations the
   squared distance at the end of the block is below 1e-6 (exact rational arithmetic, alpha = 1/16) *)
Definition b_spread : stepsv GQ := fun _ _ _ => g1.
Lemma b_iteration_converges :
  let u3 := b_iter 3 4 1 1 b_dt b_Q b_A b_g i4_W i4_V b_w b_S b_S b_Ginv b_solve b_u0 b_spread in
  (this (gnorm2 (gsub (u3 3 0 0) (b_useq 3 0 0)))%nat < 1 # 1000000)%Q.
Proof. vm_compute. reflexivity. Qed.

(* the error equation specialises to the block instance (its hypotheses are satisfiable) *)
Lemma b_error_equation_instance u l m i : (l < 4)%nat -> (m < 1)%nat -> (i < 1)%nat ->
  Calpha GQ g0 g1 gadd gmul gsub gopp 4 1 1 i4_alpha b_dt b_Q b_A
    (fun l m i => gsub (paradiag_iter GQ g0 gadd gmul gsub 4 1 1 b_dt b_Q b_A b_g i4_W i4_V b_w b_S b_S b_Ginv b_solve b_u0 u l m i)
                       (b_useq l m i)) l m i
  = match l with O => gopp (gmul i4_alpha (gsub (u 3 0 i) (b_useq 3 0 i)))%nat | S _ => g0 end.
Proof.
  intros Hl Hmn Hi.
  apply (error_equation GQ g0 g1 gadd gmul gsub gopp gdiv ginv GQ_field 4 1 1
           i4_s i4_om i4_omi i4_g i4_gi i4_alpha b_dt b_Q b_A b_g b_w b_S b_S b_Ginv b_solve b_u0);
    auto using i4_Hom, i4_HomN, i4_Hprim, i4_Hs, i4_Hg, i4_HgN, b_HSS, b_Heig, b_HGG, b_Hsolve with arith.
  apply b_fixed_point_instance. exact b_useq_fixed.
Qed.
