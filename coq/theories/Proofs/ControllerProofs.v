(* C07 — proofs about Model/Controller.v.
   Part 1: list helpers.  Part 2: generic facts about the loop combinators (frame, tag-match, pointwise
   loop rule).  Part 3: the callback automaton and its soundness w.r.t. the inductive grammar.
   Part 4: effect of every stage method under the block invariant.  Part 5: the theorems. *)
From PySDC Require Import Base.Tactics Model.Controller.
From Coq Require Import Arith.
Import ListNotations.

Set Implicit Arguments.

(* ================================================================== Part 1: helpers *)

Lemma upd_length A i (x : A) l : length (upd i x l) = length l.
Proof. revert i; induction l; destruct i; simpl; auto. Qed.

Lemma nth_upd_eq A i (x d : A) l : i < length l -> nth i (upd i x l) d = x.
Proof. revert i; induction l; destruct i; simpl; intros; try lia; auto. apply IHl; lia. Qed.

Lemma nth_upd_neq A i j (x d : A) l : i <> j -> nth j (upd i x l) d = nth j l d.
Proof. revert i j; induction l; destruct i, j; simpl; intros; try lia; auto. Qed.

Lemma nth_upd A i j (x d : A) l :
  nth j (upd i x l) d = if (j =? i) && (i <? length l) then x else nth j l d.
Proof.
  destruct (Nat.eqb_spec j i) as [->|N]; simpl.
  - destruct (Nat.ltb_spec i (length l)).
    + apply nth_upd_eq; auto.
    + rewrite !nth_overflow; auto; rewrite ?upd_length; lia.
  - apply nth_upd_neq; auto.
Qed.

Lemma nth_error_nth' A (l : list A) i d : i < length l -> nth_error l i = Some (nth i l d).
Proof. revert i; induction l; destruct i; simpl; intros; try lia; auto. apply IHl; lia. Qed.

Definition inb (j : nat) (l : list nat) : bool := existsb (Nat.eqb j) l.

Lemma inb_In j l : inb j l = true <-> In j l.
Proof.
  unfold inb; rewrite existsb_exists; split.
  - intros (x & H & E); apply Nat.eqb_eq in E; subst; auto.
  - intros H; exists j; split; auto; apply Nat.eqb_refl.
Qed.

Lemma inb_false j l : inb j l = false <-> ~ In j l.
Proof. rewrite <- inb_In; destruct (inb j l); split; congruence. Qed.

Lemma inb_app j a b : inb j (a ++ b) = inb j a || inb j b.
Proof. apply existsb_app. Qed.

Lemma inb_seq j a n : inb j (seq a n) = (a <=? j) && (j <? a + n).
Proof.
  destruct (inb j (seq a n)) eqn:E.
  - apply inb_In, in_seq in E; symmetry; apply andb_true_iff; split; [apply Nat.leb_le|apply Nat.ltb_lt]; lia.
  - apply inb_false in E; rewrite in_seq in E.
    destruct (Nat.leb_spec a j), (Nat.ltb_spec j (a + n)); simpl; auto; lia.
Qed.

(* hooks seen by slot j *)
Definition hook_of (e : levent) : list hook :=
  match e with LHook h _ _ _ _ _ _ => [h] | _ => [] end.
Definition hooks_of (evs : list levent) : list hook := flat_map hook_of evs.
Definition hproj (j : nat) (t : list event) : list hook :=
  flat_map (fun e => if fst e =? j then hook_of (snd e) else []) t.

Lemma hooks_of_app a b : hooks_of (a ++ b) = hooks_of a ++ hooks_of b.
Proof. apply flat_map_app. Qed.

Lemma hproj_app j a b : hproj j (a ++ b) = hproj j a ++ hproj j b.
Proof. apply flat_map_app. Qed.

Lemma hproj_tag j i evs : hproj j (tag_events i evs) = if i =? j then hooks_of evs else [].
Proof.
  unfold hproj, tag_events, hooks_of; induction evs; simpl.
  - destruct (i =? j); auto.
  - rewrite IHevs; destruct (i =? j); simpl; auto.
Qed.

(* ================================================================== Part 2: loop combinators *)

(* ---- 2a. frame: a loop over idxs touches only the steps at idxs and emits only events of those slots *)

Definition frame_rel (idxs : list nat) (s s' : bstate) : Prop :=
  length (ms s') = length (ms s) /\
  (forall j, ~ In j idxs -> nth_error (ms s') j = nth_error (ms s) j) /\
  (exists ext, tr s' = tr s ++ ext /\ Forall (fun e => In (fst e) idxs) ext).

Definition res_state (r : res) : bstate := match r with Ok s => s | Err _ s => s end.

Lemma frame_refl idxs s : frame_rel idxs s s.
Proof. repeat split; auto. exists []; rewrite app_nil_r; auto. Qed.

Lemma frame_trans idxs s1 s2 s3 : frame_rel idxs s1 s2 -> frame_rel idxs s2 s3 -> frame_rel idxs s1 s3.
Proof.
  intros (L1 & N1 & e1 & T1 & F1) (L2 & N2 & e2 & T2 & F2); repeat split; try congruence.
  - intros; rewrite N2, N1; auto.
  - exists (e1 ++ e2); rewrite T2, T1, app_assoc; split; auto. apply Forall_app; auto.
Qed.

Lemma frame_mono a b s s' : incl a b -> frame_rel a s s' -> frame_rel b s s'.
Proof.
  intros I (L & N & e & T & F); repeat split; auto.
  exists e; split; auto. eapply Forall_impl; [|exact F]. simpl; auto.
Qed.

Lemma nth_error_upd_neq A i j (x : A) l : i <> j -> nth_error (upd i x l) j = nth_error l j.
Proof. revert i j; induction l; destruct i, j; simpl; intros; try lia; auto. Qed.

Lemma Forall_tag i evs (P : event -> Prop) : (forall e, P (i, e)) -> Forall P (tag_events i evs).
Proof. intros H; unfold tag_events; apply Forall_forall; intros x I; apply in_map_iff in I as (e & <- & _); auto. Qed.

Lemma for_steps_frame b idxs s : frame_rel idxs s (res_state (for_steps idxs b s)).
Proof.
  revert s; induction idxs as [|i rest IH]; intros s; simpl.
  - apply frame_refl.
  - destruct (nth_error (ms s) i) as [st|]; simpl; [|apply frame_refl].
    destruct (b (ms s) i st) as [st' evs|e evs]; simpl.
    + eapply frame_trans; [|eapply frame_mono; [|apply IH]; intros x; simpl; auto].
      repeat split; simpl.
      * apply upd_length.
      * intros j N; apply nth_error_upd_neq; intros ->; apply N; simpl; auto.
      * exists (tag_events i evs); split; auto. apply Forall_tag; simpl; auto.
    + repeat split; simpl; auto. exists (tag_events i evs); split; auto. apply Forall_tag; simpl; auto.
Qed.

Definition framed (idxs : list nat) (f : bstate -> res) : Prop :=
  forall s, frame_rel idxs s (res_state (f s)).

Lemma framed_for_steps idxs idxs' b : incl idxs' idxs -> framed idxs (for_steps idxs' b).
Proof. intros I s; eapply frame_mono; eauto. apply for_steps_frame. Qed.

Lemma framed_bind idxs f g : framed idxs f -> (forall s, framed idxs (g s)) ->
  framed idxs (fun s => f s >>= fun s' => g s' s').
Proof.
  intros Hf Hg s; specialize (Hf s); destruct (f s) as [s1|e s1]; simpl in *; auto.
  eapply frame_trans; eauto. apply Hg.
Qed.

Lemma framed_bind' idxs f g : framed idxs f -> framed idxs g -> framed idxs (fun s => f s >>= g).
Proof. intros Hf Hg; apply (@framed_bind idxs f (fun _ => g)); auto. Qed.

Lemma framed_for_each A idxs (xs : list A) f : (forall x, framed idxs (f x)) -> framed idxs (for_each xs f).
Proof.
  intros H; induction xs as [|x xs IH]; intros s; simpl.
  - apply frame_refl.
  - specialize (H x s); destruct (f x s) as [s1|e s1]; simpl in *; auto.
    eapply frame_trans; eauto; apply IH.
Qed.

Lemma framed_ok idxs : framed idxs Ok.
Proof. intros s; apply frame_refl. Qed.

Lemma framed_err idxs e : framed idxs (Err e).
Proof. intros s; apply frame_refl. Qed.

(* ---- 2b. every executed receive found the tag it expected *)

Definition good_lev (e : levent) : Prop :=
  match e with LRecv _ t f => f = Some t | _ => True end.
Definition good_ev (e : event) : Prop := good_lev (snd e).

Definition sgood (r : sres) : Prop :=
  match r with SOk _ evs => Forall good_lev evs | SErr _ _ => True end.

Lemma tag_eqb_eq a b : tag_eqb a b = true -> a = b.
Proof.
  destruct a as [[a1 a2] a3], b as [[b1 b2] b3]; simpl; intros H.
  apply andb_true_iff in H as [H H3]; apply andb_true_iff in H as [H1 H2].
  apply Nat.eqb_eq in H1, H2, H3; subst; auto.
Qed.

Lemma otag_eqb_eq a b : otag_eqb a b = true -> a = b.
Proof. destruct a, b; simpl; try congruence; intros H; apply tag_eqb_eq in H; subst; auto. Qed.

Lemma tag_eqb_refl a : tag_eqb a a = true.
Proof. destruct a as [[a1 a2] a3]; simpl; rewrite !Nat.eqb_refl; auto. Qed.

Lemma sgood_bind r f : sgood r -> (forall st, sgood (f st)) -> sgood (sbind r f).
Proof.
  destruct r as [st evs|e evs]; simpl; auto; intros G H; specialize (H st).
  destruct (f st); simpl in *; auto. apply Forall_app; auto.
Qed.

Lemma sgood_send l i st : sgood (send_full l i st).
Proof. unfold send_full; destruct (st_last st); simpl; auto. repeat constructor. Qed.

Lemma sgood_recv l msl i st : sgood (recv_full l msl i st).
Proof.
  unfold recv_full; destruct (negb (st_prev_done st) && negb (st_first st)); simpl; auto.
  match goal with |- context [otag_eqb ?a ?b] => destruct (otag_eqb a b) eqn:E end; simpl; auto.
  apply otag_eqb_eq in E; repeat constructor; auto.
Qed.

Lemma sgood_update_nodes l st : sgood (update_nodes l st).
Proof. unfold update_nodes; destruct (nth l (st_unlocked st) false); simpl; auto. repeat constructor. Qed.

Lemma sgood_transfer a b st : sgood (transfer a b st).
Proof.
  unfold transfer; destruct (a <? b), (nth a (st_unlocked st) false); simpl; auto; repeat constructor.
Qed.

Lemma sgood_emit_hooks evs st : Forall good_lev evs -> sgood (emit evs st).
Proof. simpl; auto. Qed.

Lemma sgood_sweep_block l sg st : sgood (sweep_block l sg st).
Proof.
  unfold sweep_block; apply sgood_bind; [repeat constructor|intros].
  apply sgood_bind; [apply sgood_update_nodes|intros]. repeat constructor.
Qed.

Lemma sgood_fold_transfer (g : nat -> nat * nat) ls r :
  sgood r -> sgood (fold_left (fun r l => sbind r (transfer (fst (g l)) (snd (g l)))) ls r).
Proof.
  revert r; induction ls; simpl; auto; intros r G. apply IHls. apply sgood_bind; auto.
  intros; apply sgood_transfer.
Qed.

Definition bgood (b : body) : Prop := forall msl i st, sgood (b msl i st).

Definition tr_good (s : bstate) : Prop := Forall good_ev (tr s).

Definition rgood (f : bstate -> res) : Prop :=
  forall s, tr_good s -> match f s with Ok s' => tr_good s' | Err _ _ => True end.

Lemma rgood_for_steps idxs b : bgood b -> rgood (for_steps idxs b).
Proof.
  intros B; induction idxs as [|i rest IH]; intros s G; simpl; auto.
  destruct (nth_error (ms s) i) as [st|]; auto.
  specialize (B (ms s) i st); destruct (b (ms s) i st) as [st' evs|]; simpl in *; auto.
  apply IH; unfold tr_good; simpl. apply Forall_app; split; auto.
  apply Forall_forall; intros x I; apply in_map_iff in I as (e & <- & I).
  unfold good_ev; simpl. eapply Forall_forall in B; eauto.
Qed.

Lemma rgood_bind f g : rgood f -> rgood g -> rgood (fun s => f s >>= g).
Proof.
  intros Hf Hg s G; specialize (Hf s G); destruct (f s); simpl; auto. apply Hg; auto.
Qed.

Lemma rgood_bind_dep f (g : bstate -> bstate -> res) :
  rgood f -> (forall s0, rgood (g s0)) -> rgood (fun s => f s >>= fun s' => g s' s').
Proof.
  intros Hf Hg s G; specialize (Hf s G); destruct (f s) as [s1|]; simpl; auto. apply Hg; auto.
Qed.

Lemma rgood_for_each A (xs : list A) f : (forall x, rgood (f x)) -> rgood (for_each xs f).
Proof.
  intros H; induction xs as [|x xs IH]; intros s G; simpl; auto.
  specialize (H x s G); destruct (f x s); simpl; auto. apply IH; auto.
Qed.

Lemma rgood_ok : rgood Ok.
Proof. intros s G; auto. Qed.

Lemma rgood_err e : rgood (Err e).
Proof. intros s G; auto. Qed.

(* ---- 2c. pointwise loop rule: if, in every intermediate context, the body maps step i to F i st with
        hooks G i st, the loop is the pointwise map of F over idxs *)

Definition pw_fun (idxs : list nat) (F : nat -> step -> step) (G : nat -> step -> list hook) (s s' : bstate) : Prop :=
  length (ms s') = length (ms s) /\
  (forall j, nth j (ms s') dummy_step = if inb j idxs then F j (nth j (ms s) dummy_step) else nth j (ms s) dummy_step) /\
  (forall j, hproj j (tr s') = hproj j (tr s) ++ if inb j idxs then G j (nth j (ms s) dummy_step) else []).

Lemma for_steps_pw_gen b F G s post : forall pre s1,
  NoDup (pre ++ post) -> (forall i, In i post -> i < length (ms s)) ->
  pw_fun pre F G s s1 ->
  (forall pre' i post' s1, pre ++ post = pre' ++ i :: post' -> pw_fun pre' F G s s1 ->
     exists evs, b (ms s1) i (nth i (ms s) dummy_step) = SOk (F i (nth i (ms s) dummy_step)) evs
                 /\ hooks_of evs = G i (nth i (ms s) dummy_step)) ->
  exists s', for_steps post b s1 = Ok s' /\ pw_fun (pre ++ post) F G s s'.
Proof.
  induction post as [|i post IH]; intros pre s1 ND LT PW HB; simpl.
  - exists s1; rewrite app_nil_r; auto.
  - destruct PW as (L1 & N1 & T1).
    assert (Hi : i < length (ms s1)) by (rewrite L1; apply LT; simpl; auto).
    assert (Nin : inb i pre = false).
    { apply inb_false; intros I. apply NoDup_remove_2 in ND. apply ND, in_or_app; auto. }
    rewrite (nth_error_nth' _ dummy_step Hi).
    assert (E0 : nth i (ms s1) dummy_step = nth i (ms s) dummy_step) by (rewrite N1, Nin; auto).
    destruct (HB pre i post s1 eq_refl (conj L1 (conj N1 T1))) as (evs & Hb & Hh).
    rewrite E0, Hb.
    replace (pre ++ i :: post) with ((pre ++ [i]) ++ post) in * by (rewrite <- app_assoc; auto).
    apply IH; auto.
    + intros; apply LT; simpl; auto.
    + repeat split; simpl.
      * rewrite upd_length; auto.
      * intros j; rewrite nth_upd, inb_app; simpl.
        destruct (Nat.eqb_spec j i) as [->|N]; simpl.
        { apply Nat.ltb_lt in Hi; rewrite Hi, Nin; simpl; auto. }
        rewrite N1, orb_false_r; auto.
      * intros j; rewrite hproj_app, hproj_tag, T1, inb_app, <- app_assoc; simpl.
        rewrite (Nat.eqb_sym j i), orb_false_r.
        destruct (Nat.eqb_spec i j) as [->|N]; simpl.
        { rewrite Nin, Hh; simpl; auto. }
        rewrite orb_false_r, app_nil_r; auto.
Qed.

Lemma pw_fun_nil F G s : pw_fun [] F G s s.
Proof. repeat split; auto. intros; simpl; rewrite app_nil_r; auto. Qed.

Lemma for_steps_pw b F G s idxs :
  NoDup idxs -> (forall i, In i idxs -> i < length (ms s)) ->
  (forall pre i post s1, idxs = pre ++ i :: post -> pw_fun pre F G s s1 ->
     exists evs, b (ms s1) i (nth i (ms s) dummy_step) = SOk (F i (nth i (ms s) dummy_step)) evs
                 /\ hooks_of evs = G i (nth i (ms s) dummy_step)) ->
  exists s', for_steps idxs b s = Ok s' /\ pw_fun idxs F G s s'.
Proof.
  intros ND LT HB. apply (@for_steps_pw_gen b F G s idxs [] s); auto. apply pw_fun_nil.
Qed.

(* relational pointwise description, closed under composition *)
Definition srel := nat -> step -> step -> list hook -> Prop.

Definition pw_rel (idxs : list nat) (R : srel) (s s' : bstate) : Prop :=
  length (ms s') = length (ms s) /\
  (forall j, inb j idxs = false ->
     nth j (ms s') dummy_step = nth j (ms s) dummy_step /\ hproj j (tr s') = hproj j (tr s)) /\
  (forall j, inb j idxs = true -> j < length (ms s) ->
     exists hs, R j (nth j (ms s) dummy_step) (nth j (ms s') dummy_step) hs /\
                hproj j (tr s') = hproj j (tr s) ++ hs).

Lemma pw_fun_rel idxs F G s s' (R : srel) :
  pw_fun idxs F G s s' ->
  (forall j, In j idxs -> j < length (ms s) ->
     R j (nth j (ms s) dummy_step) (F j (nth j (ms s) dummy_step)) (G j (nth j (ms s) dummy_step))) ->
  pw_rel idxs R s s'.
Proof.
  intros (L & N & T) H; repeat split; auto.
  - rewrite N, H0; auto.
  - rewrite T, H0, app_nil_r; auto.
  - intros j I Hj. exists (G j (nth j (ms s) dummy_step)). rewrite N, T, I; split; auto.
    apply H; auto. apply inb_In; auto.
Qed.

Definition rcomp (R1 R2 : srel) : srel :=
  fun j a c hs => exists b h1 h2, R1 j a b h1 /\ R2 j b c h2 /\ hs = h1 ++ h2.

Lemma pw_rel_comp idxs R1 R2 s1 s2 s3 :
  pw_rel idxs R1 s1 s2 -> pw_rel idxs R2 s2 s3 -> pw_rel idxs (rcomp R1 R2) s1 s3.
Proof.
  intros (L1 & U1 & C1) (L2 & U2 & C2); repeat split; try congruence.
  - destruct (U1 j H), (U2 j H); congruence.
  - destruct (U1 j H), (U2 j H); congruence.
  - intros j I Hj. destruct (C1 j I Hj) as (h1 & r1 & t1).
    destruct (C2 j I) as (h2 & r2 & t2); [congruence|].
    exists (h1 ++ h2); split; [|rewrite t2, t1, app_assoc; auto].
    exists (nth j (ms s2) dummy_step), h1, h2; auto.
Qed.

Lemma pw_rel_weaken idxs (R R' : srel) s s' :
  (forall j a b h, R j a b h -> R' j a b h) -> pw_rel idxs R s s' -> pw_rel idxs R' s s'.
Proof.
  intros H (L & U & C); repeat split; auto; try apply U; auto.
  intros j I Hj; destruct (C j I Hj) as (h & r & t); eauto.
Qed.

(* a loop over a sub-list, seen as a relation over the full list *)
Lemma pw_rel_sub idxs idxs' (R : srel) s s' :
  (forall j, inb j idxs' = true -> inb j idxs = true) ->
  (forall j a, R j a a []) ->
  pw_rel idxs' R s s' -> pw_rel idxs R s s'.
Proof.
  intros Sub Refl (L & U & C); repeat split; auto.
  - apply U. destruct (inb j idxs') eqn:E; auto. apply Sub in E; congruence.
  - apply U. destruct (inb j idxs') eqn:E; auto. apply Sub in E; congruence.
  - intros j I Hj. destruct (inb j idxs') eqn:E; auto.
    destruct (U j E) as (-> & ->). exists []; rewrite app_nil_r; auto.
Qed.

Lemma pw_rel_refl idxs (R : srel) s : (forall j a, R j a a []) -> pw_rel idxs R s s.
Proof. intros H; repeat split; auto. intros; exists []; rewrite app_nil_r; auto. Qed.

(* ================================================================== Part 3: callback grammar *)

(* pre_step (pre_predict post_predict)? (pre_iteration (pre_sweep post_sweep)+ post_iteration)* post_step *)
Inductive sweeps1 : list hook -> Prop :=
| sw_one : sweeps1 [PreSweep; PostSweep]
| sw_more l : sweeps1 l -> sweeps1 (PreSweep :: PostSweep :: l).

Inductive iters : list hook -> Prop :=
| it_nil : iters []
| it_cons sw l : sweeps1 sw -> iters l -> iters (PreIteration :: sw ++ PostIteration :: l).

Inductive grammar : list hook -> Prop :=
| gr_nopred l : iters l -> grammar (PreStep :: l ++ [PostStep])
| gr_pred l : iters l -> grammar (PreStep :: PrePredict :: PostPredict :: l ++ [PostStep]).

(* deterministic acceptor *)
Inductive gstate := GA0 | GA1 | GAP | GA2 | GI0 | GS | GI1 | GB | GE.

Definition gstep (g : gstate) (h : hook) : option gstate :=
  match g, h with
  | GA0, PreStep => Some GA1
  | GA1, PrePredict => Some GAP
  | GAP, PostPredict => Some GA2
  | GA1, PreIteration | GA2, PreIteration | GB, PreIteration => Some GI0
  | GA1, PostStep | GA2, PostStep | GB, PostStep => Some GE
  | GI0, PreSweep | GI1, PreSweep => Some GS
  | GS, PostSweep => Some GI1
  | GI1, PostIteration => Some GB
  | _, _ => None
  end.

Fixpoint grun (g : option gstate) (l : list hook) : option gstate :=
  match l with
  | [] => g
  | h :: t => grun (match g with Some x => gstep x h | None => None end) t
  end.

Lemma grun_app g a b : grun g (a ++ b) = grun (grun g a) b.
Proof. revert g; induction a; simpl; auto. Qed.

Lemma grun_none l : grun None l = None.
Proof. induction l; simpl; auto. Qed.

Lemma grun_GE l : grun (Some GE) l = Some GE -> l = [].
Proof. destruct l; simpl; auto. rewrite grun_none; discriminate. Qed.

Lemma grun_I n : forall l g, length l <= n -> (g = GI0 \/ g = GI1) -> grun (Some g) l = Some GE ->
  exists sw rest, l = sw ++ PostIteration :: rest /\ (g = GI0 -> sweeps1 sw) /\ (sw = [] \/ sweeps1 sw)
                  /\ grun (Some GB) rest = Some GE.
Proof.
  induction n; intros l g Hl Hg H.
  - destruct l; simpl in *; try lia. destruct Hg; subst; discriminate.
  - destruct l as [|h l]; [destruct Hg; subst; discriminate|].
    destruct Hg; subst; destruct h; simpl in H; try (rewrite grun_none in H; discriminate).
    + (* GI0, PreSweep *)
      destruct l as [|h l]; [discriminate|]. destruct h; simpl in H; try (rewrite grun_none in H; discriminate).
      destruct (IHn l GI1) as (sw & rest & -> & _ & Hs & Hr); simpl in *; auto; try lia.
      exists (PreSweep :: PostSweep :: sw), rest; repeat split; auto.
      * intros _; destruct Hs; subst; constructor; auto.
      * right; destruct Hs; subst; constructor; auto.
    + destruct l as [|h l]; [discriminate|]. destruct h; simpl in H; try (rewrite grun_none in H; discriminate).
      destruct (IHn l GI1) as (sw & rest & -> & _ & Hs & Hr); simpl in *; auto; try lia.
      exists (PreSweep :: PostSweep :: sw), rest; repeat split; auto.
      * intros; discriminate.
      * right; destruct Hs; subst; constructor; auto.
    + exists [], l; repeat split; auto. intros; discriminate.
Qed.

Lemma grun_B n : forall l g, length l <= n -> (g = GA1 \/ g = GA2 \/ g = GB) ->
  grun (Some g) l = Some GE ->
  (exists l', l = l' ++ [PostStep] /\ iters l') \/
  (g = GA1 /\ exists l', l = PrePredict :: PostPredict :: l' ++ [PostStep] /\ iters l').
Proof.
  induction n; intros l g Hl Hg H.
  - destruct l; simpl in *; try lia. destruct Hg as [|[|]]; subst; discriminate.
  - destruct l as [|h l]; [destruct Hg as [|[|]]; subst; discriminate|].
    assert (HI : forall l, length l <= n -> grun (Some GI0) l = Some GE ->
              exists l', PreIteration :: l = l' ++ [PostStep] /\ iters l').
    { intros l0 Hl0 H0. destruct (@grun_I (length l0) l0 GI0) as (sw & rest & -> & Hs & _ & Hr); auto.
      destruct (IHn rest GB) as [(l' & -> & Hi)|(E & _)]; auto; try discriminate.
      - rewrite app_length in Hl0; simpl in Hl0; lia.
      - exists (PreIteration :: sw ++ PostIteration :: l'); split.
        + simpl; rewrite <- app_assoc; auto.
        + constructor; auto. }
    assert (HP : forall l, grun (Some GE) l = Some GE -> exists l', PostStep :: l = l' ++ [PostStep] /\ iters l').
    { intros l0 H0; apply grun_GE in H0; subst. exists []; split; auto. constructor. }
    simpl in Hl.
    destruct Hg as [|[|]]; subst; destruct h; simpl in H; try (rewrite grun_none in H; discriminate);
      try (left; apply HI; auto; lia); try (left; apply HP; auto).
    (* GA1, PrePredict *)
    destruct l as [|h l]; [discriminate|]. destruct h; simpl in H; try (rewrite grun_none in H; discriminate).
    simpl in Hl.
    destruct (IHn l GA2) as [(l' & -> & Hi)|(E & _)]; auto; try lia; try discriminate.
    right; split; auto. exists l'; auto.
Qed.

Theorem grun_sound l : grun (Some GA0) l = Some GE -> grammar l.
Proof.
  destruct l as [|h l]; [discriminate|].
  destruct h; simpl; try (rewrite grun_none; discriminate).
  intros H. destruct (@grun_B (length l) l GA1) as [(l' & -> & Hi)|(_ & l' & -> & Hi)]; auto.
  - constructor; auto.
  - constructor; auto.
Qed.

(* (pre_sweep post_sweep)^m *)
Fixpoint sw_hooks (m : nat) : list hook :=
  match m with 0 => [] | S k => PreSweep :: PostSweep :: sw_hooks k end.

Lemma sw_hooks_add a b : sw_hooks (a + b) = sw_hooks a ++ sw_hooks b.
Proof. induction a; simpl; auto. rewrite IHa; auto. Qed.

Lemma grun_sw_I1 m : grun (Some GI1) (sw_hooks m) = Some GI1.
Proof. induction m; simpl; auto. Qed.

Lemma grun_sw_I0 m : grun (Some GI0) (sw_hooks m) = Some (if m =? 0 then GI0 else GI1).
Proof. destruct m; simpl; auto. apply grun_sw_I1. Qed.

(* ================================================================== Part 4: the stages under the invariant *)

Arguments upd : simpl never.

Lemma firstn_seq' p a m : firstn p (seq a m) = seq a (Nat.min p m).
Proof.
  revert a m; induction p; intros a m; simpl; auto.
  destruct m; simpl; auto. rewrite IHp; auto.
Qed.

Lemma seq_split a m pre i post : seq a m = pre ++ i :: post ->
  pre = seq a (i - a) /\ a <= i < a + m /\ post = seq (S i) (a + m - S i).
Proof.
  intros E.
  assert (Hl : length pre < m).
  { apply (f_equal (@length nat)) in E. rewrite seq_length, app_length in E; simpl in E; lia. }
  assert (Hi : i = a + length pre).
  { apply (f_equal (fun l => nth (length pre) l 0)) in E.
    rewrite seq_nth, app_nth2, Nat.sub_diag in E; simpl in E; auto. }
  assert (Hp : pre = seq a (length pre)).
  { apply (f_equal (firstn (length pre))) in E.
    rewrite firstn_seq', firstn_app, firstn_all, Nat.sub_diag in E; simpl in E.
    rewrite app_nil_r in E. rewrite Nat.min_l in E by lia; auto. }
  assert (Hq : post = seq (S i) (a + m - S i)).
  { replace m with (length pre + S (m - length pre - 1)) in E by lia.
    rewrite seq_app in E. rewrite <- Hp in E. apply app_inv_head in E. simpl in E.
    injection E as _ E. rewrite <- E. f_equal; lia. }
  split; [|split]; auto; try lia. rewrite Hp at 1; f_equal; lia.
Qed.

Definition core_eq (a b : step) : Prop :=
  st_stage b = st_stage a /\ st_iter b = st_iter a /\ st_done b = st_done a /\
  st_prev_done b = st_prev_done a /\ st_first b = st_first a /\ st_last b = st_last a /\
  st_force_done b = st_force_done a /\ st_unlocked b = st_unlocked a /\
  length (st_tags b) = length (st_tags a).

Lemma core_eq_refl a : core_eq a a.
Proof. repeat split. Qed.

Lemma core_eq_trans a b c : core_eq a b -> core_eq b c -> core_eq a c.
Proof. unfold core_eq; intuition congruence. Qed.

(* state effect of send_full *)
Definition snd_eff (l j : nat) (st : step) : step :=
  if st_last st then st else set_tags (upd l (Some (l, st_iter st, j)) (st_tags st)) st.

Lemma snd_eff_core l j st : core_eq st (snd_eff l j st).
Proof. unfold snd_eff; destruct (st_last st); repeat split; simpl. apply upd_length. Qed.

Lemma send_full_eq l j st : exists evs, send_full l j st = SOk (snd_eff l j st) evs /\ hooks_of evs = [].
Proof. unfold send_full, snd_eff; destruct (st_last st); eexists; split; eauto. Qed.

Lemma snd_eff_tag l j st : st_last st = false -> l < length (st_tags st) ->
  nth l (st_tags (snd_eff l j st)) None = Some (l, st_iter st, j).
Proof. unfold snd_eff; intros -> H; simpl. apply nth_upd_eq; auto. Qed.

Lemma recv_ok l msl i st :
  (st_prev_done st = false -> st_first st = false ->
   nth l (st_tags (nth (prev_idx (length msl) i) msl dummy_step)) None
   = Some (l, st_iter st, prev_idx (length msl) i)) ->
  exists evs, recv_full l msl i st = SOk st evs /\ hooks_of evs = [].
Proof.
  unfold recv_full; intros H.
  destruct (st_prev_done st), (st_first st); simpl; try (eexists; split; eauto; fail).
  rewrite H; auto; simpl. rewrite !Nat.eqb_refl; simpl. eexists; split; eauto.
Qed.

Lemma update_nodes_ok l st : nth l (st_unlocked st) false = true ->
  update_nodes l st = SOk st [LSweep l].
Proof. unfold update_nodes; intros ->; auto. Qed.

Lemma sweep_block_ok l sg st : nth l (st_unlocked st) false = true ->
  exists evs, sweep_block l sg st = SOk st evs /\ hooks_of evs = [PreSweep; PostSweep].
Proof. unfold sweep_block; intros H; simpl. rewrite update_nodes_ok; auto. simpl. eexists; split; eauto. Qed.

Lemma sbind_ok r f st evs st' evs' :
  r = SOk st evs -> f st = SOk st' evs' -> sbind r f = SOk st' (evs ++ evs').
Proof. intros -> H; simpl; rewrite H; auto. Qed.

Section Invariant.
Variable c : cfg.
Variable o : oracle.
Variable n : nat.

Definition unl0 (u : list bool) : Prop := nth 0 u false = true.
Definition unl_all (u : list bool) : Prop := forall l, l < nlev c -> nth l u false = true.

Definition unl_ok (sg : stage) (u : list bool) : Prop :=
  match sg with
  | SPREAD | DONE => True
  | IT_COARSE | IT_UP => unl_all u
  | _ => unl0 u
  end.

Definition g_ok (sg : stage) (k : nat) (g : option gstate) : Prop :=
  match sg with
  | SPREAD => k = 0 /\ g = Some GA0
  | PREDICT => k = 0 /\ g = Some GA1 /\ 1 < nlev c
  | IT_CHECK => if k =? 0 then g = Some GA1 \/ g = Some GA2 else g = Some GI1
  | IT_FINE => 0 < k /\ (g = Some GI1 \/ (g = Some GI0 /\ 1 <= nsw c 0))
  | IT_DOWN => 0 < k /\ g = Some GI0 /\ 1 < nlev c
  | IT_COARSE => 0 < k /\ (g = Some GI0 \/ g = Some GI1)
  | IT_UP => 0 < k /\ g = Some GI1
  | DONE => g = Some GE
  end.

Record loc (d k : nat) (sg : stage) (i : nat) (st : step) : Prop := mkLoc {
  l_stage : st_stage st = sg;
  l_iter : st_iter st = k;
  l_done : st_done st = false;
  l_pd : st_prev_done st = (i =? d) && (0 <? d);
  l_first : st_first st = (i =? 0);
  l_last : st_last st = (i =? n - 1);
  l_tags : length (st_tags st) = nlev c;
  l_unl : length (st_unlocked st) = nlev c }.

Definition gmon (i : nat) (s : bstate) : option gstate := grun (Some GA0) (hproj i (tr s)).

Record Inv (d k : nat) (sg : stage) (s : bstate) : Prop := mkInv {
  inv_len : length (ms s) = n;
  inv_d : d <= n;
  inv_done : forall i, i < d ->
     let st := nth i (ms s) dummy_step in
     st_stage st = DONE /\ st_done st = true /\ gmon i s = Some GE /\ st_iter st <= k /\
     (all_to_done c = true -> st_iter st = k);
  inv_run : forall i, d <= i < n ->
     let st := nth i (ms s) dummy_step in
     loc d k sg i st /\ unl_ok sg (st_unlocked st) /\ g_ok sg k (gmon i s);
  inv_a2d : all_to_done c = true -> d = 0 \/ d = n;
  inv_sg : sg <> DONE }.

Lemma loc_core d k sg i a b : core_eq a b -> loc d k sg i a -> loc d k sg i b.
Proof.
  intros (E1 & E2 & E3 & E4 & E5 & E6 & E7 & E8 & E9) [H1 H2 H3 H4 H5 H6 H7 H8].
  constructor; congruence.
Qed.

Lemma running_inv d k sg s : Inv d k sg s -> running (ms s) = seq d (n - d).
Proof.
  intros I. unfold running. rewrite (inv_len I).
  assert (G : forall m a, a + m = n -> d <= a ->
     filter (fun i => negb (stage_eqb (st_stage (nth i (ms s) dummy_step)) DONE)) (seq a m) = seq a m).
  { induction m; intros a Ha Hd; simpl; auto.
    destruct (inv_run I (i := a)) as ([Hs _ _ _ _ _ _ _] & _); try lia.
    rewrite Hs. replace (stage_eqb sg DONE) with false; simpl.
    - f_equal; apply IHm; lia.
    - pose proof (inv_sg I). destruct sg; simpl; auto; congruence. }
  assert (G0 : forall m a, a + m <= d ->
     filter (fun i => negb (stage_eqb (st_stage (nth i (ms s) dummy_step)) DONE)) (seq a m) = []).
  { induction m; intros a Ha; simpl; auto.
    destruct (inv_done I (i := a)) as (Hs & _); try lia. rewrite Hs; simpl. apply IHm; lia. }
  pose proof (inv_d I).
  replace n with (d + (n - d)) at 1 by lia. rewrite seq_app, filter_app, G0, G; simpl; auto; lia.
Qed.


(* pointwise relation: core fields kept, stage mapped by sgf, unlocked grows (levels < p get unlocked), hooks hs *)
Definition RC (sgf : stage -> stage) (p : nat) (hs : list hook) : srel := fun _ a b h =>
  st_stage b = sgf (st_stage a) /\ st_iter b = st_iter a /\ st_done b = st_done a /\
  st_prev_done b = st_prev_done a /\ st_first b = st_first a /\ st_last b = st_last a /\
  length (st_tags b) = length (st_tags a) /\ length (st_unlocked b) = length (st_unlocked a) /\
  (forall l, nth l (st_unlocked a) false = true -> nth l (st_unlocked b) false = true) /\
  (forall l, l < p -> l < length (st_unlocked a) -> nth l (st_unlocked b) false = true) /\
  h = hs.

Lemma RC_refl j a : RC id 0 [] j a a [].
Proof. unfold RC; repeat split; auto; intros; lia. Qed.

Lemma RC_comp f1 p1 h1 f2 p2 h2 j a b h :
  rcomp (RC f1 p1 h1) (RC f2 p2 h2) j a b h -> RC (fun x => f2 (f1 x)) (Nat.max p1 p2) (h1 ++ h2) j a b h.
Proof.
  intros (m & x1 & x2 & (A1 & A2 & A3 & A4 & A5 & A6 & A7 & A8 & A9 & A10 & ->)
                     & (B1 & B2 & B3 & B4 & B5 & B6 & B7 & B8 & B9 & B10 & ->) & ->).
  unfold RC; repeat split; try congruence; auto.
  intros l Hl Hl'. destruct (Nat.ltb_spec l p2).
  - apply B10; auto; congruence.
  - apply B9, A10; auto; lia.
Qed.

Lemma RC_core_eq j a b hs : core_eq a b -> RC id 0 hs j a b hs.
Proof.
  intros (E1 & E2 & E3 & E4 & E5 & E6 & E7 & E8 & E9); unfold RC; repeat split; auto.
  - congruence.
  - intros l; rewrite E8; auto.
  - intros; lia.
Qed.

Lemma RC_weaken f p p' hs j a b h : p' <= p -> RC f p hs j a b h -> RC f p' hs j a b h.
Proof.
  intros Hp (A1 & A2 & A3 & A4 & A5 & A6 & A7 & A8 & A9 & A10 & ->); unfold RC; repeat split; auto.
  intros; apply A10; auto; lia.
Qed.

(* what RC does to the local invariant *)
Lemma loc_RC d k sg i f p hs a b h :
  RC f p hs i a b h -> loc d k sg i a -> loc d k (f sg) i b.
Proof.
  intros (A1 & A2 & A3 & A4 & A5 & A6 & A7 & A8 & A9 & A10 & ->) [H1 H2 H3 H4 H5 H6 H7 H8].
  constructor; congruence.
Qed.

Definition running_ok (d k : nat) (sg : stage) (s : bstate) : Prop :=
  length (ms s) = n /\ forall i, d <= i < n ->
    let st := nth i (ms s) dummy_step in loc d k sg i st /\ unl_ok sg (st_unlocked st).

Lemma Inv_running_ok d k sg s : Inv d k sg s -> running_ok d k sg s.
Proof. intros I; split; [apply (inv_len I)|]. intros i Hi; destruct (inv_run I Hi) as (A & B & _); auto. Qed.

Lemma in_run d i : inb i (seq d (n - d)) = true <-> d <= i < n.
Proof. rewrite inb_seq, andb_true_iff, Nat.leb_le, Nat.ltb_lt. lia. Qed.

Lemma nodup_run d : NoDup (seq d (n - d)).
Proof. apply seq_NoDup. Qed.

(* generic step of the invariant for the stages that keep d and k *)
Lemma Inv_step d k sg sg' f p hs s s' :
  Inv d k sg s -> pw_rel (seq d (n - d)) (RC f p hs) s s' ->
  f sg = sg' -> sg' <> DONE ->
  (forall u u', unl_ok sg u -> length u = nlev c -> length u' = length u ->
      (forall l, nth l u false = true -> nth l u' false = true) ->
      (forall l, l < p -> l < length u -> nth l u' false = true) -> unl_ok sg' u') ->
  (forall g, g_ok sg k g -> g_ok sg' k (grun g hs)) ->
  Inv d k sg' s'.
Proof.
  intros I (L & U & C) Hf Hd HU HG.
  constructor; auto.
  - rewrite L; apply (inv_len I).
  - apply (inv_d I).
  - intros i Hi. assert (E : inb i (seq d (n - d)) = false).
    { destruct (inb i (seq d (n - d))) eqn:E; auto. apply in_run in E; lia. }
    destruct (U i E) as (E1 & E2). unfold gmon. simpl. rewrite E1, E2. apply (inv_done I Hi).
  - intros i Hi. assert (E : inb i (seq d (n - d)) = true) by (apply in_run; auto).
    destruct (C i E) as (h & r & t); [rewrite (inv_len I); lia|].
    destruct (inv_run I Hi) as (A & B & G). simpl.
    split; [|split].
    + rewrite <- Hf. eapply loc_RC; eauto.
    + destruct r as (A1 & A2 & A3 & A4 & A5 & A6 & A7 & A8 & A9 & A10 & ->).
      apply (HU (st_unlocked (nth i (ms s) dummy_step))); auto. apply (l_unl A).
    + destruct r as (A1 & A2 & A3 & A4 & A5 & A6 & A7 & A8 & A9 & A10 & ->).
      unfold gmon. rewrite t, grun_app. apply HG; auto.
  - apply (inv_a2d I).
Qed.


(* ---- loops over the running steps seq a (n - a) *)

Lemma loop_simple a (P : nat -> step -> Prop) (b : body) F G (R : srel) s :
  length (ms s) = n ->
  (forall i, a <= i < n -> P i (nth i (ms s) dummy_step)) ->
  (forall msl i st, P i st -> exists evs, b msl i st = SOk (F i st) evs /\ hooks_of evs = G i st) ->
  (forall i st, P i st -> R i st (F i st) (G i st)) ->
  exists s', for_steps (seq a (n - a)) b s = Ok s' /\ pw_rel (seq a (n - a)) R s s'.
Proof.
  intros L HP HB HR.
  destruct (@for_steps_pw b F G s (seq a (n - a))) as (s' & E & PW).
  - apply seq_NoDup.
  - intros i Hi; apply in_seq in Hi; lia.
  - intros pre i post s1 E _. apply seq_split in E as (_ & Hi & _). apply HB, HP; lia.
  - exists s'; split; auto. eapply pw_fun_rel; eauto.
    intros j Hj _; apply in_seq in Hj. apply HR, HP; lia.
Qed.

Lemma prev_idx_pos m i : 0 < i -> prev_idx m i = i - 1.
Proof. destruct i; simpl; lia. Qed.

Lemma loop_recv a k l (P : nat -> step -> Prop) (A B : nat -> step -> sres) FA FB GA GB (R : srel) s :
  length (ms s) = n ->
  (forall i, a <= i < n -> P i (nth i (ms s) dummy_step)) ->
  (forall i st, P i st -> exists evs, A i st = SOk (FA i st) evs /\ hooks_of evs = GA i st) ->
  (forall i st, P i st -> exists evs, B i (FA i st) = SOk (FB i (FA i st)) evs /\ hooks_of evs = GB i st) ->
  (forall i st, P i st -> a <= i < n ->
     st_iter (FA i st) = k /\
     (st_prev_done (FA i st) = false -> st_first (FA i st) = false -> a < i)) ->
  (forall i st, P i st -> a <= i -> i + 1 < n -> nth l (st_tags (FB i (FA i st))) None = Some (l, k, i)) ->
  (forall i st, P i st -> R i st (FB i (FA i st)) (GA i st ++ GB i st)) ->
  exists s', for_steps (seq a (n - a))
               (fun msl i st => sbind (A i st) (fun st1 => sbind (recv_full l msl i st1) (B i))) s = Ok s'
             /\ pw_rel (seq a (n - a)) R s s'.
Proof.
  intros L HP HA HB HC HT HR.
  set (F := fun i st => FB i (FA i st)). set (G := fun i st => GA i st ++ GB i st).
  destruct (@for_steps_pw (fun msl i st => sbind (A i st) (fun st1 => sbind (recv_full l msl i st1) (B i)))
              F G s (seq a (n - a))) as (s' & E & PW).
  - apply seq_NoDup.
  - intros i Hi; apply in_seq in Hi; lia.
  - intros pre i post s1 E (L1 & N1 & _). apply seq_split in E as (Epre & Hi & _).
    assert (Pi : P i (nth i (ms s) dummy_step)) by (apply HP; lia).
    destruct (HA _ _ Pi) as (e1 & E1 & H1). destruct (HB _ _ Pi) as (e3 & E3 & H3).
    destruct (HC _ _ Pi) as (Hk & Hrecv); try lia.
    destruct (@recv_ok l (ms s1) i (FA i (nth i (ms s) dummy_step))) as (e2 & E2 & H2).
    { intros Hpd Hf. specialize (Hrecv Hpd Hf). rewrite prev_idx_pos by lia.
      rewrite N1. replace (inb (i - 1) pre) with true.
      - rewrite Hk. apply (HT (i - 1)); try lia. apply HP; lia.
      - symmetry. rewrite Epre, inb_seq. apply andb_true_iff; split; [apply Nat.leb_le|apply Nat.ltb_lt]; lia. }
    eexists; split.
    + eapply sbind_ok; eauto. eapply sbind_ok; eauto.
    + rewrite !hooks_of_app, H1, H2, H3; simpl; auto.
  - exists s'; split; auto. eapply pw_fun_rel; eauto.
    intros j Hj _; apply in_seq in Hj. apply HR, HP; lia.
Qed.

(* running steps satisfy the local invariant and have levels < p unlocked *)
Definition rok (d k : nat) (sg : stage) (p : nat) (s : bstate) : Prop :=
  length (ms s) = n /\ forall i, d <= i < n ->
    let st := nth i (ms s) dummy_step in
    loc d k sg i st /\ forall l, l < p -> l < nlev c -> nth l (st_unlocked st) false = true.

(* send_full l ; recv_full l *)
Definition lp (d k : nat) (sg : stage) (i : nat) (st : step) : Prop := loc d k sg i st.

Lemma loc_recv_cond d k sg i st : loc d k sg i st -> d <= i ->
  st_prev_done st = false -> st_first st = false -> d < i.
Proof.
  intros [H1 H2 H3 H4 H5 H6 H7 H8] Hd Hp Hf. rewrite H4 in Hp; rewrite H5 in Hf.
  apply Nat.eqb_neq in Hf. destruct (Nat.eqb_spec i d); simpl in Hp; try lia.
Qed.

Lemma for_steps_ext (b b' : body) idxs s :
  (forall msl i st, b msl i st = b' msl i st) -> for_steps idxs b s = for_steps idxs b' s.
Proof.
  intros H; revert s; induction idxs; intros s; simpl; auto.
  destruct (nth_error (ms s) a); auto. rewrite H. destruct (b' (ms s) a s0); auto.
Qed.

Lemma sbind_ret r : sbind r (fun st => SOk st []) = r.
Proof. destruct r; simpl; auto. rewrite app_nil_r; auto. Qed.

Lemma loop_sendrecv d k sg p l s :
  rok d k sg p s -> l < nlev c ->
  exists s', for_steps (seq d (n - d)) (b_sendrecv l) s = Ok s' /\ pw_rel (seq d (n - d)) (RC id 0 []) s s'.
Proof.
  intros (L & HR) Hl.
  destruct (@loop_recv d k l (loc d k sg) (send_full l) (fun _ st => SOk st [])
              (snd_eff l) (fun _ st => st) (fun _ _ => []) (fun _ _ => []) (RC id 0 []) s) as (s' & E & PW); auto.
  - intros i Hi; destruct (HR i Hi); auto.
  - intros i st _; apply send_full_eq.
  - intros; eexists; split; eauto.
  - intros i st Li Hi; split.
    + destruct (snd_eff_core l i st) as (_ & -> & _). apply (l_iter Li).
    + intros Hp Hf. destruct (snd_eff_core l i st) as (_ & _ & _ & E4 & E5 & _).
      rewrite E4 in Hp; rewrite E5 in Hf. eapply loc_recv_cond; eauto; lia.
  - intros i st Li Hi Hn. rewrite <- (l_iter Li). apply snd_eff_tag.
    + rewrite (l_last Li). apply Nat.eqb_neq; lia.
    + rewrite (l_tags Li); auto.
  - intros i st _. apply RC_core_eq, snd_eff_core.
  - exists s'; split; auto. rewrite <- E. apply for_steps_ext.
    intros msl i st; unfold b_sendrecv.
    destruct (send_full l i st); simpl; auto. rewrite sbind_ret; auto.
Qed.

Lemma rok_step d k sg p f q hs s s' :
  rok d k sg p s -> pw_rel (seq d (n - d)) (RC f q hs) s s' -> rok d k (f sg) (Nat.max p q) s'.
Proof.
  intros (L & H) (L' & U & C); split; [congruence|].
  intros i Hi. assert (E : inb i (seq d (n - d)) = true) by (apply in_run; auto).
  destruct (C i E) as (h & r & t); [lia|]. destruct (H i Hi) as (A & B).
  split; [eapply loc_RC; eauto|].
  destruct r as (A1 & A2 & A3 & A4 & A5 & A6 & A7 & A8 & A9 & A10 & ->).
  intros l Hl Hn. destruct (Nat.ltb_spec l q).
  - apply A10; auto. rewrite (l_unl A); auto.
  - apply A9, B; auto; lia.
Qed.

Lemma rok_weaken d k sg p p' s : p' <= p -> rok d k sg p s -> rok d k sg p' s.
Proof. intros Hp (L & H); split; auto. intros i Hi; destruct (H i Hi) as (A & B); split; auto. intros; apply B; auto; lia. Qed.

Lemma then_pw (f g : bstate -> res) idxs R1 R2 s :
  (exists s1, f s = Ok s1 /\ pw_rel idxs R1 s s1) ->
  (forall s1, pw_rel idxs R1 s s1 -> exists s2, g s1 = Ok s2 /\ pw_rel idxs R2 s1 s2) ->
  exists s2, (f s >>= g) = Ok s2 /\ pw_rel idxs (rcomp R1 R2) s s2.
Proof.
  intros (s1 & E1 & P1) H. destruct (H s1 P1) as (s2 & E2 & P2).
  exists s2; rewrite E1; simpl; split; auto. eapply pw_rel_comp; eauto.
Qed.

Lemma loop_sweep d k sg p l sgx s :
  rok d k sg p s -> l < p -> l < nlev c ->
  exists s', for_steps (seq d (n - d)) (b_sweep l sgx) s = Ok s'
             /\ pw_rel (seq d (n - d)) (RC id 0 [PreSweep; PostSweep]) s s'.
Proof.
  intros (L & H) Hl Hn.
  apply (@loop_simple d (fun i st => nth l (st_unlocked st) false = true) (b_sweep l sgx)
           (fun _ st => st) (fun _ _ => [PreSweep; PostSweep])); auto.
  - intros i Hi; apply H; auto.
  - intros msl i st Hu; unfold b_sweep. apply sweep_block_ok; auto.
  - intros; apply RC_core_eq, core_eq_refl.
Qed.

Lemma loop_set_stage d sg' s :
  length (ms s) = n ->
  exists s', for_steps (seq d (n - d)) (b_set_stage sg') s = Ok s'
             /\ pw_rel (seq d (n - d)) (RC (fun _ => sg') 0 []) s s'.
Proof.
  intros L.
  apply (@loop_simple d (fun _ _ => True) (b_set_stage sg') (fun _ st => set_stage sg' st) (fun _ _ => [])); auto.
  - intros; exists []; split; reflexivity.
  - intros; unfold RC; simpl; repeat split; auto. intros; lia.
Qed.

(* restriction a -> a+1 : levels <= a unlocked before, <= a+1 after *)
Lemma loop_transfer_down d k sg a s :
  rok d k sg (S a) s -> S a < nlev c ->
  exists s', for_steps (seq d (n - d)) (b_transfer a (S a)) s = Ok s'
             /\ pw_rel (seq d (n - d)) (RC id (S (S a)) []) s s'.
Proof.
  intros (L & H) Ha.
  apply (@loop_simple d (fun i st => length (st_unlocked st) = nlev c /\
                                      forall l, l < S a -> nth l (st_unlocked st) false = true)
           (b_transfer a (S a))
           (fun _ st => set_unlocked (upd (S a) true (st_unlocked st)) st) (fun _ _ => [])); auto.
  - intros i Hi; destruct (H i Hi) as (A & B); split; [apply (l_unl A)|]. intros; apply B; lia.
  - intros msl i st (Hlen & Hu); unfold b_transfer, transfer.
    replace (a <? S a) with true by (symmetry; apply Nat.ltb_lt; lia).
    rewrite Hu by lia. eexists; split; eauto.
  - intros i st (Hlen & Hu); unfold RC; simpl; repeat split; auto.
    + apply upd_length.
    + intros l Hl. rewrite nth_upd. destruct ((l =? S a) && (S a <? length (st_unlocked st))); auto.
    + intros l Hl Hl'. rewrite nth_upd. destruct (Nat.eqb_spec l (S a)) as [->|N]; simpl.
      * replace (S a <? length (st_unlocked st)) with true; auto. symmetry; apply Nat.ltb_lt; lia.
      * apply Hu; lia.
Qed.

(* prolongation a -> a-1 (any target not above the source) *)
Lemma loop_transfer_up d k sg p a b s :
  rok d k sg p s -> a < p -> a < nlev c -> b <= a ->
  exists s', for_steps (seq d (n - d)) (b_transfer a b) s = Ok s'
             /\ pw_rel (seq d (n - d)) (RC id 0 []) s s'.
Proof.
  intros (L & H) Ha Hn Hb.
  apply (@loop_simple d (fun i st => nth a (st_unlocked st) false = true) (b_transfer a b)
           (fun _ st => st) (fun _ _ => [])); auto.
  - intros i Hi; apply H; auto.
  - intros msl i st Hu; unfold b_transfer, transfer.
    replace (a <? b) with false by (symmetry; apply Nat.ltb_ge; lia).
    rewrite Hu. eexists; split; eauto.
  - intros; apply RC_core_eq, core_eq_refl.
Qed.

Fixpoint rep (hs : list hook) (m : nat) : list hook :=
  match m with 0 => [] | S k => hs ++ rep hs k end.

Lemma rep_sw m : rep [PreSweep; PostSweep] m = sw_hooks m.
Proof. induction m; simpl; auto. rewrite IHm; auto. Qed.

Lemma rep_nil m : rep [] m = [].
Proof. induction m; simpl; auto. Qed.

Lemma RC_id_comp p1 h1 p2 h2 j a b h :
  rcomp (RC id p1 h1) (RC id p2 h2) j a b h -> RC id (Nat.max p1 p2) (h1 ++ h2) j a b h.
Proof. intros H; apply RC_comp in H; auto. Qed.

(* m rounds, each keeping the core and emitting hs *)
Lemma rounds d k sg p A (xs : list A) (f : A -> bstate -> res) hs :
  (forall x s, In x xs -> rok d k sg p s ->
     exists s', f x s = Ok s' /\ pw_rel (seq d (n - d)) (RC id 0 hs) s s') ->
  forall s, rok d k sg p s ->
  exists s', for_each xs f s = Ok s' /\ pw_rel (seq d (n - d)) (RC id 0 (rep hs (length xs))) s s'.
Proof.
  induction xs as [|x xs IH]; intros H s Hs; simpl.
  - exists s; split; auto. apply pw_rel_refl; intros; apply RC_refl.
  - destruct (H x s (or_introl eq_refl) Hs) as (s1 & E1 & P1). rewrite E1; simpl.
    destruct (IH (fun y s0 Hy => H y s0 (or_intror Hy)) s1) as (s2 & E2 & P2).
    { replace p with (Nat.max p 0) by lia. change sg with (id sg). eapply rok_step; eauto. }
    exists s2; split; auto.
    eapply pw_rel_weaken; [|eapply pw_rel_comp; eauto].
    intros j a b h Hc; apply RC_id_comp in Hc; auto.
Qed.

Lemma mid_sweeps_ok d k sg p l sgx s :
  rok d k sg p s -> l < p -> l < nlev c ->
  exists s', mid_sweeps c (seq d (n - d)) l sgx s = Ok s'
             /\ pw_rel (seq d (n - d)) (RC id 0 (sw_hooks (nsw c l))) s s'.
Proof.
  intros Hs Hl Hn. unfold mid_sweeps.
  destruct (@rounds d k sg p nat (seq 0 (nsw c l))
              (fun _ s => for_steps (seq d (n - d)) (b_sendrecv l) s >>= for_steps (seq d (n - d)) (b_sweep l sgx))
              [PreSweep; PostSweep]) with (s := s) as (s' & E & P); auto.
  - intros _ s0 _ H0.
    destruct (@then_pw (for_steps (seq d (n - d)) (b_sendrecv l)) (for_steps (seq d (n - d)) (b_sweep l sgx))
                (seq d (n - d)) (RC id 0 []) (RC id 0 [PreSweep; PostSweep]) s0) as (s2 & E2 & P2).
    + apply loop_sendrecv with (k := k) (sg := sg) (p := p); auto.
    + intros s1 P1. apply loop_sweep with (k := k) (sg := sg) (p := p); auto.
      replace p with (Nat.max p 0) by lia. change sg with (id sg). eapply rok_step; eauto.
    + exists s2; split; auto. eapply pw_rel_weaken; [|eauto].
      intros j a b h Hc; apply RC_id_comp in Hc; auto.
  - exists s'; split; auto. rewrite seq_length, rep_sw in P; auto.
Qed.

(* context-free body given as a relation *)
Lemma loop_simple_rel a (P : nat -> step -> Prop) (b : nat -> step -> sres) (R : srel) s :
  length (ms s) = n ->
  (forall i, a <= i < n -> P i (nth i (ms s) dummy_step)) ->
  (forall i st, P i st -> exists st' evs, b i st = SOk st' evs /\ R i st st' (hooks_of evs)) ->
  exists s', for_steps (seq a (n - a)) (fun _ i st => b i st) s = Ok s' /\ pw_rel (seq a (n - a)) R s s'.
Proof.
  intros L HP HB.
  apply (@loop_simple a P (fun _ i st => b i st)
           (fun i st => match b i st with SOk st' _ => st' | SErr _ _ => st end)
           (fun i st => match b i st with SOk _ evs => hooks_of evs | SErr _ _ => [] end)); auto.
  - intros msl i st Pi. destruct (HB i st Pi) as (st' & evs & E & _). rewrite E. eauto.
  - intros i st Pi. destruct (HB i st Pi) as (st' & evs & E & r). rewrite E. auto.
Qed.

Lemma rok_len d k sg p s : rok d k sg p s -> length (ms s) = n.
Proof. intros (L & _); auto. Qed.

Lemma rok_id_step d k sg p q hs s s' :
  rok d k sg p s -> pw_rel (seq d (n - d)) (RC id q hs) s s' -> rok d k sg p s'.
Proof.
  intros H P. apply rok_weaken with (p := Nat.max p q); try lia.
  change sg with (id sg). eapply rok_step; eauto.
Qed.

(* ---- spread *)
Lemma spread_ok d k s :
  rok d k SPREAD 0 s -> 1 <= nlev c ->
  exists s', spread c (seq d (n - d)) s = Ok s' /\
     pw_rel (seq d (n - d)) (RC (fun _ => if 1 <? nlev c then PREDICT else IT_CHECK) 1 [PreStep]) s s'.
Proof.
  intros (L & H) Hn. unfold spread.
  apply (@loop_simple_rel d (fun i st => length (st_unlocked st) = nlev c)); auto.
  - intros i Hi; destruct (H i Hi) as (A & _); apply (l_unl A).
  - intros i st Hl. eexists; eexists; split; eauto.
    unfold RC; simpl; repeat split; auto.
    + apply upd_length.
    + intros l Hu; rewrite nth_upd. destruct ((l =? 0) && (0 <? length (st_unlocked st))); auto.
    + intros l Hl1 Hl2. rewrite nth_upd. replace l with 0 by lia. simpl.
      replace (0 <? length (st_unlocked st)) with true; auto. symmetry; apply Nat.ltb_lt; lia.
Qed.

(* ---- it_fine *)
Lemma loop_core_only d (b : nat -> step -> sres) s :
  length (ms s) = n ->
  (forall i st, exists st', b i st = SOk st' [] /\ core_eq st st') ->
  exists s', for_steps (seq d (n - d)) (fun _ i st => b i st) s = Ok s' /\ pw_rel (seq d (n - d)) (RC id 0 []) s s'.
Proof.
  intros L H. apply (@loop_simple_rel d (fun _ _ => True)); auto.
  intros i st _. destruct (H i st) as (st' & E & Hc). exists st', []; split; auto. apply RC_core_eq; auto.
Qed.

Lemma set_sweeps_core x st : core_eq st (set_sweeps x st).
Proof. repeat split. Qed.

Lemma it_fine_ok d k sg s :
  rok d k sg 1 s -> 1 <= nlev c ->
  exists s', it_fine c (seq d (n - d)) s = Ok s' /\
     pw_rel (seq d (n - d)) (RC (fun _ => IT_CHECK) 0 (sw_hooks (nsw c 0))) s s'.
Proof.
  intros Hs Hn. unfold it_fine. set (run := seq d (n - d)).
  destruct (@then_pw
    (fun s => for_steps run (fun _ _ st => SOk (set_sweeps (upd 0 0 (st_sweeps st)) st) []) s >>=
              for_each (seq 0 (nsw c 0)) (fun _ s =>
                for_steps run (fun _ _ st => SOk (set_sweeps (upd 0 (S (nth 0 (st_sweeps st) 0)) (st_sweeps st)) st) []) s >>=
                for_steps run (b_sendrecv 0) >>= for_steps run (b_sweep 0 IT_FINE)))
    (for_steps run (b_set_stage IT_CHECK)) run
    (RC id 0 (sw_hooks (nsw c 0))) (RC (fun _ => IT_CHECK) 0 []) s) as (s2 & E2 & P2).
  - destruct (@then_pw
      (for_steps run (fun _ _ st => SOk (set_sweeps (upd 0 0 (st_sweeps st)) st) []))
      (for_each (seq 0 (nsw c 0)) (fun _ s =>
                for_steps run (fun _ _ st => SOk (set_sweeps (upd 0 (S (nth 0 (st_sweeps st) 0)) (st_sweeps st)) st) []) s >>=
                for_steps run (b_sendrecv 0) >>= for_steps run (b_sweep 0 IT_FINE)))
      run (RC id 0 []) (RC id 0 (sw_hooks (nsw c 0))) s) as (s1 & E1 & P1).
    + apply (@loop_core_only d (fun _ st => SOk (set_sweeps (upd 0 0 (st_sweeps st)) st) [])).
      * eapply rok_len; eauto.
      * intros; eexists; split; eauto. apply set_sweeps_core.
    + intros s1 P1. assert (H1 : rok d k sg 1 s1) by (eapply rok_id_step; eauto).
      destruct (@rounds d k sg 1 nat (seq 0 (nsw c 0)) (fun _ s =>
                for_steps run (fun _ _ st => SOk (set_sweeps (upd 0 (S (nth 0 (st_sweeps st) 0)) (st_sweeps st)) st) []) s >>=
                for_steps run (b_sendrecv 0) >>= for_steps run (b_sweep 0 IT_FINE)) [PreSweep; PostSweep])
        with (s := s1) as (s2 & E2 & P2); auto.
      * intros _ s0 _ H0.
        destruct (@then_pw (fun s => for_steps run (fun _ _ st => SOk (set_sweeps (upd 0 (S (nth 0 (st_sweeps st) 0)) (st_sweeps st)) st) []) s >>=
                for_steps run (b_sendrecv 0)) (for_steps run (b_sweep 0 IT_FINE)) run
                (RC id 0 []) (RC id 0 [PreSweep; PostSweep]) s0) as (s4 & E4 & P4).
        -- destruct (@then_pw (for_steps run (fun _ _ st => SOk (set_sweeps (upd 0 (S (nth 0 (st_sweeps st) 0)) (st_sweeps st)) st) []))
                (for_steps run (b_sendrecv 0)) run (RC id 0 []) (RC id 0 []) s0) as (s3 & E3 & P3).
           ++ apply (@loop_core_only d (fun _ st => SOk (set_sweeps (upd 0 (S (nth 0 (st_sweeps st) 0)) (st_sweeps st)) st) [])).
              ** eapply rok_len; eauto.
              ** intros; eexists; split; eauto. apply set_sweeps_core.
           ++ intros s3 P3. apply loop_sendrecv with (k := k) (sg := sg) (p := 1); try lia.
              eapply rok_id_step; eauto.
           ++ exists s3; split; auto. eapply pw_rel_weaken; [|eauto].
              intros j a b h Hc; apply RC_id_comp in Hc; auto.
        -- intros s3 P3. apply loop_sweep with (k := k) (sg := sg) (p := 1); try lia.
           eapply rok_id_step; eauto.
        -- exists s4; split; auto. eapply pw_rel_weaken; [|eauto].
           intros j a b h Hc; apply RC_id_comp in Hc; auto.
      * exists s2; split; auto. rewrite seq_length, rep_sw in P2; auto.
    + exists s1; split; auto. eapply pw_rel_weaken; [|eauto].
      intros j a b h Hc; apply RC_id_comp in Hc; auto.
  - intros s1 P1. apply loop_set_stage. destruct P1 as (L1 & _). rewrite L1. eapply rok_len; eauto.
  - exists s2; split; auto. eapply pw_rel_weaken; [|eauto].
    intros j a b h Hc; apply RC_comp in Hc; simpl in Hc. rewrite app_nil_r in Hc. auto.
Qed.

Lemma RC_ext f1 p1 h1 f3 p3 h3 j a b h :
  (forall x, f3 x = f1 x) -> p3 <= p1 -> h3 = h1 -> RC f1 p1 h1 j a b h -> RC f3 p3 h3 j a b h.
Proof.
  intros Hf Hp -> (A1 & A2 & A3 & A4 & A5 & A6 & A7 & A8 & A9 & A10 & ->); unfold RC; repeat split; auto.
  - rewrite Hf; auto.
  - intros; apply A10; auto; lia.
Qed.

Lemma then_RC (f g : bstate -> res) idxs f1 p1 h1 f2 p2 h2 f3 p3 h3 s :
  (exists s1, f s = Ok s1 /\ pw_rel idxs (RC f1 p1 h1) s s1) ->
  (forall s1, pw_rel idxs (RC f1 p1 h1) s s1 -> exists s2, g s1 = Ok s2 /\ pw_rel idxs (RC f2 p2 h2) s1 s2) ->
  (forall x, f3 x = f2 (f1 x)) -> p3 <= Nat.max p1 p2 -> h3 = h1 ++ h2 ->
  exists s2, (f s >>= g) = Ok s2 /\ pw_rel idxs (RC f3 p3 h3) s s2.
Proof.
  intros H1 H2 Hf Hp Hh. destruct (@then_pw f g idxs _ _ s H1 H2) as (s2 & E & P).
  exists s2; split; auto. eapply pw_rel_weaken; [|eauto].
  intros j a b h Hc. apply RC_comp in Hc. eapply RC_ext; [| | |exact Hc]; auto.
Qed.

Lemma then_RC' (r : res) (g : bstate -> res) idxs f1 p1 h1 f2 p2 h2 f3 p3 h3 s :
  (exists s1, r = Ok s1 /\ pw_rel idxs (RC f1 p1 h1) s s1) ->
  (forall s1, pw_rel idxs (RC f1 p1 h1) s s1 -> exists s2, g s1 = Ok s2 /\ pw_rel idxs (RC f2 p2 h2) s1 s2) ->
  (forall x, f3 x = f2 (f1 x)) -> p3 <= Nat.max p1 p2 -> h3 = h1 ++ h2 ->
  exists s2, (r >>= g) = Ok s2 /\ pw_rel idxs (RC f3 p3 h3) s s2.
Proof. intros H1. apply (@then_RC (fun _ => r) g idxs f1 p1 h1 f2 p2 h2 f3 p3 h3 s H1). Qed.

(* rounds with a varying number of sweeps *)
Lemma rounds_var d k sg p A (xs : list A) (f : A -> bstate -> res) :
  (forall x s, In x xs -> rok d k sg p s ->
     exists s' h, f x s = Ok s' /\ pw_rel (seq d (n - d)) (RC id 0 (sw_hooks h)) s s') ->
  forall s, rok d k sg p s ->
  exists s' h, for_each xs f s = Ok s' /\ pw_rel (seq d (n - d)) (RC id 0 (sw_hooks h)) s s'.
Proof.
  induction xs as [|x xs IH]; intros H s Hs; simpl.
  - exists s, 0; split; auto. apply pw_rel_refl; intros; apply RC_refl.
  - destruct (H x s (or_introl eq_refl) Hs) as (s1 & h1 & E1 & P1). rewrite E1; simpl.
    destruct (IH (fun y s0 Hy => H y s0 (or_intror Hy)) s1) as (s2 & h2 & E2 & P2); [eapply rok_id_step; eauto|].
    exists s2, (h1 + h2); split; auto.
    eapply pw_rel_weaken; [|eapply pw_rel_comp; eauto].
    intros j a b h Hc; apply RC_id_comp in Hc. rewrite sw_hooks_add; auto.
Qed.

(* ---- it_down *)
Lemma it_down_levels d k sg : forall m a s,
  rok d k sg (S a) s -> a + m < nlev c ->
  exists s' h,
    for_each (seq a m) (fun l s => mid_sweeps c (seq d (n - d)) l IT_DOWN s >>=
                                   for_steps (seq d (n - d)) (b_transfer l (S l))) s = Ok s'
    /\ pw_rel (seq d (n - d)) (RC id 0 (sw_hooks h)) s s' /\ rok d k sg (S (a + m)) s'.
Proof.
  induction m; intros a s Hs Ha; simpl.
  - exists s, 0; split; auto. split.
    + apply pw_rel_refl; intros; apply RC_refl.
    + replace (a + 0) with a by lia. apply Hs.
  - destruct (@then_RC (mid_sweeps c (seq d (n - d)) a IT_DOWN) (for_steps (seq d (n - d)) (b_transfer a (S a)))
               (seq d (n - d)) id 0 (sw_hooks (nsw c a)) id (S (S a)) [] id (S (S a)) (sw_hooks (nsw c a)) s)
      as (s1 & E1 & P1); auto; try lia.
    + apply mid_sweeps_ok with (k := k) (sg := sg) (p := S a); auto; lia.
    + intros s1 P1. apply loop_transfer_down with (k := k) (sg := sg); try lia. eapply rok_id_step; eauto.
    + rewrite app_nil_r; auto.
    + rewrite E1; simpl.
      destruct (IHm (S a) s1) as (s2 & h2 & E2 & P2 & R2); try lia.
      { replace (S (S a)) with (Nat.max (S a) (S (S a))) by lia. change sg with (id sg). eapply rok_step; eauto. }
      exists s2, (nsw c a + h2); split; auto. split.
      * eapply pw_rel_weaken; [|eapply pw_rel_comp; eauto].
        intros j x y h Hc; apply RC_id_comp in Hc. rewrite sw_hooks_add. eapply RC_weaken; [|eauto]. lia.
      * replace (a + S m) with (S a + m) by lia. apply R2.
Qed.

Lemma it_down_ok d k sg s :
  rok d k sg 1 s -> 2 <= nlev c ->
  exists s' h, it_down c (seq d (n - d)) s = Ok s' /\
     pw_rel (seq d (n - d)) (RC (fun _ => IT_COARSE) (nlev c) (sw_hooks h)) s s'.
Proof.
  intros Hs Hn. unfold it_down.
  replace (nlev c <? 2) with false by (symmetry; apply Nat.ltb_ge; lia).
  destruct (@loop_transfer_down d k sg 0 s) as (s1 & E1 & P1); auto; try lia.
  assert (R1 : rok d k sg 2 s1).
  { replace 2 with (Nat.max 1 2) by lia. change sg with (id sg). eapply rok_step; eauto. }
  destruct (@it_down_levels d k sg (nlev c - 2) 1 s1) as (s2 & h & E2 & P2 & R2); auto; try lia.
  destruct (@loop_set_stage d IT_COARSE s2) as (s3 & E3 & P3); [eapply rok_len; eauto|].
  exists s3, h. rewrite E1; simpl. rewrite E2; simpl. split; auto.
  (* assemble the relation by hand: unlocked for all levels comes from rok at s2 *)
  destruct P1 as (L1 & U1 & C1), P2 as (L2 & U2 & C2), P3 as (L3 & U3 & C3).
  repeat split; try congruence.
  - destruct (U1 j H), (U2 j H), (U3 j H); congruence.
  - destruct (U1 j H), (U2 j H), (U3 j H); congruence.
  - intros j Ij Hj.
    destruct (C1 j Ij Hj) as (h1 & r1 & t1). destruct (C2 j Ij) as (h2 & r2 & t2); [congruence|].
    destruct (C3 j Ij) as (h3 & r3 & t3); [congruence|].
    exists (sw_hooks h); split.
    + destruct r1 as (A1 & A2 & A3 & A4 & A5 & A6 & A7 & A8 & A9 & A10 & ->).
      destruct r2 as (B1 & B2 & B3 & B4 & B5 & B6 & B7 & B8 & B9 & B10 & ->).
      destruct r3 as (D1 & D2 & D3 & D4 & D5 & D6 & D7 & D8 & D9 & D10 & ->).
      unfold RC; repeat split; try congruence; auto.
      intros l Hl Hl'. apply D9. destruct R2 as (_ & R2). apply in_run in Ij.
      destruct (R2 j Ij) as (_ & Hu). apply Hu; lia.
    + destruct r1 as (_ & _ & _ & _ & _ & _ & _ & _ & _ & _ & ->).
      destruct r2 as (_ & _ & _ & _ & _ & _ & _ & _ & _ & _ & ->).
      destruct r3 as (_ & _ & _ & _ & _ & _ & _ & _ & _ & _ & ->).
      rewrite t3, t2, t1; simpl. rewrite !app_nil_r; auto.
Qed.

(* ---- it_coarse *)
Lemma it_coarse_ok d k sg s :
  rok d k sg (nlev c) s -> 1 <= nlev c ->
  exists s', it_coarse c (seq d (n - d)) s = Ok s' /\
     pw_rel (seq d (n - d)) (RC (fun _ => if 1 <? nlev c then IT_UP else IT_CHECK) 0 [PreSweep; PostSweep]) s s'.
Proof.
  intros (L & H) Hn. unfold it_coarse. set (lc := nlev c - 1). set (sg' := if 1 <? nlev c then IT_UP else IT_CHECK).
  destruct (@loop_recv d k lc (fun i st => loc d k sg i st /\ nth lc (st_unlocked st) false = true)
              (fun _ st => SOk st [])
              (fun i st => sbind (sweep_block lc IT_COARSE st) (fun st => sbind (send_full lc i st) (fun st => SOk (set_stage sg' st) [])))
              (fun _ st => st) (fun i st => set_stage sg' (snd_eff lc i st))
              (fun _ _ => []) (fun _ _ => [PreSweep; PostSweep])
              (RC (fun _ => sg') 0 [PreSweep; PostSweep]) s) as (s' & E & PW); auto.
  - intros i Hi; destruct (H i Hi) as (A & B); split; auto. apply B; unfold lc; lia.
  - intros; eexists; split; eauto.
  - intros i st (Li & Hu). destruct (sweep_block_ok lc IT_COARSE st Hu) as (e1 & E1 & H1).
    destruct (send_full_eq lc i st) as (e2 & E2 & H2).
    eexists; split.
    + eapply sbind_ok; eauto. eapply sbind_ok; eauto.
    + rewrite !hooks_of_app, H1, H2; simpl; auto.
  - intros i st (Li & _) Hi; split; [apply (l_iter Li)|]. intros; eapply loc_recv_cond; eauto; lia.
  - intros i st (Li & _) Hi Hn'. simpl. rewrite <- (l_iter Li). apply snd_eff_tag.
    + rewrite (l_last Li). apply Nat.eqb_neq; lia.
    + rewrite (l_tags Li); unfold lc; lia.
  - intros i st _. destruct (snd_eff_core lc i st) as (E1 & E2 & E3 & E4 & E5 & E6 & E7 & E8 & E9).
    unfold RC; simpl; repeat split; auto; try congruence; try (intros; lia); try (intros l; rewrite E8; auto).
  - exists s'; split; auto. rewrite <- E. apply for_steps_ext.
    intros msl i st; simpl. destruct (recv_full lc msl i st); simpl; auto.
    fold lc. fold sg'.
    destruct (sbind (sweep_block lc IT_COARSE st0)
       (fun st1 => sbind (send_full lc i st1) (fun st2 => SOk (set_stage sg' st2) []))); simpl; auto.
Qed.

(* ---- it_up *)
Lemma it_up_ok d k sg s :
  rok d k sg (nlev c) s -> 1 <= nlev c ->
  exists s' h, it_up c (seq d (n - d)) s = Ok s' /\
     pw_rel (seq d (n - d)) (RC (fun _ => IT_FINE) 0 (sw_hooks h)) s s'.
Proof.
  intros Hs Hn. unfold it_up. set (run := seq d (n - d)).
  destruct (@rounds_var d k sg (nlev c) nat (rev (seq 1 (nlev c - 1)))
              (fun l s => for_steps run (b_transfer l (l - 1)) s >>= fun s =>
                          if 0 <? l - 1 then mid_sweeps c run (l - 1) IT_UP s else Ok s)) with (s := s)
    as (s1 & h & E1 & P1); auto.
  - intros l s0 Hin H0. apply in_rev, in_seq in Hin. assert (Hl : l < nlev c) by lia.
    destruct (Nat.ltb_spec l (nlev c)) as [_|Hl']; [|lia].
    + destruct (@loop_transfer_up d k sg (nlev c) l (l - 1) s0) as (s2 & E2 & P2); auto; try lia.
      fold run in E2. rewrite E2; simpl.
      destruct (0 <? l - 1) eqn:El.
      * apply Nat.ltb_lt in El.
        destruct (@mid_sweeps_ok d k sg (nlev c) (l - 1) IT_UP s2) as (s3 & E3 & P3); try lia.
        { eapply rok_id_step; eauto. }
        exists s3, (nsw c (l - 1)); split; auto.
        eapply pw_rel_weaken; [|eapply pw_rel_comp; eauto].
        intros j a b h Hc; apply RC_id_comp in Hc; auto.
      * exists s2, 0; split; auto.
  - destruct (@loop_set_stage d IT_FINE s1) as (s2 & E2 & P2).
    { destruct P1 as (L1 & _). rewrite L1. eapply rok_len; eauto. }
    exists s2, h. rewrite E1; simpl. split; auto.
    eapply pw_rel_weaken; [|eapply pw_rel_comp; eauto].
    intros j a b h0 Hc; apply RC_comp in Hc. rewrite app_nil_r in Hc. auto.
Qed.

(* ---- predict *)
Lemma fold_restrict_ok : forall m a st evs0,
  length (st_unlocked st) = nlev c -> (forall l, l <= a -> nth l (st_unlocked st) false = true) ->
  a + m < nlev c ->
  exists st' evs,
    fold_left (fun r l => sbind r (transfer (l - 1) l)) (seq (S a) m) (SOk st evs0) = SOk st' evs
    /\ hooks_of evs = hooks_of evs0 /\ RC id 0 [] 0 st st' []
    /\ (forall l, l <= a + m -> nth l (st_unlocked st') false = true).
Proof.
  induction m; intros a st evs0 Hlen Hu Ha; simpl.
  - exists st, evs0; repeat split; auto; try (intros; lia). intros; apply Hu; lia.
  - unfold transfer at 2. replace (a - 0) with a by lia.
    replace (a <? S a) with true by (symmetry; apply Nat.ltb_lt; lia).
    rewrite Hu by lia.
    set (st1 := set_unlocked (upd (S a) true (st_unlocked st)) st).
    destruct (IHm (S a) st1 (evs0 ++ [LTransfer a (S a)])) as (st' & evs & E & Hh & R & U); try lia.
    + unfold st1; simpl. rewrite upd_length; auto.
    + intros l Hl. unfold st1; simpl. rewrite nth_upd.
      destruct (Nat.eqb_spec l (S a)); simpl.
      * replace (S a <? length (st_unlocked st)) with true; auto. symmetry; apply Nat.ltb_lt; lia.
      * apply Hu; lia.
    + exists st', evs; split; [|split; [|split]].
      * rewrite <- E. reflexivity.
      * rewrite Hh, hooks_of_app; simpl. rewrite app_nil_r; auto.
      * assert (R1 : RC id 0 [] 0 st st1 []).
        { unfold RC, st1; simpl; repeat split; auto; try (intros; lia).
          - apply upd_length.
          - intros l Hl; rewrite nth_upd. destruct ((l =? S a) && (S a <? length (st_unlocked st))); auto. }
        apply (@RC_id_comp 0 [] 0 []). exists st1, [], []; auto.
      * intros l Hl; apply U; lia.
Qed.

Lemma fold_prolong_ok : forall ls st evs0,
  (forall l, In l ls -> nth l (st_unlocked st) false = true /\ 1 <= l) ->
  exists evs, fold_left (fun r l => sbind r (transfer l (l - 1))) ls (SOk st evs0) = SOk st evs
              /\ hooks_of evs = hooks_of evs0.
Proof.
  induction ls; intros st evs0 H; simpl.
  - exists evs0; auto.
  - destruct (H a (or_introl eq_refl)) as (Hu & Ha).
    unfold transfer at 2. replace (a <? a - 1) with false by (symmetry; apply Nat.ltb_ge; lia).
    rewrite Hu; simpl.
    destruct (IHls st (evs0 ++ [LTransfer a (a - 1)])) as (evs & E & Hh).
    + intros l Hl; apply H; simpl; auto.
    + exists evs; split; auto. rewrite Hh, hooks_of_app; simpl. rewrite app_nil_r; auto.
Qed.

Lemma skipn_seq' q a m : skipn q (seq a m) = seq (a + q) (m - q).
Proof.
  revert a m; induction q; intros a m; simpl.
  - rewrite Nat.add_0_r, Nat.sub_0_r; auto.
  - destruct m; simpl; auto. rewrite IHq. f_equal; lia.
Qed.

Lemma loop_recv_only a l s :
  length (ms s) = n ->
  (forall i, a <= i < n -> let st := nth i (ms s) dummy_step in
     st_prev_done st = false -> st_first st = false ->
     0 < i /\ nth l (st_tags (nth (i - 1) (ms s) dummy_step)) None = Some (l, st_iter st, i - 1)) ->
  exists s', for_steps (seq a (n - a)) (fun msl i st => recv_full l msl i st) s = Ok s'
             /\ pw_rel (seq a (n - a)) (RC id 0 []) s s'.
Proof.
  intros L H.
  destruct (@for_steps_pw (fun msl i st => recv_full l msl i st) (fun _ st => st) (fun _ _ => []) s (seq a (n - a)))
    as (s' & E & PW).
  - apply seq_NoDup.
  - intros i Hi; apply in_seq in Hi; lia.
  - intros pre i post s1 E (L1 & N1 & _). apply seq_split in E as (_ & Hi & _).
    apply recv_ok. intros Hp Hf. destruct (H i) as (Hi0 & Ht); auto; try lia.
    rewrite prev_idx_pos by lia. rewrite N1. destruct (inb (i - 1) pre); auto.
  - exists s'; split; auto. eapply pw_fun_rel; eauto. intros; apply RC_refl.
Qed.

Lemma sub_run d q j : inb j (seq (d + q) (n - (d + q))) = true -> inb j (seq d (n - d)) = true.
Proof. rewrite !inb_seq, !andb_true_iff, !Nat.leb_le, !Nat.ltb_lt. lia. Qed.

Lemma burnin_round_ok d k sg q s :
  rok d k sg (nlev c) s -> 1 <= nlev c -> d + q < n ->
  exists s', burnin_round c (seq d (n - d)) q s = Ok s' /\ pw_rel (seq d (n - d)) (RC id 0 []) s s'.
Proof.
  intros Hs Hn Hq. destruct Hs as (L & H). unfold burnin_round. set (lc := nlev c - 1).
  rewrite !skipn_seq'. replace (n - d - q) with (n - (d + q)) by lia.
  replace (d + S q) with (S (d + q)) by lia. replace (n - d - S q) with (n - S (d + q)) by lia.
  destruct (@loop_simple_rel (d + q) (fun i st => loc d k sg i st /\ nth lc (st_unlocked st) false = true)
              (fun i st => sbind (update_nodes lc st) (send_full lc i))
              (fun j a b h => b = snd_eff lc j a /\ h = []) s) as (s1 & E1 & P1); auto.
  - intros i Hi. destruct (H i) as (A & B); try lia. split; auto. apply B; unfold lc; lia.
  - intros i st (Li & Hu). rewrite update_nodes_ok by auto. simpl.
    destruct (send_full_eq lc i st) as (e & E & Hh). rewrite E. eexists; eexists; split; eauto.
  - rewrite E1; simpl.
    destruct P1 as (L1 & U1 & C1).
    assert (N1 : forall j, nth j (ms s1) dummy_step =
                           if inb j (seq (d + q) (n - (d + q))) then snd_eff lc j (nth j (ms s) dummy_step)
                           else nth j (ms s) dummy_step).
    { intros j. destruct (inb j (seq (d + q) (n - (d + q)))) eqn:Ej.
      - destruct (C1 j Ej) as (h & (-> & _) & _); auto.
        rewrite inb_seq in Ej. apply andb_true_iff in Ej as (_ & Ej). apply Nat.ltb_lt in Ej. lia.
      - apply U1; auto. }
    destruct (@loop_recv_only (S (d + q)) lc s1) as (s2 & E2 & P2); try congruence.
    + intros i Hi st Hp Hf.
      assert (Ei : inb i (seq (d + q) (n - (d + q))) = true).
      { rewrite inb_seq. apply andb_true_iff; split; [apply Nat.leb_le|apply Nat.ltb_lt]; lia. }
      assert (Ep : inb (i - 1) (seq (d + q) (n - (d + q))) = true).
      { rewrite inb_seq. apply andb_true_iff; split; [apply Nat.leb_le|apply Nat.ltb_lt]; lia. }
      split; [lia|]. unfold st. rewrite (N1 i), (N1 (i - 1)), Ei, Ep.
      destruct (H i) as (Ai & _); try lia. destruct (H (i - 1)) as (Ap & _); try lia.
      destruct (snd_eff_core lc i (nth i (ms s) dummy_step)) as (_ & -> & _).
      rewrite (l_iter Ai), <- (l_iter Ap). apply snd_eff_tag.
      * rewrite (l_last Ap). apply Nat.eqb_neq; lia.
      * rewrite (l_tags Ap); unfold lc; lia.
    + exists s2; split; auto.
      assert (P1' : pw_rel (seq d (n - d)) (RC id 0 []) s s1).
      { apply pw_rel_sub with (idxs' := seq (d + q) (n - (d + q))).
        - intros j; apply sub_run.
        - intros; apply RC_refl.
        - repeat split; auto; try apply U1; auto.
          intros j Ej Hj. destruct (C1 j Ej Hj) as (h & (Eb & ->) & t). exists []; split; auto.
          rewrite Eb. apply RC_core_eq, snd_eff_core. }
      assert (P2' : pw_rel (seq d (n - d)) (RC id 0 []) s1 s2).
      { apply pw_rel_sub with (idxs' := seq (S (d + q)) (n - S (d + q))); auto.
        - intros j Hj. replace (S (d + q)) with (d + S q) in Hj by lia. eapply sub_run; eauto.
        - intros; apply RC_refl. }
      eapply pw_rel_weaken; [|eapply pw_rel_comp; eauto].
      intros j a b h Hc; apply RC_id_comp in Hc; auto.
Qed.

Lemma sbind_assoc r f g : sbind (sbind r f) g = sbind r (fun x => sbind (f x) g).
Proof.
  destruct r as [st evs|e evs]; simpl; auto.
  destruct (f st) as [st1 evs1|e1 evs1]; simpl; auto.
  destruct (g st1); simpl; rewrite app_assoc; auto.
Qed.

Lemma sbind_ext r f g : (forall x, f x = g x) -> sbind r f = sbind r g.
Proof. intros H; destruct r; simpl; auto. rewrite H; auto. Qed.

Definition ptype_ok (p : ptype) : Prop := p = PNone \/ p = PFineOnly \/ p = PBurnin.

Lemma predict_mid_ok d k sg s :
  rok d k sg 1 s -> 1 <= nlev c -> ptype_ok (predict_type c) ->
  exists s', predict_mid c (seq d (n - d)) s = Ok s' /\ pw_rel (seq d (n - d)) (RC id 0 []) s s'.
Proof.
  intros Hs Hn Hp. unfold predict_mid. set (run := seq d (n - d)).
  destruct Hp as [-> | [-> | ->]].
  - exists s; split; auto. apply pw_rel_refl; intros; apply RC_refl.
  - apply (@loop_simple_rel d (fun i st => nth 0 (st_unlocked st) false = true)).
    + eapply rok_len; eauto.
    + intros i Hi. destruct Hs as (_ & H). apply H; auto.
    + intros i st Hu. rewrite update_nodes_ok by auto. eexists; eexists; split; eauto.
      apply RC_core_eq, core_eq_refl.
  - (* burn-in *)
    destruct (@loop_simple_rel d (fun i st => length (st_unlocked st) = nlev c /\ nth 0 (st_unlocked st) false = true)
                (fun _ st => fold_left (fun r l => sbind r (transfer (l - 1) l)) (seq 1 (nlev c - 1)) (SOk st []))
                (RC id (nlev c) []) s) as (s1 & E1 & P1).
    + eapply rok_len; eauto.
    + intros i Hi. destruct Hs as (_ & H). destruct (H i Hi) as (A & B). split; [apply (l_unl A)|apply B; lia].
    + intros i st (Hlen & Hu).
      destruct (@fold_restrict_ok (nlev c - 1) 0 st []) as (st' & evs & E & Hh & R & U); auto; try lia.
      { intros l Hl; replace l with 0 by lia; auto. }
      exists st', evs; split; auto. rewrite Hh; simpl.
      destruct R as (A1 & A2 & A3 & A4 & A5 & A6 & A7 & A8 & A9 & A10 & _).
      unfold RC; repeat split; auto. intros l Hl _. apply U; lia.
    + fold run in E1. rewrite E1; simpl.
      assert (R1 : rok d k sg (nlev c) s1).
      { replace (nlev c) with (Nat.max 1 (nlev c)) by lia. change sg with (id sg). eapply rok_step; eauto. }
      destruct (@rounds d k sg (nlev c) nat (seq 0 (length run)) (burnin_round c run) []) with (s := s1)
        as (s2 & E2 & P2); auto.
      { intros q s0 Hq H0. apply in_seq in Hq. unfold run in Hq. rewrite seq_length in Hq.
        apply burnin_round_ok with (k := k) (sg := sg); auto; lia. }
      rewrite E2; simpl. rewrite rep_nil in P2.
      assert (R2 : rok d k sg (nlev c) s2) by (eapply rok_id_step; eauto).
      destruct (@loop_recv d k 0 (fun i st => loc d k sg i st /\ forall l, l < nlev c -> nth l (st_unlocked st) false = true)
                  (fun i st => sbind (fold_left (fun r l => sbind r (transfer l (l - 1))) (rev (seq 1 (nlev c - 1))) (SOk st []))
                                     (send_full 0 i))
                  (fun _ st => SOk st [])
                  (snd_eff 0) (fun _ st => st) (fun _ _ => []) (fun _ _ => []) (RC id 0 []) s2) as (s3 & E3 & P3).
      * eapply rok_len; eauto.
      * intros i Hi. destruct R2 as (_ & H). destruct (H i Hi) as (A & B). split; auto.
      * intros i st (Li & Hu).
        destruct (@fold_prolong_ok (rev (seq 1 (nlev c - 1))) st []) as (evs & E & Hh).
        { intros l Hl. apply in_rev, in_seq in Hl. split; [apply Hu|]; lia. }
        destruct (send_full_eq 0 i st) as (e2 & E2' & H2).
        eexists; split.
        -- eapply sbind_ok; eauto.
        -- rewrite hooks_of_app, Hh, H2; auto.
      * intros; eexists; split; eauto.
      * intros i st (Li & _) Hi; split.
        -- destruct (snd_eff_core 0 i st) as (_ & -> & _). apply (l_iter Li).
        -- intros Hpd Hf. destruct (snd_eff_core 0 i st) as (_ & _ & _ & E4 & E5 & _).
           rewrite E4 in Hpd; rewrite E5 in Hf. eapply loc_recv_cond; eauto; lia.
      * intros i st (Li & _) Hi Hn'. rewrite <- (l_iter Li). apply snd_eff_tag.
        -- rewrite (l_last Li). apply Nat.eqb_neq; lia.
        -- rewrite (l_tags Li); lia.
      * intros i st _. apply RC_core_eq, snd_eff_core.
      * assert (E3' : for_steps run (fun msl i st =>
                   sbind (fold_left (fun r l => sbind r (transfer l (l - 1))) (rev (seq 1 (nlev c - 1))) (SOk st []))
                         (fun st => sbind (send_full 0 i st) (recv_full 0 msl i))) s2 = Ok s3).
        { rewrite <- E3. apply for_steps_ext. intros msl i st. rewrite sbind_assoc.
          apply sbind_ext; intros x. apply sbind_ext; intros y. rewrite sbind_ret; auto. }
        rewrite E3'; simpl.
        assert (R3 : rok d k sg (nlev c) s3) by (eapply rok_id_step; eauto).
        destruct (@loop_simple_rel d (fun i st => nth 0 (st_unlocked st) false = true)
                    (fun _ st => update_nodes 0 st) (RC id 0 []) s3) as (s4 & E4 & P4).
        -- eapply rok_len; eauto.
        -- intros i Hi. destruct R3 as (_ & H). apply H; auto; lia.
        -- intros i st Hu. rewrite update_nodes_ok by auto. eexists; eexists; split; eauto.
           apply RC_core_eq, core_eq_refl.
        -- exists s4; split; auto.
           assert (P12 : pw_rel (seq d (n - d)) (RC id (nlev c) []) s s2).
           { eapply pw_rel_weaken; [|eapply pw_rel_comp; [exact P1|exact P2]].
             intros j a b h Hc; apply RC_id_comp in Hc. eapply RC_ext; [| | |exact Hc]; auto. lia. }
           assert (P34 : pw_rel (seq d (n - d)) (RC id 0 []) s2 s4).
           { eapply pw_rel_weaken; [|eapply pw_rel_comp; [exact P3|exact P4]].
             intros j a b h Hc; apply RC_id_comp in Hc; auto. }
           eapply pw_rel_weaken; [|eapply pw_rel_comp; [exact P12|exact P34]].
           intros j a b h Hc; apply RC_id_comp in Hc. eapply RC_ext; [| | |exact Hc]; auto. lia.
Qed.

Lemma predict_ok d k sg s :
  rok d k sg 1 s -> 1 <= nlev c -> ptype_ok (predict_type c) ->
  exists s', predict c (seq d (n - d)) s = Ok s' /\
     pw_rel (seq d (n - d)) (RC (fun _ => IT_CHECK) 0 [PrePredict; PostPredict]) s s'.
Proof.
  intros Hs Hn Hp. unfold predict. set (run := seq d (n - d)).
  eapply then_RC' with (f1 := id) (p1 := 0) (h1 := [PrePredict; PostPredict]) (f2 := fun _ => IT_CHECK) (p2 := 0) (h2 := []).
  4: simpl; lia. 4: reflexivity. 3: reflexivity.
  - eapply then_RC' with (f1 := id) (p1 := 0) (h1 := [PrePredict]) (f2 := id) (p2 := 0) (h2 := [PostPredict]).
    4: simpl; lia. 4: reflexivity. 3: reflexivity.
    + eapply then_RC' with (f1 := id) (p1 := 0) (h1 := [PrePredict]) (f2 := id) (p2 := 0) (h2 := []).
      4: simpl; lia. 4: reflexivity. 3: reflexivity.
      * apply (@loop_simple_rel d (fun _ _ => True) (fun _ st => SOk st [hook_ev PrePredict 0 st])); auto.
        -- eapply rok_len; eauto.
        -- intros i st _. eexists; eexists; split; eauto. apply RC_core_eq, core_eq_refl.
      * intros s1 P1. apply predict_mid_ok with (k := k) (sg := sg); auto. eapply rok_id_step; eauto.
    + intros s1 P1.
      apply (@loop_simple_rel d (fun _ _ => True) (fun _ st => SOk st [hook_ev PostPredict 0 st])); auto.
      * destruct P1 as (L1 & _). rewrite L1. eapply rok_len; eauto.
      * intros i st _. eexists; eexists; split; eauto. apply RC_core_eq, core_eq_refl.
  - intros s1 P1. apply loop_set_stage. destruct P1 as (L1 & _). rewrite L1. eapply rok_len; eauto.
Qed.


(* ---- it_check *)

Lemma forallb_ext_in A (f g : A -> bool) l : (forall x, In x l -> f x = g x) -> forallb f l = forallb g l.
Proof. induction l; simpl; auto. intros H. rewrite H, IHl; auto. Qed.

Lemma forallb_false_in A (f : A -> bool) l x : In x l -> f x = false -> forallb f l = false.
Proof.
  intros I E. destruct (forallb f l) eqn:F; auto. rewrite forallb_forall in F. rewrite F in E; auto.
Qed.

Lemma filter_len_le A (f : A -> bool) l : length (filter f l) <= length l.
Proof. induction l; simpl; auto. destruct (f a); simpl; lia. Qed.

(* the trues of a prefix-closed predicate on seq d m form an initial segment *)
Lemma prefix_count (f : nat -> bool) d : forall m,
  (forall j, d <= j -> S j < d + m -> f (S j) = true -> f j = true) ->
  forall j, d <= j < d + m -> (f j = true <-> j < d + length (filter f (seq d m))).
Proof.
  induction m; intros Hc j Hj; try lia.
  rewrite seq_S, filter_app, app_length; simpl.
  assert (Hall : f (d + m) = true -> forall j, d <= j <= d + m -> f j = true).
  { intros Ht j0 Hj0. remember (d + m - j0) as r. revert j0 Hj0 Heqr.
    induction r; intros j0 Hj0 Hr.
    - replace j0 with (d + m) by lia; auto.
    - apply Hc; try lia. apply IHr; lia. }
  pose proof (filter_len_le f (seq d m)) as Hle. rewrite seq_length in Hle.
  destruct (f (d + m)) eqn:Fm; simpl.
  - assert (E : filter f (seq d m) = seq d m).
    { clear - Hall. assert (G : forall j, In j (seq d m) -> f j = true).
      { intros j Hj; apply in_seq in Hj. apply Hall; auto; lia. }
      induction (seq d m); simpl; auto. rewrite G by (simpl; auto). f_equal. apply IHl. intros; apply G; simpl; auto. }
    rewrite E, seq_length. split; intros; try lia. apply Hall; auto; lia.
  - rewrite Nat.add_0_r. destruct (Nat.eq_dec j (d + m)) as [->|N].
    + rewrite Fm; split; intros; try discriminate; lia.
    + apply IHm; try lia. intros; apply Hc; auto; lia.
Qed.

Definition conv_expr (i k : nat) (fd : bool) : bool :=
  ((maxiter c <=? k) || conv o i k || fd) && negb (fcont o i k).

Definition post_it (k : nat) : list hook := if 0 <? k then [PostIteration] else [].

(* state after loops 1 and 2 of it_check *)
Record chk2 (d k : nat) (s s2 : bstate) : Prop := mkChk2 {
  c2_len : length (ms s2) = n;
  c2_low : forall j, j < d -> nth j (ms s2) dummy_step = nth j (ms s) dummy_step /\ hproj j (tr s2) = hproj j (tr s);
  c2_run : forall j, d <= j < n -> let st := nth j (ms s2) dummy_step in
     loc d k IT_CHECK j (set_check (st_iter st) false (st_prev_done st) (st_force_done st) st) /\
     unl0 (st_unlocked st) /\ hproj j (tr s2) = hproj j (tr s) ++ post_it k /\
     exists fd, st_done st = conv_expr j k fd }.

Lemma it_check_12 d k s :
  Inv d k IT_CHECK s -> 1 <= nlev c ->
  exists s2, (check_loop1 (seq d (n - d)) s >>= check_loop2 c o (seq d (n - d))) = Ok s2
    /\ chk2 d k s s2.
Proof.
  intros I Hn. unfold check_loop1, check_loop2. set (run := seq d (n - d)).
  assert (R0 : rok d k IT_CHECK 1 s).
  { split; [apply (inv_len I)|]. intros i Hi. destruct (inv_run I Hi) as (A & B & _). split; auto.
    intros l Hl _. replace l with 0 by lia. apply B. }
  destruct (@loop_recv d k 0 (loc d k IT_CHECK) (send_full 0) (fun _ st => emit [LResid 0 IT_CHECK] st)
              (snd_eff 0) (fun _ st => st) (fun _ _ => []) (fun _ _ => []) (RC id 0 []) s) as (s1 & E1 & P1).
  - apply (inv_len I).
  - intros i Hi; destruct (inv_run I Hi) as (A & _); auto.
  - intros i st _; apply send_full_eq.
  - intros; exists [LResid 0 IT_CHECK]; split; reflexivity.
  - intros i st Li Hi; split.
    + destruct (snd_eff_core 0 i st) as (_ & -> & _). apply (l_iter Li).
    + intros Hp Hf. destruct (snd_eff_core 0 i st) as (_ & _ & _ & E4 & E5 & _).
      rewrite E4 in Hp; rewrite E5 in Hf. eapply loc_recv_cond; eauto; lia.
  - intros i st Li Hi Hn'. rewrite <- (l_iter Li). apply snd_eff_tag.
    + rewrite (l_last Li). apply Nat.eqb_neq; lia.
    + rewrite (l_tags Li); lia.
  - intros i st _. apply RC_core_eq, snd_eff_core.
  - assert (E1' : for_steps run (fun msl i st =>
         sbind (b_sendrecv 0 msl i st) (fun st => emit [LResid 0 IT_CHECK] st)) s = Ok s1).
    { rewrite <- E1. apply for_steps_ext. intros msl i st. unfold b_sendrecv. rewrite sbind_assoc.
      apply sbind_ext; intros x. auto. }
    rewrite E1'; simpl.
    assert (R1 : rok d k IT_CHECK 1 s1) by (eapply rok_id_step; eauto).
    destruct (@loop_simple_rel d (fun i st => st_iter st = k)
                (fun i st => let fd := st_force_done st || fdone o i (st_iter st) in
                   SOk (set_check (st_iter st) (converged c o i st fd) (st_prev_done st) fd st)
                       (if 0 <? st_iter st then [hook_ev PostIteration 0 st] else []))
                (fun j a b h => b = set_check k (conv_expr j k (st_force_done a || fdone o j k)) (st_prev_done a)
                                      (st_force_done a || fdone o j k) a /\ h = post_it k) s1) as (s2 & E2 & P2).
    + eapply rok_len; eauto.
    + intros i Hi. destruct R1 as (_ & H). destruct (H i Hi) as (A & _). apply (l_iter A).
    + intros i st Hk. simpl. eexists; eexists; split; eauto. split.
      * unfold converged, conv_expr. rewrite Hk; auto.
      * unfold post_it. rewrite Hk. destruct (0 <? k); auto.
    + exists s2; split; auto.
      destruct P1 as (L1 & U1 & C1), P2 as (L2 & U2 & C2).
      constructor.
      * rewrite L2, L1. apply (inv_len I).
      * intros j Hj. assert (E : inb j run = false).
        { destruct (inb j run) eqn:E; auto. apply in_run in E; lia. }
        destruct (U1 j E), (U2 j E). split; congruence.
      * intros j Hj. assert (E : inb j run = true) by (apply in_run; auto).
        destruct (C1 j E) as (h1 & r1 & t1); [rewrite (inv_len I); lia|].
        destruct (C2 j E) as (h2 & (Eb & ->) & t2); [rewrite L1, (inv_len I); lia|].
        destruct (inv_run I Hj) as (A & B & _).
        pose proof (loc_RC r1 A) as A1. simpl in A1.
        destruct r1 as (_ & _ & _ & _ & _ & _ & _ & X8 & X9 & _ & ->).
        simpl. rewrite Eb; simpl. split; [|split; [|split]].
        -- destruct A1 as [H1 H2 H3 H4 H5 H6 H7 H8]. constructor; simpl; auto.
        -- apply X9. apply B.
        -- rewrite t2, t1, app_nil_r; auto.
        -- eexists; eauto.
Qed.

Section Check3.
Variables (d k : nat) (s2 : bstate).
Let run := seq d (n - d).
Let rawv (j : nat) : bool := st_done (nth j (ms s2) dummy_step).

Definition D2 (j : nat) : bool :=
  if all_to_done c then forallb rawv run else forallb rawv (seq d (S (j - d))).
Definition PD (j : nat) : bool := if j =? d then 0 <? d else D2 (j - 1).

Definition F3 (j : nat) (st : step) : step :=
  if D2 j then set_stage DONE (set_check (st_iter st) true (PD j) (st_force_done st) st)
  else set_stage (next_stage c (n - d)) (set_check (S (st_iter st)) false (PD j) (st_force_done st) st).
Definition G3 (j : nat) (st : step) : list hook := if D2 j then [PostStep] else [PreIteration].

Lemma F3_done j st : st_done (F3 j st) = D2 j.
Proof. unfold F3; destruct (D2 j); auto. Qed.

Lemma D2_step j : all_to_done c = false -> d < j -> D2 j = rawv j && D2 (j - 1).
Proof.
  intros Ha Hj. unfold D2; rewrite Ha.
  replace (S (j - d)) with (S (S (j - 1 - d))) by lia.
  rewrite (seq_S (S (j - 1 - d)) d), forallb_app; simpl.
  replace (d + S (j - 1 - d)) with j by lia. rewrite andb_true_r, andb_comm; auto.
Qed.

Lemma D2_base : all_to_done c = false -> D2 d = rawv d.
Proof. intros Ha; unfold D2; rewrite Ha, Nat.sub_diag; simpl. rewrite andb_true_r; auto. Qed.

Lemma it_check_3 s :
  chk2 d k s s2 -> d < n ->
  (forall j, j < d -> st_done (nth j (ms s) dummy_step) = true) ->
  exists s3, check_loop3 c run s2 = Ok s3
    /\ pw_fun run F3 G3 s2 s3.
Proof.
  intros C2 Hd Hlow. unfold check_loop3.
  apply for_steps_pw.
  - apply seq_NoDup.
  - intros i Hi; apply in_seq in Hi. rewrite (c2_len C2); lia.
  - intros pre i post s1 E (L1 & N1 & _).
    pose proof E as E'. apply seq_split in E' as (Epre & Hi & Epost).
    destruct (c2_run C2 (j := i)) as (Li & _); try lia. simpl in Li.
    set (st := nth i (ms s2) dummy_step) in *.
    assert (Hfirst : st_first st = (i =? 0)) by (apply (l_first Li)).
    assert (Hpd0 : st_prev_done st = (i =? d) && (0 <? d)) by (apply (l_pd Li)).
    (* (a) the communicated prev_done *)
    assert (Hpd : (if st_first st then st_prev_done st
                   else st_done (nth (prev_idx (length (ms s1)) i) (ms s1) dummy_step)) = PD i).
    { rewrite Hfirst. unfold PD. destruct (Nat.eqb_spec i 0) as [->|Ni].
      - assert (Hd0 : d = 0) by lia. rewrite Hpd0. replace (0 =? d) with true by (symmetry; apply Nat.eqb_eq; lia). auto.
      - rewrite prev_idx_pos by lia. rewrite N1.
        destruct (Nat.eqb_spec i d) as [->|Nd].
        + replace (inb (d - 1) pre) with false.
          * destruct (c2_low C2 (j := d - 1)) as (-> & _); try lia. rewrite Hlow by lia.
            symmetry; apply Nat.ltb_lt; lia.
          * symmetry. rewrite Epre, inb_seq. apply andb_false_iff; left. apply Nat.leb_gt; lia.
        + replace (inb (i - 1) pre) with true.
          * apply F3_done.
          * symmetry. rewrite Epre, inb_seq. apply andb_true_iff; split; [apply Nat.leb_le|apply Nat.ltb_lt]; lia. }
    (* (b) the decision *)
    assert (Hd1 : (if st_first st then st_done st else st_done st && PD i)
                  = if i =? d then rawv i else rawv i && D2 (i - 1)).
    { rewrite Hfirst. unfold PD. destruct (Nat.eqb_spec i 0) as [->|Ni].
      - replace (0 =? d) with true by (symmetry; apply Nat.eqb_eq; lia). auto.
      - destruct (Nat.eqb_spec i d) as [->|Nd]; auto.
        replace (0 <? d) with true by (symmetry; apply Nat.ltb_lt; lia). apply andb_true_r. }
    assert (Hd2 : (if all_to_done c
                   then forallb (fun j => if j =? i then (if st_first st then st_done st else st_done st && PD i)
                                          else st_done (nth j (ms s1) dummy_step)) run
                   else (if st_first st then st_done st else st_done st && PD i)) = D2 i).
    { rewrite Hd1. destruct (all_to_done c) eqn:Ha.
      - (* all_to_done *)
        unfold D2 at 2. rewrite Ha. fold run in E. rewrite E.
        rewrite !forallb_app. simpl. rewrite Nat.eqb_refl.
        assert (ND : NoDup (pre ++ i :: post)) by (rewrite <- E; apply seq_NoDup).
        assert (Hpost : forallb (fun j => if j =? i then (if i =? d then rawv i else rawv i && D2 (i - 1))
                                         else st_done (nth j (ms s1) dummy_step)) post = forallb rawv post).
        { apply forallb_ext_in. intros x Hx.
          assert (x <> i). { intros ->. apply NoDup_remove_2 in ND. apply ND, in_or_app; auto. }
          replace (x =? i) with false by (symmetry; apply Nat.eqb_neq; auto).
          rewrite N1. replace (inb x pre) with false; auto.
          symmetry; apply inb_false. intros Hp.
          rewrite Epre in Hp. apply in_seq in Hp. rewrite Epost in Hx. apply in_seq in Hx. lia. }
        rewrite Hpost.
        assert (HA : forallb rawv run = forallb rawv pre && (rawv i && forallb rawv post)).
        { fold run. rewrite E, forallb_app; auto. }
        assert (Hpre : forall x, In x pre ->
                  (if x =? i then (if i =? d then rawv i else rawv i && D2 (i - 1))
                   else st_done (nth x (ms s1) dummy_step)) = forallb rawv run).
        { intros x Hx.
          assert (x <> i). { intros ->. apply NoDup_remove_2 in ND. apply ND, in_or_app; auto. }
          replace (x =? i) with false by (symmetry; apply Nat.eqb_neq; auto).
          rewrite N1. replace (inb x pre) with true by (symmetry; apply inb_In; auto).
          rewrite F3_done. unfold D2; rewrite Ha; auto. }
        destruct (Nat.eqb_spec i d) as [->|Nd].
        + rewrite Nat.sub_diag in Epre. simpl in Epre. rewrite Epre in *. simpl. auto.
        + assert (Hdpre : In d pre). { rewrite Epre. apply in_seq. lia. }
          assert (HD : D2 (i - 1) = forallb rawv run) by (unfold D2; rewrite Ha; auto).
          rewrite HD. rewrite <- HA.
          destruct (forallb rawv run) eqn:A.
          * symmetry in HA. apply andb_true_iff in HA as (_ & HA).
            rewrite andb_true_r.
            apply andb_true_iff; split; [|exact HA].
            apply forallb_forall. intros x Hx. specialize (Hpre x Hx).
            destruct (x =? i) eqn:Exi; auto.
            apply andb_true_iff in Hpre as (Hp & _); auto.
          * apply andb_false_iff; left. apply forallb_false_in with (x := d); auto.
            specialize (Hpre d Hdpre).
            destruct (d =? i) eqn:Edi; auto. apply Nat.eqb_eq in Edi. lia.
      - destruct (Nat.eqb_spec i d) as [->|Nd].
        + symmetry; apply D2_base; auto.
        + symmetry; apply D2_step; auto; lia. }
    (* assemble *)
    cbv zeta. rewrite Hpd, Hd2. unfold F3, G3. replace (length run) with (n - d) by (unfold run; rewrite seq_length; auto).
    destruct (D2 i); eexists; split; reflexivity.
Qed.

End Check3.

Definition wf_cfg : Prop :=
  1 <= nlev c /\ (nlev c = 1 -> 1 <= nsw c 0) /\ (1 < nlev c -> ptype_ok (predict_type c)).

Lemma g_check k g : g_ok IT_CHECK k g ->
  grun g (post_it k ++ [PostStep]) = Some GE /\ grun g (post_it k ++ [PreIteration]) = Some GI0.
Proof.
  unfold g_ok, post_it. destruct k; simpl.
  - intros [-> | ->]; simpl; auto.
  - intros ->; simpl; auto.
Qed.

Lemma D2_closed d s2 j : d <= j -> D2 d s2 (S j) = true -> D2 d s2 j = true.
Proof.
  intros Hj H. destruct (all_to_done c) eqn:Ha.
  - unfold D2 in *; rewrite Ha in *; auto.
  - rewrite D2_step in H by (auto; lia). apply andb_true_iff in H as (_ & H).
    replace (S j - 1) with j in H by lia. auto.
Qed.

Lemma it_check_ok d k s :
  Inv d k IT_CHECK s -> d < n -> wf_cfg ->
  exists s' d', it_check c o (seq d (n - d)) s = Ok s' /\ d <= d' <= n /\
     (d' < n -> Inv d' (S k) (next_stage c (n - d)) s') /\
     (d' = n -> Inv n k IT_CHECK s') /\
     ((forall i fd, d <= i < n -> conv_expr i k fd = true) -> d' = n).
Proof.
  intros I Hd (Hn & Hnsw & _). unfold it_check.
  destruct (it_check_12 I Hn) as (s2 & E2 & C2). rewrite E2; simpl.
  destruct (@it_check_3 d k s2 s C2 Hd) as (s3 & E3 & (L3 & N3 & T3)).
  { intros j Hj. apply (inv_done I Hj). }
  rewrite E3. set (run := seq d (n - d)) in *.
  set (d' := d + length (filter (D2 d s2) run)).
  assert (Hpc : forall j, d <= j < n -> (D2 d s2 j = true <-> j < d')).
  { intros j Hj. unfold d', run. apply prefix_count; try lia.
    intros j0 H0 _. apply D2_closed; auto. }
  assert (Hd' : d <= d' <= n).
  { unfold d'. pose proof (filter_len_le (D2 d s2) run) as Hle. unfold run in Hle at 2. rewrite seq_length in Hle. lia. }
  assert (Hlen3 : length (ms s3) = n) by (rewrite L3; apply (c2_len C2)).
  (* facts about old done steps *)
  assert (Hold : forall i, i < d -> nth i (ms s3) dummy_step = nth i (ms s) dummy_step /\ gmon i s3 = gmon i s).
  { intros i Hi. assert (E : inb i run = false).
    { destruct (inb i run) eqn:E; auto. apply in_run in E; lia. }
    destruct (c2_low C2 Hi) as (Ea & Eb). unfold gmon. rewrite N3, T3, E, app_nil_r, Ea, Eb. auto. }
  (* facts about the steps that ran *)
  assert (Hnew : forall i, d <= i < n ->
            nth i (ms s3) dummy_step = F3 d s2 i (nth i (ms s2) dummy_step) /\
            hproj i (tr s3) = hproj i (tr s) ++ post_it k ++ G3 d s2 i (nth i (ms s2) dummy_step)).
  { intros i Hi. assert (E : inb i run = true) by (apply in_run; auto).
    destruct (c2_run C2 Hi) as (_ & _ & Et & _). rewrite N3, T3, E, Et, <- app_assoc. auto. }
  assert (Hdone_new : forall i, d <= i < d' -> i < n ->
            let st := nth i (ms s3) dummy_step in
            st_stage st = DONE /\ st_done st = true /\ gmon i s3 = Some GE /\ st_iter st = k).
  { intros i Hi Hin. destruct (Hnew i) as (Es & Et); try lia.
    assert (HD : D2 d s2 i = true) by (apply Hpc; lia).
    destruct (c2_run C2 (j := i)) as (Li & _); try lia.
    destruct (inv_run I (i := i)) as (_ & _ & G); try lia.
    simpl. unfold gmon. rewrite Es, Et. unfold F3, G3. rewrite HD. simpl.
    repeat split; auto.
    - rewrite grun_app. fold (gmon i s). apply (@g_check k _ G).
    - apply (l_iter Li). }
  exists s3, d'. split; auto. split; auto. split; [|split].
  - (* some steps go on *)
    intros Hlt. constructor; auto; try lia.
    + intros i Hi. destruct (Nat.ltb_spec i d) as [Hid|Hid].
      * destruct (Hold i Hid) as (Ea & Eb). simpl. rewrite Ea, Eb.
        destruct (inv_done I Hid) as (A1 & A2 & A3 & A4 & A5). repeat split; auto.
        intros Ha. destruct (inv_a2d I Ha); lia.
      * destruct (Hdone_new i) as (A1 & A2 & A3 & A4); try lia. simpl. repeat split; auto; try lia.
        intros Ha. exfalso.
        assert (D2 d s2 i = true) by (apply Hpc; lia).
        assert (D2 d s2 d' = false).
        { destruct (D2 d s2 d') eqn:X; auto. apply Hpc in X; lia. }
        unfold D2 in *. rewrite Ha in *. congruence.
    + intros i Hi. destruct (Hnew i) as (Es & Et); try lia.
      assert (HD : D2 d s2 i = false).
      { destruct (D2 d s2 i) eqn:X; auto. apply Hpc in X; lia. }
      destruct (c2_run C2 (j := i)) as (Li & Hu & _ & _); try lia.
      destruct (inv_run I (i := i)) as (_ & _ & G); try lia.
      simpl. rewrite Es. unfold gmon. rewrite Et. unfold F3, G3. rewrite HD.
      split; [|split].
      * destruct Li as [H1 H2 H3 H4 H5 H6 H7 H8]. simpl in *. constructor; simpl; auto;
           try (rewrite H2; reflexivity).
        -- unfold PD. destruct (Nat.eqb_spec i d) as [->|Nid].
           ++ assert (d' = d) by lia. replace (d =? d') with true by (symmetry; apply Nat.eqb_eq; lia).
              rewrite H; auto.
           ++ destruct (Nat.eqb_spec i d') as [->|Nid'].
              ** simpl. replace (0 <? d') with true by (symmetry; apply Nat.ltb_lt; lia).
                 apply Hpc; lia.
              ** simpl. destruct (D2 d s2 (i - 1)) eqn:X; auto. apply Hpc in X; lia.
      * simpl. unfold next_stage. destruct (1 <? nlev c) eqn:Hl; simpl; auto.
        destruct ((n - d =? 1) || mssdc_jac c); simpl; auto.
        intros l Hl'. apply Nat.ltb_ge in Hl. replace l with 0 by lia. auto.
      * rewrite grun_app. fold (gmon i s). destruct (@g_check k _ G) as (_ & ->).
        unfold next_stage. destruct (1 <? nlev c) eqn:Hl; simpl; [repeat split; auto; try lia; apply Nat.ltb_lt; auto|].
        apply Nat.ltb_ge in Hl.
        destruct ((n - d =? 1) || mssdc_jac c); simpl; split; auto; try lia.
        right; split; auto. apply Hnsw; lia.
    + intros Ha. left.
      assert (D2 d s2 d' = false).
      { destruct (D2 d s2 d') eqn:X; auto. apply Hpc in X; lia. }
      destruct (Nat.eq_dec d' d) as [->|Nd]; [destruct (inv_a2d I Ha); lia|].
      assert (D2 d s2 d = true) by (apply Hpc; lia).
      unfold D2 in *. rewrite Ha in *. congruence.
    + unfold next_stage. destruct (1 <? nlev c); [discriminate|]. destruct ((n - d =? 1) || mssdc_jac c); discriminate.
  - (* everything finished *)
    intros ->. constructor; auto; try lia; try discriminate.
    + intros i Hi. destruct (Nat.ltb_spec i d) as [Hid|Hid].
      * destruct (Hold i Hid) as (Ea & Eb). simpl. rewrite Ea, Eb. apply (inv_done I Hid).
      * destruct (Hdone_new i) as (A1 & A2 & A3 & A4); try lia. simpl. repeat split; auto; lia.
  - (* all converge => all done *)
    intros Hall. assert (Hf : filter (D2 d s2) run = run).
    { assert (G : forall j, In j run -> D2 d s2 j = true).
      { assert (Hraw : forall j, d <= j < n -> st_done (nth j (ms s2) dummy_step) = true).
        { intros j Hj. destruct (c2_run C2 Hj) as (_ & _ & _ & fd & ->). apply Hall; auto. }
        intros j Hj. apply in_seq in Hj. unfold D2. destruct (all_to_done c).
        - apply forallb_forall. intros x Hx. apply in_seq in Hx. apply Hraw; lia.
        - apply forallb_forall. intros x Hx. apply in_seq in Hx. apply Hraw; lia. }
      clear - G. induction run; simpl; auto. rewrite G by (simpl; auto). f_equal. apply IHrun. intros; apply G; simpl; auto. }
    unfold d'. rewrite Hf. unfold run. rewrite seq_length. lia.
Qed.

(* ================================================================== Part 5: pfasst, run_block, theorems *)

Lemma all_same_const (f : nat -> stage) sg l : (forall i, In i l -> f i = sg) -> all_same (map f l) = true.
Proof.
  induction l as [|a l IH]; simpl; auto. intros H. destruct l as [|b l]; simpl; auto.
  specialize (IH (fun i Hi => H i (or_intror Hi))). simpl in IH.
  rewrite (H a), (H b) by (simpl; auto). rewrite (H b) in IH by (simpl; auto).
  replace (stage_eqb sg sg) with true by (destruct sg; auto). simpl. exact IH.
Qed.

Lemma all_done_inv d k sg s : Inv d k sg s -> all_done (ms s) = (d =? n).
Proof.
  intros I. unfold all_done. destruct (Nat.eqb_spec d n) as [->|N].
  - apply forallb_forall. intros x Hx. apply In_nth with (d := dummy_step) in Hx as (i & Hi & <-).
    rewrite (inv_len I) in Hi. apply (inv_done I Hi).
  - pose proof (inv_d I). destruct (forallb st_done (ms s)) eqn:F; auto.
    rewrite forallb_forall in F.
    destruct (inv_run I (i := d)) as (A & _); try lia.
    pose proof (l_done A) as Hdn. rewrite F in Hdn; [discriminate|]. apply nth_In. rewrite (inv_len I). lia.
Qed.

Definition mu (B : nat) (sg : stage) (k : nat) : nat :=
  match sg with
  | SPREAD => 5 * B + 3
  | PREDICT => 5 * B + 2
  | IT_CHECK => 5 * (B - k) + 1
  | IT_DOWN => 5 * (B - k) + 5
  | IT_COARSE => 5 * (B - k) + 4
  | IT_UP => 5 * (B - k) + 3
  | IT_FINE => 5 * (B - k) + 2
  | DONE => 0
  end.

Lemma rok_of_Inv d k sg s p :
  Inv d k sg s -> (forall u, unl_ok sg u -> forall l, l < p -> l < nlev c -> nth l u false = true) ->
  rok d k sg p s.
Proof.
  intros I H. split; [apply (inv_len I)|]. intros i Hi. destruct (inv_run I Hi) as (A & B & _).
  split; auto.
Qed.

Lemma unl0_lt1 u l : unl0 u -> l < 1 -> nth l u false = true.
Proof. intros H Hl. replace l with 0 by lia. auto. Qed.

Definition rank (sg : stage) : nat :=
  match sg with
  | SPREAD => 3 | PREDICT => 2 | IT_CHECK => 1 | IT_DOWN => 5 | IT_COARSE => 4 | IT_UP => 3 | IT_FINE => 2
  | DONE => 0
  end.

Lemma pfasst_step_gen d k sg s :
  wf_cfg -> Inv d k sg s -> d < n ->
  exists s', pfasst c o s = Ok s' /\
    ((exists sg', Inv n k sg' s') \/
     (exists d' k' sg', d <= d' < n /\ Inv d' k' sg' s' /\
        ((k' = k /\ rank sg' < rank sg) \/
         (sg = IT_CHECK /\ k' = S k /\ ~ (forall i fd, d <= i < n -> conv_expr i k fd = true))))).
Proof.
  intros WF I Hd. pose proof WF as (Hn & Hnsw & Hpt).
  unfold pfasst. rewrite (running_inv I).
  assert (Hst : forall i, In i (seq d (n - d)) -> st_stage (nth i (ms s) dummy_step) = sg).
  { intros i Hi. apply in_seq in Hi. destruct (inv_run I (i := i)) as (A & _); try lia. apply (l_stage A). }
  rewrite (@all_same_const (fun i => st_stage (nth i (ms s) dummy_step)) sg _ Hst).
  destruct (n - d) as [|m] eqn:Em; try lia. simpl map.
  rewrite (Hst d) by (simpl; auto). rewrite <- Em. clear Hst m Em.
  destruct (inv_run I (i := d)) as (_ & _ & Gd); try lia.
  pose proof (inv_sg I) as Hsg.
  destruct sg; try congruence.
  - (* SPREAD *)
    destruct Gd as (-> & _).
    destruct (@spread_ok d 0 s) as (s' & E & P); auto.
    { apply rok_of_Inv; auto. intros; lia. }
    exists s'; split; auto. right.
    exists d, 0, (if 1 <? nlev c then PREDICT else IT_CHECK). split; [lia|]. split; [|left; split; auto; try (destruct (1 <? nlev c); simpl; lia); simpl; lia].
    + eapply Inv_step; eauto.
      * destruct (1 <? nlev c); discriminate.
      * intros u u' _ Hl Hl' Hm Hp. assert (nth 0 u' false = true) by (apply Hp; lia).
        destruct (1 <? nlev c); simpl; auto.
      * intros g (_ & ->). simpl. destruct (Nat.ltb_spec 1 (nlev c)); simpl; auto.
  - (* PREDICT *)
    destruct Gd as (-> & _ & Hl).
    destruct (@predict_ok d 0 PREDICT s) as (s' & E & P); auto.
    { apply rok_of_Inv; auto. intros u Hu l Hl1 _; apply unl0_lt1; auto. }
    exists s'; split; auto. right. exists d, 0, IT_CHECK. split; [lia|]. split; [|left; split; auto; try (destruct (1 <? nlev c); simpl; lia); simpl; lia].
    + eapply Inv_step; eauto; try discriminate.
      * intros u u' Hu _ _ Hm _. apply Hm; auto.
      * intros g (_ & -> & _). simpl. auto.
  - (* IT_CHECK *)
    destruct (@it_check_ok d k s) as (s' & d' & E & Hd' & Hlt & Heq & Hall); auto.
    exists s'; split; auto.
    destruct (Nat.eq_dec d' n) as [->|Nd].
    + left. exists IT_CHECK; auto.
    + right. exists d', (S k), (next_stage c (n - d)). split; [lia|]. split; [apply Hlt; lia|].
      right. repeat split; auto.
  - (* IT_FINE *)
    destruct Gd as (Hk0 & _).
    destruct (@it_fine_ok d k IT_FINE s) as (s' & E & P); auto.
    { apply rok_of_Inv; auto. intros u Hu l Hl1 _; apply unl0_lt1; auto. }
    exists s'; split; auto. right. exists d, k, IT_CHECK. split; [lia|]. split; [|left; split; auto; try (destruct (1 <? nlev c); simpl; lia); simpl; lia].
    + eapply Inv_step; eauto; try discriminate.
      * intros u u' Hu _ _ Hm _. apply Hm; auto.
      * intros g (_ & Hg). simpl. replace (k =? 0) with false by (symmetry; apply Nat.eqb_neq; lia).
        destruct Hg as [-> | (-> & Hs)].
        -- apply grun_sw_I1.
        -- rewrite grun_sw_I0. replace (nsw c 0 =? 0) with false; auto. symmetry; apply Nat.eqb_neq; lia.
  - (* IT_DOWN *)
    destruct Gd as (Hk0 & _ & Hl).
    destruct (@it_down_ok d k IT_DOWN s) as (s' & h & E & P); auto.
    { apply rok_of_Inv; auto. intros u Hu l Hl1 _; apply unl0_lt1; auto. }
    exists s'; split; auto. right. exists d, k, IT_COARSE. split; [lia|]. split; [|left; split; auto; try (destruct (1 <? nlev c); simpl; lia); simpl; lia].
    + eapply Inv_step; eauto; try discriminate.
      * intros u u' Hu Hlen Hlen' Hm Hp. simpl. intros l Hl'. apply Hp; lia.
      * intros g (_ & -> & _). simpl. split; auto. rewrite grun_sw_I0. destruct (h =? 0); auto.
  - (* IT_COARSE *)
    destruct Gd as (Hk0 & _).
    destruct (@it_coarse_ok d k IT_COARSE s) as (s' & E & P); auto.
    { apply rok_of_Inv; auto. }
    exists s'; split; auto. right. exists d, k, (if 1 <? nlev c then IT_UP else IT_CHECK). split; [lia|]. split; [|left; split; auto; try (destruct (1 <? nlev c); simpl; lia); simpl; lia].
    + eapply Inv_step; eauto.
      * destruct (1 <? nlev c); discriminate.
      * intros u u' Hu Hlen Hlen' Hm Hp. destruct (1 <? nlev c); simpl.
        -- intros l Hl'. apply Hm, Hu; auto.
        -- apply Hm, Hu; lia.
      * intros g (_ & Hg). destruct (1 <? nlev c); simpl.
        -- split; auto. destruct Hg as [-> | ->]; auto.
        -- replace (k =? 0) with false by (symmetry; apply Nat.eqb_neq; lia). destruct Hg as [-> | ->]; auto.
  - (* IT_UP *)
    destruct Gd as (Hk0 & _).
    destruct (@it_up_ok d k IT_UP s) as (s' & h & E & P); auto.
    { apply rok_of_Inv; auto. }
    exists s'; split; auto. right. exists d, k, IT_FINE. split; [lia|]. split; [|left; split; auto; try (destruct (1 <? nlev c); simpl; lia); simpl; lia].
    + eapply Inv_step; eauto; try discriminate.
      * intros u u' Hu Hlen Hlen' Hm Hp. simpl. apply Hm, Hu; lia.
      * intros g (_ & ->). simpl. split; auto. left. apply grun_sw_I1.
Qed.

Lemma mu_rank Bd sg k : mu Bd sg k = 5 * (Bd - k) + rank sg \/ ((sg = SPREAD \/ sg = PREDICT) /\ mu Bd sg k = 5 * Bd + rank sg) \/ sg = DONE.
Proof. destruct sg; simpl; auto. Qed.

Lemma rank_le5 sg : rank sg <= 5.
Proof. destruct sg; simpl; lia. Qed.

Variable B : nat.
Hypothesis Hterm : forall i k fd, B <= k -> conv_expr i k fd = true.

Lemma pfasst_step d k sg s :
  wf_cfg -> Inv d k sg s -> d < n -> k <= B ->
  exists s', pfasst c o s = Ok s' /\
    ((exists k' sg', Inv n k' sg' s' /\ k' <= B) \/
     (exists d' k' sg', d' < n /\ Inv d' k' sg' s' /\ k' <= B /\ mu B sg' k' < mu B sg k)).
Proof.
  intros WF I Hd Hk.
  destruct (pfasst_step_gen WF I Hd) as (s' & E & [(sg' & I') | (d' & k' & sg' & Hd' & I' & H)]).
  - exists s'; split; auto. left; eauto.
  - exists s'; split; auto. right. exists d', k', sg'. split; [lia|]. split; auto.
    destruct H as [(-> & Hr) | (-> & -> & Hnc)].
    + split; auto.
      destruct (inv_run I (i := d)) as (_ & _ & Gd); try lia.
      destruct (inv_run I' (i := d')) as (_ & _ & Gd'); try lia.
      pose proof (inv_sg I). pose proof (inv_sg I').
      destruct sg, sg'; simpl in *; try lia; try congruence;
        try (destruct Gd as (-> & _)); try (destruct Gd' as (-> & _)); try lia.
    + assert (k < B).
      { destruct (Nat.ltb_spec k B); auto. exfalso. apply Hnc. intros; apply Hterm; auto. }
      split; [lia|]. pose proof (rank_le5 sg'). pose proof (inv_sg I').
      destruct (inv_run I' (i := d')) as (_ & _ & Gd'); try lia.
      destruct sg'; simpl in *; try lia; try congruence; destruct Gd' as (Hx & _); lia.
Qed.

Lemma run_block_ok : forall fuel d k sg s,
  wf_cfg -> Inv d k sg s -> d < n -> k <= B -> mu B sg k <= fuel ->
  exists s' k' sg', run_block c o fuel s = Finished s' /\ Inv n k' sg' s' /\ k' <= B.
Proof.
  induction fuel; intros d k sg s WF I Hd Hk Hmu.
  - exfalso. pose proof (inv_sg I). destruct sg; simpl in Hmu; try lia. congruence.
  - simpl. destruct (pfasst_step WF I Hd Hk) as (s' & E & [(k' & sg' & I' & Hk') | (d' & k' & sg' & Hd' & I' & Hk' & Hlt)]).
    + rewrite E, (all_done_inv I'), Nat.eqb_refl. exists s', k', sg'; auto.
    + rewrite E, (all_done_inv I'). replace (d' =? n) with false by (symmetry; apply Nat.eqb_neq; lia).
      eapply IHfuel; eauto. lia.
Qed.

End Invariant.

(* ================================================================== Part 6: frame and tag-matching for pfasst *)

Lemma incl_skipn A q (l : list A) : incl (skipn q l) l.
Proof.
  revert l; induction q; intros l x H; simpl in *; auto. destruct l; auto. right. apply IHq; auto.
Qed.

Ltac framed_tac :=
  repeat first
    [ apply framed_for_steps; first [apply incl_refl | apply incl_skipn]
    | apply framed_bind'
    | apply framed_for_each; intros
    | apply framed_ok | apply framed_err ].

Lemma framed_mid_sweeps c run l sg : framed run (mid_sweeps c run l sg).
Proof. unfold mid_sweeps. apply framed_for_each; intros. apply framed_bind'; framed_tac. Qed.

Lemma framed_predict_mid c run : framed run (predict_mid c run).
Proof.
  unfold predict_mid. destruct (predict_type c); try apply framed_ok; try apply framed_err; framed_tac.
  all: try (unfold burnin_round; framed_tac).
Qed.

Lemma framed_stage c o run sg :
  framed run (match sg with
              | SPREAD => spread c run | PREDICT => predict c run | IT_CHECK => it_check c o run
              | IT_FINE => it_fine c run | IT_DOWN => it_down c run | IT_COARSE => it_coarse c run
              | IT_UP => it_up c run | DONE => Err ControllerError end).
Proof.
  destruct sg.
  - unfold spread. framed_tac.
  - unfold predict. repeat apply framed_bind'; framed_tac. apply framed_predict_mid.
  - unfold it_check, check_loop1, check_loop2, check_loop3. framed_tac.
  - unfold it_fine. framed_tac.
  - unfold it_down. repeat apply framed_bind'; framed_tac.
    all: try apply framed_mid_sweeps.
    all: try (intros s; destruct (nlev c <? 2); [apply frame_refl|apply for_steps_frame]).
  - unfold it_coarse. framed_tac.
  - unfold it_up. apply framed_bind'; framed_tac.
    all: try (destruct (0 <? x - 1); [apply framed_mid_sweeps|apply framed_ok]).
  - apply framed_err.
Qed.

Lemma pfasst_frame c o s : frame_rel (running (ms s)) s (res_state (pfasst c o s)).
Proof.
  unfold pfasst. destruct (all_same _); [|apply frame_refl].
  destruct (map _ (running (ms s))) as [|sg rest]; [apply frame_refl|].
  pose proof (framed_stage c o (running (ms s)) sg s) as H. destruct sg; exact H.
Qed.

(* tag matching *)
Lemma bgood_sendrecv l : bgood (b_sendrecv l).
Proof. intros msl i st. unfold b_sendrecv. apply sgood_bind; [apply sgood_send|intros; apply sgood_recv]. Qed.

Lemma bgood_sweep l sg : bgood (b_sweep l sg).
Proof. intros msl i st. apply sgood_sweep_block. Qed.

Lemma bgood_set_stage sg : bgood (b_set_stage sg).
Proof. intros msl i st. simpl. auto. Qed.

Lemma bgood_transfer a b : bgood (b_transfer a b).
Proof. intros msl i st. apply sgood_transfer. Qed.

Lemma sgood_fold_down ls r : sgood r -> sgood (fold_left (fun r l => sbind r (transfer (l - 1) l)) ls r).
Proof. revert r; induction ls; simpl; auto; intros r G. apply IHls, sgood_bind; auto. intros; apply sgood_transfer. Qed.

Lemma sgood_fold_up ls r : sgood r -> sgood (fold_left (fun r l => sbind r (transfer l (l - 1))) ls r).
Proof. revert r; induction ls; simpl; auto; intros r G. apply IHls, sgood_bind; auto. intros; apply sgood_transfer. Qed.

Lemma sgood_hook h l st : sgood (SOk st [hook_ev h l st]).
Proof. simpl. repeat constructor. Qed.

Ltac sgood_tac :=
  repeat first
    [ apply sgood_send | apply sgood_recv | apply sgood_update_nodes | apply sgood_transfer
    | apply sgood_sweep_block | apply sgood_fold_down | apply sgood_fold_up | apply bgood_sendrecv
    | apply sgood_hook
    | apply sgood_bind; [|intros]
    | (progress (simpl; repeat constructor)) ].

Ltac rgood_tac :=
  repeat first
    [ apply rgood_bind
    | apply rgood_for_each; intros
    | apply rgood_ok | apply rgood_err
    | apply rgood_for_steps; first
        [ apply bgood_sendrecv | apply bgood_sweep | apply bgood_set_stage | apply bgood_transfer
        | (intros ?msl ?i ?st; sgood_tac; fail) ] ].

Lemma rgood_mid_sweeps c run l sg : rgood (mid_sweeps c run l sg).
Proof. unfold mid_sweeps. rgood_tac. Qed.

Lemma rgood_predict_mid c run : rgood (predict_mid c run).
Proof.
  unfold predict_mid. destruct (predict_type c); rgood_tac.
  all: try (unfold burnin_round; rgood_tac).
Qed.

Lemma rgood_stage c o run sg :
  rgood (match sg with
         | SPREAD => spread c run | PREDICT => predict c run | IT_CHECK => it_check c o run
         | IT_FINE => it_fine c run | IT_DOWN => it_down c run | IT_COARSE => it_coarse c run
         | IT_UP => it_up c run | DONE => Err ControllerError end).
Proof.
  destruct sg.
  - unfold spread. rgood_tac.
  - unfold predict. rgood_tac. all: try apply rgood_predict_mid.
  - unfold it_check, check_loop1, check_loop2, check_loop3. rgood_tac.
    + apply rgood_for_steps. intros msl i st. simpl. destruct (0 <? st_iter st); repeat constructor.
    + apply rgood_for_steps. intros msl i st. cbv zeta.
      match goal with |- sgood (if ?b then _ else _) => destruct b end; simpl; repeat constructor.
  - unfold it_fine. rgood_tac.
  - unfold it_down. rgood_tac.
    all: try apply rgood_mid_sweeps.
    all: try (intros s G; destruct (nlev c <? 2); auto; apply rgood_for_steps; auto; apply bgood_transfer).
  - unfold it_coarse. rgood_tac.
  - unfold it_up. rgood_tac.
    all: try (destruct (0 <? x - 1); [apply rgood_mid_sweeps|apply rgood_ok]).
  - apply rgood_err.
Qed.

Lemma pfasst_good c o : rgood (pfasst c o).
Proof.
  intros s G. unfold pfasst. destruct (all_same _); auto.
  destruct (map _ (running (ms s))) as [|sg rest]; auto.
  pose proof (@rgood_stage c o (running (ms s)) sg s G) as H. destruct sg; exact H.
Qed.

(* ================================================================== Part 7: the theorems *)

Definition term_bound (c : cfg) (o : oracle) (B : nat) : Prop :=
  forall i k fd, B <= k -> conv_expr c o i k fd = true.

Lemma term_bound_intro c o B :
  maxiter c <= B -> (forall i k, B <= k -> fcont o i k = false) -> term_bound c o B.
Proof.
  intros Hm Hf i k fd Hk. unfold conv_expr. rewrite Hf by auto.
  replace (maxiter c <=? k) with true by (symmetry; apply Nat.leb_le; lia). auto.
Qed.

Lemma nth_init nl n i : i < n -> nth i (map (init_step nl n) (seq 0 n)) dummy_step = init_step nl n i.
Proof.
  intros Hi. rewrite nth_indep with (d' := init_step nl n 0) by (rewrite map_length, seq_length; auto).
  rewrite map_nth, seq_nth; auto.
Qed.

Lemma init_Inv c n : 0 < n -> Inv c n 0 0 SPREAD (init_block (nlev c) n).
Proof.
  intros Hn. constructor; simpl; try lia; try discriminate.
  - rewrite map_length, seq_length; auto.
  - intros i Hi. rewrite nth_init by lia. split; [|split; simpl; auto].
    constructor; simpl; auto; try apply repeat_length. symmetry; apply andb_false_r.
Qed.

(* states in which run() can call pfasst *)
Inductive reach (c : cfg) (o : oracle) (n : nat) : bstate -> Prop :=
| reach_init : reach c o n (init_block (nlev c) n)
| reach_step s s' : reach c o n s -> all_done (ms s) = false -> pfasst c o s = Ok s' -> reach c o n s'.

Theorem reach_Inv c o n s : wf_cfg c -> 0 < n -> reach c o n s -> exists d k sg, Inv c n d k sg s.
Proof.
  intros WF Hn R. induction R.
  - exists 0, 0, SPREAD. apply init_Inv; auto.
  - destruct IHR as (d & k & sg & I).
    assert (Hd : d < n).
    { rewrite (all_done_inv I) in H. apply Nat.eqb_neq in H. pose proof (inv_d I). lia. }
    destruct (pfasst_step_gen o WF I Hd) as (s1 & E & [(sg' & I') | (d' & k' & sg' & _ & I' & _)]);
      rewrite E in H0; injection H0 as <-; eauto.
Qed.

(* no exception of any kind; in particular neither the stage ControllerError nor a CommunicationError *)
Theorem pfasst_never_raises c o n s :
  wf_cfg c -> 0 < n -> reach c o n s -> all_done (ms s) = false -> exists s', pfasst c o s = Ok s'.
Proof.
  intros WF Hn R H. destruct (reach_Inv WF Hn R) as (d & k & sg & I).
  assert (Hd : d < n).
  { rewrite (all_done_inv I) in H. apply Nat.eqb_neq in H. pose proof (inv_d I). lia. }
  destruct (pfasst_step_gen o WF I Hd) as (s1 & E & _). eauto.
Qed.

Theorem lockstep c o n s : wf_cfg c -> 0 < n -> reach c o n s ->
  forall i j, i < n -> j < n ->
    st_stage (nth i (ms s) dummy_step) <> DONE -> st_stage (nth j (ms s) dummy_step) <> DONE ->
    st_stage (nth i (ms s) dummy_step) = st_stage (nth j (ms s) dummy_step).
Proof.
  intros WF Hn R i j Hi Hj Ni Nj. destruct (reach_Inv WF Hn R) as (d & k & sg & I).
  destruct (Nat.ltb_spec i d) as [Hid|Hid]; [destruct (inv_done I Hid) as (X & _); congruence|].
  destruct (Nat.ltb_spec j d) as [Hjd|Hjd]; [destruct (inv_done I Hjd) as (X & _); congruence|].
  destruct (inv_run I (i := i)) as (A & _); try lia. destruct (inv_run I (i := j)) as (A' & _); try lia.
  rewrite (l_stage A), (l_stage A'); auto.
Qed.

(* the literal test of pfasst passes and a stage exists *)
Theorem lockstep_test c o n s : wf_cfg c -> 0 < n -> reach c o n s -> all_done (ms s) = false ->
  let stages := map (fun i => st_stage (nth i (ms s) dummy_step)) (running (ms s)) in
  all_same stages = true /\ stages <> [].
Proof.
  intros WF Hn R H. destruct (reach_Inv WF Hn R) as (d & k & sg & I).
  assert (Hd : d < n).
  { rewrite (all_done_inv I) in H. apply Nat.eqb_neq in H. pose proof (inv_d I). lia. }
  simpl. rewrite (running_inv I). split.
  - apply all_same_const with (sg := sg). intros i Hi. apply in_seq in Hi.
    destruct (inv_run I (i := i)) as (A & _); try lia. apply (l_stage A).
  - destruct (n - d) eqn:E; try lia. simpl. discriminate.
Qed.

Theorem done_prefix c o n s : wf_cfg c -> 0 < n -> reach c o n s ->
  forall i j, i <= j -> j < n -> st_done (nth j (ms s) dummy_step) = true -> st_done (nth i (ms s) dummy_step) = true.
Proof.
  intros WF Hn R i j Hij Hj Dj. destruct (reach_Inv WF Hn R) as (d & k & sg & I).
  destruct (Nat.ltb_spec j d) as [Hjd|Hjd].
  - apply (inv_done I (i := i)). lia.
  - destruct (inv_run I (i := j)) as (A & _); try lia. rewrite (l_done A) in Dj. discriminate.
Qed.

Theorem done_stage_iff c o n s : wf_cfg c -> 0 < n -> reach c o n s ->
  forall i, i < n -> (st_done (nth i (ms s) dummy_step) = true <-> st_stage (nth i (ms s) dummy_step) = DONE).
Proof.
  intros WF Hn R i Hi. destruct (reach_Inv WF Hn R) as (d & k & sg & I).
  destruct (Nat.ltb_spec i d) as [Hid|Hid].
  - destruct (inv_done I Hid) as (X & Y & _). split; auto.
  - destruct (inv_run I (i := i)) as (A & _); try lia. rewrite (l_done A), (l_stage A).
    pose proof (inv_sg I). split; intros; congruence.
Qed.

(* a DONE step is never changed again, and no further event carries its slot (no hypothesis at all) *)
Theorem done_frame c o s i :
  st_stage (nth i (ms s) dummy_step) = DONE ->
  let s' := res_state (pfasst c o s) in
  nth_error (ms s') i = nth_error (ms s) i /\
  exists ext, tr s' = tr s ++ ext /\ Forall (fun e => fst e <> i) ext.
Proof.
  intros Hs. destruct (pfasst_frame c o s) as (_ & N & ext & T & F). simpl.
  assert (Nin : ~ In i (running (ms s))).
  { unfold running. intros Hin. apply filter_In in Hin as (_ & Hin). rewrite Hs in Hin. discriminate. }
  split; [apply N; auto|]. exists ext; split; auto.
  eapply Forall_impl; [|exact F]. simpl. intros e He Hei. rewrite Hei in He. auto.
Qed.

Theorem tags_match c o n s : reach c o n s ->
  forall slot l t f, In (slot, LRecv l t f) (tr s) -> f = Some t.
Proof.
  intros R. assert (G : tr_good s).
  { induction R; [constructor|]. pose proof (pfasst_good c o IHR) as H1. rewrite H0 in H1. auto. }
  intros slot l t f Hin. unfold tr_good in G. rewrite Forall_forall in G. apply (G _ Hin).
Qed.

(* run_block only passes through reachable states *)
Lemma run_block_reach c o n : forall fuel s, reach c o n s -> all_done (ms s) = false ->
  match run_block c o fuel s with
  | Finished s' => reach c o n s' /\ all_done (ms s') = true
  | OutOfFuel s' => reach c o n s'
  | Raised _ _ => True
  end.
Proof.
  induction fuel; intros s R H; simpl; auto.
  destruct (pfasst c o s) as [s'|] eqn:E; auto.
  assert (R' : reach c o n s') by (eapply reach_step; eauto).
  destruct (all_done (ms s')) eqn:D; auto.
  apply IHfuel; auto.
Qed.

Lemma init_not_done nl n : 0 < n -> all_done (ms (init_block nl n)) = false.
Proof. intros Hn. destruct n; try lia. reflexivity. Qed.

Theorem run_never_raises c o n fuel : wf_cfg c -> 0 < n ->
  forall e s, run_model c o n fuel <> Raised e s.
Proof.
  intros WF Hn. unfold run_model.
  assert (G : forall fuel s, reach c o n s -> all_done (ms s) = false ->
              forall e s', run_block c o fuel s <> Raised e s').
  { induction fuel0; intros s R H e s'; simpl; try discriminate.
    destruct (pfasst_never_raises WF Hn R H) as (s1 & E). rewrite E.
    destruct (all_done (ms s1)) eqn:D; try discriminate.
    apply IHfuel0; auto. eapply reach_step; eauto. }
  apply G; [constructor|apply init_not_done; auto].
Qed.

Section Terminates.
Variables (c : cfg) (o : oracle) (n B : nat).
Hypothesis WF : wf_cfg c.
Hypothesis Hn : 0 < n.
Hypothesis HB : term_bound c o B.

Theorem block_terminates : forall fuel, fuel_for B <= fuel ->
  exists s, run_model c o n fuel = Finished s /\ reach c o n s /\
    forall i, i < n -> let st := nth i (ms s) dummy_step in
      st_stage st = DONE /\ st_done st = true /\ st_iter st <= B.
Proof.
  intros fuel Hf. unfold run_model.
  destruct (@run_block_ok c o n B HB fuel 0 0 SPREAD (init_block (nlev c) n)) as (s & k & sg & E & I & Hk); auto.
  - apply init_Inv; auto.
  - lia.
  - unfold fuel_for in Hf. simpl. lia.
  - exists s; split; auto. split.
    + pose proof (@run_block_reach c o n fuel (init_block (nlev c) n) (reach_init c o n) (init_not_done (nlev c) Hn)) as H.
      rewrite E in H. apply H.
    + intros i Hi. destruct (inv_done I Hi) as (A1 & A2 & _ & A4 & _). simpl. repeat split; auto. lia.
Qed.

Theorem callback_grammar : forall fuel s, run_model c o n fuel = Finished s ->
  forall i, i < n -> grammar (hproj i (tr s)).
Proof.
  intros fuel s E i Hi.
  pose proof (@run_block_reach c o n fuel (init_block (nlev c) n) (reach_init c o n) (init_not_done (nlev c) Hn)) as H.
  unfold run_model in E. rewrite E in H. destruct H as (R & D).
  destruct (reach_Inv WF Hn R) as (d & k & sg & I).
  rewrite (all_done_inv I) in D. apply Nat.eqb_eq in D. subst d.
  apply grun_sound. apply (inv_done I Hi).
Qed.

Theorem all_to_done_equal_niter : all_to_done c = true ->
  forall fuel s, run_model c o n fuel = Finished s ->
  forall i j, i < n -> j < n -> st_iter (nth i (ms s) dummy_step) = st_iter (nth j (ms s) dummy_step).
Proof.
  intros Ha fuel s E i j Hi Hj.
  pose proof (@run_block_reach c o n fuel (init_block (nlev c) n) (reach_init c o n) (init_not_done (nlev c) Hn)) as H.
  unfold run_model in E. rewrite E in H. destruct H as (R & D).
  destruct (reach_Inv WF Hn R) as (d & k & sg & I).
  rewrite (all_done_inv I) in D. apply Nat.eqb_eq in D. subst d.
  destruct (inv_done I Hi) as (_ & _ & _ & _ & Ei). destruct (inv_done I Hj) as (_ & _ & _ & _ & Ej).
  rewrite Ei, Ej; auto.
Qed.
End Terminates.
