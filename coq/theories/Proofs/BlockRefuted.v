(* The known finding "tolerance-level chain inexactness with a quadrature end point" as a statement about the model:
   in controller_nonMPI.it_check every step SENDS its end value and THEN RECEIVES its new initial value.  With a quadrature end
   point (u0 + dt sum w f) the value a step has sent therefore differs from the end value of the state it holds afterwards, and its
   successor starts from the former.  Witness over Z: one level, one Gauss-type node, three steps. *)
From Coq Require Import List Arith Bool ZArith.
From PySDC Require Import Model.Sweep Model.Transfer Model.MultiLevel Model.Block.
Import ListNotations.
Open Scope Z_scope.

Definition rz_level : @level Z unit :=
  {| lM := 1; ldt := 1; lnodes := fun _ => 0; lQ := fun _ _ => 1; lQI := fun _ _ => 1; lQE := fun _ _ => 0;
     lfeval := fun _ _ _ _ => 0; lsolve := fun _ rhs _ _ _ => rhs; lpre := 1%nat; lpost := 0%nat |}.
Definition rz_xfer : @xfer Z unit :=
  {| xRs := fun v => v; xPs := fun v => v; xRcoll := fun _ _ => 1; xPcoll := fun _ _ => 1; xfinter := false |}.
Definition rz_end : @endp Z := {| erin := false; edcu := false; ew := fun _ => 1 |}.       (* right end is not a node: quadrature *)
Definition rz_state (u0 f1 : Z) : @lvst Z unit :=
  {| su := fun m _ => if Nat.eqb m 0 then u0 else 0; sf := fun m _ _ => if Nat.eqb m 1 then f1 else 0; stau := fun _ => None;
     suold := fun _ _ => 0; sfold := fun _ _ _ => 0; suend := fun _ => 0; ssent := false; svalid := true |}.
Definition rz_B0 : @bstate Z unit := fun p _ => match p with 0%nat => rz_state 0 1 | 1%nat => rz_state 5 1 | _ => rz_state 7 1 end.
Definition rz_run := run_ops 0 Z.add Z.mul Z.sub Z.eqb false (fun _ => rz_level) (fun _ => rz_xfer) (fun _ => 0) (fun _ => rz_end).
Definition rz_uend (s : @lvst Z unit) : Z := end_value 0 Z.add Z.mul false (fun _ => rz_level) (fun _ => rz_end) 0%nat s tt.

Definition rz_six : Z := 6.
Definition rz_two : Z := 2.

(* after the communication of IT_CHECK, step 2 starts from 6 (what step 1 had sent), while the end value of the state step 1 now
   holds is 2; every entry is valid and has been sent *)
Theorem quadrature_chain_inexact_refuted :
  let B := rz_run (it_check_ops 3) rz_B0 in
  su (B 2%nat 0%nat) 0%nat tt = 6 /\ rz_uend (B 1%nat 0%nat) = 2 /\
  svalid (B 1%nat 0%nat) = true /\ svalid (B 2%nat 0%nat) = true /\ ssent (B 1%nat 0%nat) = true.
Proof. vm_compute. repeat split; reflexivity. Qed.

(* in copy mode (end value = last node) the same communication leaves the chain exact *)
Definition rz_end_copy : @endp Z := {| erin := true; edcu := false; ew := fun _ => 1 |}.
Definition rz_run_copy := run_ops 0 Z.add Z.mul Z.sub Z.eqb false (fun _ => rz_level) (fun _ => rz_xfer) (fun _ => 0) (fun _ => rz_end_copy).
Theorem copy_chain_exact_instance :
  let B := rz_run_copy (it_check_ops 3) rz_B0 in
  su (B 2%nat 0%nat) 0%nat tt = end_value 0 Z.add Z.mul false (fun _ => rz_level) (fun _ => rz_end_copy) 0%nat (B 1%nat 0%nat) tt.
Proof. vm_compute. reflexivity. Qed.
