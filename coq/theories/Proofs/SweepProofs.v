(* Proofs about Model/Sweep.v.  K is an arbitrary commutative ring (ring_theory hypothesis); the
   right-hand side and the solvers are arbitrary functions subject only to the solver contract. *)
From Coq Require Import List Arith Bool Lia Ring.
From PySDC Require Import Model.Sweep.
Import ListNotations.

Section SweepProofs.
  Context {K : Type} (kO kI : K) (kadd kmul ksub : K -> K -> K) (kopp : K -> K) (keqb : K -> K -> bool).
  Hypothesis Rth : ring_theory kO kI kadd kmul ksub kopp (@eq K).
  Add Ring Kring : Rth.
  Hypothesis keqb_true : forall a b, keqb a b = true -> a = b.
  Context {X : Type}.
  Notation V := (X -> K).

  Local Infix "+!" := kadd (at level 50, left associativity).
  Local Infix "*!" := kmul (at level 40, left associativity).
  Local Infix "-!" := ksub (at level 50, left associativity).

  (* sum_{j = lo .. lo+n-1} g j *)
  Fixpoint sumf (g : nat -> K) (lo n : nat) : K :=
    match n with O => kO | S n' => g lo +! sumf g (S lo) n' end.

  Lemma sumf_ext g h lo n : (forall j, lo <= j < lo + n -> g j = h j) -> sumf g lo n = sumf h lo n.
  Proof.
    revert lo. induction n as [|n IH]; intros lo H; cbn [sumf]; [reflexivity|].
    rewrite H by lia. rewrite (IH (S lo)); [reflexivity|]. intros j Hj. apply H. lia.
  Qed.

  Lemma sumf_add g h lo n : sumf (fun j => g j +! h j) lo n = sumf g lo n +! sumf h lo n.
  Proof. revert lo. induction n as [|n IH]; intros lo; cbn [sumf]; [ring|]. rewrite IH. ring. Qed.

  Lemma sumf_sub g h lo n : sumf (fun j => g j -! h j) lo n = sumf g lo n -! sumf h lo n.
  Proof. revert lo. induction n as [|n IH]; intros lo; cbn [sumf]; [ring|]. rewrite IH. ring. Qed.

  Lemma sumf_scal c g lo n : sumf (fun j => c *! g j) lo n = c *! sumf g lo n.
  Proof. revert lo. induction n as [|n IH]; intros lo; cbn [sumf]; [ring|]. rewrite IH. ring. Qed.

  Lemma sumf_zero lo n : sumf (fun _ => kO) lo n = kO.
  Proof. revert lo. induction n as [|n IH]; intros lo; cbn [sumf]; [reflexivity|]. rewrite IH. ring. Qed.

  Lemma sumf_snoc g lo n : sumf g lo (S n) = sumf g lo n +! g (lo + n).
  Proof.
    revert lo. induction n as [|n IH]; intros lo.
    - cbn [sumf]. rewrite Nat.add_0_r. ring.
    - change (sumf g lo (S (S n))) with (g lo +! sumf g (S lo) (S n)).
      rewrite IH. cbn [sumf]. replace (S lo + n) with (lo + S n) by lia. ring.
  Qed.

  Lemma sumf_split g lo n1 n2 : sumf g lo (n1 + n2) = sumf g lo n1 +! sumf g (lo + n1) n2.
  Proof.
    revert lo. induction n1 as [|n1 IH]; intros lo; cbn [sumf Nat.add].
    - rewrite Nat.add_0_r. ring.
    - rewrite IH. replace (S lo + n1) with (lo + S n1) by lia. ring.
  Qed.


  Lemma sumf_L1 c a lo n : sumf (fun j => c *! (kO +! a j)) lo n = c *! sumf a lo n.
  Proof. rewrite <- sumf_scal. apply sumf_ext. intros; ring. Qed.
  Lemma sumf_L2 c a b lo n : sumf (fun j => c *! ((kO +! a j) +! b j)) lo n = c *! sumf a lo n +! c *! sumf b lo n.
  Proof. rewrite <- !sumf_scal, <- sumf_add. apply sumf_ext. intros; ring. Qed.
  Lemma sumf_L3 c q a lo n : sumf (fun j => (c *! q j) *! (kO +! a j)) lo n = c *! sumf (fun j => q j *! a j) lo n.
  Proof. rewrite <- sumf_scal. apply sumf_ext. intros; ring. Qed.
  Lemma sumf_L4 c q a b lo n : sumf (fun j => (c *! q j) *! ((kO +! a j) +! b j)) lo n
     = c *! sumf (fun j => q j *! a j) lo n +! c *! sumf (fun j => q j *! b j) lo n.
  Proof. rewrite <- !sumf_scal, <- sumf_add. apply sumf_ext. intros; ring. Qed.
  Lemma sumf_L5 q p a lo n : sumf (fun j => (q j -! p j) *! a j) lo n
     = sumf (fun j => q j *! a j) lo n -! sumf (fun j => p j *! a j) lo n.
  Proof. rewrite <- sumf_sub. apply sumf_ext. intros; ring. Qed.

  (* ------------------------------------------------------------ accumulation loops *)
  Lemma accum_spec (acc : V) lo n term x :
    accum kadd acc lo n term x = acc x +! sumf (fun j => term j x) lo n.
  Proof.
    unfold accum. revert acc lo. induction n as [|n IH]; intros acc lo; cbn [seq fold_left sumf].
    - ring.
    - rewrite IH. unfold vadd. ring.
  Qed.

  Lemma accum_sub_spec (acc : V) lo n term x :
    accum_sub ksub acc lo n term x = acc x -! sumf (fun j => term j x) lo n.
  Proof.
    unfold accum_sub. revert acc lo. induction n as [|n IH]; intros acc lo; cbn [seq fold_left sumf].
    - ring.
    - rewrite IH. unfold vsub. ring.
  Qed.

  Lemma accum_ext (acc : V) lo n t1 t2 :
    (forall j, lo <= j < lo + n -> t1 j = t2 j) -> accum kadd acc lo n t1 = accum kadd acc lo n t2.
  Proof.
    unfold accum. revert acc lo. induction n as [|n IH]; intros acc lo H; cbn [seq fold_left]; [reflexivity|].
    rewrite H by lia. apply IH. intros j Hj. apply H. lia.
  Qed.

  Lemma upd_same {A} (g : nat -> A) i v : upd g i v i = v.
  Proof. unfold upd. rewrite Nat.eqb_refl. reflexivity. Qed.

  Lemma upd_other {A} (g : nat -> A) i v j : j <> i -> upd g i v j = g j.
  Proof. unfold upd. intros H. destruct (Nat.eqb_spec j i); [contradiction|reflexivity]. Qed.

  (* ------------------------------------------------------------ the generic sweep loop *)
  Variable M : nat.
  Variable dt t0 : K.
  Variable nodes : nat -> K.
  Variable Q : nat -> nat -> K.
  Variable weights : nat -> K.
  Variable np : nat.
  Variable feval : K -> V -> nat -> V.
  Variable QD : nat -> nat -> nat -> K.
  Variable node_solve : V -> nat -> V -> V.

  Notation tnode := (tnode kadd kmul dt t0 nodes).
  Notation dqd_term := (dqd_term kO kadd kmul dt np QD).
  Notation qd_term := (qd_term kO kadd kmul QD).
  Notation sweep_loop := (sweep_loop kO kadd kmul dt t0 nodes np feval QD node_solve).

  Lemma qd_term_ext p (f1 f2 : nat -> nat -> V) m j : f1 j = f2 j -> qd_term p f1 m j = qd_term p f2 m j.
  Proof. intros H. induction p as [|p IH]; simpl; [reflexivity|]. rewrite IH, H. reflexivity. Qed.

  Lemma dqd_term_ext (f1 f2 : nat -> nat -> V) m j : f1 j = f2 j -> dqd_term f1 m j = dqd_term f2 m j.
  Proof. intros H. unfold Sweep.dqd_term. rewrite (qd_term_ext np f1 f2 m j H). reflexivity. Qed.

  (* Law-free characterisation of the node loop: nodes outside the processed range are untouched;
     every processed node m holds  node_solve(rhs_m)  where rhs_m is built from the FINAL right-hand
     sides of the nodes before m, and its stored right-hand side is feval at its own time and value. *)
  Lemma sweep_loop_spec lo g : forall n k u' f',
    lo <= k ->
    let r := sweep_loop lo g (seq k n) (u', f') in
    (forall j, j < k \/ k + n <= j -> fst r j = u' j /\ snd r j = f' j) /\
    (forall m, k <= m < k + n ->
       snd r m = feval (tnode m) (fst r m) /\
       fst r m = node_solve (accum kadd (g m) lo (m - lo) (dqd_term (snd r) m)) m (u' m)).
  Proof.
    induction n as [|n IH]; intros k u' f' Hlo; cbn [seq Sweep.sweep_loop].
    - cbn [fst snd]. split; [intros; split; reflexivity | intros m Hm; lia].
    - set (rhs := accum kadd (g k) lo (k - lo) (dqd_term f' k)).
      set (um := node_solve rhs k (u' k)).
      specialize (IH (S k) (upd u' k um) (upd f' k (feval (tnode k) um)) ltac:(lia)).
      cbv zeta in IH. destruct IH as [IHf IHn].
      set (r := sweep_loop lo g (seq (S k) n) (upd u' k um, upd f' k (feval (tnode k) um))) in *.
      split.
      + intros j Hj. destruct (IHf j ltac:(lia)) as [E1 E2]. rewrite E1, E2.
        rewrite !upd_other by lia. split; reflexivity.
      + intros m Hm. destruct (Nat.eq_dec m k) as [->|Hne].
        * destruct (IHf k ltac:(lia)) as [E1 E2]. rewrite E1, E2, !upd_same. split; [reflexivity|].
          unfold um, rhs. f_equal. apply accum_ext. intros j Hj. apply dqd_term_ext.
          destruct (IHf j ltac:(lia)) as [_ E3]. rewrite E3, upd_other by lia. reflexivity.
        * destruct (IHn m ltac:(lia)) as [E1 E2]. split; [exact E1|].
          rewrite E2. rewrite upd_other by lia. reflexivity.
  Qed.

  (* pointwise expansion of the right-hand side handed to the node solve *)
  Definition tauval (tau : nat -> option V) (m : nat) (x : X) : K :=
    match tau m with Some tm => tm x | None => kO end.

  Lemma gather_spec lo (u0 : V) (f : nat -> nat -> V) tau m x :
    gather kO kadd kmul ksub M dt Q np QD lo u0 f tau m x =
    sumf (fun j => (dt *! Q m j) *! ftot kO kadd np (f j) x) 1 M
    -! sumf (fun j => dt *! qd_term np f m j x) lo (S M - lo) +! u0 x +! tauval tau m x.
  Proof.
    unfold gather, tauval. destruct (tau m) as [tm|]; unfold vadd; rewrite accum_sub_spec;
      unfold integrate; rewrite accum_spec; unfold vzero, vscale, Sweep.dqd_term, vscale; ring.
  Qed.

  Lemma rhs_spec lo (g : nat -> V) (fn : nat -> nat -> V) m x :
    accum kadd (g m) lo (m - lo) (dqd_term fn m) x =
    g m x +! sumf (fun j => dt *! qd_term np fn m j x) lo (m - lo).
  Proof. rewrite accum_spec. unfold Sweep.dqd_term, vscale. reflexivity. Qed.


  (* Generic node equation: if the node solve satisfies
        node_solve rhs m uold - alpha m * f_0(node_solve rhs m uold, t_m) = rhs   (pointwise)
     then after update_nodes every node m = 1..M satisfies the gathered equation below, its stored
     right-hand side is feval at its own time and NEW value, and nothing else changed. *)
  Variable alpha : nat -> K.
  Hypothesis node_contract : forall rhs m uold x,
    node_solve rhs m uold x -! alpha m *! feval (tnode m) (node_solve rhs m uold) 0 x = rhs x.

  Theorem update_nodes_generic (u : nat -> V) (f : nat -> nat -> V) tau :
    let r := update_nodes kO kadd kmul ksub M dt t0 nodes Q np feval QD node_solve u f tau in
    (forall j, j = 0 \/ M < j -> fst r j = u j /\ snd r j = f j) /\
    forall m, 1 <= m <= M ->
      snd r m = feval (tnode m) (fst r m) /\
      forall x,
        fst r m x -! alpha m *! snd r m 0 x
        = sumf (fun j => (dt *! Q m j) *! ftot kO kadd np (f j) x) 1 M
          -! sumf (fun j => dt *! qd_term np f m j x) 1 M +! u 0 x +! tauval tau m x
          +! sumf (fun j => dt *! qd_term np (snd r) m j x) 1 (m - 1).
  Proof.
    intros r. unfold update_nodes in r.
    pose proof (sweep_loop_spec 1 (gather kO kadd kmul ksub M dt Q np QD 1 (u 0) f tau) M 1 u f (le_n 1)) as S.
    cbv zeta in S. fold r in S. destruct S as [Sf Sn].
    split.
    - intros j Hj. apply Sf. lia.
    - intros m Hm. destruct (Sn m ltac:(lia)) as [E1 E2]. split; [exact E1|]. intros x.
      rewrite E1.
      remember (accum kadd (gather kO kadd kmul ksub M dt Q np QD 1 (u 0) f tau m) 1 (m - 1)
                      (dqd_term (snd r) m)) as R eqn:HR.
      rewrite E2. rewrite node_contract. subst R.
      rewrite rhs_spec, gather_spec. replace (S M - 1) with M by lia. reflexivity.
  Qed.

End SweepProofs.

(* ================================================================ the concrete sweepers *)
Section SweeperTheorems.
  Context {K : Type} (kO kI : K) (kadd kmul ksub : K -> K -> K) (kopp : K -> K) (keqb : K -> K -> bool).
  Hypothesis Rth : ring_theory kO kI kadd kmul ksub kopp (@eq K).
  Add Ring Kring2 : Rth.
  Hypothesis keqb_true : forall a b, keqb a b = true -> a = b.
  Context {X : Type}.
  Notation V := (X -> K).
  Local Infix "+!" := kadd (at level 50, left associativity).
  Local Infix "*!" := kmul (at level 40, left associativity).
  Local Infix "-!" := ksub (at level 50, left associativity).

  Variable M : nat.
  Variable dt t0 : K.
  Variable nodes : nat -> K.
  Variable Q : nat -> nat -> K.
  Variable weights : nat -> K.
  Variable solve : nat -> V -> K -> V -> K -> V.
  Variable feval : K -> V -> nat -> V.

  Notation tn := (tnode kadd kmul dt t0 nodes).
  Notation sumf := (sumf kO kadd).
  Notation tauval := (tauval kO).

  (* THE SOLVER CONTRACT (what C12 checks on the shipped problem classes): for implicit part p,
     solve p rhs a u_guess t  returns w with  w - a * f_p(w, t) = rhs. *)
  Definition solver_contract (p : nat) : Prop :=
    forall rhs a ug t x, solve p rhs a ug t x -! a *! feval t (solve p rhs a ug t) p x = rhs x.

  (* ---------------------------------------------------------------- generic_implicit *)
  Theorem gi_sweep_matrix_form QI u f tau :
    solver_contract 0 ->
    let r := gi_update kO kadd kmul ksub keqb M dt t0 nodes Q solve feval QI u f tau in
    (forall j, j = 0 \/ M < j -> fst r j = u j /\ snd r j = f j) /\
    forall m, 1 <= m <= M ->
      snd r m = feval (tn m) (fst r m) /\
      forall x,
        fst r m x -! dt *! sumf (fun j => QI m j *! snd r j 0 x) 1 m
        = u 0 x +! dt *! sumf (fun j => (Q m j -! QI m j) *! f j 0 x) 1 M +! tauval tau m x.
  Proof.
    intros Hc r. unfold gi_update, update_nodes in r.
    pose proof (sweep_loop_spec kO kadd kmul dt t0 nodes 1 feval (fun _ => QI)
                  (gi_node_solve kO kadd kmul keqb dt t0 nodes solve QI)
                  1 (gather kO kadd kmul ksub M dt Q 1 (fun _ => QI) 1 (u 0) f tau) M 1 u f (le_n 1)) as S.
    cbv zeta in S. fold r in S. destruct S as [Sf Sn].
    split.
    - intros j Hj. apply Sf. lia.
    - intros m Hm. destruct (Sn m ltac:(lia)) as [E1 E2]. split; [exact E1|]. intros x.
      assert (Hnode : fst r m x -! (dt *! QI m m) *! snd r m 0 x
                      = accum kadd (gather kO kadd kmul ksub M dt Q 1 (fun _ => QI) 1 (u 0) f tau m) 1 (m - 1)
                              (dqd_term kO kadd kmul dt 1 (fun _ => QI) (snd r) m) x).
      { rewrite E1.
        remember (accum kadd (gather kO kadd kmul ksub M dt Q 1 (fun _ => QI) 1 (u 0) f tau m) 1 (m - 1)
                        (dqd_term kO kadd kmul dt 1 (fun _ => QI) (snd r) m)) as R eqn:HR.
        rewrite E2. unfold gi_node_solve.
        destruct (keqb (dt *! QI m m) kO) eqn:Eb.
        - apply keqb_true in Eb. rewrite Eb. ring.
        - apply Hc. }
      rewrite (rhs_spec kO kI kadd kmul ksub kopp Rth) in Hnode.
      rewrite (gather_spec kO kI kadd kmul ksub kopp Rth) in Hnode.
      replace m with (S (m - 1)) at 2 by lia. rewrite (sumf_snoc kO kI kadd kmul ksub kopp Rth).
      replace (1 + (m - 1)) with m by lia.
      replace (S M - 1) with M in Hnode by lia.
      rewrite (sumf_ext kO kadd (fun j => (Q m j -! QI m j) *! f j 0 x)
                 (fun j => Q m j *! f j 0 x -! QI m j *! f j 0 x) 1 M) by (intros j _; ring).
      (* bring everything to sums of elementary summands and conclude by ring *)
      simpl in Hnode. unfold vadd, vzero, vscale in Hnode.
      rewrite (sumf_ext kO kadd (fun j => dt *! (kO +! QI m j *! snd r j 0 x)) (fun j => dt *! (QI m j *! snd r j 0 x)) 1 (m - 1)) in Hnode
        by (intros; ring).
      rewrite (sumf_ext kO kadd (fun j => dt *! (kO +! QI m j *! f j 0 x)) (fun j => dt *! (QI m j *! f j 0 x)) 1 M) in Hnode
        by (intros; ring).
      rewrite (sumf_ext kO kadd (fun j => dt *! Q m j *! (kO +! f j 0 x)) (fun j => dt *! (Q m j *! f j 0 x)) 1 M) in Hnode
        by (intros; ring).
      rewrite !(sumf_scal kO kI kadd kmul ksub kopp Rth) in Hnode.
      rewrite (sumf_sub kO kI kadd kmul ksub kopp Rth).
      set (A := sumf (fun j => QI m j *! snd r j 0 x) 1 (m - 1)) in *.
      set (B := sumf (fun j => Q m j *! f j 0 x) 1 M) in *.
      set (C := sumf (fun j => QI m j *! f j 0 x) 1 M) in *.
      transitivity ((fst r m x -! dt *! QI m m *! snd r m 0 x) -! dt *! A); [ring|].
      rewrite Hnode. ring.
  Qed.


  Notation L1 := (sumf_L1 kO kI kadd kmul ksub kopp Rth).
  Notation L2 := (sumf_L2 kO kI kadd kmul ksub kopp Rth).
  Notation L3 := (sumf_L3 kO kI kadd kmul ksub kopp Rth).
  Notation L4 := (sumf_L4 kO kI kadd kmul ksub kopp Rth).
  Notation L5 := (sumf_L5 kO kI kadd kmul ksub kopp Rth).
  Notation snoc := (sumf_snoc kO kI kadd kmul ksub kopp Rth).

  (* ---------------------------------------------------------------- imex_1st_order *)
  Theorem imex_sweep_matrix_form QI QE u f tau :
    solver_contract 0 ->
    let r := imex_update kO kadd kmul ksub M dt t0 nodes Q solve feval QI QE u f tau in
    (forall j, j = 0 \/ M < j -> fst r j = u j /\ snd r j = f j) /\
    forall m, 1 <= m <= M ->
      snd r m = feval (tn m) (fst r m) /\
      forall x,
        fst r m x -! dt *! sumf (fun j => QI m j *! snd r j 0 x) 1 m
                  -! dt *! sumf (fun j => QE m j *! snd r j 1 x) 1 (m - 1)
        = u 0 x +! dt *! sumf (fun j => (Q m j -! QI m j) *! f j 0 x) 1 M
                +! dt *! sumf (fun j => (Q m j -! QE m j) *! f j 1 x) 1 M +! tauval tau m x.
  Proof.
    intros Hc r. unfold imex_update in r.
    pose proof (update_nodes_generic kO kI kadd kmul ksub kopp Rth M dt t0 nodes Q 2 feval
                  (fun p => if Nat.eqb p 0 then QI else QE)
                  (imex_node_solve kadd kmul dt t0 nodes solve QI) (fun m => dt *! QI m m)) as G.
    specialize (G ltac:(intros; unfold imex_node_solve; apply Hc) u f tau).
    cbv zeta in G. fold r in G. destruct G as [Gf Gn]. split; [exact Gf|].
    intros m Hm. destruct (Gn m Hm) as [E1 H]. split; [exact E1|]. intros x. specialize (H x).
    simpl in H. unfold vadd, vzero, vscale in H. rewrite !L2, L4 in H.
    replace m with (S (m - 1)) at 2 by lia. rewrite snoc. replace (1 + (m - 1)) with m by lia.
    rewrite !L5.
    set (A := sumf (fun j => QI m j *! snd r j 0 x) 1 (m - 1)) in *.
    set (A' := sumf (fun j => QE m j *! snd r j 1 x) 1 (m - 1)) in *.
    set (B := sumf (fun j => Q m j *! f j 0 x) 1 M) in *.
    set (B' := sumf (fun j => Q m j *! f j 1 x) 1 M) in *.
    set (C := sumf (fun j => QI m j *! f j 0 x) 1 M) in *.
    set (C' := sumf (fun j => QE m j *! f j 1 x) 1 M) in *.
    transitivity ((fst r m x -! dt *! QI m m *! snd r m 0 x) -! dt *! A -! dt *! A'); [ring|].
    rewrite H. ring.
  Qed.

  (* ---------------------------------------------------------------- explicit *)
  Theorem expl_sweep_matrix_form QE u f tau :
    let r := expl_update kO kadd kmul ksub M dt t0 nodes Q feval QE u f tau in
    (forall j, j = 0 \/ M < j -> fst r j = u j /\ snd r j = f j) /\
    forall m, 1 <= m <= M ->
      snd r m = feval (tn m) (fst r m) /\
      forall x,
        fst r m x -! dt *! sumf (fun j => QE m j *! snd r j 0 x) 1 (m - 1)
        = u 0 x +! dt *! sumf (fun j => (Q m j -! QE m j) *! f j 0 x) 1 M +! tauval tau m x.
  Proof.
    intros r. unfold expl_update in r.
    pose proof (update_nodes_generic kO kI kadd kmul ksub kopp Rth M dt t0 nodes Q 1 feval
                  (fun _ => QE) (@expl_node_solve K X) (fun _ => kO)) as G.
    specialize (G ltac:(intros; unfold expl_node_solve; ring) u f tau).
    cbv zeta in G. fold r in G. destruct G as [Gf Gn]. split; [exact Gf|].
    intros m Hm. destruct (Gn m Hm) as [E1 H]. split; [exact E1|]. intros x. specialize (H x).
    simpl in H. unfold vadd, vzero, vscale in H. rewrite !L1, L3 in H.
    rewrite !L5.
    set (A := sumf (fun j => QE m j *! snd r j 0 x) 1 (m - 1)) in *.
    set (B := sumf (fun j => Q m j *! f j 0 x) 1 M) in *.
    set (C := sumf (fun j => QE m j *! f j 0 x) 1 M) in *.
    transitivity ((fst r m x -! kO *! snd r m 0 x) -! dt *! A); [ring|].
    rewrite H. ring.
  Qed.

  (* ---------------------------------------------------------------- integrate() = dt * Q * F(U) *)
  Theorem integrate_is_dtQF np (f : nat -> nat -> V) m x :
    integrate kO kadd kmul M dt Q np f m x = dt *! sumf (fun j => Q m j *! ftot kO kadd np (f j) x) 1 M.
  Proof.
    unfold integrate. rewrite (accum_spec kO kI kadd kmul ksub kopp Rth). unfold vzero, vscale.
    rewrite <- (sumf_scal kO kI kadd kmul ksub kopp Rth).
    transitivity (kO +! sumf (fun j => dt *! (Q m j *! ftot kO kadd np (f j) x)) 1 M); [|ring].
    f_equal. apply sumf_ext. intros; ring.
  Qed.

  (* ---------------------------------------------------------------- compute_end_point() *)
  Theorem end_point_copy np do_coll (u : nat -> V) f tau :
    do_coll = false ->
    end_point kO kadd kmul M dt weights np true do_coll u f tau = u M.
  Proof. intros ->. reflexivity. Qed.

  Theorem end_point_quadrature np rin do_coll (u : nat -> V) f tau x :
    rin && negb do_coll = false ->
    end_point kO kadd kmul M dt weights np rin do_coll u f tau x
    = u 0 x +! dt *! sumf (fun m => weights m *! ftot kO kadd np (f m) x) 1 M +! tauval tau M x.
  Proof.
    intros E. unfold end_point. rewrite E. unfold tauval.
    destruct (tau M) as [tm|]; unfold vadd; rewrite (accum_spec kO kI kadd kmul ksub kopp Rth);
      unfold vscale; rewrite <- (sumf_scal kO kI kadd kmul ksub kopp Rth).
    - f_equal. f_equal. apply sumf_ext. intros; ring.
    - transitivity (u 0 x +! sumf (fun j => dt *! (weights j *! ftot kO kadd np (f j) x)) 1 M); [|ring].
      f_equal. apply sumf_ext. intros; ring.
  Qed.

  (* ---------------------------------------------------------------- compute_residual() *)
  Theorem residual_is_defect np (u : nat -> V) f tau m x :
    residual_vec kO kadd kmul ksub M dt Q np u f tau m x
    = u 0 x +! dt *! sumf (fun j => Q m j *! ftot kO kadd np (f j) x) 1 M +! tauval tau m x -! u m x.
  Proof.
    unfold residual_vec, tauval. destruct (tau m) as [tm|]; unfold vadd, vsub; rewrite integrate_is_dtQF; ring.
  Qed.

  (* ================================================================ fixed points (C01) *)
  (* extensionality of the problem's functions: true of any actual function of the VALUES *)
  Definition feval_ext : Prop :=
    forall t (u v : V), (forall x, u x = v x) -> forall p x, feval t u p x = feval t v p x.
  Definition solve_ext (p : nat) : Prop :=
    forall (r1 r2 : V) a ug1 ug2 t, (forall x, r1 x = r2 x) -> forall x, solve p r1 a ug1 t x = solve p r2 a ug2 t x.
  (* the other half of the solver contract: the implicit equation has a unique solution *)
  Definition solver_left_inverse (p : nat) : Prop :=
    forall (w rhs : V) a ug t, (forall x, w x -! a *! feval t w p x = rhs x) -> forall x, solve p rhs a ug t x = w x.

  Definition consistent (u : nat -> V) (f : nat -> nat -> V) : Prop :=
    forall m, 1 <= m <= M -> forall p x, f m p x = feval (tn m) (u m) p x.
  Definition lower_triangular (A : nat -> nat -> K) : Prop := forall m j, m < j -> A m j = kO.
  (* the collocation problem  U = u0 + dt Q F(U) + tau  (one part) *)
  Definition collocation1 (u : nat -> V) (f : nat -> nat -> V) (tau : nat -> option V) : Prop :=
    forall m, 1 <= m <= M -> forall x,
      u m x = u 0 x +! dt *! sumf (fun j => Q m j *! f j 0 x) 1 M +! tauval tau m x.

  Lemma sumf_last (g : nat -> K) m : 1 <= m -> sumf g 1 m = sumf g 1 (m - 1) +! g m.
  Proof.
    intros Hm. replace m with (S (m - 1)) at 1 by lia. rewrite snoc. replace (1 + (m - 1)) with m by lia. reflexivity.
  Qed.

  Lemma sumf_tri (A : nat -> nat -> K) (g : nat -> K) m :
    lower_triangular A -> 1 <= m <= M ->
    sumf (fun j => A m j *! g j) 1 M = sumf (fun j => A m j *! g j) 1 m.
  Proof.
    intros Ht Hm. replace M with (m + (M - m)) at 1 by lia.
    rewrite (sumf_split kO kI kadd kmul ksub kopp Rth).
    rewrite (sumf_ext kO kadd (fun j => A m j *! g j) (fun _ => kO) (1 + m) (M - m)).
    - rewrite (sumf_zero kO kI kadd kmul ksub kopp Rth). ring.
    - intros j Hj. rewrite Ht by lia. ring.
  Qed.

  (* ANY fixed point of the generic_implicit sweep, for ANY lower-triangular preconditioner, solves the
     collocation problem: the preconditioner can change the iteration count but never the answer. *)
  Theorem gi_fixed_point_is_collocation QI u f tau :
    solver_contract 0 -> feval_ext -> lower_triangular QI -> consistent u f ->
    let r := gi_update kO kadd kmul ksub keqb M dt t0 nodes Q solve feval QI u f tau in
    (forall m, 1 <= m <= M -> forall x, fst r m x = u m x) ->
    collocation1 u f tau.
  Proof.
    intros Hc Hext Htri Hcons r Hfix m Hm x.
    destruct (gi_sweep_matrix_form QI u f tau Hc) as [_ Hn]. fold r in Hn.
    destruct (Hn m Hm) as [_ H]. specialize (H x).
    assert (Hf : forall j, 1 <= j <= M -> snd r j 0 x = f j 0 x).
    { intros j Hj. destruct (Hn j Hj) as [E _]. rewrite E, (Hcons j Hj). apply Hext. apply Hfix. exact Hj. }
    rewrite (sumf_ext kO kadd (fun j => QI m j *! snd r j 0 x) (fun j => QI m j *! f j 0 x) 1 m) in H
      by (intros j Hj; rewrite Hf by lia; reflexivity).
    rewrite <- (sumf_tri QI (fun j => f j 0 x) m Htri Hm) in H.
    rewrite L5 in H. rewrite Hfix in H by exact Hm.
    set (B := sumf (fun j => Q m j *! f j 0 x) 1 M) in *.
    set (C := sumf (fun j => QI m j *! f j 0 x) 1 M) in *.
    transitivity ((u m x -! dt *! C) +! dt *! C); [ring|]. rewrite H. ring.
  Qed.

  (* Conversely the collocation solution is a fixed point of the sweep (uses uniqueness of the solve). *)
  Theorem gi_collocation_is_fixed_point QI u f tau :
    solver_left_inverse 0 -> feval_ext -> lower_triangular QI -> consistent u f ->
    (forall m, 1 <= m <= M -> dt *! QI m m <> kO \/ keqb (dt *! QI m m) kO = true) ->
    collocation1 u f tau ->
    let r := gi_update kO kadd kmul ksub keqb M dt t0 nodes Q solve feval QI u f tau in
    forall m, 1 <= m <= M -> forall x, fst r m x = u m x.
  Proof.
    intros Hli Hext Htri Hcons Hdec Hcoll r. unfold gi_update, update_nodes in r.
    pose proof (sweep_loop_spec kO kadd kmul dt t0 nodes 1 feval (fun _ => QI)
                  (gi_node_solve kO kadd kmul keqb dt t0 nodes solve QI)
                  1 (gather kO kadd kmul ksub M dt Q 1 (fun _ => QI) 1 (u 0) f tau) M 1 u f (le_n 1)) as S.
    cbv zeta in S. fold r in S. destruct S as [_ Sn].
    (* strong induction on the node index *)
    assert (Hall : forall n m, m <= n -> 1 <= m <= M -> forall x, fst r m x = u m x).
    { induction n as [|n IH]; intros m Hmn Hm x; [lia|].
      destruct (Sn m ltac:(lia)) as [_ E2].
      assert (Hf : forall j, 1 <= j < m -> forall y, snd r j 0 y = f j 0 y).
      { intros j Hj y. destruct (Sn j ltac:(lia)) as [E _]. rewrite E, (Hcons j ltac:(lia)). apply Hext.
        intros z. apply IH; lia. }
      (* value of the right-hand side handed to the node solve *)
      assert (Hrhs : forall y,
         accum kadd (gather kO kadd kmul ksub M dt Q 1 (fun _ => QI) 1 (u 0) f tau m) 1 (m - 1)
               (dqd_term kO kadd kmul dt 1 (fun _ => QI) (snd r) m) y
         = u m y -! (dt *! QI m m) *! f m 0 y).
      { intros y. rewrite (rhs_spec kO kI kadd kmul ksub kopp Rth), (gather_spec kO kI kadd kmul ksub kopp Rth).
        replace (S M - 1) with M by lia. simpl. unfold vadd, vzero, vscale.
        rewrite !L1, L3.
        rewrite (sumf_ext kO kadd (fun j => QI m j *! snd r j 0 y) (fun j => QI m j *! f j 0 y) 1 (m - 1))
          by (intros j Hj; rewrite Hf by lia; reflexivity).
        rewrite (Hcoll m Hm y).
        rewrite (sumf_tri QI (fun j => f j 0 y) m Htri Hm).
        rewrite (sumf_last (fun j => QI m j *! f j 0 y) m) by lia.
        ring. }
      rewrite E2. unfold gi_node_solve.
      destruct (keqb (dt *! QI m m) kO) eqn:Eb.
      - rewrite Hrhs. apply keqb_true in Eb. rewrite Eb. ring.
      - apply Hli. intros y. rewrite Hrhs. rewrite (Hcons m Hm). reflexivity. }
    intros m Hm x. apply (Hall m m (le_n m) Hm).
  Qed.

  Theorem residual_zero_iff_collocation (u : nat -> V) f tau m x :
    residual_vec kO kadd kmul ksub M dt Q 1 u f tau m x = kO <->
    u m x = u 0 x +! dt *! sumf (fun j => Q m j *! f j 0 x) 1 M +! tauval tau m x.
  Proof.
    rewrite residual_is_defect.
    rewrite (sumf_ext kO kadd (fun j => Q m j *! ftot kO kadd 1 (f j) x) (fun j => Q m j *! f j 0 x) 1 M)
      by (intros j _; cbn [ftot]; unfold vadd, vzero; ring).
    set (c := u 0 x +! dt *! sumf (fun j => Q m j *! f j 0 x) 1 M +! tauval tau m x).
    split; intros H.
    - transitivity (c -! (c -! u m x)); [ring | rewrite H; ring].
    - rewrite H. ring.
  Qed.

  (* ================================================================ multi_implicit *)
  Notation mi_loop := (mi_loop kadd kmul ksub dt t0 nodes solve feval).

  Definition mi_rhs1 (Q1 : nat -> nat -> K) (g : nat -> V) (fn : nat -> nat -> V) (m : nat) : V :=
    accum kadd (g m) 1 (m - 1) (fun j => vscale kmul (dt *! Q1 m j) (fn j 0)).
  Definition mi_u1 (Q1 : nat -> nat -> K) (g : nat -> V) (fn : nat -> nat -> V) (uold : nat -> V) (m : nat) : V :=
    solve 0 (mi_rhs1 Q1 g fn m) (dt *! Q1 m m) (uold m) (tn m).
  Definition mi_rhs2 (Q1 Q2 : nat -> nat -> K) (g q2 : nat -> V) (fn : nat -> nat -> V) (uold : nat -> V) (m : nat) : V :=
    accum kadd (vsub ksub (mi_u1 Q1 g fn uold m) (q2 m)) 1 (m - 1) (fun j => vscale kmul (dt *! Q2 m j) (fn j 1)).

  (* law-free characterisation of the two-solve node loop *)
  Lemma mi_loop_spec Q1 Q2 (g q2 : nat -> V) : forall n k (u' : nat -> V) (f' : nat -> nat -> V),
    1 <= k ->
    let r := mi_loop Q1 Q2 g q2 (seq k n) (u', f') in
    (forall j, j < k \/ k + n <= j -> fst r j = u' j /\ snd r j = f' j) /\
    (forall m, k <= m < k + n ->
       snd r m = feval (tn m) (fst r m) /\
       fst r m = solve 1 (mi_rhs2 Q1 Q2 g q2 (snd r) u' m) (dt *! Q2 m m) (mi_u1 Q1 g (snd r) u' m) (tn m)).
  Proof.
    induction n as [|n IH]; intros k u' f' Hk; cbn [seq Sweep.mi_loop].
    - cbn [fst snd]. split; [intros; split; reflexivity | intros m Hm; lia].
    - set (rhs1 := accum kadd (g k) 1 (k - 1) (fun j => vscale kmul (dt *! Q1 k j) (f' j 0))).
      set (u1 := solve 0 rhs1 (dt *! Q1 k k) (u' k) (tn k)).
      set (rhs2 := accum kadd (vsub ksub u1 (q2 k)) 1 (k - 1) (fun j => vscale kmul (dt *! Q2 k j) (f' j 1))).
      set (u2 := solve 1 rhs2 (dt *! Q2 k k) u1 (tn k)).
      specialize (IH (S k) (upd u' k u2) (upd f' k (feval (tn k) u2)) ltac:(lia)).
      cbv zeta in IH. destruct IH as [IHf IHn].
      set (r := mi_loop Q1 Q2 g q2 (seq (S k) n) (upd u' k u2, upd f' k (feval (tn k) u2))) in *.
      assert (Hpre : forall j, 1 <= j < 1 + (k - 1) -> snd r j = f' j).
      { intros j Hj. destruct (IHf j ltac:(lia)) as [_ E]. rewrite E. apply upd_other. lia. }
      assert (E1 : mi_rhs1 Q1 g (snd r) k = rhs1).
      { unfold mi_rhs1, rhs1. apply (accum_ext kadd). intros j Hj. rewrite (Hpre j Hj). reflexivity. }
      assert (Eu1 : mi_u1 Q1 g (snd r) u' k = u1).
      { unfold mi_u1. rewrite E1. reflexivity. }
      assert (E2 : mi_rhs2 Q1 Q2 g q2 (snd r) u' k = rhs2).
      { unfold mi_rhs2, rhs2. rewrite Eu1. apply (accum_ext kadd). intros j Hj. rewrite (Hpre j Hj). reflexivity. }
      split.
      + intros j Hj. destruct (IHf j ltac:(lia)) as [Ea Eb]. rewrite Ea, Eb, !upd_other by lia. split; reflexivity.
      + intros m Hm. destruct (Nat.eq_dec m k) as [->|Hne].
        * destruct (IHf k ltac:(lia)) as [Ea Eb]. rewrite Ea, Eb, !upd_same. split; [reflexivity|].
          rewrite E2, Eu1. reflexivity.
        * destruct (IHn m ltac:(lia)) as [Ea Eb]. split; [exact Ea|].
          rewrite Eb. unfold mi_rhs2, mi_u1, mi_rhs1. rewrite upd_other by lia. reflexivity.
  Qed.

  (* multi_implicit.update_nodes: two successive implicit solves per node.  With u* the first-stage value,
       u*_m - dt Q1[m,m] f1(u*_m) - dt sum_{j<m} Q1[m,j] f1(U_new_j) = u0 + dt sum_j (Q - Q1)[m,j] f1(U_old_j) + dt sum_j Q[m,j] f2(U_old_j) + tau_m
       U_new_m - dt sum_{j<=m} Q2[m,j] f2(U_new_j) = u*_m - dt sum_j Q2[m,j] f2(U_old_j)                                           *)
  Theorem mi_sweep_two_stage_form Q1 Q2 u f tau :
    solver_contract 0 -> solver_contract 1 ->
    let r := mi_update kO kadd kmul ksub M dt t0 nodes Q solve feval Q1 Q2 u f tau in
    (forall j, j = 0 \/ M < j -> fst r j = u j /\ snd r j = f j) /\
    forall m, 1 <= m <= M ->
      snd r m = feval (tn m) (fst r m) /\
      exists ustar : V, forall x,
        ustar x -! dt *! Q1 m m *! feval (tn m) ustar 0 x -! dt *! sumf (fun j => Q1 m j *! snd r j 0 x) 1 (m - 1)
        = u 0 x +! dt *! sumf (fun j => (Q m j -! Q1 m j) *! f j 0 x) 1 M
                +! dt *! sumf (fun j => Q m j *! f j 1 x) 1 M +! tauval tau m x
        /\
        fst r m x -! dt *! sumf (fun j => Q2 m j *! snd r j 1 x) 1 m
        = ustar x -! dt *! sumf (fun j => Q2 m j *! f j 1 x) 1 M.
  Proof.
    intros Hc0 Hc1 r. unfold mi_update in r.
    pose proof (mi_loop_spec Q1 Q2 (mi_gather kO kadd kmul ksub M dt Q Q1 (u 0) f tau) (mi_Q2int kO kadd kmul M dt Q2 f)
                  M 1 u f (le_n 1)) as S.
    cbv zeta in S. fold r in S. destruct S as [Sf Sn].
    split; [intros j Hj; apply Sf; lia|].
    intros m Hm. destruct (Sn m ltac:(lia)) as [E1 E2]. split; [exact E1|].
    set (g := mi_gather kO kadd kmul ksub M dt Q Q1 (u 0) f tau) in *.
    set (q2 := mi_Q2int kO kadd kmul M dt Q2 f) in *.
    exists (mi_u1 Q1 g (snd r) u m). intros x. split.
    - (* first stage *)
      unfold mi_u1 at 1 2. rewrite Hc0. unfold mi_rhs1.
      rewrite (accum_spec kO kI kadd kmul ksub kopp Rth). unfold vscale.
      unfold g, mi_gather, tauval. 
      assert (G : forall tm : option V,
                 (match tm with Some t => vadd kadd (vadd kadd (accum_sub ksub (integrate kO kadd kmul M dt Q 2 f m) 1 M
                                     (fun j => vscale kmul (dt *! Q1 m j) (f j 0))) (u 0)) t
                  | None => vadd kadd (accum_sub ksub (integrate kO kadd kmul M dt Q 2 f m) 1 M
                                     (fun j => vscale kmul (dt *! Q1 m j) (f j 0))) (u 0) end) x
                 = dt *! sumf (fun j => Q m j *! f j 0 x) 1 M +! dt *! sumf (fun j => Q m j *! f j 1 x) 1 M
                   -! dt *! sumf (fun j => Q1 m j *! f j 0 x) 1 M +! u 0 x
                   +! match tm with Some t => t x | None => kO end).
      { intros tm. destruct tm as [t|]; unfold vadd; rewrite (accum_sub_spec kO kI kadd kmul ksub kopp Rth);
          rewrite integrate_is_dtQF; unfold vscale; cbn [ftot]; unfold vadd, vzero.
        - rewrite (sumf_ext kO kadd (fun j => Q m j *! (kO +! f j 0 x +! f j 1 x)) (fun j => Q m j *! f j 0 x +! Q m j *! f j 1 x) 1 M) by (intros; ring).
          rewrite (sumf_add kO kI kadd kmul ksub kopp Rth).
          rewrite (sumf_ext kO kadd (fun j => dt *! Q1 m j *! f j 0 x) (fun j => dt *! (Q1 m j *! f j 0 x)) 1 M) by (intros; ring).
          rewrite (sumf_scal kO kI kadd kmul ksub kopp Rth). ring.
        - rewrite (sumf_ext kO kadd (fun j => Q m j *! (kO +! f j 0 x +! f j 1 x)) (fun j => Q m j *! f j 0 x +! Q m j *! f j 1 x) 1 M) by (intros; ring).
          rewrite (sumf_add kO kI kadd kmul ksub kopp Rth).
          rewrite (sumf_ext kO kadd (fun j => dt *! Q1 m j *! f j 0 x) (fun j => dt *! (Q1 m j *! f j 0 x)) 1 M) by (intros; ring).
          rewrite (sumf_scal kO kI kadd kmul ksub kopp Rth). ring. }
      rewrite G.
      rewrite (sumf_ext kO kadd (fun j => dt *! Q1 m j *! snd r j 0 x) (fun j => dt *! (Q1 m j *! snd r j 0 x)) 1 (m - 1)) by (intros; ring).
      rewrite (sumf_scal kO kI kadd kmul ksub kopp Rth). rewrite L5. ring.
    - (* second stage *)
      rewrite (sumf_last (fun j => Q2 m j *! snd r j 1 x) m) by lia.
      assert (H2 : fst r m x -! dt *! Q2 m m *! snd r m 1 x = mi_rhs2 Q1 Q2 g q2 (snd r) u m x).
      { rewrite E1. remember (mi_rhs2 Q1 Q2 g q2 (snd r) u m) as R2 eqn:HR2.
        remember (mi_u1 Q1 g (snd r) u m) as U1 eqn:HU1. rewrite E2. apply Hc1. }
      unfold mi_rhs2 in H2. rewrite (accum_spec kO kI kadd kmul ksub kopp Rth) in H2. unfold vsub, vscale in H2.
      unfold q2, mi_Q2int in H2. rewrite (accum_spec kO kI kadd kmul ksub kopp Rth) in H2. unfold vzero, vscale in H2.
      rewrite (sumf_ext kO kadd (fun j => dt *! Q2 m j *! f j 1 x) (fun j => dt *! (Q2 m j *! f j 1 x)) 1 M) in H2 by (intros; ring).
      rewrite (sumf_ext kO kadd (fun j => dt *! Q2 m j *! snd r j 1 x) (fun j => dt *! (Q2 m j *! snd r j 1 x)) 1 (m - 1)) in H2 by (intros; ring).
      rewrite !(sumf_scal kO kI kadd kmul ksub kopp Rth) in H2.
      transitivity ((fst r m x -! dt *! Q2 m m *! snd r m 1 x) -! dt *! sumf (fun j => Q2 m j *! snd r j 1 x) 1 (m - 1)); [ring|].
      rewrite H2. ring.
  Qed.

  (* ================================================================ Runge-Kutta sweepers: stage form *)
  Theorem rk_stage_form (A : nat -> nat -> K) u f :
    solver_contract 0 ->
    let r := rk_update kO kadd kmul keqb M dt t0 nodes solve feval 1 (fun _ => A) u f in
    (forall j, j = 0 \/ M < j -> fst r j = u j /\ snd r j = f j) /\
    forall m, 1 <= m <= M ->
      snd r m = feval (tn m) (fst r m) /\
      forall x, fst r m x -! dt *! sumf (fun j => A m j *! snd r j 0 x) 1 m = u 0 x.
  Proof.
    intros Hc r. unfold rk_update in r.
    pose proof (sweep_loop_spec kO kadd kmul dt t0 nodes 1 feval (fun _ => A)
                  (rk_node_solve kO kadd kmul keqb dt t0 nodes solve A) 1 (fun _ => u 0) M 1 u f (le_n 1)) as S.
    cbv zeta in S. fold r in S. destruct S as [Sf Sn].
    split; [intros j Hj; apply Sf; lia|].
    intros m Hm. destruct (Sn m ltac:(lia)) as [E1 E2]. split; [exact E1|]. intros x.
    assert (Hnode : fst r m x -! (dt *! A m m) *! snd r m 0 x
                    = accum kadd (u 0) 1 (m - 1) (dqd_term kO kadd kmul dt 1 (fun _ => A) (snd r) m) x).
    { rewrite E1.
      remember (accum kadd (u 0) 1 (m - 1) (dqd_term kO kadd kmul dt 1 (fun _ => A) (snd r) m)) as R eqn:HR.
      rewrite E2. unfold rk_node_solve.
      destruct (keqb (A m m) kO) eqn:Eb.
      - apply keqb_true in Eb. rewrite Eb. ring.
      - apply Hc. }
    rewrite (accum_spec kO kI kadd kmul ksub kopp Rth) in Hnode. unfold Sweep.dqd_term, vscale in Hnode.
    simpl in Hnode. unfold vadd, vzero, vscale in Hnode. rewrite L1 in Hnode.
    rewrite (sumf_last (fun j => A m j *! snd r j 0 x) m) by lia.
    transitivity ((fst r m x -! dt *! A m m *! snd r m 0 x) -! dt *! sumf (fun j => A m j *! snd r j 0 x) 1 (m - 1)); [ring|].
    rewrite Hnode. ring.
  Qed.

  (* ================================================================ IMEX fixed points (C01) *)
  Definition strictly_lower_triangular (A : nat -> nat -> K) : Prop := forall m j, m <= j -> A m j = kO.
  Definition collocation2 (u : nat -> V) (f : nat -> nat -> V) (tau : nat -> option V) : Prop :=
    forall m, 1 <= m <= M -> forall x,
      u m x = u 0 x +! dt *! sumf (fun j => Q m j *! (f j 0 x +! f j 1 x)) 1 M +! tauval tau m x.

  Lemma sumf_stri (A : nat -> nat -> K) (g : nat -> K) m :
    strictly_lower_triangular A -> 1 <= m <= M ->
    sumf (fun j => A m j *! g j) 1 M = sumf (fun j => A m j *! g j) 1 (m - 1).
  Proof.
    intros Ht Hm. replace M with ((m - 1) + (M - (m - 1))) at 1 by lia.
    rewrite (sumf_split kO kI kadd kmul ksub kopp Rth).
    rewrite (sumf_ext kO kadd (fun j => A m j *! g j) (fun _ => kO) (1 + (m - 1)) (M - (m - 1))).
    - rewrite (sumf_zero kO kI kadd kmul ksub kopp Rth). ring.
    - intros j Hj. rewrite Ht by lia. ring.
  Qed.

  (* any fixed point of the IMEX sweep (any lower-triangular QI, any strictly lower-triangular QE) solves
     the collocation problem with the FULL right-hand side f_impl + f_expl *)
  Theorem imex_fixed_point_is_collocation QI QE u f tau :
    solver_contract 0 -> feval_ext -> lower_triangular QI -> strictly_lower_triangular QE -> consistent u f ->
    let r := imex_update kO kadd kmul ksub M dt t0 nodes Q solve feval QI QE u f tau in
    (forall m, 1 <= m <= M -> forall x, fst r m x = u m x) ->
    collocation2 u f tau.
  Proof.
    intros Hc Hext Htri Hstri Hcons r Hfix m Hm x.
    destruct (imex_sweep_matrix_form QI QE u f tau Hc) as [_ Hn]. fold r in Hn.
    destruct (Hn m Hm) as [_ H]. specialize (H x).
    assert (Hf : forall j p, 1 <= j <= M -> snd r j p x = f j p x).
    { intros j p Hj. destruct (Hn j Hj) as [E _]. rewrite E, (Hcons j Hj). apply Hext. apply Hfix. exact Hj. }
    rewrite (sumf_ext kO kadd (fun j => QI m j *! snd r j 0 x) (fun j => QI m j *! f j 0 x) 1 m) in H
      by (intros j Hj; rewrite Hf by lia; reflexivity).
    rewrite (sumf_ext kO kadd (fun j => QE m j *! snd r j 1 x) (fun j => QE m j *! f j 1 x) 1 (m - 1)) in H
      by (intros j Hj; rewrite Hf by lia; reflexivity).
    rewrite <- (sumf_tri QI (fun j => f j 0 x) m Htri Hm) in H.
    rewrite <- (sumf_stri QE (fun j => f j 1 x) m Hstri Hm) in H.
    rewrite !L5 in H. rewrite Hfix in H by exact Hm.
    rewrite (sumf_ext kO kadd (fun j => Q m j *! (f j 0 x +! f j 1 x)) (fun j => Q m j *! f j 0 x +! Q m j *! f j 1 x) 1 M)
      by (intros; ring).
    rewrite (sumf_add kO kI kadd kmul ksub kopp Rth).
    set (B := sumf (fun j => Q m j *! f j 0 x) 1 M) in *.
    set (B' := sumf (fun j => Q m j *! f j 1 x) 1 M) in *.
    set (C := sumf (fun j => QI m j *! f j 0 x) 1 M) in *.
    set (C' := sumf (fun j => QE m j *! f j 1 x) 1 M) in *.
    transitivity ((u m x -! dt *! C -! dt *! C') +! dt *! C +! dt *! C'); [ring|]. rewrite H. ring.
  Qed.

  Theorem residual_zero_iff_collocation2 (u : nat -> V) f tau m x :
    residual_vec kO kadd kmul ksub M dt Q 2 u f tau m x = kO <->
    u m x = u 0 x +! dt *! sumf (fun j => Q m j *! (f j 0 x +! f j 1 x)) 1 M +! tauval tau m x.
  Proof.
    rewrite residual_is_defect.
    rewrite (sumf_ext kO kadd (fun j => Q m j *! ftot kO kadd 2 (f j) x) (fun j => Q m j *! (f j 0 x +! f j 1 x)) 1 M)
      by (intros j _; cbn [ftot]; unfold vadd, vzero; ring).
    set (c := u 0 x +! dt *! sumf (fun j => Q m j *! (f j 0 x +! f j 1 x)) 1 M +! tauval tau m x).
    split; intros H.
    - transitivity (c -! (c -! u m x)); [ring | rewrite H; ring].
    - rewrite H. ring.
  Qed.

  (* Conversely the IMEX collocation solution (full right-hand side) is a fixed point of the IMEX sweep *)
  Theorem imex_collocation_is_fixed_point QI QE u f tau :
    solver_left_inverse 0 -> feval_ext -> lower_triangular QI -> strictly_lower_triangular QE -> consistent u f ->
    collocation2 u f tau ->
    let r := imex_update kO kadd kmul ksub M dt t0 nodes Q solve feval QI QE u f tau in
    forall m, 1 <= m <= M -> forall x, fst r m x = u m x.
  Proof.
    intros Hli Hext Htri Hstri Hcons Hcoll r. unfold imex_update, update_nodes in r.
    pose proof (sweep_loop_spec kO kadd kmul dt t0 nodes 2 feval (fun p => if Nat.eqb p 0 then QI else QE)
                  (imex_node_solve kadd kmul dt t0 nodes solve QI)
                  1 (gather kO kadd kmul ksub M dt Q 2 (fun p => if Nat.eqb p 0 then QI else QE) 1 (u 0) f tau) M 1 u f (le_n 1)) as S.
    cbv zeta in S. fold r in S. destruct S as [_ Sn].
    assert (Hall : forall n m, m <= n -> 1 <= m <= M -> forall x, fst r m x = u m x).
    { induction n as [|n IH]; intros m Hmn Hm x; [lia|].
      destruct (Sn m ltac:(lia)) as [_ E2].
      assert (Hf : forall j, 1 <= j < m -> forall p y, snd r j p y = f j p y).
      { intros j Hj p y. destruct (Sn j ltac:(lia)) as [E _]. rewrite E, (Hcons j ltac:(lia)). apply Hext.
        intros z. apply IH; lia. }
      assert (Hrhs : forall y,
         accum kadd (gather kO kadd kmul ksub M dt Q 2 (fun p => if Nat.eqb p 0 then QI else QE) 1 (u 0) f tau m) 1 (m - 1)
               (dqd_term kO kadd kmul dt 2 (fun p => if Nat.eqb p 0 then QI else QE) (snd r) m) y
         = u m y -! (dt *! QI m m) *! f m 0 y).
      { intros y. rewrite (rhs_spec kO kI kadd kmul ksub kopp Rth), (gather_spec kO kI kadd kmul ksub kopp Rth).
        replace (S M - 1) with M by lia. simpl. unfold vadd, vzero, vscale.
        rewrite !L2, L4.
        rewrite (sumf_ext kO kadd (fun j => QI m j *! snd r j 0 y) (fun j => QI m j *! f j 0 y) 1 (m - 1))
          by (intros j Hj; rewrite Hf by lia; reflexivity).
        rewrite (sumf_ext kO kadd (fun j => QE m j *! snd r j 1 y) (fun j => QE m j *! f j 1 y) 1 (m - 1))
          by (intros j Hj; rewrite Hf by lia; reflexivity).
        rewrite (Hcoll m Hm y).
        rewrite (sumf_ext kO kadd (fun j => Q m j *! (f j 0 y +! f j 1 y)) (fun j => Q m j *! f j 0 y +! Q m j *! f j 1 y) 1 M)
          by (intros; ring).
        rewrite (sumf_add kO kI kadd kmul ksub kopp Rth).
        rewrite (sumf_tri QI (fun j => f j 0 y) m Htri Hm).
        rewrite (sumf_last (fun j => QI m j *! f j 0 y) m) by lia.
        rewrite (sumf_stri QE (fun j => f j 1 y) m Hstri Hm).
        ring. }
      rewrite E2. unfold imex_node_solve.
      apply Hli. intros y. rewrite Hrhs. rewrite (Hcons m Hm). reflexivity. }
    intros m Hm x. apply (Hall m m (le_n m) Hm).
  Qed.

  (* ---------------------------------------------------------------- explicit fixed points (C01) *)
  (* explicit sweeper: no solver at all, so BOTH directions hold unconditionally (strictly lower-triangular QE) *)
  Theorem expl_fixed_point_is_collocation QE u f tau :
    feval_ext -> strictly_lower_triangular QE -> consistent u f ->
    let r := expl_update kO kadd kmul ksub M dt t0 nodes Q feval QE u f tau in
    (forall m, 1 <= m <= M -> forall x, fst r m x = u m x) ->
    collocation1 u f tau.
  Proof.
    intros Hext Hstri Hcons r Hfix m Hm x.
    destruct (expl_sweep_matrix_form QE u f tau) as [_ Hn]. fold r in Hn.
    destruct (Hn m Hm) as [_ H]. specialize (H x).
    assert (Hf : forall j, 1 <= j <= M -> snd r j 0 x = f j 0 x).
    { intros j Hj. destruct (Hn j Hj) as [E _]. rewrite E, (Hcons j Hj). apply Hext. apply Hfix. exact Hj. }
    rewrite (sumf_ext kO kadd (fun j => QE m j *! snd r j 0 x) (fun j => QE m j *! f j 0 x) 1 (m - 1)) in H
      by (intros j Hj; rewrite Hf by lia; reflexivity).
    rewrite <- (sumf_stri QE (fun j => f j 0 x) m Hstri Hm) in H.
    rewrite L5 in H. rewrite Hfix in H by exact Hm.
    set (B := sumf (fun j => Q m j *! f j 0 x) 1 M) in *.
    set (C := sumf (fun j => QE m j *! f j 0 x) 1 M) in *.
    transitivity ((u m x -! dt *! C) +! dt *! C); [ring|]. rewrite H. ring.
  Qed.

  Theorem expl_collocation_is_fixed_point QE u f tau :
    feval_ext -> strictly_lower_triangular QE -> consistent u f -> collocation1 u f tau ->
    let r := expl_update kO kadd kmul ksub M dt t0 nodes Q feval QE u f tau in
    forall m, 1 <= m <= M -> forall x, fst r m x = u m x.
  Proof.
    intros Hext Hstri Hcons Hcoll r.
    destruct (expl_sweep_matrix_form QE u f tau) as [_ Hn]. fold r in Hn.
    assert (Hall : forall n m, m <= n -> 1 <= m <= M -> forall x, fst r m x = u m x).
    { induction n as [|n IH]; intros m Hmn Hm x; [lia|].
      destruct (Hn m Hm) as [_ H]. specialize (H x).
      assert (Hf : forall j, 1 <= j < m -> snd r j 0 x = f j 0 x).
      { intros j Hj. destruct (Hn j ltac:(lia)) as [E _]. rewrite E, (Hcons j ltac:(lia)). apply Hext.
        intros z. apply IH; lia. }
      rewrite (sumf_ext kO kadd (fun j => QE m j *! snd r j 0 x) (fun j => QE m j *! f j 0 x) 1 (m - 1)) in H
        by (intros j Hj; rewrite Hf by lia; reflexivity).
      rewrite <- (sumf_stri QE (fun j => f j 0 x) m Hstri Hm) in H.
      rewrite L5 in H. rewrite (Hcoll m Hm x).
      set (B := sumf (fun j => Q m j *! f j 0 x) 1 M) in *.
      set (C := sumf (fun j => QE m j *! f j 0 x) 1 M) in *.
      transitivity ((fst r m x -! dt *! C) +! dt *! C); [ring|]. rewrite H. ring. }
    intros m Hm x. apply (Hall m m (le_n m) Hm).
  Qed.

  (* ---------------------------------------------------------------- multi_implicit fixed points (C01) *)
  (* any fixed point of the two-stage multi_implicit sweep (lower-triangular Q1, Q2) solves the collocation problem with the
     FULL right-hand side f_1 + f_2: the splitting changes the iteration, never the answer *)
  Theorem mi_fixed_point_is_collocation Q1 Q2 u f tau :
    solver_contract 0 -> solver_contract 1 -> feval_ext -> lower_triangular Q1 -> lower_triangular Q2 -> consistent u f ->
    let r := mi_update kO kadd kmul ksub M dt t0 nodes Q solve feval Q1 Q2 u f tau in
    (forall m, 1 <= m <= M -> forall x, fst r m x = u m x) ->
    collocation2 u f tau.
  Proof.
    intros Hc0 Hc1 Hext Ht1 Ht2 Hcons r Hfix m Hm x.
    destruct (mi_sweep_two_stage_form Q1 Q2 u f tau Hc0 Hc1) as [_ Hn]. fold r in Hn.
    assert (Hf : forall j p y, 1 <= j <= M -> snd r j p y = f j p y).
    { intros j p y Hj. destruct (Hn j Hj) as [E _]. rewrite E, (Hcons j Hj). apply Hext. apply Hfix. exact Hj. }
    destruct (Hn m Hm) as [_ [ustar H]].
    (* second stage at the fixed point: the intermediate value IS the node value *)
    assert (Hstar : forall y, ustar y = u m y).
    { intros y. destruct (H y) as [_ H2].
      rewrite (sumf_ext kO kadd (fun j => Q2 m j *! snd r j 1 y) (fun j => Q2 m j *! f j 1 y) 1 m) in H2
        by (intros j Hj; rewrite Hf by lia; reflexivity).
      rewrite <- (sumf_tri Q2 (fun j => f j 1 y) m Ht2 Hm) in H2. rewrite Hfix in H2 by exact Hm.
      set (S2 := sumf (fun j => Q2 m j *! f j 1 y) 1 M) in *.
      transitivity ((ustar y -! dt *! S2) +! dt *! S2); [ring|]. rewrite <- H2. ring. }
    destruct (H x) as [H1 _].
    assert (Hfe : feval (tn m) ustar 0 x = f m 0 x).
    { rewrite (Hcons m Hm). apply Hext. exact Hstar. }
    rewrite Hfe, Hstar in H1.
    rewrite (sumf_ext kO kadd (fun j => Q1 m j *! snd r j 0 x) (fun j => Q1 m j *! f j 0 x) 1 (m - 1)) in H1
      by (intros j Hj; rewrite Hf by lia; reflexivity).
    rewrite L5 in H1.
    pose proof (sumf_tri Q1 (fun j => f j 0 x) m Ht1 Hm) as T1. cbv beta in T1.
    rewrite (sumf_last (fun j => Q1 m j *! f j 0 x) m) in T1 by lia.
    rewrite (sumf_ext kO kadd (fun j => Q m j *! (f j 0 x +! f j 1 x)) (fun j => Q m j *! f j 0 x +! Q m j *! f j 1 x) 1 M)
      by (intros; ring).
    rewrite (sumf_add kO kI kadd kmul ksub kopp Rth).
    set (B := sumf (fun j => Q m j *! f j 0 x) 1 M) in *.
    set (B' := sumf (fun j => Q m j *! f j 1 x) 1 M) in *.
    set (C := sumf (fun j => Q1 m j *! f j 0 x) 1 M) in *.
    set (A := sumf (fun j => Q1 m j *! f j 0 x) 1 (m - 1)) in *.
    transitivity ((u m x -! dt *! Q1 m m *! f m 0 x -! dt *! A) +! dt *! (A +! Q1 m m *! f m 0 x)); [ring|].
    rewrite H1, <- T1. ring.
  Qed.

  (* ================================================================ imex_1st_order_mass *)
  (* contract of the mass problem's solve_system: mass(w) - a * f_impl(w, t) = rhs *)
  Definition mass_solver_contract (massop : V -> V) : Prop :=
    forall rhs a ug t x, massop (solve 0 rhs a ug t) x -! a *! feval t (solve 0 rhs a ug t) 0 x = rhs x.

  Lemma sumf_first (g : nat -> K) n : sumf g 0 (S n) = g 0 +! sumf g 1 n.
  Proof. reflexivity. Qed.

  Theorem mass_sweep_matrix_form QI QE massop level0 u f tau :
    mass_solver_contract massop ->
    let r := mass_update kO kadd kmul ksub M dt t0 nodes Q solve feval QI QE massop level0 u f tau in
    let u0m := if level0 then massop (u 0) else u 0 in
    (forall j, j = 0 \/ M < j -> fst r j = u j /\ snd r j = f j) /\
    forall m, 1 <= m <= M ->
      snd r m = feval (tn m) (fst r m) /\
      forall x,
        massop (fst r m) x -! dt *! sumf (fun j => QI m j *! snd r j 0 x) 1 m
                          -! dt *! sumf (fun j => QE m j *! snd r j 1 x) 1 (m - 1)
        = u0m x +! dt *! sumf (fun j => (Q m j -! QI m j) *! f j 0 x) 1 M
                +! dt *! sumf (fun j => (Q m j -! QE m j) *! f j 1 x) 1 M +! tauval tau m x.
  Proof.
    intros Hc r u0m. unfold mass_update in r. fold u0m in r.
    set (QDs := fun p : nat => if Nat.eqb p 0 then QI else QE) in *.
    pose proof (sweep_loop_spec kO kadd kmul dt t0 nodes 2 feval QDs (imex_node_solve kadd kmul dt t0 nodes solve QI)
                  0 (gather kO kadd kmul ksub M dt Q 2 QDs 0 u0m f tau) M 1 u f (Nat.le_0_l 1)) as S.
    cbv zeta in S. fold r in S. destruct S as [Sf Sn].
    split; [intros j Hj; apply Sf; lia|].
    intros m Hm. destruct (Sn m ltac:(lia)) as [E1 E2]. split; [exact E1|]. intros x.
    assert (Hnode : massop (fst r m) x -! (dt *! QI m m) *! snd r m 0 x
                    = accum kadd (gather kO kadd kmul ksub M dt Q 2 QDs 0 u0m f tau m) 0 (m - 0)
                            (dqd_term kO kadd kmul dt 2 QDs (snd r) m) x).
    { rewrite E1.
      remember (accum kadd (gather kO kadd kmul ksub M dt Q 2 QDs 0 u0m f tau m) 0 (m - 0)
                      (dqd_term kO kadd kmul dt 2 QDs (snd r) m)) as R eqn:HR.
      rewrite E2. unfold imex_node_solve. apply Hc. }
    rewrite (rhs_spec kO kI kadd kmul ksub kopp Rth) in Hnode.
    rewrite (gather_spec kO kI kadd kmul ksub kopp Rth) in Hnode.
    replace (S M - 0) with (S M) in Hnode by lia. replace (m - 0) with (S (m - 1)) in Hnode by lia.
    rewrite !sumf_first in Hnode.
    (* node 0 is never touched: the column-0 terms of the gather and of the node loop cancel *)
    destruct (Sf 0 ltac:(left; lia)) as [_ Ef0]. 
    simpl in Hnode. unfold QDs in Hnode. simpl in Hnode. rewrite Ef0 in Hnode.
    unfold vadd, vzero, vscale in Hnode. rewrite !L2, L4 in Hnode.
    rewrite (sumf_last (fun j => QI m j *! snd r j 0 x) m) by lia.
    rewrite !L5.
    set (A := sumf (fun j => QI m j *! snd r j 0 x) 1 (m - 1)) in *.
    set (A' := sumf (fun j => QE m j *! snd r j 1 x) 1 (m - 1)) in *.
    set (B := sumf (fun j => Q m j *! f j 0 x) 1 M) in *.
    set (B' := sumf (fun j => Q m j *! f j 1 x) 1 M) in *.
    set (C := sumf (fun j => QI m j *! f j 0 x) 1 M) in *.
    set (C' := sumf (fun j => QE m j *! f j 1 x) 1 M) in *.
    transitivity ((massop (fst r m) x -! dt *! QI m m *! snd r m 0 x) -! dt *! A -! dt *! A'); [ring|].
    rewrite Hnode. ring.
  Qed.

End SweeperTheorems.
