(* C20 — proofs about the model in Model/Descr.v: dict_to_list, the level hierarchy, the verdict of
   `build` (completeness w.r.t. a declarative well-formedness predicate, error class per fault kind),
   registration and ordering of convergence controllers, frozen classes. *)
From Coq Require Import String List ZArith Bool Arith Lia Permutation Sorted.
From PySDC Require Import Base.Tactics Model.Descr.
Import ListNotations.
Open Scope string_scope.
Open Scope list_scope.

(* ------------------------------------------------------------------ dictionaries *)

Lemma lookup_dset_same {V} k (v : V) d : lookup k (dset k v d) = Some v.
Proof.
  induction d as [|[k' v'] r IH]; simpl.
  - now rewrite String.eqb_refl.
  - destruct (String.eqb k k') eqn:E; simpl; rewrite ?String.eqb_refl, ?E; auto.
Qed.

Lemma lookup_dset_other {V} k k' (v : V) d : k <> k' -> lookup k (dset k' v d) = lookup k d.
Proof.
  intros N. induction d as [|[k2 v2] r IH]; simpl.
  - destruct (String.eqb_spec k k'); congruence.
  - destruct (String.eqb_spec k' k2); simpl.
    + subst. destruct (String.eqb_spec k k2); congruence.
    + destruct (String.eqb_spec k k2); auto.
Qed.

Lemma lookup_dset {V} k k' (v : V) d :
  lookup k (dset k' v d) = if String.eqb k k' then Some v else lookup k d.
Proof.
  destruct (String.eqb_spec k k').
  - subst. apply lookup_dset_same.
  - now apply lookup_dset_other.
Qed.

Lemma lookup_None_notin {V} k (d : dict V) : lookup k d = None <-> ~ In k (keys d).
Proof.
  induction d as [|[k' v] r IH]; simpl; [tauto|].
  destruct (String.eqb_spec k k'); subst.
  - split; [discriminate | intros H; exfalso; apply H; now left].
  - rewrite IH. split; [intros H [A|A]; [congruence|tauto] | tauto].
Qed.

(* {**d1, **d2}: the right operand wins (keys of a Python dict are distinct) *)
Lemma lookup_dupdate {V} k (d1 d2 : dict V) : NoDup (keys d2) ->
  lookup k (dupdate d1 d2) = match lookup k d2 with Some v => Some v | None => lookup k d1 end.
Proof.
  unfold dupdate. intros ND. revert d1. induction d2 as [|[k2 v2] r IH]; intros d1; simpl; auto.
  inversion ND as [|? ? Hn ND']; subst. rewrite (IH ND'). destruct (String.eqb_spec k k2).
  - subst. apply lookup_None_notin in Hn. simpl in Hn. rewrite Hn. apply lookup_dset_same.
  - destruct (lookup k r); auto. now apply lookup_dset_other.
Qed.

Lemma mem_str_In s l : mem_str s l = true <-> In s l.
Proof.
  unfold mem_str. rewrite existsb_exists. split.
  - intros [x [H E]]. apply String.eqb_eq in E. now subst.
  - intros H. exists s. split; auto. apply String.eqb_refl.
Qed.

Lemma has_true {V} k (d : dict V) : has k d = true <-> exists v, lookup k d = Some v.
Proof. unfold has. destruct (lookup k d); split; eauto; try discriminate. intros [v H]; discriminate. Qed.

Lemma has_false {V} k (d : dict V) : has k d = false <-> lookup k d = None.
Proof. unfold has. destruct (lookup k d); split; congruence. Qed.

Lemma lookup_In {V} k (v : V) d : lookup k d = Some v -> In (k, v) d.
Proof.
  induction d as [|[k' v'] r IH]; simpl; [discriminate|].
  destruct (String.eqb_spec k k'); intros H.
  - inversion H; subst; now left.
  - right; auto.
Qed.

(* ------------------------------------------------------------------ maxima of lists of naturals *)

Definition lmax (b : nat) (l : list nat) : nat := fold_right Nat.max b l.

Lemma lmax_ge_base b l : b <= lmax b l.
Proof. induction l; simpl; lia. Qed.

Lemma lmax_ge_In b l x : In x l -> x <= lmax b l.
Proof. induction l; simpl; [tauto|]. intros [->|H]; [lia|]. specialize (IHl H). lia. Qed.

Lemma lmax_attained b l : lmax b l = b \/ In (lmax b l) l.
Proof.
  induction l as [|a l IH]; simpl; auto.
  destruct (Nat.max_spec a (fold_right Nat.max b l)) as [[_ E]|[_ E]]; fold (lmax b l) in *; rewrite E.
  - destruct IH; auto.
  - auto.
Qed.

Lemma lmax_unique b l m : b <= m -> (forall x, In x l -> x <= m) -> (m = b \/ In m l) -> lmax b l = m.
Proof.
  intros Hb Hall Hm. apply Nat.le_antisymm.
  - destruct (lmax_attained b l) as [E|E]; [lia | auto].
  - destruct Hm as [->|H]; [apply lmax_ge_base | now apply lmax_ge_In].
Qed.

Lemma lmax_ext b l1 l2 : (forall x, In x l1 <-> In x l2) -> lmax b l1 = lmax b l2.
Proof.
  intros H. apply lmax_unique.
  - apply lmax_ge_base.
  - intros x Hx. apply lmax_ge_In. now apply H.
  - destruct (lmax_attained b l2); auto. right. now apply H.
Qed.

Lemma lmax_app b l1 l2 : lmax b (l1 ++ l2) = Nat.max (lmax b l1) (lmax b l2).
Proof. induction l1; simpl; [pose proof (lmax_ge_base b l2); lia|]. fold (lmax b (l1 ++ l2)) (lmax b l1). lia. Qed.

(* ------------------------------------------------------------------ Step.__dict_to_list *)

Section D2L.
  Context {V : Type}.
  Implicit Types (d : dict (pv V)).

  Lemma max_val_lmax_gen d m :
    fold_left (fun m kv => match snd kv with PList vs => Nat.max m (length vs) | Scalar _ => m end) d m
    = lmax m (list_lengths d).
  Proof.
    revert m. induction d as [|[k p] r IH]; intros m; simpl; auto.
    rewrite IH. destruct p as [v|vs]; simpl; auto.
    fold (lmax m (list_lengths r)).
    clear. induction (list_lengths r); simpl; lia.
  Qed.

  Lemma max_val_lmax d : max_val d = lmax 1 (list_lengths d).
  Proof. apply max_val_lmax_gen. Qed.

  Lemma In_list_lengths d x : In x (list_lengths d) <-> exists k vs, In (k, PList vs) d /\ length vs = x.
  Proof.
    unfold list_lengths. rewrite in_flat_map. split.
    - intros [[k p] [H1 H2]]. destruct p; simpl in H2; [tauto|]. destruct H2 as [<-|[]]. eauto.
    - intros [k [vs [H <-]]]. exists (k, PList vs). split; simpl; auto.
  Qed.

  (* the three clauses of "as many entries as the longest list" *)
  Lemma max_val_ge1 d : 1 <= max_val d.
  Proof. rewrite max_val_lmax. apply lmax_ge_base. Qed.

  Lemma max_val_bound d k vs : In (k, PList vs) d -> length vs <= max_val d.
  Proof. intros H. rewrite max_val_lmax. apply lmax_ge_In. apply In_list_lengths. eauto. Qed.

  Lemma max_val_attained d : max_val d = 1 \/ exists k vs, In (k, PList vs) d /\ length vs = max_val d.
  Proof.
    rewrite max_val_lmax. destruct (lmax_attained 1 (list_lengths d)) as [E|E]; auto.
    right. now apply In_list_lengths.
  Qed.

  Lemma sel_None l (p : pv V) : sel l p = None <-> p = PList [].
  Proof.
    destruct p as [v|vs]; simpl; [split; discriminate|].
    rewrite nth_error_None. destruct vs; simpl; split; intros H; try reflexivity; try discriminate; lia.
  Qed.

  Lemma sel_scalar l (v : V) : sel l (Scalar v) = Some v.
  Proof. reflexivity. Qed.

  (* selecting with an index clipped at a bound that is at least the length changes nothing *)
  Lemma sel_clip l n (p : pv V) : (forall vs, p = PList vs -> length vs <= n) -> sel (Nat.min l (n - 1)) p = sel l p.
  Proof.
    destruct p as [v|vs]; simpl; auto. intros H. specialize (H vs eq_refl). f_equal. lia.
  Qed.

  Lemma row_lookup l d r k : row l d = Some r ->
    lookup k r = match lookup k d with Some p => sel l p | None => None end.
  Proof.
    revert r. induction d as [|[k' p] d IH]; intros r; simpl.
    - intros H; inversion H; reflexivity.
    - destruct (sel l p) eqn:Es; [|discriminate]. destruct (row l d) eqn:Er; [|discriminate].
      intros H; inversion H; subst; simpl. destruct (String.eqb k k'); auto.
  Qed.

  Lemma row_keys l d r : row l d = Some r -> keys r = keys d.
  Proof.
    revert r. induction d as [|[k' p] d IH]; intros r; simpl.
    - intros H; inversion H; reflexivity.
    - destruct (sel l p); [|discriminate]. destruct (row l d); [|discriminate].
      intros H; inversion H; subst; simpl. f_equal. now apply IH.
  Qed.

  Lemma row_None l d : row l d = None <-> exists k, In (k, PList []) d.
  Proof.
    induction d as [|[k' p] d IH]; simpl.
    - split; [discriminate | intros [k []]].
    - destruct (sel l p) eqn:Es.
      + destruct (row l d) eqn:Er.
        * split; [discriminate|]. intros [k [H|H]].
          -- inversion H; subst. assert (X : sel l (@PList V []) = None) by (now apply sel_None). congruence.
          -- assert (None = None :> option (dict V)) by reflexivity. destruct IH as [_ IH]. discriminate IH. eauto.
        * split; auto. intros _. destruct IH as [IH _]. destruct (IH eq_refl) as [k H]. exists k. now right.
      + split; auto. intros _. apply sel_None in Es. subst. exists k'. now left.
  Qed.

  Lemma all_some_Forall2 {A B} (f : A -> option B) xs r :
    all_some (map f xs) = Some r <-> Forall2 (fun x y => f x = Some y) xs r.
  Proof.
    revert r. induction xs as [|x xs IH]; intros r; simpl.
    - split; [intros H; inversion H; constructor | intros H; inversion H; reflexivity].
    - destruct (f x) eqn:E.
      + destruct (all_some (map f xs)) eqn:Ea.
        * split.
          -- intros H; inversion H; subst. constructor; auto. now apply IH.
          -- intros H; inversion H; subst. apply IH in H4. congruence.
        * split; [discriminate|]. intros H; inversion H; subst. apply IH in H4. discriminate.
      + split; [discriminate|]. intros H; inversion H; subst. congruence.
  Qed.

  Lemma all_some_None {A B} (f : A -> option B) xs :
    all_some (map f xs) = None <-> exists x, In x xs /\ f x = None.
  Proof.
    induction xs as [|x xs IH]; simpl.
    - split; [discriminate | intros [x [[] _]]].
    - destruct (f x) eqn:E.
      + destruct (all_some (map f xs)) eqn:Ea.
        * split; [discriminate|]. intros [y [[<-|H] Hy]]; [congruence|].
          destruct IH as [_ IH]. discriminate IH. eauto.
        * split; auto. intros _. destruct IH as [IH _]. destruct (IH eq_refl) as [y [H1 H2]]. exists y; auto.
      + split; auto. intros _. exists x; auto.
  Qed.

  Lemma Forall2_length' {A B} (R : A -> B -> Prop) xs ys : Forall2 R xs ys -> length xs = length ys.
  Proof. induction 1; simpl; auto. Qed.

  Lemma Forall2_nth_seq {B} (R : nat -> B -> Prop) a n ys i y :
    Forall2 R (seq a n) ys -> nth_error ys i = Some y -> R (a + i) y /\ i < n.
  Proof.
    revert a ys i. induction n as [|n IH]; intros a ys i H Hn; simpl in H; inversion H as [|x0 y0 l0 l' HR HF]; subst.
    - destruct i; discriminate.
    - destruct i; simpl in Hn.
      + inversion Hn; subst. rewrite Nat.add_0_r. split; auto; lia.
      + destruct (IH (S a) l' i HF Hn) as [G1 G2]. split; [|lia]. now replace (a + S i) with (S a + i) by lia.
  Qed.

  Theorem dict_to_list_length d ld : dict_to_list d = Some ld -> length ld = max_val d.
  Proof.
    unfold dict_to_list. intros H. apply all_some_Forall2 in H. apply Forall2_length' in H.
    now rewrite seq_length in H.
  Qed.

  Theorem dict_to_list_row d ld l dl : dict_to_list d = Some ld -> nth_error ld l = Some dl ->
    row l d = Some dl /\ l < max_val d.
  Proof.
    unfold dict_to_list. intros H Hn. apply all_some_Forall2 in H.
    now destruct (Forall2_nth_seq _ 0 _ _ _ _ H Hn).
  Qed.

  (* level l gets v[min(l, len v - 1)] of a list and v of a scalar *)
  Theorem dict_to_list_entry d ld l dl k p : dict_to_list d = Some ld -> nth_error ld l = Some dl ->
    lookup k d = Some p -> lookup k dl = sel l p.
  Proof.
    intros H Hn Hk. destruct (dict_to_list_row _ _ _ _ H Hn) as [Hr _].
    rewrite (row_lookup _ _ _ k Hr), Hk. reflexivity.
  Qed.

  Theorem dict_to_list_keys d ld l dl : dict_to_list d = Some ld -> nth_error ld l = Some dl -> keys dl = keys d.
  Proof. intros H Hn. destruct (dict_to_list_row _ _ _ _ H Hn) as [Hr _]. now apply row_keys in Hr. Qed.

  (* IndexError exactly when some list-valued entry is empty *)
  Theorem dict_to_list_None d : dict_to_list d = None <-> exists k, In (k, PList []) d.
  Proof.
    unfold dict_to_list. rewrite all_some_None. split.
    - intros [l [_ H]]. now apply row_None in H.
    - intros H. exists 0. split.
      + apply in_seq. pose proof (max_val_ge1 d). lia.
      + now apply row_None.
  Qed.
End D2L.

(* ------------------------------------------------------------------ Step.__generate_hierarchy *)

Lemma dset_absent {V} k (v : V) d : lookup k d = None -> dset k v d = d ++ [(k, v)].
Proof.
  induction d as [|[k' v'] r IH]; simpl; auto.
  destruct (String.eqb k k'); [discriminate|]. intros H. now rewrite IH.
Qed.

Lemma lookup_set_default k k' v (d : descr) :
  lookup k (set_default k' v d) = match lookup k d with Some x => Some x | None => if String.eqb k k' then Some v else None end.
Proof.
  unfold set_default. destruct (has k' d) eqn:H.
  - apply has_true in H. destruct H as [x Hx]. destruct (lookup k d) eqn:E; auto.
    destruct (String.eqb_spec k k'); auto. congruence.
  - rewrite lookup_dset. destruct (String.eqb_spec k k').
    + subst. apply has_false in H. now rewrite H.
    + destruct (lookup k d); auto.
Qed.

Lemma In_set_default kv k v (d : descr) :
  In kv (set_default k v d) <-> In kv d \/ (lookup k d = None /\ kv = (k, v)).
Proof.
  unfold set_default. destruct (has k d) eqn:H.
  - apply has_true in H. destruct H as [x Hx]. split; auto. intros [A|[A _]]; auto. congruence.
  - apply has_false in H. rewrite (dset_absent _ _ _ H), in_app_iff. simpl. intuition congruence.
Qed.

Definition descr_default (k : string) : option dval :=
  if String.eqb k "problem_params" then Some (DD [])
  else if String.eqb k "base_transfer_class" then Some (DV (Scalar oBaseTransfer))
  else if String.eqb k "base_transfer_params" then Some (DD [])
  else if String.eqb k "space_transfer_class" then Some (DD [])
  else if String.eqb k "space_transfer_params" then Some (DD [])
  else None.

Lemma lookup_with_defaults k d :
  lookup k (with_defaults d) = match lookup k d with Some x => Some x | None => descr_default k end.
Proof.
  unfold with_defaults, descr_default. rewrite !lookup_set_default.
  destruct (lookup k d); auto.
  destruct (String.eqb_spec k "problem_params"); auto.
  destruct (String.eqb_spec k "base_transfer_class"); auto.
  destruct (String.eqb_spec k "base_transfer_params"); auto.
  destruct (String.eqb_spec k "space_transfer_class"); auto.
Qed.

Lemma In_with_defaults kv d :
  In kv (with_defaults d) -> In kv d \/ snd kv = DD [] \/ snd kv = DV (Scalar oBaseTransfer).
Proof.
  unfold with_defaults. rewrite !In_set_default. intuition (subst; simpl; auto).
Qed.

Lemma In_with_defaults_incl kv d : In kv d -> In kv (with_defaults d).
Proof. unfold with_defaults. rewrite !In_set_default. tauto. Qed.

Lemma get_dd_with_defaults k d : get_dd k (with_defaults d) = get_dd k d.
Proof.
  unfold get_dd. rewrite lookup_with_defaults. destruct (lookup k d); auto.
  unfold descr_default. repeat (destruct (String.eqb k _); auto).
Qed.

Lemma first_err_None l : first_err l = None <-> Forall (fun c => c = None) l.
Proof.
  induction l as [|c l IH]; simpl.
  - split; auto.
  - destruct c; split; intros H; try discriminate.
    + inversion H; discriminate.
    + constructor; auto. now apply IH.
    + inversion H; subst. now apply IH.
Qed.

Lemma check_deprecated_None d : check_deprecated d = None <-> has "dtype_u" d = false /\ has "dtype_f" d = false.
Proof.
  unfold check_deprecated. simpl. destruct (has "dtype_u" d), (has "dtype_f" d); simpl; intuition congruence.
Qed.

Lemma check_essential_None d : check_essential d = None <-> forall k, In k essential_keys -> has k d = true.
Proof.
  unfold check_essential. rewrite first_err_None, Forall_map, Forall_forall. split; intros H k Hk; specialize (H k Hk).
  - destruct (has k d); auto; discriminate.
  - now rewrite H.
Qed.

(* what gen_hier computes when it succeeds *)
Lemma gen_hier_inv d dls : gen_hier d = inr dls ->
  check_deprecated d = None /\ check_essential d = None /\
  exists pl ll sl,
    dict_to_list (get_dd "problem_params" d) = Some pl /\
    dict_to_list (get_dd "level_params" d) = Some ll /\
    dict_to_list (get_dd "sweeper_params" d) = Some sl /\
    dict_to_list (map (outer_entry pl ll sl) (with_defaults d)) = Some dls /\
    ((1 <? length dls)%nat && negb (truthy_dval (lookup_or "space_transfer_class" (with_defaults d) (DD [])))) = false.
Proof.
  unfold gen_hier. destruct (check_deprecated d); [discriminate|]. destruct (check_essential d); [discriminate|].
  rewrite !get_dd_with_defaults.
  destruct (dict_to_list (get_dd "problem_params" d)) as [pl|]; [|discriminate].
  destruct (dict_to_list (get_dd "level_params" d)) as [ll|]; [|discriminate].
  destruct (dict_to_list (get_dd "sweeper_params" d)) as [sl|]; [|discriminate].
  destruct (dict_to_list (map (outer_entry pl ll sl) (with_defaults d))) as [dl|] eqn:Eo; [|discriminate].
  destruct ((1 <? length dl)%nat && _) eqn:E; [discriminate|].
  intros H; inversion H; subst. split; [reflexivity|]. split; [reflexivity|]. exists pl, ll, sl. repeat split; auto.
Qed.

Lemma lookup_map_outer k pl ll sl (d : descr) :
  lookup k (map (outer_entry pl ll sl) d) = option_map (fun v => snd (outer_entry pl ll sl (k, v))) (lookup k d).
Proof.
  induction d as [|[k' v] r IH]; simpl; auto.
  destruct (String.eqb_spec k k'); subst; auto.
Qed.

Lemma In_outer_lengths d x :
  In x (outer_list_lengths d) <-> exists k vs, In (k, DV (PList vs)) d /\ mem_str k converted_keys = false /\ length vs = x.
Proof.
  unfold outer_list_lengths. rewrite in_flat_map. split.
  - intros [[k v] [H1 H2]]. cbn [fst snd] in H2. destruct (mem_str k converted_keys) eqn:E; [destruct H2|].
    destruct v as [[a|vs]|dd]; cbn [In] in H2; try tauto. destruct H2 as [<-|[]]. eauto.
  - intros [k [vs [H [E <-]]]]. exists (k, DV (PList vs)). cbn [fst snd]. rewrite E. cbn [In]. auto.
Qed.

Lemma mem_converted k : mem_str k converted_keys =
  (String.eqb k "problem_params" || String.eqb k "level_params" || String.eqb k "sweeper_params").
Proof. unfold mem_str, converted_keys. simpl. now rewrite orb_false_r, !orb_assoc. Qed.

Lemma outer_max_val d pl ll sl : check_essential d = None ->
  dict_to_list (get_dd "problem_params" d) = Some pl ->
  dict_to_list (get_dd "level_params" d) = Some ll ->
  dict_to_list (get_dd "sweeper_params" d) = Some sl ->
  max_val (map (outer_entry pl ll sl) (with_defaults d)) = nlevels d.
Proof.
  intros Hess Hp Hl Hs. rewrite max_val_lmax.
  apply dict_to_list_length in Hp, Hl, Hs. rewrite max_val_lmax in Hp, Hl, Hs.
  unfold nlevels. fold (lmax 1).
  transitivity (lmax 1 (outer_list_lengths d ++ [length pl; length ll; length sl])).
  - apply lmax_ext. intros x. rewrite In_list_lengths, in_app_iff, In_outer_lengths. split.
    + intros [k [vs [Hin <-]]]. apply in_map_iff in Hin. destruct Hin as [[k' v] [Heq Hin]].
      unfold outer_entry in Heq. simpl in Heq. inversion Heq as [[Hk Hv]]. subst k'. clear Heq.
      destruct (String.eqb k "problem_params") eqn:E1; [inversion Hv; rewrite map_length; simpl; tauto|].
      destruct (String.eqb k "level_params") eqn:E2; [inversion Hv; rewrite map_length; simpl; tauto|].
      destruct (String.eqb k "sweeper_params") eqn:E3; [inversion Hv; rewrite map_length; simpl; tauto|].
      destruct v as [[a|ws]|dd]; try discriminate. inversion Hv; subst. rewrite map_length.
      left. exists k, ws. repeat split.
      * apply In_with_defaults in Hin. simpl in Hin. destruct Hin as [?|[?|?]]; auto; discriminate.
      * rewrite mem_converted, E1, E2, E3. reflexivity.
    + intros [[k [vs [Hin [Hm <-]]]]|Hx].
      * exists k, (map OA vs). rewrite map_length. split; auto. apply in_map_iff. exists (k, DV (PList vs)). split.
        -- unfold outer_entry. simpl. rewrite mem_converted in Hm. apply orb_false_iff in Hm. destruct Hm as [Hm E3].
           apply orb_false_iff in Hm. destruct Hm as [E1 E2]. now rewrite E1, E2, E3.
        -- now apply In_with_defaults_incl.
      * assert (Hk : forall k, In k converted_keys -> exists v, In (k, v) (with_defaults d)).
        { intros k Hk. assert (X : exists v, lookup k (with_defaults d) = Some v).
          { rewrite lookup_with_defaults. destruct (lookup k d) eqn:E; eauto.
            destruct Hk as [<-|[<-|[<-|[]]]].
            - vm_compute. eauto.
            - assert (Y : has "level_params" d = true) by (apply (proj1 (check_essential_None d) Hess); simpl; tauto).
              apply has_true in Y. destruct Y; congruence.
            - assert (Y : has "sweeper_params" d = true) by (apply (proj1 (check_essential_None d) Hess); simpl; tauto).
              apply has_true in Y. destruct Y; congruence. }
          destruct X as [v X]. exists v. now apply lookup_In. }
        simpl in Hx. destruct Hx as [<-|[<-|[<-|[]]]].
        -- destruct (Hk "problem_params") as [v Hv]; [simpl; tauto|]. exists "problem_params", (map OD pl).
           rewrite map_length. split; auto. apply in_map_iff. exists ("problem_params", v). split; auto.
        -- destruct (Hk "level_params") as [v Hv]; [simpl; tauto|]. exists "level_params", (map OD ll).
           rewrite map_length. split; auto. apply in_map_iff. exists ("level_params", v). split; auto.
        -- destruct (Hk "sweeper_params") as [v Hv]; [simpl; tauto|]. exists "sweeper_params", (map OD sl).
           rewrite map_length. split; auto. apply in_map_iff. exists ("sweeper_params", v). split; auto.
  - rewrite !lmax_app. simpl. rewrite Hp, Hl, Hs.
    pose proof (lmax_ge_base 1 (list_lengths (get_dd "problem_params" d))).
    pose proof (lmax_ge_base 1 (list_lengths (get_dd "level_params" d))).
    pose proof (lmax_ge_base 1 (list_lengths (get_dd "sweeper_params" d))). lia.
Qed.

(* The hierarchy has exactly as many levels as the longest list (at least one) *)
Theorem levels_eq_longest_list d dls : gen_hier d = inr dls -> length dls = nlevels d.
Proof.
  intros H. destruct (gen_hier_inv _ _ H) as [_ [Hess [pl [ll [sl [Hp [Hl [Hs [Ho _]]]]]]]]].
  rewrite (dict_to_list_length _ _ Ho). now apply outer_max_val.
Qed.

Lemma sel_map {A B} (f : A -> B) l (vs : list A) : sel l (PList (map f vs)) = option_map f (sel l (PList vs)).
Proof. simpl. rewrite map_length. apply nth_error_map. Qed.

Lemma nested_sel (P : dict (pv atom)) xl l k p :
  dict_to_list P = Some xl -> lookup k P = Some p ->
  exists pd, sel l (PList (map OD xl)) = Some (OD pd) /\ lookup k pd = sel l p.
Proof.
  intros HP Hk. rewrite sel_map. pose proof (dict_to_list_length _ _ HP) as Hlen.
  pose proof (max_val_ge1 P) as Hge. simpl.
  destruct (nth_error xl (Nat.min l (length xl - 1))) as [pd|] eqn:En.
  - exists pd. split; auto. rewrite (dict_to_list_entry _ _ _ _ _ _ HP En Hk). rewrite Hlen.
    apply sel_clip. intros vs ->. apply (max_val_bound P k). now apply lookup_In.
  - apply nth_error_None in En. lia.
Qed.

(* level l gets, for every key of the three per-level parameter dicts, v[min(l, len v - 1)] when the
   entry is a list and v itself otherwise *)
Theorem entry_selection d dls l dl sec k p :
  gen_hier d = inr dls -> nth_error dls l = Some dl -> In sec converted_keys ->
  lookup k (get_dd sec d) = Some p ->
  exists pd, lookup sec dl = Some (OD pd) /\ lookup k pd = sel l p.
Proof.
  intros H Hn Hsec Hk. destruct (gen_hier_inv _ _ H) as [_ [_ [pl [ll [sl [Hp [Hl [Hs [Ho _]]]]]]]]].
  assert (Hd : exists P, lookup sec d = Some (DD P)).
  { unfold get_dd in Hk. destruct (lookup sec d) as [[?|P]|]; try discriminate. eauto. }
  destruct Hd as [P HP].
  assert (Hlk : lookup sec (map (outer_entry pl ll sl) (with_defaults d))
                = Some (snd (outer_entry pl ll sl (sec, DD P)))).
  { rewrite lookup_map_outer, lookup_with_defaults, HP. reflexivity. }
  rewrite (dict_to_list_entry _ _ _ _ _ _ Ho Hn Hlk).
  destruct Hsec as [<-|[<-|[<-|[]]]]; unfold outer_entry; simpl fst; simpl snd; cbv [String.eqb Ascii.eqb Bool.eqb];
    simpl; eapply nested_sel; eauto.
Qed.

(* ... and likewise for the list-valued entries of the description itself (classes, ...) *)
Theorem entry_selection_outer d dls l dl k p :
  gen_hier d = inr dls -> nth_error dls l = Some dl -> mem_str k converted_keys = false ->
  lookup k d = Some (DV p) -> lookup k dl = option_map OA (sel l p).
Proof.
  intros H Hn Hm Hk. destruct (gen_hier_inv _ _ H) as [_ [_ [pl [ll [sl [_ [_ [_ [Ho _]]]]]]]]].
  assert (Hlk : lookup k (map (outer_entry pl ll sl) (with_defaults d))
                = Some (snd (outer_entry pl ll sl (k, DV p)))).
  { rewrite lookup_map_outer, lookup_with_defaults, Hk. reflexivity. }
  rewrite (dict_to_list_entry _ _ _ _ _ _ Ho Hn Hlk).
  rewrite mem_converted in Hm. apply orb_false_iff in Hm. destruct Hm as [Hm E3].
  apply orb_false_iff in Hm. destruct Hm as [E1 E2].
  unfold outer_entry. simpl fst. simpl snd. rewrite E1, E2, E3.
  destruct p as [a|vs]; [reflexivity|]. apply sel_map.
Qed.

(* a scalar entry is shared by all levels *)
Corollary scalar_shared d dls l dl sec k v :
  gen_hier d = inr dls -> nth_error dls l = Some dl -> In sec converted_keys ->
  lookup k (get_dd sec d) = Some (Scalar v) ->
  exists pd, lookup sec dl = Some (OD pd) /\ lookup k pd = Some v.
Proof. intros. eapply entry_selection in H2; eauto. Qed.

(* gen_hier accepts exactly the descriptions with: no deprecated key, the essential keys, no
   empty list anywhere, a space transfer class when the longest list has more than one entry *)
Definition DescrOK (d : descr) : Prop :=
  has "dtype_u" d = false /\ has "dtype_f" d = false /\
  (forall k, In k essential_keys -> has k d = true) /\
  (forall k, In (k, DV (PList [])) d -> mem_str k converted_keys = true) /\
  (forall sec, In sec converted_keys -> forall k, ~ In (k, PList []) (get_dd sec d)) /\
  (1 < nlevels d -> truthy_dval (lookup_or "space_transfer_class" (with_defaults d) (DD [])) = true).

Lemma dict_to_list_Some {V} (d : dict (pv V)) : (forall k, ~ In (k, PList []) d) -> exists ld, dict_to_list d = Some ld.
Proof.
  intros H. destruct (dict_to_list d) eqn:E; eauto. apply dict_to_list_None in E. destruct E as [k Hk]. now apply H in Hk.
Qed.

Theorem gen_hier_complete d : (exists dls, gen_hier d = inr dls) <-> DescrOK d.
Proof.
  split.
  - intros [dls H]. pose proof (levels_eq_longest_list _ _ H) as Hlen.
    destruct (gen_hier_inv _ _ H) as [Hd [Hess [pl [ll [sl [Hp [Hl [Hs [Ho Ht]]]]]]]]].
    apply check_deprecated_None in Hd. destruct Hd as [Hu Hf].
    repeat split; auto.
    + now apply check_essential_None.
    + intros k Hin. destruct (mem_str k converted_keys) eqn:Em; auto. exfalso.
      assert (X : dict_to_list (map (outer_entry pl ll sl) (with_defaults d)) = None).
      { apply dict_to_list_None. exists k. apply in_map_iff. exists (k, DV (PList [])). split.
        - unfold outer_entry. simpl fst. simpl snd. rewrite mem_converted in Em.
          apply orb_false_iff in Em. destruct Em as [Em E3]. apply orb_false_iff in Em. destruct Em as [E1 E2].
          now rewrite E1, E2, E3.
        - now apply In_with_defaults_incl. }
      congruence.
    + intros sec Hsec k Hin.
      assert (X : dict_to_list (get_dd sec d) = None) by (apply dict_to_list_None; eauto).
      destruct Hsec as [<-|[<-|[<-|[]]]]; congruence.
    + intros Hn. rewrite Hlen in Ht. apply andb_false_iff in Ht. destruct Ht as [Ht|Ht].
      * apply Nat.ltb_ge in Ht. lia.
      * now apply negb_false_iff in Ht.
  - intros [Hu [Hf [Hess [Hout [Hsec Ht]]]]]. unfold gen_hier.
    rewrite (proj2 (check_deprecated_None d) (conj Hu Hf)).
    assert (He : check_essential d = None) by now apply check_essential_None.
    rewrite He, !get_dd_with_defaults.
    destruct (dict_to_list_Some (get_dd "problem_params" d)) as [pl Hp]; [apply Hsec; simpl; tauto|].
    destruct (dict_to_list_Some (get_dd "level_params" d)) as [ll Hl]; [apply Hsec; simpl; tauto|].
    destruct (dict_to_list_Some (get_dd "sweeper_params" d)) as [sl Hs]; [apply Hsec; simpl; tauto|].
    rewrite Hp, Hl, Hs.
    destruct (dict_to_list_Some (map (outer_entry pl ll sl) (with_defaults d))) as [dl Ho].
    { intros k Hin. apply in_map_iff in Hin. destruct Hin as [[k' v] [Heq Hin]].
      unfold outer_entry in Heq. simpl fst in Heq. simpl snd in Heq. inversion Heq as [[Hk Hv]]. subst k'.
      assert (Hne : forall xl P, dict_to_list P = Some xl -> @PList oval (map OD xl) <> PList []).
      { intros xl P HP Hc. apply dict_to_list_length in HP. pose proof (max_val_ge1 P).
        inversion Hc as [Hm]. apply (f_equal (@length _)) in Hm. rewrite map_length in Hm. simpl in Hm. lia. }
      destruct (String.eqb k "problem_params") eqn:E1; [now apply (Hne _ _ Hp) in Hv|].
      destruct (String.eqb k "level_params") eqn:E2; [now apply (Hne _ _ Hl) in Hv|].
      destruct (String.eqb k "sweeper_params") eqn:E3; [now apply (Hne _ _ Hs) in Hv|].
      destruct v as [[a|ws]|dd]; try discriminate. inversion Hv as [Hm]. destruct ws; [|discriminate].
      apply In_with_defaults in Hin. simpl in Hin. destruct Hin as [Hin|[?|?]]; try discriminate.
      apply Hout in Hin. rewrite mem_converted, E1, E2, E3 in Hin. discriminate. }
    rewrite Ho. pose proof (dict_to_list_length _ _ Ho) as Hlen.
    rewrite (outer_max_val _ _ _ _ He Hp Hl Hs) in Hlen.
    destruct ((1 <? length dl)%nat) eqn:E; simpl; eauto.
    apply Nat.ltb_lt in E. rewrite Hlen in E. rewrite (Ht E). simpl. eauto.
Qed.

(* ------------------------------------------------------------------ instantiation of the levels *)

Lemma in_names_spec a names : in_names a names = true <-> exists s, a = AStr s /\ In s names.
Proof.
  destruct a; simpl; try (split; [discriminate | intros [s0 [H _]]; discriminate]).
  rewrite mem_str_In. split; [eauto | intros [s0 [H1 H2]]; inversion H1; now subst].
Qed.

Definition sw_user (dl : dict oval) : dict atom := oval_dict (lookup "sweeper_params" dl).

Definition SweeperOK (E : env) (user : dict atom) : Prop :=
  (exists z, lookup "num_nodes" user = Some (AInt z) /\ (0 < z)%Z) /\
  in_names (lookup_or "node_type" user (AStr "LEGENDRE")) (e_node E) = true /\
  in_names (lookup_or "quad_type" user ANone) (e_quad E) = true /\
  in_names (lookup_or "QI" user (AStr "IE")) (e_QI E) = true.

Lemma lookup_sweeper_dict k user :
  k <> "QI" -> k <> "collocation_class" -> k <> "random_seed" -> lookup k (sweeper_dict user) = lookup k user.
Proof.
  intros N1 N2 N3. unfold sweeper_dict, sweeper_p0.
  set (p0 := if has "QI" user then user else dset "QI" (AStr "IE") user).
  set (p1 := if has "collocation_class" p0 then p0 else dset "collocation_class" oCollBase p0).
  assert (H0 : lookup k p0 = lookup k user) by (unfold p0; destruct (has "QI" user); auto; now apply lookup_dset_other).
  assert (H1 : lookup k p1 = lookup k p0) by (unfold p1; destruct (has "collocation_class" p0); auto; now apply lookup_dset_other).
  destruct (atom_eqb _ _); [rewrite lookup_dset_other; auto|]; congruence.
Qed.

Lemma lookup_QI_sweeper_dict user dflt :
  lookup_or "QI" (sweeper_dict user) dflt = lookup_or "QI" user (AStr "IE").
Proof.
  unfold sweeper_dict, sweeper_p0, lookup_or.
  set (p0 := if has "QI" user then user else dset "QI" (AStr "IE") user).
  set (p1 := if has "collocation_class" p0 then p0 else dset "collocation_class" oCollBase p0).
  assert (H0 : lookup "QI" p0 = Some (match lookup "QI" user with Some v => v | None => AStr "IE" end)).
  { unfold p0, has. destruct (lookup "QI" user) eqn:E; auto. apply lookup_dset_same. }
  assert (H1 : lookup "QI" p1 = lookup "QI" p0).
  { unfold p1. destruct (has "collocation_class" p0); auto. apply lookup_dset_other. discriminate. }
  destruct (atom_eqb _ _); [rewrite lookup_dset_other by discriminate|]; rewrite H1, H0; reflexivity.
Qed.

Lemma lookup_or_sweeper_dict k user dflt :
  k <> "QI" -> k <> "collocation_class" -> k <> "random_seed" -> lookup_or k (sweeper_dict user) dflt = lookup_or k user dflt.
Proof. intros. unfold lookup_or. now rewrite lookup_sweeper_dict. Qed.

Lemma has_nn_p0 user : has "num_nodes" (sweeper_p0 user) = has "num_nodes" user.
Proof. unfold sweeper_p0. unfold has at 1 3. destruct (has "QI" user); auto. rewrite lookup_dset_other; auto. discriminate. Qed.

Lemma inst_sweeper_ok E l user : (exists r, inst_sweeper E l user = inr r) <-> SweeperOK E user.
Proof.
  unfold inst_sweeper, SweeperOK. rewrite has_nn_p0.
  cbv zeta.
  rewrite (lookup_or_sweeper_dict "num_nodes"), (lookup_or_sweeper_dict "node_type"), (lookup_or_sweeper_dict "quad_type") by discriminate.
  rewrite lookup_QI_sweeper_dict.
  unfold has. unfold lookup_or at 1. destruct (lookup "num_nodes" user) as [a|] eqn:En; simpl.
  2:{ split; [intros [r H]; discriminate | intros [[z [H _]] _]; discriminate]. }
  destruct a; try (split; [intros [r H]; discriminate | intros [[z0 [H _]] _]; discriminate]).
  destruct (Z.leb_spec z 0).
  { split; [intros [r Hr]; discriminate | intros [[z0 [Hz Hp]] _]; inversion Hz; subst; lia]. }
  destruct (in_names (lookup_or "node_type" user (AStr "LEGENDRE")) (e_node E)); simpl.
  2:{ split; [intros [r Hr]; discriminate | intros [_ [Hc _]]; discriminate]. }
  destruct (in_names (lookup_or "quad_type" user ANone) (e_quad E)); simpl.
  2:{ split; [intros [r Hr]; discriminate | intros [_ [_ [Hc _]]]; discriminate]. }
  destruct (in_names (lookup_or "QI" user (AStr "IE")) (e_QI E)); simpl.
  2:{ split; [intros [r Hr]; discriminate | intros [_ [_ [_ Hc]]]; discriminate]. }
  split; [intros _ | eauto]. repeat split; auto. exists z. split; auto; lia.
Qed.

Definition LevelOK (E : env) (l : nat) (dl : dict oval) : Prop :=
  SweeperOK E (sw_user dl) /\
  inst_problem E l (oval_atom (lookup "problem_class" dl)) (oval_dict (lookup "problem_params" dl)) = None /\
  (0 < l -> inst_transfer l dl = None).

Lemma inst_level_ok E l dl : (exists L, inst_level E l dl = inr L) <-> LevelOK E l dl.
Proof.
  unfold inst_level, LevelOK. fold (sw_user dl). rewrite <- (inst_sweeper_ok E l).
  destruct (inst_sweeper E l (sw_user dl)) as [e|[sp rn]].
  { split; [intros [L H]; discriminate | intros [[r H] _]; discriminate]. }
  destruct (inst_problem E l _ _).
  { split; [intros [L H]; discriminate | intros [_ [H _]]; discriminate]. }
  destruct (0 <? l)%nat eqn:El.
  - apply Nat.ltb_lt in El. destruct (inst_transfer l dl).
    + split; [intros [L H]; discriminate | intros [_ [_ H]]; specialize (H El); discriminate].
    + split; intros _; [split; [eauto|split; auto] | eauto].
  - apply Nat.ltb_ge in El. split; intros _; [split; [eauto|split; auto; intros; lia] | eauto].
Qed.

Fixpoint LevelsOK (E : env) (l : nat) (dls : list (dict oval)) : Prop :=
  match dls with
  | [] => True
  | dl :: r => LevelOK E l dl /\ LevelsOK E (S l) r
  end.

Lemma LevelsOK_nth E l dls : LevelsOK E l dls <-> forall i dl, nth_error dls i = Some dl -> LevelOK E (l + i) dl.
Proof.
  revert l. induction dls as [|dl r IH]; intros l; simpl.
  - split; auto. intros _ i dl H. destruct i; discriminate.
  - rewrite IH. split.
    + intros [H1 H2] i dl' Hi. destruct i; simpl in Hi.
      * inversion Hi; subst. now rewrite Nat.add_0_r.
      * replace (l + S i) with (S l + i) by lia. auto.
    + intros H. split.
      * specialize (H 0 dl eq_refl). now rewrite Nat.add_0_r in H.
      * intros i dl' Hi. specialize (H (S i) dl' Hi). now replace (l + S i) with (S l + i) in H by lia.
Qed.

Lemma inst_levels_ok E l dls : (exists lvs, inst_levels E l dls = inr lvs) <-> LevelsOK E l dls.
Proof.
  revert l. induction dls as [|dl r IH]; intros l; simpl.
  - split; eauto.
  - rewrite <- inst_level_ok, <- IH. destruct (inst_level E l dl) as [e|L].
    + split; [intros [lvs H]; discriminate | intros [[L H] _]; discriminate].
    + destruct (inst_levels E (S l) r) as [e|Ls].
      * split; [intros [lvs H]; discriminate | intros [_ [lvs H]]; discriminate].
      * split; eauto.
Qed.

Lemma inst_levels_length E l dls lvs : inst_levels E l dls = inr lvs -> length lvs = length dls.
Proof.
  revert l lvs. induction dls as [|dl r IH]; intros l lvs; simpl.
  - intros H; inversion H; reflexivity.
  - destruct (inst_level E l dl); [discriminate|]. destruct (inst_levels E (S l) r) eqn:Er; [discriminate|].
    intros H; inversion H; subst; simpl. f_equal. eauto.
Qed.

(* what an instantiated level carries *)
Lemma inst_level_fields E l dl L : inst_level E l dl = inr L ->
  lv_lp L = level_pars (oval_dict (lookup "level_params" dl)) /\
  lv_pp L = oval_dict (lookup "problem_params" dl) /\
  lv_pcls L = oval_atom (lookup "problem_class" dl) /\
  lv_scls L = oval_atom (lookup "sweeper_class" dl) /\
  lv_right_is_node L = in_names (lookup_or "quad_type" (sw_user dl) ANone) right_node_types.
Proof.
  unfold inst_level. fold (sw_user dl).
  destruct (inst_sweeper E l (sw_user dl)) as [e|[sp rn]] eqn:Es; [discriminate|].
  destruct (inst_problem E l _ _); [discriminate|].
  destruct (if (0 <? l)%nat then inst_transfer l dl else None); [discriminate|].
  intros H; inversion H; subst; simpl. repeat split; auto.
  revert Es. unfold inst_sweeper. rewrite has_nn_p0.
  destruct (negb (has "num_nodes" (sw_user dl))); [discriminate|].
  cbv zeta. rewrite (lookup_or_sweeper_dict "quad_type") by discriminate.
  destruct (lookup_or "num_nodes" (sweeper_dict (sw_user dl)) ANone); try discriminate.
  destruct (z <=? 0)%Z; [discriminate|].
  destruct (negb (in_names _ (e_node E))); [discriminate|].
  destruct (negb (in_names _ (e_quad E))); [discriminate|].
  destruct (negb (in_names _ (e_QI E))); [discriminate|].
  intros H'; inversion H'; subst. reflexivity.
Qed.

(* level_pars: user entries win over the defaults (dt_initial is always recomputed) *)
Lemma lookup_level_pars k user : NoDup (keys user) -> k <> "dt_initial" ->
  lookup k (level_pars user) = match lookup k user with Some v => Some v | None => lookup k level_defaults end.
Proof.
  intros ND N. unfold level_pars. rewrite lookup_dset_other by auto. now apply lookup_dupdate.
Qed.

(* ------------------------------------------------------------------ controller checks, first use, the whole verdict *)

Definition PreOK (cp : dict atom) : Prop :=
  has "predict" cp = false /\ is_int (lookup_or "logger_level" cp (AInt 20)) = true.

Lemma pre_checks_ok cp : pre_checks cp = None <-> PreOK cp.
Proof.
  unfold pre_checks, PreOK. destruct (has "predict" cp); [split; [discriminate|intros [H _]; discriminate]|].
  destruct (is_int _); simpl; split; auto; try discriminate. intros [_ H]; discriminate.
Qed.

Definition coarsest (lvs : list level_inst) : level_inst := last lvs (Build_level_inst ANone ANone [] [] [] true).

Definition PostOK (nprocs : nat) (cp : dict atom) (d : descr) (lvs : list level_inst) : Prop :=
  (truthy_atom (lookup_or "dump_setup" cp (ABool true)) = true -> has "step_params" d = true) /\
  (1 < nprocs -> 1 < length lvs -> forall L, In L lvs -> lv_right_is_node L = true) /\
  (1 < length lvs -> int_gt1 (lookup_or "nsweeps" (lv_lp (coarsest lvs)) ANone) = false).

Lemma post_checks_ok nprocs cp d lvs : post_checks nprocs cp d lvs = None <-> PostOK nprocs cp d lvs.
Proof.
  unfold post_checks, PostOK. fold (coarsest lvs).
  destruct (truthy_atom (lookup_or "dump_setup" cp (ABool true)) && negb (has "step_params" d)) eqn:E1.
  { split; [discriminate|]. intros [H _]. apply andb_true_iff in E1. destruct E1 as [A B]. rewrite (H A) in B. discriminate. }
  assert (P1 : truthy_atom (lookup_or "dump_setup" cp (ABool true)) = true -> has "step_params" d = true).
  { intros A. rewrite A in E1. simpl in E1. now apply negb_false_iff in E1. }
  destruct ((1 <? nprocs)%nat && (1 <? length lvs)%nat && negb (forallb lv_right_is_node lvs)) eqn:E2.
  { split; [discriminate|]. intros [_ [H _]]. apply andb_true_iff in E2. destruct E2 as [E2 C].
    apply andb_true_iff in E2. destruct E2 as [A B]. apply Nat.ltb_lt in A, B.
    assert (X : forallb lv_right_is_node lvs = true) by (apply forallb_forall; auto). rewrite X in C. discriminate. }
  assert (P2 : 1 < nprocs -> 1 < length lvs -> forall L, In L lvs -> lv_right_is_node L = true).
  { intros A B. apply Nat.ltb_lt in A, B. rewrite A, B in E2. simpl in E2. apply negb_false_iff in E2.
    now apply forallb_forall. }
  destruct ((1 <? length lvs)%nat && int_gt1 (lookup_or "nsweeps" (lv_lp (coarsest lvs)) ANone)) eqn:E3.
  { split; [discriminate|]. intros [_ [_ H]]. apply andb_true_iff in E3. destruct E3 as [A B].
    apply Nat.ltb_lt in A. rewrite (H A) in B. discriminate. }
  split; auto. intros _. repeat split; auto. intros A. apply Nat.ltb_lt in A. rewrite A in E3. exact E3.
Qed.

Definition known_predict (pt : atom) : bool :=
  is_none pt || atom_eqb pt (AStr "fine_only") || atom_eqb pt (AStr "pfasst_burnin").

(* faithful version: what the code checks on first use *)
Definition UseOK (nprocs : nat) (cp : dict atom) (d : descr) (lvs : list level_inst) : Prop :=
  match lvs with
  | [] => True
  | L0 :: coarse =>
      (forall L, In L lvs -> dt_none L = false) /\
      in_names (lookup_or "initial_guess" (lv_sp L0) ANone) initial_guesses = true /\
      (coarse <> [] -> known_predict (lookup_or "predict_type" cp ANone) = true) /\
      in_names (lookup_or "residual_type" (lv_lp L0) ANone) residual_types = true /\
      exists m, step_maxiter d = AInt m /\
        ((0 < m)%Z -> forall L, In L coarse -> in_names (lookup_or "residual_type" (lv_lp L) ANone) residual_types = true)
  end.

Lemma check_residual_types_None l lvs :
  check_residual_types l lvs = None <-> forall L, In L lvs -> in_names (lookup_or "residual_type" (lv_lp L) ANone) residual_types = true.
Proof.
  revert l. induction lvs as [|L r IH]; intros l; simpl.
  - split; [intros _ L []|reflexivity].
  - destruct (in_names _ residual_types) eqn:E.
    + rewrite IH. split; [intros H L' [<-|H']; auto | intros H L' H'; auto].
    + split; [discriminate|]. intros H. specialize (H L (or_introl eq_refl)). congruence.
Qed.

Lemma existsb_false_forall {A} (f : A -> bool) l : existsb f l = false <-> forall x, In x l -> f x = false.
Proof.
  induction l; simpl; [split; [intros _ x []|reflexivity]|]. rewrite orb_false_iff, IHl.
  split; [intros [H1 H2] x [<-|H]; auto | intros H; split; auto].
Qed.

Lemma first_use_ok nprocs cp d lvs : first_use nprocs cp d lvs = None <-> UseOK nprocs cp d lvs.
Proof.
  unfold first_use, UseOK. destruct lvs as [|L0 coarse]; [tauto|].
  set (lvs := L0 :: coarse). set (nodt := existsb dt_none lvs).
  set (ig := lookup_or "initial_guess" (lv_sp L0) ANone). set (pt := lookup_or "predict_type" cp ANone).
  rewrite <- (existsb_false_forall dt_none lvs). fold nodt.
  destruct nodt.
  - (* some dt is None: always an error *)
    split; [|intros [H _]; discriminate]. intros H. exfalso.
    destruct (1 <? nprocs)%nat; simpl in H; [discriminate|].
    destruct (in_names ig initial_guesses); simpl in H; [|discriminate].
    destruct (atom_eqb ig (AStr "spread")); simpl in H; [discriminate|].
    destruct coarse; [discriminate|].
    destruct (is_none pt); [discriminate|].
    destruct (atom_eqb pt (AStr "fine_only") || atom_eqb pt (AStr "pfasst_burnin")); [discriminate|].
    destruct (atom_eqb pt (AStr "fmg")); discriminate.
  - rewrite !andb_false_r. simpl negb.
    destruct (in_names ig initial_guesses); simpl; [|split; [discriminate | intros [_ [H _]]; discriminate]].
    assert (Hp : (match coarse with
                  | [] => None
                  | _ :: _ => if is_none pt then None
                              else if atom_eqb pt (AStr "fine_only") || atom_eqb pt (AStr "pfasst_burnin") then None
                              else if atom_eqb pt (AStr "fmg") then Some (NotImplementedError, RPredictFmg)
                              else Some (ControllerError, RPredictType)
                  end) = None <-> (coarse <> [] -> known_predict pt = true)).
    { unfold known_predict. destruct coarse; [split; auto; intros _ H; congruence|].
      destruct (is_none pt); simpl; [split; auto|].
      destruct (atom_eqb pt (AStr "fine_only") || atom_eqb pt (AStr "pfasst_burnin")); [split; auto|].
      destruct (atom_eqb pt (AStr "fmg")); split; try discriminate; intros H; specialize (H ltac:(discriminate)); discriminate. }
    destruct (match coarse with [] => None | _ :: _ => _ end) as [e|].
    { split; [discriminate|]. intros [_ [_ [H _]]]. apply Hp in H. discriminate. }
    destruct (in_names (lookup_or "residual_type" (lv_lp L0) ANone) residual_types);
      [|split; [discriminate | intros [_ [_ [_ [H _]]]]; discriminate]].
    destruct (step_maxiter d) as [m| | | | |] eqn:Em;
      try (split; [discriminate | intros [_ [_ [_ [_ [m0 [H _]]]]]]; discriminate]).
    destruct (Z.leb_spec m 0).
    + split; auto. intros _. repeat split; auto; [now apply Hp|]. exists m. split; auto. intros; lia.
    + rewrite check_residual_types_None. split.
      * intros H'. repeat split; auto; [now apply Hp|]. exists m. split; auto.
      * intros [_ [_ [_ [_ [m0 [Hm H']]]]]]. inversion Hm; subst. apply H'. lia.
Qed.

(* the faithful notion of a well-formed setup *)
Definition WellFormed (E : env) (nprocs : nat) (cp : dict atom) (d : descr) : Prop :=
  PreOK cp /\ DescrOK d /\
  exists dls lvs, gen_hier d = inr dls /\ LevelsOK E 0 dls /\ inst_levels E 0 dls = inr lvs /\
                  PostOK nprocs cp d lvs /\ UseOK nprocs cp d lvs.

Theorem validate_complete_partial E nprocs cp d :
  (exists lvs, build E nprocs cp d = Built lvs) <-> WellFormed E nprocs cp d.
Proof.
  unfold build, WellFormed. rewrite <- pre_checks_ok, <- gen_hier_complete.
  destruct (pre_checks cp); [split; [intros [? H]; discriminate | intros [H _]; discriminate]|].
  destruct (gen_hier d) as [e|dls] eqn:Eg; [split; [intros [? H]; discriminate | intros [_ [[? H] _]]; discriminate]|].
  pose proof (inst_levels_ok E 0 dls) as Hl.
  destruct (inst_levels E 0 dls) as [e|lvs] eqn:Ei.
  { split; [intros [? H]; discriminate|]. intros [_ [_ [dls' [lvs' [H1 [_ [H2 _]]]]]]]. congruence. }
  pose proof (post_checks_ok nprocs cp d lvs) as Hp. destruct (post_checks nprocs cp d lvs) eqn:Ep.
  { split; [intros [? H]; discriminate|]. intros [_ [_ [dls' [lvs' [H1 [_ [H2 [H3 _]]]]]]]].
    assert (dls' = dls) by congruence. subst. assert (lvs' = lvs) by congruence. subst. apply Hp in H3. discriminate. }
  pose proof (first_use_ok nprocs cp d lvs) as Hu. destruct (first_use nprocs cp d lvs) eqn:Eu.
  { split; [intros [? H]; discriminate|]. intros [_ [_ [dls' [lvs' [H1 [_ [H2 [_ H3]]]]]]]].
    assert (dls' = dls) by congruence. subst. assert (lvs' = lvs) by congruence. subst. apply Hu in H3. discriminate. }
  split; [intros _|eauto]. split; auto. split; [eauto|]. exists dls, lvs.
  split; [reflexivity|]. split; [apply Hl; eauto|]. split; [exact Ei|]. split; [now apply Hp | now apply Hu].
Qed.

(* build always answers: a setup that is not well-formed is rejected with an error *)
Corollary invalid_rejected E nprocs cp d :
  ~ WellFormed E nprocs cp d <-> exists ph e r, build E nprocs cp d = Rejected ph e r.
Proof.
  rewrite <- validate_complete_partial. destruct (build E nprocs cp d) as [lvs|ph e r].
  - split; [intros H; exfalso; apply H; eauto | intros [? [? [? H]]]; discriminate].
  - split; [eauto | intros _ [? H]; discriminate].
Qed.

(* ------------------------------------------------------------------ each kind of fault has its error class and phase *)

Definition well_classified (e : err) (ph : phase) : Prop := fst e = exn_of_reason (snd e) /\ phase_of_reason (snd e) = ph.

Lemma first_err_classified l ph : Forall (fun c => forall e, c = Some e -> well_classified e ph) l ->
  forall e, first_err l = Some e -> well_classified e ph.
Proof.
  induction 1 as [|c l Hc Hl IH]; simpl; [discriminate|]. intros e. destruct c; intros H'; auto.
Qed.

Lemma pre_checks_classified cp e : pre_checks cp = Some e -> well_classified e Construct.
Proof.
  unfold pre_checks. destruct (has "predict" cp); [intros H; inversion H; split; reflexivity|].
  destruct (negb _); intros H; inversion H; split; reflexivity.
Qed.

Lemma gen_hier_classified d e : gen_hier d = inl e -> well_classified e Construct.
Proof.
  unfold gen_hier.
  destruct (check_deprecated d) as [e1|] eqn:E1.
  { intros H; inversion H; subst. revert E1. unfold check_deprecated. apply first_err_classified.
    simpl. repeat (constructor; [intros e0; destruct (has _ d); intros H'; inversion H'; split; reflexivity|]). constructor. }
  destruct (check_essential d) as [e2|] eqn:E2.
  { intros H; inversion H; subst. revert E2. unfold check_essential. apply first_err_classified.
    simpl. repeat (constructor; [intros e0; destruct (has _ d); intros H'; inversion H'; split; reflexivity|]). constructor. }
  destruct (dict_to_list _); [|intros H; inversion H; split; reflexivity].
  destruct (dict_to_list _); [|intros H; inversion H; split; reflexivity].
  destruct (dict_to_list _); [|intros H; inversion H; split; reflexivity].
  destruct (dict_to_list _); [|intros H; inversion H; split; reflexivity].
  destruct (_ && _); intros H; inversion H; split; reflexivity.
Qed.

Lemma inst_sweeper_classified E l user e : inst_sweeper E l user = inl e -> well_classified e Construct.
Proof.
  unfold inst_sweeper. destruct (negb (has _ _)); [intros H; inversion H; split; reflexivity|]. cbv zeta.
  destruct (lookup_or "num_nodes" _ _); try (intros H; inversion H; split; reflexivity).
  destruct (z <=? 0)%Z; [intros H; inversion H; split; reflexivity|].
  destruct (negb (in_names _ (e_node E))); [intros H; inversion H; split; reflexivity|].
  destruct (negb (in_names _ (e_quad E))); [intros H; inversion H; split; reflexivity|].
  destruct (negb (in_names _ (e_QI E))); intros H; inversion H; split; reflexivity.
Qed.

Lemma inst_problem_classified E l c pp e : inst_problem E l c pp = Some e -> well_classified e Construct.
Proof.
  unfold inst_problem. destruct c; try (intros H; inversion H; split; reflexivity).
  destruct (find _ (e_pkeys E)) as [[? allowed]|]; [|intros H; inversion H; split; reflexivity].
  destruct (find _ (keys pp)); intros H; inversion H; split; reflexivity.
Qed.

Lemma inst_level_classified E l dl e : inst_level E l dl = inl e -> well_classified e Construct.
Proof.
  unfold inst_level. destruct (inst_sweeper E l _) as [e1|[sp rn]] eqn:Es.
  { intros H; inversion H; subst. eapply inst_sweeper_classified; eauto. }
  destruct (inst_problem E l _ _) as [e2|] eqn:Ep.
  { intros H; inversion H; subst. eapply inst_problem_classified; eauto. }
  destruct (0 <? l)%nat; [|discriminate]. unfold inst_transfer.
  destruct (_ || _); intros H; inversion H; split; reflexivity.
Qed.

Lemma inst_levels_classified E l dls e : inst_levels E l dls = inl e -> well_classified e Construct.
Proof.
  revert l. induction dls as [|dl r IH]; intros l; simpl; [discriminate|].
  destruct (inst_level E l dl) as [e1|L] eqn:El.
  { intros H; inversion H; subst. eapply inst_level_classified; eauto. }
  destruct (inst_levels E (S l) r) as [e2|Ls] eqn:Er; [|discriminate].
  intros H; inversion H; subst. eauto.
Qed.

Lemma post_checks_classified nprocs cp d lvs e : post_checks nprocs cp d lvs = Some e -> well_classified e Construct.
Proof.
  unfold post_checks. destruct (_ && negb (has "step_params" d)); [intros H; inversion H; split; reflexivity|].
  destruct (_ && negb (forallb _ _)); [intros H; inversion H; split; reflexivity|].
  destruct (_ && int_gt1 _); intros H; inversion H; split; reflexivity.
Qed.

Lemma check_residual_types_classified l lvs e : check_residual_types l lvs = Some e -> well_classified e FirstUse.
Proof.
  revert l. induction lvs as [|L r IH]; intros l; simpl; [discriminate|].
  destruct (in_names _ _); eauto. intros H; inversion H; split; reflexivity.
Qed.

Lemma first_use_classified nprocs cp d lvs e : first_use nprocs cp d lvs = Some e -> well_classified e FirstUse.
Proof.
  unfold first_use. destruct lvs as [|L0 coarse]; [discriminate|].
  destruct (_ && existsb _ _); [intros H; inversion H; split; reflexivity|].
  destruct (negb (in_names _ initial_guesses)); [intros H; inversion H; split; reflexivity|].
  destruct (atom_eqb _ _ && existsb _ _); [intros H; inversion H; split; reflexivity|].
  destruct (match coarse with [] => None | _ :: _ => _ end) as [e1|] eqn:Ep.
  { intros H; inversion H; subst. destruct coarse; [discriminate|].
    destruct (is_none _); [discriminate|]. destruct (_ || _).
    - destruct (existsb _ _); inversion Ep; split; reflexivity.
    - destruct (atom_eqb _ (AStr "fmg")); inversion Ep; split; reflexivity. }
  destruct (existsb _ _); [intros H; inversion H; split; reflexivity|].
  destruct (check_residual_types 0 [L0]) as [e2|] eqn:Er.
  { intros H; inversion H; subst. eapply check_residual_types_classified; eauto. }
  destruct (step_maxiter d); try (intros H; inversion H; split; reflexivity).
  destruct (z <=? 0)%Z; [discriminate|]. apply check_residual_types_classified.
Qed.

(* every rejection carries the exception class and the phase that belong to the fault that was found *)
Theorem rejection_class E nprocs cp d ph e r :
  build E nprocs cp d = Rejected ph e r -> e = exn_of_reason r /\ ph = phase_of_reason r.
Proof.
  unfold build.
  destruct (pre_checks cp) as [e1|] eqn:E1.
  { intros H; inversion H; subst. destruct (pre_checks_classified _ _ E1). split; congruence. }
  destruct (gen_hier d) as [e2|dls] eqn:E2.
  { intros H; inversion H; subst. destruct (gen_hier_classified _ _ E2). split; congruence. }
  destruct (inst_levels E 0 dls) as [e3|lvs] eqn:E3.
  { intros H; inversion H; subst. destruct (inst_levels_classified _ _ _ _ E3). split; congruence. }
  destruct (post_checks nprocs cp d lvs) as [e4|] eqn:E4.
  { intros H; inversion H; subst. destruct (post_checks_classified _ _ _ _ _ E4). split; congruence. }
  destruct (first_use nprocs cp d lvs) as [e5|] eqn:E5; [|discriminate].
  intros H; inversion H; subst. destruct (first_use_classified _ _ _ _ _ E5). split; congruence.
Qed.

(* single faults, in isolation: which check fires *)
Lemma fault_predict_flag E nprocs cp d : has "predict" cp = true ->
  build E nprocs cp d = Rejected Construct ControllerError RPredictFlag.
Proof. intros H. unfold build, pre_checks. now rewrite H. Qed.

Lemma fault_deprecated E nprocs cp d : PreOK cp -> has "dtype_u" d = true \/ has "dtype_f" d = true ->
  exists k, build E nprocs cp d = Rejected Construct ParameterError (RDeprecated k).
Proof.
  intros Hp Hd. apply pre_checks_ok in Hp. unfold build, gen_hier, check_deprecated. rewrite Hp. simpl.
  destruct (has "dtype_u" d); simpl; eauto. destruct Hd as [Hd|Hd]; [discriminate|]. rewrite Hd. simpl. eauto.
Qed.

Lemma fault_missing_essential E nprocs cp d k : PreOK cp -> has "dtype_u" d = false -> has "dtype_f" d = false ->
  In k essential_keys -> has k d = false ->
  exists k', build E nprocs cp d = Rejected Construct ParameterError (RMissing k').
Proof.
  intros Hp Hu Hf Hk Hn. apply pre_checks_ok in Hp. unfold build, gen_hier. rewrite Hp.
  rewrite (proj2 (check_deprecated_None d) (conj Hu Hf)).
  destruct (check_essential d) as [[e r]|] eqn:Ec.
  - assert (X : exists k', (e, r) = (ParameterError, RMissing k')).
    { revert Ec. unfold check_essential, essential_keys, first_err. cbn [map fold_right].
      destruct (has "problem_class" d); [|intros H; inversion H; eauto].
      destruct (has "sweeper_class" d); [|intros H; inversion H; eauto].
      destruct (has "sweeper_params" d); [|intros H; inversion H; eauto].
      destruct (has "level_params" d); [|intros H; inversion H; eauto]. discriminate. }
    destruct X as [k' X]. inversion X; subst. simpl. eauto.
  - exfalso. rewrite check_essential_None in Ec. specialize (Ec k Hk). congruence.
Qed.

Lemma fault_no_space_transfer E nprocs cp d : PreOK cp -> has "dtype_u" d = false -> has "dtype_f" d = false ->
  (forall k, In k essential_keys -> has k d = true) ->
  (forall k, In (k, DV (PList [])) d -> mem_str k converted_keys = true) ->
  (forall sec, In sec converted_keys -> forall k, ~ In (k, PList []) (get_dd sec d)) ->
  1 < nlevels d -> truthy_dval (lookup_or "space_transfer_class" (with_defaults d) (DD [])) = false ->
  build E nprocs cp d = Rejected Construct ParameterError RNoSpaceTransfer.
Proof.
  intros Hp Hu Hf Hess Hout Hsec Hn Ht.
  (* the same description with a (hypothetical) truthy transfer entry would pass gen_hier; replay its computation *)
  apply pre_checks_ok in Hp. unfold build. rewrite Hp. unfold gen_hier.
  rewrite (proj2 (check_deprecated_None d) (conj Hu Hf)).
  assert (He : check_essential d = None) by now apply check_essential_None.
  rewrite He, !get_dd_with_defaults.
  destruct (dict_to_list_Some (get_dd "problem_params" d)) as [pl Hpl]; [apply Hsec; simpl; tauto|].
  destruct (dict_to_list_Some (get_dd "level_params" d)) as [ll Hll]; [apply Hsec; simpl; tauto|].
  destruct (dict_to_list_Some (get_dd "sweeper_params" d)) as [sl Hsl]; [apply Hsec; simpl; tauto|].
  rewrite Hpl, Hll, Hsl.
  destruct (dict_to_list (map (outer_entry pl ll sl) (with_defaults d))) as [dl|] eqn:Ho.
  - pose proof (dict_to_list_length _ _ Ho) as Hlen. rewrite (outer_max_val _ _ _ _ He Hpl Hll Hsl) in Hlen.
    rewrite Ht. simpl. assert (X : (1 <? length dl)%nat = true) by (apply Nat.ltb_lt; lia). now rewrite X.
  - exfalso. apply dict_to_list_None in Ho. destruct Ho as [k Hin].
    apply in_map_iff in Hin. destruct Hin as [[k' v] [Heq Hin]].
    unfold outer_entry in Heq. simpl fst in Heq. simpl snd in Heq. inversion Heq as [[Hk Hv]]. subst k'.
    assert (Hne : forall xl P, dict_to_list P = Some xl -> @PList oval (map OD xl) <> PList []).
    { intros xl P HP Hc. apply dict_to_list_length in HP. pose proof (max_val_ge1 P).
      inversion Hc as [Hm]. apply (f_equal (@length _)) in Hm. rewrite map_length in Hm. simpl in Hm. lia. }
    destruct (String.eqb k "problem_params") eqn:E1; [now apply (Hne _ _ Hpl) in Hv|].
    destruct (String.eqb k "level_params") eqn:E2; [now apply (Hne _ _ Hll) in Hv|].
    destruct (String.eqb k "sweeper_params") eqn:E3; [now apply (Hne _ _ Hsl) in Hv|].
    destruct v as [[a|ws]|dd]; try discriminate. inversion Hv as [Hm]. destruct ws; [|discriminate].
    apply In_with_defaults in Hin. simpl in Hin. destruct Hin as [Hin|[?|?]]; try discriminate.
    apply Hout in Hin. rewrite mem_converted, E1, E2, E3 in Hin. discriminate.
Qed.

Lemma fault_unknown_quad E l user z : lookup "num_nodes" user = Some (AInt z) -> (0 < z)%Z ->
  in_names (lookup_or "node_type" user (AStr "LEGENDRE")) (e_node E) = true ->
  in_names (lookup_or "quad_type" user ANone) (e_quad E) = false ->
  inst_sweeper E l user = inl (CollocationError, RQuadType l).
Proof.
  intros Hn Hz Hnode Hq. unfold inst_sweeper. rewrite has_nn_p0. unfold has. rewrite Hn. cbv zeta. simpl negb. cbv iota.
  rewrite (lookup_or_sweeper_dict "num_nodes"), (lookup_or_sweeper_dict "node_type"), (lookup_or_sweeper_dict "quad_type") by discriminate.
  unfold lookup_or at 1. rewrite Hn. destruct (Z.leb_spec z 0); [lia|]. now rewrite Hnode, Hq.
Qed.

Lemma fault_unknown_QI E l user z : lookup "num_nodes" user = Some (AInt z) -> (0 < z)%Z ->
  in_names (lookup_or "node_type" user (AStr "LEGENDRE")) (e_node E) = true ->
  in_names (lookup_or "quad_type" user ANone) (e_quad E) = true ->
  in_names (lookup_or "QI" user (AStr "IE")) (e_QI E) = false ->
  inst_sweeper E l user = inl (KeyError, RQI l).
Proof.
  intros Hn Hz Hnode Hq HQ. unfold inst_sweeper. rewrite has_nn_p0. unfold has. rewrite Hn. cbv zeta. simpl negb. cbv iota.
  rewrite (lookup_or_sweeper_dict "num_nodes"), (lookup_or_sweeper_dict "node_type"), (lookup_or_sweeper_dict "quad_type") by discriminate.
  rewrite lookup_QI_sweeper_dict.
  unfold lookup_or at 1. rewrite Hn. destruct (Z.leb_spec z 0); [lia|]. now rewrite Hnode, Hq, HQ.
Qed.

Lemma fault_coarse_sweeps nprocs cp d lvs :
  (truthy_atom (lookup_or "dump_setup" cp (ABool true)) = true -> has "step_params" d = true) ->
  (1 < nprocs -> forall L, In L lvs -> lv_right_is_node L = true) ->
  1 < length lvs -> int_gt1 (lookup_or "nsweeps" (lv_lp (coarsest lvs)) ANone) = true ->
  post_checks nprocs cp d lvs = Some (ControllerError, RCoarseSweeps).
Proof.
  intros H1 H2 H3 H4. unfold post_checks. fold (coarsest lvs).
  destruct (truthy_atom _) eqn:Et; simpl; [rewrite (H1 eq_refl); simpl|];
    (assert (X : (1 <? length lvs)%nat = true) by (now apply Nat.ltb_lt)); rewrite X, H4;
    (destruct (1 <? nprocs)%nat eqn:En; simpl; [apply Nat.ltb_lt in En;
       assert (Y : forallb lv_right_is_node lvs = true) by (apply forallb_forall; auto); now rewrite Y | reflexivity]).
Qed.

Lemma fault_pfasst_right_node nprocs cp d lvs L :
  (truthy_atom (lookup_or "dump_setup" cp (ABool true)) = true -> has "step_params" d = true) ->
  1 < nprocs -> 1 < length lvs -> In L lvs -> lv_right_is_node L = false ->
  post_checks nprocs cp d lvs = Some (ControllerError, RPfasstRightNode).
Proof.
  intros H1 H2 H3 H4 H5. unfold post_checks.
  assert (Y : forallb lv_right_is_node lvs = false).
  { destruct (forallb lv_right_is_node lvs) eqn:Ef; auto. rewrite forallb_forall in Ef. specialize (Ef L H4). congruence. }
  assert (X : (1 <? length lvs)%nat = true) by (now apply Nat.ltb_lt).
  assert (Z : (1 <? nprocs)%nat = true) by (now apply Nat.ltb_lt).
  destruct (truthy_atom _) eqn:Et; simpl; [rewrite (H1 eq_refl); simpl|]; now rewrite X, Z, Y.
Qed.

(* ------------------------------------------------------------------ the strict reading is refuted *)

(* strict reading of the property: every name is checked whether or not it is ever used *)
Definition WellFormedStrict (E : env) (nprocs : nat) (cp : dict atom) (d : descr) : Prop :=
  WellFormed E nprocs cp d /\
  known_predict (lookup_or "predict_type" cp ANone) = true /\
  forall lvs, build E nprocs cp d = Built lvs ->
    forall L, In L lvs -> in_names (lookup_or "initial_guess" (lv_sp L) ANone) initial_guesses = true /\
                          in_names (lookup_or "residual_type" (lv_lp L) ANone) residual_types = true.

Definition E_ex : env :=
  {| e_quad := ["GAUSS"; "RADAU-RIGHT"]; e_node := ["LEGENDRE"]; e_QI := ["IE"; "LU"]; e_pkeys := [(3, ["lambdas"; "u0"])] |}.

Definition d_ex : descr :=
  [("problem_class", DV (Scalar (AObj 3))); ("sweeper_class", DV (Scalar (AObj 4)));
   ("problem_params", DD [("lambdas", Scalar (AObj 5))]);
   ("sweeper_params", DD [("num_nodes", Scalar (AInt 3)); ("quad_type", Scalar (AStr "RADAU-RIGHT"))]);
   ("level_params", DD [("dt", Scalar (AFlt 1 (-3)))]); ("step_params", DD [("maxiter", Scalar (AInt 2))])].

Definition d_ex2 : descr :=
  [("problem_class", DV (Scalar (AObj 3))); ("sweeper_class", DV (Scalar (AObj 4)));
   ("space_transfer_class", DV (Scalar (AObj 6)));
   ("problem_params", DD [("lambdas", PList [AObj 5; AObj 7])]);
   ("sweeper_params", DD [("num_nodes", PList [AInt 3; AInt 2]); ("quad_type", Scalar (AStr "RADAU-RIGHT"));
                          ("initial_guess", PList [AStr "spread"; AStr "bogus"])]);
   ("level_params", DD [("dt", Scalar (AFlt 1 (-3)))]); ("step_params", DD [("maxiter", Scalar (AInt 2))])].

(* non-vacuity of validate_complete_partial: a well-formed setup exists ... *)
Example wellformed_example : WellFormed E_ex 2 [("logger_level", AInt 30)] d_ex.
Proof. apply validate_complete_partial. eexists. vm_compute. reflexivity. Qed.

(* ... and the code accepts an unknown predictor on a single level (it is never used) *)
Theorem validate_strict_refuted :
  exists E nprocs cp d lvs, build E nprocs cp d = Built lvs /\ ~ WellFormedStrict E nprocs cp d.
Proof.
  exists E_ex, 1, [("predict_type", AStr "bogus")], d_ex. eexists. split.
  - vm_compute. reflexivity.
  - intros [_ [H _]]. vm_compute in H. discriminate.
Qed.

(* ... and an unknown initial guess on a coarse level (only the finest level's predictor runs) *)
Theorem validate_strict_refuted_coarse_guess :
  exists E nprocs cp d lvs, build E nprocs cp d = Built lvs /\ ~ WellFormedStrict E nprocs cp d.
Proof.
  exists E_ex, 1, [], d_ex2. eexists. split.
  - vm_compute. reflexivity.
  - intros [_ [_ H]]. specialize (H _ eq_refl).
    match type of H with forall L, In L ?l -> _ => specialize (H (nth 1 l (Build_level_inst ANone ANone [] [] [] true))) end.
    vm_compute in H. destruct H as [H _]; [tauto|discriminate].
Qed.

(* ------------------------------------------------------------------ convergence controllers: order *)

Lemma insert_by_perm x l : Permutation (insert_by x l) (x :: l).
Proof.
  induction l as [|y r IH]; simpl; auto. destruct (fst x <? fst y)%Z; auto.
  rewrite IH. apply perm_swap.
Qed.

Lemma fold_insert_perm xs acc : Permutation (fold_left (fun acc x => insert_by x acc) xs acc) (xs ++ acc).
Proof.
  revert acc. induction xs as [|x xs IH]; intros acc; simpl; auto.
  rewrite IH. rewrite insert_by_perm. symmetry. apply Permutation_middle.
Qed.

Lemma map_snd_combine {A B} (l : list A) (l' : list B) : length l = length l' -> map snd (combine l l') = l'.
Proof. revert l'. induction l; destruct l'; simpl; intros H; try discriminate; auto. f_equal. auto. Qed.

Lemma map_fst_combine {A B} (l : list A) (l' : list B) : length l = length l' -> map fst (combine l l') = l.
Proof. revert l'. induction l; destruct l'; simpl; intros H; try discriminate; auto. f_equal. auto. Qed.

Definition sorted_pairs (ks : list Z) : list (Z * nat) :=
  fold_left (fun acc x => insert_by x acc) (combine ks (seq 0 (length ks))) [].

Lemma sorted_pairs_perm ks : Permutation (sorted_pairs ks) (combine ks (seq 0 (length ks))).
Proof. unfold sorted_pairs. rewrite fold_insert_perm. now rewrite app_nil_r. Qed.

(* the call order is a permutation of the indices *)
Theorem argsort_perm ks : Permutation (argsort ks) (seq 0 (length ks)).
Proof.
  unfold argsort. fold (sorted_pairs ks). rewrite (Permutation_map snd (sorted_pairs_perm ks)).
  rewrite map_snd_combine; auto. now rewrite seq_length.
Qed.

Definition le_fst (a b : Z * nat) : Prop := (fst a <= fst b)%Z.

Lemma insert_by_HdRel a x l : le_fst a x -> HdRel le_fst a l -> HdRel le_fst a (insert_by x l).
Proof.
  intros Hax Hl. destruct l as [|y r]; simpl; [constructor; auto|].
  destruct (fst x <? fst y)%Z; constructor; auto. now inversion Hl.
Qed.

Lemma insert_by_sorted x l : Sorted le_fst l -> Sorted le_fst (insert_by x l).
Proof.
  induction l as [|y r IH]; simpl; intros H.
  - repeat constructor.
  - inversion H as [|? ? Hs Hh]; subst. destruct (Z.ltb_spec (fst x) (fst y)).
    + constructor; [assumption|]. constructor. unfold le_fst. lia.
    + constructor; [now apply IH|]. apply insert_by_HdRel; [unfold le_fst; lia | assumption].
Qed.

Lemma sorted_pairs_sorted ks : Sorted le_fst (sorted_pairs ks).
Proof.
  unfold sorted_pairs. generalize (combine ks (seq 0 (length ks))).
  assert (G : forall xs acc, Sorted le_fst acc -> Sorted le_fst (fold_left (fun acc x => insert_by x acc) xs acc)).
  { induction xs as [|x xs IH]; intros acc H; simpl; auto. apply IH. now apply insert_by_sorted. }
  intros xs. apply G. constructor.
Qed.

Lemma Sorted_map_fst l : Sorted le_fst l -> Sorted Z.le (map fst l).
Proof.
  induction 1 as [|a l Hs IH Hh]; simpl; constructor; auto.
  destruct Hh; simpl; constructor; auto.
Qed.

Lemma In_combine_seq (ks : list Z) a k i : In (k, i) (combine ks (seq a (length ks))) -> a <= i /\ nth (i - a) ks 0%Z = k.
Proof.
  revert a. induction ks as [|k0 ks IH]; intros a; simpl; [tauto|].
  intros [H|H].
  - inversion H; subst. split; auto. now rewrite Nat.sub_diag.
  - apply IH in H. destruct H as [H1 H2]. split; [lia|]. replace (i - a) with (S (i - S a)) by lia. exact H2.
Qed.

(* ... along which the control orders ascend *)
Theorem argsort_sorted ks : Sorted Z.le (map (fun i => nth i ks 0%Z) (argsort ks)).
Proof.
  unfold argsort. fold (sorted_pairs ks). rewrite map_map.
  replace (map (fun x => nth (snd x) ks 0%Z) (sorted_pairs ks)) with (map fst (sorted_pairs ks)).
  - apply Sorted_map_fst, sorted_pairs_sorted.
  - apply map_ext_in. intros [k i] Hin. simpl.
    apply (Permutation_in _ (sorted_pairs_perm ks)) in Hin. apply In_combine_seq in Hin.
    destruct Hin as [_ Hin]. now rewrite Nat.sub_0_r in Hin.
Qed.

Definition opt_list {A} (o : option A) : list A := match o with Some c => [c] | None => [] end.

Lemma flat_map_ext_in {A B} (f g : A -> list B) l : (forall x, In x l -> f x = g x) -> flat_map f l = flat_map g l.
Proof. induction l; simpl; intros H; auto. rewrite H, IHl; auto. Qed.

Lemma flat_map_nth_seq {A} (st : list A) a :
  flat_map (fun i => opt_list (nth_error st (i - a))) (seq a (length st)) = st.
Proof.
  revert a. induction st as [|x st IH]; intros a; simpl; auto.
  rewrite Nat.sub_diag. simpl. f_equal. rewrite <- (IH (S a)) at 2.
  apply flat_map_ext_in. intros i Hi. apply in_seq in Hi. replace (i - a) with (S (i - S a)) by lia. reflexivity.
Qed.

Lemma cc_call_sequence_eq st :
  cc_call_sequence st = flat_map (fun i => opt_list (nth_error st i)) (cc_order st).
Proof. reflexivity. Qed.

(* every controller is called exactly once per pass ... *)
Theorem call_sequence_perm st : Permutation (cc_call_sequence st) st.
Proof.
  rewrite cc_call_sequence_eq. unfold cc_order.
  rewrite (Permutation_flat_map _ (argsort_perm (map control_order st))). rewrite map_length.
  rewrite <- (flat_map_nth_seq st 0) at 2. erewrite flat_map_ext_in; [reflexivity|].
  intros i _. simpl. now rewrite Nat.sub_0_r.
Qed.

(* ... in ascending control order *)
Theorem call_sequence_sorted st : Sorted Z.le (map control_order (cc_call_sequence st)).
Proof.
  rewrite cc_call_sequence_eq. unfold cc_order.
  pose proof (argsort_sorted (map control_order st)) as Hs.
  pose proof (argsort_perm (map control_order st)) as Hp. rewrite map_length in Hp.
  assert (Hall : forall i, In i (argsort (map control_order st)) -> i < length st).
  { intros i Hi. apply (Permutation_in _ Hp) in Hi. apply in_seq in Hi. lia. }
  revert Hs Hall. generalize (argsort (map control_order st)) as idx.
  induction idx as [|i idx IH]; intros Hs Hall; simpl; [constructor|].
  assert (Hi : i < length st) by (apply Hall; now left).
  destruct (nth_error st i) as [c|] eqn:En; [|apply nth_error_None in En; lia].
  simpl. inversion Hs as [|? ? Hs' Hh]; subst.
  assert (Hc : nth i (map control_order st) 0%Z = control_order c).
  { rewrite (nth_indep _ 0%Z (control_order c)) by (now rewrite map_length).
    rewrite map_nth. f_equal. now apply nth_error_nth. }
  constructor.
  - apply IH; auto. intros j Hj. apply Hall. now right.
  - destruct idx as [|j idx']; simpl; [constructor|].
    assert (Hj : j < length st) by (apply Hall; right; now left).
    destruct (nth_error st j) as [c'|] eqn:En'; [|apply nth_error_None in En'; lia].
    simpl. constructor. inversion Hh as [|? ? Hle]; subst. rewrite Hc in Hle.
    assert (Hc' : nth j (map control_order st) 0%Z = control_order c').
    { rewrite (nth_indep _ 0%Z (control_order c')) by (now rewrite map_length).
      rewrite map_nth. f_equal. now apply nth_error_nth. }
    now rewrite Hc' in Hle.
Qed.

(* ------------------------------------------------------------------ convergence controllers: one instance per class, user parameters win *)

Section cctree_induction.
  Variable P : cctree -> Prop.
  Hypothesis Hnode : forall cid defaults deps, Forall (fun pd => P (snd pd)) deps -> P (CC cid defaults deps).

  Fixpoint cctree_ind' (c : cctree) : P c :=
    match c with
    | CC cid defaults deps =>
        Hnode cid defaults deps
          ((fix go (l : list (dict atom * cctree)) : Forall (fun pd => P (snd pd)) l :=
              match l with
              | [] => Forall_nil _
              | pd :: r => Forall_cons pd (match pd as q return P (snd q) with (p, t) => cctree_ind' t end) (go r)
              end) deps)
    end.
End cctree_induction.

Fixpoint tree_ids (c : cctree) : list nat :=
  match c with CC cid _ deps => cid :: flat_map (fun pd => tree_ids (snd pd)) deps end.

Definition dep_ids (deps : list (dict atom * cctree)) : list nat := flat_map (fun pd => tree_ids (snd pd)) deps.

(* no class (transitively) depends on itself *)
Fixpoint acyclic (c : cctree) : Prop :=
  match c with
  | CC cid _ deps => ~ In cid (dep_ids deps) /\
      (fix all (l : list (dict atom * cctree)) : Prop := match l with [] => True | pd :: r => acyclic (snd pd) /\ all r end) deps
  end.

Definition ids (st : list ccinst) : list nat := map ci_id st.

Lemma existsb_ids st cid : existsb (fun i => Nat.eqb (ci_id i) cid) st = true <-> In cid (ids st).
Proof.
  unfold ids. rewrite existsb_exists, in_map_iff. split.
  - intros [i [H1 H2]]. apply Nat.eqb_eq in H2. eauto.
  - intros [i [H1 H2]]. exists i. split; auto. now apply Nat.eqb_eq.
Qed.

Lemma cc_add_unfold user mpi st passed cid defaults deps :
  cc_add user mpi st passed (CC cid defaults deps) =
  if existsb (fun i => Nat.eqb (ci_id i) cid) st then st
  else fold_left (fun s pd => cc_add user mpi s (fst pd) (snd pd)) deps st
       ++ [{| ci_id := cid;
              ci_params := dupdate cc_pars_defaults (dupdate defaults (dupdate (dset "useMPI" mpi passed) (user_params user cid))) |}].
Proof. reflexivity. Qed.

Lemma acyclic_unfold cid defaults deps :
  acyclic (CC cid defaults deps) <-> ~ In cid (dep_ids deps) /\ Forall (fun pd => acyclic (snd pd)) deps.
Proof.
  simpl. fold (dep_ids deps). split; intros [H1 H2]; split; auto.
  - clear H1. induction deps as [|pd r IH]; [constructor|]. simpl in H2. destruct H2 as [A B]. constructor; auto.
  - clear H1. induction H2; simpl; auto.
Qed.

Lemma NoDup_app_intro {A} (l1 l2 : list A) :
  NoDup l1 -> NoDup l2 -> (forall x, In x l1 -> In x l2 -> False) -> NoDup (l1 ++ l2).
Proof.
  induction l1 as [|a l1 IH]; simpl; auto. intros H1 H2 H3. inversion H1; subst. constructor.
  - rewrite in_app_iff. intros [H|H]; [tauto | eapply H3; eauto].
  - apply IH; auto. intros x Hx. apply H3. now right.
Qed.

Lemma cc_add_spec user mpi c : forall st passed,
  (forall x, In x (ids (cc_add user mpi st passed c)) -> In x (ids st) \/ In x (tree_ids c)) /\
  (acyclic c -> NoDup (ids st) -> NoDup (ids (cc_add user mpi st passed c))).
Proof.
  induction c as [cid defaults deps IH] using cctree_ind'. intros st passed. rewrite cc_add_unfold.
  destruct (existsb _ st) eqn:Ex; [split; auto|].
  assert (Hnot : ~ In cid (ids st)) by (intros H; apply existsb_ids in H; congruence).
  (* the dependencies first *)
  assert (G : forall st0,
            (forall x, In x (ids (fold_left (fun s pd => cc_add user mpi s (fst pd) (snd pd)) deps st0)) -> In x (ids st0) \/ In x (dep_ids deps)) /\
            (Forall (fun pd => acyclic (snd pd)) deps -> NoDup (ids st0) ->
             NoDup (ids (fold_left (fun s pd => cc_add user mpi s (fst pd) (snd pd)) deps st0)))).
  { clear Hnot Ex. induction IH as [|pd r Hpd Hr IHr]; intros st0; simpl; [split; auto|].
    destruct (Hpd st0 (fst pd)) as [A1 A2]. destruct (IHr (cc_add user mpi st0 (fst pd) (snd pd))) as [B1 B2].
    split.
    - intros x Hx. apply B1 in Hx. unfold dep_ids. simpl. rewrite in_app_iff. destruct Hx as [Hx|Hx]; [apply A1 in Hx|]; tauto.
    - intros Hac Hnd. inversion Hac; subst. auto. }
  destruct (G st) as [G1 G2]. unfold ids in *. rewrite map_app. simpl. split.
  - intros x Hx. apply in_app_iff in Hx. destruct Hx as [Hx|[<-|[]]]; [|now right; left].
    apply G1 in Hx. destruct Hx; [now left | right; right; exact H].
  - intros Hac Hnd. apply acyclic_unfold in Hac. destruct Hac as [Hc Hd].
    apply NoDup_app_intro.
    + now apply G2.
    + repeat constructor. intros [].
    + intros x Hx [<-|[]]. apply G1 in Hx. destruct Hx; tauto.
    + exact defaults.
Qed.

Lemma fold_cc_add_nodup user mpi (pf : cctree -> dict atom) trees st :
  Forall acyclic trees -> NoDup (ids st) ->
  NoDup (ids (fold_left (fun s c => cc_add user mpi s (pf c) c) trees st)).
Proof.
  revert st. induction trees as [|c r IH]; intros st Hac Hnd; simpl; auto.
  inversion Hac; subst. apply IH; auto. now apply cc_add_spec.
Qed.

(* one instance per class *)
Theorem cc_build_unique user mpi classes base :
  Forall acyclic classes -> Forall acyclic base -> NoDup (ids (cc_build user mpi classes base)).
Proof.
  intros H1 H2. unfold cc_build.
  apply (fold_cc_add_nodup user mpi (fun _ => [])); auto.
  apply (fold_cc_add_nodup user mpi (fun c => user_params user (match c with CC cid _ _ => cid end))); auto.
  constructor.
Qed.

(* user-supplied parameters override the defaults and whatever a dependency passes *)
Lemma keys_dset {V} k (v : V) d : keys (dset k v d) = if mem_str k (keys d) then keys d else keys d ++ [k].
Proof.
  induction d as [|[k' v'] r IH]; simpl; auto.
  destruct (String.eqb_spec k k'); simpl; [now subst|]. rewrite IH.
  destruct (mem_str k (keys r)); reflexivity.
Qed.

Lemma NoDup_keys_dset {V} k (v : V) d : NoDup (keys d) -> NoDup (keys (dset k v d)).
Proof.
  intros H. rewrite keys_dset. destruct (mem_str k (keys d)) eqn:E; auto.
  apply NoDup_app_intro; auto.
  - repeat constructor. intros [].
  - intros x Hx [<-|[]]. apply mem_str_In in Hx. congruence.
Qed.

Lemma NoDup_keys_dupdate {V} (d1 d2 : dict V) : NoDup (keys d1) -> NoDup (keys (dupdate d1 d2)).
Proof.
  unfold dupdate. revert d1. induction d2 as [|[k v] r IH]; intros d1 H; simpl; auto.
  apply IH. now apply NoDup_keys_dset.
Qed.

Lemma lookup_dupdate_Some {V} k (v : V) d1 d2 : NoDup (keys d2) -> lookup k d2 = Some v -> lookup k (dupdate d1 d2) = Some v.
Proof. intros H1 H2. now rewrite lookup_dupdate, H2. Qed.

Definition dict_wf {V} (d : dict V) : Prop := NoDup (keys d).

Fixpoint tree_wf (c : cctree) : Prop :=
  match c with
  | CC _ defaults deps => dict_wf defaults /\
      (fix all (l : list (dict atom * cctree)) : Prop :=
         match l with [] => True | pd :: r => (dict_wf (fst pd) /\ tree_wf (snd pd)) /\ all r end) deps
  end.

Lemma tree_wf_unfold cid defaults deps :
  tree_wf (CC cid defaults deps) <-> dict_wf defaults /\ Forall (fun pd => dict_wf (fst pd) /\ tree_wf (snd pd)) deps.
Proof.
  simpl. split; intros [H1 H2]; split; auto.
  - clear H1. induction deps as [|pd r IH]; [constructor|]. simpl in H2. destruct H2 as [A B]. constructor; auto.
  - clear H1. induction H2; simpl; auto.
Qed.

Definition overridden (user : list (nat * dict atom)) (i : ccinst) : Prop :=
  forall k v, lookup k (user_params user (ci_id i)) = Some v -> lookup k (ci_params i) = Some v.

Lemma cc_add_override user mpi c : (forall cid, dict_wf (user_params user cid)) ->
  forall st passed, tree_wf c -> dict_wf passed -> Forall (overridden user) st ->
  Forall (overridden user) (cc_add user mpi st passed c).
Proof.
  intros Hu. induction c as [cid defaults deps IH] using cctree_ind'. intros st passed Hwf Hp Hst.
  rewrite cc_add_unfold. destruct (existsb _ st); auto.
  apply tree_wf_unfold in Hwf. destruct Hwf as [Hd Hdeps].
  apply Forall_app. split.
  - clear Hp. revert st Hst. induction IH as [|pd r Hpd Hr IHr]; intros st Hst; simpl; auto.
    inversion Hdeps as [|? ? [A B] C]; subst. apply IHr; auto.
  - constructor; [|constructor]. intros k v Hk. simpl in *.
    apply lookup_dupdate_Some; [|apply lookup_dupdate_Some; [|apply lookup_dupdate_Some; auto]].
    + apply NoDup_keys_dupdate. exact Hd.
    + apply NoDup_keys_dupdate. now apply NoDup_keys_dset.
    + apply Hu.
Qed.

Theorem cc_build_user_override user mpi classes base :
  (forall cid, dict_wf (user_params user cid)) -> Forall tree_wf classes -> Forall tree_wf base ->
  forall i, In i (cc_build user mpi classes base) -> overridden user i.
Proof.
  intros Hu H1 H2. apply Forall_forall. unfold cc_build.
  assert (G : forall (pf : cctree -> dict atom) trees st, (forall c, dict_wf (pf c)) -> Forall tree_wf trees ->
              Forall (overridden user) st -> Forall (overridden user) (fold_left (fun s c => cc_add user mpi s (pf c) c) trees st)).
  { intros pf trees. induction trees as [|c r IH]; intros st Hpf Hwf Hst; simpl; auto.
    inversion Hwf; subst. apply IH; auto. apply cc_add_override; auto. }
  apply (G (fun _ => [])); [intros; constructor | assumption |].
  apply (G (fun c => user_params user (match c with CC cid _ _ => cid end))); [intros; apply Hu | assumption | constructor].
Qed.

(* the statement of the property about convergence controllers, in one piece *)
Theorem controllers_sorted_unique user mpi classes base :
  Forall acyclic classes -> Forall acyclic base ->
  let st := cc_build user mpi classes base in
  NoDup (map ci_id st) /\
  Permutation (cc_order st) (seq 0 (length st)) /\
  Permutation (cc_call_sequence st) st /\
  Sorted Z.le (map control_order (cc_call_sequence st)).
Proof.
  intros H1 H2 st. split; [now apply cc_build_unique|]. split; [|split].
  - unfold cc_order. rewrite <- (map_length control_order st). apply argsort_perm.
  - apply call_sequence_perm.
  - apply call_sequence_sorted.
Qed.

(* non-vacuity: a dependency forest with a shared dependency and a user override *)
Definition cc_ex_dep : cctree := CC 7 [("control_order", AInt 90)] [].
Definition cc_ex_classes : list cctree :=
  [CC 5 [("control_order", AInt (-50))] [([("alpha", AInt 3)], cc_ex_dep)];
   CC 6 [("control_order", AInt 300)] [([], cc_ex_dep)]].
Definition cc_ex_base : list cctree := [CC 1 [("control_order", AInt 200)] []; CC 2 [("control_order", AInt 95)] [([], CC 3 [("control_order", AInt 100)] [])]].
Definition cc_ex_user : list (nat * dict atom) := [(5, []); (6, [("control_order", AInt 91)])].

Example cc_example_acyclic : Forall acyclic cc_ex_classes /\ Forall acyclic cc_ex_base.
Proof. split; repeat constructor; simpl; intuition discriminate. Qed.

Example cc_example_run :
  let st := cc_build cc_ex_user (ABool false) cc_ex_classes cc_ex_base in
  map ci_id st = [7; 5; 6; 1; 3; 2] /\ cc_order st = [1; 0; 2; 5; 4; 3] /\
  map control_order (cc_call_sequence st) = [-50; 90; 91; 95; 100; 200]%Z.
Proof. vm_compute. repeat split. Qed.

(* the acyclicity premise is needed: a class that depends on itself would be instantiated twice by
   this registration scheme (the real code would recurse for ever) *)
Example cc_cyclic_duplicates :
  map ci_id (cc_build [] ANone [CC 1 [] [([], CC 1 [] [])]] []) = [1; 1].
Proof. vm_compute. reflexivity. Qed.

(* ------------------------------------------------------------------ frozen classes and read-only parameters *)

Theorem frozen_rejects_undeclared o k :
  fz_frozen o = true -> ~ In k (fz_attrs o) -> ~ In k (fz_fields o) -> ~ In k (fz_class o) ->
  fz_setattr o k = inl TypeError.
Proof.
  intros Hf H1 H2 H3. unfold fz_setattr, fz_hasattr. rewrite Hf.
  assert (A : mem_str k (fz_attrs o) = false) by (destruct (mem_str k (fz_attrs o)) eqn:E; auto; apply mem_str_In in E; tauto).
  assert (B : mem_str k (fz_fields o) = false) by (destruct (mem_str k (fz_fields o)) eqn:E; auto; apply mem_str_In in E; tauto).
  assert (C : mem_str k (fz_class o) = false) by (destruct (mem_str k (fz_class o)) eqn:E; auto; apply mem_str_In in E; tauto).
  now rewrite A, B, C.
Qed.

Theorem frozen_accepts_declared o k :
  In k (fz_attrs o) \/ In k (fz_fields o) ->
  exists o', fz_setattr o k = inr o' /\ fz_hasattr o' k = true /\ fz_frozen o' = fz_frozen o /\ fz_attrs o' = fz_attrs o.
Proof.
  intros H. unfold fz_setattr.
  assert (X : mem_str k (fz_attrs o) || fz_hasattr o k = true).
  { unfold fz_hasattr. destruct H as [H|H]; apply mem_str_In in H; rewrite H; simpl; auto using orb_true_r. }
  rewrite X. rewrite andb_false_r. eexists. split; [reflexivity|]. unfold fz_hasattr. simpl.
  repeat split. destruct (mem_str k (fz_fields o)) eqn:E; [now rewrite E|].
  unfold mem_str. rewrite existsb_app. simpl. rewrite String.eqb_refl. simpl. now rewrite orb_true_r.
Qed.

(* an attribute declared through add_attr can be assigned afterwards, also on a frozen object *)
Theorem frozen_add_attr_then_set o k r o1 :
  fz_add_attr o k r = inr o1 -> exists o2, fz_setattr o1 k = inr o2.
Proof.
  intros H. destruct (frozen_accepts_declared o1 k) as [o2 [H2 _]]; eauto. left.
  unfold fz_add_attr in H. destruct (mem_str k (fz_attrs o)) eqn:E.
  - destruct r; [discriminate|]. inversion H; subst. now apply mem_str_In.
  - inversion H; subst. simpl. apply in_app_iff. right. now left.
Qed.

Theorem readonly_rejected ro k : In k ro -> rp_setattr ro k = Some ReadOnlyError.
Proof. intros H. unfold rp_setattr. apply mem_str_In in H. now rewrite H. Qed.

Theorem not_readonly_accepted ro k : ~ In k ro -> rp_setattr ro k = None.
Proof. intros H. unfold rp_setattr. destruct (mem_str k ro) eqn:E; auto. apply mem_str_In in E. tauto. Qed.

Lemma rp_register_gen calls ro rw :
  let r := fold_left (fun (reg : list string * list string) (c : list string * bool) =>
               if snd c then (fst reg ++ fst c, snd reg) else (fst reg, snd reg ++ fst c)) calls (ro, rw) in
  (forall k, In k (fst r) <-> In k ro \/ exists names, In (names, true) calls /\ In k names) /\
  (forall k, In k (snd r) <-> In k rw \/ exists names, In (names, false) calls /\ In k names).
Proof.
  revert ro rw. induction calls as [|[names b] calls IH]; intros ro rw; simpl.
  - split; intros k; split; auto; intros [H|[n [[] _]]]; auto.
  - destruct b; simpl.
    + destruct (IH (ro ++ names) rw) as [A B]. split; intros k.
      * rewrite A, in_app_iff. split.
        -- intros [[H|H]|[n [H1 H2]]]; [now left | right; exists names; auto | right; exists n; auto].
        -- intros [H|[n [[H1|H1] H2]]]; [auto | inversion H1; subst; auto | right; eauto].
      * rewrite B. split.
        -- intros [H|[n [H1 H2]]]; [auto | right; exists n; auto].
        -- intros [H|[n [[H1|H1] H2]]]; [auto | discriminate | right; eauto].
    + destruct (IH ro (rw ++ names)) as [A B]. split; intros k.
      * rewrite A. split.
        -- intros [H|[n [H1 H2]]]; [auto | right; exists n; auto].
        -- intros [H|[n [[H1|H1] H2]]]; [auto | discriminate | right; eauto].
      * rewrite B, in_app_iff. split.
        -- intros [[H|H]|[n [H1 H2]]]; [now left | right; exists names; auto | right; exists n; auto].
        -- intros [H|[n [[H1|H1] H2]]]; [auto | inversion H1; subst; auto | right; eauto].
Qed.

(* a name registered read-only by ANY call of the class hierarchy stays protected, and every
   registered name is listed in params *)
Theorem readonly_union_over_calls calls names k :
  In (names, true) calls -> In k names ->
  rp_setattr (fst (rp_register calls)) k = Some ReadOnlyError /\ In k (rp_params calls).
Proof.
  intros H1 H2. destruct (rp_register_gen calls [] []) as [A _].
  assert (X : In k (fst (rp_register calls))) by (apply A; right; eauto).
  split; [now apply readonly_rejected | unfold rp_params; apply in_app_iff; now left].
Qed.

Theorem registered_listed_in_params calls names b k :
  In (names, b) calls -> In k names -> In k (rp_params calls).
Proof.
  intros H1 H2. destruct (rp_register_gen calls [] []) as [A B]. unfold rp_params. apply in_app_iff.
  destruct b; [left; apply A | right; apply B]; right; eauto.
Qed.

(* ------------------------------------------------------------------ every requested class is instantiated
   The "already present" test of add_convergence_controller is EXACT class membership: identities
   (ci_id) are compared, no subclass relation enters cc_add.  An instance of a derived class never
   stands in for a requested base class: whatever the list holds, the requested class is in the list
   afterwards (and, when it is new, so are the classes its dependencies request). *)

Definition root_id (c : cctree) : nat := match c with CC cid _ _ => cid end.

Lemma cc_add_incl user mpi c : forall st passed x, In x (ids st) -> In x (ids (cc_add user mpi st passed c)).
Proof.
  induction c as [cid defaults deps IH] using cctree_ind'. intros st passed x Hx. rewrite cc_add_unfold.
  destruct (existsb _ st); auto. unfold ids. rewrite map_app, in_app_iff. left. fold (ids st) in Hx.
  revert st Hx. induction IH as [|pd r Hpd Hr IHr]; intros st Hx; simpl; [assumption|].
  apply IHr. apply Hpd. exact Hx.
Qed.

Theorem cc_add_root_present user mpi st passed c : In (root_id c) (ids (cc_add user mpi st passed c)).
Proof.
  destruct c as [cid defaults deps]. rewrite cc_add_unfold. simpl root_id.
  destruct (existsb _ st) eqn:Ex; [now apply existsb_ids|].
  unfold ids. rewrite map_app, in_app_iff. right. simpl. now left.
Qed.

Lemma fold_deps_incl user mpi deps : forall st x, In x (ids st) ->
  In x (ids (fold_left (fun s pd => cc_add user mpi s (fst pd) (snd pd)) deps st)).
Proof. induction deps as [|pd r IH]; intros st x Hx; simpl; auto. apply IH. now apply cc_add_incl. Qed.

Theorem cc_add_new_deps_present user mpi st passed cid defaults deps pd :
  ~ In cid (ids st) -> In pd deps ->
  In (root_id (snd pd)) (ids (cc_add user mpi st passed (CC cid defaults deps))).
Proof.
  intros Hn Hpd. rewrite cc_add_unfold.
  destruct (existsb _ st) eqn:Ex; [apply existsb_ids in Ex; tauto|].
  unfold ids. rewrite map_app, in_app_iff. left. fold (ids (fold_left (fun s pd0 => cc_add user mpi s (fst pd0) (snd pd0)) deps st)).
  clear Ex Hn. revert st. induction deps as [|pd0 r IH]; intros st; [destruct Hpd|]. simpl.
  destruct Hpd as [->|Hpd]; [apply fold_deps_incl, cc_add_root_present | now apply IH].
Qed.

Lemma fold_cc_add_roots user mpi (pf : cctree -> dict atom) trees : forall st,
  (forall x, In x (ids st) -> In x (ids (fold_left (fun s c => cc_add user mpi s (pf c) c) trees st))) /\
  (forall c, In c trees -> In (root_id c) (ids (fold_left (fun s c => cc_add user mpi s (pf c) c) trees st))).
Proof.
  induction trees as [|c r IH]; intros st; simpl; [split; auto; intros c []|].
  destruct (IH (cc_add user mpi st (pf c) c)) as [A B]. split.
  - intros x Hx. apply A. now apply cc_add_incl.
  - intros c' [<-|Hc]; [apply A, cc_add_root_present | now apply B].
Qed.

(* every class the user lists and every base class of the controller is instantiated, whatever else
   (e.g. classes derived from it) was registered before it and in whatever order the user lists them *)
Theorem cc_build_requested_present user mpi classes base c :
  In c (classes ++ base) -> In (root_id c) (ids (cc_build user mpi classes base)).
Proof.
  intros Hc. unfold cc_build.
  destruct (fold_cc_add_roots user mpi (fun c => user_params user (match c with CC cid _ _ => cid end)) classes []) as [_ B1].
  destruct (fold_cc_add_roots user mpi (fun _ => [])  base
              (fold_left (fun s c0 => cc_add user mpi s (user_params user (match c0 with CC cid _ _ => cid end)) c0) classes [])) as [A2 B2].
  apply in_app_iff in Hc. destruct Hc as [Hc|Hc]; [apply A2, B1, Hc | apply B2, Hc].
Qed.

(* a derived class (7, registered first through a dependency of 5) and its base class (3): both are there *)
Example cc_derived_then_base :
  map ci_id (cc_build [(5, []); (3, [("rel_error", ABool true)])] (ABool false)
               [CC 5 [] [([], CC 7 [] [])]; CC 3 [] []] []) = [7; 5; 3].
Proof. vm_compute. reflexivity. Qed.
