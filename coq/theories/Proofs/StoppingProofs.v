From Coq Require Import List Arith Bool Lia.
From PySDC Require Import Model.Stopping.
Import ListNotations.

(* soundness of a 'done' verdict of check_convergence *)
Lemma conv_sound maxiter iter sweep i :
  conv maxiter iter sweep i = true ->
  fcont i = false /\
  ((res_ok i = true /\ (0 < iter \/ 0 < sweep)) \/ maxiter <= iter \/ e_ok i = true \/ fdone i = true).
Proof.
  unfold conv. intros H. apply andb_prop in H as [H1 H2].
  split; [destruct (fcont i); [discriminate|reflexivity]|].
  apply orb_prop in H1 as [H1|H1]; [|right; right; right; exact H1].
  apply orb_prop in H1 as [H1|H1]; [|right; right; left; exact H1].
  apply orb_prop in H1 as [H1|H1].
  - right; left. apply Nat.leb_le. exact H1.
  - left. apply andb_prop in H1 as [Hr Hs]. split; [exact Hr|].
    apply orb_prop in Hs as [Hs|Hs]; apply Nat.ltb_lt in Hs; [left|right]; exact Hs.
Qed.

Lemma conv_force_continue maxiter iter sweep i : fcont i = true -> conv maxiter iter sweep i = false.
Proof. unfold conv. intros ->. apply andb_false_r. Qed.

Lemma conv_budget maxiter iter sweep i : maxiter <= iter -> fcont i = false -> conv maxiter iter sweep i = true.
Proof.
  unfold conv. intros H ->. replace (maxiter <=? iter) with true by (symmetry; apply Nat.leb_le; exact H).
  reflexivity.
Qed.

(* with sweep >= 1 (which is what restart_block establishes) the 'at least one sweep' guard is vacuous:
   a residual below tolerance at iteration 0 finishes the step with NO sweep *)
Lemma conv_guard_vacuous maxiter sweep i :
  0 < sweep -> res_ok i = true -> fcont i = false -> conv maxiter 0 sweep i = true.
Proof.
  unfold conv. intros Hs -> ->. replace (0 <? sweep) with true by (symmetry; apply Nat.ltb_lt; exact Hs).
  cbn. rewrite !orb_true_r. reflexivity.
Qed.

(* chain: done flags form a prefix *)
Lemma chain_prefix cs : forall p i j, i <= j -> nth j (chain p cs) false = true -> nth i (chain p cs) false = true.
Proof.
  induction cs as [|c cs IH]; intros p i j Hij H; cbn [chain] in *.
  - destruct j; discriminate H.
  - destruct j as [|j].
    + assert (i = 0) by lia. subst. exact H.
    + cbn [nth] in H. destruct i as [|i]; cbn [nth].
      * (* the tail can only contain true if its seed (c && p) is true *)
        clear IH Hij. revert H. generalize (c && p) as d. clear. revert j.
        induction cs as [|c' cs IH]; intros j d H; cbn [chain] in H.
        -- destruct j; discriminate H.
        -- destruct j as [|j]; cbn [nth] in H.
           ++ apply andb_prop in H as [_ H]. exact H.
           ++ apply IH in H. apply andb_prop in H as [_ H]. exact H.
      * apply (IH (c && p) i j); [lia|exact H].
Qed.

Lemma chain_all_true p cs : p = true -> forallb (fun b => b) cs = true -> chain p cs = map (fun _ => true) cs.
Proof.
  revert p. induction cs as [|c cs IH]; intros p -> H; cbn [chain map]; [reflexivity|].
  cbn [forallb] in H. apply andb_prop in H as [-> H]. cbn. f_equal. apply IH; [reflexivity|exact H].
Qed.

Lemma chain_length p cs : length (chain p cs) = length cs.
Proof. revert p. induction cs as [|c cs IH]; intros p; cbn [chain length]; [reflexivity|]. rewrite IH. reflexivity. Qed.

(* at the iteration budget every running step is declared done (no force_continue): hence nobody
   increments its counter beyond maxiter *)
Lemma round_at_budget maxiter sweep atd ins :
  (forall i, In i ins -> fcont i = false) ->
  round maxiter sweep atd maxiter ins = map (fun _ => true) ins.
Proof.
  intros Hf. unfold round, round_done.
  assert (Hc : map (conv maxiter maxiter sweep) ins = map (fun _ => true) ins).
  { apply map_ext_in. intros i Hi. apply conv_budget; [lia | apply Hf; exact Hi]. }
  rewrite Hc.
  assert (Hall : forallb (fun b : bool => b) (map (fun _ : inputs => true) ins) = true).
  { clear. induction ins; cbn; [reflexivity|assumption]. }
  rewrite (chain_all_true true _ eq_refl Hall). rewrite !map_map.
  destruct atd; [|reflexivity].
  apply map_ext. intros _.
  clear. induction ins; cbn; [reflexivity|assumption].
Qed.

Lemma In_firstn {A} (x : A) n l : In x (firstn n l) -> In x l.
Proof. intros H. rewrite <- (firstn_skipn n l). apply in_or_app. left. exact H. Qed.

Lemma filter_all_true {A} (l : list A) : filter (fun b => b) (map (fun _ => true) l) = map (fun _ => true) l.
Proof. induction l; cbn; [reflexivity|]. f_equal. assumption. Qed.

Lemma run_block_zero maxiter sweep atd : forall rounds k, run_block maxiter sweep atd k 0 rounds = [].
Proof.
  induction rounds as [|ins rest IH]; intros k; cbn [run_block repeat]; [reflexivity|].
  cbn [firstn]. unfold round, round_done. cbn [map chain]. destruct atd; cbn; apply IH.
Qed.

(* iteration counter never exceeds the budget: every finished step of a block reports k <= maxiter,
   for every sequence of inputs (residual histories) in which nobody forces continuation *)
Theorem iter_le_maxiter maxiter sweep atd : forall rounds k nrun,
  k <= maxiter ->
  (forall ins i, In ins rounds -> In i ins -> fcont i = false) ->
  forall n, In (Some n) (run_block maxiter sweep atd k nrun rounds) -> n <= maxiter.
Proof.
  induction rounds as [|ins rest IH]; intros k nrun Hk Hf n Hin; cbn [run_block] in Hin.
  - apply repeat_spec in Hin. discriminate Hin.
  - apply in_app_or in Hin as [Hin|Hin].
    + apply repeat_spec in Hin. injection Hin as ->. exact Hk.
    + destruct (Nat.eq_dec k maxiter) as [->|Hne].
      * (* at the budget all running steps are done: nothing remains running *)
        rewrite round_at_budget in Hin.
        2:{ intros i Hi. apply (Hf ins i); [left; reflexivity|]. eapply In_firstn; exact Hi. }
        rewrite filter_all_true, !map_length, Nat.sub_diag in Hin.
        rewrite run_block_zero in Hin. contradiction.
      * apply (IH (S k) _ ltac:(lia)) in Hin; [exact Hin|].
        intros ins' i Hi1 Hi2. apply (Hf ins' i); [right; exact Hi1 | exact Hi2].
Qed.
