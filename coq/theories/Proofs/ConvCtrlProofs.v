(* C09 — proofs about Model/ConvCtrl.v *)
From PySDC Require Import Base.Tactics Model.ConvCtrl.
From Coq Require Import Arith.
Import ListNotations.
Local Open Scope nat_scope.

(* ------------------------------------------------------------------ list helpers *)
Lemma upd_length {A} (l : list A) i v : length (upd l i v) = length l.
Proof. revert i; induction l; intros [|i]; simpl; auto. Qed.

Lemma nth_upd {A} (l : list A) i k v d :
  nth k (upd l i v) d = if (i =? k) && (i <? length l) then v else nth k l d.
Proof.
  revert i k; induction l as [|a l IH]; intros i k.
  - simpl. replace (i <? 0) with false by (symmetry; apply Nat.ltb_ge; lia).
    rewrite andb_false_r. destruct i; reflexivity.
  - destruct i as [|i], k as [|k]; simpl; auto.
    rewrite IH. reflexivity.
Qed.

Lemma nth_upd_same {A} (l : list A) i v d : i < length l -> nth i (upd l i v) d = v.
Proof.
  intros H. rewrite nth_upd. rewrite Nat.eqb_refl. simpl.
  apply Nat.ltb_lt in H. rewrite H. reflexivity.
Qed.

Lemma nth_upd_other {A} (l : list A) i k v d : i <> k -> nth k (upd l i v) d = nth k l d.
Proof.
  intros H. rewrite nth_upd. apply Nat.eqb_neq in H. rewrite H. reflexivity.
Qed.

Lemma seq_split n j : j < n -> seq 0 n = seq 0 j ++ j :: seq (S j) (n - S j).
Proof.
  intros H. replace (seq 0 n) with (seq 0 (j + S (n - S j))) by (f_equal; lia).
  rewrite seq_app. reflexivity.
Qed.

Lemma first_true_Some l j : first_true l = Some j ->
  j < length l /\ nth j l false = true /\ forall i, i < j -> nth i l true = false.
Proof.
  revert j; induction l as [|[|] l IH]; intros j H; simpl in *; try discriminate.
  - inversion H; subst. split; [lia|]. split; [reflexivity|]. intros; lia.
  - destruct (first_true l) as [k|] eqn:E; simpl in H; inversion H; subst.
    destruct (IH k eq_refl) as (H1 & H2 & H3). split; [lia|]. split; [exact H2|].
    intros [|i] Hi; [reflexivity | apply H3; lia].
Qed.

Lemma first_true_None l : first_true l = None -> forall i d, i < length l -> nth i l d = false.
Proof.
  induction l as [|[|] l IH]; intros H i d Hi; simpl in *; try discriminate; try lia.
  destruct (first_true l) eqn:E; simpl in H; try discriminate.
  destruct i; [reflexivity | apply IH; auto; lia].
Qed.

Lemma first_true_None_all l : first_true l = None -> forall b, In b l -> b = false.
Proof.
  induction l as [|[|] l IH]; intros H b Hb; simpl in *; try discriminate; try tauto.
  destruct (first_true l) eqn:E; simpl in H; try discriminate.
  destruct Hb; [auto | apply IH; auto].
Qed.

(* ================================================================== it_check: restart flags *)
Section Flags.
Variable T : Type.
Variable N : num T.

(* the effect of the controllers other than BasicRestarting on the status of one step *)
Definition stage_fun (c : cfg T) (final : bool) (dt : T) (i : inj T) (st : stage) (s : sstate T) : sstate T :=
  match st with
  | SScripted => SState (s_restart s || i_req i)
                        (match i_dtn i with Some d => Some d | None => s_dtnew s end) (Some (i_err i))
  | SAdapt => if final then
                match s_err s with
                | Some e => SState (s_restart s || nleb N (c_e_tol c) e) (Some (optimal_dt N c dt (i_pw i))) (s_err s)
                | None => s
                end
              else s
  | SSlope => SState (s_restart s) (option_map (slope_limit N c dt (s_restart s)) (s_dtnew s)) (s_err s)
  | SLimit => SState (s_restart s) (option_map (abs_limit N c) (s_dtnew s)) (s_err s)
  | SRestart => s
  end.

Definition own (c : cfg T) (final : bool) (dt : T) (i : inj T) (pre : list stage) (s : sstate T) : sstate T :=
  fold_left (fun s st => stage_fun c final dt i st s) pre s.

Lemma apply_stages_pre c final first riar dt i pre buf s :
  ~ In SRestart pre ->
  apply_stages N c final first riar dt i pre (buf, s) = Some (buf, own c final dt i pre s).
Proof.
  revert s; induction pre as [|st pre IH]; intros s Hn; simpl; [reflexivity|].
  assert (Hst : st <> SRestart) by (intro; apply Hn; left; auto).
  assert (Hpre : ~ In SRestart pre) by (intro; apply Hn; right; auto).
  destruct st; try congruence; simpl.
  - apply IH; auto.
  - destruct final; [destruct (s_err s) |]; apply IH; auto.
  - apply IH; auto.
  - apply IH; auto.
Qed.

Lemma apply_stages_app c final first riar dt i l1 l2 bs :
  apply_stages N c final first riar dt i (l1 ++ l2) bs =
  match apply_stages N c final first riar dt i l1 bs with
  | None => None
  | Some bs' => apply_stages N c final first riar dt i l2 bs'
  end.
Proof.
  revert bs; induction l1 as [|st l1 IH]; intros bs; simpl; [reflexivity|].
  destruct (apply_stage N c final first riar dt i st bs); auto.
Qed.

Definition order_ok (c : cfg T) (pre : list stage) : Prop :=
  c_order c = pre ++ [SRestart] /\ ~ In SRestart pre.

Lemma apply_stages_order c pre final first riar dt i buf s :
  order_ok c pre ->
  apply_stages N c final first riar dt i (c_order c) (buf, s) =
  let o := own c final dt i pre s in
  match restart_stage c first riar buf (s_restart o) with
  | None => None
  | Some (buf', r') => Some (buf', set_restart r' o)
  end.
Proof.
  intros [Ho Hn]. rewrite Ho, apply_stages_app, apply_stages_pre by auto. simpl.
  destruct (restart_stage c first riar buf (s_restart (own c final dt i pre s))) as [[b r]|]; reflexivity.
Qed.

(* the own (pre-propagation) status of every step of the pass *)
Fixpoint owns (c : cfg T) (final : bool) (pre : list stage) (riars : list nat) (dts : list T)
         (injs : list (inj T)) (ss : list (sstate T)) : list (sstate T) :=
  match riars, dts, injs, ss with
  | _ :: riars', dt :: dts', i :: injs', s :: ss' =>
      own c final dt i pre s :: owns c final pre riars' dts' injs' ss'
  | _, _, _, _ => []
  end.

Fixpoint set_flags (fl : list bool) (ss : list (sstate T)) : list (sstate T) :=
  match fl, ss with
  | f :: fl', s :: ss' => set_restart f s :: set_flags fl' ss'
  | _, _ => []
  end.

(* propagation of restart requests along the block by the buffer *)
Fixpoint prop_flags (br bm : bool) (qs : list bool) : list bool :=
  match qs with
  | [] => []
  | q :: t => ((q || br) && negb bm) :: prop_flags (q || br) bm t
  end.

Definition or_all (br : bool) (qs : list bool) : bool := fold_left orb qs br.

Lemma pass_steps_nonfirst c pre final idx riars dts injs ss br bm :
  order_ok c pre -> idx <> 0 ->
  pass_steps N c final idx riars dts injs ss (br, bm) =
  let os := owns c final pre riars dts injs ss in
  let qs := map (@s_restart T) os in
  Some ((or_all br qs, bm), set_flags (prop_flags br bm qs) os).
Proof.
  intros Ho. revert idx dts injs ss br.
  induction riars as [|r riars IH]; intros idx dts injs ss br Hidx; simpl; [reflexivity|].
  destruct dts as [|dt dts]; [reflexivity|]. destruct injs as [|i injs]; [reflexivity|].
  destruct ss as [|s ss]; [reflexivity|].
  rewrite (apply_stages_order c pre final (idx =? 0) r dt i (br, bm) s Ho). cbv zeta.
  apply Nat.eqb_neq in Hidx. rewrite Hidx. unfold restart_stage. simpl andb. cbv iota beta.
  rewrite IH by lia. cbv zeta. simpl.
  set (q := s_restart (own c final dt i pre s)).
  replace (q || (q || br)) with (q || br) by (destruct q, br; reflexivity).
  replace (or_all (q || br)) with (or_all (br || q)) by (f_equal; apply orb_comm).
  reflexivity.
Qed.

Ltac degenerate c r0 :=
  simpl; rewrite ?andb_false_r; simpl;
  destruct (c_rffs c); destruct (c_max_restarts c <=? r0); simpl;
  try destruct (existsb _ (c_order c)); reflexivity.

(* one complete it_check *)
Theorem it_pass_spec c pre final r0 riars dts injs ss :
  order_ok c pre ->
  it_pass N c final (r0 :: riars) dts injs ss =
  let os := owns c final pre (r0 :: riars) dts injs ss in
  let qs := map (@s_restart T) os in
  let bm := c_max_restarts c <=? r0 in
  if bm && hd false qs && c_crash c then None
  else Some (if c_rffs c && negb bm then map (set_restart (or_all false qs)) (set_flags (prop_flags false bm qs) os)
             else set_flags (prop_flags false bm qs) os).
Proof.
  intros Ho. unfold it_pass. simpl pass_steps.
  destruct dts as [|dt dts]; [degenerate c r0|].
  destruct injs as [|i injs]; [degenerate c r0|].
  destruct ss as [|s ss]; [degenerate c r0|].
  rewrite (apply_stages_order c pre final true r0 dt i (false, false) s Ho). cbv zeta.
  simpl Nat.eqb. unfold restart_stage. simpl owns. simpl map. simpl hd.
  set (q := s_restart (own c final dt i pre s)).
  set (bm := c_max_restarts c <=? r0).
  simpl andb.
  destruct (bm && q && c_crash c) eqn:Ecr.
  - reflexivity.
  - rewrite (pass_steps_nonfirst c pre final 1 riars dts injs ss (q || false) bm Ho) by lia. cbv zeta.
    assert (Hex : existsb (fun st => match st with SRestart => true | _ => false end) (c_order c) = true).
    { destruct Ho as [Ho _]. rewrite Ho, existsb_app. simpl. apply orb_true_r. }
    rewrite Hex, andb_true_r. simpl.
    rewrite !orb_false_r. rewrite ?orb_diag.
    destruct (c_rffs c && negb bm); reflexivity.
Qed.

(* ---- consequences for the flags *)
Lemma set_flags_flags fl (os : list (sstate T)) : length fl = length os ->
  map (@s_restart T) (set_flags fl os) = fl.
Proof.
  revert os; induction fl as [|f fl IH]; intros [|o os] H; simpl in *; try lia; auto.
  rewrite IH by lia. reflexivity.
Qed.

Lemma set_flags_dtnew fl (os : list (sstate T)) : length fl = length os ->
  map (@s_dtnew T) (set_flags fl os) = map (@s_dtnew T) os.
Proof.
  revert os; induction fl as [|f fl IH]; intros [|o os] H; simpl in *; try lia; auto.
  rewrite IH by lia. reflexivity.
Qed.

Lemma set_flags_err fl (os : list (sstate T)) : length fl = length os ->
  map (@s_err T) (set_flags fl os) = map (@s_err T) os.
Proof.
  revert os; induction fl as [|f fl IH]; intros [|o os] H; simpl in *; try lia; auto.
  rewrite IH by lia. reflexivity.
Qed.

Lemma prop_flags_length br bm qs : length (prop_flags br bm qs) = length qs.
Proof. revert br; induction qs; intros; simpl; auto. Qed.

Lemma prop_flags_exhausted br qs : forall b, In b (prop_flags br true qs) -> b = false.
Proof.
  revert br; induction qs as [|q qs IH]; intros br b H; simpl in H; [tauto|].
  destruct H as [H|H]; [rewrite andb_false_r in H; auto | eapply IH; eauto].
Qed.

(* flag i = some step j <= i asked (or the buffer was already set) *)
Lemma prop_flags_nth br qs i : i < length qs ->
  nth i (prop_flags br false qs) false = br || existsb (fun b => b) (firstn (S i) qs).
Proof.
  revert br i; induction qs as [|q qs IH]; intros br i Hi; simpl in *; [lia|].
  destruct i.
  - simpl. rewrite andb_true_r. destruct q, br; reflexivity.
  - rewrite IH by lia. simpl. destruct q, br; reflexivity.
Qed.

Lemma existsb_firstn_mono (qs : list bool) i j : i <= j ->
  existsb (fun b => b) (firstn i qs) = true -> existsb (fun b => b) (firstn j qs) = true.
Proof.
  revert i j; induction qs as [|q qs IH]; intros i j Hij H.
  - destruct i; simpl in H; discriminate.
  - destruct i; [simpl in H; discriminate|]. destruct j; [lia|]. simpl in *.
    destruct q; [reflexivity|]. simpl in *. eapply IH; [|eauto]. lia.
Qed.

(* once a step is flagged, every later step of the block is flagged *)
Lemma prop_flags_upward br bm qs i j : i <= j -> j < length qs ->
  nth i (prop_flags br bm qs) false = true -> nth j (prop_flags br bm qs) false = true.
Proof.
  intros Hij Hj. destruct bm.
  - intros H. exfalso. assert (Hin : In (nth i (prop_flags br true qs) false) (prop_flags br true qs)).
    { apply nth_In. rewrite prop_flags_length. lia. }
    apply prop_flags_exhausted in Hin. congruence.
  - rewrite !prop_flags_nth by lia. destruct br; [reflexivity|]. rewrite !orb_false_l.
    apply existsb_firstn_mono. lia.
Qed.

Lemma or_all_spec br qs : or_all br qs = br || existsb (fun b => b) qs.
Proof.
  revert br; induction qs as [|q qs IH]; intros br; simpl; [rewrite orb_false_r; reflexivity|].
  unfold or_all in *. simpl. rewrite IH. destruct br, q; reflexivity.
Qed.

Lemma owns_length c final pre riars dts injs ss n :
  length riars = n -> length dts = n -> length injs = n -> length ss = n ->
  length (owns c final pre riars dts injs ss) = n.
Proof.
  revert riars dts injs ss; induction n; intros [|r riars] [|d dts] [|i injs] [|s ss]; simpl; intros; try lia.
  rewrite IHn; auto.
Qed.

End Flags.
Arguments stage_fun {T} N. Arguments own {T} N. Arguments owns {T} N. Arguments order_ok {T}.
Arguments set_flags {T}. Arguments it_pass_spec {T} N. Arguments owns_length {T} N.
Arguments set_flags_flags {T}. Arguments set_flags_dtnew {T}. Arguments set_flags_err {T}.
Arguments pass_steps_nonfirst {T} N. Arguments apply_stages_order {T} N.

(* ================================================================== prepare_next_block: the restart counter *)
Section Counter.

Definition rfrom (size : nat) (flags : list bool) : nat :=
  match first_true flags with Some j => j | None => size - 1 end.
(* the single index that the call for step i writes *)
Definition widx (size : nat) (flags : list bool) (i : nat) : nat :=
  if i <? rfrom size flags then rfrom size flags - i else i - rfrom size flags.

Lemma riar_step_length size flags i rs : length (riar_step size flags i rs) = length rs.
Proof. unfold riar_step. destruct (_ <? _); apply upd_length. Qed.

Lemma riar_fold_length size flags l rs :
  length (fold_left (fun rs i => riar_step size flags i rs) l rs) = length rs.
Proof. revert rs; induction l; intros; simpl; auto. rewrite IHl. apply riar_step_length. Qed.

Lemma riar_step_other size flags i rs k d :
  widx size flags i <> k -> nth k (riar_step size flags i rs) d = nth k rs d.
Proof.
  unfold widx, riar_step, rfrom. intros H.
  destruct (i <? match first_true flags with Some j => j | None => size - 1 end); apply nth_upd_other; auto.
Qed.

Lemma riar_fold_other size flags l rs k d :
  (forall i, In i l -> widx size flags i <> k) ->
  nth k (fold_left (fun rs i => riar_step size flags i rs) l rs) d = nth k rs d.
Proof.
  revert rs; induction l as [|a l IH]; intros rs H; simpl; [reflexivity|].
  rewrite IH by (intros; apply H; right; auto).
  apply riar_step_other. apply H. left; auto.
Qed.

(* The counter of the first slot after BasicRestartingNonMPI.prepare_next_block has been called for
   every step in turn — for EVERY flag pattern, in spite of the aliasing between the calls:
     no restart                 -> 0
     restart from the first step -> old counter + 1
     restart from a later step   -> 1   (the counter of that step was zeroed by the call for step 0
                                         before the call for the restarted step reads it) *)
Theorem riar_update_head size flags riars :
  0 < size -> length flags = size -> size <= length riars ->
  nth 0 (riar_update size flags riars) 0 =
  match first_true flags with
  | None => 0
  | Some 0 => nth 0 riars 0 + 1
  | Some (S _) => 1
  end.
Proof.
  intros Hs Hf Hr. unfold riar_update.
  destruct (first_true flags) as [j|] eqn:E.
  - destruct (first_true_Some flags j E) as (Hj & Hjt & _).
    destruct j as [|j'].
    + (* restart from slot 0 *)
      rewrite (seq_split size 0) by lia. simpl app. replace (size - 1) with (size - 1) by lia.
      simpl fold_left.
      rewrite riar_fold_other.
      * unfold riar_step. rewrite E. simpl. rewrite Hjt. apply nth_upd_same. lia.
      * intros i Hi. apply in_seq in Hi. unfold widx, rfrom. rewrite E. simpl. lia.
    + (* restart from slot j = S j' *)
      set (j := S j') in *.
      rewrite (seq_split size j) by lia.
      rewrite (seq_split j 0) by (unfold j; lia). simpl app.
      simpl fold_left. rewrite fold_left_app. simpl fold_left. rewrite ?Nat.sub_0_r.
      rewrite riar_fold_other.
      2:{ intros i Hi. apply in_seq in Hi. unfold widx, rfrom. rewrite E.
          replace (i <? j) with false by (symmetry; apply Nat.ltb_ge; lia). lia. }
      set (rs1 := fold_left _ (seq 1 j') _).
      assert (Hlen : length rs1 = length riars).
      { unfold rs1. rewrite riar_fold_length, riar_step_length. reflexivity. }
      assert (Hz : nth j rs1 0 = 0).
      { unfold rs1. rewrite riar_fold_other.
        - unfold riar_step. rewrite E. replace (0 <? j) with true by reflexivity.
          replace (j - 0) with j by lia. apply nth_upd_same. lia.
        - intros i Hi. apply in_seq in Hi. unfold widx, rfrom. rewrite E.
          replace (i <? j) with true by (symmetry; apply Nat.ltb_lt; unfold j; lia). lia. }
      unfold riar_step at 1. rewrite E. rewrite Nat.ltb_irrefl. rewrite Nat.sub_diag.
      rewrite Hjt, Hz. apply nth_upd_same. lia.
  - (* no restart: restart_from = size - 1 *)
    rewrite (seq_split size (size - 1)) by lia.
    replace (size - S (size - 1)) with 0 by lia. simpl seq.
    rewrite fold_left_app. simpl fold_left.
    set (rs1 := fold_left _ (seq 0 (size - 1)) riars).
    assert (Hlen : length rs1 = length riars) by (unfold rs1; apply riar_fold_length).
    unfold riar_step. rewrite E. rewrite Nat.ltb_irrefl, Nat.sub_diag.
    rewrite (first_true_None flags E) by lia. apply nth_upd_same. lia.
Qed.

(* when nothing is restarted every counter of the block is cleared *)
Lemma riar_update_none size flags riars k :
  0 < size -> length flags = size -> size <= length riars -> first_true flags = None -> k < size ->
  nth k (riar_update size flags riars) 0 = 0.
Proof.
  intros Hs Hf Hr E Hk. unfold riar_update.
  (* the call for step size-1-k writes index k, later calls write other indices *)
  rewrite (seq_split size (size - 1 - k)) by lia.
  rewrite fold_left_app. simpl fold_left.
  rewrite riar_fold_other.
  2:{ intros i Hi. apply in_seq in Hi. unfold widx, rfrom. rewrite E.
      destruct (i <? size - 1) eqn:Ei; [apply Nat.ltb_lt in Ei | apply Nat.ltb_ge in Ei]; lia. }
  set (rs1 := fold_left _ (seq 0 (size - 1 - k)) riars).
  assert (Hlen : length rs1 = length riars) by (unfold rs1; apply riar_fold_length).
  unfold riar_step. rewrite E.
  destruct (size - 1 - k <? size - 1) eqn:Ei; [apply Nat.ltb_lt in Ei | apply Nat.ltb_ge in Ei].
  - replace (size - 1 - (size - 1 - k)) with k by lia. apply nth_upd_same. lia.
  - assert (k = 0) by lia. subst k. replace (size - 1 - 0 - (size - 1)) with 0 by lia.
    rewrite (first_true_None flags E) by lia. apply nth_upd_same. lia.
Qed.

End Counter.

(* ================================================================== blocks *)
Section Blocks.
Variable T : Type.
Variable N : num T.

Lemma set_flags_length fl (os : list (sstate T)) : length fl = length os -> length (set_flags fl os) = length os.
Proof. revert os; induction fl as [|f fl IH]; intros [|o os] H; simpl in *; try lia; auto. Qed.

Lemma it_pass_length c pre final riars dts injs ss ss' n :
  order_ok c pre -> 0 < n ->
  length riars = n -> length dts = n -> length injs = n -> length ss = n ->
  it_pass N c final riars dts injs ss = Some ss' -> length ss' = n.
Proof.
  intros Ho Hn H1 H2 H3 H4. destruct riars as [|r0 riars]; [simpl in H1; lia|].
  rewrite (it_pass_spec N c pre final r0 riars dts injs ss Ho). cbv zeta.
  set (os := owns N c final pre (r0 :: riars) dts injs ss).
  assert (Hos : length os = n) by (apply owns_length; auto).
  assert (Hfl : length (prop_flags false (c_max_restarts c <=? r0) (map (@s_restart T) os)) = length os)
    by (rewrite prop_flags_length, map_length; reflexivity).
  destruct (_ && _ && _); [discriminate|]. intros H; inversion H; subst ss'.
  destruct (c_rffs c && _); rewrite ?map_length, set_flags_length; auto.
Qed.

(* retry budget exhausted: the block is accepted as it is (or the run raised) *)
Lemma it_pass_exhausted c pre final r0 riars dts injs ss ss' :
  order_ok c pre -> c_max_restarts c <= r0 ->
  it_pass N c final (r0 :: riars) dts injs ss = Some ss' ->
  forall s, In s ss' -> s_restart s = false.
Proof.
  intros Ho Hm. rewrite (it_pass_spec N c pre final r0 riars dts injs ss Ho). cbv zeta.
  replace (c_max_restarts c <=? r0) with true by (symmetry; apply Nat.leb_le; auto).
  rewrite andb_false_r. cbv iota.
  destruct (_ && _ && _); [discriminate|]. intros H; inversion H; subst ss'. clear H.
  set (os := owns N c final pre (r0 :: riars) dts injs ss).
  intros s Hs.
  assert (Hfl : map (@s_restart T) (set_flags (prop_flags false true (map (@s_restart T) os)) os)
                = prop_flags false true (map (@s_restart T) os)).
  { apply set_flags_flags. rewrite prop_flags_length, map_length. reflexivity. }
  assert (Hin : In (s_restart s) (prop_flags false true (map (@s_restart T) os))).
  { rewrite <- Hfl. apply in_map. exact Hs. }
  eapply prop_flags_exhausted; eauto.
Qed.

Lemma it_pass_raise_iff c pre final r0 riars dts injs ss :
  order_ok c pre ->
  (it_pass N c final (r0 :: riars) dts injs ss = None <->
   c_max_restarts c <= r0 /\ c_crash c = true /\
   hd false (map (@s_restart T) (owns N c final pre (r0 :: riars) dts injs ss)) = true).
Proof.
  intros Ho. rewrite (it_pass_spec N c pre final r0 riars dts injs ss Ho). cbv zeta.
  set (os := owns N c final pre (r0 :: riars) dts injs ss). clearbody os.
  destruct (c_max_restarts c <=? r0) eqn:E; [apply Nat.leb_le in E | apply Nat.leb_gt in E].
  - destruct (hd false (map (@s_restart T) os)) eqn:Eh; destruct (c_crash c) eqn:Ec; cbn [andb];
      (split; [intros H; try discriminate; auto | intros (H1 & H2 & H3); try discriminate; auto]).
  - cbn [andb]. split; [discriminate | intros (H & _); lia].
Qed.

Lemma run_passes_last c pre riars dts passes ss ss' n :
  order_ok c pre -> 0 < n ->
  length riars = n -> length dts = n -> (forall p, In p passes -> length p = n) -> length ss = n ->
  passes <> [] ->
  run_passes N c riars dts passes ss = Some ss' ->
  exists p ssin, In p passes /\ length ssin = n /\ it_pass N c true riars dts p ssin = Some ss'.
Proof.
  intros Ho Hn H1 H2. revert ss. induction passes as [|p rest IH]; intros ss Hp Hs Hne H; [congruence|].
  destruct rest as [|p2 rest'].
  - simpl in H. exists p, ss. split; [left; auto|]. split; auto.
  - change (run_passes N c riars dts (p :: p2 :: rest') ss) with
      (match it_pass N c false riars dts p ss with
       | None => None | Some ss1 => run_passes N c riars dts (p2 :: rest') ss1 end) in H.
    destruct (it_pass N c false riars dts p ss) as [ss1|] eqn:E; [|discriminate].
    assert (Hl : length ss1 = n).
    { eapply it_pass_length; eauto. apply Hp; left; auto. }
    destruct (IH ss1) as (q & ssin & Hq & Hlen & Hit); auto.
    + intros q Hq. apply Hp. right; auto.
    + discriminate.
    + exists q, ssin. split; [right; auto|]. auto.
Qed.

Lemma run_passes_length c pre riars dts passes ss ss' n :
  order_ok c pre -> 0 < n ->
  length riars = n -> length dts = n -> (forall p, In p passes -> length p = n) -> length ss = n ->
  run_passes N c riars dts passes ss = Some ss' -> length ss' = n.
Proof.
  intros Ho Hn H1 H2 Hp Hs H. destruct passes as [|p rest] eqn:Ep.
  - simpl in H. inversion H; subst; auto.
  - rewrite <- Ep in *. destruct (run_passes_last c pre riars dts passes ss ss' n) as (q & ssin & Hq & Hl & Hit); auto.
    + rewrite Ep; discriminate.
    + eapply it_pass_length; eauto.
Qed.

(* ---- bookkeeping lengths *)
Lemma spread_update_length c size flags dtnews times dts :
  length (spread_update N c size flags dtnews times dts) = length dts.
Proof.
  unfold spread_update. generalize (seq 0 size). intros l. revert dts.
  induction l as [|a l IH]; intros dts; simpl; auto. rewrite IH. unfold spread_step.
  destruct (spread_from N c size flags dtnews). apply upd_length.
Qed.

Lemma times_update_length size dts times : length (times_update N size dts times) = length times.
Proof.
  unfold times_update. generalize (seq 1 (size - 1)). intros l. revert times.
  induction l as [|a l IH]; intros times; simpl; auto. rewrite IH. apply upd_length.
Qed.

Lemma times_update_head size dts times d : nth 0 (times_update N size dts times) d = nth 0 times d.
Proof.
  unfold times_update.
  assert (H : forall l ts, (forall i, In i l -> i <> 0) ->
              nth 0 (fold_left (fun ts i => time_step N dts i ts) l ts) d = nth 0 ts d).
  { induction l as [|a l IH]; intros ts Hl; simpl; auto.
    rewrite IH by (intros; apply Hl; right; auto). unfold time_step. apply nth_upd_other. apply Hl. left; auto. }
  apply H. intros i Hi. apply in_seq in Hi. lia.
Qed.

Lemma true_prefix_le l : true_prefix l <= length l.
Proof. induction l as [|[|] l IH]; simpl; lia. Qed.

Definition wf (size : nat) (g : gstate T) : Prop :=
  0 < size /\ size <= length (g_riars g) /\
  length (g_times g) = length (g_riars g) /\ length (g_dts g) = length (g_riars g).

Lemma next_block_wf c size g ss u0s uends :
  wf size g ->
  let bo := next_block N c size g ss u0s uends in
  bo_active bo <= length (g_riars (bo_state bo)) /\
  length (g_times (bo_state bo)) = length (g_riars (bo_state bo)) /\
  length (g_dts (bo_state bo)) = length (g_riars (bo_state bo)).
Proof.
  intros (H0 & H1 & H2 & H3). unfold next_block.
  destruct (first_true (map (@s_restart T) ss)); cbv zeta; simpl;
  unfold riar_update; rewrite riar_fold_length, spread_update_length, times_update_length, upd_length;
  (split; [|split; auto]);
  (eapply Nat.le_trans; [apply true_prefix_le|]); rewrite map_length, times_update_length, upd_length; lia.
Qed.

(* ---- restart semantics of run(): which steps are kept, where and from what the next block starts *)
Theorem next_block_restart c size g ss u0s uends j :
  first_true (map (@s_restart T) ss) = Some j ->
  let bo := next_block N c size g ss u0s uends in
  (forall i, i < j -> nth i (map (@s_restart T) ss) true = false) /\
  nth j (map (@s_restart T) ss) false = true /\
  bo_restart_at bo = j /\
  bo_token bo = nth j u0s (-1)%Z /\
  (0 < length (g_times g) -> nth 0 (g_times (bo_state bo)) (n0 N) = nth j (g_times g) (n0 N)).
Proof.
  intros E. destruct (first_true_Some _ _ E) as (Hj & Hjt & Hlt).
  unfold next_block. rewrite E. cbv zeta. simpl.
  repeat split; auto.
  intros Hl. rewrite times_update_head. apply nth_upd_same. exact Hl.
Qed.

Theorem next_block_accept c size g ss u0s uends :
  first_true (map (@s_restart T) ss) = None ->
  let bo := next_block N c size g ss u0s uends in
  (forall s, In s ss -> s_restart s = false) /\
  bo_restart_at bo = size /\
  bo_token bo = nth (size - 1) uends (-1)%Z /\
  (0 < length (g_times g) ->
   nth 0 (g_times (bo_state bo)) (n0 N) =
   nadd N (nth (size - 1) (g_times g) (n0 N)) (nth (size - 1) (g_dts g) (n0 N))).
Proof.
  intros E. unfold next_block. rewrite E. cbv zeta. simpl.
  repeat split; auto.
  - intros s Hs. apply (first_true_None_all _ E). apply in_map. exact Hs.
  - intros Hl. rewrite times_update_head. apply nth_upd_same. exact Hl.
Qed.

(* the counter of the first slot, as next_block leaves it *)
Theorem next_block_counter c size g ss u0s uends :
  wf size g -> length ss = size ->
  nth 0 (g_riars (bo_state (next_block N c size g ss u0s uends))) 0 =
  match first_true (map (@s_restart T) ss) with
  | None => 0
  | Some 0 => nth 0 (g_riars g) 0 + 1
  | Some (S _) => 1
  end.
Proof.
  intros (H0 & H1 & H2 & H3) Hs. unfold next_block.
  destruct (first_true (map (@s_restart T) ss)) eqn:E; cbv zeta; simpl;
  rewrite riar_update_head; rewrite ?map_length; auto; rewrite E; reflexivity.
Qed.

End Blocks.
Arguments wf {T}. Arguments it_pass_length {T} N. Arguments it_pass_exhausted {T} N.
Arguments it_pass_raise_iff {T} N. Arguments run_passes_last {T} N. Arguments run_passes_length {T} N.
Arguments next_block_wf {T} N. Arguments next_block_restart {T} N. Arguments next_block_accept {T} N.
Arguments next_block_counter {T} N. Arguments times_update_head {T} N.
Arguments spread_update_length {T} N. Arguments times_update_length {T} N.

(* ================================================================== whole runs: retry bound and progress *)
Section Runs.
Variable T : Type.
Variable N : num T.

Definition bt0 : block_trace T := BlockTrace (GState [] [] []) [] 0%Z.

(* the block attempt was restarted from its first step *)
Definition restarted_first (bt : block_trace T) : Prop :=
  first_true (map (@s_restart T) (bt_post bt)) = Some 0.

(* the script offers an injection for every slot in every pass *)
Definition script_ok (np : nat) (script : list (attempt T)) : Prop :=
  forall a, In a script -> forall p, In p (a_passes a) -> np <= length p.

Lemma first_true_repeat_sstate0 n : first_true (map (@s_restart T) (repeat (sstate0 T) n)) = None.
Proof. induction n; simpl; auto. rewrite IHn. reflexivity. Qed.

Lemma firstn_cons {A} size (l : list A) d : 0 < size -> 0 < length l ->
  firstn size l = nth 0 l d :: firstn (size - 1) (tl l).
Proof.
  intros Hs Hl. destruct size; [lia|]. destruct l; [simpl in Hl; lia|]. simpl. rewrite Nat.sub_0_r. reflexivity.
Qed.

Theorem retry_bound_gen c pre script :
  order_ok c pre -> forall size g trs o n,
  wf size g -> script_ok (length (g_riars g)) script ->
  run_blocks N c script size g = (trs, o) ->
  0 < n -> n <= length trs -> (forall i, i < n -> restarted_first (nth i trs bt0)) ->
  n + nth 0 (g_riars g) 0 <= c_max_restarts c.
Proof.
  intros Ho. induction script as [|a rest IH]; intros size g trs o n Hwf Hsc Hrun Hn Hlen Hall.
  - simpl in Hrun. inversion Hrun; subst. simpl in Hlen. lia.
  - destruct Hwf as (Hs0 & Hs1 & Hl1 & Hl2).
    simpl in Hrun.
    set (riars := firstn size (g_riars g)) in *.
    set (dts := firstn size (g_dts g)) in *.
    set (passes := map (firstn size) (a_passes a)) in *.
    assert (Hr : riars = nth 0 (g_riars g) 0 :: firstn (size - 1) (tl (g_riars g))).
    { apply firstn_cons; lia. }
    assert (Hlr : length riars = size) by (unfold riars; rewrite firstn_length; lia).
    assert (Hld : length dts = size) by (unfold dts; rewrite firstn_length; lia).
    assert (Hlp : forall p, In p passes -> length p = size).
    { intros p Hp. unfold passes in Hp. apply in_map_iff in Hp. destruct Hp as (p0 & <- & Hp0).
      rewrite firstn_length. specialize (Hsc a (or_introl eq_refl) p0 Hp0). lia. }
    clearbody riars dts passes.
    destruct (run_passes N c riars dts passes (repeat (sstate0 T) size)) as [ss|] eqn:Erp.
    + (* the block ran through *)
      assert (Hss : length ss = size).
      { eapply run_passes_length; eauto. apply repeat_length. }
      set (bo := next_block N c size g ss (a_u0s a) (a_uends a)) in *.
      set (tr := BlockTrace (active_part size g) ss (bo_token bo)) in *.
      assert (Hhd : nth 0 trs bt0 = tr).
      { destruct (negb (bo_prefix_ok bo)); [inversion Hrun; reflexivity|].
        destruct (bo_active bo =? 0); [inversion Hrun; reflexivity|].
        destruct (run_blocks N c rest (bo_active bo) (bo_state bo)). inversion Hrun; reflexivity. }
      assert (Hf : first_true (map (@s_restart T) ss) = Some 0).
      { specialize (Hall 0 Hn). rewrite Hhd in Hall. exact Hall. }
      (* the budget was not exhausted *)
      assert (Hlt : nth 0 (g_riars g) 0 < c_max_restarts c).
      { destruct (le_lt_dec (c_max_restarts c) (nth 0 (g_riars g) 0)) as [Hge|]; [exfalso|assumption].
        destruct passes as [|p0 passes'] eqn:Ep.
        - simpl in Erp. inversion Erp; subst ss. rewrite first_true_repeat_sstate0 in Hf. discriminate.
        - rewrite <- Ep in *.
          destruct (run_passes_last N c pre riars dts passes (repeat (sstate0 T) size) ss size)
            as (p & ssin & Hp & Hlin & Hit); auto.
          + apply repeat_length.
          + rewrite Ep; discriminate.
          + rewrite Hr in Hit.
            pose proof (it_pass_exhausted N c pre true _ _ _ _ _ _ Ho Hge Hit) as Hex.
            destruct (first_true_Some _ _ Hf) as (Hl0 & Ht & _).
            rewrite map_length in Hl0.
            assert (Hin : In (nth 0 ss (sstate0 T)) ss) by (apply nth_In; auto).
            apply Hex in Hin.
            rewrite (nth_indep _ false (s_restart (sstate0 T))) in Ht by (rewrite map_length; auto).
            rewrite map_nth in Ht. congruence. }
      destruct n as [|[|n']]; [lia | lia |].
      (* at least two restarted blocks: the run continued *)
      destruct (negb (bo_prefix_ok bo)); [inversion Hrun; subst; simpl in Hlen; lia|].
      destruct (bo_active bo =? 0) eqn:Eact; [inversion Hrun; subst; simpl in Hlen; lia|].
      destruct (run_blocks N c rest (bo_active bo) (bo_state bo)) as [trs' o'] eqn:Erest.
      inversion Hrun; subst trs o. clear Hrun.
      pose proof (next_block_wf N c size g ss (a_u0s a) (a_uends a) (conj Hs0 (conj Hs1 (conj Hl1 Hl2)))) as Hwf'.
      cbv zeta in Hwf'. fold bo in Hwf'. destruct Hwf' as (Hw1 & Hw2 & Hw3).
      assert (Hcnt : nth 0 (g_riars (bo_state bo)) 0 = nth 0 (g_riars g) 0 + 1).
      { unfold bo. rewrite next_block_counter; [rewrite Hf; reflexivity | repeat split; auto | auto]. }
      assert (Hlen' : length (g_riars (bo_state bo)) = length (g_riars g)).
      { unfold bo, next_block. destruct (first_true (map (@s_restart T) ss)); cbv zeta; simpl;
          unfold riar_update; apply riar_fold_length. }
      specialize (IH (bo_active bo) (bo_state bo) trs' o' (S n')).
      rewrite Hcnt in IH.
      assert (S n' + (nth 0 (g_riars g) 0 + 1) <= c_max_restarts c); [|lia].
      apply IH.
      * apply Nat.eqb_neq in Eact. repeat split; auto; lia.
      * rewrite Hlen'. intros a' Ha'. apply Hsc. right; auto.
      * exact Erest.
      * lia.
      * simpl in Hlen. lia.
      * intros i Hi. specialize (Hall (S i)). simpl in Hall. apply Hall. lia.
    + (* the block raised: it is not a restarted block *)
      inversion Hrun; subst trs o. specialize (Hall 0 Hn). simpl in Hall. unfold restarted_first in Hall.
      simpl in Hall. discriminate.
Qed.

End Runs.
Arguments retry_bound_gen {T} N. Arguments restarted_first {T}. Arguments script_ok {T}. Arguments bt0 {T}.

Section Runs2.
Variable T : Type.
Variable N : num T.

(* a streak of blocks restarted from their first step, ANYWHERE in the trace of a run, has at most
   max_restarts members *)
Theorem retry_bound_anywhere c pre script :
  order_ok c pre -> forall size g trs o k n,
  wf size g -> script_ok (length (g_riars g)) script ->
  run_blocks N c script size g = (trs, o) ->
  0 < n -> k + n <= length trs -> (forall i, i < n -> restarted_first (nth (k + i) trs bt0)) ->
  n <= c_max_restarts c.
Proof.
  intros Ho. induction script as [|a rest IH]; intros size g trs o k n Hwf Hsc Hrun Hn Hlen Hall.
  - simpl in Hrun. inversion Hrun; subst. simpl in Hlen. lia.
  - destruct k as [|k'].
    + pose proof (retry_bound_gen N c pre (a :: rest) Ho size g trs o n Hwf Hsc Hrun Hn) as H.
      simpl in Hlen. specialize (H Hlen Hall). lia.
    + destruct Hwf as (Hs0 & Hs1 & Hl1 & Hl2). simpl in Hrun.
      destruct (run_passes N c (firstn size (g_riars g)) (firstn size (g_dts g))
                  (map (firstn size) (a_passes a)) (repeat (sstate0 T) size)) as [ss|] eqn:Erp.
      2:{ inversion Hrun; subst. simpl in Hlen. lia. }
      set (bo := next_block N c size g ss (a_u0s a) (a_uends a)) in *.
      destruct (negb (bo_prefix_ok bo)); [inversion Hrun; subst; simpl in Hlen; lia|].
      destruct (bo_active bo =? 0) eqn:Eact; [inversion Hrun; subst; simpl in Hlen; lia|].
      destruct (run_blocks N c rest (bo_active bo) (bo_state bo)) as [trs' o'] eqn:Erest.
      inversion Hrun; subst trs o. clear Hrun.
      pose proof (next_block_wf N c size g ss (a_u0s a) (a_uends a) (conj Hs0 (conj Hs1 (conj Hl1 Hl2)))) as Hwf'.
      cbv zeta in Hwf'. fold bo in Hwf'. destruct Hwf' as (Hw1 & Hw2 & Hw3).
      assert (Hlen' : length (g_riars (bo_state bo)) = length (g_riars g)).
      { unfold bo, next_block. destruct (first_true (map (@s_restart T) ss)); cbv zeta; simpl;
          unfold riar_update; apply riar_fold_length. }
      apply (IH (bo_active bo) (bo_state bo) trs' o' k' n); auto.
      * apply Nat.eqb_neq in Eact. repeat split; auto; lia.
      * rewrite Hlen'. intros a' Ha'. apply Hsc. right; auto.
      * simpl in Hlen. lia.
Qed.

(* number of steps of a block attempt that were kept *)
Definition accepted (bt : block_trace T) : nat :=
  match first_true (map (@s_restart T) (bt_post bt)) with
  | Some j => j
  | None => length (bt_post bt)
  end.

Lemma accepted_pos bt : bt_post bt <> [] -> ~ restarted_first bt -> 0 < accepted bt.
Proof.
  unfold accepted, restarted_first. intros Hne Hnr.
  destruct (first_true (map (@s_restart T) (bt_post bt))) as [[|j]|]; try lia; try congruence.
  destruct (bt_post bt); [congruence | simpl; lia].
Qed.

(* progress: among any max_restarts + 1 consecutive block attempts of a run there is one that was not
   restarted from its first step (it kept at least one step, or it is the attempt that raised) *)
Theorem run_progress_blocks c pre script size g trs o k :
  order_ok c pre -> wf size g -> script_ok (length (g_riars g)) script ->
  run_blocks N c script size g = (trs, o) ->
  k + (c_max_restarts c + 1) <= length trs ->
  exists i, i < c_max_restarts c + 1 /\ ~ restarted_first (nth (k + i) trs bt0).
Proof.
  intros Ho Hwf Hsc Hrun Hlen.
  (* bounded search for a block that is not restarted from its first step *)
  assert (Hdec : forall m, (forall i, i < m -> restarted_first (nth (k + i) trs bt0)) \/
                           (exists i, i < m /\ ~ restarted_first (nth (k + i) trs bt0))).
  { induction m as [|m IHm]; [left; intros; lia|].
    destruct IHm as [Hall | (i & Hi & Hn)]; [|right; exists i; split; auto].
    unfold restarted_first at 2.
    destruct (first_true (map (@s_restart T) (bt_post (nth (k + m) trs bt0)))) as [[|j]|] eqn:E.
    - left. intros i Hi. destruct (Nat.eq_dec i m) as [->|]; [exact E | apply Hall; lia].
    - right. exists m. split; [lia|]. unfold restarted_first. rewrite E. discriminate.
    - right. exists m. split; [lia|]. unfold restarted_first. rewrite E. discriminate. }
  destruct (Hdec (c_max_restarts c + 1)) as [Hall | H]; [|exact H].
  exfalso.
  assert (c_max_restarts c + 1 <= c_max_restarts c); [|lia].
  eapply (retry_bound_anywhere c pre script Ho size g trs o k); eauto. lia.
Qed.

End Runs2.
Arguments accepted {T}.

(* ================================================================== step-size proposals *)
Section Proposal.
Variable T : Type.
Variable N : num T.

(* the controllers that act before BasicRestarting, in the order their control_order dictates
   (Scripted -60, Adaptivity -50, StepSizeSlopeLimiter 91, StepSizeLimiter 92) *)
Definition canonical_pre : list stage := [SScripted; SAdapt; SSlope; SLimit].

(* at iteration maxiter, for a fresh step into which nothing but an error estimate is injected:
   the step asks for a restart iff  e_tol <= err  (the code's `e_est >= self.params.e_tol`), and its
   proposal is the formula, then the slope limiter, then the absolute limiter, in that order *)
Theorem own_canonical c dt e pw :
  own N c true dt (Inj false e pw None) canonical_pre (sstate0 T) =
  let r := nleb N (c_e_tol c) e in
  SState r (Some (abs_limit N c (slope_limit N c dt r (optimal_dt N c dt pw)))) (Some e).
Proof. reflexivity. Qed.

(* with a scripted request on top *)
Theorem own_canonical_req c dt req e pw :
  own N c true dt (Inj req e pw None) canonical_pre (sstate0 T) =
  let r := req || nleb N (c_e_tol c) e in
  SState r (Some (abs_limit N c (slope_limit N c dt r (optimal_dt N c dt pw)))) (Some e).
Proof. reflexivity. Qed.

(* before iteration maxiter Adaptivity neither proposes nor rejects *)
Theorem own_canonical_early c dt req e pw s :
  own N c false dt (Inj req e pw None) canonical_pre s =
  SState (s_restart s || req)
         (option_map (abs_limit N c) (option_map (slope_limit N c dt (s_restart s || req)) (s_dtnew s)))
         (Some e).
Proof. reflexivity. Qed.

(* ---- law-free range facts: only "a < b gives a <= b" and "not a < b gives b <= a" are used *)
Variable le : T -> T -> Prop.
Hypothesis lt_le : forall a b, nltb N a b = true -> le a b.
Hypothesis nlt_ge : forall a b, nltb N a b = false -> le b a.

Lemma le_refl_free a : le a a.
Proof. destruct (nltb N a a) eqn:E; [apply lt_le | apply nlt_ge]; exact E. Qed.

(* StepSizeLimiter: the result lies in [dt_min, dt_max] whenever dt_min <= dt_max *)
Theorem abs_limit_in_range c d m :
  c_dt_max c = Some m -> le (c_dt_min c) m ->
  le (c_dt_min c) (abs_limit N c d) /\ le (abs_limit N c d) m.
Proof.
  intros Hm Hlm. unfold abs_limit. rewrite Hm.
  destruct (nltb N d (c_dt_min c)) eqn:E1.
  - split; [apply le_refl_free | exact Hlm].
  - destruct (nltb N m d) eqn:E2.
    + split; [exact Hlm | apply le_refl_free].
    + split; [apply nlt_ge; exact E1 | apply nlt_ge; exact E2].
Qed.

Theorem abs_limit_lower c d :
  c_dt_max c = None -> le (c_dt_min c) (abs_limit N c d).
Proof.
  intros Hm. unfold abs_limit. rewrite Hm.
  destruct (nltb N d (c_dt_min c)) eqn:E1; [apply le_refl_free | apply nlt_ge; exact E1].
Qed.

(* StepSizeSlopeLimiter: the result is dt*slope_min, dt*slope_max, dt, or the proposal itself, and the
   proposal survives only if its ratio to dt lies in [slope_min, slope_max] *)
Theorem slope_limit_cases c dt restart d :
  let ratio := ndiv N d dt in
  let r := slope_limit N c dt restart d in
  (nltb N ratio (c_slope_min c) = true /\ r = nmul N dt (c_slope_min c)) \/
  (exists m, c_slope_max c = Some m /\ nltb N m ratio = true /\ le (c_slope_min c) ratio /\ r = nmul N dt m) \/
  (restart = false /\ nltb N (nabs N (nsub N ratio (n1 N))) (c_rel_min_slope c) = true /\
   le (c_slope_min c) ratio /\ r = dt) \/
  (le (c_slope_min c) ratio /\ (forall m, c_slope_max c = Some m -> le ratio m) /\ r = d).
Proof.
  cbv zeta. unfold slope_limit.
  destruct (nltb N (ndiv N d dt) (c_slope_min c)) eqn:E1; [left; auto|].
  apply nlt_ge in E1. right.
  destruct (c_slope_max c) as [m|] eqn:Em.
  - destruct (nltb N m (ndiv N d dt)) eqn:E2.
    + left. exists m. auto.
    + right. destruct (nltb N (nabs N (nsub N (ndiv N d dt) (n1 N))) (c_rel_min_slope c)) eqn:E3; destruct restart; simpl.
      * right. repeat split; auto. intros m' Hm'. inversion Hm'; subst. apply nlt_ge; auto.
      * left. auto.
      * right. repeat split; auto. intros m' Hm'. inversion Hm'; subst. apply nlt_ge; auto.
      * right. repeat split; auto. intros m' Hm'. inversion Hm'; subst. apply nlt_ge; auto.
  - right. destruct (nltb N (nabs N (nsub N (ndiv N d dt) (n1 N))) (c_rel_min_slope c)) eqn:E3; destruct restart; simpl.
    + right. repeat split; auto. intros; discriminate.
    + left. auto.
    + right. repeat split; auto. intros; discriminate.
    + right. repeat split; auto. intros; discriminate.
Qed.

(* SpreadStepSizesBlockwise never hands out more than the step size it spreads *)
Theorem pmin_le_left a b : le (pmin N a b) a.
Proof. unfold pmin. destruct (nltb N b a) eqn:E; [apply lt_le; exact E | apply le_refl_free]. Qed.

End Proposal.
Arguments canonical_pre : clear implicits.

(* ================================================================== error-based restarts at block level *)
Section ErrorRestart.
Variable T : Type.
Variable N : num T.

Lemma own_canonical_restart c dt i s :
  s_restart (own N c true dt i canonical_pre s) = s_restart s || i_req i || nleb N (c_e_tol c) (i_err i).
Proof. destruct i; reflexivity. Qed.

Lemma owns_nth c final pre riars dts injs ss n k dd di ds :
  length riars = n -> length dts = n -> length injs = n -> length ss = n -> k < n ->
  nth k (owns N c final pre riars dts injs ss) ds =
  own N c final (nth k dts dd) (nth k injs di) pre (nth k ss ds).
Proof.
  intros H1 H2 H3 H4 Hk. revert riars dts injs ss k H1 H2 H3 H4 Hk.
  induction n; intros [|r riars] [|d dts] [|i injs] [|s ss] k H1 H2 H3 H4 Hk; simpl in *; try lia.
  destruct k; [reflexivity|]. apply IHn; lia.
Qed.

Lemma existsb_firstn_last (qs : list bool) i : i < length qs ->
  existsb (fun b => b) (firstn (S i) qs) = false -> nth i qs false = false.
Proof.
  revert i; induction qs as [|q qs IH]; intros i Hi H; simpl in *; [lia|].
  destruct q; simpl in H; [discriminate|]. destruct i; [reflexivity|]. apply IH; [lia | exact H].
Qed.

Lemma existsb_false_nth (qs : list bool) i : existsb (fun b => b) qs = false -> nth i qs false = false.
Proof.
  revert i; induction qs as [|q qs IH]; intros i H; simpl in *; [destruct i; reflexivity|].
  destruct q; simpl in H; [discriminate|]. destruct i; [reflexivity|]. apply IH; exact H.
Qed.

Lemma nth_map_set_restart b (l : list (sstate T)) k : k < length l ->
  nth k (map (@s_restart T) (map (set_restart b) l)) false = b.
Proof.
  revert k; induction l as [|a l IH]; intros k Hk; simpl in *; [lia|].
  destruct k; [reflexivity|]. apply IH. lia.
Qed.

(* every step that is kept at iteration maxiter while the retry budget is not exhausted has an error
   estimate strictly below the tolerance:  (e_tol <= err) = false *)
Theorem accepted_error_below_tol c r0 riars dts injs ss ss' n k di :
  order_ok c canonical_pre -> r0 < c_max_restarts c ->
  length (r0 :: riars) = n -> length dts = n -> length injs = n -> length ss = n -> k < n ->
  it_pass N c true (r0 :: riars) dts injs ss = Some ss' ->
  nth k (map (@s_restart T) ss') false = false ->
  nleb N (c_e_tol c) (i_err (nth k injs di)) = false.
Proof.
  intros Ho Hlt H1 H2 H3 H4 Hk.
  rewrite (it_pass_spec N c canonical_pre true r0 riars dts injs ss Ho). cbv zeta.
  set (os := owns N c true canonical_pre (r0 :: riars) dts injs ss).
  assert (Hos : length os = n) by (apply owns_length; auto).
  replace (c_max_restarts c <=? r0) with false by (symmetry; apply Nat.leb_gt; auto).
  cbn [andb negb]. rewrite andb_true_r.
  intros H; inversion H; subst ss'; clear H. intros Hfl.
  assert (Hq : nth k (map (@s_restart T) os) false = false).
  { assert (Hpl : length (prop_flags false false (map (@s_restart T) os)) = length os)
      by (rewrite prop_flags_length, map_length; reflexivity).
    destruct (c_rffs c).
    - rewrite nth_map_set_restart in Hfl by (rewrite set_flags_length; lia).
      rewrite or_all_spec in Hfl. simpl in Hfl. apply existsb_false_nth. exact Hfl.
    - rewrite set_flags_flags in Hfl by exact Hpl.
      rewrite prop_flags_nth in Hfl by (rewrite map_length; lia). simpl in Hfl.
      apply existsb_firstn_last; [rewrite map_length; lia | exact Hfl]. }
  rewrite (nth_indep _ false (s_restart (sstate0 T))) in Hq by (rewrite map_length; lia).
  rewrite map_nth in Hq. unfold os in Hq.
  rewrite (owns_nth c true canonical_pre (r0 :: riars) dts injs ss n k (n0 N) di (sstate0 T)) in Hq; auto.
  rewrite own_canonical_restart in Hq.
  destruct (nleb N (c_e_tol c) (i_err (nth k injs di))); [|reflexivity].
  rewrite orb_true_r in Hq. discriminate.
Qed.

Lemma owns_fresh_requests c riars dts injs n :
  length riars = n -> length dts = n -> length injs = n ->
  (forall i, In i injs -> i_req i = false) ->
  map (@s_restart T) (owns N c true canonical_pre riars dts injs (repeat (sstate0 T) n)) =
  map (fun i => nleb N (c_e_tol c) (i_err i)) injs.
Proof.
  revert riars dts injs; induction n; intros [|r riars] [|d dts] [|i injs] H1 H2 H3 Hreq;
    simpl in H1, H2, H3; try lia; [reflexivity|].
  cbn [repeat owns map]. f_equal.
  - rewrite own_canonical_restart. rewrite (Hreq i) by (left; auto). reflexivity.
  - apply IHn; try lia. intros j Hj. apply Hreq. right; auto.
Qed.

(* restart iff: without scripted requests, for fresh steps, Gauss-Seidel propagation (not
   restart_from_first_step), budget not exhausted: step k is restarted exactly when some step j <= k has
   e_tol <= err_j *)
Theorem restart_iff c r0 riars dts injs n k :
  order_ok c canonical_pre -> r0 < c_max_restarts c -> c_rffs c = false ->
  length (r0 :: riars) = n -> length dts = n -> length injs = n -> k < n ->
  (forall i, In i injs -> i_req i = false) ->
  exists ss', it_pass N c true (r0 :: riars) dts injs (repeat (sstate0 T) n) = Some ss' /\
    nth k (map (@s_restart T) ss') false =
    existsb (fun i => nleb N (c_e_tol c) (i_err i)) (firstn (S k) injs).
Proof.
  intros Ho Hlt Hrf H1 H2 H3 Hk Hreq.
  rewrite (it_pass_spec N c canonical_pre true r0 riars dts injs _ Ho). cbv zeta.
  set (os := owns N c true canonical_pre (r0 :: riars) dts injs (repeat (sstate0 T) n)).
  assert (Hos : length os = n) by (apply owns_length; auto; apply repeat_length).
  replace (c_max_restarts c <=? r0) with false by (symmetry; apply Nat.leb_gt; auto).
  rewrite Hrf. cbn [andb negb]. eexists. split; [reflexivity|].
  rewrite set_flags_flags by (rewrite prop_flags_length, map_length; reflexivity).
  rewrite prop_flags_nth by (rewrite map_length; lia). rewrite orb_false_l.
  assert (Hqs : map (@s_restart T) os = map (fun i => nleb N (c_e_tol c) (i_err i)) injs).
  { unfold os. apply owns_fresh_requests; auto. }
  rewrite Hqs. rewrite firstn_map.
  generalize (firstn (S k) injs). intros l. induction l; simpl; auto. rewrite IHl. reflexivity.
Qed.

End ErrorRestart.

(* ================================================================== shape of the flags of a block *)
Section FlagShape.
Variable T : Type.
Variable N : num T.

(* Gauss-Seidel mode: once a step is restarted, every later step of the block is restarted *)
Theorem flags_upward_closed c pre final riars dts injs ss ss' n i j :
  order_ok c pre -> c_rffs c = false ->
  length riars = n -> length dts = n -> length injs = n -> length ss = n ->
  it_pass N c final riars dts injs ss = Some ss' ->
  i <= j -> j < n ->
  nth i (map (@s_restart T) ss') false = true -> nth j (map (@s_restart T) ss') false = true.
Proof.
  intros Ho Hrf H1 H2 H3 H4. destruct riars as [|r0 riars]; [simpl in H1; lia|].
  rewrite (it_pass_spec N c pre final r0 riars dts injs ss Ho). cbv zeta.
  set (os := owns N c final pre (r0 :: riars) dts injs ss).
  assert (Hos : length os = n) by (apply owns_length; auto).
  rewrite Hrf. cbn [andb]. destruct (_ && _ && _); [discriminate|].
  intros H; inversion H; subst ss'; clear H. intros Hij Hj.
  rewrite set_flags_flags by (rewrite prop_flags_length, map_length; reflexivity).
  apply prop_flags_upward; [exact Hij | rewrite map_length; lia].
Qed.

(* restart_from_first_step mode: the whole block is restarted or the whole block is kept *)
Theorem flags_all_equal c pre final riars dts injs ss ss' n i j :
  order_ok c pre -> c_rffs c = true ->
  length riars = n -> length dts = n -> length injs = n -> length ss = n ->
  it_pass N c final riars dts injs ss = Some ss' ->
  i < n -> j < n ->
  nth i (map (@s_restart T) ss') false = nth j (map (@s_restart T) ss') false.
Proof.
  intros Ho Hrf H1 H2 H3 H4. destruct riars as [|r0 riars]; [simpl in H1; lia|].
  rewrite (it_pass_spec N c pre final r0 riars dts injs ss Ho). cbv zeta.
  set (os := owns N c final pre (r0 :: riars) dts injs ss).
  assert (Hos : length os = n) by (apply owns_length; auto).
  assert (Hpl : forall bm, length (prop_flags false bm (map (@s_restart T) os)) = length os)
    by (intros; rewrite prop_flags_length, map_length; reflexivity).
  rewrite Hrf. cbn [andb]. destruct (_ && _ && _); [discriminate|].
  destruct (c_max_restarts c <=? r0) eqn:Ebm; cbn [negb]; intros H; inversion H; subst ss'; clear H; intros Hi Hj.
  - (* exhausted: all false *)
    rewrite set_flags_flags by apply Hpl.
    assert (Hall : forall k, k < n -> nth k (prop_flags false true (map (@s_restart T) os)) false = false).
    { intros k Hk. eapply prop_flags_exhausted. apply nth_In. rewrite Hpl. lia. }
    rewrite !Hall; auto.
  - rewrite !nth_map_set_restart by (rewrite set_flags_length; [lia | apply Hpl]). reflexivity.
Qed.

End FlagShape.

(* ================================================================== exact rationals: a rejected step shrinks *)
From Coq Require Import QArith Qabs Lqa.
Section Rational.
Local Open Scope Q_scope.

Lemma Qltb_true a b : Qltb a b = true <-> a < b.
Proof.
  unfold Qltb. rewrite negb_true_iff. split; intros H.
  - apply Qnot_le_lt. intros Hle. apply Qle_bool_iff in Hle. congruence.
  - destruct (Qle_bool b a) eqn:E; [|reflexivity]. apply Qle_bool_iff in E. exfalso. apply (Qlt_not_le _ _ H E).
Qed.

Lemma Qltb_false a b : Qltb a b = false <-> b <= a.
Proof.
  unfold Qltb. rewrite negb_false_iff. apply Qle_bool_iff.
Qed.

(* the two order facts the law-free theorems ask for hold for Q *)
Lemma Q_lt_le a b : nltb num_Q a b = true -> a <= b.
Proof. simpl. intros H. apply Qltb_true in H. apply Qlt_le_weak. exact H. Qed.
Lemma Q_nlt_ge a b : nltb num_Q a b = false -> b <= a.
Proof. simpl. intros H. apply Qltb_false in H. exact H. Qed.

Variable c : cfg Q.

(* beta * dt * pw does not exceed dt when 0 < beta <= 1 and 0 <= pw <= 1 *)
Lemma optimal_le dt pw :
  0 < c_beta c -> c_beta c <= 1 -> 0 < dt -> 0 <= pw -> pw <= 1 ->
  optimal_dt num_Q c dt pw <= dt.
Proof.
  intros Hb0 Hb1 Hdt Hp0 Hp1. unfold optimal_dt. simpl.
  assert (H1 : c_beta c * dt <= dt) by nra.
  assert (H2 : 0 <= c_beta c * dt) by nra.
  nra.
Qed.

Lemma optimal_lt dt pw :
  0 < c_beta c -> c_beta c < 1 -> 0 < dt -> 0 <= pw -> pw <= 1 ->
  optimal_dt num_Q c dt pw < dt.
Proof.
  intros Hb0 Hb1 Hdt Hp0 Hp1. unfold optimal_dt. simpl.
  assert (H1 : c_beta c * dt < dt) by nra.
  assert (H2 : 0 <= c_beta c * dt) by nra.
  nra.
Qed.

(* A rejected step (restart flag set, so the "keep dt" branch of the slope limiter is off) whose
   pow factor is at most 1 gets a strictly smaller proposal after both limiters, unless a lower
   limit binds: the result is dt_min, or the slope ratio fell below dt_slope_min. *)
Theorem rejected_gets_smaller dt pw :
  0 < c_beta c -> c_beta c < 1 -> 0 < dt -> 0 <= pw -> pw <= 1 ->
  let p := optimal_dt num_Q c dt pw in
  let r := abs_limit num_Q c (slope_limit num_Q c dt true p) in
  r < dt \/ r == c_dt_min c \/ p / dt < c_slope_min c.
Proof.
  intros Hb0 Hb1 Hdt Hp0 Hp1. cbv zeta.
  pose proof (optimal_lt dt pw Hb0 Hb1 Hdt Hp0 Hp1) as Hp.
  set (p := optimal_dt num_Q c dt pw) in *.
  unfold slope_limit. simpl ndiv. simpl nltb. simpl nmul.
  destruct (Qltb (p / dt) (c_slope_min c)) eqn:E1.
  { right; right. apply Qltb_true; exact E1. }
  rewrite andb_false_r.
  assert (Hs : exists s, s < dt /\
    (if match c_slope_max c with Some m => Qltb m (p / dt) | None => false end
     then match c_slope_max c with Some m => dt * m | None => p end else p) = s).
  { destruct (c_slope_max c) as [m|].
    - destruct (Qltb m (p / dt)) eqn:E2.
      + exists (dt * m). split; [|reflexivity]. apply Qltb_true in E2.
        assert (dt * m < dt * (p / dt)) by (apply Qmult_lt_l; auto).
        assert (dt * (p / dt) == p) by (field; lra). lra.
      + exists p. split; [exact Hp | reflexivity].
    - exists p. split; [exact Hp | reflexivity]. }
  destruct Hs as (s & Hs & ->).
  unfold abs_limit. simpl nltb.
  destruct (Qltb s (c_dt_min c)) eqn:E3.
  { right; left. reflexivity. }
  left. destruct (c_dt_max c) as [m|]; [|exact Hs].
  destruct (Qltb m s) eqn:E4; [|exact Hs]. apply Qltb_true in E4. lra.
Qed.

(* slope limiter over Q: for dt > 0 the result divided by dt lies in [slope_min, slope_max], or the
   old step size is kept *)
Theorem slope_limit_range dt restart d m :
  0 < dt -> c_slope_max c = Some m -> c_slope_min c <= m ->
  let r := slope_limit num_Q c dt restart d in
  r == dt \/ (c_slope_min c * dt <= r /\ r <= m * dt).
Proof.
  intros Hdt Hm Hlm. cbv zeta.
  destruct (slope_limit_cases Q num_Q Qle Q_nlt_ge c dt restart d)
    as [(H1 & ->) | [(m' & Hm' & H1 & H2 & ->) | [(_ & _ & _ & ->) | (H1 & H2 & ->)]]]; simpl in *.
  - right. split; [lra | nra].
  - right. rewrite Hm in Hm'. inversion Hm'; subst m'. split; [nra | lra].
  - left. reflexivity.
  - right. specialize (H2 m Hm).
    assert (Hd : d == (d / dt) * dt) by (field; lra).
    split; [rewrite Hd at 1 | rewrite Hd at 1]; nra.
Qed.

End Rational.

(* ================================================================== spreading the step size *)
Local Open Scope nat_scope.
Section Spread.
Variable T : Type.
Variable N : ConvCtrl.num T.

(* the value a call of SpreadStepSizesBlockwiseNonMPI.prepare_next_block writes, as a function of the
   entry dt_all[restart_at] it reads from the CURRENT step sizes *)
Definition spread_value (c : cfg T) (size r : nat) (times : list T) (d x : T) : T :=
  if c_overwrite c then
    pmin N d (pmax N (ndiv N (nsub N (nsub N (c_Tend c) (nth r times (n0 N))) x) (nofnat N size)) (c_dt_initial c))
  else d.

Definition read_r (r : nat) (ds : list T) : T := match r with O => n0 N | S _ => nth r ds (n0 N) end.

Lemma spread_step_eq c size flags dtnews times i ds sf r d :
  spread_from N c size flags dtnews = (sf, r) -> nth sf dtnews None = Some d ->
  spread_step N c size flags dtnews times i ds = upd ds i (spread_value c size r times d (read_r r ds)).
Proof.
  intros Hsf Hd. unfold spread_step. rewrite Hsf, Hd. unfold spread_value, read_r.
  destruct (c_overwrite c); reflexivity.
Qed.

Lemma spread_fold c size flags dtnews times dts sf r d m :
  spread_from N c size flags dtnews = (sf, r) -> nth sf dtnews None = Some d ->
  m <= length dts -> (r = 0 \/ m <= r + 1) ->
  let res := fold_left (fun ds i => spread_step N c size flags dtnews times i ds) (seq 0 m) dts in
  let v := spread_value c size r times d (read_r r dts) in
  length res = length dts /\
  (forall k, k < m -> nth k res (n0 N) = v) /\ (forall k, m <= k -> nth k res (n0 N) = nth k dts (n0 N)).
Proof.
  intros Hsf Hd. induction m as [|m IH]; intros Hm Hr; cbv zeta.
  - simpl. split; [reflexivity|]. split; [intros; lia | reflexivity].
  - rewrite seq_S, fold_left_app. simpl fold_left.
    destruct IH as (IHl & IH1 & IH2); [lia | destruct Hr; [left; auto | right; lia] |].
    set (res := fold_left _ (seq 0 m) dts) in *.
    rewrite (spread_step_eq c size flags dtnews times m res sf r d Hsf Hd).
    assert (Hread : read_r r res = read_r r dts).
    { unfold read_r. destruct r as [|r']; [reflexivity|]. apply IH2. destruct Hr; [discriminate | lia]. }
    rewrite Hread. split; [rewrite upd_length; exact IHl|]. split.
    + intros k Hk. destruct (Nat.eq_dec k m) as [->|Hne].
      * apply nth_upd_same. lia.
      * rewrite nth_upd_other by auto. apply IH1. lia.
    + intros k Hk. rewrite nth_upd_other by lia. apply IH2. lia.
Qed.

(* all steps of the next block share one step size, PROVIDED the step whose size is spread carries a
   proposal and the block is restarted from its first step, from its last step, or not at all *)
Theorem block_shares_dt_partial c size flags dtnews times dts sf r d i k :
  spread_from N c size flags dtnews = (sf, r) -> nth sf dtnews None = Some d ->
  size <= length dts -> (r = 0 \/ size <= r + 1) ->
  i < size -> k < size ->
  nth i (spread_update N c size flags dtnews times dts) (n0 N) =
  nth k (spread_update N c size flags dtnews times dts) (n0 N).
Proof.
  intros Hsf Hd Hl Hr Hi Hk. unfold spread_update.
  destruct (spread_fold c size flags dtnews times dts sf r d size Hsf Hd Hl Hr) as (_ & H1 & _).
  rewrite (H1 i Hi), (H1 k Hk). reflexivity.
Qed.

Lemma spread_from_r c size flags dtnews :
  snd (spread_from N c size flags dtnews) =
  match first_true flags with Some j => j | None => size - 1 end.
Proof.
  unfold spread_from. destruct (first_true flags); [destruct (negb (c_rffs c))|]; reflexivity.
Qed.

End Spread.

(* the full clause "all steps of a block share one step size" is FALSE for the code as written: a purely
   error-driven history (no scripted request): 3 steps, dt0 = 1/10, beta = 9/10, e_tol = 1/1000, Tend = 33/10.
   attempt 0: all errors 1e-5, pow factor 100/9            -> accepted, dt_new = 1, next block at 3/10 with dt = 1
   attempt 1: error of step 1 equals e_tol (pow factor 1)  -> steps 1, 2 restarted, dt_new = 9/10;
              the Tend cap binds; the calls for steps 0, 1 read dt_all[1] = 1 (old), the call for step 2
              reads the value the call for step 1 has just written
   attempt 2: step sizes 1/3, 1/3, 5/9 *)
Definition refute_cfg : cfg Q :=
  Cfg [SScripted; SAdapt; SRestart] 3 true false (1#1000)%Q (9#10)%Q 0%Q None 0%Q 0%Q None true
      (33#10)%Q 0%Q (1000000000#1)%Q (1#10)%Q.
Definition refute_script : list (attempt Q) :=
  let ok := Inj false (1#100000)%Q (100#9)%Q None in
  let bad := Inj false (1#1000)%Q 1%Q None in
  [ Attempt [[ok; ok; ok]] [0; 1; 2]%Z [1; 2; 3]%Z;
    Attempt [[ok; bad; ok]] [3; 4; 5]%Z [4; 5; 6]%Z;
    Attempt [[ok; ok; ok]] [4; 7; 8]%Z [7; 8; 9]%Z ].

Lemma block_shares_dt_refuted_run :
  exists b, In b (fst (run num_Q refute_cfg 0%Q 3 refute_script)) /\
    map Qred (g_dts (bt_pre b)) = [(1#3)%Q; (1#3)%Q; (5#9)%Q] /\
    map (@s_restart Q) (bt_post b) = [false; false; false].
Proof.
  eexists. split.
  - vm_compute. right. right. left. reflexivity.
  - vm_compute. split; reflexivity.
Qed.

(* ================================================================== the contract of `**` used above *)
(* rejected_gets_smaller assumes  pw <= 1 ; the real power function satisfies it for every rejected
   step (e_tol / err <= 1) and every positive exponent 1 / order.  (Uses the axioms of the standard
   library's real numbers; nothing else in this file depends on it.) *)
From Coq Require Import Reals.
Lemma Rpower_le_one (x y : R) : (0 < x <= 1)%R -> (0 <= y)%R -> (Rpower x y <= 1)%R.
Proof.
  intros [Hx0 Hx1] Hy. unfold Rpower.
  assert (Hln : (ln x <= 0)%R).
  { destruct Hx1 as [Hlt | ->]; [|rewrite ln_1; apply Rle_refl].
    left. rewrite <- ln_1. apply ln_increasing; assumption. }
  assert (Hz : (y * ln x <= 0)%R).
  { rewrite <- (Rmult_0_r y). apply Rmult_le_compat_l; assumption. }
  destruct Hz as [Hlt | Heq].
  - left. rewrite <- exp_0. apply exp_increasing. exact Hlt.
  - rewrite Heq, exp_0. apply Rle_refl.
Qed.

Lemma Rpower_pos (x y : R) : (0 < Rpower x y)%R.
Proof. unfold Rpower. apply exp_pos. Qed.

(* ================================================================== the statements for run() itself *)
Local Open Scope nat_scope.
Section WholeRun.
Variable T : Type.
Variable N : ConvCtrl.num T.

Lemma init_times_length t0 acc dt n : length (init_times N t0 acc dt n) = n.
Proof. revert acc; induction n; intros [a|]; simpl; auto. Qed.

Lemma init_wf c t0 np k : 0 < k -> k <= np -> wf k (init_state N c t0 np).
Proof.
  intros H0 H1. unfold wf, init_state. simpl. rewrite init_times_length, !repeat_length. lia.
Qed.

Theorem run_retry_bound c pre t0 np script trs o k n :
  order_ok c pre -> script_ok np script ->
  run N c t0 np script = (trs, o) ->
  0 < n -> k + n <= length trs -> (forall i, i < n -> restarted_first (nth (k + i) trs bt0)) ->
  n <= c_max_restarts c.
Proof.
  intros Ho Hsc Hrun Hn Hlen Hall. unfold run in Hrun.
  set (g := init_state N c t0 np) in *.
  set (act := map _ (g_times g)) in *.
  destruct (negb (forallb negb (skipn (true_prefix act) act))); [inversion Hrun; subst; simpl in Hlen; lia|].
  destruct (true_prefix act =? 0) eqn:Ek; [inversion Hrun; subst; simpl in Hlen; lia|].
  apply Nat.eqb_neq in Ek.
  assert (Hle : true_prefix act <= np).
  { eapply Nat.le_trans; [apply true_prefix_le|]. unfold act. rewrite map_length. unfold g, init_state. simpl.
    rewrite init_times_length. lia. }
  eapply (retry_bound_anywhere T N c pre script Ho (true_prefix act) g trs o k n); eauto.
  - apply init_wf; lia.
  - unfold g, init_state. simpl. rewrite repeat_length. exact Hsc.
Qed.

Theorem run_progress c pre t0 np script trs o k :
  order_ok c pre -> script_ok np script ->
  run N c t0 np script = (trs, o) ->
  k + (c_max_restarts c + 1) <= length trs ->
  exists i, i < c_max_restarts c + 1 /\ ~ restarted_first (nth (k + i) trs bt0).
Proof.
  intros Ho Hsc Hrun Hlen. unfold run in Hrun.
  set (g := init_state N c t0 np) in *.
  set (act := map _ (g_times g)) in *.
  destruct (negb (forallb negb (skipn (true_prefix act) act))); [inversion Hrun; subst; simpl in Hlen; lia|].
  destruct (true_prefix act =? 0) eqn:Ek; [inversion Hrun; subst; simpl in Hlen; lia|].
  apply Nat.eqb_neq in Ek.
  assert (Hle : true_prefix act <= np).
  { eapply Nat.le_trans; [apply true_prefix_le|]. unfold act. rewrite map_length. unfold g, init_state. simpl.
    rewrite init_times_length. lia. }
  eapply (run_progress_blocks T N c pre script (true_prefix act) g trs o k); eauto.
  - apply init_wf; lia.
  - unfold g, init_state. simpl. rewrite repeat_length. exact Hsc.
Qed.

End WholeRun.

(* ================================================================== restart semantics along a whole run *)
Section RunSemantics.
Variable T : Type.
Variable N : ConvCtrl.num T.

Definition att0 : attempt T := Attempt [] [] [].

Lemma nth_firstn {A} (l : list A) n k d : k < n -> nth k (firstn n l) d = nth k l d.
Proof.
  revert n k; induction l as [|a l IH]; intros [|n] [|k] H; simpl; auto; try lia.
  apply IH. lia.
Qed.

Lemma run_blocks_head c script size g trs o :
  run_blocks N c script size g = (trs, o) -> 0 < length trs ->
  bt_pre (nth 0 trs bt0) = active_part size g.
Proof.
  destruct script as [|a rest]; simpl; intros H Hl.
  - inversion H; subst; simpl in Hl; lia.
  - repeat (match type of H with
            | context [match ?x with Some _ => _ | None => _ end] => destruct x
            | context [if ?x then _ else _] => destruct x
            | context [let '(_, _) := ?x in _] => destruct x
            end); inversion H; subst; reflexivity.
Qed.

(* consecutive block attempts of a run: the later one starts where the theorem about next_block says *)
Theorem run_blocks_restart_semantics c pre script :
  order_ok c pre -> forall size g trs o k,
  wf size g -> script_ok (length (g_riars g)) script ->
  run_blocks N c script size g = (trs, o) -> S k < length trs ->
  let b := nth k trs bt0 in
  let b' := nth (S k) trs bt0 in
  let a := nth k script att0 in
  let n := length (bt_post b) in
  match first_true (map (@s_restart T) (bt_post b)) with
  | Some j =>
      (forall i, i < j -> nth i (map (@s_restart T) (bt_post b)) true = false) /\
      nth 0 (g_times (bt_pre b')) (n0 N) = nth j (g_times (bt_pre b)) (n0 N) /\
      bt_next b = nth j (a_u0s a) (-1)%Z
  | None =>
      nth 0 (g_times (bt_pre b')) (n0 N) =
        nadd N (nth (n - 1) (g_times (bt_pre b)) (n0 N)) (nth (n - 1) (g_dts (bt_pre b)) (n0 N)) /\
      bt_next b = nth (n - 1) (a_uends a) (-1)%Z
  end.
Proof.
  intros Ho. induction script as [|a rest IH]; intros size g trs o k Hwf Hsc Hrun Hk.
  - simpl in Hrun. inversion Hrun; subst. simpl in Hk. lia.
  - destruct Hwf as (Hs0 & Hs1 & Hl1 & Hl2). simpl in Hrun.
    destruct (run_passes N c (firstn size (g_riars g)) (firstn size (g_dts g))
                (map (firstn size) (a_passes a)) (repeat (sstate0 T) size)) as [ss|] eqn:Erp.
    2:{ inversion Hrun; subst. simpl in Hk. lia. }
    assert (Hss : length ss = size).
    { eapply (run_passes_length N c pre); eauto; try (rewrite firstn_length; lia).
      - intros p Hp. apply in_map_iff in Hp. destruct Hp as (p0 & <- & Hp0).
        rewrite firstn_length. specialize (Hsc a (or_introl eq_refl) p0 Hp0). lia.
      - apply repeat_length. }
    set (bo := next_block N c size g ss (a_u0s a) (a_uends a)) in *.
    destruct (negb (bo_prefix_ok bo)); [inversion Hrun; subst; simpl in Hk; lia|].
    destruct (bo_active bo =? 0) eqn:Eact; [inversion Hrun; subst; simpl in Hk; lia|].
    destruct (run_blocks N c rest (bo_active bo) (bo_state bo)) as [trs' o'] eqn:Erest.
    inversion Hrun; subst trs o. clear Hrun.
    apply Nat.eqb_neq in Eact.
    pose proof (next_block_wf N c size g ss (a_u0s a) (a_uends a) (conj Hs0 (conj Hs1 (conj Hl1 Hl2)))) as Hwf'.
    cbv zeta in Hwf'. fold bo in Hwf'. destruct Hwf' as (Hw1 & Hw2 & Hw3).
    assert (Hlen' : length (g_riars (bo_state bo)) = length (g_riars g)).
    { unfold bo, next_block. destruct (first_true (map (@s_restart T) ss)); cbv zeta; simpl;
        unfold riar_update; apply riar_fold_length. }
    destruct k as [|k'].
    + (* the first pair: this block and the head of the rest *)
      cbv zeta. simpl nth.
      rewrite (run_blocks_head c rest (bo_active bo) (bo_state bo) trs' o' Erest) by (simpl in Hk; lia).
      simpl bt_pre. simpl bt_post. simpl bt_next.
      assert (Ht0 : nth 0 (g_times (active_part (bo_active bo) (bo_state bo))) (n0 N)
                    = nth 0 (g_times (bo_state bo)) (n0 N)).
      { simpl. apply nth_firstn. lia. }
      rewrite Ht0.
      destruct (first_true (map (@s_restart T) ss)) as [j|] eqn:E.
      * destruct (next_block_restart N c size g ss (a_u0s a) (a_uends a) j E) as (H1 & H2 & H3 & H4 & H5).
        fold bo in H3, H4, H5.
        destruct (first_true_Some _ _ E) as (Hj & _ & _). rewrite map_length in Hj.
        split; [exact H1|]. split; [|exact H4].
        rewrite H5 by lia. simpl. symmetry. apply nth_firstn. lia.
      * destruct (next_block_accept N c size g ss (a_u0s a) (a_uends a) E) as (H1 & H2 & H3 & H4).
        fold bo in H2, H3, H4. rewrite Hss. split; [|exact H3].
        rewrite H4 by lia. simpl. rewrite !nth_firstn by lia. reflexivity.
    + (* later pairs: induction *)
      cbv zeta. simpl nth.
      apply (IH (bo_active bo) (bo_state bo) trs' o' k'); auto.
      * repeat split; auto; lia.
      * rewrite Hlen'. intros a' Ha'. apply Hsc. right; auto.
      * simpl in Hk. lia.
Qed.

End RunSemantics.

Section RunSemantics2.
Variable T : Type.
Variable N : ConvCtrl.num T.

Theorem run_restart_semantics c pre t0 np script trs o k :
  order_ok c pre -> script_ok np script ->
  run N c t0 np script = (trs, o) -> S k < length trs ->
  let b := nth k trs bt0 in
  let b' := nth (S k) trs bt0 in
  let a := nth k script (att0 T) in
  let n := length (bt_post b) in
  match first_true (map (@s_restart T) (bt_post b)) with
  | Some j =>
      (forall i, i < j -> nth i (map (@s_restart T) (bt_post b)) true = false) /\
      nth 0 (g_times (bt_pre b')) (n0 N) = nth j (g_times (bt_pre b)) (n0 N) /\
      bt_next b = nth j (a_u0s a) (-1)%Z
  | None =>
      nth 0 (g_times (bt_pre b')) (n0 N) =
        nadd N (nth (n - 1) (g_times (bt_pre b)) (n0 N)) (nth (n - 1) (g_dts (bt_pre b)) (n0 N)) /\
      bt_next b = nth (n - 1) (a_uends a) (-1)%Z
  end.
Proof.
  intros Ho Hsc Hrun Hk. unfold run in Hrun.
  set (g := init_state N c t0 np) in *.
  set (act := map _ (g_times g)) in *.
  destruct (negb (forallb negb (skipn (true_prefix act) act))); [inversion Hrun; subst; simpl in Hk; lia|].
  destruct (true_prefix act =? 0) eqn:Ek; [inversion Hrun; subst; simpl in Hk; lia|].
  apply Nat.eqb_neq in Ek.
  assert (Hle : true_prefix act <= np).
  { eapply Nat.le_trans; [apply true_prefix_le|]. unfold act. rewrite map_length. unfold g, init_state. simpl.
    rewrite init_times_length. lia. }
  apply (run_blocks_restart_semantics T N c pre script Ho (true_prefix act) g trs o k); auto.
  - apply init_wf; lia.
  - unfold g, init_state. simpl. rewrite repeat_length. exact Hsc.
Qed.

End RunSemantics2.

(* the aliasing between the per-step calls of BasicRestartingNonMPI.prepare_next_block, made visible:
   3 steps with counters 0, 2, 5, steps 1 and 2 restarted.  The calls in turn give 1, 6, 5; updating
   all counters from a snapshot (as the MPI variant does) would give 3, 6, 0. *)
Example counter_aliasing : riar_update 3 [false; true; true] [0; 2; 5] = [1; 6; 5].
Proof. reflexivity. Qed.

(* ================================================================== more facts about the next block *)
Section NextBlockFacts.
Variable T : Type.
Variable N : ConvCtrl.num T.
Variable le : T -> T -> Prop.
Hypothesis lt_le : forall a b, nltb N a b = true -> le a b.
Hypothesis nlt_ge : forall a b, nltb N a b = false -> le b a.

Lemma spread_value_le c size r times d x : le (spread_value T N c size r times d x) d.
Proof.
  unfold spread_value. destruct (c_overwrite c).
  - apply (pmin_le_left T N le lt_le nlt_ge).
  - apply (le_refl_free T N le lt_le nlt_ge).
Qed.

(* whatever the aliasing does: no step of the next block gets more than the proposal that is spread *)
Theorem spread_all_le c size flags dtnews times dts sf r d :
  spread_from N c size flags dtnews = (sf, r) -> nth sf dtnews None = Some d ->
  size <= length dts ->
  forall i, i < size -> le (nth i (spread_update N c size flags dtnews times dts) (n0 N)) d.
Proof.
  intros Hsf Hd. unfold spread_update.
  assert (H : forall m ds0, m <= length ds0 ->
            let res := fold_left (fun ds i => spread_step N c size flags dtnews times i ds) (seq 0 m) ds0 in
            length res = length ds0 /\ forall k, k < m -> le (nth k res (n0 N)) d).
  { induction m as [|m IH]; intros ds0 Hm; cbv zeta.
    - simpl. split; [reflexivity | intros; lia].
    - rewrite seq_S, fold_left_app. simpl fold_left.
      destruct (IH ds0) as (IHl & IHk); [lia|].
      set (res := fold_left _ (seq 0 m) ds0) in *.
      rewrite (spread_step_eq T N c size flags dtnews times m res sf r d Hsf Hd).
      split; [rewrite upd_length; exact IHl|].
      intros k Hk. destruct (Nat.eq_dec k m) as [->|Hne].
      + rewrite nth_upd_same by lia. apply spread_value_le.
      + rewrite nth_upd_other by auto. apply IHk. lia. }
  intros Hl i Hi. destruct (H size dts Hl) as (_ & Hk). apply Hk. exact Hi.
Qed.

(* the steps of the next block are contiguous: time[i] = time[i-1] + dt[i-1] *)
Theorem times_update_contiguous size dts times i :
  size <= length times -> 1 <= i -> i < size ->
  nth i (times_update N size dts times) (n0 N) =
  nadd N (nth (i - 1) (times_update N size dts times) (n0 N)) (nth (i - 1) dts (n0 N)).
Proof.
  intros Hl Hi1 Hi. unfold times_update.
  (* after the calls for 1..m, entries 1..m satisfy the relation and entries > m are untouched *)
  assert (H : forall m, m < size ->
            let res := fold_left (fun ts j => time_step N dts j ts) (seq 1 m) times in
            length res = length times /\
            (forall k, 1 <= k -> k <= m -> nth k res (n0 N) = nadd N (nth (k - 1) res (n0 N)) (nth (k - 1) dts (n0 N)))).
  { induction m as [|m IH]; intros Hm; cbv zeta.
    - simpl. split; [reflexivity | intros; lia].
    - rewrite seq_S, fold_left_app. simpl fold_left. replace (1 + m) with (S m) by lia.
      destruct IH as (IHl & IHk); [lia|].
      set (res := fold_left _ (seq 1 m) times) in *.
      unfold time_step. split; [rewrite upd_length; exact IHl|].
      intros k Hk1 Hk. replace (S m - 1) with m by lia.
      destruct (Nat.eq_dec k (S m)) as [->|Hne].
      + rewrite nth_upd_same by lia. replace (S m - 1) with m by lia.
        rewrite nth_upd_other by lia. reflexivity.
      + rewrite nth_upd_other by auto. rewrite nth_upd_other by lia. apply IHk; lia. }
  destruct (H (size - 1)) as (_ & Hk); [lia|]. apply Hk; lia.
Qed.

End NextBlockFacts.

(* the other counters after a restart from slot j: the step that moves from slot j+k to slot k (k >= 1)
   carries its own counter plus one — only the step that moves to slot 0 loses its history *)
Theorem riar_update_shifted size flags riars j k :
  length flags = size -> size <= length riars ->
  first_true flags = Some j -> 1 <= k -> j + k < size -> nth (j + k) flags false = true ->
  nth k (riar_update size flags riars) 0 = nth (j + k) riars 0 + 1.
Proof.
  intros Hf Hr E Hk Hjk Hfl. unfold riar_update.
  rewrite (seq_split size (j + k)) by lia. rewrite fold_left_app. simpl fold_left.
  rewrite riar_fold_other.
  2:{ intros i Hi. apply in_seq in Hi. unfold widx, rfrom. rewrite E.
      replace (i <? j) with false by (symmetry; apply Nat.ltb_ge; lia). lia. }
  set (rs1 := fold_left _ (seq 0 (j + k)) riars).
  assert (Hlen : length rs1 = length riars) by (unfold rs1; apply riar_fold_length).
  assert (Hold : nth (j + k) rs1 0 = nth (j + k) riars 0).
  { unfold rs1. apply riar_fold_other. intros i Hi. apply in_seq in Hi. unfold widx, rfrom. rewrite E.
    destruct (i <? j) eqn:Ei; [apply Nat.ltb_lt in Ei | apply Nat.ltb_ge in Ei]; lia. }
  unfold riar_step. rewrite E.
  replace (j + k <? j) with false by (symmetry; apply Nat.ltb_ge; lia).
  replace (j + k - j) with k by lia. rewrite Hfl, Hold. apply nth_upd_same. lia.
Qed.

(* ================================================================== avoid_restarts *)
Section AvoidRestartsProofs.
Variable T : Type.
Variable N : ConvCtrl.num T.

(* whatever the contraction-factor estimate says: a step that, at an iteration >= maxiter, comes out of
   determine_restart neither restarted nor told to continue has (e_tol <= err) = false.  This is what the
   `>=` in `S.status.iter >= S.params.maxiter` buys: the rule is re-applied after every extra sweep. *)
Theorem avoid_restarts_accept c avoid iter maxiter more order e rho :
  maxiter <= iter ->
  adapt_decide N c avoid iter maxiter more order e rho false false = (false, false) ->
  nleb N (c_e_tol c) e = false.
Proof.
  intros Hi. unfold adapt_decide.
  replace (maxiter <=? iter) with true by (symmetry; apply Nat.leb_le; exact Hi).
  destruct (nleb N (c_e_tol c) e); [|reflexivity].
  destruct avoid; [|discriminate].
  destruct (nltb N (n1 N) rho); [discriminate|].
  destruct (2 * maxiter <? iter + more); [discriminate|].
  destruct (order <? iter + more); discriminate.
Qed.

(* the step is finished by CheckConvergence only if it was not told to continue *)
Theorem step_done_not_continue iter maxiter force_done fc :
  step_done iter maxiter force_done fc = true -> fc = false.
Proof. unfold step_done. destruct fc; [rewrite andb_false_r; discriminate | reflexivity]. Qed.

(* before maxiter the rule does nothing *)
Theorem adapt_decide_early c avoid iter maxiter more order e rho r fc :
  iter < maxiter -> adapt_decide N c avoid iter maxiter more order e rho r fc = (r, fc).
Proof.
  intros Hi. unfold adapt_decide.
  replace (maxiter <=? iter) with false by (symmetry; apply Nat.leb_gt; exact Hi). reflexivity.
Qed.

End AvoidRestartsProofs.
