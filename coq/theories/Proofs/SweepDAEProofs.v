(* Proofs about Model/SweepDAE.v (DAE-project sweepers).  K is an arbitrary commutative ring; the implicit
   function F = eval_f(u, u', t) is an ARBITRARY function; the solver is an arbitrary function subject
   only to the contract "the value returned for the system the sweeper hands over is a root of it". *)
From Coq Require Import List Arith Bool Lia Ring.
From PySDC Require Import Model.Sweep Model.SweepDAE Proofs.SweepProofs.
Import ListNotations.

Section DAEProofs.
  Context {K : Type} (kO kI : K) (kadd kmul ksub : K -> K -> K) (kopp : K -> K).
  Hypothesis Rth : ring_theory kO kI kadd kmul ksub kopp (@eq K).
  Add Ring KringDAE : Rth.
  Context {X : Type}.
  Notation V := (X -> K).
  Local Infix "+!" := kadd (at level 50, left associativity).
  Local Infix "*!" := kmul (at level 40, left associativity).
  Local Infix "-!" := ksub (at level 50, left associativity).
  Variable M : nat.
  Variable dt t0 : K.
  Variable nodes : nat -> K.
  Variable Q QI : nat -> nat -> K.
  Variable evalF : V -> V -> K -> V.
  Variable solve : (V -> V) -> V -> K -> V -> K -> V.

  Notation tn := (tnode kadd kmul dt t0 nodes).
  Notation sumf := (sumf kO kadd).
  Notation F_ := (dae_F kadd kmul evalF).
  Notation floop := (fi_loop kadd kmul dt t0 nodes QI evalF solve).
  Notation rkloop := (rkdae_loop kadd kmul dt t0 nodes QI evalF solve).
  Notation integ := (dae_integrate kO kadd kmul M dt Q).
  Notation scal := (sumf_scal kO kI kadd kmul ksub kopp Rth).
  Notation snoc := (sumf_snoc kO kI kadd kmul ksub kopp Rth).
  Notation L5 := (sumf_L5 kO kI kadd kmul ksub kopp Rth).
  Notation acc_spec := (accum_spec kO kI kadd kmul ksub kopp Rth).
  Notation accsub_spec := (accum_sub_spec kO kI kadd kmul ksub kopp Rth).

  (* THE SOLVER CONTRACT of the DAE sweepers: P.solve_system(impl_sys, u_approx, factor, guess, t) returns a
     root of the function  impl_sys = du |-> F(u_approx + factor*du, du, t)  it is handed. *)
  Definition dae_solver_contract : Prop :=
    forall a ua g t x, F_ a ua t (solve (F_ a ua t) ua a g t) x = kO.

  (* the u_approx handed to the solver at node m, built from the FINAL derivatives of the nodes before m *)
  Definition dae_uapprox (g : nat -> V) (fn : nat -> V) (m : nat) : V :=
    accum kadd (g m) 1 (m - 1) (fun j => vscale kmul (dt *! QI m j) (fn j)).

  (* law-free characterisation of the node loop of FullyImplicitDAE.update_nodes *)
  Lemma fi_loop_spec g : forall n k f', 1 <= k ->
    let r := floop g (seq k n) f' in
    (forall j, j < k \/ k + n <= j -> r j = f' j) /\
    (forall m, k <= m < k + n ->
       r m = solve (F_ (dt *! QI m m) (dae_uapprox g r m) (tn m)) (dae_uapprox g r m) (dt *! QI m m) (f' m) (tn m)).
  Proof.
    induction n as [|n IH]; intros k f' Hk; cbn [seq SweepDAE.fi_loop].
    - split; [intros; reflexivity | intros m Hm; lia].
    - set (ua := accum kadd (g k) 1 (k - 1) (fun j => vscale kmul (dt *! QI k j) (f' j))).
      set (w := solve (F_ (dt *! QI k k) ua (tn k)) ua (dt *! QI k k) (f' k) (tn k)).
      specialize (IH (S k) (upd f' k w) ltac:(lia)). cbv zeta in IH. destruct IH as [IHf IHn].
      set (r := floop g (seq (S k) n) (upd f' k w)) in *.
      split.
      + intros j Hj. rewrite (IHf j ltac:(lia)). apply upd_other. lia.
      + intros m Hm. destruct (Nat.eq_dec m k) as [->|Hne].
        * rewrite (IHf k ltac:(lia)), upd_same.
          assert (E : dae_uapprox g r k = ua).
          { unfold dae_uapprox, ua. apply (accum_ext kadd). intros j Hj.
            rewrite (IHf j ltac:(lia)), upd_other by lia. reflexivity. }
          rewrite E. reflexivity.
        * rewrite (IHn m ltac:(lia)), upd_other by lia. reflexivity.
  Qed.

  (* "u[m] = u[0] + integrate()[m-1]" loop *)
  Lemma dae_set_nodes_spec (fn : nat -> V) : forall n k (u : nat -> V), 1 <= k ->
    let r := fold_left (fun u' m => upd u' m (vadd kadd (u' 0) (integ fn m))) (seq k n) u in
    (forall j, j < k \/ k + n <= j -> r j = u j) /\
    (forall m, k <= m < k + n -> r m = vadd kadd (u 0) (integ fn m)).
  Proof.
    induction n as [|n IH]; intros k u Hk; cbn [seq fold_left].
    - split; [intros; reflexivity | intros m Hm; lia].
    - set (u1 := upd u k (vadd kadd (u 0) (integ fn k))).
      specialize (IH (S k) u1 ltac:(lia)). cbv zeta in IH. destruct IH as [IHf IHn].
      assert (E0 : u1 0 = u 0) by (unfold u1; apply upd_other; lia).
      split.
      + intros j Hj. rewrite (IHf j ltac:(lia)). unfold u1. apply upd_other. lia.
      + intros m Hm. destruct (Nat.eq_dec m k) as [->|Hne].
        * rewrite (IHf k ltac:(lia)). unfold u1. apply upd_same.
        * rewrite (IHn m ltac:(lia)), E0. reflexivity.
  Qed.

  (* integrate(): dt * Q * U' *)
  Lemma dae_integrate_is_dtQF (f : nat -> V) m x :
    integ f m x = dt *! sumf (fun j => Q m j *! f j x) 1 M.
  Proof.
    unfold dae_integrate. rewrite acc_spec. unfold vzero, vscale.
    rewrite (sumf_ext kO kadd (fun j => dt *! Q m j *! f j x) (fun j => dt *! (Q m j *! f j x)) 1 M) by (intros; ring).
    rewrite scal. ring.
  Qed.

  Lemma fi_gather_spec (u0 : V) (f : nat -> V) m x :
    fi_gather kO kadd kmul ksub M dt Q QI u0 f m x
    = u0 x +! dt *! sumf (fun j => (Q m j -! QI m j) *! f j x) 1 M.
  Proof.
    unfold fi_gather, vadd. rewrite accsub_spec, dae_integrate_is_dtQF. unfold vscale.
    rewrite (sumf_ext kO kadd (fun j => dt *! QI m j *! f j x) (fun j => dt *! (QI m j *! f j x)) 1 M) by (intros; ring).
    rewrite scal, L5. ring.
  Qed.

  Lemma dae_uapprox_spec (g fn : nat -> V) m x :
    dae_uapprox g fn m x = g m x +! dt *! sumf (fun j => QI m j *! fn j x) 1 (m - 1).
  Proof.
    unfold dae_uapprox. rewrite acc_spec. unfold vscale.
    rewrite (sumf_ext kO kadd (fun j => dt *! QI m j *! fn j x) (fun j => dt *! (QI m j *! fn j x)) 1 (m - 1)) by (intros; ring).
    rewrite scal. reflexivity.
  Qed.

  Lemma sumf_last (a : nat -> K) m : 1 <= m -> sumf a 1 m = sumf a 1 (m - 1) +! a m.
  Proof.
    intros Hm. replace m with (S (m - 1)) at 1 by lia. rewrite snoc.
    replace (1 + (m - 1)) with m by lia. reflexivity.
  Qed.

  (* ---------------------------------------------------------------- FullyImplicitDAE.update_nodes
     For every M, dt, Q, QI, node data and ANY implicit function F, under the solver contract:
       (frame)    u[0], f[0] and everything beyond node M are untouched;
       (nodes)    u_m = u0 + dt sum_j Q[m,j] U'new_j                       (as the code computes them)
       (sweep)    F( u0 + dt sum_j (Q-QI)[m,j] U'old_j + dt sum_{j<=m} QI[m,j] U'new_j , U'new_m , t_m ) = 0
     where the first argument is given pointwise (no function extensionality is assumed). *)
  Theorem fi_sweep_form (u f : nat -> V) :
    dae_solver_contract ->
    let r := fi_update kO kadd kmul ksub M dt t0 nodes Q QI evalF solve u f in
    let un := fst r in let fn := snd r in
    (forall j, j = 0 \/ M < j -> un j = u j /\ fn j = f j) /\
    forall m, 1 <= m <= M ->
      (forall x, un m x = u 0 x +! dt *! sumf (fun j => Q m j *! fn j x) 1 M) /\
      exists ua : V,
        (forall x, ua x = u 0 x +! dt *! sumf (fun j => (Q m j -! QI m j) *! f j x) 1 M
                              +! dt *! sumf (fun j => QI m j *! fn j x) 1 m) /\
        forall x, evalF ua (fn m) (tn m) x = kO.
  Proof.
    intros Hc r un fn. unfold fi_update in r.
    set (g := fi_gather kO kadd kmul ksub M dt Q QI (u 0) f) in *.
    assert (Efn : fn = floop g (seq 1 M) f) by reflexivity.
    pose proof (fi_loop_spec g M 1 f (le_n 1)) as S.
    cbv zeta in S. rewrite <- Efn in S. destruct S as [Sf Sn].
    pose proof (dae_set_nodes_spec fn M 1 u (le_n 1)) as T. cbv zeta in T.
    change (fold_left (fun u' m => upd u' m (vadd kadd (u' 0) (integ fn m))) (seq 1 M) u) with un in T.
    destruct T as [Tf Tn].
    split.
    - intros j Hj. split; [apply Tf | apply Sf]; lia.
    - intros m Hm. split.
      + intros x. rewrite (Tn m ltac:(lia)). unfold vadd. rewrite dae_integrate_is_dtQF. reflexivity.
      + exists (vadd kadd (dae_uapprox g fn m) (vscale kmul (dt *! QI m m) (fn m))). split.
        * intros x. unfold vadd, vscale. rewrite dae_uapprox_spec. unfold g. rewrite fi_gather_spec.
          rewrite (sumf_last (fun j => QI m j *! fn j x) m) by lia. ring.
        * intros x. pose proof (Sn m ltac:(lia)) as E.
          pose proof (Hc (dt *! QI m m) (dae_uapprox g fn m) (f m) (tn m) x) as C.
          rewrite <- E in C. exact C.
  Qed.

  (* compute_residual evaluates F at the node's own value, derivative and time; if the problem's F respects
     pointwise equality of its first argument (every function definable without intensional tricks does; no
     funext is assumed) the residual vector after a sweep is F at u_m = u0 + dt sum_j Q[m,j] U'new_j, and it
     VANISHES at every node whose u_approx was built from derivatives the sweep did not change (fixed point)
     provided QI is lower triangular: the sweep's fixed points are exactly roots of the collocation problem. *)
  Definition evalF_ext : Prop :=
    forall (a b du : V) t, (forall x, a x = b x) -> forall x, evalF a du t x = evalF b du t x.

  Theorem fi_fixed_point_residual_zero (u f : nat -> V) :
    dae_solver_contract -> evalF_ext ->
    (forall m j, m < j -> QI m j = kO) ->
    let r := fi_update kO kadd kmul ksub M dt t0 nodes Q QI evalF solve u f in
    (forall j x, 1 <= j <= M -> snd r j x = f j x) ->
    forall m, 1 <= m <= M -> forall x,
      dae_residual_vec kadd kmul dt t0 nodes evalF (fst r) (snd r) m x = kO.
  Proof.
    intros Hc He Hlt r Hfix m Hm x.
    destruct (fi_sweep_form u f Hc) as [_ H]. fold r in H.
    destruct (H m Hm) as [Hu [ua [Hua Hroot]]].
    unfold dae_residual_vec. rewrite (He (fst r m) ua (snd r m) (tn m)); [apply Hroot|].
    intros y. rewrite Hu, Hua.
    rewrite (sumf_ext kO kadd (fun j => (Q m j -! QI m j) *! f j y) (fun j => (Q m j -! QI m j) *! snd r j y) 1 M)
      by (intros j Hj; rewrite Hfix by lia; reflexivity).
    rewrite L5.
    assert (E : sumf (fun j => QI m j *! snd r j y) 1 M = sumf (fun j => QI m j *! snd r j y) 1 m).
    { replace M with (m + (M - m)) at 1 by lia.
      rewrite (sumf_split kO kI kadd kmul ksub kopp Rth).
      rewrite (sumf_ext kO kadd (fun j => QI m j *! snd r j y) (fun _ => kO) (1 + m) (M - m))
        by (intros j Hj; rewrite Hlt by lia; ring).
      rewrite (sumf_zero kO kI kadd kmul ksub kopp Rth). ring. }
    rewrite E. ring.
  Qed.

  (* FullyImplicitDAE.predict: u[0] kept, all derivatives zero, nodes = u0 ('spread') or 0 ('zero') *)
  Theorem fi_predict_form spread (u f : nat -> V) :
    let r := fi_predict kO M spread u f in
    fst r 0 = u 0 /\ snd r 0 = vzero kO /\
    forall m, 1 <= m <= M -> fst r m = (if spread then u 0 else vzero kO) /\ snd r m = vzero kO.
  Proof.
    intros r. unfold fi_predict in r.
    assert (G : forall n k (st : (nat -> V) * (nat -> V)), 1 <= k ->
       let r := fold_left (fun st m => (upd (fst st) m (if spread then fst st 0 else vzero kO), upd (snd st) m (vzero kO)))
                          (seq k n) st in
       (forall j, j < k \/ k + n <= j -> fst r j = fst st j /\ snd r j = snd st j) /\
       (forall m, k <= m < k + n -> fst r m = (if spread then fst st 0 else vzero kO) /\ snd r m = vzero kO)).
    { induction n as [|n IH]; intros k st Hk; cbn [seq fold_left].
      - split; [intros; split; reflexivity | intros m Hm; lia].
      - set (st1 := (upd (fst st) k (if spread then fst st 0 else vzero kO), upd (snd st) k (vzero kO))).
        specialize (IH (S k) st1 ltac:(lia)). cbv zeta in IH. destruct IH as [IHf IHn].
        assert (E0 : fst st1 0 = fst st 0) by (unfold st1; cbn [fst]; apply upd_other; lia).
        split.
        + intros j Hj. destruct (IHf j ltac:(lia)) as [A B]. rewrite A, B. unfold st1. cbn [fst snd].
          rewrite !upd_other by lia. split; reflexivity.
        + intros m Hm. destruct (Nat.eq_dec m k) as [->|Hne].
          * destruct (IHf k ltac:(lia)) as [A B]. rewrite A, B. unfold st1. cbn [fst snd]. rewrite !upd_same.
            split; reflexivity.
          * destruct (IHn m ltac:(lia)) as [A B]. rewrite A, B, E0. split; reflexivity. }
    destruct (G M 1 (u, upd f 0 (vzero kO)) (le_n 1)) as [Gf Gn]. fold r in Gf, Gn. cbn [fst snd] in Gf, Gn.
    destruct (Gf 0 ltac:(lia)) as [A B]. rewrite upd_same in B.
    split; [exact A|]. split; [exact B|]. intros m Hm. apply Gn. lia.
  Qed.

  (* FullyImplicitDAE.compute_end_point: defined exactly when right_is_node and not do_coll_update, and then a copy of
     the last node (never the quadrature branch of generic_implicit) *)
  Theorem dae_end_point_form weights rin dcu (u f : nat -> V) tau :
    dae_end_point kO kadd kmul M dt weights rin dcu u f tau
    = if rin && negb dcu then Some (u M) else None.
  Proof.
    unfold dae_end_point, end_point. destruct rin, dcu; reflexivity.
  Qed.

  (* ---------------------------------------------------------------- RungeKuttaDAE.update_nodes *)
  Definition rk_uapprox (u0 : V) (fn : nat -> V) (m : nat) : V :=
    accum kadd u0 1 (m - 1) (fun j => vscale kmul (dt *! QI m j) (fn j)).

  Lemma rkdae_loop_spec (u0 : V) : forall n k f', 1 <= k ->
    let r := rkloop u0 (seq k n) f' in
    (forall j, j < k \/ k + n <= j -> r j = f' j) /\
    (forall m, k <= m < k + n -> exists guess,
       r m = solve (F_ (dt *! QI m m) (rk_uapprox u0 r m) (tn m)) (rk_uapprox u0 r m) (dt *! QI m m) guess (tn m)).
  Proof.
    induction n as [|n IH]; intros k f' Hk; cbn [seq SweepDAE.rkdae_loop].
    - split; [intros; reflexivity | intros m Hm; lia].
    - set (ua := accum kadd u0 1 (k - 1) (fun j => vscale kmul (dt *! QI k j) (f' j))).
      set (w := solve (F_ (dt *! QI k k) ua (tn k)) ua (dt *! QI k k) (f' (k - 1)) (tn k)).
      specialize (IH (S k) (upd f' k w) ltac:(lia)). cbv zeta in IH. destruct IH as [IHf IHn].
      set (r := rkloop u0 (seq (S k) n) (upd f' k w)) in *.
      split.
      + intros j Hj. rewrite (IHf j ltac:(lia)). apply upd_other. lia.
      + intros m Hm. destruct (Nat.eq_dec m k) as [->|Hne].
        * exists (f' (k - 1)). rewrite (IHf k ltac:(lia)), upd_same.
          assert (E : rk_uapprox u0 r k = ua).
          { unfold rk_uapprox, ua. apply (accum_ext kadd). intros j Hj.
            rewrite (IHf j ltac:(lia)), upd_other by lia. reflexivity. }
          rewrite E. reflexivity.
        * apply IHn. lia.
  Qed.

  (* stage form of a DIRK method applied to F(u, u', t) = 0, for every number of stages, Butcher matrix A = QI (padded),
     Q (= A in the shipped classes), data, F:
        F( u0 + dt sum_{j<=m} A[m,j] K_j , K_m , t_m ) = 0 ,    u_m = u0 + dt sum_j Q[m,j] K_j *)
  Theorem rkdae_stage_form (u f : nat -> V) :
    dae_solver_contract ->
    let r := rkdae_update kO kadd kmul M dt t0 nodes Q QI evalF solve u f in
    let un := fst r in let kn := snd r in
    (forall j, j = 0 \/ M < j -> un j = u j /\ kn j = f j) /\
    forall m, 1 <= m <= M ->
      (forall x, un m x = u 0 x +! dt *! sumf (fun j => Q m j *! kn j x) 1 M) /\
      exists ua : V,
        (forall x, ua x = u 0 x +! dt *! sumf (fun j => QI m j *! kn j x) 1 m) /\
        forall x, evalF ua (kn m) (tn m) x = kO.
  Proof.
    intros Hc r un kn. unfold rkdae_update in r.
    assert (Ekn : kn = rkloop (u 0) (seq 1 M) f) by reflexivity.
    pose proof (rkdae_loop_spec (u 0) M 1 f (le_n 1)) as S. cbv zeta in S. rewrite <- Ekn in S. destruct S as [Sf Sn].
    pose proof (dae_set_nodes_spec kn M 1 u (le_n 1)) as T. cbv zeta in T.
    change (fold_left (fun u' m => upd u' m (vadd kadd (u' 0) (integ kn m))) (seq 1 M) u) with un in T.
    destruct T as [Tf Tn].
    split.
    - intros j Hj. split; [apply Tf | apply Sf]; lia.
    - intros m Hm. split.
      + intros x. rewrite (Tn m ltac:(lia)). unfold vadd. rewrite dae_integrate_is_dtQF. reflexivity.
      + exists (vadd kadd (rk_uapprox (u 0) kn m) (vscale kmul (dt *! QI m m) (kn m))). split.
        * intros x. unfold vadd, vscale, rk_uapprox. rewrite acc_spec. unfold vscale.
          rewrite (sumf_ext kO kadd (fun j => dt *! QI m j *! kn j x) (fun j => dt *! (QI m j *! kn j x)) 1 (m - 1)) by (intros; ring).
          rewrite scal. rewrite (sumf_last (fun j => QI m j *! kn j x) m) by lia. ring.
        * intros x. destruct (Sn m ltac:(lia)) as [guess E].
          pose proof (Hc (dt *! QI m m) (rk_uapprox (u 0) kn m) guess (tn m) x) as C.
          rewrite <- E in C. exact C.
  Qed.
End DAEProofs.

(* ================================================================ SemiImplicitDAE *)
Section SemiProofs.
  Context {K : Type} (kO kI : K) (kadd kmul ksub : K -> K -> K) (kopp : K -> K).
  Hypothesis Rth : ring_theory kO kI kadd kmul ksub kopp (@eq K).
  Add Ring KringSI : Rth.
  Context {X Y : Type}.
  Notation mesh := ((X -> K) * (Y -> K))%type.
  Local Infix "+!" := kadd (at level 50, left associativity).
  Local Infix "*!" := kmul (at level 40, left associativity).
  Local Infix "-!" := ksub (at level 50, left associativity).
  Variable M : nat.
  Variable dt t0 : K.
  Variable nodes : nat -> K.
  Variable Q QI : nat -> nat -> K.
  Variable evalF : mesh -> mesh -> K -> mesh.
  Variable solve : (mesh -> mesh) -> mesh -> K -> mesh -> K -> mesh.

  Notation tn := (tnode kadd kmul dt t0 nodes).
  Notation sumf := (sumf kO kadd).
  Notation SF := (si_F kadd kmul evalF).
  Notation sloop := (si_loop kadd kmul dt t0 nodes QI evalF solve).
  Notation sinteg := (si_integrate kO kadd kmul M dt Q).
  Notation scal := (sumf_scal kO kI kadd kmul ksub kopp Rth).
  Notation acc_spec := (accum_spec kO kI kadd kmul ksub kopp Rth).
  Notation accsub_spec := (accum_sub_spec kO kI kadd kmul ksub kopp Rth).

  (* solver contract: both components of the system handed over vanish at the returned (U', z) *)
  Definition si_solver_contract : Prop :=
    forall a ua g t,
      (forall x, fst (SF a ua t (solve (SF a ua t) ua a g t)) x = kO) /\
      (forall y, snd (SF a ua t (solve (SF a ua t) ua a g t)) y = kO).

  Definition si_uapprox (g : nat -> mesh) (fn : nat -> mesh) (m : nat) : mesh :=
    (accum kadd (fst (g m)) 1 (m - 1) (fun j => vscale kmul (dt *! QI m j) (fst (fn j))), snd (g m)).

  Lemma si_loop_spec g : forall n k (u' f' : nat -> mesh), 1 <= k ->
    let r := sloop g (seq k n) (u', f') in
    (forall j, j < k \/ k + n <= j -> fst r j = u' j /\ snd r j = f' j) /\
    (forall m, k <= m < k + n ->
       let ua := si_uapprox g (snd r) m in
       let w := solve (SF (dt *! QI m m) ua (tn m)) ua (dt *! QI m m) (fst (f' m), snd (u' m)) (tn m) in
       fst r m = (fst (u' m), snd w) /\ snd r m = (fst w, snd (f' m))).
  Proof.
    induction n as [|n IH]; intros k u' f' Hk; cbn [seq SweepDAE.si_loop].
    - cbn [fst snd]. split; [intros; split; reflexivity | intros m Hm; lia].
    - set (ua := (accum kadd (fst (g k)) 1 (k - 1) (fun j => vscale kmul (dt *! QI k j) (fst (f' j))), snd (g k))).
      set (w := solve (SF (dt *! QI k k) ua (tn k)) ua (dt *! QI k k) (fst (f' k), snd (u' k)) (tn k)).
      specialize (IH (S k) (upd u' k (fst (u' k), snd w)) (upd f' k (fst w, snd (f' k))) ltac:(lia)).
      cbv zeta in IH. destruct IH as [IHf IHn].
      set (r := sloop g (seq (S k) n) (upd u' k (fst (u' k), snd w), upd f' k (fst w, snd (f' k)))) in *.
      split.
      + intros j Hj. destruct (IHf j ltac:(lia)) as [A B]. rewrite A, B, !upd_other by lia. split; reflexivity.
      + intros m Hm. destruct (Nat.eq_dec m k) as [->|Hne].
        * destruct (IHf k ltac:(lia)) as [A B]. rewrite A, B, !upd_same.
          assert (E : si_uapprox g (snd r) k = ua).
          { unfold si_uapprox, ua. f_equal. apply (accum_ext kadd). intros j Hj.
            destruct (IHf j ltac:(lia)) as [_ B']. rewrite B', upd_other by lia. reflexivity. }
          cbv zeta. rewrite E. split; reflexivity.
        * pose proof (IHn m ltac:(lia)) as H. cbv zeta in H. rewrite !upd_other in H by lia. exact H.
  Qed.

  Lemma si_set_nodes_spec (fn : nat -> mesh) : forall n k (u : nat -> mesh), 1 <= k ->
    let r := fold_left (fun u' m => upd u' m (vadd kadd (fst (u' 0)) (fst (sinteg fn m)), snd (u' m))) (seq k n) u in
    (forall j, j < k \/ k + n <= j -> r j = u j) /\
    (forall m, k <= m < k + n -> r m = (vadd kadd (fst (u 0)) (fst (sinteg fn m)), snd (u m))).
  Proof.
    induction n as [|n IH]; intros k u Hk; cbn [seq fold_left].
    - split; [intros; reflexivity | intros m Hm; lia].
    - set (u1 := upd u k (vadd kadd (fst (u 0)) (fst (sinteg fn k)), snd (u k))).
      specialize (IH (S k) u1 ltac:(lia)). cbv zeta in IH. destruct IH as [IHf IHn].
      assert (E0 : u1 0 = u 0) by (unfold u1; apply upd_other; lia).
      split.
      + intros j Hj. rewrite (IHf j ltac:(lia)). unfold u1. apply upd_other. lia.
      + intros m Hm. destruct (Nat.eq_dec m k) as [->|Hne].
        * rewrite (IHf k ltac:(lia)). unfold u1. apply upd_same.
        * rewrite (IHn m ltac:(lia)), E0. unfold u1. rewrite upd_other by lia. reflexivity.
  Qed.

  (* SemiImplicitDAE.integrate: differential part dt*Q*U'.diff, algebraic part 0 *)
  Lemma si_integrate_form (f : nat -> mesh) m :
    (forall x, fst (sinteg f m) x = dt *! sumf (fun j => Q m j *! fst (f j) x) 1 M) /\
    (forall y, snd (sinteg f m) y = kO).
  Proof.
    unfold si_integrate. cbn [fst snd]. split; [|reflexivity].
    intros x. rewrite acc_spec. unfold vzero, vscale.
    rewrite (sumf_ext kO kadd (fun j => dt *! Q m j *! fst (f j) x) (fun j => dt *! (Q m j *! fst (f j) x)) 1 M) by (intros; ring).
    rewrite scal. ring.
  Qed.

  (* ---------------------------------------------------------------- SemiImplicitDAE.update_nodes
     (frame)   node 0 and everything beyond M untouched; the algebraic part of level.f and (until the final
               node update) the differential part of level.u are never written;
     (nodes)   u_m.diff = u0.diff + dt sum_j Q[m,j] U'new_j.diff ;   u_m.alg = z_m (solver output)
     (sweep)   F( (u0.diff + dt sum_j Q[m,j] U'old_j.diff - dt sum_{j<=m} QI[m,j] U'old_j.diff
                          + dt sum_{j<=m} QI[m,j] U'new_j.diff ,  z_m) , (U'new_m.diff, z_m) , t_m ) = 0
     Note the code subtracts QI[m,j] only for j <= m (fullyImplicitDAE: j <= M); see si_sweep_form_lower. *)
  Theorem si_sweep_form (u f : nat -> mesh) :
    si_solver_contract ->
    let r := si_update kO kadd kmul ksub M dt t0 nodes Q QI evalF solve u f in
    let un := fst r in let fn := snd r in
    (forall j, j = 0 \/ M < j -> un j = u j /\ fn j = f j) /\
    forall m, 1 <= m <= M ->
      snd (fn m) = snd (f m) /\
      (forall x, fst (un m) x = fst (u 0) x +! dt *! sumf (fun j => Q m j *! fst (fn j) x) 1 M) /\
      exists ud : X -> K,
        (forall x, ud x = fst (u 0) x +! dt *! sumf (fun j => Q m j *! fst (f j) x) 1 M
                              -! dt *! sumf (fun j => QI m j *! fst (f j) x) 1 m
                              +! dt *! sumf (fun j => QI m j *! fst (fn j) x) 1 m) /\
        (forall x, fst (evalF (ud, snd (un m)) (fst (fn m), snd (un m)) (tn m)) x = kO) /\
        (forall y, snd (evalF (ud, snd (un m)) (fst (fn m), snd (un m)) (tn m)) y = kO).
  Proof.
    intros Hc r un fn. unfold si_update in r.
    set (g := si_gather kO kadd kmul ksub M dt Q QI (u 0) f) in *.
    pose proof (si_loop_spec g M 1 u f (le_n 1)) as S. cbv zeta in S.
    destruct (sloop g (seq 1 M) (u, f)) as [u1 f1] eqn:EL. cbn [fst snd] in S.
    destruct S as [Sf Sn].
    assert (Efn : fn = f1) by reflexivity.
    pose proof (si_set_nodes_spec f1 M 1 u1 (le_n 1)) as T. cbv zeta in T.
    change (fold_left (fun u' m => upd u' m (vadd kadd (fst (u' 0)) (fst (sinteg f1 m)), snd (u' m))) (seq 1 M) u1) with un in T.
    destruct T as [Tf Tn].
    assert (E10 : u1 0 = u 0) by (apply Sf; lia).
    split.
    - intros j Hj. destruct (Sf j ltac:(lia)) as [A B]. rewrite Efn, B. split; [|reflexivity].
      rewrite (Tf j ltac:(lia)). exact A.
    - intros m Hm. destruct (Sn m ltac:(lia)) as [A B].
      set (ua := si_uapprox g f1 m) in *.
      set (w := solve (SF (dt *! QI m m) ua (tn m)) ua (dt *! QI m m) (fst (f m), snd (u m)) (tn m)) in *.
      assert (Eun : un m = (vadd kadd (fst (u 0)) (fst (sinteg f1 m)), snd w)).
      { rewrite (Tn m ltac:(lia)), E10, A. reflexivity. }
      rewrite Efn, B, Eun. cbn [fst snd]. split; [reflexivity|]. split.
      + intros x. unfold vadd. destruct (si_integrate_form f1 m) as [I _]. rewrite I.
        apply f_equal. apply f_equal. apply (sumf_ext kO kadd). intros j Hj. reflexivity.
      + exists (vadd kadd (fst ua) (vscale kmul (dt *! QI m m) (fst w))). split.
        * intros x. unfold vadd, vscale, ua, si_uapprox. cbn [fst snd]. rewrite acc_spec. unfold vscale.
          unfold g, si_gather. cbn [fst snd]. unfold vadd. rewrite accsub_spec. unfold vscale.
          destruct (si_integrate_form f m) as [I _]. rewrite I.
          rewrite (sumf_ext kO kadd (fun j => dt *! QI m j *! fst (f j) x) (fun j => dt *! (QI m j *! fst (f j) x)) 1 m) by (intros; ring).
          rewrite (sumf_ext kO kadd (fun j => dt *! QI m j *! fst (f1 j) x) (fun j => dt *! (QI m j *! fst (f1 j) x)) 1 (m - 1)) by (intros; ring).
          rewrite !scal.
          assert (El : sumf (fun j => QI m j *! fst (f1 j) x) 1 m
                       = sumf (fun j => QI m j *! fst (f1 j) x) 1 (m - 1) +! QI m m *! fst (f1 m) x).
          { replace m with (S (m - 1)) at 1 by lia. rewrite (sumf_snoc kO kI kadd kmul ksub kopp Rth).
            replace (1 + (m - 1)) with m by lia. reflexivity. }
          rewrite El, B. cbn [fst]. ring.
        * destruct (Hc (dt *! QI m m) ua (fst (f m), snd (u m)) (tn m)) as [C1 C2]. fold w in C1, C2.
          unfold si_F in C1, C2.
          assert (Ew : (fst w, snd w) = w) by (symmetry; apply surjective_pairing).
          rewrite Ew. split; assumption.
  Qed.

  (* with a lower triangular QI (what get_Qdelta_implicit asserts) the known part is u0 + dt (Q - QI) U'old *)
  Corollary si_sweep_form_lower (u f : nat -> mesh) :
    si_solver_contract ->
    (forall m j, m < j -> QI m j = kO) ->
    let r := si_update kO kadd kmul ksub M dt t0 nodes Q QI evalF solve u f in
    let un := fst r in let fn := snd r in
    forall m, 1 <= m <= M ->
      exists ud : X -> K,
        (forall x, ud x = fst (u 0) x +! dt *! sumf (fun j => (Q m j -! QI m j) *! fst (f j) x) 1 M
                              +! dt *! sumf (fun j => QI m j *! fst (fn j) x) 1 m) /\
        (forall x, fst (evalF (ud, snd (un m)) (fst (fn m), snd (un m)) (tn m)) x = kO) /\
        (forall y, snd (evalF (ud, snd (un m)) (fst (fn m), snd (un m)) (tn m)) y = kO).
  Proof.
    intros Hc Hlt r un fn m Hm.
    destruct (si_sweep_form u f Hc) as [_ H]. fold r in H. cbv zeta in H. fold un fn in H.
    destruct (H m Hm) as [_ [_ [ud [Hud Hroot]]]].
    exists ud. split; [|exact Hroot].
    intros x. rewrite Hud. rewrite (sumf_L5 kO kI kadd kmul ksub kopp Rth).
    assert (E : sumf (fun j => QI m j *! fst (f j) x) 1 M = sumf (fun j => QI m j *! fst (f j) x) 1 m).
    { replace M with (m + (M - m)) at 1 by lia.
      rewrite (sumf_split kO kI kadd kmul ksub kopp Rth).
      rewrite (sumf_ext kO kadd (fun j => QI m j *! fst (f j) x) (fun _ => kO) (1 + m) (M - m))
        by (intros j Hj; rewrite Hlt by lia; ring).
      rewrite (sumf_zero kO kI kadd kmul ksub kopp Rth). ring. }
    rewrite E. ring.
  Qed.

  (* compute_residual after the sweep (inherited code: F at (u_m, level.f[m], t_m), whose algebraic part of level.f is
     never written by this sweeper).  For problems of semi-explicit form — F does not look at the algebraic part of its
     derivative argument and respects pointwise equality (no funext assumed) — the residual vanishes at a fixed point of
     the sweep (differential derivatives unchanged) when QI is lower triangular. *)
  Definition si_evalF_semi_explicit : Prop :=
    forall (a b da db : mesh) t,
      (forall x, fst a x = fst b x) -> (forall y, snd a y = snd b y) -> (forall x, fst da x = fst db x) ->
      (forall x, fst (evalF a da t) x = fst (evalF b db t) x) /\ (forall y, snd (evalF a da t) y = snd (evalF b db t) y).

  Theorem si_fixed_point_residual_zero (u f : nat -> mesh) :
    si_solver_contract -> si_evalF_semi_explicit ->
    (forall m j, m < j -> QI m j = kO) ->
    let r := si_update kO kadd kmul ksub M dt t0 nodes Q QI evalF solve u f in
    (forall j x, 1 <= j <= M -> fst (snd r j) x = fst (f j) x) ->
    forall m, 1 <= m <= M ->
      (forall x, fst (si_residual_vec kadd kmul dt t0 nodes evalF (fst r) (snd r) m) x = kO) /\
      (forall y, snd (si_residual_vec kadd kmul dt t0 nodes evalF (fst r) (snd r) m) y = kO).
  Proof.
    intros Hc He Hlt r Hfix m Hm.
    destruct (si_sweep_form u f Hc) as [_ H]. fold r in H. cbv zeta in H.
    destruct (H m Hm) as [_ [Hu _]].
    destruct (si_sweep_form_lower u f Hc Hlt m Hm) as [ud [Hud [R1 R2]]]. fold r in Hud, R1, R2.
    unfold si_residual_vec.
    assert (Eud : forall x, fst (fst r m) x = ud x).
    { intros x. rewrite Hu, Hud.
      rewrite (sumf_ext kO kadd (fun j => (Q m j -! QI m j) *! fst (f j) x) (fun j => (Q m j -! QI m j) *! fst (snd r j) x) 1 M)
        by (intros j Hj; rewrite Hfix by lia; reflexivity).
      rewrite (sumf_L5 kO kI kadd kmul ksub kopp Rth).
      assert (E : sumf (fun j => QI m j *! fst (snd r j) x) 1 M = sumf (fun j => QI m j *! fst (snd r j) x) 1 m).
      { replace M with (m + (M - m)) at 1 by lia.
        rewrite (sumf_split kO kI kadd kmul ksub kopp Rth).
        rewrite (sumf_ext kO kadd (fun j => QI m j *! fst (snd r j) x) (fun _ => kO) (1 + m) (M - m))
          by (intros j Hj; rewrite Hlt by lia; ring).
        rewrite (sumf_zero kO kI kadd kmul ksub kopp Rth). ring. }
      rewrite E. ring. }
    destruct (He (fst r m) (ud, snd (fst r m)) (snd r m) (fst (snd r m), snd (fst r m)) (tn m)) as [E1 E2];
      [exact Eud | reflexivity | reflexivity |].
    split; [intros x; rewrite E1; apply R1 | intros y; rewrite E2; apply R2].
  Qed.
End SemiProofs.

(* ================================================================ non-vacuity
   The hypotheses are satisfiable: Qc is a commutative ring (Qcrt) and there are problems + solvers meeting the
   contracts for EVERY factor / u_approx / guess / time:
     fully implicit:  F(u, u', t) = u' - t            (u' = t),        solver returns the constant t;
     semi-implicit:   F((u, z), (u', z), t) = (u' - z, z - t)  (u' = z, 0 = z - t), solver returns (t, t).
   (The dense linear DAEs of the correspondence harness satisfy the contract wherever their Jacobian
   factor*A + B is nonsingular — checked per case by the oracle, not claimed for all factors.) *)
From Coq Require Import QArith Qcanon.
Local Open Scope Qc_scope.

Example dae_solver_contract_instance :
  dae_solver_contract (X := unit) (Q2Qc 0) Qcplus Qcmult (fun _ du t x => du x - t) (fun _ _ _ _ t _ => t).
Proof. unfold dae_solver_contract, dae_F. intros. ring. Qed.

Example si_solver_contract_instance :
  si_solver_contract (X := unit) (Y := unit) (Q2Qc 0) Qcplus Qcmult
    (fun u du t => (fun x => fst du x - snd u x, fun y => snd u y - t))
    (fun _ _ _ _ t => (fun _ => t, fun _ => t)).
Proof. unfold si_solver_contract, si_F. intros. cbn [fst snd]. split; intros; ring. Qed.

Example si_evalF_semi_explicit_instance :
  si_evalF_semi_explicit (X := unit) (Y := unit) (K := Qc)
    (fun u du t => (fun x => fst du x - snd u x, fun y => snd u y - t)).
Proof.
  unfold si_evalF_semi_explicit. intros a b da db t Ha Hb Hd. cbn [fst snd].
  split; intros z; [rewrite (Hd z), (Hb z) | rewrite (Hb z)]; reflexivity.
Qed.

Example dae_evalF_ext_instance : evalF_ext (X := unit) (K := Qc) (fun _ du t x => du x - t).
Proof. unfold evalF_ext. intros. reflexivity. Qed.
