(* One iteration of the controller's own schedule (any number of steps and levels, any sweep counts, Jacobi or Gauss-Seidel) returns
   a block of chained collocation solutions unchanged — block_fixed_point_any_schedule + the schedule stays in bounds + it keeps every
   entry valid. *)
From Coq Require Import List Arith Bool Lia Ring.
From PySDC Require Import Model.Sweep Model.Transfer Model.MultiLevel Model.Block
     Proofs.SweepProofs Proofs.MultiLevelProofs Proofs.BlockProofs.
Import ListNotations.

Section ControllerIteration.
  Context {K : Type} (kO kI : K) (kadd kmul ksub : K -> K -> K) (kopp : K -> K) (keqb : K -> K -> bool).
  Hypothesis Rth : ring_theory kO kI kadd kmul ksub kopp (@eq K).
  Hypothesis keqb_true : forall a b, keqb a b = true -> a = b.
  Context {X : Type}.
  Variable imex : bool.
  Variable lev : nat -> @level K X.
  Variable xf : nat -> @xfer K X.
  Variable tstart : nat -> K.
  Variable lend : nat -> @endp K.
  Variable P L : nat.
  Hypothesis HL : 0 < L.
  Hypothesis Hlev : forall l, l < L -> level_ok kO kmul ksub keqb imex (lev l) /\ 1 <= lM (lev l).
  Hypothesis Hxf : forall l, S l < L ->
    xfer_ok kO kI kadd ksub (xf l) (lev l) (lev (S l)) /\
    (forall m, 1 <= m <= lM (lev l) -> xRcoll (xf l) (lM (lev (S l))) m = if Nat.eqb m (lM (lev l)) then kI else kO).
  Hypothesis Hcopy : 1 < L -> forall l, l < L -> erin (lend l) && negb (edcu (lend l)) = true.
  Variable R0 : nat -> @lvst K X.
  Hypothesis H0 : forall p, p < P ->
    holds_solution kO kadd kmul ksub (tstart p) imex (lev 0) (stau (R0 p)) (su (R0 p), sf (R0 p)).
  Hypothesis Hchain : forall p, 0 < p < P -> forall x, su (R0 p) 0 x = end_value kO kadd kmul imex lev lend 0 (R0 (p - 1)) x.

  Theorem controller_iteration_fixed_point nsw jacobi :
    let B := run_ops kO kadd kmul ksub keqb imex lev xf tstart lend (pfasst_iteration P L nsw jacobi) (init_block kO P R0) in
    forall p, p < P ->
      svalid (B p 0) = true /\
      same (lev 0) (su (B p 0), sf (B p 0)) (su (R0 p), sf (R0 p)).
  Proof.
    intros B p Hp.
    assert (Hv : svalid (B p 0) = true).
    { unfold B.
      pose proof (flags_run_ops kO kadd kmul ksub keqb imex lev xf tstart lend (pfasst_iteration P L nsw jacobi) (init_block kO P R0)
                    (fun p l => match l with 0 => Nat.ltb p P | S _ => false end, fun _ _ => false)) as HF.
      destruct (HF ltac:(intros q [|l]; split; reflexivity) p 0) as [Hfl _]. rewrite Hfl.
      apply (pfasst_iteration_valid P L nsw jacobi); [|exact Hp|lia].
      intros q l Hq Hl. assert (l = 0) by lia. subst l. cbn [fst]. apply Nat.ltb_lt. exact Hq. }
    split; [exact Hv|].
    exact (block_fixed_point_any_schedule kO kI kadd kmul ksub kopp keqb Rth keqb_true imex lev xf tstart lend P L Hlev Hxf Hcopy R0 H0 Hchain
             (pfasst_iteration P L nsw jacobi) (pfasst_iteration_in_bounds L P nsw jacobi) p Hp HL Hv).
  Qed.

  (* the whole run of a block: predictor followed by ANY number of iterations *)
  Lemma in_bounds_repeat n ops : Forall (op_in_bounds L) ops -> Forall (op_in_bounds L) (repeat_ops n ops).
  Proof. intros H. induction n as [|n IH]; cbn [repeat_ops]; [constructor | apply Forall_app; split; assumption]. Qed.

  Theorem controller_run_fixed_point pt n nsw jacobi :
    let ops := predict_ops P L pt ++ repeat_ops n (pfasst_iteration P L nsw jacobi) in
    let B := run_ops kO kadd kmul ksub keqb imex lev xf tstart lend ops (init_block kO P R0) in
    forall p, p < P ->
      svalid (B p 0) = true /\
      same (lev 0) (su (B p 0), sf (B p 0)) (su (R0 p), sf (R0 p)).
  Proof.
    intros ops B p Hp.
    assert (Hb : Forall (op_in_bounds L) ops).
    { apply Forall_app; split; [apply predict_ops_in_bounds | apply in_bounds_repeat, pfasst_iteration_in_bounds]. }
    assert (Hv : svalid (B p 0) = true).
    { unfold B.
      pose proof (flags_run_ops kO kadd kmul ksub keqb imex lev xf tstart lend ops (init_block kO P R0)
                    (fun p l => match l with 0 => Nat.ltb p P | S _ => false end, fun _ _ => false)) as HF.
      destruct (HF ltac:(intros q [|l]; split; reflexivity) p 0) as [Hfl _]. rewrite Hfl.
      unfold ops. rewrite fold_left_app.
      apply (iterations_valid P L nsw jacobi n); [|exact Hp|lia].
      apply (predict_ops_valid P L pt).
      intros q l Hq Hl. assert (l = 0) by lia. subst l. cbn [fst]. apply Nat.ltb_lt. exact Hq. }
    split; [exact Hv|].
    exact (block_fixed_point_any_schedule kO kI kadd kmul ksub kopp keqb Rth keqb_true imex lev xf tstart lend P L Hlev Hxf Hcopy R0 H0 Hchain
             ops Hb p Hp HL Hv).
  Qed.
End ControllerIteration.
