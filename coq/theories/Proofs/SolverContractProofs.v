(* C12 — soundness of the solver-contract certificate checkers (Model/SolverContract.v). *)
From Coq Require Import ZArith QArith Qabs List Bool Lia Lqa.
From PySDC Require Import Base.Dyadic Model.SolverContract.
Import ListNotations.

Local Open Scope Q_scope.

(* ------------------------------------------------------------------ basics *)

Lemma D2Q_row_dot r u : D2Q (row_dot r u) == Qrow_dot r u.
Proof.
  induction r as [|[j a] r IH]; cbn [row_dot Qrow_dot].
  - reflexivity.
  - rewrite D2Q_add, D2Q_mul, IH. reflexivity.
Qed.

Lemma Qmult_le_l_weak a x y : 0 <= a -> x <= y -> a * x <= a * y.
Proof. intros Ha H. rewrite (Qmult_comm a x), (Qmult_comm a y). apply Qmult_le_compat_r; assumption. Qed.

Lemma dleb_abs_spec x tol : dleb (dabs x) tol = true -> Qabs (D2Q x) <= D2Q tol.
Proof. intros H. apply dleb_spec in H. rewrite D2Q_abs in H. exact H. Qed.

Lemma all_le_masked_length l mask tol : all_le_masked l mask tol = true -> length mask = length l.
Proof.
  revert mask. induction l as [|x l IH]; intros [|m mask] H; cbn in *; try discriminate; auto.
  apply andb_true_iff in H. destruct H as [_ H]. f_equal. apply IH. exact H.
Qed.

Lemma all_le_masked_spec l mask tol : all_le_masked l mask tol = true ->
  forall i, (i < length l)%nat -> nth i mask false = true -> Qabs (D2Q (nth i l d0)) <= D2Q tol.
Proof.
  revert mask. induction l as [|x l IH]; intros [|m mask] H i Hi Hm; cbn in *; try discriminate; try lia.
  apply andb_true_iff in H. destruct H as [H1 H2].
  destruct i as [|i].
  - subst m. cbn in H1. apply dleb_abs_spec. exact H1.
  - apply (IH mask H2). lia. exact Hm.
Qed.

Lemma all_le_spec l tol : all_le l tol = true ->
  forall i, (i < length l)%nat -> Qabs (D2Q (nth i l d0)) <= D2Q tol.
Proof.
  induction l as [|x l IH]; intros H i Hi; cbn in *; try lia.
  apply andb_true_iff in H. destruct H as [H1 H2].
  destruct i as [|i].
  - apply dleb_abs_spec. exact H1.
  - apply IH. exact H2. lia.
Qed.

(* ------------------------------------------------------------------ solve certificate *)

Lemma solve_resid_length factor uall A us rhs :
  length us = length A -> length rhs = length A ->
  length (solve_resid factor uall A us rhs) = length A.
Proof.
  revert us rhs. induction A as [|r A IH]; intros [|ui us] [|bi rhs] H1 H2; cbn in *; try discriminate; auto.
Qed.

Lemma nth_solve_resid factor uall A us rhs i :
  length us = length A -> length rhs = length A -> (i < length A)%nat ->
  nth i (solve_resid factor uall A us rhs) d0 =
  dsub (dsub (nth i us d0) (dmul factor (row_dot (nth i A []) uall))) (nth i rhs d0).
Proof.
  revert us rhs i. induction A as [|r A IH]; intros [|ui us] [|bi rhs] i H1 H2 Hi; cbn in *; try discriminate; try lia.
  destruct i as [|i].
  - reflexivity.
  - apply IH; lia.
Qed.

Lemma D2Q_solve_resid_row factor ui bi r uall :
  D2Q (dsub (dsub ui (dmul factor (row_dot r uall))) bi)
  == D2Q ui - D2Q factor * Qrow_dot r uall - D2Q bi.
Proof. rewrite !D2Q_sub, D2Q_mul, D2Q_row_dot. reflexivity. Qed.

Lemma eqb_len a b : Nat.eqb a b = true -> a = b.
Proof. apply Nat.eqb_eq. Qed.

(* MAIN: an accepted certificate implies the contract for every unmasked row, over Q *)
Theorem check_solve_cert_sound A factor rhs u mask atol rtol :
  check_solve_cert A factor rhs u mask atol rtol = true ->
  contract_holds A factor rhs u mask (D2Q (cert_tol A factor rhs u atol rtol)).
Proof.
  unfold check_solve_cert. intros H.
  apply andb_true_iff in H. destruct H as [H H4].
  apply andb_true_iff in H. destruct H as [H H3].
  apply andb_true_iff in H. destruct H as [H1 H2].
  apply eqb_len in H1. apply eqb_len in H2. apply eqb_len in H3.
  repeat split; auto.
  intros i Hi Hm.
  pose proof (all_le_masked_spec _ _ _ H4 i) as S.
  rewrite solve_resid_length in S by assumption.
  specialize (S Hi Hm).
  rewrite nth_solve_resid in S by assumption.
  rewrite D2Q_solve_resid_row in S.
  unfold Qresid, vget. exact S.
Qed.

(* factor = 0: a certified output equals rhs within the tolerance (unmasked rows) *)
Theorem contract_factor_zero A factor rhs u mask tol :
  contract_holds A factor rhs u mask tol -> D2Q factor == 0 ->
  forall i, (i < length A)%nat -> nth i mask false = true ->
  Qabs (D2Q (vget u i) - D2Q (vget rhs i)) <= tol.
Proof.
  intros [_ [_ [_ H]]] Hf i Hi Hm. specialize (H i Hi Hm).
  unfold Qresid in H. rewrite Hf in H.
  assert (E : D2Q (vget u i) - 0 * Qrow_dot (nth i A []) u - D2Q (vget rhs i)
              == D2Q (vget u i) - D2Q (vget rhs i)) by ring.
  rewrite E in H. exact H.
Qed.

(* weakening *)
Lemma contract_holds_weaken A factor rhs u mask tol tol' :
  contract_holds A factor rhs u mask tol -> tol <= tol' -> contract_holds A factor rhs u mask tol'.
Proof.
  intros [H1 [H2 [H3 H]]] Hle. repeat split; auto. intros i Hi Hm.
  eapply Qle_trans; [apply H; assumption | exact Hle].
Qed.

(* ------------------------------------------------------------------ general linear rows *)

Lemma lin_resid_length uall G b : length b = length G -> length (lin_resid uall G b) = length G.
Proof.
  revert b. induction G as [|r G IH]; intros [|bi b] H; cbn in *; try discriminate; auto.
Qed.

Lemma nth_lin_resid uall G b i : length b = length G -> (i < length G)%nat ->
  nth i (lin_resid uall G b) d0 = dsub (row_dot (nth i G []) uall) (nth i b d0).
Proof.
  revert b i. induction G as [|r G IH]; intros [|bi b] i H Hi; cbn in *; try discriminate; try lia.
  destruct i as [|i]; [reflexivity | apply IH; lia].
Qed.

Theorem check_lin_cert_sound G b u atol rtol :
  check_lin_cert G b u atol rtol = true -> lin_holds G b u (D2Q (lin_tol G b u atol rtol)).
Proof.
  unfold check_lin_cert. intros H. apply andb_true_iff in H. destruct H as [H1 H2].
  apply eqb_len in H1. split; auto. intros i Hi.
  pose proof (all_le_spec _ _ H2 i) as S. rewrite lin_resid_length in S by assumption.
  specialize (S Hi). rewrite nth_lin_resid in S by assumption.
  rewrite D2Q_sub, D2Q_row_dot in S. exact S.
Qed.

(* f = A u certified:  |(A u)_i - f_i| <= tol *)
Theorem check_apply_cert_sound A u f atol rtol :
  check_apply_cert A u f atol rtol = true -> lin_holds A f u (D2Q (lin_tol A f u atol rtol)).
Proof. apply check_lin_cert_sound. Qed.

(* ------------------------------------------------------------------ vector-only residual certificate *)

Lemma vec_resid_length factor us fs rhs :
  length fs = length us -> length rhs = length us -> length (vec_resid factor us fs rhs) = length us.
Proof.
  revert fs rhs. induction us as [|ui us IH]; intros [|fi fs] [|bi rhs] H1 H2; cbn in *; try discriminate; auto.
Qed.

Lemma nth_vec_resid factor us fs rhs i :
  length fs = length us -> length rhs = length us -> (i < length us)%nat ->
  nth i (vec_resid factor us fs rhs) d0 = dsub (dsub (nth i us d0) (dmul factor (nth i fs d0))) (nth i rhs d0).
Proof.
  revert fs rhs i. induction us as [|ui us IH]; intros [|fi fs] [|bi rhs] i H1 H2 Hi; cbn in *; try discriminate; try lia.
  destruct i as [|i]; [reflexivity | apply IH; lia].
Qed.

(* residual against given f values: |u_i - factor f_i - rhs_i| <= tol on unmasked rows *)
Definition resid_holds (factor : dy) (rhs u f : vec) (mask : list bool) (tol : Q) : Prop :=
  length f = length u /\ length rhs = length u /\ length mask = length u /\
  forall i, (i < length u)%nat -> nth i mask false = true ->
    Qabs (D2Q (vget u i) - D2Q factor * D2Q (vget f i) - D2Q (vget rhs i)) <= tol.

Theorem check_resid_cert_sound factor rhs u f mask tol :
  check_resid_cert factor rhs u f mask tol = true -> resid_holds factor rhs u f mask (D2Q tol).
Proof.
  unfold check_resid_cert. intros H.
  apply andb_true_iff in H. destruct H as [H H4].
  apply andb_true_iff in H. destruct H as [H H3].
  apply andb_true_iff in H. destruct H as [H1 H2].
  apply eqb_len in H1. apply eqb_len in H2. apply eqb_len in H3.
  repeat split; auto. intros i Hi Hm.
  pose proof (all_le_masked_spec _ _ _ H4 i) as S.
  rewrite vec_resid_length in S by assumption. specialize (S Hi Hm).
  rewrite nth_vec_resid in S by assumption.
  rewrite !D2Q_sub, D2Q_mul in S. exact S.
Qed.

(* combination: f certified as A u (apply certificate) and the vector residual certified
   ==> the contract for the operator A, with tolerance  t_r + |factor| * t_a *)
Theorem resid_and_apply_give_contract A factor rhs u f mask tr ta :
  resid_holds factor rhs u f mask tr -> lin_holds A f u ta -> length u = length A ->
  contract_holds A factor rhs u mask (tr + Qabs (D2Q factor) * ta).
Proof.
  intros [R1 [R2 [R3 R]]] [L1 L] Hn. repeat split; try lia.
  intros i Hi Hm. assert (Hi' : (i < length u)%nat) by lia.
  specialize (R i Hi' Hm). specialize (L i Hi). unfold Qresid.
  set (ui := D2Q (vget u i)) in *. set (bi := D2Q (vget rhs i)) in *.
  set (fi := D2Q (vget f i)) in *. set (ai := Qrow_dot (nth i A []) u) in *. set (c := D2Q factor) in *.
  assert (E : ui - c * ai - bi == (ui - c * fi - bi) + (- c) * (ai - fi)) by ring.
  rewrite E. eapply Qle_trans; [apply Qabs_triangle|].
  apply Qplus_le_compat; [exact R|].
  rewrite Qabs_Qmult, Qabs_opp. apply Qmult_le_l_weak; [apply Qabs_nonneg | exact L].
Qed.

(* ------------------------------------------------------------------ split certificate *)

Lemma vadd_length a b : length a = length b -> length (vadd a b) = length b.
Proof. revert b. induction a as [|x a IH]; intros [|y b] H; cbn in *; try discriminate; auto. Qed.

Lemma vsub_length a b : length a = length b -> length (vsub a b) = length b.
Proof. revert b. induction a as [|x a IH]; intros [|y b] H; cbn in *; try discriminate; auto. Qed.

Lemma nth_vadd a b i : length a = length b -> (i < length b)%nat ->
  nth i (vadd a b) d0 = dadd (nth i a d0) (nth i b d0).
Proof.
  revert b i. induction a as [|x a IH]; intros [|y b] i H Hi; cbn in *; try discriminate; try lia.
  destruct i; [reflexivity | apply IH; lia].
Qed.

Lemma nth_vsub a b i : length a = length b -> (i < length b)%nat ->
  nth i (vsub a b) d0 = dsub (nth i a d0) (nth i b d0).
Proof.
  revert b i. induction a as [|x a IH]; intros [|y b] i H Hi; cbn in *; try discriminate; try lia.
  destruct i; [reflexivity | apply IH; lia].
Qed.

(* the pieces of a splitting sum to the full right-hand side, entry by entry *)
Theorem check_split_cert_sound f1 f2 ffull tol :
  check_split_cert f1 f2 ffull tol = true ->
  length f1 = length ffull /\ length f2 = length ffull /\
  forall i, (i < length ffull)%nat ->
    Qabs (D2Q (vget f1 i) + D2Q (vget f2 i) - D2Q (vget ffull i)) <= D2Q tol.
Proof.
  unfold check_split_cert. intros H.
  apply andb_true_iff in H. destruct H as [H H3].
  apply andb_true_iff in H. destruct H as [H1 H2].
  apply eqb_len in H1. apply eqb_len in H2.
  repeat split; auto. intros i Hi.
  assert (La : length (vadd f1 f2) = length ffull) by (rewrite vadd_length; lia).
  pose proof (all_le_spec _ _ H3 i) as S. rewrite vsub_length in S by exact La.
  specialize (S Hi). rewrite nth_vsub in S by (auto; lia).
  rewrite nth_vadd in S by lia. rewrite D2Q_sub, D2Q_add in S. exact S.
Qed.

(* ------------------------------------------------------------------ dense systems: uniqueness from an
   approximate-inverse certificate *)

Fixpoint Qddot (r u : list dy) : Q :=
  match r, u with
  | a :: r', x :: u' => D2Q a * D2Q x + Qddot r' u'
  | _, _ => 0
  end.

Lemma D2Q_ddot r u : D2Q (ddot r u) == Qddot r u.
Proof.
  revert u. induction r as [|a r IH]; intros [|x u]; cbn [ddot Qddot]; try reflexivity.
  rewrite D2Q_add, D2Q_mul, IH. reflexivity.
Qed.

Lemma Qddot_nil_r r : Qddot r [] = 0.
Proof. destruct r; reflexivity. Qed.

Lemma Qddot_zeros n x : Qddot (dzeros n) x == 0.
Proof.
  revert x. induction n as [|n IH]; intros [|y x]; cbn [dzeros repeat Qddot]; try reflexivity.
  fold (dzeros n). rewrite IH. change (D2Q d0) with (0 * 2 ^ 0). ring.
Qed.

Lemma vaxpy_length c r s : length r = length s -> length (vaxpy c r s) = length s.
Proof. revert s. induction r as [|a r IH]; intros [|x s] H; cbn in *; try discriminate; auto. Qed.

Lemma Qddot_vaxpy c r s x : length r = length s ->
  Qddot (vaxpy c r s) x == D2Q c * Qddot r x + Qddot s x.
Proof.
  revert s x. induction r as [|a r IH]; intros [|y s] [|z x] H; cbn [vaxpy Qddot length] in *; try discriminate; try ring.
  rewrite D2Q_add, D2Q_mul, IH by lia. ring.
Qed.

Lemma dzeros_length n : length (dzeros n) = n.
Proof. apply repeat_length. Qed.

Lemma vec_mat_length n b G : rows_have_length n G = true -> length (vec_mat n b G) = n.
Proof.
  revert G. induction b as [|bj b IH]; intros [|r G] H; cbn [vec_mat]; try apply dzeros_length.
  cbn in H. apply andb_true_iff in H. destruct H as [Hr HG]. apply Nat.eqb_eq in Hr.
  rewrite vaxpy_length; rewrite IH by exact HG; auto.
Qed.

Definition dense_apply (G : dmat) (x : list dy) : list dy := map (fun r => ddot r x) G.

(* (b^T G) x = b^T (G x) *)
Lemma Qddot_vec_mat n b G x : rows_have_length n G = true ->
  Qddot (vec_mat n b G) x == Qddot b (dense_apply G x).
Proof.
  revert G. induction b as [|bj b IH]; intros [|r G] H; cbn [vec_mat dense_apply map Qddot].
  - apply Qddot_zeros.
  - apply Qddot_zeros.
  - apply Qddot_zeros.
  - cbn in H. apply andb_true_iff in H. destruct H as [Hr HG]. apply Nat.eqb_eq in Hr.
    rewrite Qddot_vaxpy by (rewrite vec_mat_length by exact HG; exact Hr).
    rewrite IH by exact HG. rewrite D2Q_ddot. reflexivity.
Qed.

Lemma Qddot_sub_unit c i w : (i < length c)%nat ->
  Qddot (sub_unit c i) w == Qddot c w - D2Q (nth i w d0).
Proof.
  revert i w. induction c as [|x c IH]; intros i w Hi; cbn in Hi; try lia.
  destruct i as [|i]; destruct w as [|z w]; cbn [sub_unit Qddot nth].
  - change (D2Q d0) with (0 * 2 ^ 0). ring.
  - rewrite D2Q_sub. change (D2Q d1) with (1 * 2 ^ 0). change (2 ^ 0) with 1. ring.
  - change (D2Q d0) with (0 * 2 ^ 0). ring.
  - rewrite IH by lia. ring.
Qed.

Lemma dabs_sum_nonneg r : 0 <= D2Q (dabs_sum r).
Proof.
  induction r as [|a r IH]; cbn [dabs_sum].
  - apply Qle_refl.
  - rewrite D2Q_add, D2Q_abs. pose proof (Qabs_nonneg (D2Q a)). lra.
Qed.

Lemma Qddot_bound a w N : 0 <= N -> (forall k, Qabs (D2Q (nth k w d0)) <= N) ->
  Qabs (Qddot a w) <= D2Q (dabs_sum a) * N.
Proof.
  intros HN. revert w. induction a as [|x a IH]; intros w Hw.
  - cbn. rewrite Qddot_nil_r || idtac. cbn. change (D2Q d0) with (0 * 2 ^ 0). 
    setoid_replace (0 * 2 ^ 0 * N) with 0 by ring. apply Qle_refl.
  - destruct w as [|z w].
    + cbn [Qddot]. cbn [Qabs Z.abs]. apply Qmult_le_0_compat; [apply dabs_sum_nonneg | exact HN].
    + cbn [Qddot dabs_sum]. rewrite D2Q_add, D2Q_abs.
      eapply Qle_trans; [apply Qabs_triangle|].
      rewrite Qabs_Qmult.
      assert (H0 : Qabs (D2Q z) <= N) by (apply (Hw 0%nat)).
      assert (H1 : Qabs (Qddot a w) <= D2Q (dabs_sum a) * N).
      { apply IH. intros k. apply (Hw (S k)). }
      assert (H2 : Qabs (D2Q x) * Qabs (D2Q z) <= Qabs (D2Q x) * N).
      { apply Qmult_le_l_weak; [apply Qabs_nonneg | exact H0]. }
      setoid_replace ((Qabs (D2Q x) + D2Q (dabs_sum a)) * N)
        with (Qabs (D2Q x) * N + D2Q (dabs_sum a) * N) by ring.
      apply Qplus_le_compat; assumption.
Qed.

Lemma Qddot_vsub r u v : length u = length v ->
  Qddot r (vsub u v) == Qddot r u - Qddot r v.
Proof.
  revert u v. induction r as [|a r IH]; intros [|x u] [|y v] H; cbn [vsub Qddot length] in *; try discriminate; try ring.
  rewrite D2Q_sub, IH by lia. ring.
Qed.

(* max of absolute values *)
Definition maxabs (l : list dy) : dy := fold_right (fun x acc => dmax (dabs x) acc) d0 l.

Lemma dmax_ge_l a b : D2Q a <= D2Q (dmax a b).
Proof.
  unfold dmax. destruct (dleb a b) eqn:E.
  - apply dleb_spec. exact E.
  - apply Qle_refl.
Qed.

Lemma dmax_ge_r a b : D2Q b <= D2Q (dmax a b).
Proof.
  unfold dmax. destruct (dleb a b) eqn:E.
  - apply Qle_refl.
  - destruct (Qlt_le_dec (D2Q b) (D2Q a)) as [H|H].
    + apply Qlt_le_weak. exact H.
    + apply dleb_spec in H. congruence.
Qed.

Lemma maxabs_ge l k : Qabs (D2Q (nth k l d0)) <= D2Q (maxabs l).
Proof.
  revert k. induction l as [|x l IH]; intros k.
  - destruct k; cbn; change (D2Q d0) with (0 * 2 ^ 0); cbn; apply Qle_refl.
  - cbn [maxabs fold_right]. fold (maxabs l). destruct k as [|k]; cbn [nth].
    + rewrite <- D2Q_abs. apply dmax_ge_l.
    + eapply Qle_trans; [apply IH | apply dmax_ge_r].
Qed.

Lemma maxabs_attained l : maxabs l = d0 \/ exists k, (k < length l)%nat /\ maxabs l = dabs (nth k l d0).
Proof.
  induction l as [|x l IH].
  - left. reflexivity.
  - cbn [maxabs fold_right]. fold (maxabs l). unfold dmax. destruct (dleb (dabs x) (maxabs l)).
    + destruct IH as [IH|[k [Hk IH]]]; [left; exact IH | right; exists (S k); split; [cbn; lia | exact IH]].
    + right. exists 0%nat. split; [cbn; lia | reflexivity].
Qed.

Lemma inverse_rows_ok_nth n G delta beta i0 B :
  inverse_rows_ok n G delta beta i0 B = true ->
  forall k, (k < length B)%nat -> inverse_row_ok n G delta beta (i0 + k) (nth k B []) = true.
Proof.
  revert i0. induction B as [|b B IH]; intros i0 H k Hk; cbn in *; try lia.
  apply andb_true_iff in H. destruct H as [H1 H2].
  destruct k as [|k].
  - rewrite Nat.add_0_r. exact H1.
  - replace (i0 + S k)%nat with (S i0 + k)%nat by lia. apply IH; [exact H2 | lia].
Qed.

Lemma rows_have_length_nth n G j : rows_have_length n G = true -> (j < length G)%nat ->
  length (nth j G []) = n.
Proof.
  unfold rows_have_length. intros H Hj. rewrite forallb_forall in H.
  apply Nat.eqb_eq. apply H. apply nth_In. exact Hj.
Qed.

Lemma dense_resid_length u G b : length b = length G -> length (dense_resid u G b) = length G.
Proof. revert b. induction G as [|r G IH]; intros [|bi b] H; cbn in *; try discriminate; auto. Qed.

Lemma nth_dense_resid u G b j : length b = length G -> (j < length G)%nat ->
  nth j (dense_resid u G b) d0 = dsub (ddot (nth j G []) u) (nth j b d0).
Proof.
  revert b j. induction G as [|r G IH]; intros [|bi b] j H Hj; cbn in *; try discriminate; try lia.
  destruct j; [reflexivity | apply IH; lia].
Qed.

Definition dense_holds (G : dmat) (b u : list dy) (tol : Q) : Prop :=
  length b = length G /\ length u = length G /\ rows_have_length (length G) G = true /\ 0 <= tol /\
  forall j, (j < length G)%nat -> Qabs (Qddot (nth j G []) u - D2Q (nth j b d0)) <= tol.

Theorem check_dense_cert_sound G b u tol :
  check_dense_cert G b u tol = true -> dense_holds G b u (D2Q tol).
Proof.
  unfold check_dense_cert. intros H.
  apply andb_true_iff in H. destruct H as [H H5].
  apply andb_true_iff in H. destruct H as [H H4].
  apply andb_true_iff in H. destruct H as [H H3].
  apply andb_true_iff in H. destruct H as [H1 H2].
  apply eqb_len in H1. apply eqb_len in H2.
  repeat split; auto.
  - apply dleb_spec in H4. exact H4.
  - intros j Hj. pose proof (all_le_spec _ _ H5 j) as S. rewrite dense_resid_length in S by assumption.
    specialize (S Hj). rewrite nth_dense_resid in S by assumption.
    rewrite D2Q_sub, D2Q_ddot in S. exact S.
Qed.

(* UNIQUENESS: if B certifies that G has a bounded (approximate) inverse, any two vectors that
   both satisfy G x = b within tol differ by at most  ||B|| * 2 tol / (1 - delta)  in max norm *)
Theorem contract_unique G B delta beta b u v tol :
  check_inverse_cert G B delta beta = true ->
  dense_holds G b u tol -> dense_holds G b v tol ->
  D2Q (vdist u v) * (1 - D2Q delta) <= D2Q beta * (2 * tol) /\
  forall i, (i < length G)%nat -> Qabs (D2Q (nth i u d0) - D2Q (nth i v d0)) <= D2Q (vdist u v).
Proof.
  unfold check_inverse_cert. intros H [Ub [Uu [Ur [Ht HU]]]] [Vb [Vu [_ [_ HV]]]].
  set (n := length G) in *.
  apply andb_true_iff in H. destruct H as [H HB].
  apply andb_true_iff in H. destruct H as [H Hb0].
  apply andb_true_iff in H. destruct H as [H Hd0].
  apply andb_true_iff in H. destruct H as [H Hd1].
  apply andb_true_iff in H. destruct H as [H HBr].
  apply andb_true_iff in H. destruct H as [HBn HGr].
  apply eqb_len in HBn. apply dltb_spec in Hd1. apply dleb_spec in Hd0. apply dleb_spec in Hb0.
  change (D2Q d1) with (1 * 2 ^ 0) in Hd1. change (D2Q d0) with (0 * 2 ^ 0) in Hd0, Hb0.
  assert (Hd1' : D2Q delta < 1) by (revert Hd1; cbn; intros; lra).
  assert (Hd0' : 0 <= D2Q delta) by (revert Hd0; cbn; intros; lra).
  assert (Hb0' : 0 <= D2Q beta) by (revert Hb0; cbn; intros; lra).
  clear Hd0 Hd1 Hb0.
  set (w := vsub u v).
  assert (Lw : length w = n) by (unfold w; rewrite vsub_length; lia).
  assert (Hw : forall k, (k < n)%nat -> D2Q (nth k w d0) == D2Q (nth k u d0) - D2Q (nth k v d0)).
  { intros k Hk. unfold w. rewrite nth_vsub by lia. apply D2Q_sub. }
  (* G w is small *)
  assert (HGw : forall k, Qabs (D2Q (nth k (dense_apply G w) d0)) <= 2 * tol).
  { intros k. unfold dense_apply.
    change d0 with ((fun r => ddot r w) []) at 1. rewrite map_nth. rewrite D2Q_ddot.
    destruct (Nat.lt_ge_cases k n) as [Hk|Hk].
    - unfold w. rewrite Qddot_vsub by lia.
      specialize (HU k Hk). specialize (HV k Hk).
      set (a := Qddot (nth k G []) u) in *. set (c := Qddot (nth k G []) v) in *. set (bk := D2Q (nth k b d0)) in *.
      setoid_replace (a - c) with ((a - bk) + - (c - bk)) by ring.
      eapply Qle_trans; [apply Qabs_triangle|]. rewrite Qabs_opp. lra.
    - rewrite nth_overflow by (fold n; lia). cbn. lra. }
  set (N := D2Q (vdist u v)).
  assert (HN : forall k, Qabs (D2Q (nth k w d0)) <= N).
  { intros k. unfold N, vdist. fold w. apply (maxabs_ge w k). }
  assert (HN0 : 0 <= N).
  { eapply Qle_trans; [apply Qabs_nonneg | apply (HN 0%nat)]. }
  (* row-wise estimate *)
  assert (Hrow : forall i, (i < n)%nat -> Qabs (D2Q (nth i w d0)) <= D2Q beta * (2 * tol) + D2Q delta * N).
  { intros i Hi.
    assert (HiB : (i < length B)%nat) by lia.
    pose proof (inverse_rows_ok_nth _ _ _ _ _ _ HB i HiB) as Hri. cbn [Nat.add] in Hri.
    unfold inverse_row_ok in Hri. apply andb_true_iff in Hri. destruct Hri as [Hdel Hbet].
    apply dleb_spec in Hdel. apply dleb_spec in Hbet.
    set (bi := nth i B []) in *. set (c := vec_mat n bi G) in *.
    assert (Lc : length c = n) by (apply vec_mat_length; exact HGr).
    assert (E1 : Qddot (sub_unit c i) w == Qddot c w - D2Q (nth i w d0)).
    { apply Qddot_sub_unit. lia. }
    assert (E2 : Qddot c w == Qddot bi (dense_apply G w)).
    { apply Qddot_vec_mat. exact HGr. }
    assert (B1 : Qabs (Qddot (sub_unit c i) w) <= D2Q delta * N).
    { eapply Qle_trans; [apply (Qddot_bound _ w N HN0 HN)|].
      apply Qmult_le_compat_r; [exact Hdel | exact HN0]. }
    assert (B2 : Qabs (Qddot bi (dense_apply G w)) <= D2Q beta * (2 * tol)).
    { eapply Qle_trans; [apply (Qddot_bound _ (dense_apply G w) (2 * tol)); [lra | exact HGw]|].
      apply Qmult_le_compat_r; [exact Hbet | lra]. }
    setoid_replace (D2Q (nth i w d0)) with (Qddot c w + - Qddot (sub_unit c i) w) by (rewrite E1; ring).
    eapply Qle_trans; [apply Qabs_triangle|]. rewrite Qabs_opp, E2. lra. }
  split.
  - (* the maximum is attained *)
    destruct (maxabs_attained w) as [E|[k [Hk E]]].
    + assert (EN : N == 0).
      { unfold N, vdist. fold w. fold (maxabs w). rewrite E. reflexivity. }
      rewrite EN. assert (0 <= D2Q beta * (2 * tol)) by (apply Qmult_le_0_compat; lra). lra.
    + assert (EN : N == Qabs (D2Q (nth k w d0))).
      { unfold N, vdist. fold w. fold (maxabs w). rewrite E. apply D2Q_abs. }
      assert (Hk' : (k < n)%nat) by lia.
      pose proof (Hrow k Hk') as R. rewrite <- EN in R. lra.
  - intros i Hi. rewrite <- Hw by exact Hi. apply HN.
Qed.

(* ------------------------------------------------------------------ densify: dense image of I - factor*A *)

Lemma Qddot_update l j a u : (j < length l)%nat ->
  Qddot (firstn j l ++ match skipn j l with [] => [] | x :: tl => dadd a x :: tl end) u
  == Qddot l u + D2Q a * D2Q (nth j u d0).
Proof.
  revert j u. induction l as [|y l IH]; intros j u Hj; cbn [length] in Hj; try lia.
  destruct j as [|j]; destruct u as [|z u]; cbn [firstn skipn app Qddot nth].
  - change (D2Q d0) with (0 * 2 ^ 0). ring.
  - rewrite D2Q_add. ring.
  - change (D2Q d0) with (0 * 2 ^ 0). ring.
  - rewrite IH by lia. ring.
Qed.

Lemma update_length (l : list dy) j a :
  length (firstn j l ++ match skipn j l with [] => [] | x :: tl => dadd a x :: tl end) = length l.
Proof.
  revert j. induction l as [|y l IH]; intros [|j]; cbn [firstn skipn app length]; auto.
Qed.

Lemma dense_row_of_length n r : length (dense_row_of n r) = n.
Proof.
  induction r as [|[j a] r IH]; cbn [dense_row_of].
  - apply dzeros_length.
  - rewrite update_length. exact IH.
Qed.

Lemma Qddot_dense_row_of n r u :
  forallb (fun '(j, _) => Nat.ltb j n) r = true ->
  Qddot (dense_row_of n r) u == Qrow_dot r u.
Proof.
  induction r as [|[j a] r IH]; intros H; cbn [dense_row_of Qrow_dot].
  - apply Qddot_zeros.
  - cbn in H. apply andb_true_iff in H. destruct H as [Hj Hr]. apply Nat.ltb_lt in Hj.
    rewrite Qddot_update by (rewrite dense_row_of_length; exact Hj).
    rewrite IH by exact Hr. unfold vget. ring.
Qed.

Lemma Qddot_map_dopp l u : Qddot (map dopp l) u == - Qddot l u.
Proof.
  revert u. induction l as [|x l IH]; intros [|z u]; cbn [map Qddot]; try ring.
  rewrite D2Q_opp, IH. ring.
Qed.

Lemma sub_unit_length c i : length (sub_unit c i) = length c.
Proof. revert i. induction c as [|x c IH]; intros [|i]; cbn; auto. Qed.

Lemma Qddot_densify_row n factor i r u : (i < n)%nat ->
  forallb (fun '(j, _) => Nat.ltb j n) r = true ->
  Qddot (vaxpy (dopp factor) (dense_row_of n r) (map dopp (sub_unit (dzeros n) i))) u
  == D2Q (nth i u d0) - D2Q factor * Qrow_dot r u.
Proof.
  intros Hi Hr.
  rewrite Qddot_vaxpy by (rewrite map_length, sub_unit_length, dzeros_length; apply dense_row_of_length).
  rewrite Qddot_dense_row_of by exact Hr.
  rewrite Qddot_map_dopp, Qddot_sub_unit by (rewrite dzeros_length; exact Hi).
  rewrite Qddot_zeros, D2Q_opp. ring.
Qed.

Lemma densify_rows_length n factor i0 A : length (densify_rows n factor i0 A) = length A.
Proof. revert i0. induction A as [|r A IH]; intros i0; cbn; auto. Qed.

Lemma nth_densify_rows n factor i0 A i : (i < length A)%nat ->
  nth i (densify_rows n factor i0 A) [] =
  vaxpy (dopp factor) (dense_row_of n (nth i A [])) (map dopp (sub_unit (dzeros n) (i0 + i))).
Proof.
  revert i0 i. induction A as [|r A IH]; intros i0 i Hi; cbn [length] in Hi; try lia.
  destruct i as [|i]; cbn [densify_rows nth].
  - rewrite Nat.add_0_r. reflexivity.
  - rewrite IH by lia. replace (S i0 + i)%nat with (i0 + S i)%nat by lia. reflexivity.
Qed.

Lemma densify_rows_have_length n factor i0 A : rows_have_length n (densify_rows n factor i0 A) = true.
Proof.
  revert i0. induction A as [|r A IH]; intros i0; cbn [densify_rows rows_have_length forallb]; auto.
  apply andb_true_iff. split; [|apply IH].
  apply Nat.eqb_eq. rewrite vaxpy_length; rewrite map_length, sub_unit_length, dzeros_length; auto.
  apply dense_row_of_length.
Qed.

(* the sparse contract (no masked rows) is the dense system  (I - factor A) u = rhs *)
Theorem contract_to_dense A factor rhs u mask tol :
  cols_below (length A) A = true -> forallb (fun m => m) mask = true -> 0 <= tol ->
  contract_holds A factor rhs u mask tol ->
  dense_holds (densify factor A) rhs u tol.
Proof.
  intros Hc Hm Ht [H1 [H2 [H3 H]]]. unfold densify.
  set (n := length A) in *.
  assert (Ln : length (densify_rows n factor 0 A) = n) by apply densify_rows_length.
  unfold dense_holds. rewrite Ln. repeat split; auto.
  - apply densify_rows_have_length.
  - intros j Hj. rewrite nth_densify_rows by exact Hj. cbn [Nat.add].
    assert (Hr : forallb (fun '(j0, _) => Nat.ltb j0 n) (nth j A []) = true).
    { unfold cols_below in Hc. rewrite forallb_forall in Hc. apply Hc. apply nth_In. exact Hj. }
    rewrite Qddot_densify_row by assumption.
    assert (Hmj : nth j mask false = true).
    { rewrite forallb_forall in Hm. apply Hm. apply nth_In. lia. }
    specialize (H j Hj Hmj). unfold Qresid, vget in H. exact H.
Qed.

(* COROLLARY: two outputs accepted by the sparse certificate checker for the same operator,
   factor and right-hand side are pinned together by an inverse certificate of I - factor*A *)
Theorem solve_cert_unique A factor rhs u v mask atol rtol atol' rtol' B delta beta tol :
  check_solve_cert A factor rhs u mask atol rtol = true ->
  check_solve_cert A factor rhs v mask atol' rtol' = true ->
  cols_below (length A) A = true -> forallb (fun m => m) mask = true ->
  check_inverse_cert (densify factor A) B delta beta = true ->
  D2Q (cert_tol A factor rhs u atol rtol) <= tol ->
  D2Q (cert_tol A factor rhs v atol' rtol') <= tol -> 0 <= tol ->
  D2Q (vdist u v) * (1 - D2Q delta) <= D2Q beta * (2 * tol) /\
  forall i, (i < length A)%nat -> Qabs (D2Q (nth i u d0) - D2Q (nth i v d0)) <= D2Q (vdist u v).
Proof.
  intros Hu Hv Hc Hm HB Tu Tv Ht.
  apply check_solve_cert_sound in Hu. apply check_solve_cert_sound in Hv.
  pose proof (contract_to_dense _ _ _ _ _ _ Hc Hm Ht (contract_holds_weaken _ _ _ _ _ _ _ Hu Tu)) as Du.
  pose proof (contract_to_dense _ _ _ _ _ _ Hc Hm Ht (contract_holds_weaken _ _ _ _ _ _ _ Hv Tv)) as Dv.
  destruct (contract_unique _ _ _ _ _ _ _ _ HB Du Dv) as [R1 R2].
  split; [exact R1|]. intros i Hi. apply R2.
  unfold densify. rewrite densify_rows_length. exact Hi.
Qed.
