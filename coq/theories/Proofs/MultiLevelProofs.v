(* Proofs about Model/MultiLevel.v: a complete multi-level iteration (any number of levels, any number of
   sweeps per level) leaves the fine collocation solution unchanged (C10, "on any number of levels"). *)
From Coq Require Import List Arith Bool Lia Ring.
From PySDC Require Import Model.Sweep Model.Transfer Model.MultiLevel Proofs.SweepProofs Proofs.TransferProofs.
Import ListNotations.

Section MultiLevelProofs.
  Context {K : Type} (kO kI : K) (kadd kmul ksub : K -> K -> K) (kopp : K -> K) (keqb : K -> K -> bool).
  Hypothesis Rth : ring_theory kO kI kadd kmul ksub kopp (@eq K).
  Add Ring Kring4 : Rth.
  Hypothesis keqb_true : forall a b, keqb a b = true -> a = b.
  Context {X : Type}.
  Notation V := (X -> K).
  Variable t0 : K.
  Variable imex : bool.
  Local Infix "+!" := kadd (at level 50, left associativity).
  Local Infix "*!" := kmul (at level 40, left associativity).
  Local Infix "-!" := ksub (at level 50, left associativity).
  Notation sumf := (sumf kO kadd).
  Notation level := (@level K X).
  Notation xfer := (@xfer K X).
  Notation lstate := (@lstate K X).
  Notation sweep1 := (sweep1 kO kadd kmul ksub keqb t0 imex).
  Notation sweepn := (sweepn kO kadd kmul ksub keqb t0 imex).
  Notation vcycle := (vcycle kO kadd kmul ksub keqb t0 imex).
  Notation restrict_to := (restrict_to kO kadd kmul ksub t0 imex).
  Notation np := (nparts imex).
  Notation prolong_from := (prolong_from kadd kmul ksub t0).

  (* what is assumed of a level: the solver contract (uniqueness half), extensionality of eval_f, a lower
     triangular preconditioner whose diagonal is decided by the code's own test *)
  Definition level_ok (L : level) : Prop :=
    solver_left_inverse kmul ksub (lsolve L) (lfeval L) 0 /\ feval_ext (lfeval L) /\ lower_triangular kO (lQI L) /\
    (if imex then strictly_lower_triangular kO (lQE L)
     else forall m, 1 <= m <= lM L -> ldt L *! lQI L m m <> kO \/ keqb (ldt L *! lQI L m m) kO = true).
  (* what is assumed of a transfer: linear space operators, rows of Rcoll summing to one *)
  Definition xfer_ok (T : xfer) (Lf Lc : level) : Prop :=
    (forall a b x, xRs T (vadd kadd a b) x = xRs T a x +! xRs T b x) /\
    (forall a b x, xRs T (vsub ksub a b) x = xRs T a x -! xRs T b x) /\
    (forall x, xRs T (vzero kO) x = kO) /\
    (forall a b : V, (forall y, a y = b y) -> forall x, xRs T a x = xRs T b x) /\
    (forall a b x, xPs T (vsub ksub a b) x = xPs T a x -! xPs T b x) /\
    (forall a b : V, (forall y, a y = b y) -> forall x, xPs T a x = xPs T b x) /\
    (forall n, 1 <= n <= lM Lc -> sumf (fun m => xRcoll T n m) 1 (lM Lf) = kI).
  Fixpoint hier_ok (L : level) (rest : list (xfer * level)) : Prop :=
    level_ok L /\ match rest with [] => True | (T, Lc) :: r => xfer_ok T L Lc /\ hier_ok Lc r end.

  Definition tau_uniform (M : nat) (tau : nat -> option V) : Prop :=
    forall m, 1 <= m <= M -> (tau 1 = None <-> tau m = None).

  (* the level holds the solution of ITS collocation problem (with its FAS correction tau) *)
  (* zero defect = the collocation equation  U = u0 + dt Q F(U) + tau  with F the sum of all right-hand-side parts
     (residual_zero_iff_collocation / residual_zero_iff_collocation2) *)
  Definition zero_defect (L : level) (tau : nat -> option V) (s : lstate) : Prop :=
    forall m, 1 <= m <= lM L -> forall x,
      residual_vec kO kadd kmul ksub (lM L) (ldt L) (lQ L) np (fst s) (snd s) tau m x = kO.
  Definition holds_solution (L : level) (tau : nat -> option V) (s : lstate) : Prop :=
    consistent kadd kmul (lM L) (ldt L) t0 (lnodes L) (lfeval L) (fst s) (snd s) /\
    zero_defect L tau s /\
    tau_uniform (lM L) tau.

  (* same values (initial value and all nodes) and same right-hand sides at the nodes, pointwise *)
  Definition same (L : level) (s' s : lstate) : Prop :=
    (forall m, m <= lM L -> forall x, fst s' m x = fst s m x) /\
    (forall m, 1 <= m <= lM L -> forall p x, snd s' m p x = snd s m p x).

  Lemma same_refl L s : same L s s.
  Proof. split; intros; reflexivity. Qed.
  Lemma same_trans L a b c : same L a b -> same L b c -> same L a c.
  Proof.
    intros [A1 A2] [B1 B2]. split; intros.
    - rewrite A1 by assumption. apply B1. assumption.
    - rewrite A2 by assumption. apply B2. assumption.
  Qed.

  Lemma ftot_ext n (g h : nat -> V) x : (forall p, g p x = h p x) -> ftot kO kadd n g x = ftot kO kadd n h x.
  Proof. intros E. induction n as [|n IH]; cbn [ftot]; [reflexivity|]. unfold vadd. rewrite IH, E. reflexivity. Qed.

  Lemma holds_solution_same L tau s s' :
    feval_ext (lfeval L) -> holds_solution L tau s -> same L s' s -> holds_solution L tau s'.
  Proof.
    intros Hext (Hcons & Hz & Htau) [Su Sf]. split; [|split]; [| |exact Htau].
    - intros m Hm p x. rewrite (Sf m Hm), (Hcons m Hm). symmetry. apply Hext. intros y. apply Su. lia.
    - intros m Hm x. etransitivity; [|exact (Hz m Hm x)].
      rewrite !(residual_is_defect kO kI kadd kmul ksub kopp Rth).
      rewrite (Su m) by lia. rewrite (Su 0) by lia.
      f_equal. f_equal. f_equal. f_equal. apply sumf_ext. intros j Hj. f_equal. apply ftot_ext. intros p. apply Sf. lia.
  Qed.

  (* frame of a sweep (no law needed): the initial value is untouched, and the stored right-hand sides are those of the
     new values *)
  Lemma sweep1_frame L tau (s : lstate) :
    fst (sweep1 L tau s) 0 = fst s 0 /\
    forall m, 1 <= m <= lM L ->
      snd (sweep1 L tau s) m = lfeval L (tnode kadd kmul (ldt L) t0 (lnodes L) m) (fst (sweep1 L tau s) m).
  Proof.
    unfold MultiLevel.sweep1. destruct imex.
    - unfold imex_update, update_nodes.
      pose proof (sweep_loop_spec kO kadd kmul (ldt L) t0 (lnodes L) 2 (lfeval L) (fun p => if Nat.eqb p 0 then lQI L else lQE L)
                    (imex_node_solve kadd kmul (ldt L) t0 (lnodes L) (lsolve L) (lQI L))
                    1 (gather kO kadd kmul ksub (lM L) (ldt L) (lQ L) 2 (fun p => if Nat.eqb p 0 then lQI L else lQE L) 1 (fst s 0) (snd s) tau)
                    (lM L) 1 (fst s) (snd s) (le_n 1)) as S.
      cbv zeta in S. destruct S as [Sf Sn]. split; [apply Sf; lia | intros m Hm; apply Sn; lia].
    - unfold gi_update, update_nodes.
      pose proof (sweep_loop_spec kO kadd kmul (ldt L) t0 (lnodes L) 1 (lfeval L) (fun _ => lQI L)
                    (gi_node_solve kO kadd kmul keqb (ldt L) t0 (lnodes L) (lsolve L) (lQI L))
                    1 (gather kO kadd kmul ksub (lM L) (ldt L) (lQ L) 1 (fun _ => lQI L) 1 (fst s 0) (snd s) tau)
                    (lM L) 1 (fst s) (snd s) (le_n 1)) as S.
      cbv zeta in S. destruct S as [Sf Sn]. split; [apply Sf; lia | intros m Hm; apply Sn; lia].
  Qed.

  Lemma sweep1_fixed L tau s :
    level_ok L -> holds_solution L tau s -> same L (sweep1 L tau s) s.
  Proof.
    intros (Hli & Hext & Htri & Hkind) (Hcons & Hz & _).
    assert (Hu : forall m, 1 <= m <= lM L -> forall x, fst (sweep1 L tau s) m x = fst s m x).
    { unfold MultiLevel.sweep1. unfold zero_defect, nparts in Hz. destruct imex.
      - apply (imex_collocation_is_fixed_point kO kI kadd kmul ksub kopp Rth (lM L) (ldt L) t0 (lnodes L) (lQ L)
                 (lsolve L) (lfeval L) (lQI L) (lQE L) (fst s) (snd s) tau Hli Hext Htri Hkind Hcons).
        intros m Hm x.
        apply (proj1 (residual_zero_iff_collocation2 kO kI kadd kmul ksub kopp Rth (lM L) (ldt L) (lQ L) (fst s) (snd s) tau m x)).
        apply Hz. exact Hm.
      - apply (gi_collocation_is_fixed_point kO kI kadd kmul ksub kopp keqb Rth keqb_true (lM L) (ldt L) t0 (lnodes L) (lQ L)
                 (lsolve L) (lfeval L) (lQI L) (fst s) (snd s) tau Hli Hext Htri Hcons Hkind).
        intros m Hm x.
        apply (proj1 (residual_zero_iff_collocation kO kI kadd kmul ksub kopp Rth (lM L) (ldt L) (lQ L) (fst s) (snd s) tau m x)).
        apply Hz. exact Hm. }
    destruct (sweep1_frame L tau s) as [H0 Hf].
    split.
    - intros m Hm x. destruct (Nat.eq_dec m 0) as [->|Hne]; [rewrite H0; reflexivity | apply Hu; lia].
    - intros m Hm p x. rewrite (Hf m Hm), (Hcons m Hm). apply Hext. intros y. apply Hu. exact Hm.
  Qed.

  Lemma sweepn_fixed n : forall L tau s,
    level_ok L -> holds_solution L tau s -> same L (sweepn n L tau s) s.
  Proof.
    induction n as [|n IH]; intros L tau s Hok Hs; cbn [MultiLevel.sweepn]; [apply same_refl|].
    pose proof (sweep1_fixed L tau s Hok Hs) as H1.
    apply (same_trans L _ (sweep1 L tau s)); [|exact H1].
    apply IH; [exact Hok|]. destruct Hok as (_ & Hext & _). exact (holds_solution_same L tau s _ Hext Hs H1).
  Qed.

  (* restriction of a level holding its solution gives a coarse level holding ITS solution *)
  Lemma restrict_holds T Lf Lc tau s :
    xfer_ok T Lf Lc -> holds_solution Lf tau s ->
    let G := restrict_to T Lf Lc tau s in
    holds_solution Lc (Gtau G) (Gu G, Gf G).
  Proof.
    intros (Radd & Rsub & Rzero & Rext & _ & _ & Hrow) (Hcons & Hz & Htau) G.
    split; [|split].
    - intros k Hk p z. unfold G, MultiLevel.restrict_to, Transfer.restrict. cbn [Gu Gf fst snd].
      replace (Nat.eqb k 0) with false by (symmetry; apply Nat.eqb_neq; lia). reflexivity.
    - intros k Hk z. cbn [fst snd]. unfold G, MultiLevel.restrict_to.
      apply (restricted_solution_has_zero_coarse_defect kO kI kadd kmul ksub kopp Rth (lM Lf) (lM Lc) (ldt Lf) (ldt Lc) t0
               (lnodes Lc) (lQ Lf) (lQ Lc) (lfeval Lc) (xRs T) (xRcoll T) Radd Rsub Rzero np (fst s) (snd s) tau Htau).
      + exact Hz.
      + exact Rext.
      + exact Hk.
      + apply Hrow. exact Hk.
    - intros m Hm. unfold G, MultiLevel.restrict_to, Transfer.restrict. cbn [Gtau]. split; intros H; discriminate H.
  Qed.

  (* prolongation of an unchanged coarse level leaves the fine level unchanged — values-only prolongation (prolong)
     and prolongation of values and right-hand sides (prolong_f, finter) alike *)
  Lemma prolong_same T Lf Lc (G : @coarse K X) (sc : lstate) (s : lstate) :
    xfer_ok T Lf Lc -> feval_ext (lfeval Lf) ->
    consistent kadd kmul (lM Lf) (ldt Lf) t0 (lnodes Lf) (lfeval Lf) (fst s) (snd s) ->
    (forall m, 1 <= m <= lM Lc -> forall y, fst sc m y = Guold G m y) ->
    (forall m, 1 <= m <= lM Lc -> forall p y, snd sc m p y = Gfold G m p y) ->
    let G' := {| Gu := fst sc; Gf := snd sc; Gtau := Gtau G; Guold := Guold G; Gfold := Gfold G |} in
    same Lf (prolong_from T Lf Lc G' s) s.
  Proof.
    intros (_ & _ & _ & _ & Psub & Pext & _) Hext Hcons Hsc Hscf G'.
    assert (Hu : forall n x, prolong_u kadd kmul ksub (lM Lc) (xPs T) (xPcoll T) G' (fst s) n x = fst s n x).
    { apply (prolong_zero_correction kO kI kadd kmul ksub kopp Rth (lM Lc) (xPs T) (xPcoll T) Psub Pext).
      intros m Hm y. cbn [Gu Guold G']. apply Hsc. exact Hm. }
    unfold MultiLevel.prolong_from. destruct (xfinter T).
    - split.
      + intros m _ x. unfold prolong_f. cbn [fst]. apply Hu.
      + intros m Hm p x. unfold prolong_f. cbn [snd].
        replace (Nat.eqb m 0) with false by (symmetry; apply Nat.eqb_neq; lia).
        rewrite (accum_spec kO kI kadd kmul ksub kopp Rth).
        rewrite (sumf_ext kO kadd _ (fun _ => kO) 1 (lM Lc)).
        * rewrite (sumf_zero kO kI kadd kmul ksub kopp Rth). ring.
        * intros j Hj. unfold vscale. rewrite Psub. cbn [Gf Gfold G'].
          rewrite (Pext (snd sc j p) (Gfold G j p)) by (intros y; apply Hscf; lia). ring.
    - split.
      + intros m _ x. unfold prolong. cbn [fst]. apply Hu.
      + intros m Hm p x. unfold prolong. cbn [snd].
        replace (Nat.eqb m 0) with false by (symmetry; apply Nat.eqb_neq; lia).
        rewrite (Hcons m Hm). apply Hext. intros y. apply Hu.
  Qed.

  (* ------------------------------------------------------------------ the theorem *)
  Theorem vcycle_fixed_point : forall rest L tau s,
    hier_ok L rest -> holds_solution L tau s -> same L (vcycle L rest tau s) s.
  Proof.
    induction rest as [|[T Lc] rest IH]; intros L tau s Hh Hs.
    - cbn [MultiLevel.vcycle]. destruct Hh as [Hok _]. apply sweepn_fixed; assumption.
    - cbn [MultiLevel.vcycle]. destruct Hh as (Hok & Hx & Hrest).
      pose proof Hok as (_ & Hext & _).
      set (s1 := sweepn (lpre L) L tau s).
      assert (H1 : same L s1 s) by (apply sweepn_fixed; assumption).
      assert (Hs1 : holds_solution L tau s1) by exact (holds_solution_same L tau s s1 Hext Hs H1).
      set (G := restrict_to T L Lc tau s1).
      pose proof (restrict_holds T L Lc tau s1 Hx Hs1) as HG. cbv zeta in HG. fold G in HG.
      pose proof (IH Lc (Gtau G) (Gu G, Gf G) Hrest HG) as [Hc Hcf].
      set (sc := vcycle Lc rest (Gtau G) (Gu G, Gf G)) in *.
      assert (Hsc : forall m, 1 <= m <= lM Lc -> forall y, fst sc m y = Guold G m y).
      { intros m Hm y. rewrite (Hc m) by lia. cbn [fst]. unfold G, MultiLevel.restrict_to, Transfer.restrict. cbn [Gu Guold]. reflexivity. }
      assert (Hscf : forall m, 1 <= m <= lM Lc -> forall p y, snd sc m p y = Gfold G m p y).
      { intros m Hm p y. rewrite (Hcf m Hm). cbn [snd]. unfold G, MultiLevel.restrict_to, Transfer.restrict. cbn [Gf Gfold]. reflexivity. }
      destruct Hs1 as (Hcons1 & Hz1 & Htau1).
      pose proof (prolong_same T L Lc G sc s1 Hx Hext Hcons1 Hsc Hscf) as H2. cbv zeta in H2.
      set (s2 := prolong_from T L Lc {| Gu := fst sc; Gf := snd sc; Gtau := Gtau G; Guold := Guold G; Gfold := Gfold G |} s1) in *.
      assert (Hs2 : holds_solution L tau s2).
      { apply (holds_solution_same L tau s1 s2 Hext); [split; [|split]; assumption | exact H2]. }
      apply (same_trans L _ s2); [apply sweepn_fixed; assumption|].
      apply (same_trans L _ s1); assumption.
  Qed.
End MultiLevelProofs.

Section ZeroDefect.
  Context {K : Type} (kO kI : K) (kadd kmul ksub : K -> K -> K) (kopp : K -> K).
  Hypothesis Rth : ring_theory kO kI kadd kmul ksub kopp (@eq K).
  Context {X : Type}.
  Lemma zero_defect_collocation1 (L : @level K X) tau (s : @lstate K X) :
    zero_defect kO kadd kmul ksub false L tau s <-> collocation1 kO kadd kmul (lM L) (ldt L) (lQ L) (fst s) (snd s) tau.
  Proof.
    unfold zero_defect, collocation1, nparts. split; intros H m Hm x.
    - apply (proj1 (residual_zero_iff_collocation kO kI kadd kmul ksub kopp Rth (lM L) (ldt L) (lQ L) (fst s) (snd s) tau m x)). apply H; exact Hm.
    - apply (proj2 (residual_zero_iff_collocation kO kI kadd kmul ksub kopp Rth (lM L) (ldt L) (lQ L) (fst s) (snd s) tau m x)). apply H; exact Hm.
  Qed.
  Lemma zero_defect_collocation2 (L : @level K X) tau (s : @lstate K X) :
    zero_defect kO kadd kmul ksub true L tau s <-> collocation2 kO kadd kmul (lM L) (ldt L) (lQ L) (fst s) (snd s) tau.
  Proof.
    unfold zero_defect, collocation2, nparts. split; intros H m Hm x.
    - apply (proj1 (residual_zero_iff_collocation2 kO kI kadd kmul ksub kopp Rth (lM L) (ldt L) (lQ L) (fst s) (snd s) tau m x)). apply H; exact Hm.
    - apply (proj2 (residual_zero_iff_collocation2 kO kI kadd kmul ksub kopp Rth (lM L) (ldt L) (lQ L) (fst s) (snd s) tau m x)). apply H; exact Hm.
  Qed.
End ZeroDefect.
