From Coq Require Import ZArith QArith Qabs List Bool Lia FinFun.
From PySDC Require Import Base.Tactics Base.Dyadic Base.Poly Model.FD Proofs.TransferOpsProofs.
Import ListNotations.

(* ---------------- get_steps ---------------------------------------------------------------- *)
Open Scope Z_scope.

Lemma zrange_length lo n : length (zrange lo n) = n.
Proof. unfold zrange. rewrite map_length, seq_length. reflexivity. Qed.

Lemma zrange_In lo n x : In x (zrange lo n) <-> lo <= x < lo + Z.of_nat n.
Proof.
  unfold zrange. rewrite in_map_iff. split.
  - intros [i [<- Hi]]. apply in_seq in Hi. lia.
  - intros H. exists (Z.to_nat (x - lo)). split; [lia|]. apply in_seq. lia.
Qed.

Lemma zrange_NoDup lo n : NoDup (zrange lo n).
Proof.
  unfold zrange. apply Injective_map_NoDup; [|apply seq_NoDup].
  intros a b H. lia.
Qed.

Lemma map_opp_NoDup l : NoDup l -> NoDup (map Z.opp l).
Proof. apply Injective_map_NoDup. intros a b H. lia. Qed.

Lemma map_opp_In l x : In x (map Z.opp l) <-> In (- x) l.
Proof.
  rewrite in_map_iff. split.
  - intros [y [<- Hy]]. rewrite Z.opp_involutive. exact Hy.
  - intros H. exists (- x). split; [lia | exact H].
Qed.

Lemma NoDup_snoc (l : list Z) x : NoDup l -> ~ In x l -> NoDup (l ++ [x]).
Proof.
  intros Hl Hx. induction Hl as [|y l Hy Hl IH]; cbn [app].
  - constructor; [intros []|constructor].
  - constructor.
    + rewrite in_app_iff. intros [H|[H|[]]]; [exact (Hy H)|]. subst. apply Hx. left; reflexivity.
    + apply IH. intro H. apply Hx. right; exact H.
Qed.

Lemma get_steps_length der ord st : 0 < der -> 0 < ord ->
  Z.of_nat (length (get_steps der ord st)) = steps_n der ord st.
Proof.
  intros Hd Ho. unfold get_steps.
  assert (Hn : 0 < steps_n der ord st) by (unfold steps_n; destruct st; lia).
  destruct st; rewrite ?map_length, ?zrange_length; try lia.
  destruct (steps_n der ord Upwind <=? 3) eqn:E.
  - rewrite map_length, zrange_length. lia.
  - rewrite app_length, zrange_length. cbn [length]. lia.
Qed.

Lemma get_steps_NoDup der ord st : NoDup (get_steps der ord st).
Proof.
  unfold get_steps. destruct st; try apply zrange_NoDup; try (apply map_opp_NoDup, zrange_NoDup).
  destruct (_ <=? 3) eqn:E.
  - apply map_opp_NoDup, zrange_NoDup.
  - apply NoDup_snoc; [apply zrange_NoDup|]. rewrite zrange_In. lia.
Qed.

(* what each layout contains *)
Lemma get_steps_center_In der ord x : 0 < der -> 0 < ord ->
  let n := steps_n der ord Center in
  In x (get_steps der ord Center) <-> - (n / 2) <= x < - (n / 2) + n.
Proof.
  intros Hd Ho n. unfold get_steps. fold n. rewrite zrange_In.
  assert (0 < n) by (unfold n, steps_n; lia). lia.
Qed.

Lemma get_steps_forward_In der ord x : 0 < der -> 0 < ord ->
  In x (get_steps der ord Forward) <-> 0 <= x < ord + der.
Proof. intros Hd Ho. unfold get_steps, steps_n. rewrite zrange_In. lia. Qed.

Lemma get_steps_backward_In der ord x : 0 < der -> 0 < ord ->
  In x (get_steps der ord Backward) <-> - (ord + der) < x <= 0.
Proof. intros Hd Ho. unfold get_steps, steps_n. rewrite map_opp_In, zrange_In. lia. Qed.

Lemma get_steps_upwind_In der ord x : 0 < der -> 0 < ord ->
  In x (get_steps der ord Upwind) <->
  (if ord + der <=? 3 then - (ord + der) < x <= 0 else - (ord + der - 2) <= x <= 1).
Proof.
  intros Hd Ho. unfold get_steps, steps_n. destruct (ord + der <=? 3) eqn:E.
  - rewrite map_opp_In, zrange_In. lia.
  - rewrite in_app_iff, zrange_In. cbn [In]. lia.
Qed.

(* ---------------- stencil soundness --------------------------------------------------------- *)
Open Scope Q_scope.

Definition Qsteps (steps : list Z) : list Q := map inject_Z steps.
Definition Qw (w : list dy) : list Q := map D2Q w.

Lemma D2Q_smoment steps : forall w k,
  D2Q (smoment steps w k) == moment (Qw w) (Qsteps steps) k.
Proof.
  unfold moment, Qw, Qsteps.
  induction steps as [|s steps IH]; intros [|wi w] k; cbn [smoment wsum map]; try reflexivity.
  rewrite D2Q_add, D2Q_mul, D2Q_dpow, D2Q_dZ, IH. reflexivity.
Qed.

Lemma D2Q_target d k : D2Q (target d k) == (if Nat.eqb k d then inject_Z (zfact d) else 0).
Proof. unfold target. destruct (Nat.eqb k d); [apply D2Q_dZ | reflexivity]. Qed.

Definition stencil_tol (steps : list Z) (w : list dy) (rtol : dy) (k : nat) : Q :=
  D2Q rtol * D2Q (smoment_abs steps w k).

Lemma check_moment_sound steps w d rtol k :
  check_moment steps w d rtol k = true ->
  Qabs (moment (Qw w) (Qsteps steps) k - (if Nat.eqb k d then inject_Z (zfact d) else 0))
    <= stencil_tol steps w rtol k.
Proof.
  unfold check_moment, stencil_tol. rewrite dleb_spec, D2Q_abs, D2Q_sub, D2Q_mul, D2Q_smoment, D2Q_target.
  intros H; exact H.
Qed.

(* Main theorem. A polynomial of degree < n is given by its coefficients a_0..a_{n-1} in the
   basis ((y - x)/h)^k centred at the evaluation point; its d-th derivative at x is then
   d! * a_d / h^d.  If the validator accepts the stencil, applying the stencil to the samples
   p(x + s_i h) yields h^d * p^(d)(x) = d! * a_d up to the stated bound, for EVERY such polynomial,
   every x and every h <> 0. *)
Theorem stencil_sound steps w d rtol :
  check_stencil steps w d rtol = true ->
  forall a, (length a <= length steps)%nat ->
  forall x h, ~ h == 0 ->
  Qabs (wsum (Qw w) (map (fun s => x + inject_Z s * h) steps) (fun y => peval a ((y - x) / h))
        - inject_Z (zfact d) * nth d a 0)
  <= abs_lin_from 0 a (stencil_tol steps w rtol).
Proof.
  unfold check_stencil. intros Hc a Hlen x h Hh.
  apply andb_prop in Hc as [_ Hall]. rewrite forallb_forall in Hall.
  assert (E1 : wsum (Qw w) (map (fun s => x + inject_Z s * h) steps) (fun y => peval a ((y - x) / h))
               == wsum (Qw w) (Qsteps steps) (peval a)).
  { unfold Qsteps.
    replace (map (fun s : Z => x + inject_Z s * h) steps) with (map (fun t => x + t * h) (map inject_Z steps))
      by (rewrite map_map; reflexivity).
    rewrite wsum_map. apply wsum_ext. intro t. apply peval_ext. field. exact Hh. }
  rewrite E1, wsum_peval.
  pose proof (lin_from_delta a 0 d (inject_Z (zfact d)) (Nat.le_0_l d)) as E2.
  rewrite Nat.sub_0_r in E2. rewrite <- E2.
  apply (lin_from_diff_bound a 0%nat _ _ _ (length steps)).
  - intros j Hj. apply check_moment_sound. apply Hall. apply in_seq. lia.
  - lia.
Qed.


(* The same statement for a polynomial given by its coefficients c in the GLOBAL monomial basis: the
   stencil applied to the samples p(x + s_i h) returns d! times the d-th Taylor coefficient of
   t |-> p(x + t h) (= h^d p^(d)(x)), for every polynomial with at most n coefficients, every x, every h.
   pshift (proved correct in TransferOpsProofs.peval_pshift) computes those Taylor coefficients. *)
Theorem stencil_sound_global steps w d rtol :
  check_stencil steps w d rtol = true ->
  forall c, (length c <= length steps)%nat ->
  forall x h,
  Qabs (wsum (Qw w) (map (fun s => x + inject_Z s * h) steps) (peval c)
        - inject_Z (zfact d) * nth d (pshift c x h) 0)
  <= abs_lin_from 0 (pshift c x h) (stencil_tol steps w rtol).
Proof.
  intros Hc c Hlen x h.
  pose proof (stencil_sound steps w d rtol Hc (pshift c x h)) as H.
  rewrite length_pshift in H. specialize (H Hlen 0 1 ltac:(intro E; discriminate E)).
  assert (E : wsum (Qw w) (map (fun s => x + inject_Z s * h) steps) (peval c)
              == wsum (Qw w) (map (fun s : Z => 0 + inject_Z s * 1) steps) (fun y => peval (pshift c x h) ((y - 0) / 1))).
  { replace (map (fun s : Z => x + inject_Z s * h) steps) with (map (fun t => x + t * h) (map inject_Z steps))
      by (rewrite map_map; reflexivity).
    replace (map (fun s : Z => 0 + inject_Z s * 1) steps) with (map (fun t => 0 + t * 1) (map inject_Z steps))
      by (rewrite map_map; reflexivity).
    rewrite !wsum_map. apply wsum_ext. intro t. rewrite peval_pshift. apply peval_ext. field. }
  rewrite E. exact H.
Qed.

(* ---------------- Neumann rows: soundness of check_neumann_row ------------------------------ *)
(* formal derivative of a coefficient list, and the moments of "evaluate the derivative at t" *)
Fixpoint pderiv_from (k : nat) (c : list Q) : list Q :=
  match c with [] => [] | a :: c' => (inject_Z (Z.of_nat k) * a) :: pderiv_from (S k) c' end.
Definition pderiv (c : list Q) : list Q := match c with [] => [] | _ :: c' => pderiv_from 1 c' end.
Definition qdmom (t : Q) (k : nat) : Q := match k with O => 0 | S k' => inject_Z (Z.of_nat k) * qpow t k' end.

Lemma lin_from_qdmom t c : forall k,
  lin_from (S k) c (qdmom t) == qpow t k * peval (pderiv_from (S k) c) t.
Proof.
  induction c as [|a c IH]; intros k; cbn [lin_from pderiv_from].
  - unfold peval; cbn [fold_right]. ring.
  - rewrite IH. unfold peval; cbn [fold_right]. fold (peval (pderiv_from (S (S k)) c) t).
    cbn [qdmom qpow]. ring.
Qed.

Lemma peval_pderiv t c : peval (pderiv c) t == lin_from 0 c (qdmom t).
Proof.
  destruct c as [|a c]; cbn [pderiv lin_from]; [reflexivity|].
  rewrite lin_from_qdmom. cbn [qdmom qpow]. ring.
Qed.

Lemma lin_from_add c : forall k (m1 m2 : nat -> Q),
  lin_from k c (fun j => m1 j + m2 j) == lin_from k c m1 + lin_from k c m2.
Proof. induction c as [|a c IH]; intros k m1 m2; cbn [lin_from]; [ring|]. rewrite IH. ring. Qed.
Lemma lin_from_scal c : forall k (q : Q) (m : nat -> Q),
  lin_from k c (fun j => q * m j) == q * lin_from k c m.
Proof. induction c as [|a c IH]; intros k q m; cbn [lin_from]; [ring|]. rewrite IH. ring. Qed.

Lemma D2Q_dmoment g k : D2Q (dmoment g k) == qdmom (inject_Z g) k.
Proof.
  destruct k as [|k]; cbn [dmoment qdmom]; [reflexivity|].
  rewrite D2Q_mul, D2Q_dZ, D2Q_dpow, D2Q_dZ. reflexivity.
Qed.

Definition neumann_tol (steps : list Z) (w : list dy) (c : dy) (g : Z) (rtol : dy) (k : nat) : Q :=
  D2Q rtol * D2Q (nmoment_abs steps w c g k).

Lemma check_nmoment_sound steps w c g d rtol k :
  check_nmoment steps w c g d rtol k = true ->
  Qabs ((moment (Qw w) (Qsteps steps) k + D2Q c * qdmom (inject_Z g) k)
        - (if Nat.eqb k d then inject_Z (zfact d) else 0))
    <= neumann_tol steps w c g rtol k.
Proof.
  unfold check_nmoment, neumann_tol, nmoment.
  rewrite dleb_spec, D2Q_abs, D2Q_sub, D2Q_mul, D2Q_add, D2Q_mul, D2Q_smoment, D2Q_dmoment, D2Q_target.
  intros H; exact H.
Qed.

(* A polynomial with at most n coefficients a_0.. in the basis ((y - x)/h)^k; its derivative with respect to y at the boundary
   point x + g h is  peval (pderiv a) g / h.  If the validator accepts the row, then
       sum_i w_i p(x + s_i h)  +  c * h * p'(x + g h)  =  h^d p^(d)(x) = d! a_d
   up to the stated bound, for EVERY such polynomial, every x and every h <> 0: the Neumann closure (matrix row plus the entry of
   the boundary vector for the prescribed derivative) is exact on these polynomials. *)
Theorem neumann_row_sound steps w c g d rtol n :
  check_neumann_row steps w c g d rtol n = true ->
  forall a, (length a <= n)%nat ->
  forall x h, ~ h == 0 ->
  Qabs (wsum (Qw w) (map (fun s => x + inject_Z s * h) steps) (fun y => peval a ((y - x) / h))
        + D2Q c * h * (peval (pderiv a) (((x + inject_Z g * h) - x) / h) / h)
        - inject_Z (zfact d) * nth d a 0)
  <= abs_lin_from 0 a (neumann_tol steps w c g rtol).
Proof.
  unfold check_neumann_row. intros Hc a Hlen x h Hh.
  apply andb_prop in Hc as [_ Hall]. rewrite forallb_forall in Hall.
  assert (E1 : wsum (Qw w) (map (fun s => x + inject_Z s * h) steps) (fun y => peval a ((y - x) / h))
               == wsum (Qw w) (Qsteps steps) (peval a)).
  { unfold Qsteps.
    replace (map (fun s : Z => x + inject_Z s * h) steps) with (map (fun t => x + t * h) (map inject_Z steps))
      by (rewrite map_map; reflexivity).
    rewrite wsum_map. apply wsum_ext. intro t. apply peval_ext. field. exact Hh. }
  assert (E2 : D2Q c * h * (peval (pderiv a) (((x + inject_Z g * h) - x) / h) / h)
               == D2Q c * peval (pderiv a) (inject_Z g)).
  { rewrite (peval_ext (pderiv a) (((x + inject_Z g * h) - x) / h) (inject_Z g)) by (field; exact Hh). field. exact Hh. }
  rewrite E1, E2, wsum_peval, peval_pderiv.
  rewrite <- lin_from_scal, <- lin_from_add.
  pose proof (lin_from_delta a 0 d (inject_Z (zfact d)) (Nat.le_0_l d)) as E3.
  rewrite Nat.sub_0_r in E3. rewrite <- E3.
  apply (lin_from_diff_bound a 0%nat _ _ _ n).
  - intros j Hj. apply check_nmoment_sound. apply Hall. apply in_seq. lia.
  - lia.
Qed.

(* ---------------- periodic matrix: the three eye() terms give exactly the wrap pattern ------- *)
Open Scope Z_scope.

Lemma periodic_entry_1_wrap size r c s wi :
  0 < size -> 0 <= r < size -> 0 <= c < size -> Z.abs s < size ->
  periodic_entry_1 size r c s wi =
  (if (r + s) mod size =? c then dadd (dadd wi d0) d0 else
   dadd (dadd d0 d0) d0) \/
  periodic_entry_1 size r c s wi = (if (r + s) mod size =? c then dadd (dadd d0 wi) d0 else dadd (dadd d0 d0) d0) \/
  periodic_entry_1 size r c s wi = (if (r + s) mod size =? c then dadd (dadd d0 d0) wi else dadd (dadd d0 d0) d0).
Proof.
  intros Hs Hr Hc Hab. unfold periodic_entry_1, eye_entry.
  destruct ((r + s) mod size =? c) eqn:E.
  - apply Z.eqb_eq in E.
    assert (Hcase : (r + s = c) \/ (0 < s /\ r + s - size = c) \/ (s < 0 /\ r + s + size = c)).
    { destruct (Z_lt_ge_dec (r + s) 0) as [Hneg|Hnn].
      - right; right. split; [lia|]. rewrite <- E. apply Z.mod_unique with (q := -1); lia.
      - destruct (Z_lt_ge_dec (r + s) size) as [Hlt|Hge].
        + left. rewrite <- E. symmetry. apply Z.mod_small. lia.
        + right; left. split; [lia|]. rewrite <- E. apply Z.mod_unique with (q := 1); lia. }
    destruct Hcase as [H|[[H1 H2]|[H1 H2]]].
    + left.
      replace (c =? r + s) with true by (symmetry; apply Z.eqb_eq; lia).
      replace (0 <=? c) with true by (symmetry; apply Z.leb_le; lia).
      replace (c <? size) with true by (symmetry; apply Z.ltb_lt; lia). cbn [andb].
      replace (c =? r + (- size + s)) with false by (symmetry; apply Z.eqb_neq; lia).
      replace (c =? r + (size + s)) with false by (symmetry; apply Z.eqb_neq; lia).
      cbn [andb]. rewrite !andb_false_r. reflexivity.
    + right; left.
      replace (c =? r + s) with false by (symmetry; apply Z.eqb_neq; lia). cbn [andb].
      replace (0 <? s) with true by (symmetry; apply Z.ltb_lt; lia).
      replace (c =? r + (- size + s)) with true by (symmetry; apply Z.eqb_eq; lia).
      replace (0 <=? c) with true by (symmetry; apply Z.leb_le; lia).
      replace (c <? size) with true by (symmetry; apply Z.ltb_lt; lia). cbn [andb].
      replace (s <? 0) with false by (symmetry; apply Z.ltb_ge; lia). cbn [andb]. reflexivity.
    + right; right.
      replace (c =? r + s) with false by (symmetry; apply Z.eqb_neq; lia). cbn [andb].
      replace (0 <? s) with false by (symmetry; apply Z.ltb_ge; lia). cbn [andb].
      replace (s <? 0) with true by (symmetry; apply Z.ltb_lt; lia).
      replace (c =? r + (size + s)) with true by (symmetry; apply Z.eqb_eq; lia).
      replace (0 <=? c) with true by (symmetry; apply Z.leb_le; lia).
      replace (c <? size) with true by (symmetry; apply Z.ltb_lt; lia). cbn [andb]. reflexivity.
  - left. apply Z.eqb_neq in E.
    assert (c <> r + s) by (intro; subst c; apply E; apply Z.mod_small; lia).
    assert (~ (0 < s /\ c = r + (- size + s))).
    { intros [? ?]. apply E. subst c. symmetry. apply Z.mod_unique with (q := 1); lia. }
    assert (~ (s < 0 /\ c = r + (size + s))).
    { intros [? ?]. apply E. subst c. symmetry. apply Z.mod_unique with (q := -1); lia. }
    replace (c =? r + s) with false by (symmetry; apply Z.eqb_neq; lia). cbn [andb].
    destruct (0 <? s) eqn:E1; destruct (s <? 0) eqn:E2; cbn [andb];
      try (replace (c =? r + (- size + s)) with false by (symmetry; apply Z.eqb_neq; lia));
      try (replace (c =? r + (size + s)) with false by (symmetry; apply Z.eqb_neq; lia));
      cbn [andb]; reflexivity.
Qed.

Lemma D2Q_periodic_entry_1 size r c s wi :
  0 < size -> 0 <= r < size -> 0 <= c < size -> Z.abs s < size ->
  (D2Q (periodic_entry_1 size r c s wi) == D2Q (if (r + s) mod size =? c then wi else d0))%Q.
Proof.
  intros Hs Hr Hc Hab.
  destruct (periodic_entry_1_wrap size r c s wi Hs Hr Hc Hab) as [H|[H|H]]; rewrite H;
    destruct ((r + s) mod size =? c); rewrite !D2Q_add, ?D2Q_d0; ring.
Qed.

(* value-level statement: every entry of the matrix the source assembles is the sum of the
   weights whose wrapped column (r + s_i) mod size is that entry's column *)
Theorem periodic_entry_is_wrap size steps : forall w r c,
  0 < size -> 0 <= r < size -> 0 <= c < size -> steps_small size steps = true ->
  (D2Q (periodic_entry size r c steps w) == D2Q (wrap_entry size r c steps w))%Q.
Proof.
  induction steps as [|s steps IH]; intros [|wi w] r c Hs Hr Hc Hsm; cbn [periodic_entry wrap_entry]; try reflexivity.
  cbn [steps_small forallb] in Hsm. apply andb_prop in Hsm as [H1 H2].
  rewrite !D2Q_add, IH by assumption.
  rewrite D2Q_periodic_entry_1 by (try assumption; apply Z.ltb_lt; exact H1). reflexivity.
Qed.
