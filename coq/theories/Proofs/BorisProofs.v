(* C02 (extension) — proofs about Model/Boris.v (boris_2nd_order sweeper).  K is an arbitrary commutative ring,
   the problem interface (eval_f, build_f, boris_solver) consists of arbitrary functions; the velocity theorem
   assumes the Boris solver contract (the equation PenningTrap_3D.boris_solver solves, see boris_contract). *)
From Coq Require Import List Arith Bool Lia Ring.
From PySDC Require Import Model.Sweep Model.Boris Proofs.SweepProofs.
Import ListNotations.

Section BorisProofs.
  Context {K : Type} (kO kI : K) (kadd kmul ksub : K -> K -> K) (kopp : K -> K).
  Hypothesis Rth : ring_theory kO kI kadd kmul ksub kopp (@eq K).
  Add Ring KringB : Rth.
  Context {X : Type}.
  Notation V := (X -> K).
  Context {Fld A : Type}.
  Local Infix "+!" := kadd (at level 50, left associativity).
  Local Infix "*!" := kmul (at level 40, left associativity).
  Local Infix "-!" := ksub (at level 50, left associativity).
  Variable M : nat.
  Variable dt t0 : K.
  Variable nodes delta : nat -> K.
  Variable Q QQ Sm ST SQ Sx : nat -> nat -> K.
  Variable QId : nat -> K.
  Variable bf : K -> Fld -> V -> V -> A -> V.
  Variable ef : K -> V -> V -> A -> Fld.
  Variable bs : V -> K -> Fld -> Fld -> V -> V -> A -> V.
  Variable attr : nat -> A.

  Notation tn := (tnode kadd kmul dt t0 nodes).
  Notation sumf := (sumf kO kadd).
  Notation bloop := (boris_loop kadd kmul M dt t0 nodes delta Sx QId bf ef bs attr).
  Notation Fof := (bforce kadd kmul M dt t0 nodes bf attr).
  Notation bupdate := (boris_update kO kadd kmul ksub M dt t0 nodes delta Sm ST SQ Sx QId bf ef bs attr).
  Notation gpos := (bgather_pos kO kadd kmul ksub M dt t0 nodes SQ Sx bf attr).
  Notation gvel := (bgather_vel kO kadd kmul ksub M dt t0 nodes Sm ST bf attr).
  Notation accum_spec := (accum_spec kO kI kadd kmul ksub kopp Rth).
  Notation sumf_scal := (sumf_scal kO kI kadd kmul ksub kopp Rth).
  Notation sumf_add := (sumf_add kO kI kadd kmul ksub kopp Rth).
  Notation sumf_snoc := (sumf_snoc kO kI kadd kmul ksub kopp Rth).
  Notation sumf_L5 := (sumf_L5 kO kI kadd kmul ksub kopp Rth).

  Lemma Fof_ext (p1 v1 : nat -> V) (f1 : nat -> Fld) p2 v2 f2 j :
    p1 j = p2 j -> v1 j = v2 j -> f1 j = f2 j -> Fof p1 v1 f1 j = Fof p2 v2 f2 j.
  Proof. intros Hp Hv Hf. unfold bforce. rewrite Hp, Hv, Hf. reflexivity. Qed.

  (* Law-free characterisation of the node loop (holds for any operations, e.g. floats): nodes outside the processed
     range are untouched; every processed node m holds
       pos_m  = gp m + sum_{j<m} dt(dt Sx[m,j]) F_j + (pos_{m-1} + dt delta_m v_0)      with the FINAL values of the nodes before m,
       fld_m  = eval_f(t_m, pos_m, OLD vel_m),
       vel_m  = boris_solver(gv m, dt QI[m,m], fld_{m-1}, fld_m, particle m-1). *)
  Lemma boris_loop_spec (gp gv : nat -> V) : forall n k (p' v' : nat -> V) (f' : nat -> Fld),
    1 <= k ->
    let r := bloop gp gv (seq k n) (p', v', f') in
    let pn := fst (fst r) in let vn := snd (fst r) in let fn := snd r in
    (forall j, j < k \/ k + n <= j -> pn j = p' j /\ vn j = v' j /\ fn j = f' j) /\
    (forall m, k <= m < k + n ->
       pn m = vadd kadd (accum kadd (gp m) 0 m (fun j => vscale kmul (dt *! (dt *! Sx m j)) (Fof pn vn fn j)))
                        (vadd kadd (pn (m - 1)) (vscale kmul (dt *! delta m) (v' 0))) /\
       fn m = ef (tn m) (pn m) (v' m) (attr m) /\
       vn m = bs (gv m) (dt *! QId m) (fn (m - 1)) (fn m) (pn (m - 1)) (vn (m - 1)) (attr (m - 1))).
  Proof.
    induction n as [|n IH]; intros k p' v' f' Hk; cbn [seq Boris.boris_loop].
    - cbn [fst snd]. split; [intros; repeat split; reflexivity | intros m Hm; lia].
    - set (pm := vadd kadd (accum kadd (gp k) 0 k (fun j => vscale kmul (dt *! (dt *! Sx k j)) (Fof p' v' f' j)))
                           (vadd kadd (p' (k - 1)) (vscale kmul (dt *! delta k) (v' 0)))).
      set (fm := ef (tn k) pm (v' k) (attr k)).
      set (vm := bs (gv k) (dt *! QId k) (f' (k - 1)) fm (p' (k - 1)) (v' (k - 1)) (attr (k - 1))).
      specialize (IH (S k) (upd p' k pm) (upd v' k vm) (upd f' k fm) ltac:(lia)).
      cbv zeta in IH. destruct IH as [IHf IHn].
      set (r := bloop gp gv (seq (S k) n) (upd p' k pm, upd v' k vm, upd f' k fm)) in *.
      assert (Hpre : forall j, j < k -> fst (fst r) j = p' j /\ snd (fst r) j = v' j /\ snd r j = f' j).
      { intros j Hj. destruct (IHf j ltac:(lia)) as [Ea [Eb Ec]]. rewrite Ea, Eb, Ec, !upd_other by lia.
        repeat split; reflexivity. }
      assert (Hk' : fst (fst r) k = pm /\ snd (fst r) k = vm /\ snd r k = fm).
      { destruct (IHf k ltac:(lia)) as [Ea [Eb Ec]]. rewrite Ea, Eb, Ec, !upd_same. repeat split; reflexivity. }
      destruct Hk' as [Ekp [Ekv Ekf]].
      split.
      + intros j Hj. destruct (IHf j ltac:(lia)) as [Ea [Eb Ec]]. rewrite Ea, Eb, Ec, !upd_other by lia.
        repeat split; reflexivity.
      + intros m Hm. destruct (Nat.eq_dec m k) as [->|Hne].
        * destruct (Hpre (k - 1) ltac:(lia)) as [Ea [Eb Ec]].
          destruct (Hpre 0 ltac:(lia)) as [_ [E0 _]].
          rewrite Ekp, Ekv, Ekf, Ea, Eb, Ec. repeat split; try reflexivity.
          unfold pm. f_equal. apply (accum_ext kadd). intros j Hj. f_equal.
          destruct (Hpre j ltac:(lia)) as [Ja [Jb Jc]]. symmetry. apply Fof_ext; assumption.
        * destruct (IHn m ltac:(lia)) as [Ea [Eb Ec]]. rewrite !upd_other in Ea, Eb by lia.
          repeat split; assumption.
  Qed.

  (* ---------------------------------------------------------------- tau: 0-to-node -> node-to-node *)
  (* the value the gather loop adds for node m: tau[m] - tau[m-1] (m > 1), tau[1], or nothing *)
  Definition tauN (sel : V * V -> V) (tau : nat -> option (V * V)) (m : nat) (x : X) : K :=
    match tau m with
    | None => kO
    | Some t => if Nat.leb m 1 then sel t x
                else match tau (m - 1) with Some t' => sel t x -! sel t' x | None => sel t x end
    end.
  Definition tauV (sel : V * V -> V) (tau : nat -> option (V * V)) (m : nat) (x : X) : K :=
    match tau m with Some t => sel t x | None => kO end.

  Lemma add_tau_spec sel tau m (g : V) x :
    add_tau kadd ksub sel tau m g x = g x +! tauN sel tau m x.
  Proof.
    unfold add_tau, tauN. destruct (tau m) as [t|]; [|ring].
    destruct (Nat.leb m 1); [reflexivity|]. destruct (tau (m - 1)) as [t'|]; unfold vadd, vsub; [ring|reflexivity].
  Qed.

  Lemma gpos_spec (p v : nat -> V) (f : nat -> Fld) tau m x :
    gpos p v f tau m x = dt *! dt *! sumf (fun j => (SQ m j -! Sx m j) *! Fof p v f j x) 0 (S M) +! tauN fst tau m x.
  Proof.
    unfold bgather_pos. rewrite add_tau_spec, accum_spec. unfold vzero, vscale.
    rewrite (sumf_ext kO kadd (fun j => dt *! (dt *! (SQ m j -! Sx m j)) *! Fof p v f j x)
               (fun j => (dt *! dt) *! ((SQ m j -! Sx m j) *! Fof p v f j x)) 0 (S M)) by (intros; ring).
    rewrite sumf_scal. ring.
  Qed.

  Lemma gvel_spec (p v : nat -> V) (f : nat -> Fld) tau m x :
    gvel p v f tau m x = dt *! sumf (fun j => (Sm m j -! ST m j) *! Fof p v f j x) 0 (S M) +! tauN snd tau m x.
  Proof.
    unfold bgather_vel. rewrite add_tau_spec, accum_spec. unfold vzero, vscale.
    rewrite (sumf_ext kO kadd (fun j => dt *! (Sm m j -! ST m j) *! Fof p v f j x)
               (fun j => dt *! ((Sm m j -! ST m j) *! Fof p v f j x)) 0 (S M)) by (intros; ring).
    rewrite sumf_scal. ring.
  Qed.

  (* ---------------------------------------------------------------- update_nodes *)
  (* the exception path: tau[m] present but tau[m-1] missing -> the gather loop raises, nothing is changed *)
  Theorem boris_update_raises p v f tau : tau_ok M tau = false -> bupdate p v f tau = None.
  Proof. intros H. unfold boris_update. rewrite H. reflexivity. Qed.

  (* boris_2nd_order.update_nodes, node-to-node position form + frame + what the stored fields and velocities are;
     no assumption on the problem at all *)
  Theorem boris_position_form (p v : nat -> V) (f : nat -> Fld) tau :
    tau_ok M tau = true ->
    exists r, bupdate p v f tau = Some r /\
    let pn := fst (fst r) in let vn := snd (fst r) in let fn := snd r in
    (forall j, j = 0 \/ M < j -> pn j = p j /\ vn j = v j /\ fn j = f j) /\
    forall m, 1 <= m <= M ->
      fn m = ef (tn m) (pn m) (v m) (attr m) /\
      vn m = bs (gvel p v f tau m) (dt *! QId m) (fn (m - 1)) (fn m) (pn (m - 1)) (vn (m - 1)) (attr (m - 1)) /\
      forall x,
        pn m x -! pn (m - 1) x -! dt *! dt *! sumf (fun j => Sx m j *! Fof pn vn fn j x) 0 m
        = dt *! delta m *! v 0 x
          +! dt *! dt *! sumf (fun j => (SQ m j -! Sx m j) *! Fof p v f j x) 0 (S M) +! tauN fst tau m x.
  Proof.
    intros Hok. unfold boris_update. rewrite Hok. eexists. split; [reflexivity|].
    pose proof (boris_loop_spec (gpos p v f tau) (gvel p v f tau) M 1 p v f (le_n 1)) as Sp.
    cbv zeta in Sp |- *.
    set (r := bloop (gpos p v f tau) (gvel p v f tau) (seq 1 M) (p, v, f)) in *.
    destruct Sp as [Sf Sn].
    split; [intros j Hj; apply Sf; lia|].
    intros m Hm. destruct (Sn m ltac:(lia)) as [Ep [Ef Ev]].
    split; [exact Ef|]. split; [exact Ev|]. intros x.
    rewrite Ep at 1. unfold vadd at 1 2. rewrite accum_spec, gpos_spec. unfold vscale.
    rewrite (sumf_ext kO kadd (fun j => dt *! (dt *! Sx m j) *! Fof (fst (fst r)) (snd (fst r)) (snd r) j x)
               (fun j => (dt *! dt) *! (Sx m j *! Fof (fst (fst r)) (snd (fst r)) (snd r) j x)) 0 m) by (intros; ring).
    rewrite sumf_scal. ring.
  Qed.

  (* ---------------------------------------------------------------- the Boris solver contract *)
  (* PenningTrap_3D.boris_solver(c, a, old_fields, new_fields, old_parts) returns the velocity v with
         v = v_old + c + a/2 * ( G(old_fields, v_old) + G(new_fields, v) ),      G(fld, vel) = q/m (E + vel x B)
     (q, m those of old_parts): the trapezoidal rule, implicit in v through the magnetic force, solved exactly by the
     Boris rotation.  khalf is the constant 1/2 of the code (dt / 2 * ..., 0.5 * (E_old + E_new)). *)
  Variable khalf : K.
  Variable G : Fld -> V -> A -> V.
  Definition boris_contract : Prop :=
    forall c a fo fn po vo ao x,
      bs c a fo fn po vo ao x
      = vo x +! c x +! a *! khalf *! (G fo vo ao x +! G fn (bs c a fo fn po vo ao) ao x).
  (* build_f assembles exactly that force (it ignores time and position, as PenningTrap_3D.build_f does) *)
  Definition build_f_is (G : Fld -> V -> A -> V) : Prop := forall t fl po ve a, bf t fl po ve a = G fl ve a.

  (* boris_2nd_order.update_nodes: position / velocity node-to-node block form, for every M, tables, data, tau *)
  Theorem boris_block_form (p v : nat -> V) (f : nat -> Fld) tau :
    boris_contract -> build_f_is G -> (forall j, attr j = attr 0) ->
    tau_ok M tau = true ->
    exists r, bupdate p v f tau = Some r /\
    let pn := fst (fst r) in let vn := snd (fst r) in let fn := snd r in
    (forall j, j = 0 \/ M < j -> pn j = p j /\ vn j = v j /\ fn j = f j) /\
    forall m, 1 <= m <= M ->
      fn m = ef (tn m) (pn m) (v m) (attr m) /\
      forall x,
        pn m x -! pn (m - 1) x -! dt *! dt *! sumf (fun j => Sx m j *! Fof pn vn fn j x) 0 m
        = dt *! delta m *! v 0 x
          +! dt *! dt *! sumf (fun j => (SQ m j -! Sx m j) *! Fof p v f j x) 0 (S M) +! tauN fst tau m x
        /\
        vn m x -! vn (m - 1) x -! dt *! QId m *! khalf *! (Fof pn vn fn (m - 1) x +! Fof pn vn fn m x)
        = dt *! sumf (fun j => (Sm m j -! ST m j) *! Fof p v f j x) 0 (S M) +! tauN snd tau m x.
  Proof.
    intros Hc Hb Ha Hok. destruct (boris_position_form p v f tau Hok) as [r [Er H]].
    exists r. split; [exact Er|]. cbv zeta in H |- *. destruct H as [Hf Hn]. split; [exact Hf|].
    intros m Hm. destruct (Hn m Hm) as [Ef [Ev Hp]]. split; [exact Ef|]. intros x. split; [apply Hp|].
    rewrite Ev at 1. rewrite Hc, <- Ev. rewrite gvel_spec. unfold bforce. rewrite !Hb.
    rewrite (Ha (m - 1)), (Ha m). ring.
  Qed.

  (* ---------------------------------------------------------------- integrate, compute_end_point, residual *)
  Variable weights qQ : nat -> K.
  Notation ipos := (bint_pos kO kadd kmul M dt t0 nodes Q QQ bf attr).
  Notation ivel := (bint_vel kO kadd kmul M dt t0 nodes Q bf attr).

  (* integrate(): pos part dt^2 QQ F + dt (sum_j Q[m,j]) v0, vel part dt Q F *)
  Theorem boris_integrate_form (p v : nat -> V) (f : nat -> Fld) m x :
    ipos p v f m x = dt *! dt *! sumf (fun j => QQ m j *! Fof p v f j x) 1 M +! dt *! sumf (fun j => Q m j) 1 M *! v 0 x /\
    ivel p v f m x = dt *! sumf (fun j => Q m j *! Fof p v f j x) 1 M.
  Proof.
    split.
    - unfold bint_pos. rewrite accum_spec. unfold vzero, vadd, vscale.
      rewrite (sumf_ext kO kadd (fun j => dt *! (dt *! QQ m j) *! Fof p v f j x +! dt *! Q m j *! v 0 x)
                 (fun j => (dt *! dt) *! (QQ m j *! Fof p v f j x) +! (dt *! v 0 x) *! Q m j) 1 M) by (intros; ring).
      rewrite sumf_add, !sumf_scal.
      set (SQ' := sumf (fun j => Q m j) 1 M). ring.
    - unfold bint_vel. rewrite accum_spec. unfold vzero, vscale.
      rewrite (sumf_ext kO kadd (fun j => dt *! Q m j *! Fof p v f j x) (fun j => dt *! (Q m j *! Fof p v f j x)) 1 M) by (intros; ring).
      rewrite sumf_scal. ring.
  Qed.

  (* compute_end_point(): always  x0 + dt (sum w) v0 + dt^2 sum_m qQ_m F_m (+ tau[-1]),  v0 + dt sum_m w_m F_m (+ tau[-1]) *)
  Theorem boris_end_point_form (p v : nat -> V) (f : nat -> Fld) tau :
    let e := boris_end_point kadd kmul M dt t0 nodes bf attr weights qQ p v f tau in
    forall x,
      fst e x = p 0 x +! dt *! sumf weights 1 M *! v 0 x +! dt *! dt *! sumf (fun m => qQ m *! Fof p v f m x) 1 M +! tauV fst tau M x /\
      snd e x = v 0 x +! dt *! sumf (fun m => weights m *! Fof p v f m x) 1 M +! tauV snd tau M x.
  Proof.
    intros e x. unfold e, boris_end_point, tauV.
    assert (Gp : accum kadd (p 0) 1 M (fun m => vadd kadd (vscale kmul (dt *! (dt *! qQ m)) (Fof p v f m)) (vscale kmul (dt *! weights m) (v 0))) x
                 = p 0 x +! dt *! sumf weights 1 M *! v 0 x +! dt *! dt *! sumf (fun m => qQ m *! Fof p v f m x) 1 M).
    { rewrite accum_spec. unfold vadd, vscale.
      rewrite (sumf_ext kO kadd (fun m => dt *! (dt *! qQ m) *! Fof p v f m x +! dt *! weights m *! v 0 x)
                 (fun m => (dt *! dt) *! (qQ m *! Fof p v f m x) +! (dt *! v 0 x) *! weights m) 1 M) by (intros; ring).
      rewrite sumf_add, !sumf_scal.
      set (SW := sumf (fun m => weights m) 1 M). change (sumf weights 1 M) with SW. ring. }
    assert (Gv : accum kadd (v 0) 1 M (fun m => vscale kmul (dt *! weights m) (Fof p v f m)) x
                 = v 0 x +! dt *! sumf (fun m => weights m *! Fof p v f m x) 1 M).
    { rewrite accum_spec. unfold vscale.
      rewrite (sumf_ext kO kadd (fun m => dt *! weights m *! Fof p v f m x) (fun m => dt *! (weights m *! Fof p v f m x)) 1 M) by (intros; ring).
      rewrite sumf_scal. reflexivity. }
    destruct (tau M) as [t|]; cbn [fst snd]; unfold vadd; rewrite Gp, Gv; split; ring.
  Qed.

  (* Sweeper.compute_residual() with this integrate(): the defect of the second-order collocation equations *)
  Theorem boris_residual_form (p v : nat -> V) (f : nat -> Fld) tau m x :
    let r := boris_residual kO kadd kmul ksub M dt t0 nodes Q QQ bf attr p v f tau m in
    fst r x = p 0 x +! dt *! sumf (fun j => Q m j) 1 M *! v 0 x +! dt *! dt *! sumf (fun j => QQ m j *! Fof p v f j x) 1 M
              +! tauV fst tau m x -! p m x /\
    snd r x = v 0 x +! dt *! sumf (fun j => Q m j *! Fof p v f j x) 1 M +! tauV snd tau m x -! v m x.
  Proof.
    intros r. unfold r, boris_residual, tauV. destruct (boris_integrate_form p v f m x) as [Ip Iv].
    destruct (tau m) as [t|]; cbn [fst snd]; unfold vadd, vsub; rewrite Ip, Iv; split; ring.
  Qed.
End BorisProofs.
