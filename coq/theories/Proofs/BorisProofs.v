(* C02 (extension) — proofs about Model/Boris.v (boris_2nd_order sweeper).  K is an arbitrary commutative ring,
   the problem interface (eval_f, build_f, boris_solver) consists of arbitrary functions; the velocity theorem
   assumes the Boris solver contract (the equation PenningTrap_3D.boris_solver solves, see boris_contract). *)
From Coq Require Import List Arith Bool Lia Ring.
From PySDC Require Import Model.Sweep Model.Boris Proofs.SweepProofs.
Import ListNotations.

Section BorisProofs.
  Context {K : Type} (kO kI : K) (kadd kmul ksub : K -> K -> K) (kopp : K -> K).
  Hypothesis Rth : ring_theory kO kI kadd kmul ksub kopp (@eq K).
  Add Ring KringB : Rth.
  Context {X : Type}.
  Notation V := (X -> K).
  Context {Fld A : Type}.
  Local Infix "+!" := kadd (at level 50, left associativity).
  Local Infix "*!" := kmul (at level 40, left associativity).
  Local Infix "-!" := ksub (at level 50, left associativity).
  Variable M : nat.
  Variable dt t0 : K.
  Variable nodes delta : nat -> K.
  Variable Q QQ Sm ST SQ Sx : nat -> nat -> K.
  Variable QId : nat -> K.
  Variable bf : K -> Fld -> V -> V -> A -> V.
  Variable ef : K -> V -> V -> A -> Fld.
  Variable bs : V -> K -> Fld -> Fld -> V -> V -> A -> V.
  Variable attr : nat -> A.

  Notation tn := (tnode kadd kmul dt t0 nodes).
  Notation sumf := (sumf kO kadd).
  Notation bloop := (boris_loop kadd kmul M dt t0 nodes delta Sx QId bf ef bs attr).
  Notation Fof := (bforce kadd kmul M dt t0 nodes bf attr).
  Notation bupdate := (boris_update kO kadd kmul ksub M dt t0 nodes delta Sm ST SQ Sx QId bf ef bs attr).
  Notation gpos := (bgather_pos kO kadd kmul ksub M dt t0 nodes SQ Sx bf attr).
  Notation gvel := (bgather_vel kO kadd kmul ksub M dt t0 nodes Sm ST bf attr).
  Notation accum_spec := (accum_spec kO kI kadd kmul ksub kopp Rth).
  Notation sumf_scal := (sumf_scal kO kI kadd kmul ksub kopp Rth).
  Notation sumf_add := (sumf_add kO kI kadd kmul ksub kopp Rth).
  Notation sumf_snoc := (sumf_snoc kO kI kadd kmul ksub kopp Rth).
  Notation sumf_L5 := (sumf_L5 kO kI kadd kmul ksub kopp Rth).

  Lemma Fof_ext (p1 v1 : nat -> V) (f1 : nat -> Fld) p2 v2 f2 j :
    p1 j = p2 j -> v1 j = v2 j -> f1 j = f2 j -> Fof p1 v1 f1 j = Fof p2 v2 f2 j.
  Proof. intros Hp Hv Hf. unfold bforce. rewrite Hp, Hv, Hf. reflexivity. Qed.

  (* Law-free characterisation of the node loop (holds for any operations, e.g. floats): nodes outside the processed
     range are untouched; every processed node m holds
       pos_m  = gp m + sum_{j<m} dt(dt Sx[m,j]) F_j + (pos_{m-1} + dt delta_m v_0)      with the FINAL values of the nodes before m,
       fld_m  = eval_f(t_m, pos_m, OLD vel_m),
       vel_m  = boris_solver(gv m, dt QI[m,m], fld_{m-1}, fld_m, particle m-1). *)
  Lemma boris_loop_spec (gp gv : nat -> V) : forall n k (p' v' : nat -> V) (f' : nat -> Fld),
    1 <= k ->
    let r := bloop gp gv (seq k n) (p', v', f') in
    let pn := fst (fst r) in let vn := snd (fst r) in let fn := snd r in
    (forall j, j < k \/ k + n <= j -> pn j = p' j /\ vn j = v' j /\ fn j = f' j) /\
    (forall m, k <= m < k + n ->
       pn m = vadd kadd (accum kadd (gp m) 0 m (fun j => vscale kmul (dt *! (dt *! Sx m j)) (Fof pn vn fn j)))
                        (vadd kadd (pn (m - 1)) (vscale kmul (dt *! delta m) (v' 0))) /\
       fn m = ef (tn m) (pn m) (v' m) (attr m) /\
       vn m = bs (gv m) (dt *! QId m) (fn (m - 1)) (fn m) (pn (m - 1)) (vn (m - 1)) (attr (m - 1))).
  Proof.
    induction n as [|n IH]; intros k p' v' f' Hk; cbn [seq Boris.boris_loop].
    - cbn [fst snd]. split; [intros; repeat split; reflexivity | intros m Hm; lia].
    - set (pm := vadd kadd (accum kadd (gp k) 0 k (fun j => vscale kmul (dt *! (dt *! Sx k j)) (Fof p' v' f' j)))
                           (vadd kadd (p' (k - 1)) (vscale kmul (dt *! delta k) (v' 0)))).
      set (fm := ef (tn k) pm (v' k) (attr k)).
      set (vm := bs (gv k) (dt *! QId k) (f' (k - 1)) fm (p' (k - 1)) (v' (k - 1)) (attr (k - 1))).
      specialize (IH (S k) (upd p' k pm) (upd v' k vm) (upd f' k fm) ltac:(lia)).
      cbv zeta in IH. destruct IH as [IHf IHn].
      set (r := bloop gp gv (seq (S k) n) (upd p' k pm, upd v' k vm, upd f' k fm)) in *.
      assert (Hpre : forall j, j < k -> fst (fst r) j = p' j /\ snd (fst r) j = v' j /\ snd r j = f' j).
      { intros j Hj. destruct (IHf j ltac:(lia)) as [Ea [Eb Ec]]. rewrite Ea, Eb, Ec, !upd_other by lia.
        repeat split; reflexivity. }
      assert (Hk' : fst (fst r) k = pm /\ snd (fst r) k = vm /\ snd r k = fm).
      { destruct (IHf k ltac:(lia)) as [Ea [Eb Ec]]. rewrite Ea, Eb, Ec, !upd_same. repeat split; reflexivity. }
      destruct Hk' as [Ekp [Ekv Ekf]].
      split.
      + intros j Hj. destruct (IHf j ltac:(lia)) as [Ea [Eb Ec]]. rewrite Ea, Eb, Ec, !upd_other by lia.
        repeat split; reflexivity.
      + intros m Hm. destruct (Nat.eq_dec m k) as [->|Hne].
        * destruct (Hpre (k - 1) ltac:(lia)) as [Ea [Eb Ec]].
          destruct (Hpre 0 ltac:(lia)) as [_ [E0 _]].
          rewrite Ekp, Ekv, Ekf, Ea, Eb, Ec. repeat split; try reflexivity.
          unfold pm. f_equal. apply (accum_ext kadd). intros j Hj. f_equal.
          destruct (Hpre j ltac:(lia)) as [Ja [Jb Jc]]. symmetry. apply Fof_ext; assumption.
        * destruct (IHn m ltac:(lia)) as [Ea [Eb Ec]]. rewrite !upd_other in Ea, Eb by lia.
          repeat split; assumption.
  Qed.

  (* ---------------------------------------------------------------- tau: 0-to-node -> node-to-node *)
  (* the value the gather loop adds for node m: tau[m] - tau[m-1] (m > 1), tau[1], or nothing *)
  Definition tauN (sel : V * V -> V) (tau : nat -> option (V * V)) (m : nat) (x : X) : K :=
    match tau m with
    | None => kO
    | Some t => if Nat.leb m 1 then sel t x
                else match tau (m - 1) with Some t' => sel t x -! sel t' x | None => sel t x end
    end.
  Definition tauV (sel : V * V -> V) (tau : nat -> option (V * V)) (m : nat) (x : X) : K :=
    match tau m with Some t => sel t x | None => kO end.

  Lemma add_tau_spec sel tau m (g : V) x :
    add_tau kadd ksub sel tau m g x = g x +! tauN sel tau m x.
  Proof.
    unfold add_tau, tauN. destruct (tau m) as [t|]; [|ring].
    destruct (Nat.leb m 1); [reflexivity|]. destruct (tau (m - 1)) as [t'|]; unfold vadd, vsub; [ring|reflexivity].
  Qed.

  Lemma gpos_spec (p v : nat -> V) (f : nat -> Fld) tau m x :
    gpos p v f tau m x = dt *! dt *! sumf (fun j => (SQ m j -! Sx m j) *! Fof p v f j x) 0 (S M) +! tauN fst tau m x.
  Proof.
    unfold bgather_pos. rewrite add_tau_spec, accum_spec. unfold vzero, vscale.
    rewrite (sumf_ext kO kadd (fun j => dt *! (dt *! (SQ m j -! Sx m j)) *! Fof p v f j x)
               (fun j => (dt *! dt) *! ((SQ m j -! Sx m j) *! Fof p v f j x)) 0 (S M)) by (intros; ring).
    rewrite sumf_scal. ring.
  Qed.

  Lemma gvel_spec (p v : nat -> V) (f : nat -> Fld) tau m x :
    gvel p v f tau m x = dt *! sumf (fun j => (Sm m j -! ST m j) *! Fof p v f j x) 0 (S M) +! tauN snd tau m x.
  Proof.
    unfold bgather_vel. rewrite add_tau_spec, accum_spec. unfold vzero, vscale.
    rewrite (sumf_ext kO kadd (fun j => dt *! (Sm m j -! ST m j) *! Fof p v f j x)
               (fun j => dt *! ((Sm m j -! ST m j) *! Fof p v f j x)) 0 (S M)) by (intros; ring).
    rewrite sumf_scal. ring.
  Qed.

  (* ---------------------------------------------------------------- update_nodes *)
  (* the exception path: tau[m] present but tau[m-1] missing -> the gather loop raises, nothing is changed *)
  Theorem boris_update_raises p v f tau : tau_ok M tau = false -> bupdate p v f tau = None.
  Proof. intros H. unfold boris_update. rewrite H. reflexivity. Qed.

  (* boris_2nd_order.update_nodes, node-to-node position form + frame + what the stored fields and velocities are;
     no assumption on the problem at all *)
  Theorem boris_position_form (p v : nat -> V) (f : nat -> Fld) tau :
    tau_ok M tau = true ->
    exists r, bupdate p v f tau = Some r /\
    let pn := fst (fst r) in let vn := snd (fst r) in let fn := snd r in
    (forall j, j = 0 \/ M < j -> pn j = p j /\ vn j = v j /\ fn j = f j) /\
    forall m, 1 <= m <= M ->
      fn m = ef (tn m) (pn m) (v m) (attr m) /\
      vn m = bs (gvel p v f tau m) (dt *! QId m) (fn (m - 1)) (fn m) (pn (m - 1)) (vn (m - 1)) (attr (m - 1)) /\
      forall x,
        pn m x -! pn (m - 1) x -! dt *! dt *! sumf (fun j => Sx m j *! Fof pn vn fn j x) 0 m
        = dt *! delta m *! v 0 x
          +! dt *! dt *! sumf (fun j => (SQ m j -! Sx m j) *! Fof p v f j x) 0 (S M) +! tauN fst tau m x.
  Proof.
    intros Hok. unfold boris_update. rewrite Hok. eexists. split; [reflexivity|].
    pose proof (boris_loop_spec (gpos p v f tau) (gvel p v f tau) M 1 p v f (le_n 1)) as Sp.
    cbv zeta in Sp |- *.
    set (r := bloop (gpos p v f tau) (gvel p v f tau) (seq 1 M) (p, v, f)) in *.
    destruct Sp as [Sf Sn].
    split; [intros j Hj; apply Sf; lia|].
    intros m Hm. destruct (Sn m ltac:(lia)) as [Ep [Ef Ev]].
    split; [exact Ef|]. split; [exact Ev|]. intros x.
    pose proof (f_equal (fun g => g x) Ep) as Ex. cbv beta in Ex. rewrite Ex. clear Ex.
    unfold vadd at 1 2. rewrite accum_spec, gpos_spec. unfold vscale.
    rewrite (sumf_ext kO kadd (fun j => dt *! (dt *! Sx m j) *! Fof (fst (fst r)) (snd (fst r)) (snd r) j x)
               (fun j => (dt *! dt) *! (Sx m j *! Fof (fst (fst r)) (snd (fst r)) (snd r) j x)) 0 m) by (intros; ring).
    rewrite sumf_scal. ring.
  Qed.

  (* ---------------------------------------------------------------- the Boris solver contract *)
  (* PenningTrap_3D.boris_solver(c, a, old_fields, new_fields, old_parts) returns the velocity v with
         v = v_old + c + a/2 * ( G(old_fields, v_old) + G(new_fields, v) ),      G(fld, vel) = q/m (E + vel x B)
     (q, m those of old_parts): the trapezoidal rule, implicit in v through the magnetic force, solved exactly by the
     Boris rotation.  khalf is the constant 1/2 of the code (dt / 2 * ..., 0.5 * (E_old + E_new)). *)
  Variable khalf : K.
  Variable G : Fld -> V -> A -> V.
  Definition boris_contract : Prop :=
    forall c a fo fn po vo ao x,
      bs c a fo fn po vo ao x
      = vo x +! c x +! a *! khalf *! (G fo vo ao x +! G fn (bs c a fo fn po vo ao) ao x).
  (* build_f assembles exactly that force (it ignores time and position, as PenningTrap_3D.build_f does) *)
  Definition build_f_is (G : Fld -> V -> A -> V) : Prop := forall t fl po ve a, bf t fl po ve a = G fl ve a.

  (* boris_2nd_order.update_nodes: position / velocity node-to-node block form, for every M, tables, data, tau *)
  Theorem boris_block_form (p v : nat -> V) (f : nat -> Fld) tau :
    boris_contract -> build_f_is G -> (forall j, attr j = attr 0) ->
    tau_ok M tau = true ->
    exists r, bupdate p v f tau = Some r /\
    let pn := fst (fst r) in let vn := snd (fst r) in let fn := snd r in
    (forall j, j = 0 \/ M < j -> pn j = p j /\ vn j = v j /\ fn j = f j) /\
    forall m, 1 <= m <= M ->
      fn m = ef (tn m) (pn m) (v m) (attr m) /\
      forall x,
        pn m x -! pn (m - 1) x -! dt *! dt *! sumf (fun j => Sx m j *! Fof pn vn fn j x) 0 m
        = dt *! delta m *! v 0 x
          +! dt *! dt *! sumf (fun j => (SQ m j -! Sx m j) *! Fof p v f j x) 0 (S M) +! tauN fst tau m x
        /\
        vn m x -! vn (m - 1) x -! dt *! QId m *! khalf *! (Fof pn vn fn (m - 1) x +! Fof pn vn fn m x)
        = dt *! sumf (fun j => (Sm m j -! ST m j) *! Fof p v f j x) 0 (S M) +! tauN snd tau m x.
  Proof.
    intros Hc Hb Ha Hok. destruct (boris_position_form p v f tau Hok) as [r [Er H]].
    exists r. split; [exact Er|]. cbv zeta in H |- *. destruct H as [Hf Hn]. split; [exact Hf|].
    intros m Hm. destruct (Hn m Hm) as [Ef [Ev Hp]]. split; [exact Ef|]. intros x. split; [apply Hp|].
    pose proof (Hc (gvel p v f tau m) (dt *! QId m) (snd r (m - 1)) (snd r m) (fst (fst r) (m - 1)) (snd (fst r) (m - 1))
                   (attr (m - 1)) x) as C.
    rewrite <- Ev in C. rewrite C. rewrite gvel_spec. unfold bforce. rewrite !Hb.
    rewrite (Ha (m - 1)), (Ha m). ring.
  Qed.

  (* ---------------------------------------------------------------- integrate, compute_end_point, residual *)
  Variable weights qQ : nat -> K.
  Notation ipos := (bint_pos kO kadd kmul M dt t0 nodes Q QQ bf attr).
  Notation ivel := (bint_vel kO kadd kmul M dt t0 nodes Q bf attr).

  (* integrate(): pos part dt^2 QQ F + dt (sum_j Q[m,j]) v0, vel part dt Q F *)
  Theorem boris_integrate_form (p v : nat -> V) (f : nat -> Fld) m x :
    ipos p v f m x = dt *! dt *! sumf (fun j => QQ m j *! Fof p v f j x) 1 M +! dt *! sumf (fun j => Q m j) 1 M *! v 0 x /\
    ivel p v f m x = dt *! sumf (fun j => Q m j *! Fof p v f j x) 1 M.
  Proof.
    split.
    - unfold bint_pos. rewrite accum_spec. unfold vzero, vadd, vscale.
      rewrite (sumf_ext kO kadd (fun j => dt *! (dt *! QQ m j) *! Fof p v f j x +! dt *! Q m j *! v 0 x)
                 (fun j => (dt *! dt) *! (QQ m j *! Fof p v f j x) +! (dt *! v 0 x) *! Q m j) 1 M) by (intros; ring).
      rewrite sumf_add, !sumf_scal.
      set (SQ' := sumf (fun j => Q m j) 1 M). ring.
    - unfold bint_vel. rewrite accum_spec. unfold vzero, vscale.
      rewrite (sumf_ext kO kadd (fun j => dt *! Q m j *! Fof p v f j x) (fun j => dt *! (Q m j *! Fof p v f j x)) 1 M) by (intros; ring).
      rewrite sumf_scal. ring.
  Qed.

  (* compute_end_point(): always  x0 + dt (sum w) v0 + dt^2 sum_m qQ_m F_m (+ tau[-1]),  v0 + dt sum_m w_m F_m (+ tau[-1]) *)
  Theorem boris_end_point_form (p v : nat -> V) (f : nat -> Fld) tau :
    let e := boris_end_point kadd kmul M dt t0 nodes bf attr weights qQ p v f tau in
    forall x,
      fst e x = p 0 x +! dt *! sumf weights 1 M *! v 0 x +! dt *! dt *! sumf (fun m => qQ m *! Fof p v f m x) 1 M +! tauV fst tau M x /\
      snd e x = v 0 x +! dt *! sumf (fun m => weights m *! Fof p v f m x) 1 M +! tauV snd tau M x.
  Proof.
    intros e x. unfold e, boris_end_point, tauV.
    assert (Gp : accum kadd (p 0) 1 M (fun m => vadd kadd (vscale kmul (dt *! (dt *! qQ m)) (Fof p v f m)) (vscale kmul (dt *! weights m) (v 0))) x
                 = p 0 x +! dt *! sumf weights 1 M *! v 0 x +! dt *! dt *! sumf (fun m => qQ m *! Fof p v f m x) 1 M).
    { rewrite accum_spec. unfold vadd, vscale.
      rewrite (sumf_ext kO kadd (fun m => dt *! (dt *! qQ m) *! Fof p v f m x +! dt *! weights m *! v 0 x)
                 (fun m => (dt *! dt) *! (qQ m *! Fof p v f m x) +! (dt *! v 0 x) *! weights m) 1 M) by (intros; ring).
      rewrite sumf_add, !sumf_scal.
      set (SW := sumf (fun m => weights m) 1 M). change (sumf weights 1 M) with SW. ring. }
    assert (Gv : accum kadd (v 0) 1 M (fun m => vscale kmul (dt *! weights m) (Fof p v f m)) x
                 = v 0 x +! dt *! sumf (fun m => weights m *! Fof p v f m x) 1 M).
    { rewrite accum_spec. unfold vscale.
      rewrite (sumf_ext kO kadd (fun m => dt *! weights m *! Fof p v f m x) (fun m => dt *! (weights m *! Fof p v f m x)) 1 M) by (intros; ring).
      rewrite sumf_scal. reflexivity. }
    remember (accum kadd (p 0) 1 M (fun m => vadd kadd (vscale kmul (dt *! (dt *! qQ m)) (Fof p v f m)) (vscale kmul (dt *! weights m) (v 0)))) as EP.
    remember (accum kadd (v 0) 1 M (fun m => vscale kmul (dt *! weights m) (Fof p v f m))) as EV.
    destruct (tau M) as [t|]; cbn [fst snd]; unfold vadd; rewrite Gp, Gv; split; ring.
  Qed.

  (* Sweeper.compute_residual() with this integrate(): the defect of the second-order collocation equations *)
  Theorem boris_residual_form (p v : nat -> V) (f : nat -> Fld) tau m x :
    let r := boris_residual kO kadd kmul ksub M dt t0 nodes Q QQ bf attr p v f tau m in
    fst r x = p 0 x +! dt *! sumf (fun j => Q m j) 1 M *! v 0 x +! dt *! dt *! sumf (fun j => QQ m j *! Fof p v f j x) 1 M
              +! tauV fst tau m x -! p m x /\
    snd r x = v 0 x +! dt *! sumf (fun j => Q m j *! Fof p v f j x) 1 M +! tauV snd tau m x -! v m x.
  Proof.
    intros r. unfold r, boris_residual, tauV. destruct (boris_integrate_form p v f m x) as [Ip Iv].
    destruct (tau m) as [t|]; cbn [fst snd]; unfold vadd, vsub; rewrite Ip, Iv; split; ring.
  Qed.

  (* ---------------------------------------------------------------- 0-to-node (matrix) form *)
  (* With the tables as boris_2nd_order.__get_Qd builds them for QI = IE, QE = EE
       Sx, ST, S, SQ = row differences of Qx, QT, Q, QQ   (SQ = S Q and QQ = Q Q give the last one),
       Qx strictly lower triangular, QT lower triangular, first rows zero,
       ST rows = the trapezoidal rule  dt QI[m,m]/2 (F_{m-1} + F_m)  hard-wired in the velocity update,
       delta = node distances,
     and tau present on all nodes or on none, the node-to-node equations add up to the second-order analogue of
     (I - dt QD F) U_new = u0 + dt (Q - QD) F U_old + tau:
       x_m - dt^2 sum_{j<m}  Qx[m,j] F_j^new = x_0 + dt t_m v_0 + dt^2 sum_j (QQ - Qx)[m,j] F_j^old + tau_m
       v_m - dt   sum_{j<=m} QT[m,j] F_j^new = v_0             + dt   sum_j (Q  - QT)[m,j] F_j^old + tau_m
     (the table hypotheses are checked on the real tables by the harness on every run). *)
  Section ZeroToNode.
    Variable Qx QT : nat -> nat -> K.
    Hypothesis HSx : forall m j, 1 <= m <= M -> Sx m j = Qx m j -! Qx (m - 1) j.
    Hypothesis HSQ : forall m j, 1 <= m <= M -> SQ m j = QQ m j -! QQ (m - 1) j.
    Hypothesis HSm : forall m j, 1 <= m <= M -> Sm m j = Q m j -! Q (m - 1) j.
    Hypothesis HST : forall m j, 1 <= m <= M -> ST m j = QT m j -! QT (m - 1) j.
    Hypothesis Hrow0 : forall j, Qx 0 j = kO /\ QQ 0 j = kO /\ Q 0 j = kO /\ QT 0 j = kO.
    Hypothesis HQxlow : forall m j, m <= j -> Qx m j = kO.
    Hypothesis HQTlow : forall m j, m < j -> QT m j = kO.
    Hypothesis Htrap : forall m, 1 <= m <= M ->
      ST m (m - 1) = QId m *! khalf /\ ST m m = QId m *! khalf /\ forall j, j + 1 < m -> ST m j = kO.
    Hypothesis Hdelta : forall m, 1 <= m <= M -> delta m = nodes m -! nodes (m - 1).
    Hypothesis Hnodes0 : nodes 0 = kO.

    Definition tau_full (tau : nat -> option (V * V)) : Prop :=
      (forall m, 1 <= m <= M -> tau m <> None) \/ (forall m, 1 <= m <= M -> tau m = None).

    Lemma tau_full_ok tau : tau_full tau -> tau_ok M tau = true.
    Proof.
      intros Hf. unfold tau_ok. apply forallb_forall. intros m Hm. apply in_seq in Hm.
      destruct Hf as [Hs|Hn].
      - pose proof (Hs (m - 1) ltac:(lia)) as H1. destruct (tau m); [|reflexivity].
        destruct (tau (m - 1)); [reflexivity|congruence].
      - rewrite (Hn m ltac:(lia)). reflexivity.
    Qed.

    Let T (sel : V * V -> V) (tau : nat -> option (V * V)) (m : nat) (x : X) : K :=
      if Nat.eqb m 0 then kO else tauV sel tau m x.

    Lemma tau_telescope sel tau m x : tau_full tau -> S m <= M ->
      T sel tau m x +! tauN sel tau (S m) x = T sel tau (S m) x.
    Proof.
      intros Hf Hm. unfold T, tauN, tauV. cbn [Nat.eqb].
      destruct Hf as [Hs|Hn].
      - destruct m as [|m].
        + cbn [Nat.eqb Nat.leb]. pose proof (Hs 1 ltac:(lia)) as H1. destruct (tau 1); [ring|congruence].
        + cbn [Nat.eqb Nat.leb]. replace (S (S m) - 1) with (S m) by lia.
          pose proof (Hs (S m) ltac:(lia)) as H1. pose proof (Hs (S (S m)) ltac:(lia)) as H2. destruct (tau (S (S m))) as [t|]; destruct (tau (S m)) as [t'|]; try congruence; ring.
      - rewrite (Hn (S m) ltac:(lia)). destruct m as [|m]; cbn [Nat.eqb]; [ring|].
        rewrite (Hn (S m) ltac:(lia)). ring.
    Qed.

    Theorem boris_matrix_form (p v : nat -> V) (f : nat -> Fld) tau :
      boris_contract -> build_f_is G -> (forall j, attr j = attr 0) -> tau_full tau ->
      exists r, bupdate p v f tau = Some r /\
      let pn := fst (fst r) in let vn := snd (fst r) in let fn := snd r in
      (forall j, j = 0 \/ M < j -> pn j = p j /\ vn j = v j /\ fn j = f j) /\
      forall m, 1 <= m <= M ->
        fn m = ef (tn m) (pn m) (v m) (attr m) /\
        forall x,
          pn m x -! dt *! dt *! sumf (fun j => Qx m j *! Fof pn vn fn j x) 0 m
          = p 0 x +! dt *! nodes m *! v 0 x
            +! dt *! dt *! sumf (fun j => (QQ m j -! Qx m j) *! Fof p v f j x) 0 (S M) +! tauV fst tau m x
          /\
          vn m x -! dt *! sumf (fun j => QT m j *! Fof pn vn fn j x) 0 (S m)
          = v 0 x +! dt *! sumf (fun j => (Q m j -! QT m j) *! Fof p v f j x) 0 (S M) +! tauV snd tau m x.
    Proof.
      intros Hc Hb Ha Hfull.
      destruct (boris_block_form p v f tau Hc Hb Ha (tau_full_ok tau Hfull)) as [r [Er H]].
      exists r. split; [exact Er|]. cbv zeta in H |- *. destruct H as [Hf Hn]. split; [exact Hf|].
      set (pn := fst (fst r)) in *. set (vn := snd (fst r)) in *. set (fn := snd r) in *.
      assert (Main : forall m, m <= M -> forall x,
        pn m x -! dt *! dt *! sumf (fun j => Qx m j *! Fof pn vn fn j x) 0 m
        = p 0 x +! dt *! nodes m *! v 0 x
          +! dt *! dt *! sumf (fun j => (QQ m j -! Qx m j) *! Fof p v f j x) 0 (S M) +! T fst tau m x
        /\
        vn m x -! dt *! sumf (fun j => QT m j *! Fof pn vn fn j x) 0 (S m)
        = v 0 x +! dt *! sumf (fun j => (Q m j -! QT m j) *! Fof p v f j x) 0 (S M) +! T snd tau m x).
      { induction m as [|m IH]; intros Hm x.
        - destruct (Hf 0 (or_introl eq_refl)) as [E1 [E2 _]]. rewrite E1, E2. unfold T. cbn [Nat.eqb].
          rewrite (sumf_ext kO kadd (fun j => (QQ 0 j -! Qx 0 j) *! Fof p v f j x) (fun _ => kO) 0 (S M)).
          2:{ intros j _. destruct (Hrow0 j) as [A1 [A2 _]]. rewrite A1, A2. ring. }
          rewrite (sumf_ext kO kadd (fun j => (Q 0 j -! QT 0 j) *! Fof p v f j x) (fun _ => kO) 0 (S M)).
          2:{ intros j _. destruct (Hrow0 j) as [_ [_ [A3 A4]]]. rewrite A3, A4. ring. }
          rewrite !(sumf_zero kO kI kadd kmul ksub kopp Rth), Hnodes0. cbn [SweepProofs.sumf].
          destruct (Hrow0 0) as [_ [_ [_ A4]]]. rewrite A4. split; ring.
        - destruct (IH ltac:(lia) x) as [IHp IHv]. destruct (Hn (S m) ltac:(lia)) as [_ Hx].
          destruct (Hx x) as [Np Nv]. clear Hx. replace (S m - 1) with m in Np, Nv by lia.
          split.
          + (* positions *)
            assert (E1 : sumf (fun j => Qx (S m) j *! Fof pn vn fn j x) 0 (S m)
                         = sumf (fun j => Sx (S m) j *! Fof pn vn fn j x) 0 (S m)
                           +! sumf (fun j => Qx m j *! Fof pn vn fn j x) 0 m).
            { transitivity (sumf (fun j => Sx (S m) j *! Fof pn vn fn j x) 0 (S m)
                            +! sumf (fun j => Qx m j *! Fof pn vn fn j x) 0 (S m)).
              2:{ rewrite (sumf_snoc (fun j => Qx m j *! Fof pn vn fn j x) 0 m). cbn [Nat.add].
                  rewrite (HQxlow m m (le_n m)). ring. }
              rewrite <- sumf_add. apply sumf_ext. intros j _. rewrite (HSx (S m) j ltac:(lia)).
              replace (S m - 1) with m by lia. ring. }
            assert (E2 : sumf (fun j => (QQ (S m) j -! Qx (S m) j) *! Fof p v f j x) 0 (S M)
                         = sumf (fun j => (SQ (S m) j -! Sx (S m) j) *! Fof p v f j x) 0 (S M)
                           +! sumf (fun j => (QQ m j -! Qx m j) *! Fof p v f j x) 0 (S M)).
            { rewrite <- sumf_add. apply sumf_ext. intros j _.
              rewrite (HSx (S m) j ltac:(lia)), (HSQ (S m) j ltac:(lia)). replace (S m - 1) with m by lia. ring. }
            rewrite E1, E2, <- (tau_telescope fst tau m x Hfull Hm).
            pose proof (Hdelta (S m) ltac:(lia)) as Hd. replace (S m - 1) with m in Hd by lia.
            assert (Hnod : nodes (S m) = nodes m +! delta (S m)) by (rewrite Hd; ring). rewrite Hnod.
            set (A1 := sumf (fun j => Sx (S m) j *! Fof pn vn fn j x) 0 (S m)) in *.
            set (A2 := sumf (fun j => Qx m j *! Fof pn vn fn j x) 0 m) in *.
            set (B1 := sumf (fun j => (SQ (S m) j -! Sx (S m) j) *! Fof p v f j x) 0 (S M)) in *.
            set (B2 := sumf (fun j => (QQ m j -! Qx m j) *! Fof p v f j x) 0 (S M)) in *.
            transitivity ((pn (S m) x -! pn m x -! dt *! dt *! A1) +! (pn m x -! dt *! dt *! A2)); [ring|].
            rewrite Np, IHp. ring.
          + (* velocities *)
            destruct (Htrap (S m) ltac:(lia)) as [T1 [T2 T3]]. replace (S m - 1) with m in T1 by lia.
            assert (E1 : sumf (fun j => QT (S m) j *! Fof pn vn fn j x) 0 (S (S m))
                         = sumf (fun j => QT m j *! Fof pn vn fn j x) 0 (S m)
                           +! QId (S m) *! khalf *! (Fof pn vn fn m x +! Fof pn vn fn (S m) x)).
            { transitivity (sumf (fun j => QT m j *! Fof pn vn fn j x) 0 (S (S m))
                            +! sumf (fun j => ST (S m) j *! Fof pn vn fn j x) 0 (S (S m))).
              { rewrite <- sumf_add. apply sumf_ext. intros j _. rewrite (HST (S m) j ltac:(lia)).
                replace (S m - 1) with m by lia. ring. }
              rewrite (sumf_snoc (fun j => QT m j *! Fof pn vn fn j x) 0 (S m)). cbn [Nat.add].
              rewrite (HQTlow m (S m) ltac:(lia)).
              rewrite (sumf_snoc (fun j => ST (S m) j *! Fof pn vn fn j x) 0 (S m)),
                      (sumf_snoc (fun j => ST (S m) j *! Fof pn vn fn j x) 0 m). cbn [Nat.add].
              rewrite (sumf_ext kO kadd (fun j => ST (S m) j *! Fof pn vn fn j x) (fun _ => kO) 0 m).
              2:{ intros j Hj. rewrite (T3 j ltac:(lia)). ring. }
              rewrite (sumf_zero kO kI kadd kmul ksub kopp Rth), T1, T2. ring. }
            assert (E2 : sumf (fun j => (Q (S m) j -! QT (S m) j) *! Fof p v f j x) 0 (S M)
                         = sumf (fun j => (Sm (S m) j -! ST (S m) j) *! Fof p v f j x) 0 (S M)
                           +! sumf (fun j => (Q m j -! QT m j) *! Fof p v f j x) 0 (S M)).
            { rewrite <- sumf_add. apply sumf_ext. intros j _.
              rewrite (HSm (S m) j ltac:(lia)), (HST (S m) j ltac:(lia)). replace (S m - 1) with m by lia. ring. }
            rewrite E1, E2, <- (tau_telescope snd tau m x Hfull Hm).
            set (A2 := sumf (fun j => QT m j *! Fof pn vn fn j x) 0 (S m)) in *.
            set (B1 := sumf (fun j => (Sm (S m) j -! ST (S m) j) *! Fof p v f j x) 0 (S M)) in *.
            set (B2 := sumf (fun j => (Q m j -! QT m j) *! Fof p v f j x) 0 (S M)) in *.
            transitivity ((vn (S m) x -! vn m x -! dt *! QId (S m) *! khalf *! (Fof pn vn fn m x +! Fof pn vn fn (S m) x))
                          +! (vn m x -! dt *! A2)); [ring|].
            rewrite Nv, IHv. ring. }
      intros m Hm. destruct (Hn m Hm) as [Ef _]. split; [exact Ef|]. intros x.
      destruct (Main m ltac:(lia) x) as [Mp Mv]. unfold T in Mp, Mv.
      destruct (Nat.eqb_spec m 0) as [E0|_]; [lia|]. split; assumption.
    Qed.
  End ZeroToNode.
End BorisProofs.

(* ================================================================ the table hypotheses as one predicate *)
Section BorisTables.
  Context {K : Type} (kO kI : K) (kadd kmul ksub : K -> K -> K) (kopp : K -> K).
  Hypothesis Rth : ring_theory kO kI kadd kmul ksub kopp (@eq K).
  Context {X Fld A : Type}.
  Local Infix "*!" := kmul (at level 40, left associativity).
  Local Infix "-!" := ksub (at level 50, left associativity).

  (* what boris_2nd_order.__get_Qd establishes for QI = IE, QE = EE (checked on the real tables on every run) *)
  Definition boris_tables_ok (M : nat) (nodes delta : nat -> K) (Q QQ Sm ST SQ Sx : nat -> nat -> K) (QId : nat -> K)
             (khalf : K) (Qx QT : nat -> nat -> K) : Prop :=
    (forall m j, 1 <= m <= M -> Sx m j = Qx m j -! Qx (m - 1) j) /\
    (forall m j, 1 <= m <= M -> SQ m j = QQ m j -! QQ (m - 1) j) /\
    (forall m j, 1 <= m <= M -> Sm m j = Q m j -! Q (m - 1) j) /\
    (forall m j, 1 <= m <= M -> ST m j = QT m j -! QT (m - 1) j) /\
    (forall j, Qx 0 j = kO /\ QQ 0 j = kO /\ Q 0 j = kO /\ QT 0 j = kO) /\
    (forall m j, m <= j -> Qx m j = kO) /\
    (forall m j, m < j -> QT m j = kO) /\
    (forall m, 1 <= m <= M ->
       ST m (m - 1) = QId m *! khalf /\ ST m m = QId m *! khalf /\ forall j, j + 1 < m -> ST m j = kO) /\
    (forall m, 1 <= m <= M -> delta m = nodes m -! nodes (m - 1)) /\
    nodes 0 = kO.

  Local Infix "+!" := kadd (at level 50, left associativity).
  Notation V := (X -> K).

  (* boris_matrix_form with the table hypotheses bundled *)
  Theorem boris_matrix_form_tables M dt t0 nodes delta Q QQ Sm ST SQ Sx QId
          (bf : K -> Fld -> V -> V -> A -> V) (ef : K -> V -> V -> A -> Fld)
          (bs : V -> K -> Fld -> Fld -> V -> V -> A -> V) (attr : nat -> A) khalf G Qx QT
          (p v : nat -> V) (f : nat -> Fld) tau :
    boris_tables_ok M nodes delta Q QQ Sm ST SQ Sx QId khalf Qx QT ->
    boris_contract kadd kmul bs khalf G -> build_f_is bf G -> (forall j, attr j = attr 0) -> tau_full M tau ->
    exists r, boris_update kO kadd kmul ksub M dt t0 nodes delta Sm ST SQ Sx QId bf ef bs attr p v f tau = Some r /\
    let pn := fst (fst r) in let vn := snd (fst r) in let fn := snd r in
    let Fn := bforce kadd kmul M dt t0 nodes bf attr pn vn fn in
    let Fo := bforce kadd kmul M dt t0 nodes bf attr p v f in
    (forall j, j = 0 \/ M < j -> pn j = p j /\ vn j = v j /\ fn j = f j) /\
    forall m, 1 <= m <= M ->
      fn m = ef (tnode kadd kmul dt t0 nodes m) (pn m) (v m) (attr m) /\
      forall x,
        pn m x -! dt *! dt *! sumf kO kadd (fun j => Qx m j *! Fn j x) 0 m
        = p 0 x +! dt *! nodes m *! v 0 x
          +! dt *! dt *! sumf kO kadd (fun j => (QQ m j -! Qx m j) *! Fo j x) 0 (S M) +! tauV kO fst tau m x
        /\
        vn m x -! dt *! sumf kO kadd (fun j => QT m j *! Fn j x) 0 (S m)
        = v 0 x +! dt *! sumf kO kadd (fun j => (Q m j -! QT m j) *! Fo j x) 0 (S M) +! tauV kO snd tau m x.
  Proof.
    intros [H1 [H2 [H3 [H4 [H5 [H6 [H7 [H8 [H9 H10]]]]]]]]].
    exact (boris_matrix_form kO kI kadd kmul ksub kopp Rth M dt t0 nodes delta Q QQ Sm ST SQ Sx QId bf ef bs attr khalf G Qx QT
             H1 H2 H3 H4 H5 H6 H7 H8 H9 H10 p v f tau).
  Qed.
End BorisTables.

(* ================================================================ non-vacuity: a concrete instance over Qc *)
From Coq Require Import ZArith QArith Qcanon Field.
From PySDC Require Import Model.SweepExec Model.BorisExec.
Section BorisInstance.
  Local Open Scope Qc_scope.

  Lemma Qc_sq_nonneg (x : Qc) : 0 <= x * x.
  Proof.
    unfold Qcle. cbn [this Qcmult Q2Qc]. rewrite !Qred_correct.
    destruct x as [[n d] H]. cbn [this]. unfold Qle, Qmult. cbn [Qnum Qden]. nia.
  Qed.

  Lemma Qc_pos_plus_sq (k a b c : Qc) : 0 < k -> k + (a * a + b * b + c * c) <> 0.
  Proof.
    intros Hk H.
    assert (H1 : 0 < k + (a * a + b * b + c * c)).
    { apply Qclt_le_trans with (k + 0).
      - rewrite Qcplus_0_r. exact Hk.
      - apply Qcplus_le_compat; [apply Qcle_refl|].
        pose proof (Qc_sq_nonneg a). pose proof (Qc_sq_nonneg b). pose proof (Qc_sq_nonneg c).
        replace 0 with (0 + 0 + 0) by ring. repeat apply Qcplus_le_compat; assumption. }
    rewrite H in H1. discriminate H1.
  Qed.

  Lemma two_eq : two = 1 + 1. Proof. apply Qc_is_canon. reflexivity. Qed.
  Lemma half_eq : half = / (1 + 1). Proof. apply Qc_is_canon. reflexivity. Qed.

  (* The Boris algorithm of PenningTrap_3D.boris_solver (Model/BorisExec.boris_alg, any number of particles, any fields,
     charges, masses, step) SOLVES the contract equation: the trapezoidal rule with the Lorentz force, implicit in the
     new velocity.  (1 + |t|^2 is never zero over the rationals.) *)
  Theorem boris_alg_contract {P : Type} (c : P * ax -> Qc) d fo fn po vo ao x :
    boris_alg c d fo fn po vo ao x
    = vo x + c x + d * half * (lorentz fo vo ao x + lorentz fn (boris_alg c d fo fn po vo ao) ao x).
  Proof.
    destruct x as [n i]. unfold boris_alg, boris_alg_gen, lorentz, cross. rewrite two_eq, half_eq.
    destruct fo as [eo bo], fn as [en bn]. cbn [fst snd nx].
    set (a := qm ao n).
    destruct i; cbn [nx]; field; (split; [intros H; discriminate H | apply Qc_pos_plus_sq; reflexivity]).
  Qed.

  (* hence the two problem-side hypotheses of boris_block_form / boris_matrix_form are satisfiable (non-trivially) *)
  Example boris_contract_satisfiable {P : Type} :
    boris_contract Qcplus Qcmult (@boris_alg P) half lorentz /\
    build_f_is (fun (_ : Qc) fl (_ : P * ax -> Qc) ve a => lorentz fl ve a) lorentz.
  Proof. split; [intros c a fo fn po vo ao x; apply boris_alg_contract | intros t fl po ve a; reflexivity]. Qed.

  (* ... and so are the table hypotheses: M = 2, nodes 1/2, 1, QI = IE, QE = EE, tables as __get_Qd computes them *)
  Definition exQ  := mat [[0; 0; 0]; [0; q 1 3; q 1 6]; [0; q 1 2; q 1 2]].
  Definition exQQ := mat [[0; 0; 0]; [0; q 7 36; q 5 36]; [0; q 5 12; q 1 3]].
  Definition exQT := mat [[0; 0; 0]; [q 1 4; q 1 4; 0]; [q 1 4; q 1 2; q 1 4]].
  Definition exQx := mat [[0; 0; 0]; [q 1 8; 0; 0]; [q 1 4; q 1 4; 0]].
  Definition exSm := mat [[0; 0; 0]; [0; q 1 3; q 1 6]; [0; q 1 6; q 1 3]].
  Definition exSQ := mat [[0; 0; 0]; [0; q 7 36; q 5 36]; [0; q 2 9; q 7 36]].
  Definition exST := mat [[0; 0; 0]; [q 1 4; q 1 4; 0]; [0; q 1 4; q 1 4]].
  Definition exSx := mat [[0; 0; 0]; [q 1 8; 0; 0]; [q 1 8; q 1 4; 0]].
  Definition exQId := nthq [0; q 1 2; q 1 2].
  Definition exnodes := nthq [0; q 1 2; 1].
  Definition exdelta := nthq [0; q 1 2; q 1 2].

  Ltac qc_table := apply Qc_is_canon; vm_compute; reflexivity.
  Ltac cases_m m H := assert (Hm' : m = 1%nat \/ m = 2%nat) by lia; clear H; destruct Hm' as [-> | ->].
  Ltac cases_j j := destruct j as [|[|[|[|j]]]].

  Example boris_tables_satisfiable :
    boris_tables_ok 0 Qcmult Qcminus 2 exnodes exdelta exQ exQQ exSm exST exSQ exSx exQId half exQx exQT.
  Proof.
    unfold boris_tables_ok. repeat split.
    1-4: intros m j H; cases_m m H; cases_j j; qc_table.
    1-4: cases_j j; qc_table.
    - intros m j H. destruct m as [|[|[|m]]]; cases_j j; try lia; try qc_table;
        unfold exQx, mat, nthq; cbn [nth]; destruct m; reflexivity.
    - intros m j H. destruct m as [|[|[|m]]]; cases_j j; try lia; try qc_table;
        unfold exQT, mat, nthq; cbn [nth]; destruct m; reflexivity.
    - cases_m m H; qc_table.
    - cases_m m H; qc_table.
    - intros j Hj. cases_m m H; cases_j j; try lia; qc_table.
    - intros m H. cases_m m H; qc_table.
  Qed.
End BorisInstance.
