(* C04 — proofs: Neumann expansion of stability functions, order gain of SDC sweeps as formal power
   series, error propagation, and soundness of the dyadic order validators. *)
From Coq Require Import ZArith QArith Qabs List Bool Lia.
From PySDC Require Import Base.Tactics Base.Dyadic Base.DyadicFast Model.Order.
Import ListNotations.
Open Scope Q_scope.

(* ================= finite sums, matrix-vector algebra ============================================ *)

Definition veqn (n : nat) (x y : vec) : Prop := forall i, (i < n)%nat -> x i == y i.
Definition veq (x y : vec) : Prop := forall i, x i == y i.

Lemma bigsum_ext n f g : (forall j, (j < n)%nat -> f j == g j) -> bigsum n f == bigsum n g.
Proof.
  induction n as [|n IH]; intros H; cbn [bigsum]; [reflexivity|].
  rewrite IH by (intros; apply H; lia). rewrite (H n) by lia. reflexivity.
Qed.

Lemma bigsum_add n f g : bigsum n (fun j => f j + g j) == bigsum n f + bigsum n g.
Proof. induction n as [|n IH]; cbn [bigsum]; [ring|]. rewrite IH. ring. Qed.

Lemma bigsum_scal n c f : bigsum n (fun j => c * f j) == c * bigsum n f.
Proof. induction n as [|n IH]; cbn [bigsum]; [ring|]. rewrite IH. ring. Qed.

Lemma bigsum_zero n f : (forall j, (j < n)%nat -> f j == 0) -> bigsum n f == 0.
Proof.
  induction n as [|n IH]; intros H; cbn [bigsum]; [reflexivity|].
  rewrite IH by (intros; apply H; lia). rewrite (H n) by lia. ring.
Qed.

Lemma bigsum_shift n f : bigsum (S n) f == f 0%nat + bigsum n (fun j => f (S j)).
Proof. induction n as [|n IH]; [cbn [bigsum]; ring|]. change (bigsum (S (S n)) f) with (bigsum (S n) f + f (S n)). rewrite IH. cbn [bigsum]. ring. Qed.

Lemma mv_ext n A x y : veqn n x y -> veq (mv n A x) (mv n A y).
Proof. intros H i. unfold mv. apply bigsum_ext. intros j Hj. rewrite (H j Hj). reflexivity. Qed.

Lemma mv_ext_mat n A B x : (forall i j, A i j == B i j) -> veq (mv n A x) (mv n B x).
Proof. intros H i. unfold mv. apply bigsum_ext. intros j _. rewrite H. reflexivity. Qed.

Lemma mv_add n A x y i : mv n A (fun j => x j + y j) i == mv n A x i + mv n A y i.
Proof. unfold mv. rewrite <- bigsum_add. apply bigsum_ext. intros; ring. Qed.

Lemma mv_sub n A x y i : mv n A (fun j => x j - y j) i == mv n A x i - mv n A y i.
Proof.
  unfold mv. setoid_replace (bigsum n (fun j => A i j * x j) - bigsum n (fun j => A i j * y j))
    with (bigsum n (fun j => A i j * x j) + bigsum n (fun j => (-1) * (A i j * y j))) by (rewrite bigsum_scal; ring).
  rewrite <- bigsum_add. apply bigsum_ext. intros; ring.
Qed.

Lemma mv_scal n A c x i : mv n A (fun j => c * x j) i == c * mv n A x i.
Proof. unfold mv. rewrite <- bigsum_scal. apply bigsum_ext. intros; ring. Qed.

Lemma mv_msub n A B x i : mv n (msub A B) x i == mv n A x i - mv n B x i.
Proof.
  unfold mv, msub. setoid_replace (bigsum n (fun j => A i j * x j) - bigsum n (fun j => B i j * x j))
    with (bigsum n (fun j => A i j * x j) + bigsum n (fun j => (-1) * (B i j * x j))) by (rewrite bigsum_scal; ring).
  rewrite <- bigsum_add. apply bigsum_ext. intros; ring.
Qed.

Lemma vdot_ext n b x y : veqn n x y -> vdot n b x == vdot n b y.
Proof. intros H. unfold vdot. apply bigsum_ext. intros j Hj. rewrite (H j Hj). reflexivity. Qed.

Lemma vdot_add n b x y : vdot n b (fun j => x j + y j) == vdot n b x + vdot n b y.
Proof. unfold vdot. rewrite <- bigsum_add. apply bigsum_ext. intros; ring. Qed.

Lemma vdot_scal n b c x : vdot n b (fun j => c * x j) == c * vdot n b x.
Proof. unfold vdot. rewrite <- bigsum_scal. apply bigsum_ext. intros; ring. Qed.

Lemma veq_veqn n x y : veq x y -> veqn n x y.
Proof. intros H i _. apply H. Qed.

Lemma mpow_ext n A k : forall x y, veqn n x y -> (0 < k)%nat -> veq (mpow n A k x) (mpow n A k y).
Proof.
  induction k as [|k IH]; intros x y H Hk; [lia|]. cbn [mpow].
  destruct k as [|k]; [cbn [mpow]; apply mv_ext; exact H|].
  apply mv_ext, veq_veqn, IH; [exact H | lia].
Qed.

Lemma mpow_ext' n A k x y : veq x y -> veq (mpow n A k x) (mpow n A k y).
Proof.
  intros H. destruct k as [|k]; [exact H|]. apply mpow_ext; [apply veq_veqn; exact H | lia].
Qed.

Lemma mpow_add n A k : forall x y i, mpow n A k (fun j => x j + y j) i == mpow n A k x i + mpow n A k y i.
Proof.
  induction k as [|k IH]; intros x y i; cbn [mpow]; [reflexivity|].
  rewrite <- mv_add. apply mv_ext, veq_veqn. intro j. apply IH.
Qed.

Lemma mpow_scal n A k : forall c x i, mpow n A k (fun j => c * x j) i == c * mpow n A k x i.
Proof.
  induction k as [|k IH]; intros c x i; cbn [mpow]; [reflexivity|].
  rewrite <- mv_scal. apply mv_ext, veq_veqn. intro j. apply IH.
Qed.

Lemma mpow_mv n A k : forall x i, mpow n A k (mv n A x) i == mpow n A (S k) x i.
Proof.
  induction k as [|k IH]; intros x i; [reflexivity|].
  change (mpow n A (S k) (mv n A x) i) with (mv n A (mpow n A k (mv n A x)) i).
  change (mpow n A (S (S k)) x i) with (mv n A (mpow n A (S k) x) i).
  apply mv_ext, veq_veqn. intro j. apply IH.
Qed.

(* ================= Neumann expansion of the stage system ========================================== *)

(* if Y solves  Y = e + z A Y  then  Y = sum_{j<N} z^j A^j e + z^N A^N Y  for every N *)
Theorem neumann_expansion n A e z Y :
  (forall i, Y i == e i + z * mv n A Y i) ->
  forall N i, Y i == bigsum N (fun j => zpow z j * mpow n A j e i) + zpow z N * mpow n A N Y i.
Proof.
  intros HY N. induction N as [|N IH]; intros i.
  - cbn [bigsum zpow mpow]. ring.
  - rewrite IH. cbn [bigsum zpow].
    assert (E : mpow n A N Y i == mpow n A N e i + z * mpow n A (S N) Y i).
    { rewrite (mpow_ext' n A N Y (fun j => e j + z * mv n A Y j) HY i).
      rewrite mpow_add, mpow_scal, mpow_mv. reflexivity. }
    rewrite E. ring.
Qed.

Lemma vdot_neumann n A b e z Y :
  (forall i, Y i == e i + z * mv n A Y i) ->
  forall N, vdot n b Y == bigsum N (fun j => zpow z j * vdot n b (mpow n A j e)) + zpow z N * vdot n b (mpow n A N Y).
Proof.
  intros HY N. induction N as [|N IH].
  - cbn [bigsum zpow mpow]. ring.
  - rewrite IH. cbn [bigsum zpow].
    assert (E : vdot n b (mpow n A N Y) == vdot n b (mpow n A N e) + z * vdot n b (mpow n A (S N) Y)).
    { rewrite <- vdot_scal, <- vdot_add. apply vdot_ext, veq_veqn. intro i.
      rewrite (mpow_ext' n A N Y (fun j => e j + z * mv n A Y j) HY i).
      rewrite mpow_add, mpow_scal, mpow_mv. reflexivity. }
    rewrite E. ring.
Qed.

(* the stability function  R(z) = 1 + z b.Y  with  Y = 1 + z A Y :  its Taylor coefficient j is
   [stab_coef n A b j] = b . A^(j-1) 1, with an explicit remainder *)
Theorem stability_expansion n A b z Y :
  (forall i, Y i == 1 + z * mv n A Y i) ->
  forall N, 1 + z * vdot n b Y ==
            bigsum (S N) (fun j => zpow z j * stab_coef n A b j) + zpow z (S N) * vdot n b (mpow n A N Y).
Proof.
  intros HY N. rewrite (vdot_neumann n A b ones z Y HY N). rewrite bigsum_shift.
  cbn [stab_coef zpow]. rewrite Qmult_plus_distr_r, <- bigsum_scal.
  setoid_replace (bigsum N (fun j => z * (zpow z j * vdot n b (mpow n A j ones))))
    with (bigsum N (fun j => z * zpow z j * vdot n b (mpow n A j ones))) by (apply bigsum_ext; intros; ring).
  ring.
Qed.

(* last stage (stiffly accurate RK, SDC without collocation update): coefficient j of Y_i is (A^j 1)_i *)
Theorem stage_expansion n A z Y :
  (forall i, Y i == 1 + z * mv n A Y i) ->
  forall N i, Y i == bigsum N (fun j => zpow z j * stage_coef n A i j) + zpow z N * mpow n A N Y i.
Proof. intros HY N i. apply (neumann_expansion n A ones z Y HY N i). Qed.

(* ================= SDC sweeps on the Dahlquist equation ========================================== *)

(* one sweep in matrix form:  (I - z QD) U' = 1 + z (Q - QD) U  *)
Definition is_sweep (n : nat) (Qm QD : mat) (z : Q) (U U' : vec) : Prop :=
  forall i, U' i - z * mv n QD U' i == 1 + z * mv n (msub Qm QD) U i.
Definition is_coll (n : nat) (Qm : mat) (z : Q) (Uc : vec) : Prop :=
  forall i, Uc i == 1 + z * mv n Qm Uc i.

Theorem error_propagation n Qm QD z U U' Uc :
  is_sweep n Qm QD z U U' -> is_coll n Qm z Uc ->
  forall i, (U' i - Uc i) - z * mv n QD (fun j => U' j - Uc j) i == z * mv n (msub Qm QD) (fun j => U j - Uc j) i.
Proof.
  intros HS HC i. rewrite !mv_sub. rewrite !mv_msub.
  pose proof (HS i) as E1. pose proof (HC i) as E2. rewrite mv_msub in E1.
  rewrite E2 at 1.
  setoid_replace (U' i) with (1 + z * (mv n Qm U i - mv n QD U i) + z * mv n QD U' i)
    by (rewrite <- E1; ring).
  ring.
Qed.

(* iterating to convergence: a fixed point of the sweep solves the collocation problem, whatever QD *)
Theorem fixed_point_is_collocation n Qm QD z U :
  is_sweep n Qm QD z U U -> is_coll n Qm z U.
Proof.
  intros HS i. pose proof (HS i) as E. rewrite mv_msub in E.
  setoid_replace (U i) with ((U i - z * mv n QD U i) + z * mv n QD U i) by ring. rewrite E. ring.
Qed.

(* ... and conversely the collocation solution is a fixed point of every sweep *)
Theorem collocation_is_fixed_point n Qm QD z U :
  is_coll n Qm z U -> is_sweep n Qm QD z U U.
Proof. intros HC i. rewrite mv_msub. rewrite (HC i) at 1. ring. Qed.

(* ---- formal power series: each sweep raises the order by one ---- *)
Lemma Tser_S0 n Qm QD k : Tser n Qm QD (S k) 0 = ones.
Proof. reflexivity. Qed.

Lemma Tser_SS n Qm QD k m i :
  Tser n Qm QD (S k) (S m) i = mv n (QD k) (Tser n Qm QD (S k) m) i + mv n (msub Qm (QD k)) (Tser n Qm QD k m) i.
Proof. reflexivity. Qed.

(* ORDER GAIN (every M, every Q, every sequence of preconditioners QD_k, no triangularity needed):
   the Taylor coefficients m <= k of the k-th iterate are those of the collocation solution, Q^m 1 *)
Theorem order_gain_series n Qm QD : forall k m, (m <= k)%nat ->
  veq (Tser n Qm QD k m) (mpow n Qm m ones).
Proof.
  induction k as [|k IHk]; intros m Hm.
  - replace m with 0%nat by lia. intro i. reflexivity.
  - induction m as [|m IHm]; [intro i; reflexivity|].
    intro i. rewrite Tser_SS.
    rewrite (mv_ext n (QD k) _ _ (veq_veqn n _ _ (IHm ltac:(lia))) i).
    rewrite (mv_ext n (msub Qm (QD k)) _ _ (veq_veqn n _ _ (IHk m ltac:(lia))) i).
    rewrite mv_msub. cbn [mpow]. ring.
Qed.

(* consequently uend/u0 after k sweeps matches the collocation stability function:
   through order k+1 with the collocation update, through order k when the last node is taken *)
Corollary sdc_order_upd n Qm QD w k j : (j <= S k)%nat ->
  sdc_coef_upd n Qm QD w k j == stab_coef n Qm w j.
Proof.
  intros Hj. destruct j as [|j]; [reflexivity|]. cbn [sdc_coef_upd stab_coef].
  apply vdot_ext, veq_veqn, order_gain_series. lia.
Qed.

Corollary sdc_order_last n Qm QD k j : (j <= k)%nat ->
  sdc_coef_last n Qm QD k j == stage_coef n Qm (n - 1) j.
Proof. intros Hj. unfold sdc_coef_last, stage_coef. apply order_gain_series. exact Hj. Qed.

(* ================= from formal series to actual iterates ========================================== *)

Lemma mv_zero n A i : mv n A vzero i == 0.
Proof. unfold mv, vzero. apply bigsum_zero. intros; ring. Qed.

Lemma mv_bigsum n A (c : nat -> Q) (T : nat -> vec) N i :
  mv n A (fun j => bigsum N (fun m => c m * T m j)) i == bigsum N (fun m => c m * mv n A (T m) i).
Proof.
  induction N as [|N IH]; cbn [bigsum].
  - apply (mv_zero n A i).
  - rewrite mv_add, IH, mv_scal. reflexivity.
Qed.

Definition trunc (n : nat) (Qm : mat) (QD : nat -> mat) (z : Q) (k N : nat) : vec :=
  fun i => bigsum N (fun m => zpow z m * Tser n Qm QD k m i).

Lemma trunc_sweep n Qm QD z k N i :
  trunc n Qm QD z (S k) (S N) i - z * mv n (QD k) (trunc n Qm QD z (S k) (S N)) i
  == 1 + z * mv n (msub Qm (QD k)) (trunc n Qm QD z k N) i - zpow z (S N) * mv n (QD k) (Tser n Qm QD (S k) N) i.
Proof.
  unfold trunc at 1. rewrite bigsum_shift. rewrite Tser_S0.
  unfold trunc. rewrite !mv_bigsum. cbn [bigsum].
  setoid_replace (bigsum N (fun j => zpow z (S j) * Tser n Qm QD (S k) (S j) i))
    with (z * bigsum N (fun m => zpow z m * mv n (QD k) (Tser n Qm QD (S k) m) i)
          + z * bigsum N (fun m => zpow z m * mv n (msub Qm (QD k)) (Tser n Qm QD k m) i)).
  - cbn [zpow]. unfold ones. ring.
  - rewrite <- !bigsum_scal, <- bigsum_add. apply bigsum_ext. intros j _. rewrite Tser_SS. cbn [zpow]. ring.
Qed.

(* the truncation defect D_k = U^k - sum_{m<=N} z^m T_{k,m} obeys the sweep recursion with an O(z^(N+1)) forcing *)
Theorem series_defect n Qm QD z (U : nat -> vec) :
  (forall k, is_sweep n Qm (QD k) z (U k) (U (S k))) ->
  forall k N i,
  let D := fun k => (fun j => U k j - trunc n Qm QD z k (S N) j) in
  D (S k) i - z * mv n (QD k) (D (S k)) i
  == z * mv n (msub Qm (QD k)) (D k) i + zpow z (S N) * Tser n Qm QD (S k) (S N) i.
Proof.
  intros HS k N i D. unfold D. rewrite !mv_sub.
  pose proof (HS k i) as E1. pose proof (trunc_sweep n Qm QD z k N i) as E2.
  setoid_replace (U (S k) i - trunc n Qm QD z (S k) (S N) i
                  - z * (mv n (QD k) (U (S k)) i - mv n (QD k) (trunc n Qm QD z (S k) (S N)) i))
    with ((U (S k) i - z * mv n (QD k) (U (S k)) i)
          - (trunc n Qm QD z (S k) (S N) i - z * mv n (QD k) (trunc n Qm QD z (S k) (S N)) i)) by ring.
  rewrite E1, E2.
  assert (E3 : mv n (msub Qm (QD k)) (trunc n Qm QD z k (S N)) i
               == mv n (msub Qm (QD k)) (trunc n Qm QD z k N) i + zpow z N * mv n (msub Qm (QD k)) (Tser n Qm QD k N) i).
  { unfold trunc. rewrite !mv_bigsum. cbn [bigsum]. reflexivity. }
  rewrite E3, Tser_SS. cbn [zpow]. ring.
Qed.

(* ---- triangular systems: uniqueness ---- *)
Definition lower_tri (n : nat) (L : mat) : Prop := forall i j, (i < j < n)%nat -> L i j == 0.

Lemma bigsum_single n f i : (i < n)%nat -> (forall j, (j < n)%nat -> j <> i -> f j == 0) -> bigsum n f == f i.
Proof.
  induction n as [|n IH]; intros Hi H; [lia|]. cbn [bigsum].
  destruct (Nat.eq_dec i n) as [->|Hne].
  - rewrite bigsum_zero; [ring|]. intros j Hj. apply H; lia.
  - rewrite IH by (try lia; intros; apply H; lia). rewrite (H n) by lia. ring.
Qed.

Lemma tri_unique n L z W :
  lower_tri n L -> (forall i, (i < n)%nat -> ~ 1 - z * L i i == 0) ->
  (forall i, (i < n)%nat -> W i - z * mv n L W i == 0) ->
  forall i, (i < n)%nat -> W i == 0.
Proof.
  intros HL HD HW i. induction i as [i IH] using lt_wf_ind. intros Hi.
  pose proof (HW i Hi) as E.
  assert (Em : mv n L W i == L i i * W i).
  { unfold mv. rewrite (bigsum_single n _ i Hi); [reflexivity|].
    intros j Hj Hne. destruct (Nat.lt_ge_cases j i) as [Hlt|Hge].
    - rewrite (IH j Hlt Hj). ring.
    - rewrite (HL i j) by lia. ring. }
  rewrite Em in E.
  assert (E' : (1 - z * L i i) * W i == 0) by (rewrite <- E; ring).
  apply Qmult_integral in E'. destruct E' as [E'|E']; [exfalso; exact (HD i Hi E') | exact E'].
Qed.

(* if (I - zL) X = z^N F and (I - zL) G = F  (on the first n components) then X = z^N G *)
Lemma tri_factor n L z N X F G :
  lower_tri n L -> (forall i, (i < n)%nat -> ~ 1 - z * L i i == 0) ->
  (forall i, (i < n)%nat -> X i - z * mv n L X i == zpow z N * F i) ->
  (forall i, (i < n)%nat -> G i - z * mv n L G i == F i) ->
  forall i, (i < n)%nat -> X i == zpow z N * G i.
Proof.
  intros HL HD HX HG i Hi.
  assert (HW : forall i, (i < n)%nat -> (fun j => X j - zpow z N * G j) i - z * mv n L (fun j => X j - zpow z N * G j) i == 0).
  { intros i0 Hi0. cbv beta. rewrite mv_sub, mv_scal. rewrite <- (Qplus_opp_r (zpow z N * F i0)).
    rewrite <- (HX i0 Hi0) at 1. rewrite <- (HG i0 Hi0). ring. }
  pose proof (tri_unique n L z _ HL HD HW i Hi) as E. cbv beta in E.
  setoid_replace (X i) with ((X i - zpow z N * G i) + zpow z N * G i) by ring. rewrite E. ring.
Qed.

(* ORDER GAIN for the actual iterates (lower-triangular preconditioners, any z at which the diagonal
   solves are possible): U^k - U_c = z^(k+1) g_k where g_0 = -Q U_c and g_(k+1) solves
   (I - z QD_k) g_(k+1) = (Q - QD_k) g_k — the g_k only ever divide by 1 - z QD_k[m,m] *)
Theorem order_gain n Qm QD z (U G : nat -> vec) Uc :
  (forall k, lower_tri n (QD k)) -> (forall k i, (i < n)%nat -> ~ 1 - z * QD k i i == 0) ->
  veq (U 0%nat) ones -> (forall k, is_sweep n Qm (QD k) z (U k) (U (S k))) -> is_coll n Qm z Uc ->
  (forall i, G 0%nat i == - mv n Qm Uc i) ->
  (forall k i, (i < n)%nat -> G (S k) i - z * mv n (QD k) (G (S k)) i == mv n (msub Qm (QD k)) (G k) i) ->
  forall k i, (i < n)%nat -> U k i - Uc i == zpow z (S k) * G k i.
Proof.
  intros HL HD H0 HS HC HG0 HG k. induction k as [|k IH]; intros i Hi.
  - rewrite (H0 i), (HC i), (HG0 i). unfold ones. cbn [zpow]. ring.
  - apply (tri_factor n (QD k) z (S (S k)) (fun j => U (S k) j - Uc j) (fun j => mv n (msub Qm (QD k)) (G k) j) (G (S k))
             (HL k) (HD k)); [| apply HG | exact Hi].
    intros i0 Hi0. rewrite (error_propagation n Qm (QD k) z (U k) (U (S k)) Uc (HS k) HC i0).
    rewrite (mv_ext n (msub Qm (QD k)) (fun j => U k j - Uc j) (fun j => zpow z (S k) * G k j) IH i0).
    rewrite mv_scal. cbn [zpow]. ring.
Qed.

(* the same for the truncation defect of the formal series: U^k = sum_{m<=N} z^m T_{k,m} + z^(N+1) h_k *)
Theorem series_remainder n Qm QD z (U H : nat -> vec) N :
  (forall k, lower_tri n (QD k)) -> (forall k i, (i < n)%nat -> ~ 1 - z * QD k i i == 0) ->
  veq (U 0%nat) ones -> (forall k, is_sweep n Qm (QD k) z (U k) (U (S k))) ->
  (forall i, H 0%nat i == 0) ->
  (forall k i, (i < n)%nat -> H (S k) i - z * mv n (QD k) (H (S k)) i
                             == z * mv n (msub Qm (QD k)) (H k) i + Tser n Qm QD (S k) (S N) i) ->
  forall k i, (i < n)%nat -> U k i == trunc n Qm QD z k (S N) i + zpow z (S N) * H k i.
Proof.
  intros HL HD H0 HS HH0 HH k. 
  assert (Claim : forall i, (i < n)%nat -> U k i - trunc n Qm QD z k (S N) i == zpow z (S N) * H k i).
  { induction k as [|k IH]; intros i Hi.
    - rewrite (H0 i), (HH0 i). unfold trunc. rewrite bigsum_shift.
      rewrite bigsum_zero by (intros; cbn [Tser]; unfold vzero; ring). cbn [Tser zpow]. unfold ones. ring.
    - apply (tri_factor n (QD k) z (S N) (fun j => U (S k) j - trunc n Qm QD z (S k) (S N) j)
               (fun j => z * mv n (msub Qm (QD k)) (H k) j + Tser n Qm QD (S k) (S N) j) (H (S k)) (HL k) (HD k));
        [| apply HH | exact Hi].
      intros i0 Hi0. rewrite (series_defect n Qm QD z U HS k N i0).
      rewrite (mv_ext n (msub Qm (QD k)) _ (fun j => zpow z (S N) * H k j) IH i0).
      rewrite mv_scal. ring. }
  intros i Hi. rewrite <- (Claim i Hi). ring.
Qed.

(* ================= soundness of the dyadic validators ============================================== *)

Definition vofl (l : list dy) : vec := fun i => D2Q (nth i l d0).
Definition mofl (A : list (list dy)) : mat := fun i j => D2Q (nth j (nth i A []) d0).

Lemma vofl_nil i : vofl [] i == 0.
Proof. unfold vofl. destruct i; reflexivity. Qed.

Lemma ddot_nil_r b : ddot b [] = d0.
Proof. destruct b; reflexivity. Qed.

Lemma ddot_sound r : forall x n, (length r <= n)%nat ->
  D2Q (ddot r x) == bigsum n (fun j => vofl r j * vofl x j).
Proof.
  induction r as [|a r IH]; intros x n Hn.
  - cbn [ddot]. rewrite bigsum_zero; [reflexivity|]. intros j _. rewrite vofl_nil. ring.
  - destruct n as [|n]; [cbn in Hn; lia|]. destruct x as [|b x].
    + cbn [ddot]. rewrite bigsum_zero; [reflexivity|]. intros j _. rewrite vofl_nil. ring.
    + cbn [ddot]. rewrite fadd_eq, D2Q_add, D2Q_mul, bigsum_shift.
      rewrite (IH x n) by (cbn in Hn; lia). unfold vofl. cbn [nth]. reflexivity.
Qed.

Lemma vofl_dmv A x i : vofl (dmv A x) i = D2Q (ddot (nth i A []) x).
Proof.
  unfold vofl, dmv. change d0 with (ddot [] x) at 1. rewrite (map_nth (fun r => ddot r x)). reflexivity.
Qed.

Definition rows_le (n : nat) (A : list (list dy)) : Prop := forall i, (length (nth i A []) <= n)%nat.

Lemma square_rows n A : square n A = true -> rows_le n A /\ length A = n.
Proof.
  unfold square. intros H. apply andb_prop in H as [H1 H2]. apply Nat.eqb_eq in H1. split; [|exact H1].
  intros i. destruct (Nat.lt_ge_cases i (length A)) as [Hi|Hi].
  - rewrite forallb_forall in H2. specialize (H2 _ (nth_In A [] Hi)). apply Nat.eqb_eq in H2. lia.
  - rewrite nth_overflow by exact Hi. cbn. lia.
Qed.

Lemma dmv_sound n A x : rows_le n A -> veq (vofl (dmv A x)) (mv n (mofl A) (vofl x)).
Proof.
  intros HA i. rewrite vofl_dmv. rewrite (ddot_sound _ x n (HA i)). unfold mv, mofl, vofl. reflexivity.
Qed.

Lemma dpowers_sound n A : rows_le n A -> forall p x j, (j < p)%nat ->
  veq (vofl (nth j (dpowers A x p) [])) (mpow n (mofl A) j (vofl x)).
Proof.
  intros HA. induction p as [|p IH]; intros x j Hj; [lia|].
  destruct j as [|j]; cbn [dpowers nth mpow]; [intro; reflexivity|].
  intro i. rewrite (IH (dmv A x) j ltac:(lia) i).
  rewrite (mpow_ext' n (mofl A) j _ _ (dmv_sound n A x HA) i). apply mpow_mv.
Qed.

Lemma dpowers_length A p : forall x, length (dpowers A x p) = p.
Proof. induction p as [|p IH]; intros x; cbn [dpowers length]; [reflexivity|]. rewrite IH. reflexivity. Qed.

Lemma nth_repeat_lt (a : dy) n i : (i < n)%nat -> nth i (repeat a n) d0 = a.
Proof. revert i. induction n as [|n IH]; intros i Hi; [lia|]. destruct i; cbn [repeat nth]; [reflexivity|]. apply IH. lia. Qed.

Lemma dones_sound n : veqn n (vofl (dones n)) ones.
Proof. intros i Hi. unfold vofl, dones, ones. rewrite nth_repeat_lt by exact Hi. reflexivity. Qed.

Lemma mpow_veqn n A k x y : veqn n x y -> veqn n (mpow n A k x) (mpow n A k y).
Proof.
  intros H. destruct k as [|k]; [exact H|]. apply veq_veqn, mpow_ext; [exact H | lia].
Qed.

Lemma zfact_pos j : (0 < zfact j)%Z.
Proof. induction j as [|j IH]; cbn [zfact]; lia. Qed.

Lemma qfact_zfact j : qfact j == inject_Z (zfact j).
Proof.
  induction j as [|j IH]; [reflexivity|]. cbn [qfact zfact]. rewrite IH, inject_Z_mult. reflexivity.
Qed.

Lemma qfact_pos j : 0 < qfact j.
Proof. rewrite qfact_zfact. change 0 with (inject_Z 0). rewrite <- Zlt_Qlt. apply zfact_pos. Qed.

Lemma Qabs_div_bound' K m tau : 0 < K -> Qabs (K * m - 1) <= K * tau -> Qabs (m - 1 / K) <= tau.
Proof.
  intros HK H.
  assert (HK0 : ~ K == 0) by (intro E; rewrite E in HK; discriminate HK).
  setoid_replace (m - 1 / K) with ((K * m - 1) * / K) by (field; exact HK0).
  rewrite Qabs_Qmult. rewrite (Qabs_pos (/ K)) by (apply Qlt_le_weak, Qinv_lt_0_compat; exact HK).
  apply Qle_shift_div_r; [exact HK|]. rewrite (Qmult_comm tau K). exact H.
Qed.

Lemma coef_ok_sound tol j c : coef_ok tol j c = true -> Qabs (D2Q c - 1 / qfact j) <= D2Q tol.
Proof.
  unfold coef_ok. cbv zeta. rewrite fleb_eq, fsub_eq, dleb_spec, D2Q_abs, D2Q_sub, !D2Q_mul, D2Q_dZ, D2Q_d1.
  rewrite <- qfact_zfact. apply Qabs_div_bound'. apply qfact_pos.
Qed.

Lemma coefs_ok_from_sound tol cs : forall j0, coefs_ok_from tol j0 cs = true ->
  forall j, (j < length cs)%nat -> Qabs (D2Q (nth j cs d0) - 1 / qfact (j0 + j)) <= D2Q tol.
Proof.
  induction cs as [|c cs IH]; intros j0 H j Hj; [cbn in Hj; lia|].
  cbn [coefs_ok_from] in H. apply andb_prop in H as [H1 H2].
  destruct j as [|j]; cbn [nth].
  - rewrite Nat.add_0_r. apply coef_ok_sound. exact H1.
  - replace (j0 + S j)%nat with (S j0 + j)%nat by lia. apply IH; [exact H2 | cbn in Hj; lia].
Qed.

(* the computed coefficient list really holds b . A^(j-1) 1 *)
Lemma dstab_coefs_sound A b p j :
  let n := length A in
  rows_le n A -> (length b <= n)%nat -> (j < p)%nat ->
  D2Q (nth j (dstab_coefs A b p) d0) == stab_coef n (mofl A) (vofl b) (S j).
Proof.
  intros n HA Hb Hj. unfold dstab_coefs. rewrite <- (ddot_nil_r b). rewrite (map_nth (ddot b)).
  rewrite (ddot_sound b _ n Hb). cbn [stab_coef]. unfold vdot. fold n.
  apply bigsum_ext. intros i Hi.
  rewrite (dpowers_sound n A HA p (dones n) j Hj i).
  rewrite (mpow_veqn n (mofl A) j _ _ (dones_sound n) i Hi). reflexivity.
Qed.

Theorem check_order_sound A b p tol : check_order A b p tol = true ->
  forall j, (1 <= j <= p)%nat ->
  Qabs (stab_coef (length A) (mofl A) (vofl b) j - 1 / qfact j) <= D2Q tol.
Proof.
  unfold check_order. intros H j Hj. apply andb_prop in H as [H Hc]. apply andb_prop in H as [Hsq Hb].
  apply square_rows in Hsq as [HA _]. apply Nat.eqb_eq in Hb.
  destruct j as [|j]; [lia|].
  rewrite <- (dstab_coefs_sound A b p j HA ltac:(lia) ltac:(lia)).
  apply (coefs_ok_from_sound tol _ 1%nat Hc j).
  unfold dstab_coefs. rewrite map_length, dpowers_length. lia.
Qed.

(* the method's stability function, for every z at which the stages exist, is the checked polynomial
   plus an explicit O(z^(p+1)) remainder *)
Corollary rk_order A b p tol : check_order A b p tol = true ->
  let n := length A in
  forall z Y, (forall i, Y i == 1 + z * mv n (mofl A) Y i) ->
  (1 + z * vdot n (vofl b) Y ==
     bigsum (S p) (fun j => zpow z j * stab_coef n (mofl A) (vofl b) j)
     + zpow z (S p) * vdot n (vofl b) (mpow n (mofl A) p Y))
  /\ forall j, (1 <= j <= p)%nat -> Qabs (stab_coef n (mofl A) (vofl b) j - 1 / qfact j) <= D2Q tol.
Proof.
  intros H n z Y HY. split; [apply stability_expansion; exact HY | apply check_order_sound; exact H].
Qed.

Theorem check_embedded_sound A b1 b2 q tol : check_embedded A b1 b2 q tol = true ->
  forall j, (1 <= j < q)%nat ->
  Qabs (stab_coef (length A) (mofl A) (vofl b1) j - stab_coef (length A) (mofl A) (vofl b2) j) <= D2Q tol.
Proof.
  unfold check_embedded. intros H j Hj. apply andb_prop in H as [H Hc]. apply andb_prop in H as [H Hb2].
  apply andb_prop in H as [Hsq Hb1]. apply square_rows in Hsq as [HA _]. apply Nat.eqb_eq in Hb1, Hb2.
  destruct j as [|j]; [lia|]. set (n := length A) in *.
  rewrite forallb_forall in Hc.
  assert (Hin : In (nth j (dpowers A (dones n) (q - 1)) []) (dpowers A (dones n) (q - 1))).
  { apply nth_In. rewrite dpowers_length. lia. }
  specialize (Hc _ Hin). rewrite fleb_eq, fsub_eq, dleb_spec, D2Q_abs, D2Q_sub in Hc.
  rewrite !(ddot_sound _ _ n) in Hc by lia. cbn [stab_coef]. unfold vdot.
  assert (E : forall b, bigsum n (fun i => vofl b i * vofl (nth j (dpowers A (dones n) (q - 1)) []) i)
                        == bigsum n (fun i => vofl b i * mpow n (mofl A) j ones i)).
  { intro b. apply bigsum_ext. intros i Hi.
    rewrite (dpowers_sound n A HA (q - 1) (dones n) j ltac:(lia) i).
    rewrite (mpow_veqn n (mofl A) j _ _ (dones_sound n) i Hi). reflexivity. }
  rewrite !E in Hc. exact Hc.
Qed.

(* ---- general series validator ---- *)
Lemma vofl_veqn_refl n l : veqn n (vofl l) (vofl l).
Proof. intros i _. reflexivity. Qed.

Lemma series_ok_sound tol cs : forall ts, series_ok tol cs ts = true ->
  forall j, (j < length ts)%nat ->
  (0 < nth j ts 1)%Z /\ Qabs (D2Q (nth j cs d0) - 1 / inject_Z (nth j ts 1%Z)) <= D2Q tol.
Proof.
  induction cs as [|c cs IH]; intros [|t ts] H j Hj; try (cbn in Hj; lia); cbn [series_ok] in H; [discriminate|].
  apply andb_prop in H as [H H3]. apply andb_prop in H as [H1 H2]. apply Z.ltb_lt in H1.
  destruct j as [|j]; cbn [nth].
  - split; [exact H1|].
    rewrite fleb_eq, fsub_eq, dleb_spec, D2Q_abs, D2Q_sub, !D2Q_mul, D2Q_dZ, D2Q_d1 in H2.
    apply Qabs_div_bound'; [|exact H2]. change 0 with (inject_Z 0). rewrite <- Zlt_Qlt. exact H1.
  - apply IH; [exact H3 | cbn in Hj; lia].
Qed.

Theorem check_series_sound A b g ts tol : check_series A b g ts tol = true ->
  forall j, (j < length ts)%nat ->
  (0 < nth j ts 1)%Z /\
  Qabs (vdot (length A) (vofl b) (mpow (length A) (mofl A) j (vofl g)) - 1 / inject_Z (nth j ts 1%Z)) <= D2Q tol.
Proof.
  unfold check_series. intros H j Hj. apply andb_prop in H as [H Hc]. apply andb_prop in H as [H Hg].
  apply andb_prop in H as [Hsq Hb]. apply square_rows in Hsq as [HA _]. apply Nat.eqb_eq in Hb, Hg.
  set (n := length A) in *.
  destruct (series_ok_sound tol _ ts Hc j Hj) as [Hpos Hbd]. split; [exact Hpos|].
  rewrite <- (ddot_nil_r b) in Hbd. rewrite (map_nth (ddot b)) in Hbd.
  rewrite (ddot_sound b _ n ltac:(lia)) in Hbd.
  assert (E : bigsum n (fun i => vofl b i * vofl (nth j (dpowers A g (length ts)) []) i)
              == vdot n (vofl b) (mpow n (mofl A) j (vofl g))).
  { unfold vdot. apply bigsum_ext. intros i _. rewrite (dpowers_sound n A HA (length ts) g j Hj i). reflexivity. }
  rewrite E in Hbd. exact Hbd.
Qed.

(* ---- IMEX bivariate table ---- *)
Lemma dmv_length A x : length (dmv A x) = length A.
Proof. unfold dmv. apply map_length. Qed.

Lemma dvadd_length x : forall y, length x = length y -> length (dvadd x y) = length x.
Proof.
  induction x as [|a x IH]; intros [|b y] H; cbn in H; try discriminate; cbn [dvadd length]; [reflexivity|].
  rewrite IH by lia. reflexivity.
Qed.

Lemma dvadd_sound x : forall y, length x = length y -> veq (vofl (dvadd x y)) (fun i => vofl x i + vofl y i).
Proof.
  induction x as [|a x IH]; intros [|b y] H i; cbn in H; try discriminate.
  - rewrite !vofl_nil. ring.
  - destruct i as [|i]; unfold vofl; cbn [dvadd nth].
    + rewrite fadd_eq, D2Q_add. reflexivity.
    + apply (IH y ltac:(lia) i).
Qed.

Lemma dVt_00 AI AE n : dVt AI AE n 0 0 = dones n.
Proof. reflexivity. Qed.
Lemma dVt_0S AI AE n b : dVt AI AE n 0 (S b) = dmv AE (dVt AI AE n 0 b).
Proof. reflexivity. Qed.
Lemma dVt_S0 AI AE n a : dVt AI AE n (S a) 0 = dmv AI (dVt AI AE n a 0).
Proof. reflexivity. Qed.
Lemma dVt_SS AI AE n a b :
  dVt AI AE n (S a) (S b) = dvadd (dmv AI (dVt AI AE n a (S b))) (dmv AE (dVt AI AE n (S a) b)).
Proof. reflexivity. Qed.
Lemma Vtab_0S n AI AE b i : Vtab n AI AE 0 (S b) i = mv n AE (Vtab n AI AE 0 b) i.
Proof. reflexivity. Qed.
Lemma Vtab_S0 n AI AE a i : Vtab n AI AE (S a) 0 i = mv n AI (Vtab n AI AE a 0) i.
Proof. reflexivity. Qed.
Lemma Vtab_SS n AI AE a b i :
  Vtab n AI AE (S a) (S b) i = mv n AI (Vtab n AI AE a (S b)) i + mv n AE (Vtab n AI AE (S a) b) i.
Proof. reflexivity. Qed.

Lemma dVt_sound AI AE n : rows_le n AI -> rows_le n AE -> length AI = n -> length AE = n ->
  forall a b, veqn n (vofl (dVt AI AE n a b)) (Vtab n (mofl AI) (mofl AE) a b).
Proof.
  intros HI HE LI LE. induction a as [|a IHa]; induction b as [|b IHb].
  - rewrite dVt_00. apply dones_sound.
  - rewrite dVt_0S. intros i _. rewrite (dmv_sound n AE _ HE i), Vtab_0S. apply mv_ext. exact IHb.
  - rewrite dVt_S0. intros i _. rewrite (dmv_sound n AI _ HI i), Vtab_S0. apply mv_ext. apply IHa.
  - rewrite dVt_SS. intros i _.
    assert (Hl : length (dmv AI (dVt AI AE n a (S b))) = length (dmv AE (dVt AI AE n (S a) b)))
      by (rewrite !dmv_length; congruence).
    rewrite (dvadd_sound _ _ Hl i).
    rewrite (dmv_sound n AI _ HI i), (dmv_sound n AE _ HE i), Vtab_SS.
    rewrite (mv_ext n (mofl AI) _ _ (IHa (S b)) i), (mv_ext n (mofl AE) _ _ IHb i). reflexivity.
Qed.

Lemma vdot_sound n b v x : (length b <= n)%nat -> veqn n (vofl v) x ->
  D2Q (ddot b v) == vdot n (vofl b) x.
Proof.
  intros Hb Hv. rewrite (ddot_sound b v n Hb). unfold vdot. apply bigsum_ext. intros i Hi. rewrite (Hv i Hi). reflexivity.
Qed.

Lemma dimex_coef_sound AI AE bI bE a b :
  let n := length AI in
  rows_le n AI -> rows_le n AE -> length AE = n -> (length bI <= n)%nat -> (length bE <= n)%nat ->
  D2Q (dimex_coef AI AE bI bE a b) == imex_coef n (mofl AI) (mofl AE) (vofl bI) (vofl bE) a b.
Proof.
  intros n HI HE LE HbI HbE. unfold dimex_coef. fold n.
  pose proof (dVt_sound AI AE n HI HE eq_refl LE) as HV.
  destruct a as [|a], b as [|b]; cbn [imex_coef].
  - reflexivity.
  - apply vdot_sound; [exact HbE | apply HV].
  - apply vdot_sound; [exact HbI | apply HV].
  - rewrite fadd_eq, D2Q_add. rewrite (vdot_sound n bI _ _ HbI (HV a (S b))), (vdot_sound n bE _ _ HbE (HV (S a) b)). reflexivity.
Qed.

Lemma pairs_upto_In p a b : (a + b <= p)%nat -> In (a, b) (pairs_upto p).
Proof.
  intros H. unfold pairs_upto. apply in_flat_map. exists a. split; [apply in_seq; lia|].
  apply in_map_iff. exists b. split; [reflexivity | apply in_seq; lia].
Qed.

Theorem check_order_imex_sound AI AE bI bE p tol : check_order_imex AI AE bI bE p tol = true ->
  forall a b, (a + b <= p)%nat ->
  Qabs (imex_coef (length AI) (mofl AI) (mofl AE) (vofl bI) (vofl bE) a b - 1 / (qfact a * qfact b)) <= D2Q tol.
Proof.
  unfold check_order_imex. cbv zeta. intros H a b Hab. apply andb_prop in H as [H Hc].
  apply andb_prop in H as [H HbE]. apply andb_prop in H as [H HbI]. apply andb_prop in H as [HsI HsE].
  apply square_rows in HsI as [HI _]. apply square_rows in HsE as [HE LE]. apply Nat.eqb_eq in HbI, HbE.
  rewrite forallb_forall in Hc. specialize (Hc _ (pairs_upto_In p a b Hab)). cbn [fst snd] in Hc.
  rewrite fleb_eq, fsub_eq, dleb_spec, D2Q_abs, D2Q_sub, !D2Q_mul, D2Q_dZ, D2Q_d1 in Hc.
  rewrite (dimex_coef_sound AI AE bI bE a b HI HE LE ltac:(lia) ltac:(lia)) in Hc.
  rewrite inject_Z_mult, <- !qfact_zfact in Hc.
  apply Qabs_div_bound'; [|exact Hc].
  rewrite <- (Qmult_0_l (qfact b)). apply Qmult_lt_compat_r; apply qfact_pos.
Qed.

Theorem check_embedded_imex_sound AI AE bI1 bE1 bI2 bE2 q tol :
  check_embedded_imex AI AE bI1 bE1 bI2 bE2 q tol = true ->
  forall a b, (a + b < q)%nat ->
  Qabs (imex_coef (length AI) (mofl AI) (mofl AE) (vofl bI1) (vofl bE1) a b
        - imex_coef (length AI) (mofl AI) (mofl AE) (vofl bI2) (vofl bE2) a b) <= D2Q tol.
Proof.
  unfold check_embedded_imex. cbv zeta. intros H a b Hab. apply andb_prop in H as [H Hc].
  apply andb_prop in H as [H HbE2]. apply andb_prop in H as [H HbI2].
  apply andb_prop in H as [H HbE1]. apply andb_prop in H as [H HbI1]. apply andb_prop in H as [HsI HsE].
  apply square_rows in HsI as [HI _]. apply square_rows in HsE as [HE LE]. apply Nat.eqb_eq in HbI1, HbE1, HbI2, HbE2.
  rewrite forallb_forall in Hc. specialize (Hc _ (pairs_upto_In (q - 1) a b ltac:(lia))). cbn [fst snd] in Hc.
  rewrite fleb_eq, fsub_eq, dleb_spec, D2Q_abs, D2Q_sub in Hc.
  rewrite !(dimex_coef_sound AI AE _ _ a b HI HE LE) in Hc by lia. exact Hc.
Qed.

(* ---- the memoised SDC series on tables computes [Tser] ---- *)
Lemma fsub_d0 : fsub d0 d0 = d0.
Proof. reflexivity. Qed.

Lemma dmsub_sound n A B : square n A = true -> square n B = true ->
  forall i j, mofl (dmsub A B) i j == mofl A i j - mofl B i j.
Proof.
  intros HA HB i j. unfold square in HA, HB.
  apply andb_prop in HA as [LA RA]. apply andb_prop in HB as [LB RB]. apply Nat.eqb_eq in LA, LB.
  unfold mofl, dmsub.
  set (G := fun q : dy * dy => fsub (fst q) (snd q)).
  set (Fr := fun p : list dy * list dy => map G (combine (fst p) (snd p))).
  change (@nil dy) with (Fr ([], [])) at 1. rewrite (map_nth Fr).
  rewrite combine_nth by lia. unfold Fr. cbn [fst snd].
  assert (Hlen : length (nth i A []) = length (nth i B [])).
  { destruct (Nat.lt_ge_cases i n) as [Hi|Hi].
    - rewrite forallb_forall in RA, RB.
      assert (HiA : (i < length A)%nat) by lia. assert (HiB : (i < length B)%nat) by lia.
      pose proof (RA _ (nth_In A [] HiA)) as E1. pose proof (RB _ (nth_In B [] HiB)) as E2.
      apply Nat.eqb_eq in E1, E2. lia.
    - rewrite !nth_overflow by lia. reflexivity. }
  change d0 with (G (d0, d0)) at 1. rewrite (map_nth G). rewrite combine_nth by exact Hlen.
  unfold G. cbn [fst snd]. rewrite fsub_eq, D2Q_sub. reflexivity.
Qed.

Lemma dmsub_square n A B : square n A = true -> square n B = true -> rows_le n (dmsub A B) /\ length (dmsub A B) = n.
Proof.
  intros HA HB. unfold square in HA, HB.
  apply andb_prop in HA as [LA RA]. apply andb_prop in HB as [LB RB]. apply Nat.eqb_eq in LA, LB.
  split.
  - intros i. unfold dmsub.
    set (Fr := fun p : list dy * list dy => map (fun q : dy * dy => fsub (fst q) (snd q)) (combine (fst p) (snd p))).
    change (@nil dy) with (Fr ([], [])). rewrite (map_nth Fr). rewrite combine_nth by lia. unfold Fr. cbn [fst snd].
    rewrite map_length, combine_length.
    destruct (Nat.lt_ge_cases i n) as [Hi|Hi].
    + rewrite forallb_forall in RA. assert (HiA : (i < length A)%nat) by lia.
      pose proof (RA _ (nth_In A [] HiA)) as E1. apply Nat.eqb_eq in E1. lia.
    + rewrite (nth_overflow A) by lia. cbn. lia.
  - unfold dmsub. rewrite map_length, combine_length. lia.
Qed.

Section Series.
  Variable n : nat.
  Variable Qf : mat.
  Variable QDf : nat -> mat.
  Variable Qm : list (list dy).
  Hypothesis HQ : square n Qm = true.
  Hypothesis HQf : forall i j, Qf i j == mofl Qm i j.

  Notation T := (Tser n Qf QDf).

  (* a list of vectors represents columns m0, m0+1, ... of row k of the series *)
  Definition repr (k m0 : nat) (row : list (list dy)) : Prop :=
    forall j, (j < length row)%nat -> length (nth j row []) = n /\ veqn n (vofl (nth j row [])) (T k (m0 + j)).

  Lemma dser_row_length QD QmD prev : forall cur, length (dser_row QD QmD prev cur) = length prev.
  Proof. induction prev as [|pm prev IH]; intros cur; cbn [dser_row length]; [reflexivity|]. rewrite IH. reflexivity. Qed.

  Lemma dser_row_sound k QD : square n QD = true -> (forall i j, QDf k i j == mofl QD i j) ->
    forall prev cur m0, length cur = n -> veqn n (vofl cur) (T (S k) m0) -> repr k m0 prev ->
    repr (S k) m0 (dser_row QD (dmsub Qm QD) prev cur).
  Proof.
    intros HD HDf.
    destruct (square_rows n QD HD) as [RD LD].
    destruct (dmsub_square n Qm QD HQ HD) as [RM LM].
    induction prev as [|pm prev IH]; intros cur m0 Lc Hc Hp j Hj; [cbn in Hj; lia|].
    cbn [dser_row] in *. destruct j as [|j]; cbn [nth].
    - rewrite Nat.add_0_r. split; assumption.
    - replace (m0 + S j)%nat with (S m0 + j)%nat by lia.
      destruct (Hp 0%nat ltac:(cbn; lia)) as [Lp0 Hp0]. cbn [nth] in Lp0, Hp0. rewrite Nat.add_0_r in Hp0.
      apply IH.
      + rewrite dvadd_length; rewrite !dmv_length; lia.
      + intros i _.
        assert (Hl : length (dmv QD cur) = length (dmv (dmsub Qm QD) pm)) by (rewrite !dmv_length; lia).
        rewrite (dvadd_sound _ _ Hl i).
        rewrite (dmv_sound n QD cur RD i), (dmv_sound n (dmsub Qm QD) pm RM i). rewrite Tser_SS.
        rewrite (mv_ext n (mofl QD) _ _ Hc i), (mv_ext n (mofl (dmsub Qm QD)) _ _ Hp0 i).
        rewrite (mv_ext_mat n (QDf k) (mofl QD) _ HDf i).
        rewrite (mv_ext_mat n (msub Qf (QDf k)) (mofl (dmsub Qm QD)) _
                   ltac:(intros a b; unfold msub; rewrite (dmsub_sound n Qm QD HQ HD), HQf, HDf; reflexivity) i).
        reflexivity.
      + intros j' Hj'. specialize (Hp (S j') ltac:(cbn; lia)). cbn [nth] in Hp.
        replace (S m0 + j')%nat with (m0 + S j')%nat by lia. exact Hp.
      + cbn in Hj. lia.
  Qed.

  Lemma dones_length m : length (dones m) = m.
  Proof. apply repeat_length. Qed.

  Lemma vofl_zeros m i : vofl (repeat d0 m) i == 0.
  Proof.
    unfold vofl. destruct (Nat.lt_ge_cases i m) as [Hi|Hi].
    - rewrite nth_repeat_lt by exact Hi. reflexivity.
    - rewrite nth_overflow by (rewrite repeat_length; exact Hi). reflexivity.
  Qed.

  Lemma dser_row0_sound N : repr 0 0 (dser_row0 n N).
  Proof.
    destruct N as [|N]; intros j Hj; [cbn in Hj; lia|]. cbn [dser_row0] in *.
    destruct j as [|j]; cbn [nth plus].
    - split; [apply dones_length | apply dones_sound].
    - cbn [length] in Hj. rewrite repeat_length in Hj.
      assert (E : nth j (repeat (repeat d0 n) N) [] = repeat d0 n).
      { clear -Hj. revert j Hj. induction N as [|N IH]; intros j Hj; [lia|]. destruct j; cbn [repeat nth]; [reflexivity|]. apply IH. lia. }
      rewrite E. split; [apply repeat_length|]. intros i _. rewrite vofl_zeros. reflexivity.
  Qed.

  Lemma dser_row0_length N : length (dser_row0 n N) = N.
  Proof. destruct N; cbn [dser_row0 length]; [reflexivity|]. rewrite repeat_length. reflexivity. Qed.

  (* rows k0, k0+1, ... *)
  Lemma dser_sound QDs : forall row k0,
    (forall s, (s < length QDs)%nat -> square n (nth s QDs []) = true /\ forall i j, QDf (k0 + s) i j == mofl (nth s QDs []) i j) ->
    repr k0 0 row ->
    forall k, (k <= length QDs)%nat ->
    length (nth k (dser Qm QDs row) []) = length row /\ repr (k0 + k) 0 (nth k (dser Qm QDs row) []).
  Proof.
    induction QDs as [|QD QDs IH]; intros row k0 HD Hrow k Hk.
    - cbn in Hk. replace k with 0%nat by lia. cbn [dser nth]. rewrite Nat.add_0_r. split; [reflexivity | exact Hrow].
    - cbn [dser]. destruct k as [|k]; cbn [nth].
      + rewrite Nat.add_0_r. split; [reflexivity | exact Hrow].
      + destruct (HD 0%nat ltac:(cbn; lia)) as [HD0 HD0f]. cbn [nth] in HD0, HD0f. rewrite Nat.add_0_r in HD0f.
        assert (LQ : length Qm = n) by (apply (square_rows n Qm HQ)).
        assert (Hrow' : repr (S k0) 0 (dser_row QD (dmsub Qm QD) row (dones (length Qm)))).
        { apply (dser_row_sound k0 QD HD0 HD0f row (dones (length Qm)) 0%nat).
          - rewrite dones_length. exact LQ.
          - rewrite LQ. apply dones_sound.
          - exact Hrow. }
        destruct (IH _ (S k0) ltac:(intros s Hs; specialize (HD (S s) ltac:(cbn; lia)); cbn [nth] in HD;
                                     replace (S k0 + s)%nat with (k0 + S s)%nat by lia; exact HD) Hrow' k ltac:(cbn in Hk; lia)) as [L R].
        rewrite dser_row_length in L. replace (k0 + S k)%nat with (S k0 + k)%nat by lia. split; assumption.
  Qed.
End Series.

Lemma nth_removelast (l : list (list dy)) j : (S j < length l)%nat -> nth j (removelast l) [] = nth j l [].
Proof.
  revert j. induction l as [|a l IH]; intros j Hj; [cbn in Hj; lia|].
  destruct l as [|b l]; [cbn in Hj; lia|].
  change (removelast (a :: b :: l)) with (a :: removelast (b :: l)).
  destruct j as [|j]; [reflexivity|]. cbn [nth]. apply IH. cbn in Hj |- *. lia.
Qed.

Lemma last_nth' (l : list dy) : last l d0 = nth (length l - 1) l d0.
Proof.
  induction l as [|x l IH]; [reflexivity|]. destruct l as [|y l]; [reflexivity|].
  change (last (x :: y :: l) d0) with (last (y :: l) d0). rewrite IH. cbn [length].
  replace (S (S (length l)) - 1)%nat with (S (length l)) by lia.
  replace (S (length l) - 1)%nat with (length l) by lia. reflexivity.
Qed.

(* the coefficient lists the check prints are the Taylor coefficients of uend/u0 after k sweeps
   with the preconditioners QDs (sweep s uses the s-th matrix) *)
Theorem dsdc_coefs_upd_sound Qm QDs w N (QDf : nat -> mat) :
  let n := length Qm in
  square n Qm = true -> (length w <= n)%nat ->
  (forall s, (s < length QDs)%nat -> square n (nth s QDs []) = true /\ forall i j, QDf s i j == mofl (nth s QDs []) i j) ->
  forall k j, (k <= length QDs)%nat -> (j < N)%nat ->
  D2Q (nth j (nth k (dsdc_coefs_upd Qm QDs w N) []) d0) == sdc_coef_upd n (mofl Qm) QDf (vofl w) k j.
Proof.
  intros n HQ Hw HD k j Hk Hj. unfold dsdc_coefs_upd. fold n.
  set (F := fun row : list (list dy) => d1 :: map (ddot w) (removelast row)).
  pose proof (dser_sound n (mofl Qm) QDf Qm HQ ltac:(intros; reflexivity) QDs (dser_row0 n N) 0%nat
                ltac:(intros s Hs; exact (HD s Hs)) (dser_row0_sound n (mofl Qm) QDf Qm ltac:(intros; reflexivity) N) k Hk) as [L R].
  rewrite dser_row0_length in L. cbn [plus] in R.
  assert (Hk' : (k < length (dser Qm QDs (dser_row0 n N)))%nat).
  { clear -Hk. revert Hk. generalize (dser_row0 n N). revert k. induction QDs as [|QD QDs IH]; intros k row Hk; cbn [dser length] in *; [lia|].
    destruct k; [lia|]. specialize (IH k (dser_row QD (dmsub Qm QD) row (dones (length Qm))) ltac:(lia)). lia. }
  rewrite (nth_indep _ [] (F []) ) by (rewrite map_length; exact Hk'). rewrite (map_nth F). unfold F.
  destruct j as [|j]; cbn [nth sdc_coef_upd]; [reflexivity|].
  rewrite <- (ddot_nil_r w). rewrite (map_nth (ddot w)). rewrite nth_removelast by lia.
  destruct (R j ltac:(lia)) as [_ Rj]. cbn [plus] in Rj.
  apply vdot_sound; [exact Hw | exact Rj].
Qed.

Theorem dsdc_coefs_last_sound Qm QDs N (QDf : nat -> mat) :
  let n := length Qm in
  square n Qm = true -> (0 < n)%nat ->
  (forall s, (s < length QDs)%nat -> square n (nth s QDs []) = true /\ forall i j, QDf s i j == mofl (nth s QDs []) i j) ->
  forall k j, (k <= length QDs)%nat -> (j < N)%nat ->
  D2Q (nth j (nth k (dsdc_coefs_last Qm QDs N) []) d0) == sdc_coef_last n (mofl Qm) QDf k j.
Proof.
  intros n HQ Hn HD k j Hk Hj. unfold dsdc_coefs_last. fold n.
  set (F := fun row : list (list dy) => map (fun v => last v d0) row).
  pose proof (dser_sound n (mofl Qm) QDf Qm HQ ltac:(intros; reflexivity) QDs (dser_row0 n N) 0%nat
                ltac:(intros s Hs; exact (HD s Hs)) (dser_row0_sound n (mofl Qm) QDf Qm ltac:(intros; reflexivity) N) k Hk) as [L R].
  rewrite dser_row0_length in L. cbn [plus] in R.
  change (@nil dy) with (F []) at 1. rewrite (map_nth F). unfold F.
  rewrite (map_nth (fun v : list dy => last v d0) (nth k (dser Qm QDs (dser_row0 n N)) []) [] j : nth j (map (fun v => last v d0) _) d0 = _).
  destruct (R j ltac:(lia)) as [Lj Rj]. cbn [plus] in Rj.
  rewrite last_nth', Lj. unfold sdc_coef_last. apply (Rj (n - 1)%nat). lia.
Qed.

(* ---- non-vacuity of the hypotheses of [order_gain]: midpoint collocation (M = 1, Q = 1/2) with the
   implicit-Euler preconditioner (QD = 1) at z = 1/2:  U^k = 4/3 - (1/3)(-1/2)^k,  U_c = 4/3,  g_k = -(2/3)(-1)^k *)
Example order_gain_instance :
  let n := 1%nat in
  let Qm : mat := fun _ _ => 1 # 2 in
  let QD : nat -> mat := fun _ _ _ => 1 in
  let z : Q := 1 # 2 in
  let U : nat -> vec := fun k _ => (4 # 3) - (1 # 3) * zpow (- (1 # 2)) k in
  let Uc : vec := fun _ => 4 # 3 in
  let G : nat -> vec := fun k _ => - (2 # 3) * zpow (- (1)) k in
  (forall k, lower_tri n (QD k)) /\ (forall k i, (i < n)%nat -> ~ 1 - z * QD k i i == 0) /\
  veq (U 0%nat) ones /\ (forall k, is_sweep n Qm (QD k) z (U k) (U (S k))) /\ is_coll n Qm z Uc /\
  (forall i, G 0%nat i == - mv n Qm Uc i) /\
  (forall k i, (i < n)%nat -> G (S k) i - z * mv n (QD k) (G (S k)) i == mv n (msub Qm (QD k)) (G k) i) /\
  (forall k i, (i < n)%nat -> U k i - Uc i == zpow z (S k) * G k i).
Proof.
  cbv zeta.
  assert (H1 : forall k : nat, lower_tri 1 ((fun _ _ _ => 1) k)) by (intros k i j Hij; lia).
  assert (H2 : forall k i : nat, (i < 1)%nat -> ~ 1 - (1 # 2) * 1 == 0) by (intros k i _ E; discriminate E).
  assert (H3 : veq (fun _ : nat => (4 # 3) - (1 # 3) * zpow (- (1 # 2)) 0) ones) by (intro i; reflexivity).
  assert (H4 : forall k, is_sweep 1 (fun _ _ => 1 # 2) (fun _ _ => 1) (1 # 2)
                 (fun _ => (4 # 3) - (1 # 3) * zpow (- (1 # 2)) k) (fun _ => (4 # 3) - (1 # 3) * zpow (- (1 # 2)) (S k))).
  { intros k i. unfold mv, msub. cbn [bigsum zpow]. ring. }
  assert (H5 : is_coll 1 (fun _ _ => 1 # 2) (1 # 2) (fun _ => 4 # 3)) by (intro i; unfold mv; cbn [bigsum]; ring).
  assert (H6 : forall i : nat, - (2 # 3) * zpow (- (1)) 0 == - mv 1 (fun _ _ => 1 # 2) (fun _ => 4 # 3) i)
    by (intro i; unfold mv; cbn [bigsum zpow]; ring).
  assert (H7 : forall k i : nat, (i < 1)%nat ->
     - (2 # 3) * zpow (- (1)) (S k) - (1 # 2) * mv 1 (fun _ _ => 1) (fun _ => - (2 # 3) * zpow (- (1)) (S k)) i
     == mv 1 (msub (fun _ _ => 1 # 2) (fun _ _ => 1)) (fun _ => - (2 # 3) * zpow (- (1)) k) i)
    by (intros k i _; unfold mv, msub; cbn [bigsum zpow]; ring).
  repeat split; try assumption.
  exact (order_gain 1 (fun _ _ => 1 # 2) (fun _ _ _ => 1) (1 # 2)
           (fun k _ => (4 # 3) - (1 # 3) * zpow (- (1 # 2)) k) (fun k _ => - (2 # 3) * zpow (- (1)) k) (fun _ => 4 # 3)
           H1 H2 H3 H4 H5 H6 H7).
Qed.

(* ================= IMEX: the bivariate table is the expansion of (zI AI + zE AE)^j ================== *)

Lemma mv_madd n A B x i : mv n (madd A B) x i == mv n A x i + mv n B x i.
Proof. unfold mv, madd. rewrite <- bigsum_add. apply bigsum_ext. intros; ring. Qed.

Lemma mv_mscal n c A x i : mv n (mscal c A) x i == c * mv n A x i.
Proof. unfold mv, mscal. rewrite <- bigsum_scal. apply bigsum_ext. intros; ring. Qed.

Lemma bigsum_split_shift m f P R :
  f 0%nat == R 0%nat -> (forall a, (a < m)%nat -> f (S a) == P a + R (S a)) -> f (S m) == P m ->
  bigsum (S (S m)) f == bigsum (S m) P + bigsum (S m) R.
Proof.
  intros H0 Hmid Hlast. rewrite bigsum_shift. rewrite (bigsum_shift m R).
  change (bigsum (S m) (fun j => f (S j))) with (bigsum m (fun j => f (S j)) + f (S m)).
  rewrite (bigsum_ext m (fun j => f (S j)) (fun j => P j + R (S j)) Hmid), bigsum_add.
  cbn [bigsum]. rewrite H0, Hlast. ring.
Qed.

(* homogeneous part of total degree j *)
Definition Hdeg (n : nat) (AI AE : mat) (zI zE : Q) (j : nat) : vec :=
  fun i => bigsum (S j) (fun a => zpow zI a * zpow zE (j - a) * Vtab n AI AE a (j - a) i).

Theorem eval_table_is_power n AI AE zI zE : forall j,
  veq (Hdeg n AI AE zI zE j) (mpow n (madd (mscal zI AI) (mscal zE AE)) j ones).
Proof.
  induction j as [|j IH]; intro i.
  - unfold Hdeg. cbn [bigsum zpow mpow Nat.sub Vtab]. unfold ones. ring.
  - cbn [mpow]. rewrite <- (mv_ext n _ _ _ (veq_veqn n _ _ IH) i).
    rewrite mv_madd, !mv_mscal. unfold Hdeg at 2 3. rewrite !mv_bigsum.
    unfold Hdeg.
    rewrite (bigsum_split_shift j _
               (fun a => zI * (zpow zI a * zpow zE (j - a) * mv n AI (Vtab n AI AE a (j - a)) i))
               (fun a => zE * (zpow zI a * zpow zE (j - a) * mv n AE (Vtab n AI AE a (j - a)) i))).
    + rewrite !bigsum_scal. reflexivity.
    + rewrite !Nat.sub_0_r. rewrite Vtab_0S. cbn [zpow]. ring.
    + intros a Ha. replace (S j - S a)%nat with (S (j - S a)) by lia.
      replace (j - a)%nat with (S (j - S a)) by lia. rewrite Vtab_SS. cbn [zpow]. ring.
    + replace (S j - S j)%nat with 0%nat by lia. replace (j - j)%nat with 0%nat by lia. rewrite Vtab_S0. cbn [zpow]. ring.
Qed.

Lemma zpow_one k : zpow 1 k == 1.
Proof. induction k as [|k IH]; cbn [zpow]; [reflexivity|]. rewrite IH. ring. Qed.

(* IMEX stage system  Y = 1 + zI AI Y + zE AE Y :  Y is the sum of the homogeneous parts built from the
   bivariate table, plus an explicit remainder of total degree N *)
Theorem imex_stage_expansion n AI AE zI zE Y :
  (forall i, Y i == 1 + (zI * mv n AI Y i + zE * mv n AE Y i)) ->
  forall N i, Y i == bigsum N (fun j => Hdeg n AI AE zI zE j i)
                    + mpow n (madd (mscal zI AI) (mscal zE AE)) N Y i.
Proof.
  intros HY N i.
  assert (HY' : forall i, Y i == ones i + 1 * mv n (madd (mscal zI AI) (mscal zE AE)) Y i).
  { intro i0. rewrite mv_madd, !mv_mscal, (HY i0). unfold ones. ring. }
  rewrite (neumann_expansion n _ ones 1 Y HY' N i). rewrite zpow_one.
  rewrite (bigsum_ext N _ (fun j => Hdeg n AI AE zI zE j i)).
  - ring.
  - intros j _. rewrite zpow_one, (eval_table_is_power n AI AE zI zE j i). ring.
Qed.

Lemma vdot_zero n b : vdot n b vzero == 0.
Proof. unfold vdot, vzero. apply bigsum_zero. intros; ring. Qed.

Lemma vdot_bigsum n b (c : nat -> Q) (T : nat -> vec) N :
  vdot n b (fun j => bigsum N (fun m => c m * T m j)) == bigsum N (fun m => c m * vdot n b (T m)).
Proof.
  induction N as [|N IH]; cbn [bigsum].
  - apply (vdot_zero n b).
  - rewrite vdot_add, IH, vdot_scal. reflexivity.
Qed.

(* homogeneous part of total degree j of the IMEX stability function *)
Definition Cdeg (n : nat) (AI AE : mat) (bI bE : vec) (zI zE : Q) (j : nat) : Q :=
  bigsum (S j) (fun a => zpow zI a * zpow zE (j - a) * imex_coef n AI AE bI bE a (j - a)).

Lemma Cdeg_S n AI AE bI bE zI zE j :
  zI * vdot n bI (Hdeg n AI AE zI zE j) + zE * vdot n bE (Hdeg n AI AE zI zE j)
  == Cdeg n AI AE bI bE zI zE (S j).
Proof.
  unfold Hdeg. rewrite !vdot_bigsum. unfold Cdeg.
  rewrite (bigsum_split_shift j _
             (fun a => zI * (zpow zI a * zpow zE (j - a) * vdot n bI (Vtab n AI AE a (j - a))))
             (fun a => zE * (zpow zI a * zpow zE (j - a) * vdot n bE (Vtab n AI AE a (j - a))))).
  - rewrite !bigsum_scal. reflexivity.
  - rewrite !Nat.sub_0_r. cbn [imex_coef zpow]. ring.
  - intros a Ha. replace (S j - S a)%nat with (S (j - S a)) by lia.
    replace (j - a)%nat with (S (j - S a)) by lia. cbn [imex_coef zpow]. ring.
  - replace (S j - S j)%nat with 0%nat by lia. replace (j - j)%nat with 0%nat by lia. cbn [imex_coef zpow]. ring.
Qed.

(* the IMEX stability function  R = 1 + zI bI.Y + zE bE.Y  is the sum of its homogeneous parts, whose
   coefficients are exactly [imex_coef] (what check_order_imex compares with 1/(a! b!)) *)
Theorem imex_stability_expansion n AI AE bI bE zI zE Y :
  (forall i, Y i == 1 + (zI * mv n AI Y i + zE * mv n AE Y i)) ->
  forall N,
  1 + (zI * vdot n bI Y + zE * vdot n bE Y)
  == bigsum (S N) (fun j => Cdeg n AI AE bI bE zI zE j)
     + (zI * vdot n bI (mpow n (madd (mscal zI AI) (mscal zE AE)) N Y)
        + zE * vdot n bE (mpow n (madd (mscal zI AI) (mscal zE AE)) N Y)).
Proof.
  intros HY N.
  assert (E : forall b, vdot n b Y == bigsum N (fun j => vdot n b (Hdeg n AI AE zI zE j))
                                     + vdot n b (mpow n (madd (mscal zI AI) (mscal zE AE)) N Y)).
  { intro b. rewrite (vdot_ext n b Y _ (veq_veqn n _ _ (imex_stage_expansion n AI AE zI zE Y HY N))).
    rewrite vdot_add. apply Qplus_comp; [|reflexivity].
    rewrite <- (bigsum_ext N (fun m => 1 * vdot n b (Hdeg n AI AE zI zE m))) by (intros; ring).
    rewrite <- vdot_bigsum. apply vdot_ext, veq_veqn. intro i. apply bigsum_ext. intros; ring. }
  rewrite (E bI), (E bE). rewrite bigsum_shift.
  rewrite <- (bigsum_ext N _ _ (fun j _ => Cdeg_S n AI AE bI bE zI zE j)).
  rewrite bigsum_add, !bigsum_scal.
  assert (C0 : Cdeg n AI AE bI bE zI zE 0 == 1) by (unfold Cdeg; cbn [bigsum zpow Nat.sub imex_coef]; ring).
  rewrite C0. ring.
Qed.
