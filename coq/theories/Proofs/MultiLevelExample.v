(* Non-vacuity of C10_multilevel_cycle_fixed_point: a concrete three-level hierarchy over Qc (2, 2 and 1 nodes,
   pure quadrature problem u' = t, identity space transfer, injection-type Rcoll) satisfies hier_ok, and the
   collocation solution of its fine level satisfies holds_solution; the theorem then applies to it. *)
From Coq Require Import List Arith Bool Lia Ring QArith Qcanon.
From PySDC Require Import Model.Sweep Model.Transfer Model.MultiLevel Proofs.SweepProofs Proofs.TransferProofs Proofs.MultiLevelProofs.
Import ListNotations.
Local Open Scope Qc_scope.

Definition exK0 : Qc := Q2Qc 0.
Definition exK1 : Qc := Q2Qc 1.
Definition ex_eqb (a b : Qc) : bool := Qeq_bool a b.
Lemma ex_eqb_true a b : ex_eqb a b = true -> a = b.
Proof. intros H. apply Qc_is_canon. apply Qeq_bool_eq. exact H. Qed.

Definition ex_feval (t : Qc) (_ : unit -> Qc) (_ : nat) : unit -> Qc := fun _ => t.
Definition ex_solve (_ : nat) (rhs : unit -> Qc) (a : Qc) (_ : unit -> Qc) (t : Qc) : unit -> Qc := fun x => rhs x + a * t.
Definition ex_QI (m j : nat) : Qc := if Nat.leb j m then exK1 else exK0.
Definition ex_Q (m j : nat) : Qc := Q2Qc (1 # 2).
Definition ex_nodes (m : nat) : Qc := Q2Qc (Z.of_nat m # 2).
Definition ex_level (M pre post : nat) : @level Qc unit :=
  {| lM := M; ldt := exK1; lnodes := ex_nodes; lQ := ex_Q; lQI := ex_QI; lQE := fun _ _ => exK0; lfeval := ex_feval; lsolve := ex_solve;
     lpre := pre; lpost := post |}.
Definition ex_xfer (fin : bool) : @xfer Qc unit :=
  {| xRs := fun v => v; xPs := fun v => v; xRcoll := fun n m => if Nat.eqb m n then exK1 else exK0;
     xPcoll := fun n m => if Nat.eqb m 1 then exK1 else exK0; xfinter := fin |}.

Definition ex_fine := ex_level 2 0 2.
Definition ex_rest := [(ex_xfer false, ex_level 2 1 1); (ex_xfer true, ex_level 1 1 0)].

Notation LOK := (level_ok exK0 Qcmult Qcminus ex_eqb false).

Lemma ex_level_ok (M pre post : nat) : LOK (ex_level M pre post).
Proof.
  unfold level_ok, ex_level; cbn [lsolve lfeval lQI lM ldt]. split; [|split; [|split]].
  - intros w rhs a ug t H x. unfold ex_solve. rewrite <- (H x). unfold ex_feval. ring.
  - intros t u v _ p x. reflexivity.
  - intros m j Hmj. unfold ex_QI. replace (Nat.leb j m) with false by (symmetry; apply Nat.leb_gt; lia). reflexivity.
  - intros m Hm. left. unfold ex_QI. rewrite Nat.leb_refl. intros H. discriminate H.
Qed.

Lemma ex_xfer_ok fin (Mf Mc pf qf pc qc_ : nat) : (Mc <= Mf)%nat -> 
  xfer_ok exK0 exK1 Qcplus Qcminus (ex_xfer fin) (ex_level Mf pf qf) (ex_level Mc pc qc_).
Proof.
  intros Hle. unfold xfer_ok, ex_xfer; cbn [xRs xPs xRcoll lM ex_level]. split; [|split; [|split; [|split; [|split; [|split]]]]]; try (intros; reflexivity).
  - intros a b H x. apply H.
  - intros a b H x. apply H.
  - intros n Hn.
    (* sum_{m=1..Mf} [m = n] = 1 for 1 <= n <= Mc <= Mf *)
    assert (G : forall k, sumf exK0 Qcplus (fun m => if Nat.eqb m n then exK1 else exK0) 1 k = if Nat.leb n k then exK1 else exK0).
    { induction k as [|k IH].
      - replace (Nat.leb n 0) with false by (symmetry; apply Nat.leb_gt; lia). reflexivity.
      - rewrite (sumf_snoc exK0 exK1 Qcplus Qcmult Qcminus Qcopp Qcrt). rewrite IH. cbn [Nat.add].
        destruct (Nat.eqb_spec (S k) n) as [E|E].
        + replace (Nat.leb n k) with false by (symmetry; apply Nat.leb_gt; lia).
          replace (Nat.leb n (S k)) with true by (symmetry; apply Nat.leb_le; lia). unfold exK0, exK1. ring.
        + destruct (Nat.leb_spec n k) as [L1|L1].
          * replace (Nat.leb n (S k)) with true by (symmetry; apply Nat.leb_le; lia). unfold exK0, exK1. ring.
          * replace (Nat.leb n (S k)) with false by (symmetry; apply Nat.leb_gt; lia). unfold exK0, exK1. ring. }
    rewrite G. replace (Nat.leb n Mf) with true by (symmetry; apply Nat.leb_le; lia). reflexivity.
Qed.

Example ex_hier_ok : hier_ok exK0 exK1 Qcplus Qcmult Qcminus ex_eqb false ex_fine ex_rest.
Proof.
  unfold ex_fine, ex_rest. cbn [hier_ok].
  split; [apply ex_level_ok|]. split; [apply ex_xfer_ok; lia|]. split; [apply ex_level_ok|].
  split; [apply ex_xfer_ok; lia|]. split; [apply ex_level_ok|exact I].
Qed.

(* the fine collocation solution  u_m = u0 + dt * sum_j Q_mj t_j  of u' = t *)
Definition ex_u0 : Qc := Q2Qc 3.
Definition ex_state : @lstate Qc unit :=
  (fun m _ => if Nat.eqb m 0 then ex_u0
              else ex_u0 + exK1 * sumf exK0 Qcplus (fun j => ex_Q m j * tnode Qcplus Qcmult exK1 exK0 ex_nodes j) 1 2,
   fun m _ _ => tnode Qcplus Qcmult exK1 exK0 ex_nodes m).

Example ex_holds : holds_solution exK0 Qcplus Qcmult Qcminus exK0 false ex_fine (fun _ => None) ex_state.
Proof.
  unfold holds_solution, ex_fine, ex_state; cbn [fst snd lM ldt lnodes lfeval lQ ex_level]. split; [|split].
  - intros m Hm p x. reflexivity.
  - intros m Hm x. cbn [fst snd lM ldt lQ ex_level nparts].
    apply (proj2 (residual_zero_iff_collocation exK0 exK1 Qcplus Qcmult Qcminus Qcopp Qcrt 2 exK1 ex_Q _ _ (fun _ => None) m x)).
    replace (Nat.eqb m 0) with false by (symmetry; apply Nat.eqb_neq; lia). cbn [Nat.eqb]. unfold tauval. unfold exK0, exK1. ring.
  - intros m Hm. split; intros; reflexivity.
Qed.

(* the theorem applies: the (nontrivial: 2 + 1 + 1 + 1 + 2 sweeps, two restrictions, two prolongations) cycle
   returns the same fine state *)
Example ex_cycle_fixed :
  same ex_fine (vcycle exK0 Qcplus Qcmult Qcminus ex_eqb exK0 false ex_fine ex_rest (fun _ => None) ex_state) ex_state.
Proof.
  exact (vcycle_fixed_point exK0 exK1 Qcplus Qcmult Qcminus Qcopp ex_eqb Qcrt ex_eqb_true exK0 false ex_rest ex_fine (fun _ => None) ex_state
           ex_hier_ok ex_holds).
Qed.
