(* C02 (extension) — proofs about Model/SweepMultistep.v (MultiStep sweeper and its Cache).
   K: any commutative ring; eval_f and solve_system arbitrary functions subject to the solver contract. *)
From Coq Require Import List Arith Bool Lia Ring.
From PySDC Require Import Model.Sweep Model.SweepMultistep Proofs.SweepProofs.
Import ListNotations.

Section MultistepProofs.
  Context {K : Type} (kO kI : K) (kadd kmul ksub : K -> K -> K) (kopp : K -> K) (khalf : K -> K).
  Hypothesis Rth : ring_theory kO kI kadd kmul ksub kopp (@eq K).
  Add Ring KringMS : Rth.
  Context {X : Type}.
  Notation V := (X -> K).
  Local Infix "+!" := kadd (at level 50, left associativity).
  Local Infix "*!" := kmul (at level 40, left associativity).
  Local Infix "-!" := ksub (at level 50, left associativity).
  Variable feval : V -> K -> V.
  Variable solve : V -> K -> V -> K -> V.
  Notation sumf := (sumf kO kadd).
  Notation entry := (@ms_entry K X).
  Notation dummy := (@ms_dummy K kO X).

  (* contract of prob.solve_system:  u - factor * f(u, t) = rhs  (pointwise) *)
  Definition ms_solver_contract : Prop :=
    forall rhs a g t x, solve rhs a g t x -! a *! feval (solve rhs a g t) t x = rhs x.

  Section General.
    Variable alpha beta : list K.
    Variable starter : ms_starter.
    Notation dts := (ms_dts kO ksub alpha).
    Notation rhs_of := (ms_rhs kO kadd kmul ksub alpha beta).
    Notation update := (ms_update kO kadd kmul ksub khalf feval solve alpha beta starter).
    Notation al i := (nth i alpha kO).
    Notation be i := (nth i beta kO).

    Lemma ms_rhs_spec (es : list entry) time x :
      rhs_of es time x =
      sumf (fun i => dts es time i *! be i *! e_f (nth i es dummy) x -! al i *! e_u (nth i es dummy) x) 0 (length alpha).
    Proof.
      unfold ms_rhs.
      assert (G : forall n lo (acc : V),
        fold_left (fun rhs i => vadd kadd (vsub ksub rhs (vscale kmul (al i) (e_u (nth i es dummy))))
                                      (vscale kmul (dts es time i *! be i) (e_f (nth i es dummy)))) (seq lo n) acc x
        = acc x +! sumf (fun i => dts es time i *! be i *! e_f (nth i es dummy) x -! al i *! e_u (nth i es dummy) x) lo n).
      { induction n as [|n IH]; intros lo acc; cbn [seq fold_left SweepProofs.sumf]; [ring|].
        rewrite IH. unfold vadd, vsub, vscale. ring. }
      rewrite G. unfold vzero. ring.
    Qed.

    (* update_nodes() with a full cache: the linear multistep formula with the cache's own step sizes
         u_new + sum_i alpha_i u_i - dt*beta_last*f(u_new, t+dt) = sum_i dts_i beta_i f_i,
       stored f is f at the new time and value, the cache is shifted by one and holds (t+dt, u_new, f_new) last.
       (The level's u[0] is not used: the guess and the history come from the cache only.) *)
    Theorem ms_update_full_form (c : ms_cache) (es : list entry) t0 dt u0 f0 :
      ms_solver_contract -> all_some c = Some es ->
      exists u1 : V,
        let time := t0 +! dt in
        update c t0 dt u0 f0 = MsOk (cache_update c {| e_t := time; e_u := u1; e_f := feval u1 time |}, u1, feval u1 time) /\
        u1 = solve (rhs_of es time) (dt *! last beta kO) (e_u (last es dummy)) time /\
        forall x,
          u1 x +! sumf (fun i => al i *! e_u (nth i es dummy) x) 0 (length alpha) -! dt *! last beta kO *! feval u1 time x
          = sumf (fun i => dts es time i *! be i *! e_f (nth i es dummy) x) 0 (length alpha).
    Proof.
      intros Hc Hes. eexists. cbv zeta. split; [|split; [reflexivity|]].
      - unfold ms_update. rewrite Hes. reflexivity.
      - intros x. set (time := t0 +! dt).
        pose proof (Hc (rhs_of es time) (dt *! last beta kO) (e_u (last es dummy)) time x) as H.
        rewrite ms_rhs_spec, (sumf_sub kO kI kadd kmul ksub kopp Rth) in H.
        set (u1 := solve (rhs_of es time) (dt *! last beta kO) (e_u (last es dummy)) time) in *.
        set (A := sumf (fun i => al i *! e_u (nth i es dummy) x) 0 (length alpha)) in *.
        set (B := sumf (fun i => dts es time i *! be i *! e_f (nth i es dummy) x) 0 (length alpha)) in *.
        transitivity ((u1 x -! dt *! last beta kO *! feval u1 time x) +! A); [ring|]. rewrite H. ring.
    Qed.

    (* equal step sizes in the cache: the textbook form  u_new + sum alpha_i u_i = dt (sum beta_i f_i + beta_last f_new) *)
    Corollary ms_update_uniform_form (c : ms_cache) (es : list entry) t0 dt u0 f0 :
      ms_solver_contract -> all_some c = Some es ->
      (forall i, i < length alpha -> dts es (t0 +! dt) i = dt) ->
      exists u1 : V,
        update c t0 dt u0 f0 = MsOk (cache_update c {| e_t := t0 +! dt; e_u := u1; e_f := feval u1 (t0 +! dt) |}, u1, feval u1 (t0 +! dt)) /\
        forall x,
          u1 x +! sumf (fun i => al i *! e_u (nth i es dummy) x) 0 (length alpha)
          = dt *! (sumf (fun i => be i *! e_f (nth i es dummy) x) 0 (length alpha) +! last beta kO *! feval u1 (t0 +! dt) x).
    Proof.
      intros Hc Hes Hd. destruct (ms_update_full_form c es t0 dt u0 f0 Hc Hes) as [u1 [E [_ H]]]. cbv zeta in E, H.
      exists u1. split; [exact E|]. intros x. specialize (H x).
      rewrite (sumf_ext kO kadd (fun i => dts es (t0 +! dt) i *! be i *! e_f (nth i es dummy) x)
                 (fun i => dt *! (be i *! e_f (nth i es dummy) x)) 0 (length alpha)) in H
        by (intros i Hi; rewrite Hd by lia; ring).
      rewrite (sumf_scal kO kI kadd kmul ksub kopp Rth) in H.
      set (A := sumf (fun i => al i *! e_u (nth i es dummy) x) 0 (length alpha)) in *.
      set (B := sumf (fun i => be i *! e_f (nth i es dummy) x) 0 (length alpha)) in *.
      transitivity ((u1 x +! A -! dt *! last beta kO *! feval u1 (t0 +! dt) x) +! dt *! last beta kO *! feval u1 (t0 +! dt) x); [ring|].
      rewrite H. ring.
    Qed.

    (* update_nodes() with a cache that is not yet full *)
    Theorem ms_update_start_form (c : ms_cache) t0 dt u0 f0 :
      ms_solver_contract -> all_some c = None ->
      match starter, f0 with
      | NoStarter, _ => update c t0 dt u0 f0 = MsErr NotImplementedError
      | Trapezoid, None => update c t0 dt u0 f0 = MsErr TypeErrorNone
      | Trapezoid, Some f =>
          exists u1 : V,
            let time := t0 +! dt in let h := khalf dt in
            update c t0 dt u0 f0 = MsOk (cache_update c {| e_t := time; e_u := u1; e_f := feval u1 time |}, u1, feval u1 time) /\
            forall x, u1 x -! h *! feval u1 time x = u0 x +! h *! f x
      end.
    Proof.
      intros Hc Hn. unfold ms_update. rewrite Hn. destruct starter; [reflexivity|]. destruct f0 as [f|]; [|reflexivity].
      eexists. cbv zeta. split; [reflexivity|]. intros x. rewrite Hc. reflexivity.
    Qed.
  End General.

  Lemma all_some_none_last {A} (l : list (option A)) (a : option A) : all_some (None :: l ++ [a]) = None.
  Proof. reflexivity. Qed.

  (* ------------------------------------------------------------ one-step methods driven over many time steps
     (AdamsBashforthExplicit1Step, BackwardEuler, AdamsMoultonImplicit1Step: alpha = [a0], beta = [b0, b1]) *)
  Section OneStep.
    Variable a0 b0 b1 : K.
    Variable starter : ms_starter.
    Notation run := (ms_run kO kadd kmul ksub khalf feval solve [a0] [b0; b1] starter).
    Notation step := (ms_time_step kO kadd kmul ksub khalf feval solve [a0] [b0; b1] starter).

    Definition ms_inv1 (c : ms_cache) (t : K) (u : V) : Prop :=
      c = [None] \/ c = [Some {| e_t := t; e_u := u; e_f := feval u t |}].

    Fixpoint ms_traj1 (t : K) (u : V) (tr : list (K * V * V)) (ds : list K) : Prop :=
      match tr, ds with
      | [], [] => True
      | (t1, u1, f1) :: tr', dt :: ds' =>
          t1 = t +! dt /\ f1 = feval u1 t1 /\
          (forall x, u1 x +! a0 *! u x -! dt *! b1 *! f1 x = dt *! b0 *! feval u t x) /\
          ms_traj1 t1 u1 tr' ds'
      | _, _ => False
      end.

    Lemma ms_one_step_step c t dt u :
      ms_solver_contract -> ms_inv1 c t u ->
      exists u1, step c t dt u = MsOk ([Some {| e_t := t +! dt; e_u := u1; e_f := feval u1 (t +! dt) |}], u1, feval u1 (t +! dt)) /\
                 forall x, u1 x +! a0 *! u x -! dt *! b1 *! feval u1 (t +! dt) x = dt *! b0 *! feval u t x.
    Proof.
      intros Hc Hi.
      assert (E : ms_predict feval c t u None = ([Some {| e_t := t; e_u := u; e_f := feval u t |}], if is_none (hd None c) then Some (feval u t) else None)).
      { destruct Hi as [-> | ->]; reflexivity. }
      unfold ms_time_step. rewrite E.
      set (es := [{| e_t := t; e_u := u; e_f := feval u t |}]).
      destruct (ms_update_full_form [a0] [b0; b1] starter [Some {| e_t := t; e_u := u; e_f := feval u t |}] es t dt u
                  (if is_none (hd None c) then Some (feval u t) else None) Hc eq_refl) as [u1 [E1 [_ H]]].
      cbv zeta in E1, H. exists u1. split; [exact E1|]. intros x. specialize (H x).
      cbn in H. transitivity (u1 x +! (a0 *! u x +! kO) -! dt *! b1 *! feval u1 (t +! dt) x); [ring|]. rewrite H. ring.
    Qed.

    (* every step of a run of a one-step method — the first one included — is the one-step formula
         u_{n+1} + a0 u_n - dt_n b1 f(u_{n+1}, t_{n+1}) = dt_n b0 f(u_n, t_n),
       for all step sizes; the run never fails and the cache keeps holding exactly the last point with f at that point *)
    Theorem ms_one_step_run_form : ms_solver_contract -> forall ds c t u,
      ms_inv1 c t u ->
      let '(tr, cf, err) := run c t u ds in
      err = None /\ ms_traj1 t u tr ds /\ exists tl ul, ms_inv1 cf tl ul.
    Proof.
      intros Hc. induction ds as [|dt ds IH]; intros c t u Hi; cbn [ms_run].
      - repeat split. exists t, u. exact Hi.
      - destruct (ms_one_step_step c t dt u Hc Hi) as [u1 [E H]]. rewrite E.
        unfold ms_end_point.
        specialize (IH [Some {| e_t := t +! dt; e_u := u1; e_f := feval u1 (t +! dt) |}] (t +! dt) u1 (or_intror eq_refl)).
        destruct (run [Some {| e_t := t +! dt; e_u := u1; e_f := feval u1 (t +! dt) |}] (t +! dt) u1 ds) as [[tr cf] err].
        destruct IH as [Ie [It Ic]]. split; [exact Ie|]. split; [|exact Ic].
        cbn [ms_traj1]. repeat split; [exact H | exact It].
    Qed.
  End OneStep.

  (* ------------------------------------------------------------ two-step methods with the trapezoidal starter
     (AdamsMoultonImplicit2Step: alpha = [a0, a1], beta = [b0, b1, b2]) driven over many time steps *)
  Section TwoStep.
    Variable a0 a1 b0 b1 b2 : K.
    Notation run := (ms_run kO kadd kmul ksub khalf feval solve [a0; a1] [b0; b1; b2] Trapezoid).
    Notation step := (ms_time_step kO kadd kmul ksub khalf feval solve [a0; a1] [b0; b1; b2] Trapezoid).
    Notation point t u := {| e_t := t; e_u := u; e_f := feval u t |}.

    (* steps n >= 2: prev is the point before (t, u) *)
    Fixpoint ms_traj2 (prev : entry) (t : K) (u : V) (tr : list (K * V * V)) (ds : list K) : Prop :=
      match tr, ds with
      | [], [] => True
      | (t1, u1, f1) :: tr', dt :: ds' =>
          t1 = t +! dt /\ f1 = feval u1 t1 /\
          (forall x, u1 x +! a0 *! e_u prev x +! a1 *! u x -! dt *! b2 *! f1 x
                     = (t -! e_t prev) *! b0 *! e_f prev x +! dt *! b1 *! feval u t x) /\
          ms_traj2 (point t u) t1 u1 tr' ds'
      | _, _ => False
      end.

    Lemma ms_two_step_step (prev : entry) t dt u :
      ms_solver_contract ->
      exists u1, step [Some prev; Some (point t u)] t dt u
                 = MsOk ([Some (point t u); Some (point (t +! dt) u1)], u1, feval u1 (t +! dt)) /\
                 forall x, u1 x +! a0 *! e_u prev x +! a1 *! u x -! dt *! b2 *! feval u1 (t +! dt) x
                           = (t -! e_t prev) *! b0 *! e_f prev x +! dt *! b1 *! feval u t x.
    Proof.
      intros Hc. unfold ms_time_step. cbn [ms_predict forallb is_none andb].
      destruct (ms_update_full_form [a0; a1] [b0; b1; b2] Trapezoid [Some prev; Some (point t u)] [prev; point t u] t dt u None Hc eq_refl)
        as [u1 [E1 [_ H]]].
      cbv zeta in E1, H. exists u1. split; [exact E1|]. intros x. specialize (H x). cbn in H.
      transitivity (u1 x +! (a0 *! e_u prev x +! (a1 *! u x +! kO)) -! dt *! b2 *! feval u1 (t +! dt) x); [ring|]. rewrite H. ring.
    Qed.

    Lemma ms_two_step_rest : ms_solver_contract -> forall ds prev t u,
      let '(tr, cf, err) := run [Some prev; Some (point t u)] t u ds in
      err = None /\ ms_traj2 prev t u tr ds /\ all_some cf <> None.
    Proof.
      intros Hc. induction ds as [|dt ds IH]; intros prev t u; cbn [ms_run].
      - repeat split. discriminate.
      - destruct (ms_two_step_step prev t dt u Hc) as [u1 [E H]]. rewrite E. unfold ms_end_point.
        specialize (IH (point t u) (t +! dt) u1).
        destruct (run [Some (point t u); Some (point (t +! dt) u1)] (t +! dt) u1 ds) as [[tr cf] err].
        destruct IH as [Ie [It Ic]]. split; [exact Ie|]. split; [|exact Ic].
        cbn [ms_traj2]. repeat split; [exact H | exact It].
    Qed.

    (* a run from the empty cache: the first step is the trapezoidal rule (the starter), every later step is the two-step
       formula with the cache's step sizes
         u_{n+1} + a0 u_{n-1} + a1 u_n - dt_n b2 f_{n+1} = (t_n - t_{n-1}) b0 f_{n-1} + dt_n b1 f_n ,
       and the run never fails *)
    Theorem ms_two_step_run_form : ms_solver_contract -> forall dt0 ds t u,
      let '(tr, cf, err) := run [None; None] t u (dt0 :: ds) in
      err = None /\
      match tr with
      | [] => False
      | (t1, u1, f1) :: tr' =>
          t1 = t +! dt0 /\ f1 = feval u1 t1 /\
          (forall x, u1 x -! khalf dt0 *! f1 x = u x +! khalf dt0 *! feval u t x) /\
          ms_traj2 (point t u) t1 u1 tr' ds
      end.
    Proof.
      intros Hc dt0 ds t u. cbn [ms_run]. unfold ms_time_step. cbn [ms_predict forallb is_none andb cache_update app].
      pose proof (ms_update_start_form [a0; a1] [b0; b1; b2] Trapezoid [None; Some (point t u)] t dt0 u (Some (feval u t)) Hc eq_refl) as S.
      cbv beta iota zeta in S. destruct S as [u1 [E H]]. rewrite E. cbn [cache_update app]. unfold ms_end_point.
      pose proof (ms_two_step_rest Hc ds (point t u) (t +! dt0) u1) as R.
      destruct (run [Some (point t u); Some (point (t +! dt0) u1)] (t +! dt0) u1 ds) as [[tr cf] err].
      destruct R as [Re [Rt _]]. split; [exact Re|]. repeat split; [exact H | exact Rt].
    Qed.
  End TwoStep.
End MultistepProofs.

(* non-vacuity: the solver contract is satisfiable for every factor on a right-hand side that depends on the solution
   (Z, two components, f(u,t) = (u_2 + t, 0), solved by forward substitution) *)
From Coq Require Import ZArith.
Example ms_solver_contract_sat :
  @ms_solver_contract Z Z.mul Z.sub bool
     (fun u t x => if x then (u false + t)%Z else 0%Z)
     (fun rhs a _ t x => if x then (rhs true + a * (rhs false + t))%Z else rhs false).
Proof. intros rhs a g t x. destruct x; ring. Qed.
