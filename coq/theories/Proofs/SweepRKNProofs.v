(* C02 (extension) — proofs about Model/SweepRKN.v (RungeKuttaNystrom.update_nodes / compute_end_point).
   K is an arbitrary commutative ring; the problem's eval_f, build_f and boris_solver are arbitrary functions. *)
From Coq Require Import List Arith Bool Lia Ring.
From PySDC Require Import Model.Sweep Model.SweepRKN Proofs.SweepProofs.
Import ListNotations.

Section RKNProofs.
  Context {K : Type} (kO kI : K) (kadd kmul ksub : K -> K -> K) (kopp : K -> K).
  Hypothesis Rth : ring_theory kO kI kadd kmul ksub kopp (@eq K).
  Add Ring KringRKN : Rth.
  Context {X : Type} {Fd : Type} {A : Type}.
  Notation V := (X -> K).
  Local Infix "+!" := kadd (at level 50, left associativity).
  Local Infix "*!" := kmul (at level 40, left associativity).
  Local Infix "-!" := ksub (at level 50, left associativity).
  Variable M : nat.
  Variable dt t0 : K.
  Variable nodes : nat -> K.
  Variable QI Qx : nat -> nat -> K.
  Variable feval : A -> V -> V -> K -> Fd.
  Variable build_f : Fd -> A -> V -> V -> K -> V.
  Variable boris : V -> K -> Fd -> Fd -> A -> V -> V -> V.
  Notation tn := (rkn_tn kadd kmul dt t0 nodes).
  Notation sumf := (sumf kO kadd).
  Notation st_t := (@rkn_st K X Fd A).
  Notation inner b := (rkn_inner_step kO kadd kmul dt t0 nodes QI Qx b feval build_f boris).
  Notation stage b := (rkn_stage kO kadd kmul M dt t0 nodes QI Qx b feval build_f boris).
  Notation update b := (rkn_update kO kadd kmul M dt t0 nodes QI Qx b feval build_f boris).

  (* the acceleration the code builds for stage j from the level's data:  P.build_f(L.f[j], L.u[j], t0 + dt*nodes[j]) *)
  Definition rkn_acc (r : st_t) (j : nat) : V := build_f (rf r j) (ra r j) (rp r j) (rv r j) (tn j).

  (* ------------------------------------------------------------ explicit branch (coll.implicit = False) *)
  Lemma rkn_inner_explicit m (at_ : nat -> A) (p v : nat -> V) : forall n lo (a b : V) (f : nat -> Fd),
    fold_left (inner false m at_ p v) (seq lo n) (a, b, f) =
    (accum kadd a lo n (fun j => vscale kmul (dt *! dt *! Qx (S m) j) (build_f (f j) (at_ j) (p j) (v j) (tn j))),
     accum kadd b lo n (fun j => vscale kmul (dt *! QI (S m) j) (build_f (f j) (at_ j) (p j) (v j) (tn j))), f).
  Proof.
    induction n as [|n IH]; intros lo a b f; [reflexivity|].
    cbn [seq fold_left]. unfold accum. cbn [seq fold_left]. unfold rkn_inner_step at 2. rewrite IH. reflexivity.
  Qed.

  Definition rkn_xpos (r : st_t) (p0 v0 : V) (m : nat) : V :=
    accum kadd (vadd kadd p0 (vscale kmul (dt *! nodes (S m)) v0)) 1 m (fun j => vscale kmul (dt *! dt *! Qx (S m) j) (rkn_acc r j)).
  Definition rkn_xvel (r : st_t) (v0 : V) (m : nat) : V :=
    accum kadd v0 1 m (fun j => vscale kmul (dt *! QI (S m) j) (rkn_acc r j)).

  Lemma rkn_stage_explicit (st : st_t) m :
    stage false st m =
    {| ra := upd (ra st) (S m) (ra st 0);
       rp := upd (rp st) (S m) (rkn_xpos st (rp st 0) (rv st 0) m);
       rv := upd (rv st) (S m) (rkn_xvel st (rv st 0) m);
       rf := if Nat.eqb m (M - 1) then rf st
             else upd (rf st) (S m) (feval (ra st 0) (rkn_xpos st (rp st 0) (rv st 0) m) (rkn_xvel st (rv st 0) m) (tn (S m))) |}.
  Proof. unfold rkn_stage. rewrite rkn_inner_explicit. rewrite upd_same. reflexivity. Qed.

  Lemma rkn_acc_ext (r s : st_t) j :
    ra r j = ra s j -> rp r j = rp s j -> rv r j = rv s j -> rf r j = rf s j -> rkn_acc r j = rkn_acc s j.
  Proof. unfold rkn_acc. intros -> -> -> ->. reflexivity. Qed.

  (* law-free characterisation of the stage loop (holds for floats as well) *)
  Lemma rkn_loop_spec_explicit : forall n k (st : st_t),
    k + n <= M ->
    let r := fold_left (stage false) (seq k n) st in
    (forall j, j <= k \/ k + n < j -> ra r j = ra st j /\ rp r j = rp st j /\ rv r j = rv st j /\ rf r j = rf st j) /\
    (forall m, k <= m < k + n ->
       ra r (S m) = ra st 0 /\
       rp r (S m) = rkn_xpos r (rp st 0) (rv st 0) m /\
       rv r (S m) = rkn_xvel r (rv st 0) m /\
       (S m < M -> rf r (S m) = feval (ra r (S m)) (rp r (S m)) (rv r (S m)) (tn (S m))) /\
       (S m = M -> rf r (S m) = rf st (S m))).
  Proof.
    induction n as [|n IH]; intros k st Hk; cbn [seq fold_left].
    - split; [intros; repeat split; reflexivity | intros m Hm; lia].
    - set (st1 := stage false st k).
      specialize (IH (S k) st1 ltac:(lia)). cbv zeta in IH. destruct IH as [IHf IHn].
      set (r := fold_left (stage false) (seq (S k) n) st1) in *.
      assert (E1 : st1 = _) by (apply rkn_stage_explicit).
      assert (Ha1 : forall j, j <> S k -> ra st1 j = ra st j) by (intros j Hj; rewrite E1; cbn [ra]; apply upd_other; exact Hj).
      assert (Hp1 : forall j, j <> S k -> rp st1 j = rp st j) by (intros j Hj; rewrite E1; cbn [rp]; apply upd_other; exact Hj).
      assert (Hv1 : forall j, j <> S k -> rv st1 j = rv st j) by (intros j Hj; rewrite E1; cbn [rv]; apply upd_other; exact Hj).
      assert (Hf1 : forall j, j <> S k -> rf st1 j = rf st j).
      { intros j Hj. rewrite E1; cbn [rf]. destruct (Nat.eqb k (M - 1)); [reflexivity|]. apply upd_other; exact Hj. }
      assert (Hacc : forall j, 1 <= j < 1 + k -> rkn_acc st j = rkn_acc r j).
      { intros j Hj. symmetry. destruct (IHf j ltac:(lia)) as [E0 [Ea [Eb Ec]]].
        apply rkn_acc_ext; [rewrite E0; apply Ha1 | rewrite Ea; apply Hp1 | rewrite Eb; apply Hv1 | rewrite Ec; apply Hf1]; lia. }
      split.
      + intros j Hj. destruct (IHf j ltac:(lia)) as [E0 [Ea [Eb Ec]]].
        rewrite E0, Ea, Eb, Ec, Ha1, Hp1, Hv1, Hf1 by lia. repeat split; reflexivity.
      + intros m Hm. destruct (Nat.eq_dec m k) as [->|Hne].
        * destruct (IHf (S k) ltac:(lia)) as [E0 [Ea [Eb Ec]]].
          assert (Xa : ra r (S k) = ra st 0) by (rewrite E0, E1; cbn [ra]; apply upd_same).
          assert (Xp : rp r (S k) = rkn_xpos r (rp st 0) (rv st 0) k).
          { rewrite Ea, E1. cbn [rp]. rewrite upd_same. unfold rkn_xpos. apply (accum_ext kadd).
            intros j Hj. rewrite (Hacc j Hj). reflexivity. }
          assert (Xv : rv r (S k) = rkn_xvel r (rv st 0) k).
          { rewrite Eb, E1. cbn [rv]. rewrite upd_same. unfold rkn_xvel. apply (accum_ext kadd).
            intros j Hj. rewrite (Hacc j Hj). reflexivity. }
          split; [exact Xa|]. split; [exact Xp|]. split; [exact Xv|]. split.
          -- intros HM. rewrite Xa, Ec, Ea, Eb. rewrite E1 at 1. cbn [rf].
             destruct (Nat.eqb_spec k (M - 1)) as [Ek|_]; [lia|]. rewrite upd_same.
             rewrite E1. cbn [rp rv]. rewrite !upd_same. reflexivity.
          -- intros HM. rewrite Ec, E1. cbn [rf].
             destruct (Nat.eqb_spec k (M - 1)) as [_|Ek]; [reflexivity|lia].
        * destruct (IHn m ltac:(lia)) as [E0 [Ea [Eb [Ec Ed]]]].
          rewrite (Ha1 0) in E0 by lia.
          rewrite (Hp1 0), (Hv1 0) in Ea by lia. rewrite (Hv1 0) in Eb by lia.
          split; [exact E0|]. split; [exact Ea|]. split; [exact Eb|]. split; [exact Ec|].
          intros HM. rewrite (Ed HM). apply Hf1. lia.
  Qed.

  (* RungeKuttaNystrom.update_nodes, explicit tableaus (shipped: RKN): Nystrom stage form.
     For EVERY number of stages, tableaus QI (velocity), Qx (position), nodes, dt, level data and problem:
       x_m = x_0 + dt c_m v_0 + dt^2 sum_{j<m} Qx[m,j] a_j,     v_m = v_0 + dt sum_{j<m} QI[m,j] a_j,
       a_j = build_f(f_j, (attr_j, x_j, v_j), t0 + dt c_j)  built from the NEW stage values,
     every stage carries the particle attributes (charges, masses) of u0 — whatever object sat in the node before —
     the stored fields of stage m < M are eval_f at the new stage particle and at the stage's OWN time t0 + dt*c_m,
     the last node's fields, node 0 and everything beyond M are untouched. *)
  Theorem rkn_explicit_stage_form (st : st_t) :
    let r := update false st in
    (forall j, j = 0 \/ M < j -> ra r j = ra st j /\ rp r j = rp st j /\ rv r j = rv st j /\ rf r j = rf st j) /\
    rf r M = rf st M /\
    forall m, 1 <= m <= M ->
      ra r m = ra st 0 /\
      (m < M -> rf r m = feval (ra r m) (rp r m) (rv r m) (tn m)) /\
      forall x,
        rp r m x = rp st 0 x +! dt *! nodes m *! rv st 0 x +! dt *! dt *! sumf (fun j => Qx m j *! rkn_acc r j x) 1 (m - 1) /\
        rv r m x = rv st 0 x +! dt *! sumf (fun j => QI m j *! rkn_acc r j x) 1 (m - 1).
  Proof.
    intros r. unfold rkn_update in r.
    pose proof (rkn_loop_spec_explicit M 0 st (le_n M)) as S. cbv zeta in S. fold r in S. destruct S as [Sf Sn].
    split; [intros j Hj; apply Sf; lia|]. split.
    - destruct M as [|M']; [apply Sf; lia|]. destruct (Sn M' ltac:(lia)) as [_ [_ [_ [_ E]]]]. apply E. reflexivity.
    - intros m Hm. destruct (Sn (m - 1) ltac:(lia)) as [E0 [Ep [Ev [Ef _]]]].
      replace (S (m - 1)) with m in * by lia. split; [exact E0|]. split; [intros HM; apply Ef; exact HM|].
      intros x. split.
      + rewrite Ep. unfold rkn_xpos. rewrite (accum_spec kO kI kadd kmul ksub kopp Rth). unfold vadd, vscale.
        replace (S (m - 1)) with m by lia.
        rewrite (sumf_ext kO kadd (fun j => dt *! dt *! Qx m j *! rkn_acc r j x) (fun j => (dt *! dt) *! (Qx m j *! rkn_acc r j x)) 1 (m - 1)) by (intros; ring).
        rewrite (sumf_scal kO kI kadd kmul ksub kopp Rth). ring.
      + rewrite Ev. unfold rkn_xvel. rewrite (accum_spec kO kI kadd kmul ksub kopp Rth). unfold vscale.
        replace (S (m - 1)) with m by lia.
        rewrite (sumf_ext kO kadd (fun j => dt *! QI m j *! rkn_acc r j x) (fun j => dt *! (QI m j *! rkn_acc r j x)) 1 (m - 1)) by (intros; ring).
        rewrite (sumf_scal kO kI kadd kmul ksub kopp Rth). reflexivity.
  Qed.

  (* compute_end_point(): the last node; with the weights in the last row of the tableaus (what
     ButcherTableauNoCollUpdate builds for tableaus that are not globally stiffly accurate; validated on the real
     tables every run) it carries u0's particle attributes and is the Nystrom update  x0 + dt v0 + dt^2 sum bbar_j a_j,  v0 + dt sum b_j a_j *)
  Theorem rkn_end_point_form (st : st_t) (w wbar : nat -> K) :
    1 <= M -> nodes M = kI ->
    (forall j, 1 <= j <= M - 1 -> QI M j = w j /\ Qx M j = wbar j) ->
    let r := update false st in
    let e := rkn_end_point M r in
    e = (rp r M, rv r M) /\ rkn_end_attr M r = ra st 0 /\
    forall x,
      fst e x = rp st 0 x +! dt *! rv st 0 x +! dt *! dt *! sumf (fun j => wbar j *! rkn_acc r j x) 1 (M - 1) /\
      snd e x = rv st 0 x +! dt *! sumf (fun j => w j *! rkn_acc r j x) 1 (M - 1).
  Proof.
    intros HM Hn Hw r e. split; [reflexivity|].
    destruct (rkn_explicit_stage_form st) as [_ [_ H]]. fold r in H. destruct (H M ltac:(lia)) as [Hat [_ Hx]].
    split; [exact Hat|]. intros x.
    destruct (Hx x) as [Hp Hv]. unfold e, rkn_end_point. cbn [fst snd]. rewrite Hp, Hv, Hn. split.
    - rewrite (sumf_ext kO kadd (fun j => Qx M j *! rkn_acc r j x) (fun j => wbar j *! rkn_acc r j x) 1 (M - 1))
        by (intros j Hj; destruct (Hw j ltac:(lia)) as [_ ->]; reflexivity). ring.
    - rewrite (sumf_ext kO kadd (fun j => QI M j *! rkn_acc r j x) (fun j => w j *! rkn_acc r j x) 1 (M - 1))
        by (intros j Hj; destruct (Hw j ltac:(lia)) as [-> _]; reflexivity). reflexivity.
  Qed.
End RKNProofs.

(* ------------------------------------------------------------ implicit branch (coll.implicit = True; shipped: Velocity_Verlet) *)
Section RKNImplicit.
  Context {K : Type} (kO kI : K) (kadd kmul ksub : K -> K -> K) (kopp : K -> K).
  Hypothesis Rth : ring_theory kO kI kadd kmul ksub kopp (@eq K).
  Add Ring KringRKNI : Rth.
  Context {X : Type} {Fd : Type} {A : Type}.
  Notation V := (X -> K).
  Local Infix "+!" := kadd (at level 50, left associativity).
  Local Infix "*!" := kmul (at level 40, left associativity).
  Variable dt t0 : K.
  Variable nodes : nat -> K.
  Variable QI Qx : nat -> nat -> K.
  Variable feval : A -> V -> V -> K -> Fd.
  Variable build_f : Fd -> A -> V -> V -> K -> V.
  Variable boris : V -> K -> Fd -> Fd -> A -> V -> V -> V.
  Notation tn := (rkn_tn kadd kmul dt t0 nodes).
  Notation st_t := (@rkn_st K X Fd A).
  Notation update3 := (rkn_update kO kadd kmul 3 dt t0 nodes QI Qx true feval build_f boris).
  Notation "a +v b" := (vadd kadd a b) (at level 50, left associativity).
  Notation "c *v a" := (vscale kmul c a) (at level 40).

  (* RungeKuttaNystrom.update_nodes in its implicit branch with three nodes (two stages + solution stage: the shape of
     the only shipped implicit tableau, Velocity_Verlet), for ALL tables Qx, nodes, dt, level data and problem functions:
     the exact values every node holds afterwards (law-free: holds for floats as well).  The velocity tableau QI is
     not used at all; the Boris solve of the last node is done twice (j = 1, 2), the second one starting from the
     result of the first; the fields of u0 at t0 end up in every node. *)
  Theorem rkn_implicit_three_node_form (st : st_t) :
    let a0 := ra st 0 in
    let x0 := rp st 0 in
    let v0 := rv st 0 in
    let F0 := feval a0 x0 v0 t0 in
    let tend := t0 +! dt in
    let times0 := fun (v : V) => (fun x => v x *! kO) : V in
    let x1 : V := x0 +v (dt *! nodes 1) *v v0 in
    let a1 := build_f F0 a0 x1 v0 (tn 1) in
    let x2 : V := x0 +v (dt *! nodes 2) *v v0 +v (dt *! dt *! Qx 2 1) *v a1 in
    let v2 := boris (times0 v0) dt F0 (feval a0 x2 v0 tend) a0 x0 v0 in
    let a2 := build_f F0 a0 x2 v2 (tn 2) in
    let x3a : V := x0 +v (dt *! nodes 3) *v v0 +v (dt *! dt *! Qx 3 1) *v a1 in
    let v3a := boris (times0 v0) dt F0 (feval a0 x3a v0 tend) a0 x0 v0 in
    let x3 : V := x3a +v (dt *! dt *! Qx 3 2) *v a2 in
    let v3 := boris (times0 v3a) dt F0 (feval a0 x3 v3a tend) a0 x0 v0 in
    let r := update3 st in
    (rp r 0 = x0 /\ rv r 0 = v0) /\ (rp r 1 = x1 /\ rv r 1 = v0) /\ (rp r 2 = x2 /\ rv r 2 = v2) /\ (rp r 3 = x3 /\ rv r 3 = v3) /\
    (rf r 0 = F0 /\ rf r 1 = F0 /\ rf r 2 = F0 /\ rf r 3 = F0) /\
    (ra r 0 = a0 /\ ra r 1 = a0 /\ ra r 2 = a0 /\ ra r 3 = a0) /\
    (forall j, 3 < j -> ra r j = ra st j /\ rp r j = rp st j /\ rv r j = rv st j /\ rf r j = rf st j) /\
    rkn_end_point 3 r = (x3, v3) /\ rkn_end_attr 3 r = a0.
  Proof.
    cbv zeta. repeat split; try reflexivity;
      (destruct j as [|[|[|[|j]]]]; [lia|lia|lia|lia|reflexivity]).
  Qed.

  (* Velocity-Verlet form: with the table shape of Velocity_Verlet (all nodes 1, Qx[3,2] = 0; validated on the
     real tables every run), fields that do not depend on the velocity and a Boris solver that respects pointwise
     equality of its c-term (rkn_velocity_verlet_hyps_sat: satisfiable):
        x_new = x0 + dt v0 + dt^2 Qx[3,1] a(F(x0), (x0 + dt v0, v0)),
        v_new = boris(0, dt, F(x0), F(x_new), u0)          (Qx[3,1] = 1/2 for the shipped tableau),
     everything evaluated with the particle attributes of u0, which the end value carries. *)
  Corollary rkn_velocity_verlet_form (st : st_t) :
    nodes 1 = kI -> nodes 3 = kI -> Qx 3 2 = kO ->
    (forall a p v v' t, feval a p v t = feval a p v' t) ->
    (forall c c' d fo fn a p v, (forall x, c x = c' x) -> forall x, boris c d fo fn a p v x = boris c' d fo fn a p v x) ->
    let r := update3 st in
    let e := rkn_end_point 3 r in
    let a0 := ra st 0 in
    let F0 := feval a0 (rp st 0) (rv st 0) t0 in
    let a := build_f F0 a0 (rp r 1) (rv r 1) (t0 +! dt *! nodes 1) in
    (forall x, rp r 1 x = rp st 0 x +! dt *! rv st 0 x) /\ rv r 1 = rv st 0 /\ rkn_end_attr 3 r = a0 /\
    (forall x, fst e x = rp st 0 x +! dt *! rv st 0 x +! dt *! dt *! Qx 3 1 *! a x) /\
    (forall x, snd e x = boris (fun _ => kO) dt F0 (feval a0 (fst e) (rv st 0) (t0 +! dt)) a0 (rp st 0) (rv st 0) x).
  Proof.
    intros Hn1 Hn3 Hq Hfv Hb r e a0 F0 a.
    pose proof (rkn_implicit_three_node_form st) as T. cbv zeta in T.
    destruct T as [_ [[H1p H1v] [_ [_ [_ [_ [_ [He Ha]]]]]]]]. fold r in He, H1p, H1v, Ha. fold e in He.
    unfold a. rewrite He, H1p, H1v. cbn [fst snd].
    split; [intros x; unfold vadd, vscale; rewrite Hn1; ring|]. split; [reflexivity|]. split; [exact Ha|]. split.
    - intros x. unfold vadd, vscale. rewrite Hq, Hn3. unfold rkn_tn, F0, a0. ring.
    - intros x. fold a0. fold F0.
      match goal with |- boris ?c dt F0 (feval a0 ?p ?v ?t) _ _ _ x = _ => rewrite (Hfv a0 p v (rv st 0) t) end.
      apply Hb. intros y. ring.
  Qed.
End RKNImplicit.

(* ------------------------------------------------------------ non-vacuity and the regression fact *)
From Coq Require Import ZArith QArith Qcanon.

(* the hypotheses of rkn_velocity_verlet_form are satisfiable on a non-trivial instance (Z, one component,
   E = q x + t independent of the velocity, Boris solve v0 + c + q dt (E_old + E_new), attribute = charge q) *)
Example rkn_velocity_verlet_hyps_sat :
  let feval := fun (a : Z) (p v : unit -> Z) (t : Z) => (a * p tt + t)%Z in
  let boris := fun (c : unit -> Z) (d fo fn : Z) (a : Z) (p v : unit -> Z) => fun x : unit => (v x + c x + a * d * (fo + fn))%Z in
  (forall a p v v' t, feval a p v t = feval a p v' t) /\
  (forall c c' d fo fn a p v, (forall x, c x = c' x) -> forall x, boris c d fo fn a p v x = boris c' d fo fn a p v x).
Proof. split; [reflexivity|]. intros c c' d fo fn a p v H x. cbv beta. rewrite H. reflexivity. Qed.

(* Regression fact for the defect repaired in /repo commit e4532e8 (the old code evaluated the fields of stage m at the
   node of stage m-1): old and repaired behaviour are DISTINGUISHABLE on the shipped RKN tableau (nodes 0, 0, 1/2, 1/2, 1, 1 in
   pySDC layout) — with fields that depend on time only, stage 2 of the model holds the fields of its own time t0 + dt/2 and
   not those of t0 + dt*nodes[1] = t0 — so a return of the old behaviour cannot go unnoticed by the exact correspondence. *)
Lemma rkn_old_stage_time_observable :
  exists (M : nat) (dt t0 : Qc) (nodes : nat -> Qc) (QI Qx : nat -> nat -> Qc)
         (feval : unit -> (unit -> Qc) -> (unit -> Qc) -> Qc -> Qc) (build_f : Qc -> unit -> (unit -> Qc) -> (unit -> Qc) -> Qc -> unit -> Qc)
         (boris : (unit -> Qc) -> Qc -> Qc -> Qc -> unit -> (unit -> Qc) -> (unit -> Qc) -> unit -> Qc) (st : @rkn_st Qc unit Qc unit) (m : nat),
    let r := rkn_update 0%Qc Qcplus Qcmult M dt t0 nodes QI Qx false feval build_f boris st in
    (1 <= m < M)%nat /\
    rf r m = feval (ra r m) (rp r m) (rv r m) (rkn_tn Qcplus Qcmult dt t0 nodes m) /\
    rf r m <> feval (ra r m) (rp r m) (rv r m) (rkn_tn Qcplus Qcmult dt t0 nodes (m - 1)).
Proof.
  exists 5%nat, (Q2Qc 1), (Q2Qc 0),
    (fun i => nth i [Q2Qc 0; Q2Qc 0; Q2Qc (1#2); Q2Qc (1#2); Q2Qc 1; Q2Qc 1] (Q2Qc 0)),
    (fun _ _ => Q2Qc 0), (fun _ _ => Q2Qc 0),
    (fun _ _ _ t => t), (fun f _ _ _ _ _ => f), (fun _ _ _ _ _ _ v => v),
    {| ra := fun _ => tt; rp := fun _ _ => Q2Qc 0; rv := fun _ _ => Q2Qc 0; rf := fun _ => Q2Qc 0 |}, 2%nat.
  cbv zeta. split; [lia|]. split; [reflexivity|].
  intros H. apply (f_equal this) in H. vm_compute in H. discriminate H.
Qed.
