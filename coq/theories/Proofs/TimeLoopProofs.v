(* C06 — proofs about Model/TimeLoop.v.  No algebraic law on the number type is used before Section Exact. *)
From PySDC Require Import Base.Tactics Model.TimeLoop.
From Coq Require Import Arith.
Import ListNotations.

Set Implicit Arguments.

Lemma upd_length A i (x : A) l : length (upd i x l) = length l.
Proof. revert i; induction l; destruct i; simpl; auto. Qed.

Lemma nth_upd_eq A i (x d : A) l : i < length l -> nth i (upd i x l) d = x.
Proof. revert i; induction l; destruct i; simpl; intros; try lia; auto. apply IHl; lia. Qed.

Lemma nth_upd_neq A i j (x d : A) l : i <> j -> nth j (upd i x l) d = nth j l d.
Proof. revert i j; induction l; destruct i, j; simpl; intros; try lia; auto. Qed.

Arguments upd : simpl never.

Lemma nat_list_eqb_eq a b : nat_list_eqb a b = true -> a = b.
Proof.
  revert b; induction a; destruct b; simpl; try discriminate; auto.
  intros H; apply andb_true_iff in H as (E & H). apply Nat.eqb_eq in E. f_equal; auto.
Qed.

Section Generic.
Variables T V : Type.
Variables (add sub : T -> T -> T) (ltb : T -> T -> bool) (zero : T).
Variable sumT : list T -> T.
Variable dV : V.
Variable paradiag : bool.
Variable oracle : nat -> list nat -> list T -> list T -> V -> blockout T V.

Notation block_step := (block_step add zero dV oracle).
Notation loop := (loop add ltb zero dV paradiag oracle).
Notation run := (run add sub ltb zero sumT dV paradiag oracle).
Notation act_flags := (act_flags ltb paradiag).
Notation chain_times := (chain_times add zero).
Notation psum := (psum sumT).

(* ------------------------------------------------------------------ compress / flags *)

Lemma compress_In flags p : In p (compress flags) -> nth p flags false = true /\ p < length flags.
Proof. unfold compress. intros H. apply filter_In in H as (H1 & H2). apply in_seq in H1. split; auto; lia. Qed.

Lemma act_flags_length thr times : length (act_flags thr times) = length times.
Proof.
  unfold TimeLoop.act_flags. destruct (_ && _ && _); rewrite ?map_length; auto.
Qed.

Lemma act_flags_plain thr times p : paradiag = false ->
  nth p (act_flags thr times) false = true -> ltb (nth p times zero) thr = true.
Proof.
  intros Hp. unfold TimeLoop.act_flags. rewrite Hp. simpl. intros H.
  destruct (Nat.ltb_spec p (length times)).
  - rewrite nth_indep with (d' := ltb zero thr) in H by (rewrite map_length; auto).
    rewrite (map_nth (fun t => ltb t thr)) in H. auto.
  - rewrite nth_overflow in H by (rewrite map_length; auto). discriminate.
Qed.

Lemma act_flags_none thr times : existsb (fun b => b) (act_flags thr times) = false ->
  forall p, p < length times -> ltb (nth p times zero) thr = false.
Proof.
  intros H p Hp. unfold TimeLoop.act_flags in H.
  set (a := map (fun t => ltb t thr) times) in *.
  assert (Ha : existsb (fun b => b) a = false).
  { destruct (existsb (fun b => b) a) eqn:E; auto. exfalso.
    destruct (paradiag && true && negb (forallb (fun b => b) a)).
    - destruct a; [discriminate|]. simpl in H. discriminate.
    - congruence. }
  destruct (ltb (nth p times zero) thr) eqn:L; auto.
  assert (In true a).
  { unfold a. apply in_map_iff. exists (nth p times zero). split; auto. apply nth_In; auto. }
  exfalso. assert (existsb (fun b => b) a = true) by (apply existsb_exists; exists true; auto). congruence.
Qed.

(* ------------------------------------------------------------------ every accepted step passed the `<` test *)

Definition started_ok (thr : T) (a : acc T V) : Prop := ltb (a_start a) thr = true.

Lemma block_step_acc thr st u st' u' :
  paradiag = false ->
  block_step st (compress (act_flags thr (s_time st))) u = (st', u') ->
  Forall (started_ok thr) (s_acc st) -> Forall (started_ok thr) (s_acc st').
Proof.
  intros Hp E HF. unfold TimeLoop.block_step in E.
  destruct (first_true _) eqn:Ft; injection E as <- <-; simpl;
    apply Forall_app; split; auto; apply Forall_forall; intros x Hx;
    apply in_map_iff in Hx as (j & <- & Hj); apply in_seq in Hj; unfold started_ok; simpl;
    eapply act_flags_plain; eauto;
    apply compress_In; apply nth_In; lia.
Qed.

Lemma loop_acc thr : paradiag = false -> forall fuel st u uend st',
  loop fuel thr st u = Finished uend st' ->
  Forall (started_ok thr) (s_acc st) -> Forall (started_ok thr) (s_acc st').
Proof.
  intros Hp. induction fuel; intros st u uend st' E HF; simpl in E; try discriminate.
  destruct (existsb _ _) eqn:Ex.
  - destruct (block_step _ _ _) as (st1, u1) eqn:B. eapply IHfuel; eauto. eapply block_step_acc; eauto.
  - injection E as <- <-; auto.
Qed.

Theorem no_start_beyond fuel t0 tend tol dts u0 uend st :
  paradiag = false ->
  run fuel t0 tend tol dts u0 = Finished uend st ->
  forall a, In a (s_acc st) -> ltb (a_start a) (sub tend tol) = true.
Proof.
  intros Hp E a Ha. unfold TimeLoop.run in E. destruct (existsb _ _); try discriminate.
  pose proof (@loop_acc (sub tend tol) Hp _ _ _ _ _ E) as H. simpl in H.
  specialize (H (Forall_nil _)). rewrite Forall_forall in H. apply H; auto.
Qed.

(* ------------------------------------------------------------------ on exit no slot is before Tend - tol *)

Lemma loop_exit thr : forall fuel st u uend st',
  loop fuel thr st u = Finished uend st' ->
  forall p, p < length (s_time st') -> ltb (nth p (s_time st') zero) thr = false.
Proof.
  induction fuel; intros st u uend st' E; simpl in E; try discriminate.
  destruct (existsb _ _) eqn:Ex.
  - destruct (block_step _ _ _) as (st1, u1) eqn:B. eapply IHfuel; eauto.
  - injection E as <- <-. apply act_flags_none; auto.
Qed.


(* ------------------------------------------------------------------ adjacency predicates on lists *)

Section Adj.
Variable X : Type.
Variable R : X -> X -> Prop.

Fixpoint adj (l : list X) : Prop :=
  match l with
  | x :: ((y :: _) as l') => R x y /\ adj l'
  | _ => True
  end.

Definition lastopt (l : list X) : option X :=
  match l with [] => None | x :: t => Some (last t x) end.

Lemma lastopt_app_cons l x : lastopt (l ++ [x]) = Some x.
Proof.
  destruct l as [|a l]; simpl; auto. f_equal. apply last_last.
Qed.

Lemma lastopt_app l1 l2 : l2 <> [] -> lastopt (l1 ++ l2) = lastopt l2.
Proof.
  intros H. destruct (exists_last H) as (l' & x & ->).
  rewrite app_assoc, !lastopt_app_cons; auto.
Qed.

Lemma last_indep (l : list X) a b : l <> [] -> last l a = last l b.
Proof.
  induction l as [|c l IH]; intros H; [congruence|]. simpl. destruct l; auto. apply IH. discriminate.
Qed.

Lemma adj_app l1 l2 :
  adj l1 -> adj l2 -> (forall x y, lastopt l1 = Some x -> hd_error l2 = Some y -> R x y) -> adj (l1 ++ l2).
Proof.
  induction l1 as [|a l1 IH]; simpl; auto. intros H1 H2 H.
  destruct l1 as [|b l1]; simpl in *.
  - destruct l2; simpl; auto.
  - destruct H1 as (Hab & H1). split; auto. apply IH; auto.
    intros x y Hx Hy. apply H; auto. rewrite <- Hx. f_equal.
    destruct l1; auto. apply last_indep. discriminate.
Qed.

Lemma adj_map_seq (f : nat -> X) k : forall a,
  (forall j, a <= j -> S j < a + k -> R (f j) (f (S j))) -> adj (map f (seq a k)).
Proof.
  induction k; intros a H; simpl; auto.
  destruct k; simpl; auto. split.
  - apply H; lia.
  - apply (IHk (S a)). intros; apply H; lia.
Qed.
End Adj.

Lemma lastopt_map_seq X (f : nat -> X) k : 0 < k -> lastopt (map f (seq 0 k)) = Some (f (k - 1)).
Proof.
  intros Hk. destruct k; try lia. rewrite seq_S, map_app. simpl. rewrite lastopt_app_cons. f_equal. f_equal. lia.
Qed.

(* ------------------------------------------------------------------ chain_times over a prefix *)

Lemma chain_times_prefix dts : forall a times, a <= length times ->
  let tm := chain_times (seq 0 a) dts times in
  length tm = length times /\ nth 0 tm zero = nth 0 times zero /\
  (forall j, S j < a -> nth (S j) tm zero = add (nth j tm zero) (nth j dts zero)) /\
  (forall j, a <= j -> 0 < j -> nth j tm zero = nth j times zero).
Proof.
  induction a; intros times Ha; simpl.
  - unfold TimeLoop.chain_times; simpl. repeat split; auto. intros; lia.
  - destruct a.
    + unfold TimeLoop.chain_times; simpl. repeat split; auto. intros; lia.
    + destruct (IHa times) as (L & H0 & Hc & Hs); try lia.
      unfold TimeLoop.chain_times in *. rewrite seq_S. simpl seq in *. simpl tl in *.
      rewrite fold_left_app. simpl.
      set (tm := fold_left (fun tm a0 => upd a0 (add (nth (a0 - 1) tm zero) (nth (a0 - 1) dts zero)) tm) (seq 1 a) times) in *.
      replace (0 + S a) with (S a) by lia. replace (S a - 1) with a by lia.
      repeat split.
      * rewrite upd_length; auto.
      * rewrite nth_upd_neq by lia. auto.
      * intros j Hj. destruct (Nat.eq_dec j a) as [->|N].
        -- rewrite nth_upd_eq by lia. rewrite nth_upd_neq by lia. rewrite ?Nat.sub_0_r. auto.
        -- rewrite !nth_upd_neq by lia. apply Hc; lia.
      * intros j Hj Hj0. rewrite nth_upd_neq by lia. apply Hs; lia.
Qed.

Lemma scatter_prefix (vals : list V) : forall a arr k, length vals = k -> a + k <= length arr ->
  let r := scatter (seq a k) vals arr in
  length r = length arr /\ (forall j, j < k -> nth (a + j) r dV = nth j vals dV) /\
  (forall j, j < a -> nth j r dV = nth j arr dV).
Proof.
  induction vals as [|v vals IH]; intros a arr k Hk Ha; subst k; simpl.
  - repeat split; auto. intros; lia.
  - destruct (IH (S a) (upd a v arr) (length vals)) as (L & Hn & Hl); auto.
    { rewrite upd_length. simpl in Ha. lia. }
    simpl in Ha. repeat split.
    + rewrite L, upd_length; auto.
    + intros j Hj. destruct j.
      * rewrite Nat.add_0_r. rewrite Hl by lia. apply nth_upd_eq. lia.
      * replace (a + S j) with (S a + j) by lia. rewrite Hn by lia. auto.
    + intros j Hj. rewrite Hl by lia. apply nth_upd_neq. lia.
Qed.

Lemma first_true_Some l i : first_true l = Some i ->
  i < length l /\ nth i l false = true.
Proof.
  revert i; induction l as [|b l IH]; intros i H; simpl in *; try discriminate.
  destruct b.
  - injection H as <-. split; auto; lia.
  - destruct (first_true l); try discriminate. injection H as <-.
    destruct (IH n eq_refl). split; auto; lia.
Qed.

Lemma compress_prefix_rest flags a j :
  compress flags = seq 0 a -> a <= j -> nth j flags false = false.
Proof.
  intros E Hj. destruct (nth j flags false) eqn:F; auto. exfalso.
  assert (Hlt : j < length flags).
  { destruct (Nat.ltb_spec j (length flags)); auto. rewrite nth_overflow in F by lia. discriminate. }
  assert (In j (compress flags)).
  { unfold compress. apply filter_In. split; auto. apply in_seq. lia. }
  rewrite E in H. apply in_seq in H. lia.
Qed.


(* ------------------------------------------------------------------ the invariant of the block loop *)

Section Tiling.
Variables (t0 : T) (dts0 : list T) (u0c : V) (thr : T).
Hypothesis Hplain : paradiag = false.

(* contract of the block (what pfasst + the convergence controllers guarantee; checked on the implementation
   by the harness): one entry per active step, the first step starts from the value handed in, every later
   step from the end value of its predecessor; prepare_next_block assigns a step size to every step *)
Definition contract : Prop :=
  forall b asl times dts u, let bo := oracle b asl times dts u in
    length (bo_restart bo) = length asl /\ length (bo_u0 bo) = length asl /\ length (bo_uend bo) = length asl /\
    length (bo_newdt bo) = length dts /\
    (0 < length asl -> nth 0 (bo_u0 bo) dV = u) /\
    (forall j, S j < length asl -> nth (S j) (bo_u0 bo) dV = nth j (bo_uend bo) dV).
Hypothesis Hc : contract.

(* start t follows step x: literally x.start + x.dt, or both were computed in the first block as t0 + sum(dt) *)
Definition link (x : acc T V) (t : T) : Prop :=
  t = add (a_start x) (a_dt x) \/
  (a_block x = 0 /\ a_slot x < length dts0 /\ a_dt x = nth (a_slot x) dts0 zero /\
   a_start x = add t0 (psum dts0 (a_slot x)) /\ t = add t0 (psum dts0 (S (a_slot x)))).

Definition tiled (A : list (acc T V)) : Prop := adj (fun x y => link x (a_start y)) A.
Definition nexts (A : list (acc T V)) (t : T) : Prop :=
  match lastopt A with None => t = add t0 (psum dts0 0) | Some x => link x t end.
Definition chainedV (A : list (acc T V)) : Prop := adj (fun x y => a_u0 y = a_uend x) A.
Definition carry (A : list (acc T V)) (u : V) : Prop :=
  match lastopt A with None => u = u0c | Some x => u = a_uend x end.
Definition headV (A : list (acc T V)) : Prop :=
  match A with [] => True | x :: _ => a_u0 x = u0c /\ a_start x = add t0 (psum dts0 0) end.

Record J (st : state T V) (u : V) : Prop := mkJ {
  j_lt : length (s_time st) = length dts0;
  j_ld : length (s_dt st) = length dts0;
  j_lu : length (s_u0 st) = length dts0;
  j_le : length (s_ue st) = length dts0;
  j_tiled : tiled (s_acc st);
  j_next : nexts (s_acc st) (nth 0 (s_time st) zero);
  j_chain : chainedV (s_acc st);
  j_carry : carry (s_acc st) u;
  j_head : headV (s_acc st);
  j_form : exists m, m <= length dts0 /\
     (forall j, m <= j -> j < length dts0 -> ltb (nth j (s_time st) zero) thr = false) /\
     ((s_blocks st = 0 /\ s_dt st = dts0 /\ s_acc st = [] /\
       forall j, j < length dts0 -> nth j (s_time st) zero = add t0 (psum dts0 j)) \/
      (0 < s_blocks st /\
       forall j, S j < m -> nth (S j) (s_time st) zero = add (nth j (s_time st) zero) (nth j (s_dt st) zero))) }.

Lemma plain_flags times p : p < length times ->
  nth p (act_flags thr times) false = ltb (nth p times zero) thr.
Proof.
  intros Hp. unfold TimeLoop.act_flags. rewrite Hplain. simpl.
  rewrite nth_indep with (d' := ltb zero thr) by (rewrite map_length; auto).
  apply (map_nth (fun t => ltb t thr)).
Qed.

Lemma block_step_J st u st' u' a :
  J st u -> compress (act_flags thr (s_time st)) = seq 0 a -> 0 < a ->
  block_step st (seq 0 a) u = (st', u') -> J st' u'.
Proof.
  intros Jst Ecomp Ha E.
  destruct Jst as [Lt Ld Lu Le Jt Jn Jc Jca Jh (m & Hm & Hstale & Hform)].
  (* a <= m <= P *)
  assert (HaP : a <= length dts0).
  { assert (In (a - 1) (compress (act_flags thr (s_time st)))) by (rewrite Ecomp; apply in_seq; lia).
    apply compress_In in H as (_ & H). rewrite act_flags_length, Lt in H. lia. }
  assert (Ham : a <= m).
  { destruct (Nat.ltb_spec m a); auto. exfalso.
    assert (In m (compress (act_flags thr (s_time st)))) by (rewrite Ecomp; apply in_seq; lia).
    apply compress_In in H0 as (H1 & H2). rewrite plain_flags in H1 by (rewrite Lt; lia).
    rewrite Hstale in H1; try discriminate; auto. lia. }
  assert (Hactive : forall j, j < a -> ltb (nth j (s_time st) zero) thr = true).
  { intros j Hj. assert (In j (compress (act_flags thr (s_time st)))) by (rewrite Ecomp; apply in_seq; lia).
    apply compress_In in H as (H1 & _). rewrite plain_flags in H1 by (rewrite Lt; lia). auto. }
  assert (Hinactive : forall j, a <= j -> j < length dts0 -> ltb (nth j (s_time st) zero) thr = false).
  { intros j Hj HjP. rewrite <- plain_flags by (rewrite Lt; lia).
    eapply compress_prefix_rest; eauto. }
  unfold TimeLoop.block_step in E.
  set (bo := oracle (s_blocks st) (seq 0 a) (s_time st) (s_dt st) u) in *.
  destruct (Hc (s_blocks st) (seq 0 a) (s_time st) (s_dt st) u) as (Lr & Lu0 & Lue & Lnd & Hu0 & Hch).
  fold bo in Lr, Lu0, Lue, Lnd, Hu0, Hch. rewrite seq_length in *.
  destruct (@scatter_prefix (bo_u0 bo) 0 (s_u0 st) a) as (Lsu & Hsu & _); auto; try (rewrite Lu; lia).
  destruct (@scatter_prefix (bo_uend bo) 0 (s_ue st) a) as (Lse & Hse & _); auto; try (rewrite Le; lia).
  simpl in Hsu, Hse.
  (* the steps accepted in this block, for a cut r <= a *)
  set (f := fun j => let a0 := nth j (seq 0 a) 0 in
                     mkAcc (s_blocks st) a0 (nth a0 (s_time st) zero) (nth a0 (s_dt st) zero)
                           (nth j (bo_u0 bo) dV) (nth j (bo_uend bo) dV)) in *.
  assert (Hf : forall j, j < a -> f j = mkAcc (s_blocks st) j (nth j (s_time st) zero) (nth j (s_dt st) zero)
                                           (nth j (bo_u0 bo) dV) (nth j (bo_uend bo) dV)).
  { intros j Hj. unfold f. rewrite seq_nth by lia. reflexivity. }
  (* pairs inside the block *)
  assert (Hpair : forall j, S j < a -> link (f j) (a_start (f (S j))) /\ a_u0 (f (S j)) = a_uend (f j)).
  { intros j Hj. rewrite !Hf by lia. simpl. split; [|apply Hch; lia].
    destruct Hform as [(Hb0 & Hd0 & _ & Hinit) | (Hb & Hchain)].
    - right. simpl. rewrite Hd0. repeat split; auto; try lia; apply Hinit; lia.
    - left. apply Hchain. lia. }
  assert (Hnew : forall r, r <= a ->
            tiled (s_acc st ++ map f (seq 0 r)) /\ chainedV (s_acc st ++ map f (seq 0 r)) /\
            headV (s_acc st ++ map f (seq 0 r))).
  { intros r Hr. split; [|split].
    - apply adj_app; auto.
      + apply adj_map_seq. intros j _ Hj. apply Hpair; lia.
      + intros x y Hx Hy. destruct r; simpl in Hy; try discriminate. injection Hy as <-.
        rewrite Hf by lia. simpl. unfold nexts in Jn. rewrite Hx in Jn. auto.
    - apply adj_app; auto.
      + apply adj_map_seq. intros j _ Hj. apply Hpair; lia.
      + intros x y Hx Hy. destruct r; simpl in Hy; try discriminate. injection Hy as <-.
        rewrite Hf by lia. simpl. unfold carry in Jca. rewrite Hx in Jca. rewrite Hu0 by lia. auto.
    - destruct (s_acc st) as [|x0 A0] eqn:EA; simpl; auto.
      destruct r; simpl; auto. split.
      + unfold carry in Jca. simpl in Jca. rewrite Hu0 by lia. auto.
      + rewrite seq_nth by lia. unfold nexts in Jn. simpl in Jn. auto. }
  assert (Hhd : hd 0 (seq 0 a) = 0) by (destruct a; simpl; auto).
  rewrite Hhd in E.
  destruct (first_true (bo_restart bo)) as [r|] eqn:Ft.
  - (* restart at r *)
    destruct (first_true_Some _ Ft) as (Hr & _). rewrite Lr in Hr.
    injection E as <- <-. replace (Nat.min r a) with r by lia.
    destruct (Hnew r) as (Ht & Hv & Hh); try lia.
    destruct (@chain_times_prefix (bo_newdt bo) a (upd 0 (nth r (s_time st) zero) (s_time st))) as (L1 & H0 & Hchn & Hrest).
    { rewrite upd_length, Lt. auto. }
    rewrite upd_length, Lt in L1. rewrite Ld in Lnd. rewrite Lu in Lsu. rewrite Le in Lse.
    constructor; simpl; auto.
    + (* nexts *)
      rewrite H0, nth_upd_eq by (rewrite Lt; lia).
      unfold nexts. destruct r.
      * rewrite app_nil_r. unfold nexts in Jn. auto.
      * rewrite lastopt_app by (rewrite seq_S, map_app; simpl; destruct (map f (seq 0 r)); discriminate).
        rewrite lastopt_map_seq by lia. replace (S r - 1) with r by lia.
        rewrite Hf by lia. simpl.
        destruct Hform as [(Hb0 & Hd0 & _ & Hinit) | (Hb & Hchain)].
        -- right. simpl. rewrite Hd0. repeat split; auto; try lia; apply Hinit; lia.
        -- left. apply Hchain. lia.
    + (* carry *)
      unfold carry. destruct r.
      * rewrite app_nil_r. replace (nth 0 (scatter (seq 0 a) (bo_u0 bo) (s_u0 st)) dV) with (nth 0 (bo_u0 bo) dV)
          by (symmetry; apply (Hsu 0); lia).
        rewrite Hu0 by lia. unfold carry in Jca. auto.
      * rewrite lastopt_app by (rewrite seq_S, map_app; simpl; destruct (map f (seq 0 r)); discriminate).
        rewrite lastopt_map_seq by lia. replace (S r - 1) with r by lia.
        rewrite Hf by lia. simpl. rewrite (Hsu (S r)) by lia. apply Hch. lia.
    + (* form *)
      exists a. split; [lia|]. split.
      * intros j Hj HjP. rewrite Hrest by lia. rewrite nth_upd_neq by lia. apply Hinactive; auto.
      * right. split; [lia|]. intros j Hj. apply Hchn; auto.
  - (* no restart *)
    injection E as <- <-. replace (Nat.min a a) with a by lia.
    destruct (Hnew a) as (Ht & Hv & Hh); try lia.
    assert (Elast : last (seq 0 a) 0 = a - 1).
    { destruct a; try lia. rewrite seq_S. rewrite last_last. simpl. lia. }
    rewrite Elast.
    destruct (@chain_times_prefix (bo_newdt bo) a
                (upd 0 (add (nth (a - 1) (s_time st) zero) (nth (a - 1) (s_dt st) zero)) (s_time st))) as (L1 & H0 & Hchn & Hrest).
    { rewrite upd_length, Lt. auto. }
    rewrite upd_length, Lt in L1. rewrite Ld in Lnd. rewrite Lu in Lsu. rewrite Le in Lse.
    constructor; simpl; auto.
    + rewrite H0, nth_upd_eq by (rewrite Lt; lia).
      unfold nexts. rewrite lastopt_app by (destruct a; try lia; rewrite seq_S, map_app; simpl; destruct (map f (seq 0 a)); discriminate).
      rewrite lastopt_map_seq by lia. rewrite Hf by lia. simpl. left. auto.
    + unfold carry. rewrite lastopt_app by (destruct a; try lia; rewrite seq_S, map_app; simpl; destruct (map f (seq 0 a)); discriminate).
      rewrite lastopt_map_seq by lia. rewrite Hf by lia. simpl. apply (Hse (a - 1)). lia.
    + exists a. split; [lia|]. split.
      * intros j Hj HjP. rewrite Hrest by lia. rewrite nth_upd_neq by lia. apply Hinactive; auto.
      * right. split; [lia|]. intros j Hj. apply Hchn; auto.
Qed.

Lemma block_step_pfx st asl u :
  s_pfx (fst (block_step st asl u)) = s_pfx st && nat_list_eqb asl (seq 0 (length asl)).
Proof. unfold TimeLoop.block_step. destruct (first_true _); reflexivity. Qed.

Lemma loop_pfx : forall fuel st u uend st',
  loop fuel thr st u = Finished uend st' -> s_pfx st' = true -> s_pfx st = true.
Proof.
  induction fuel; intros st u uend st' E Hp; simpl in E; try discriminate.
  destruct (existsb _ _).
  - destruct (block_step _ _ _) as (st1, u1) eqn:B.
    specialize (IHfuel _ _ _ _ E Hp). pose proof (block_step_pfx st (compress (act_flags thr (s_time st))) u) as X.
    rewrite B in X. simpl in X. rewrite IHfuel in X. symmetry in X. apply andb_true_iff in X. tauto.
  - injection E as <- <-; auto.
Qed.

Lemma existsb_compress flags : existsb (fun b => b) flags = true -> 0 < length (compress flags).
Proof.
  intros H. apply existsb_exists in H as (x & Hin & Hx). subst x.
  apply In_nth with (d := false) in Hin as (p & Hp & E).
  assert (In p (compress flags)). { unfold compress. apply filter_In. split; auto. apply in_seq. lia. }
  destruct (compress flags); simpl in *; [tauto|lia].
Qed.

Lemma loop_J : forall fuel st u uend st',
  loop fuel thr st u = Finished uend st' -> s_pfx st' = true -> J st u -> J st' uend.
Proof.
  induction fuel; intros st u uend st' E Hp Jst; simpl in E; try discriminate.
  destruct (existsb _ _) eqn:Ex.
  - destruct (block_step _ _ _) as (st1, u1) eqn:B.
    pose proof (loop_pfx _ _ _ E Hp) as Hp1.
    pose proof (block_step_pfx st (compress (act_flags thr (s_time st))) u) as X.
    rewrite B in X. simpl in X. rewrite Hp1 in X. symmetry in X. apply andb_true_iff in X as (_ & X).
    apply nat_list_eqb_eq in X.
    eapply IHfuel; eauto. rewrite X in B.
    eapply block_step_J; eauto. apply existsb_compress; auto.
  - injection E as <- <-; auto.
Qed.

End Tiling.

Lemma init_times_nth t0 dts j : j < length dts -> nth j (init_times add sumT t0 dts) zero = add t0 (psum dts j).
Proof.
  intros Hj. unfold TimeLoop.init_times.
  rewrite nth_indep with (d' := add t0 (psum dts 0)) by (rewrite map_length, seq_length; auto).
  rewrite (map_nth (fun p => add t0 (psum dts p))). rewrite seq_nth; auto.
Qed.

Theorem run_J fuel t0 tend tol dts u0 uend st :
  paradiag = false -> contract ->
  run fuel t0 tend tol dts u0 = Finished uend st -> s_pfx st = true ->
  J t0 dts u0 (sub tend tol) st uend /\
  forall p, p < length (s_time st) -> ltb (nth p (s_time st) zero) (sub tend tol) = false.
Proof.
  intros Hp Hc E Hpf. unfold TimeLoop.run in E.
  destruct (existsb _ _) eqn:Ex; try discriminate.
  split; [|eapply loop_exit; eauto].
  apply (@loop_J t0 dts u0 (sub tend tol) Hp Hc fuel _ u0 uend st E Hpf).
  assert (HP : 0 < length dts).
  { destruct dts; simpl; try lia. unfold TimeLoop.act_flags, TimeLoop.init_times in Ex. rewrite Hp in Ex.
    simpl in Ex. discriminate. }
  constructor; simpl; auto; try (rewrite map_length; auto).
  - unfold TimeLoop.init_times. rewrite map_length, seq_length; auto.
  - unfold nexts. simpl. apply init_times_nth; auto.
  - unfold carry; simpl; auto.
  - exists (length dts). split; auto. split; [intros; lia|].
    left. repeat split; auto. intros; apply init_times_nth; auto.
Qed.

End Generic.

(* ================================================================== statements for Props/C06.v *)

Section Statements.
Variables T V : Type.
Variables (add sub : T -> T -> T) (ltb : T -> T -> bool) (zero : T).
Variable sumT : list T -> T.
Variable dV : V.
Variable oracle : nat -> list nat -> list T -> list T -> V -> blockout T V.

Notation run := (run add sub ltb zero sumT dV false oracle).

Theorem tiling_chain fuel t0 tend tol dts u0 uend st :
  contract dV oracle -> run fuel t0 tend tol dts u0 = Finished uend st -> s_pfx st = true ->
  tiled add zero sumT t0 dts (s_acc st) /\
  (forall x, hd_error (s_acc st) = Some x -> a_start x = add t0 (psum sumT dts 0)).
Proof.
  intros Hc E Hp. destruct (@run_J T V add sub ltb zero sumT dV false oracle _ _ _ _ _ _ _ _ eq_refl Hc E Hp) as (Jst & _).
  split; [apply (j_tiled Jst)|]. intros x Hx. pose proof (j_head Jst) as H.
  destruct (s_acc st); simpl in *; try discriminate. injection Hx as <-. apply H.
Qed.

Theorem chain fuel t0 tend tol dts u0 uend st :
  contract dV oracle -> run fuel t0 tend tol dts u0 = Finished uend st -> s_pfx st = true ->
  chainedV (s_acc st) /\
  (forall x, hd_error (s_acc st) = Some x -> a_u0 x = u0) /\
  match lastopt (s_acc st) with Some x => uend = a_uend x | None => uend = u0 end.
Proof.
  intros Hc E Hp. destruct (@run_J T V add sub ltb zero sumT dV false oracle _ _ _ _ _ _ _ _ eq_refl Hc E Hp) as (Jst & _).
  split; [apply (j_chain Jst)|]. split; [|apply (j_carry Jst)].
  intros x Hx. pose proof (j_head Jst) as H.
  destruct (s_acc st); simpl in *; try discriminate. injection Hx as <-. apply H.
Qed.

Theorem reaches_Tend fuel t0 tend tol dts u0 uend st :
  contract dV oracle -> run fuel t0 tend tol dts u0 = Finished uend st -> s_pfx st = true ->
  exists t, nexts add zero sumT t0 dts (s_acc st) t /\ ltb t (sub tend tol) = false.
Proof.
  intros Hc E Hp. destruct (@run_J T V add sub ltb zero sumT dV false oracle _ _ _ _ _ _ _ _ eq_refl Hc E Hp) as (Jst & Hex).
  exists (nth 0 (s_time st) zero). split; [apply (j_next Jst)|].
  apply Hex. rewrite (j_lt Jst).
  unfold TimeLoop.run in E. destruct (existsb _ _) eqn:Ex; try discriminate.
  destruct dts; simpl; try lia. unfold TimeLoop.act_flags, TimeLoop.init_times in Ex. simpl in Ex. discriminate.
Qed.

(* with an associative addition and sum() = left fold, the two forms of `link` coincide: literal tiling *)
Section Exact.
Hypothesis add_assoc : forall a b c, add (add a b) c = add a (add b c).
Hypothesis sum_snoc : forall l x, sumT (l ++ [x]) = add (sumT l) x.

Lemma firstn_S_nth (l : list T) j : j < length l -> firstn (S j) l = firstn j l ++ [nth j l zero].
Proof.
  revert j; induction l; intros j Hj; simpl in *; try lia.
  destruct j; simpl; auto. rewrite IHl by lia. auto.
Qed.

Lemma link_exact t0 dts (x : acc T V) t : link add zero sumT t0 dts x t -> t = add (a_start x) (a_dt x).
Proof.
  intros [H | (Hb & Hs & Hd & Hst & Ht)]; auto.
  rewrite Ht, Hst, Hd. unfold TimeLoop.psum. rewrite firstn_S_nth by auto. rewrite sum_snoc, add_assoc. auto.
Qed.

Theorem tiling_exact fuel t0 tend tol dts u0 uend st :
  contract dV oracle -> run fuel t0 tend tol dts u0 = Finished uend st -> s_pfx st = true ->
  adj (fun x y : acc T V => a_start y = add (a_start x) (a_dt x)) (s_acc st).
Proof.
  intros Hc E Hp. destruct (@tiling_chain fuel t0 tend tol dts u0 uend st Hc E Hp) as (Ht & _).
  unfold tiled in Ht. induction (s_acc st) as [|x A IH]; simpl; auto.
  destruct A as [|y A]; auto. simpl in Ht. destruct Ht as (H1 & H2). split; auto.
  eapply link_exact; eauto.
Qed.
End Exact.
End Statements.

(* ================================================================== IEEE doubles: refutations by evaluation *)
From Coq Require Import PrimFloat.

Definition f01 : PrimFloat.float := 0x1.999999999999ap-4%float.   (* 0.1 *)
Definition ftol : PrimFloat.float := 0x1.4p-49%float.             (* 10 * 2^-52 *)

(* t0 = 0, dt = 0.1, Tend = 10: 101 accepted steps, the last one starting at 9.99999999999998 *)
Lemma count_float_101 :
  match frun false (fixed_oracle [f01]) 200 0%float 10%float ftol [f01] 0 with
  | Finished _ st => length (s_acc st) = 101 /\ s_pfx st = true /\
                     (exists x, lastopt (s_acc st) = Some x /\
                                PrimFloat.ltb (a_start x) (PrimFloat.sub 10%float ftol) = true /\
                                PrimFloat.eqb (a_start x) 0x1.3fffffffffff5p+3%float = true)
  | _ => False
  end.
Proof. vm_compute. repeat split; auto. eexists; repeat split; reflexivity. Qed.

(* first block: the start of slot 2 (t0 + sum([dt,dt])) is not the end of slot 1 ((t0 + dt) + dt) *)
Lemma tiling_float_refuted :
  match frun false counting_oracle 20 0x1.999999999999ap-3%float 0.5%float ftol
             [0x1.999999999999ap-5; 0x1.999999999999ap-5; 0x1.999999999999ap-5]%float 0 with
  | Finished _ st =>
      s_pfx st = true /\
      exists x y, nth_error (s_acc st) 1 = Some x /\ nth_error (s_acc st) 2 = Some y /\
                  PrimFloat.eqb (a_start y) (PrimFloat.add (a_start x) (a_dt x)) = false
  | _ => False
  end.
Proof. vm_compute. split; auto. eexists; eexists; repeat split; reflexivity. Qed.

(* controller_ParaDiag_nonMPI activates the whole block: 4 slots, dt = 0.1, Tend = 0.25 starts a step at 0.3 *)
Lemma paradiag_start_beyond :
  match frun true counting_oracle 20 0%float 0.25%float ftol [f01; f01; f01; f01] 0 with
  | Finished _ st => exists x, In x (s_acc st) /\ PrimFloat.ltb (a_start x) 0.25%float = false
  | _ => False
  end.
Proof. vm_compute. eexists; split; [right; right; right; left; reflexivity|reflexivity]. Qed.

Lemma counting_contract T : contract 0 (@counting_oracle T).
Proof.
  intros b asl times dts u. simpl. rewrite !map_length, seq_length. repeat split; auto.
  - intros H. rewrite nth_indep with (d' := u + 0) by (rewrite map_length, seq_length; auto).
    rewrite (map_nth (fun j => u + j)), seq_nth by auto. lia.
  - intros j Hj. rewrite nth_indep with (d' := u + 0) by (rewrite map_length, seq_length; auto).
    rewrite (map_nth (fun j => u + j)), seq_nth by auto.
    rewrite nth_indep with (d' := u + 1) by (rewrite map_length, seq_length; lia).
    rewrite (map_nth (fun j => u + S j)), seq_nth by lia. lia.
Qed.

(* ================================================================== exact step count (integer time) *)

Lemma compress_In' flags p : In p (compress flags) -> nth p flags false = true /\ p < length flags.
Proof. unfold compress. intros H. apply filter_In in H as (H1 & H2). apply in_seq in H1. split; auto; lia. Qed.

Lemma existsb_compress' flags : existsb (fun b => b) flags = true -> 0 < length (compress flags).
Proof.
  intros H. apply existsb_exists in H as (x & Hin & Hx). subst x.
  apply In_nth with (d := false) in Hin as (p & Hp & E).
  assert (In p (compress flags)). { unfold compress. apply filter_In. split; auto. apply in_seq. lia. }
  destruct (compress flags); simpl in *; [tauto|lia].
Qed.

Lemma last_indep' X (l : list X) a b : l <> [] -> last l a = last l b.
Proof.
  induction l as [|c l IH]; intros H; [congruence|]. simpl. destruct l; auto. apply IH. discriminate.
Qed.

Lemma last_In X (l : list X) x : In (last l x) (x :: l).
Proof.
  revert x; induction l as [|c l IH]; intros x; [left; auto|]. right.
  change (last (c :: l) x) with (match l with [] => c | _ => last l x end).
  destruct l; [left; auto|]. rewrite (@last_indep' _ (x0 :: l) x c) by discriminate. apply IH.
Qed.

Lemma nth_repeat_lt' A (x dflt : A) n i : i < n -> nth i (repeat x n) dflt = x.
Proof. revert i; induction n; intros i Hi; try lia. destruct i; simpl; auto. apply IHn; lia. Qed.

Section CountZ.
Open Scope Z_scope.
Variables (P : nat) (d t0 tend tol : Z).
Hypothesis Hd : 0 < d.

Notation zoracle := (@counting_oracle Z).
Notation zblock := (block_step Z.add 0 0%nat zoracle).
Notation zloop := (loop Z.add Z.ltb 0 0%nat false zoracle).
Notation zrun := (run Z.add Z.sub Z.ltb 0 (fold_sum Z.add 0) 0%nat false zoracle).
Let thr := tend - tol.
Let dts := repeat d P.

Lemma chain_times_length asl dtl : forall times, length (chain_times Z.add 0 asl dtl times) = length times.
Proof.
  unfold TimeLoop.chain_times. generalize (tl asl). intros l. induction l; intros times; simpl; auto.
  rewrite IHl, upd_length. auto.
Qed.

Lemma first_true_none_false (l : list nat) : first_true (map (fun _ => false) l) = None.
Proof. induction l; simpl; auto. rewrite IHl; auto. Qed.

Definition K (st : state Z nat) : Prop :=
  s_dt st = dts /\ length (s_time st) = P /\ Forall (fun a => a_dt a = d) (s_acc st).

Lemma zblock_K st u st' u' :
  K st -> zblock st (compress (act_flags Z.ltb false thr (s_time st))) u = (st', u') ->
  0%nat <> length (compress (act_flags Z.ltb false thr (s_time st))) ->
  K st' /\ (length (s_acc st) < length (s_acc st'))%nat.
Proof.
  intros (Kd & Kt & Ka) E Hne. unfold TimeLoop.block_step in E. cbn [counting_oracle bo_restart bo_u0 bo_uend bo_newdt] in E.
  rewrite first_true_none_false in E. injection E as <- <-. unfold K. cbn [s_dt s_time s_acc]. split; [split; [|split]|].
  - auto.
  - rewrite chain_times_length, upd_length. auto.
  - apply Forall_app; split; auto. apply Forall_forall. intros x Hx.
    apply in_map_iff in Hx as (j & <- & Hj). apply in_seq in Hj. simpl.
    rewrite Kd. unfold dts.
    assert (Hin : In (nth j (compress (act_flags Z.ltb false thr (s_time st))) 0%nat)
                     (compress (act_flags Z.ltb false thr (s_time st)))) by (apply nth_In; lia).
    apply compress_In' in Hin as (_ & Hlt). rewrite act_flags_length, Kt in Hlt.
    apply nth_repeat_lt'; auto.
  - rewrite app_length, map_length, seq_length. rewrite Nat.min_id. lia.
Qed.

Lemma zloop_K : forall fuel st u uend st',
  zloop fuel thr st u = Finished uend st' -> K st ->
  K st' /\ (length (s_acc st) <= length (s_acc st'))%nat /\
  (existsb (fun b => b) (act_flags Z.ltb false thr (s_time st)) = true -> (length (s_acc st) < length (s_acc st'))%nat).
Proof.
  induction fuel; intros st u uend st' E Kst; simpl in E; try discriminate.
  destruct (existsb _ _) eqn:Ex.
  - destruct (zblock _ _ _) as (st1, u1) eqn:B.
    destruct (@zblock_K st u st1 u1 Kst B) as (K1 & Hlt).
    { apply existsb_compress' in Ex. lia. }
    destruct (IHfuel _ _ _ _ E K1) as (K' & Hle & _). split; auto. split; intros; lia.
  - injection E as <- <-. split; auto. split; auto. intros; discriminate.
Qed.

(* consecutive starts differ by d *)
Lemma starts_arith (A : list (acc Z nat)) : forall s0 x,
  adj (fun x y : acc Z nat => a_start y = a_start x + a_dt x) A -> Forall (fun a => a_dt a = d) A ->
  hd_error A = Some x -> a_start x = s0 ->
  exists y, lastopt A = Some y /\ a_start y = s0 + (Z.of_nat (length A) - 1) * d.
Proof.
  induction A as [|a A IH]; intros s0 x Hadj Hdt Hh Hs; simpl in Hh; try discriminate.
  injection Hh as <-. destruct A as [|b A].
  - exists a. simpl. split; auto. lia.
  - simpl in Hadj. destruct Hadj as (Hab & Hadj). pose proof (Forall_inv Hdt) as Hda. pose proof (Forall_inv_tail Hdt) as Hdt'. simpl in Hda.
    destruct (IH (a_start a + d) b Hadj Hdt' eq_refl) as (y & Hy & Hys); [rewrite Hab, Hda; auto|].
    exists y. split.
    + change (lastopt (a :: b :: A)) with (Some (last (b :: A) a)).
      change (lastopt (b :: A)) with (Some (last A b)) in Hy.
      rewrite <- Hy. f_equal. simpl. destruct A; auto. apply last_indep'. discriminate.
    + rewrite Hys, <- Hs. change (length (a :: b :: A)) with (S (length (b :: A))). rewrite Nat2Z.inj_succ. lia.
Qed.

Theorem count_exact fuel uend st :
  zrun fuel t0 tend tol dts 0%nat = Finished uend st -> s_pfx st = true ->
  let N := Z.of_nat (length (s_acc st)) in
  0 < N /\ t0 + (N - 1) * d < thr /\ thr <= t0 + N * d.
Proof.
  intros E Hp N.
  assert (Hc := @counting_contract Z).
  pose proof (@tiling_exact Z nat Z.add Z.sub Z.ltb 0 (fold_sum Z.add 0) 0%nat zoracle) as Hte.
  assert (Hassoc : forall a b c : Z, a + b + c = a + (b + c)) by (intros; lia).
  assert (Hsn : forall l x, fold_sum Z.add 0 (l ++ [x]) = fold_sum Z.add 0 l + x)
    by (intros; unfold fold_sum; rewrite fold_left_app; reflexivity).
  specialize (Hte Hassoc Hsn fuel t0 tend tol dts 0%nat uend st Hc E Hp).
  destruct (@tiling_chain Z nat Z.add Z.sub Z.ltb 0 (fold_sum Z.add 0) 0%nat zoracle fuel t0 tend tol dts 0%nat uend st Hc E Hp)
    as (_ & Hhead).
  pose proof (@no_start_beyond Z nat Z.add Z.sub Z.ltb 0 (fold_sum Z.add 0) 0%nat false zoracle fuel t0 tend tol dts 0%nat uend st eq_refl E) as Hnb.
  destruct (@reaches_Tend Z nat Z.add Z.sub Z.ltb 0 (fold_sum Z.add 0) 0%nat zoracle fuel t0 tend tol dts 0%nat uend st Hc E Hp)
    as (t & Hnext & Hexit).
  pose proof E as E'. unfold TimeLoop.run in E'. fold thr in E'.
  destruct (existsb _ _) eqn:Ex; try discriminate.
  destruct (@zloop_K fuel _ _ _ _ E') as (Kst & _ & Hgrow).
  { split; [|split]; simpl; auto. unfold TimeLoop.init_times. rewrite map_length, seq_length. unfold dts. apply repeat_length. }
  specialize (Hgrow Ex). simpl in Hgrow.
  destruct Kst as (_ & _ & Kdt).
  destruct (s_acc st) as [|x A] eqn:EA; [simpl in Hgrow; lia|].
  destruct (@starts_arith (x :: A) (t0 + 0) x Hte Kdt eq_refl) as (y & Hy & Hys).
  { rewrite (Hhead x eq_refl). reflexivity. }
  assert (Hin : In y (x :: A)).
  { simpl in Hy. injection Hy as <-. apply last_In. }
  specialize (Hnb y Hin). apply Z.ltb_lt in Hnb.
  unfold nexts in Hnext. rewrite Hy in Hnext.
  pose proof (link_exact Z.sub Z.ltb 0%nat zoracle Hassoc Hsn Hnext) as Hn2. clear Hnext. rename Hn2 into Hnext.
  rewrite Forall_forall in Kdt. rewrite (Kdt y Hin) in Hnext. apply Z.ltb_ge in Hexit.
  subst N. fold thr in Hnb, Hexit. change (length (x :: A)) with (S (length A)) in *.
  rewrite Nat2Z.inj_succ in *. lia.
Qed.
End CountZ.

