(* C16 — proofs about the BlockDecomposition model (Model/Blocks.v). *)
From PySDC Require Import Base.Tactics Model.Blocks.
Open Scope Z_scope.

(* ------------------------------------------------------------------ one axis: localBounds tiles [0, nPoints) *)
Section Axis.
  Variables nP nB : Z.
  Hypothesis HnB : 0 < nB.

  Let n0 := nP / nB.
  Let nRest := nP - nB * n0.

  Lemma nRest_range : 0 <= nRest < nB.
  Proof. unfold nRest, n0. pose proof (Z.mod_pos_bound nP nB HnB). rewrite Z.mod_eq in H by lia. lia. Qed.

  Lemma iLoc_0 : iLoc nP nB 0 = 0.
  Proof.
    unfold iLoc. fold n0. fold nRest. pose proof nRest_range.
    unfold b2z. destruct (Z.leb_spec nRest 0), (Z.ltb_spec 0 nRest); lia.
  Qed.

  Lemma iLoc_step r : 0 <= r -> iLoc nP nB (r + 1) = iLoc nP nB r + nLoc nP nB r.
  Proof.
    intros Hr. unfold iLoc, nLoc. fold n0. fold nRest. pose proof nRest_range. unfold b2z.
    destruct (Z.leb_spec nRest (r + 1)), (Z.ltb_spec (r + 1) nRest),
             (Z.leb_spec nRest r), (Z.ltb_spec r nRest); lia.
  Qed.

  Lemma iLoc_end : iLoc nP nB nB = nP.
  Proof.
    unfold iLoc. fold n0. fold nRest. pose proof nRest_range. unfold b2z.
    destruct (Z.leb_spec nRest nB), (Z.ltb_spec nB nRest); unfold nRest in *; lia.
  Qed.

  Lemma nLoc_nonneg r : 0 <= nP -> 0 <= nLoc nP nB r.
  Proof.
    intros HP. unfold nLoc. fold n0. fold nRest. assert (0 <= n0) by (apply Z.div_pos; lia).
    unfold b2z. destruct (r <? nRest); lia.
  Qed.

  Lemma iLoc_mono_nat (a : Z) (k : nat) : 0 <= nP -> 0 <= a ->
    iLoc nP nB a <= iLoc nP nB (a + Z.of_nat k).
  Proof.
    intros HP Ha. induction k.
    - rewrite Z.add_0_r. lia.
    - replace (a + Z.of_nat (S k)) with ((a + Z.of_nat k) + 1) by lia.
      rewrite iLoc_step by lia. pose proof (nLoc_nonneg (a + Z.of_nat k) HP). lia.
  Qed.

  Lemma iLoc_mono a b : 0 <= nP -> 0 <= a <= b -> iLoc nP nB a <= iLoc nP nB b.
  Proof.
    intros HP H. replace b with (a + Z.of_nat (Z.to_nat (b - a))) by lia.
    apply iLoc_mono_nat; lia.
  Qed.

  Lemma axis_exists (m : nat) x : iLoc nP nB 0 <= x < iLoc nP nB (Z.of_nat m) ->
    exists r, 0 <= r < Z.of_nat m /\ iLoc nP nB r <= x < iLoc nP nB (r + 1).
  Proof.
    induction m; intros H.
    - simpl in H. lia.
    - destruct (Z_lt_le_dec x (iLoc nP nB (Z.of_nat m))) as [Hlt|Hge].
      + destruct (IHm ltac:(lia)) as (r & Hr & Hx). exists r. split; [lia|exact Hx].
      + exists (Z.of_nat m). split; [lia|]. replace (Z.of_nat m + 1) with (Z.of_nat (S m)) by lia. lia.
  Qed.

  (* every point of the axis lies in the interval [iLoc, iLoc + nLoc) of exactly one rank *)
  Theorem axis_tiling x : 0 <= x < nP ->
    exists r, 0 <= r < nB /\ iLoc nP nB r <= x < iLoc nP nB r + nLoc nP nB r /\
      forall r', 0 <= r' < nB -> iLoc nP nB r' <= x < iLoc nP nB r' + nLoc nP nB r' -> r' = r.
  Proof.
    intros Hx. assert (HP : 0 <= nP) by lia.
    destruct (axis_exists (Z.to_nat nB) x) as (r & Hr & Hin).
    { rewrite iLoc_0, Z2Nat.id, iLoc_end by lia. lia. }
    rewrite Z2Nat.id in Hr by lia.
    exists r. rewrite <- iLoc_step by lia. split; [exact Hr|]. split; [exact Hin|].
    intros r' Hr' Hin'. rewrite <- iLoc_step in Hin' by lia.
    destruct (Z.lt_trichotomy r' r) as [Hlt|[Heq|Hgt]]; [|exact Heq|].
    - pose proof (iLoc_mono (r' + 1) r HP ltac:(lia)). lia.
    - pose proof (iLoc_mono (r + 1) r' HP ltac:(lia)). lia.
  Qed.

  (* the block sizes add up to the axis length *)
  Lemma nLoc_sum_nat (k : nat) :
    fold_right Z.add 0 (map (fun r => nLoc nP nB (Z.of_nat r)) (seq 0 k)) = iLoc nP nB (Z.of_nat k).
  Proof.
    induction k.
    - simpl. rewrite iLoc_0. reflexivity.
    - rewrite seq_S, map_app, fold_right_app. cbn [map fold_right Nat.add].
      replace (Z.of_nat (S k)) with (Z.of_nat k + 1) by lia. rewrite iLoc_step by lia.
      rewrite <- IHk. generalize (nLoc nP nB (Z.of_nat k)). generalize (map (fun r => nLoc nP nB (Z.of_nat r)) (seq 0 k)).
      intros l z. induction l; simpl; lia.
  Qed.
End Axis.

(* ------------------------------------------------------------------ ranks: bijection [0, prod) <-> box *)
Definition in_dims (idx dims : list Z) : Prop := Forall2 (fun i b => 0 <= i < b) idx dims.

Lemma zprod_pos l : Forall (fun b => 0 < b) l -> 0 < zprod l.
Proof. induction 1; simpl; [lia|]. apply Z.mul_pos_pos; assumption. Qed.

Lemma unravel_in_dims rdims g : Forall (fun b => 0 < b) rdims -> in_dims (unravel_rev rdims g) rdims.
Proof.
  intros H. revert g. induction H; intros g; cbn [unravel_rev]; constructor.
  - apply Z.mod_pos_bound. assumption.
  - apply IHForall.
Qed.

Lemma ravel_unravel_rev rdims g : Forall (fun b => 0 < b) rdims -> 0 <= g < zprod rdims ->
  ravel_rev rdims (unravel_rev rdims g) = g.
Proof.
  intros H. revert g. induction H as [|b r Hb Hr IH]; intros g Hg; cbn [unravel_rev ravel_rev].
  - simpl in Hg. lia.
  - rewrite IH.
    + pose proof (Z.div_mod g b ltac:(lia)). lia.
    + change (zprod (b :: r)) with (b * zprod r) in Hg. pose proof (zprod_pos r Hr). split; [apply Z.div_pos; lia|]. apply Z.div_lt_upper_bound; lia.
Qed.

Lemma unravel_ravel_rev rdims idx : in_dims idx rdims ->
  unravel_rev rdims (ravel_rev rdims idx) = idx /\ 0 <= ravel_rev rdims idx < zprod rdims.
Proof.
  induction 1 as [|i b idx r Hi H IH]; cbn [unravel_rev ravel_rev].
  - split; [reflexivity|simpl; lia].
  - destruct IH as [IH1 IH2].
    assert (E1 : (i + b * ravel_rev r idx) mod b = i).
    { replace (i + b * ravel_rev r idx) with (i + ravel_rev r idx * b) by lia.
      rewrite Z.mod_add by lia. apply Z.mod_small. lia. }
    assert (E2 : (i + b * ravel_rev r idx) / b = ravel_rev r idx).
    { replace (i + b * ravel_rev r idx) with (i + ravel_rev r idx * b) by lia.
      rewrite Z.div_add by lia. rewrite Z.div_small by lia. lia. }
    rewrite E1, E2, IH1. split; [reflexivity|]. change (zprod (b :: r)) with (b * zprod r). nia.
Qed.

Lemma zprod_cons x l : zprod (x :: l) = x * zprod l.
Proof. reflexivity. Qed.

Lemma zprod_repeat_1 n : zprod (repeat 1 n) = 1.
Proof. induction n; [reflexivity|]. cbn [repeat]. rewrite zprod_cons, IHn. reflexivity. Qed.

Lemma zprod_app a b : zprod (a ++ b) = zprod a * zprod b.
Proof.
  induction a as [|x a IH].
  - change (zprod []) with 1. simpl app. lia.
  - change (zprod ((x :: a) ++ b)) with (x * zprod (a ++ b)). change (zprod (x :: a)) with (x * zprod a).
    rewrite IH. lia.
Qed.

Lemma zprod_rev l : zprod (rev l) = zprod l.
Proof.
  induction l as [|x l IH]; [reflexivity|]. cbn [rev]. rewrite zprod_app, IH.
  change (zprod [x]) with (x * 1). change (zprod (x :: l)) with (x * zprod l). lia.
Qed.

Lemma in_dims_rev idx dims : in_dims idx dims -> in_dims (rev idx) (rev dims).
Proof.
  induction 1; simpl; [constructor|]. apply Forall2_app; [assumption|]. constructor; [assumption|constructor].
Qed.

Lemma Forall_rev' {A} (P : A -> Prop) l : Forall P l -> Forall P (rev l).
Proof. intros H. apply Forall_forall. intros x Hx. apply in_rev in Hx. exact (proj1 (Forall_forall _ _) H x Hx). Qed.

(* R1: a valid rank has a block index inside the block grid, and ravel recovers the rank *)
Lemma ranks_some o dims g : Forall (fun b => 0 < b) dims -> 0 <= g < zprod dims ->
  exists rk, ranks o dims g = Some rk /\ in_dims rk dims /\ ravel o dims rk = g.
Proof.
  intros Hd Hg. unfold ranks.
  replace ((0 <=? g) && (g <? zprod dims)) with true by lia.
  destruct o; eexists; (split; [reflexivity|]); cbn [ravel].
  - split.
    + rewrite <- (rev_involutive dims) at 2. apply in_dims_rev, unravel_in_dims, Forall_rev', Hd.
    + rewrite rev_involutive. apply ravel_unravel_rev; [apply Forall_rev', Hd|]. rewrite zprod_rev. exact Hg.
  - split; [apply unravel_in_dims, Hd|apply ravel_unravel_rev; assumption].
Qed.

(* R2: every block index is the index of exactly the rank ravel computes *)
Lemma ranks_ravel o dims rk : in_dims rk dims ->
  0 <= ravel o dims rk < zprod dims /\ ranks o dims (ravel o dims rk) = Some rk.
Proof.
  intros H. unfold ranks. destruct o; cbn [ravel].
  - destruct (unravel_ravel_rev (rev dims) (rev rk) (in_dims_rev _ _ H)) as [E1 E2].
    rewrite zprod_rev in E2. split; [exact E2|].
    replace ((0 <=? ravel_rev (rev dims) (rev rk)) && (ravel_rev (rev dims) (rev rk) <? zprod dims)) with true by lia.
    rewrite E1, rev_involutive. reflexivity.
  - destruct (unravel_ravel_rev dims rk H) as [E1 E2]. split; [exact E2|].
    replace ((0 <=? ravel_rev dims rk) && (ravel_rev dims rk <? zprod dims)) with true by lia.
    rewrite E1. reflexivity.
Qed.

Lemma ranks_none o dims g : ~ (0 <= g < zprod dims) -> ranks o dims g = None.
Proof. intros H. unfold ranks. replace ((0 <=? g) && (g <? zprod dims)) with false by lia. reflexivity. Qed.

Theorem ranks_bijective o dims : Forall (fun b => 0 < b) dims ->
  (forall g, 0 <= g < zprod dims -> exists rk, ranks o dims g = Some rk /\ in_dims rk dims /\ ravel o dims rk = g) /\
  (forall rk, in_dims rk dims -> 0 <= ravel o dims rk < zprod dims /\ ranks o dims (ravel o dims rk) = Some rk) /\
  (forall g, ~ (0 <= g < zprod dims) -> ranks o dims g = None).
Proof.
  intros H. split; [intros; apply ranks_some; assumption|].
  split; [intros; apply ranks_ravel; assumption|intros; apply ranks_none; assumption].
Qed.

(* ------------------------------------------------------------------ the partition *)
Definition boxb (x gs nB rk : list Z) : bool :=
  in_box x (map3 (fun r n b => iLoc n b r) rk gs nB) (map3 (fun r n b => nLoc n b r) rk gs nB).

Lemma box_unique x gs nB :
  Forall (fun b => 0 < b) nB -> Forall2 (fun xi g => 0 <= xi < g) x gs -> length gs = length nB ->
  exists rk, in_dims rk nB /\ boxb x gs nB rk = true /\
    forall rk', in_dims rk' nB -> boxb x gs nB rk' = true -> rk' = rk.
Proof.
  intros HnB Hx. revert nB HnB. induction Hx as [|xi g x gs Hxi Hx IH]; intros nB HnB Hlen.
  - destruct nB; [|discriminate]. exists []. split; [constructor|]. split; [reflexivity|].
    intros rk' H _. inversion H. reflexivity.
  - destruct nB as [|b nB]; [discriminate|]. inversion HnB as [|? ? Hb HnB']; subst.
    destruct (IH nB HnB' ltac:(simpl in Hlen; lia)) as (rk & Hrk & Hbox & Huniq).
    destruct (axis_tiling g b Hb xi Hxi) as (r & Hr & Hin & Hu).
    exists (r :: rk). split; [constructor; assumption|]. split.
    + unfold boxb in *. cbn [map3 in_box]. rewrite Hbox.
      replace ((iLoc g b r <=? xi) && (xi <? iLoc g b r + nLoc g b r)) with true by lia. reflexivity.
    + intros rk' Hrk' Hbox'. inversion Hrk' as [|r' ? rk'' ? Hr' Hrk'']; subst.
      unfold boxb in Hbox'. cbn [map3 in_box] in Hbox'.
      apply andb_prop in Hbox' as [Ha Hb'].
      f_equal.
      * apply Hu; [exact Hr'|lia].
      * apply Huniq; [exact Hrk''|exact Hb'].
Qed.

(* MAIN: for positive block counts, every grid point is owned by exactly one rank *)
Theorem partition_of_blocks o gs nB x :
  Forall (fun b => 0 < b) nB -> length gs = length nB -> Forall2 (fun xi g => 0 <= xi < g) x gs ->
  exists g, 0 <= g < zprod nB /\ owns o gs nB g x = true /\
    forall g', owns o gs nB g' x = true -> g' = g.
Proof.
  intros HnB Hlen Hx.
  destruct (box_unique x gs nB HnB Hx Hlen) as (rk & Hrk & Hbox & Huniq).
  destruct (ranks_ravel o nB rk Hrk) as [Hg Hr].
  exists (ravel o nB rk). split; [exact Hg|]. split.
  - unfold owns, localBounds. rewrite Hr. exact Hbox.
  - intros g' Hown. unfold owns, localBounds in Hown.
    destruct (Z_lt_le_dec g' 0) as [Hneg|Hnn]; [rewrite ranks_none in Hown by lia; discriminate|].
    destruct (Z_lt_le_dec g' (zprod nB)) as [Hlt|Hge]; [|rewrite ranks_none in Hown by lia; discriminate].
    destruct (ranks_some o nB g' HnB ltac:(lia)) as (rk' & E & Hin & Hrav).
    rewrite E in Hown. rewrite <- Hrav. f_equal. apply Huniq; assumption.
Qed.

(* ------------------------------------------------------------------ sort *)
Lemma zprod_insert x l : zprod (insert x l) = x * zprod l.
Proof. induction l; simpl; [lia|]. destruct (x <=? a); simpl; [lia|]. rewrite IHl. lia. Qed.

Lemma length_insert x l : length (insert x l) = S (length l).
Proof. induction l; simpl; [reflexivity|]. destruct (x <=? a); simpl; [reflexivity|]. rewrite IHl. reflexivity. Qed.

Lemma Forall_insert (P : Z -> Prop) x l : P x -> Forall P l -> Forall P (insert x l).
Proof.
  intros Hx H. induction H; simpl; [repeat constructor; assumption|].
  destruct (x <=? x0); repeat constructor; assumption.
Qed.

Lemma zprod_sort l : zprod (sort l) = zprod l.
Proof. induction l; simpl; [reflexivity|]. rewrite zprod_insert, IHl. reflexivity. Qed.

Lemma length_sort l : length (sort l) = length l.
Proof. induction l; simpl; [reflexivity|]. rewrite length_insert, IHl. reflexivity. Qed.

Lemma Forall_sort (P : Z -> Prop) l : Forall P l -> Forall P (sort l).
Proof. induction 1; simpl; [constructor|]. apply Forall_insert; assumption. Qed.

Lemma zprod_mul_head i l : l <> [] -> zprod (mul_head i l) = i * zprod l.
Proof. destruct l; [congruence|]. intros _. simpl. lia. Qed.

Lemma length_mul_head i l : length (mul_head i l) = length l.
Proof. destruct l; reflexivity. Qed.

Lemma Forall_mul_head i l : 0 < i -> Forall (fun b => 0 < b) l -> Forall (fun b => 0 < b) (mul_head i l).
Proof. intros Hi H. destruct H; simpl; constructor; [nia|assumption]. Qed.

(* ------------------------------------------------------------------ ChatGPT *)
Lemma div_step n i : 2 <= i -> 1 <= n -> n mod i = 0 -> n = i * (n / i) /\ 1 <= n / i < n.
Proof.
  intros Hi Hn E.
  assert (Hd : n = i * (n / i)) by (pose proof (Z.div_mod n i ltac:(lia)); lia).
  assert (Hle : i <= n) by (destruct (Z_lt_le_dec n i); [rewrite Z.mod_small in E by lia; lia|assumption]).
  assert (0 < n / i) by (apply Z.div_str_pos; lia).
  assert (n / i < n) by (apply Z.div_lt; lia).
  lia.
Qed.

Definition cg_inv (N : Z) (dim : nat) (st : Z * list Z) : Prop :=
  fst st * zprod (snd st) = N /\ 1 <= fst st /\ Forall (fun b => 0 < b) (snd st) /\ length (snd st) = dim.

Lemma factor_out_inv N dim fuel i st : (0 < dim)%nat -> 2 <= i -> cg_inv N dim st -> cg_inv N dim (factor_out fuel i st).
Proof.
  intros Hd Hi. revert st. induction fuel; intros st H; [exact H|].
  destruct st as [n bl]. cbn [factor_out]. destruct (Z.eqb_spec (n mod i) 0) as [E|]; [|exact H].
  apply IHfuel. destruct H as (H1 & H2 & H3 & H4). cbn [fst snd] in *.
  destruct (div_step n i Hi H2 E) as [Hn Hq].
  assert (bl <> []) by (destruct bl; [simpl in H4; lia|congruence]).
  unfold cg_inv. cbn [fst snd]. rewrite zprod_sort, zprod_mul_head, length_sort, length_mul_head by assumption.
  split; [nia|]. split; [lia|split; [apply Forall_sort, Forall_mul_head; [lia|assumption]|assumption]].
Qed.

(* the while-loop really stops by itself: the fuel is never exhausted *)
Lemma factor_out_done fuel i n bl : 2 <= i -> 1 <= n -> (Z.to_nat n <= fuel)%nat ->
  fst (factor_out fuel i (n, bl)) mod i <> 0.
Proof.
  intros Hi. revert n bl. induction fuel; intros n bl Hn Hf; [lia|].
  cbn [factor_out]. destruct (Z.eqb_spec (n mod i) 0) as [E|E]; [|exact E].
  destruct (div_step n i Hi Hn E) as [Hd Hq].
  apply IHfuel; lia.
Qed.

Lemma chatgpt_loop_inv N dim : (0 < dim)%nat -> 1 <= N -> cg_inv N dim (chatgpt_loop N dim).
Proof.
  intros Hd HN. unfold chatgpt_loop.
  set (is := map (fun k => 2 + Z.of_nat k) (seq 0 (Z.to_nat (Z.sqrt N - 1)))).
  assert (His : Forall (fun i => 2 <= i) is).
  { apply Forall_forall. intros i Hin. apply in_map_iff in Hin as (k & <- & _). lia. }
  assert (H0 : cg_inv N dim (N, repeat 1 dim)).
  { unfold cg_inv. cbn [fst snd]. rewrite repeat_length. split; [|split; [lia|split; [|reflexivity]]].
    - rewrite zprod_repeat_1. lia.
    - apply Forall_forall. intros x Hx. apply repeat_spec in Hx. lia. }
  revert H0. generalize (N, repeat 1 dim). induction His; intros st H0; cbn [fold_left]; [exact H0|].
  apply IHHis. apply factor_out_inv; assumption.
Qed.

Lemma chatgpt_spec N dim : (0 < dim)%nat -> 1 <= N ->
  zprod (chatgpt N dim) = N /\ length (chatgpt N dim) = dim /\ Forall (fun b => 0 < b) (chatgpt N dim).
Proof.
  intros Hd HN. unfold chatgpt. pose proof (chatgpt_loop_inv N dim Hd HN) as H.
  destruct (chatgpt_loop N dim) as [rest bl]. destruct H as (H1 & H2 & H3 & H4). cbn [fst snd] in *.
  assert (bl <> []) by (destruct bl; [simpl in H4; lia|congruence]).
  destruct (Z.ltb_spec 1 rest).
  - rewrite zprod_sort, length_sort, zprod_mul_head, length_mul_head by assumption.
    split; [lia|]. split; [assumption|]. apply Forall_sort, Forall_mul_head; [lia|assumption].
  - rewrite zprod_sort, length_sort. split; [nia|]. split; [assumption|]. apply Forall_sort; assumption.
Qed.

(* ------------------------------------------------------------------ Hybrid *)
Lemma count_div_spec fuel fac rest : 2 <= fac -> 1 <= rest ->
  zprod (repeat fac (fst (count_div fuel fac rest))) * snd (count_div fuel fac rest) = rest /\
  1 <= snd (count_div fuel fac rest).
Proof.
  intros Hf. revert rest. induction fuel; intros rest Hr; cbn [count_div].
  - cbn [fst snd repeat]. change (zprod []) with 1. lia.
  - destruct (Z.eqb_spec (rest mod fac) 0) as [E|E]; [|cbn [fst snd repeat]; change (zprod []) with 1; lia].
    destruct (div_step rest fac Hf Hr E) as [Hd Hq].
    destruct (IHfuel (rest / fac) ltac:(lia)) as [I1 I2].
    destruct (count_div fuel fac (rest / fac)) as [e r]. cbn [fst snd repeat] in *. rewrite zprod_cons.
    split; [|exact I2]. nia.
Qed.

Lemma count_div_done fuel fac rest : 2 <= fac -> 1 <= rest -> (Z.to_nat rest <= fuel)%nat ->
  snd (count_div fuel fac rest) mod fac <> 0.
Proof.
  intros Hf. revert rest. induction fuel; intros rest Hr Hfu; [lia|].
  cbn [count_div]. destruct (Z.eqb_spec (rest mod fac) 0) as [E|E]; [|exact E].
  destruct (div_step rest fac Hf Hr E) as [Hd Hq].
  specialize (IHfuel (rest / fac) ltac:(lia) ltac:(lia)).
  destruct (count_div fuel fac (rest / fac)). exact IHfuel.
Qed.

Lemma Forall_repeat (P : Z -> Prop) x n : P x -> Forall P (repeat x n).
Proof. intros. apply Forall_forall. intros y Hy. apply repeat_spec in Hy. subst. assumption. Qed.

Lemma multipliers_spec N dim : 1 <= N -> (dim = 1 \/ dim = 2 \/ dim = 3)%nat ->
  zprod (multipliers N dim) = N /\ Forall (fun b => 0 < b) (multipliers N dim).
Proof.
  intros HN [-> | [-> | ->]]; cbn [multipliers].
  - destruct (Z.ltb_spec 1 N); simpl; split; try lia; repeat constructor; lia.
  - pose proof (count_div_spec (Z.to_nat N) 2 N ltac:(lia) HN) as [I1 I2].
    destruct (count_div (Z.to_nat N) 2 N) as [e2 r]. cbn [fst snd] in *.
    destruct (Z.ltb_spec 1 r); rewrite zprod_app; cbn [zprod fold_right]; fold (zprod (repeat 2 e2)).
    + split; [lia|]. apply Forall_app. split; [repeat constructor; lia|apply Forall_repeat; lia].
    + split; [nia|]. apply Forall_app. split; [constructor|apply Forall_repeat; lia].
  - pose proof (count_div_spec (Z.to_nat N) 2 N ltac:(lia) HN) as [I1 I2].
    destruct (count_div (Z.to_nat N) 2 N) as [e2 r]. cbn [fst snd] in *.
    pose proof (count_div_spec (Z.to_nat r) 3 r ltac:(lia) I2) as [J1 J2].
    destruct (count_div (Z.to_nat r) 3 r) as [e3 r']. cbn [fst snd] in *.
    destruct (Z.ltb_spec 1 r'); rewrite !zprod_app; cbn [zprod fold_right];
      fold (zprod (repeat 2 e2)); fold (zprod (repeat 3 e3)).
    + split; [nia|]. apply Forall_app. split; [repeat constructor; lia|].
      apply Forall_app. split; apply Forall_repeat; lia.
    + split; [nia|]. apply Forall_app. split; [constructor|].
      apply Forall_app. split; apply Forall_repeat; lia.
Qed.

Lemma argmax_go_bound d gs bl best dmax :
  argmax_go d gs bl best dmax = dmax \/ (d <= argmax_go d gs bl best dmax < d + length bl)%nat.
Proof.
  revert d bl best dmax. induction gs as [|g gs IH]; intros d bl best dmax; cbn [argmax_go]; [left; reflexivity|].
  destruct bl as [|b bl]; [left; reflexivity|]. cbn [length].
  destruct (best <=? (g + b - 1) / b).
  - destruct (IH (S d) bl ((g + b - 1) / b) d) as [E|E]; right; lia.
  - destruct (IH (S d) bl best dmax) as [E|E]; [left; exact E|right; lia].
Qed.

Lemma argmax_lt gs bl : bl <> [] -> (argmax gs bl < length bl)%nat.
Proof.
  intros H. unfold argmax. destruct (argmax_go_bound 0 gs bl (-1) 0) as [E|E]; [|lia].
  rewrite E. destruct bl; [congruence|simpl; lia].
Qed.

Lemma mul_at_spec k fac l : (k < length l)%nat -> 0 < fac -> Forall (fun b => 0 < b) l ->
  zprod (mul_at k fac l) = fac * zprod l /\ length (mul_at k fac l) = length l /\
  Forall (fun b => 0 < b) (mul_at k fac l).
Proof.
  intros Hk Hf H. revert k Hk. induction H as [|x l Hx Hl IH]; intros k Hk; [simpl in Hk; lia|].
  destruct k; cbn [mul_at zprod fold_right length].
  - split; [lia|]. split; [reflexivity|]. constructor; [nia|assumption].
  - destruct (IH k ltac:(simpl in Hk; lia)) as (I1 & I2 & I3). fold (zprod (mul_at k fac l)). fold (zprod l).
    split; [nia|]. split; [lia|]. constructor; assumption.
Qed.

Lemma fold_mul_at_spec gs ms : Forall (fun b => 0 < b) ms -> forall bl,
  Forall (fun b => 0 < b) bl -> bl <> [] ->
  zprod (fold_left (fun bl0 fac => mul_at (argmax gs bl0) fac bl0) ms bl) = zprod ms * zprod bl /\
  length (fold_left (fun bl0 fac => mul_at (argmax gs bl0) fac bl0) ms bl) = length bl /\
  Forall (fun b => 0 < b) (fold_left (fun bl0 fac => mul_at (argmax gs bl0) fac bl0) ms bl).
Proof.
  induction 1 as [|m ms Hm Hms IH]; intros bl Hbl Hne; cbn [fold_left].
  - change (zprod []) with 1. split; [lia|]. split; [reflexivity|assumption].
  - destruct (mul_at_spec (argmax gs bl) m bl (argmax_lt gs bl Hne) Hm Hbl) as (A1 & A2 & A3).
    assert (Hne' : mul_at (argmax gs bl) m bl <> []).
    { intros E. rewrite E in A2. destruct bl; [congruence|discriminate]. }
    destruct (IH _ A3 Hne') as (I1 & I2 & I3).
    rewrite zprod_cons. split; [rewrite I1, A1; lia|]. split; [lia|assumption].
Qed.

Lemma hybrid_spec N gs : 1 <= N -> (length gs = 1 \/ length gs = 2 \/ length gs = 3)%nat ->
  zprod (hybrid N gs) = N /\ length (hybrid N gs) = length gs /\ Forall (fun b => 0 < b) (hybrid N gs).
Proof.
  intros HN Hd. unfold hybrid.
  destruct (multipliers_spec N (length gs) HN Hd) as [M1 M2].
  assert (Hne : repeat 1 (length gs) <> []) by (destruct (length gs); [lia|discriminate]).
  assert (Hpos : Forall (fun b => 0 < b) (repeat 1 (length gs))) by (apply Forall_repeat; lia).
  destruct (fold_mul_at_spec gs _ M2 (repeat 1 (length gs)) Hpos Hne) as (F1 & F2 & F3).
  rewrite zprod_repeat_1, M1 in F1. rewrite repeat_length in F2.
  split; [lia|]. split; assumption.
Qed.

(* prod(nBlocks) = nProcs, one block count per axis, all positive — for both algorithms *)
Theorem nblocks_product a nProcs gs nb : 1 <= nProcs -> nBlocks a nProcs gs = Some nb ->
  zprod nb = nProcs /\ length nb = length gs /\ Forall (fun b => 0 < b) nb.
Proof.
  intros HN H. unfold nBlocks in H.
  assert (Hd : (length gs = 1 \/ length gs = 2 \/ length gs = 3)%nat /\
               Some (match a with ChatGPT => chatgpt nProcs (length gs) | Hybrid => hybrid nProcs gs end) = Some nb).
  { destruct (length gs) as [|[|[|[|n]]]]; try discriminate; split; auto. }
  destruct Hd as [Hd E]. injection E as <-. destruct a.
  - apply chatgpt_spec; lia.
  - apply hybrid_spec; assumption.
Qed.

Lemma nblocks_defined a nProcs gs : (length gs = 1 \/ length gs = 2 \/ length gs = 3)%nat ->
  exists nb, nBlocks a nProcs gs = Some nb.
Proof. intros [E|[E|E]]; unfold nBlocks; rewrite E; eauto. Qed.

(* C16 partition clause, end to end: whatever nProcs >= 1, 1-3-D grid and algorithm, the blocks
   that localBounds assigns to the ranks 0..nProcs-1 partition the grid *)
Theorem partition a o nProcs gs : 1 <= nProcs -> (length gs = 1 \/ length gs = 2 \/ length gs = 3)%nat ->
  exists nb, nBlocks a nProcs gs = Some nb /\ zprod nb = nProcs /\
    forall x, Forall2 (fun xi g => 0 <= xi < g) x gs ->
      exists g, 0 <= g < nProcs /\ owns o gs nb g x = true /\
        forall g', owns o gs nb g' x = true -> g' = g.
Proof.
  intros HN Hd. destruct (nblocks_defined a nProcs gs Hd) as [nb E].
  destruct (nblocks_product a nProcs gs nb HN E) as (P1 & P2 & P3).
  exists nb. split; [exact E|]. split; [exact P1|].
  intros x Hx. rewrite <- P1. apply partition_of_blocks; [assumption|lia|assumption].
Qed.
